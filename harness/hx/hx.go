// Package hx: shared plumbing of the correspondence harnesses — one seeded PRNG per run,
// JSONL case output with Coq terms, progress marker for crash attribution.
package hx

import (
	"bufio"
	"encoding/json"
	"flag"
	"fmt"
	"os"
	"path/filepath"
	"sort"
	"strings"
)

// ---------- PRNG (splitmix64; every random choice of a run derives from one state) ----------

type Rand struct{ s uint64 }

func NewRand(seed uint64) *Rand { return &Rand{s: seed*0x9E3779B97F4A7C15 + 0x1234567} }
func (r *Rand) U64() uint64 {
	r.s += 0x9E3779B97F4A7C15
	z := r.s
	z = (z ^ (z >> 30)) * 0xBF58476D1CE4E5B9
	z = (z ^ (z >> 27)) * 0x94D049BB133111EB
	return z ^ (z >> 31)
}
func (r *Rand) Intn(n int) int {
	if n <= 0 {
		return 0
	}
	return int(r.U64() % uint64(n))
}
func (r *Rand) Bool() bool       { return r.U64()&1 == 1 }
func (r *Rand) Chance(p int) bool { return r.Intn(100) < p } // p percent
func (r *Rand) Bytes(n int) []byte {
	b := make([]byte, n)
	for i := range b {
		b[i] = byte(r.U64())
	}
	return b
}
func (r *Rand) Pick(n int) int { return r.Intn(n) }
func (r *Rand) Split() *Rand   { return NewRand(r.U64()) }

// ---------- Coq term printers ----------

func CoqBytes(b []byte) string {
	var sb strings.Builder
	sb.WriteString("[")
	for i, x := range b {
		if i > 0 {
			sb.WriteString(";")
		}
		fmt.Fprintf(&sb, "%d", x)
	}
	sb.WriteString("]")
	return sb.String()
}
func CoqNList(xs []uint64) string {
	var sb strings.Builder
	sb.WriteString("[")
	for i, x := range xs {
		if i > 0 {
			sb.WriteString(";")
		}
		fmt.Fprintf(&sb, "%d", x)
	}
	sb.WriteString("]")
	return sb.String()
}
func CoqBool(b bool) string {
	if b {
		return "true"
	}
	return "false"
}
func CoqZ(z int64) string {
	if z < 0 {
		return fmt.Sprintf("(%d)%%Z", z)
	}
	return fmt.Sprintf("%d%%Z", z)
}
func CoqList(items []string) string { return "[" + strings.Join(items, "; ") + "]" }

// CoqString renders a Go string as a list of byte values (models use list N).
func CoqStr(s string) string { return CoqBytes([]byte(s)) }

// ---------- case output ----------

type Case struct {
	ID         int         `json:"id"`
	Kind       string      `json:"kind"`
	Coq        string      `json:"coq"`            // Coq term of the property's [case] type
	Desc       interface{} `json:"desc"`           // complete, replayable input
	Obs        interface{} `json:"obs,omitempty"`  // what the implementation did
	Nontrivial bool        `json:"nontrivial"`
	Sig        string      `json:"sig"`            // distinctness signature
	Origin     string      `json:"origin"`         // corpus | gen | replay
}

type Out struct {
	dir      string
	f        *os.File
	w        *bufio.Writer
	progress string
	n        int
	Stats    map[string]int
}

type Flags struct {
	Seed   uint64
	N      int
	Tier   string
	OutDir string
	In     string
	Scale  int
}

func ParseFlags() Flags {
	var f Flags
	flag.Uint64Var(&f.Seed, "seed", 1, "PRNG seed")
	flag.IntVar(&f.N, "n", 100, "number of generated cases")
	flag.StringVar(&f.Tier, "tier", "quick", "quick|thorough")
	flag.StringVar(&f.OutDir, "out", "", "output directory")
	flag.StringVar(&f.In, "in", "", "JSONL/JSON file of input descriptions to run instead of generating")
	flag.IntVar(&f.Scale, "scale", 1, "size scale")
	flag.Parse()
	if f.OutDir == "" {
		fmt.Fprintln(os.Stderr, "need -out")
		os.Exit(2)
	}
	return f
}

func NewOut(dir string) *Out {
	os.MkdirAll(dir, 0755)
	f, err := os.Create(filepath.Join(dir, "cases.jsonl"))
	if err != nil {
		panic(err)
	}
	return &Out{dir: dir, f: f, w: bufio.NewWriterSize(f, 1<<20), progress: filepath.Join(dir, "progress.json"), Stats: map[string]int{}}
}

// Begin records the input about to be run, so that a process-killing panic can be
// attributed to it by the driver.
func (o *Out) Begin(kind string, desc interface{}) {
	b, _ := json.Marshal(map[string]interface{}{"kind": kind, "desc": desc, "n": o.n})
	os.WriteFile(o.progress, b, 0644)
}

func (o *Out) Emit(c Case) {
	c.ID = o.n
	o.n++
	b, err := json.Marshal(c)
	if err != nil {
		panic(err)
	}
	o.w.Write(b)
	o.w.WriteByte('\n')
	o.Stats["kind:"+c.Kind]++
}

func (o *Out) Count(key string) { o.Stats[key]++ }

func (o *Out) Close() {
	o.w.Flush()
	o.f.Close()
	keys := make([]string, 0, len(o.Stats))
	for k := range o.Stats {
		keys = append(keys, k)
	}
	sort.Strings(keys)
	b, _ := json.MarshalIndent(o.Stats, "", " ")
	os.WriteFile(filepath.Join(o.dir, "stats.json"), b, 0644)
	os.Remove(o.progress)
}

// ReadInputs loads input descriptions: a JSONL file whose lines are either a bare desc
// or an object with "kind" and "desc".
type Input struct {
	Kind string          `json:"kind"`
	Desc json.RawMessage `json:"desc"`
}

func ReadInputs(path string) []Input {
	data, err := os.ReadFile(path)
	if err != nil {
		panic(err)
	}
	var res []Input
	for _, line := range strings.Split(string(data), "\n") {
		line = strings.TrimSpace(line)
		if line == "" {
			continue
		}
		var in Input
		if err := json.Unmarshal([]byte(line), &in); err != nil {
			panic(fmt.Sprintf("bad input line: %v", err))
		}
		res = append(res, in)
	}
	return res
}
