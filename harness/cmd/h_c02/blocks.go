// blocks.go: the "blocks" case kind of h_c02 (layer B of C02).  Builds REAL TSM files with
// chosen block boundaries (tsm1.NewTSMWriter, one Write per block), deletes chosen ranges in
// chosen files (per-file tombstones), opens them in a real tsm1.FileStore and reads one key
// through the real KeyCursor block by block (Read<T>Block / Read<T>ArrayBlock + Next) in both
// directions from several seek times, and through the engine cursors that merge cache values
// in (array cursor with a small result buffer, iterator cursor; verif_export_c02_cursor.go).
package main

import (
	"context"
	"crypto/sha1"
	"encoding/json"
	"fmt"
	"math"
	"os"
	"path/filepath"
	"strings"

	"github.com/influxdata/influxdb/tsdb"
	"github.com/influxdata/influxdb/tsdb/engine/tsm1"
	"verifharness/hx"
)

type bfileD struct {
	Blocks [][]int64  `json:"blocks"` // timestamps of each block (one TSMWriter.Write each)
	VSeed  int64      `json:"vseed"`  // values: run_val typ vseed <running index in the file>
	Tombs  [][2]int64 `json:"tombs,omitempty"`
}
type breadD struct {
	API string `json:"api"` // block | array | acur (array cursor + cache) | icur (iterator cursor + cache)
	T   int64  `json:"t"`
	Asc bool   `json:"asc"`
	End int64  `json:"end,omitempty"` // acur
	Buf int    `json:"buf,omitempty"` // acur: result buffer slots
}
type blocksD struct {
	Typ   int      `json:"typ"`
	Files []bfileD `json:"files"`
	Cache []int64  `json:"cache,omitempty"` // cache writes in arrival order (duplicates allowed); values run_val typ 99 i
	Reads []breadD `json:"reads"`
}

var blocksKey = []byte("k")

// runVal mirrors run_val of Run.v: the raw literal (as tvObs.Raw) and the Go value
func runVal(typ int, vseed int64, i int) (interface{}, tvObs) {
	switch typ {
	case 0:
		bits := uint64(4607182418800017408) + uint64(vseed)*4294967296 + uint64(i)
		return math.Float64frombits(bits), tvObs{Typ: 0, Raw: fmt.Sprint(bits)}
	case 1:
		v := vseed*1000003 + int64(i)
		return v, tvObs{Typ: 1, Raw: bareZ(v)}
	case 2:
		b := (int64(i)+vseed)&1 == 1
		return b, tvObs{Typ: 2, Raw: hx.CoqBool(b)}
	case 3:
		s := []byte{118, byte(vseed), byte(i), byte(i >> 8)}
		return string(s), tvObs{Typ: 3, Raw: hx.CoqBytes(s), Bytes: s}
	default:
		v := uint64(vseed)*7919 + uint64(i)
		return v, tvObs{Typ: 4, Raw: fmt.Sprint(v)}
	}
}

func obsOf(typ int, t int64, v interface{}) tvObs {
	switch x := v.(type) {
	case float64:
		return tvObs{t, 0, fmt.Sprint(math.Float64bits(x)), nil}
	case int64:
		return tvObs{t, 1, bareZ(x), nil}
	case bool:
		return tvObs{t, 2, hx.CoqBool(x), nil}
	case string:
		return tvObs{t, 3, hx.CoqBytes([]byte(x)), []byte(x)}
	case uint64:
		return tvObs{t, 4, fmt.Sprint(x), nil}
	}
	return tvObs{t, typ, "?", nil}
}

func coqRanges(rs [][2]int64) string {
	xs := make([]string, len(rs))
	for i, r := range rs {
		xs[i] = fmt.Sprintf("(%s,%s)", hx.CoqZ(r[0]), hx.CoqZ(r[1]))
	}
	return hx.CoqList(xs)
}

func coqBlocksObs(bl [][]tvObs) string {
	xs := make([]string, len(bl))
	for i, b := range bl {
		xs[i] = coqTVs(b)
	}
	return "(Some " + hx.CoqList(xs) + ")"
}

// one block through Read<T>Block
func readTypedBlock(kc *tsm1.KeyCursor, typ int) ([]tvObs, error) {
	var out []tvObs
	switch typ {
	case 0:
		var buf []tsm1.FloatValue
		vs, err := kc.ReadFloatBlock(&buf)
		if err != nil {
			return nil, err
		}
		for _, v := range vs {
			out = append(out, obsOf(typ, v.UnixNano(), v.Value()))
		}
	case 1:
		var buf []tsm1.IntegerValue
		vs, err := kc.ReadIntegerBlock(&buf)
		if err != nil {
			return nil, err
		}
		for _, v := range vs {
			out = append(out, obsOf(typ, v.UnixNano(), v.Value()))
		}
	case 2:
		var buf []tsm1.BooleanValue
		vs, err := kc.ReadBooleanBlock(&buf)
		if err != nil {
			return nil, err
		}
		for _, v := range vs {
			out = append(out, obsOf(typ, v.UnixNano(), v.Value()))
		}
	case 3:
		var buf []tsm1.StringValue
		vs, err := kc.ReadStringBlock(&buf)
		if err != nil {
			return nil, err
		}
		for _, v := range vs {
			out = append(out, obsOf(typ, v.UnixNano(), v.Value()))
		}
	default:
		var buf []tsm1.UnsignedValue
		vs, err := kc.ReadUnsignedBlock(&buf)
		if err != nil {
			return nil, err
		}
		for _, v := range vs {
			out = append(out, obsOf(typ, v.UnixNano(), v.Value()))
		}
	}
	return out, nil
}

// one block through Read<T>ArrayBlock
func readArrayBlock(kc *tsm1.KeyCursor, typ int) ([]tvObs, error) {
	var out []tvObs
	switch typ {
	case 0:
		a, err := kc.ReadFloatArrayBlock(tsdb.NewFloatArrayLen(0))
		if err != nil {
			return nil, err
		}
		for i := range a.Timestamps {
			out = append(out, obsOf(typ, a.Timestamps[i], a.Values[i]))
		}
	case 1:
		a, err := kc.ReadIntegerArrayBlock(tsdb.NewIntegerArrayLen(0))
		if err != nil {
			return nil, err
		}
		for i := range a.Timestamps {
			out = append(out, obsOf(typ, a.Timestamps[i], a.Values[i]))
		}
	case 2:
		a, err := kc.ReadBooleanArrayBlock(tsdb.NewBooleanArrayLen(0))
		if err != nil {
			return nil, err
		}
		for i := range a.Timestamps {
			out = append(out, obsOf(typ, a.Timestamps[i], a.Values[i]))
		}
	case 3:
		a, err := kc.ReadStringArrayBlock(tsdb.NewStringArrayLen(0))
		if err != nil {
			return nil, err
		}
		for i := range a.Timestamps {
			out = append(out, obsOf(typ, a.Timestamps[i], a.Values[i]))
		}
	default:
		a, err := kc.ReadUnsignedArrayBlock(tsdb.NewUnsignedArrayLen(0))
		if err != nil {
			return nil, err
		}
		for i := range a.Timestamps {
			out = append(out, obsOf(typ, a.Timestamps[i], a.Values[i]))
		}
	}
	return out, nil
}

func runBlocks(d blocksD, origin string) (hx.Case, counter) {
	cnt := counter{}
	fail := func(msg string) (hx.Case, counter) {
		// a setup failure is an observable: an empty read list with a failed read
		return hx.Case{Kind: "blocks", Coq: "CBlocks [] [XBRead 0 true None]", Desc: d, Obs: map[string]string{"setup": msg},
			Sig: "setup:" + msg, Origin: origin}, cnt
	}
	// an input outside the domain (an empty block, timestamps not strictly increasing within a
	// file, unknown type or api: the shrinker may propose such) is not a case at all
	valid := d.Typ >= 0 && d.Typ <= 4
	for _, f := range d.Files {
		first := true
		var prev int64
		for _, b := range f.Blocks {
			if len(b) == 0 {
				valid = false
			}
			for _, t := range b {
				if !first && t <= prev {
					valid = false
				}
				first, prev = false, t
			}
		}
	}
	for _, rd := range d.Reads {
		switch rd.API {
		case "block", "array":
		case "acur", "icur":
			if d.Typ != 0 && d.Typ != 1 {
				valid = false
			}
		default:
			valid = false
		}
	}
	if !valid {
		return hx.Case{Kind: "blocks", Coq: "CBlocks [] []", Desc: d, Obs: map[string]string{"invalid": "input outside the domain"},
			Sig: "invalid", Origin: origin}, cnt
	}
	tmp := ""
	if os.Getenv("TMPDIR") == "" {
		if st, err := os.Stat("/dev/shm"); err == nil && st.IsDir() {
			tmp = "/dev/shm"
		}
	}
	dir, err := os.MkdirTemp(tmp, "h_c02b_")
	if err != nil {
		return fail("tmpdir")
	}
	defer os.RemoveAll(dir)

	total := 0
	nblocks := 0
	for i, f := range d.Files {
		if len(f.Blocks) == 0 {
			continue // a file without the key: write another key so the file exists
		}
		path := filepath.Join(dir, fmt.Sprintf("%09d-%09d.tsm", i+1, 1))
		fh, err := os.Create(path)
		if err != nil {
			return fail("create")
		}
		w, err := tsm1.NewTSMWriter(fh)
		if err != nil {
			return fail("writer")
		}
		idx := 0
		for _, b := range f.Blocks {
			vals := make([]tsm1.Value, len(b))
			for j, t := range b {
				gv, _ := runVal(d.Typ, f.VSeed, idx)
				vals[j] = tsm1.NewValue(t, gv)
				idx++
			}
			if err := w.Write(blocksKey, vals); err != nil {
				return fail("write: " + err.Error())
			}
			total += len(b)
			nblocks++
		}
		if err := w.WriteIndex(); err != nil {
			return fail("index: " + err.Error())
		}
		if err := w.Close(); err != nil {
			return fail("close")
		}
	}
	fs := tsm1.NewFileStore(dir)
	if err := fs.Open(); err != nil {
		return fail("open: " + err.Error())
	}
	defer fs.Close()
	byPath := map[string]tsm1.TSMFile{}
	for _, f := range fs.Files() {
		byPath[filepath.Base(f.Path())] = f
	}
	ntombs := 0
	for i, f := range d.Files {
		r := byPath[fmt.Sprintf("%09d-%09d.tsm", i+1, 1)]
		if r == nil {
			continue
		}
		for _, tb := range f.Tombs {
			if err := r.DeleteRange([][]byte{blocksKey}, tb[0], tb[1]); err != nil {
				return fail("delete: " + err.Error())
			}
			ntombs++
		}
	}
	// what the cursor will be given: effective tombstones and whether the key still has entries;
	// the entries must be exactly the blocks written
	layoutOK := true
	cfiles := make([]string, len(d.Files))
	type effD struct {
		Present bool       `json:"present"`
		Tombs   [][2]int64 `json:"tombs"`
	}
	effs := make([]effD, len(d.Files))
	for i, f := range d.Files {
		var eff [][2]int64
		present := false
		if r := byPath[fmt.Sprintf("%09d-%09d.tsm", i+1, 1)]; r != nil {
			for _, tr := range r.TombstoneRange(blocksKey) {
				eff = append(eff, [2]int64{tr.Min, tr.Max})
			}
			es := r.Entries(blocksKey)
			present = len(es) > 0
			if present {
				if len(es) != len(f.Blocks) {
					layoutOK = false
				} else {
					for j, e := range es {
						if e.MinTime != f.Blocks[j][0] || e.MaxTime != f.Blocks[j][len(f.Blocks[j])-1] {
							layoutOK = false
						}
					}
				}
			}
		}
		effs[i] = effD{present, eff}
		bl := make([]string, len(f.Blocks))
		for j, b := range f.Blocks {
			ts := make([]string, len(b))
			for k, t := range b {
				ts[k] = bareZ(t)
			}
			bl[j] = "[" + strings.Join(ts, ";") + "]"
		}
		cfiles[i] = fmt.Sprintf("XF [%s]%%Z %d %d %s %s %s", strings.Join(bl, ";"), d.Typ, f.VSeed, coqRanges(f.Tombs), coqRanges(eff), hx.CoqBool(present))
	}
	if !layoutOK {
		return fail("layout")
	}

	// cache values in arrival order, and the Coq term for them
	var cacheVals []tsm1.Value
	var cacheObs []tvObs
	for i, t := range d.Cache {
		gv, ob := runVal(d.Typ, 99, i)
		ob.T = t
		cacheVals = append(cacheVals, tsm1.NewValue(t, gv))
		cacheObs = append(cacheObs, ob)
	}

	limit := 4*(total+len(d.Cache)) + 16
	creads := make([]string, 0, len(d.Reads))
	type robs struct {
		Blocks [][]tvObs `json:"blocks,omitempty"`
		Vals   []tvObs   `json:"vals,omitempty"`
		Err    string    `json:"err,omitempty"`
	}
	obs := make([]robs, 0, len(d.Reads))
	nonempty := false
	maxLocs := 0
	for _, rd := range d.Reads {
		rd := rd
		var blocks [][]tvObs
		var vals []tvObs
		err, _ := guard(func() error {
			kc := fs.KeyCursor(context.Background(), blocksKey, rd.T, rd.Asc)
			switch rd.API {
			case "block", "array":
				defer kc.Close()
				for n := 0; ; n++ {
					if n > limit {
						return fmt.Errorf("overrun")
					}
					var b []tvObs
					var err error
					if rd.API == "block" {
						b, err = readTypedBlock(kc, d.Typ)
					} else {
						b, err = readArrayBlock(kc, d.Typ)
					}
					if err != nil {
						return err
					}
					if len(b) == 0 {
						return nil
					}
					blocks = append(blocks, b)
					kc.Next()
				}
			case "acur":
				// Cache.Values de-duplicates: use the real cache
				c := tsm1.NewCache(0)
				if len(cacheVals) > 0 {
					if err := c.WriteMulti(map[string][]tsm1.Value{string(blocksKey): cacheVals}); err != nil {
						return err
					}
				}
				cv := c.Values(blocksKey)
				if d.Typ == 1 {
					cur := tsm1.VerifIntegerArrayCursor(rd.Asc, rd.Buf, rd.T, rd.End, cv, kc)
					defer cur.Close()
					for n := 0; ; n++ {
						if n > limit {
							return fmt.Errorf("overrun")
						}
						a := cur.Next()
						if a.Len() == 0 {
							return nil
						}
						for i := range a.Timestamps {
							vals = append(vals, obsOf(1, a.Timestamps[i], a.Values[i]))
						}
					}
				}
				cur := tsm1.VerifFloatArrayCursor(rd.Asc, rd.Buf, rd.T, rd.End, cv, kc)
				defer cur.Close()
				for n := 0; ; n++ {
					if n > limit {
						return fmt.Errorf("overrun")
					}
					a := cur.Next()
					if a.Len() == 0 {
						return nil
					}
					for i := range a.Timestamps {
						vals = append(vals, obsOf(0, a.Timestamps[i], a.Values[i]))
					}
				}
			case "icur":
				c := tsm1.NewCache(0)
				if len(cacheVals) > 0 {
					if err := c.WriteMulti(map[string][]tsm1.Value{string(blocksKey): cacheVals}); err != nil {
						return err
					}
				}
				cv := c.Values(blocksKey)
				if d.Typ == 1 {
					ts, vs := tsm1.VerifIntegerCursorAll(rd.T, rd.Asc, cv, kc, limit)
					if len(ts) >= limit {
						return fmt.Errorf("overrun")
					}
					for i := range ts {
						vals = append(vals, obsOf(1, ts[i], vs[i]))
					}
					return nil
				}
				ts, vs := tsm1.VerifFloatCursorAll(rd.T, rd.Asc, cv, kc, limit)
				if len(ts) >= limit {
					return fmt.Errorf("overrun")
				}
				for i := range ts {
					vals = append(vals, obsOf(0, ts[i], vs[i]))
				}
				return nil
			}
			return fmt.Errorf("unknown api %q", rd.API)
		})
		cnt.Count("bread:" + rd.API + map[bool]string{true: ":asc", false: ":desc"}[rd.Asc])
		ro := robs{Blocks: blocks, Vals: vals}
		res := ""
		switch rd.API {
		case "block", "array":
			ctor := map[string]string{"block": "XBRead", "array": "XARead"}[rd.API]
			if err != nil {
				ro.Err = err.Error()
				res = "None"
			} else {
				res = coqBlocksObs(blocks)
			}
			creads = append(creads, fmt.Sprintf("%s %s %s %s", ctor, hx.CoqZ(rd.T), hx.CoqBool(rd.Asc), res))
			if len(blocks) > 0 {
				nonempty = true
			}
			if len(blocks) > maxLocs {
				maxLocs = len(blocks)
			}
		default:
			if err != nil {
				ro.Err = err.Error()
				res = "None"
			} else {
				res = "(Some " + coqTVs(vals) + ")"
			}
			api := map[string]int{"acur": 0, "icur": 1}[rd.API]
			end := rd.End
			if rd.API == "icur" { // no end cut at this level
				if rd.Asc {
					end = math.MaxInt64
				} else {
					end = math.MinInt64
				}
			}
			creads = append(creads, fmt.Sprintf("XCRead %d %d %s %s %s %s %s", api, rd.Buf, hx.CoqZ(rd.T), hx.CoqZ(end), hx.CoqBool(rd.Asc), coqTVs(cacheObs), res))
			if len(vals) > 0 {
				nonempty = true
			}
		}
		obs = append(obs, ro)
	}
	cnt.Count(fmt.Sprintf("bfiles:%d", len(d.Files)))
	switch {
	case nblocks > 12:
		cnt.Count("bblocks:>12")
	case nblocks > 4:
		cnt.Count("bblocks:5-12")
	default:
		cnt.Count("bblocks:<=4")
	}
	if ntombs > 0 {
		cnt.Count("btombs:yes")
	}
	cnt.Count(fmt.Sprintf("btyp:%d", d.Typ))
	db, _ := json.Marshal(d)
	return hx.Case{
		Kind:       "blocks",
		Coq:        fmt.Sprintf("CBlocks %s %s", hx.CoqList(cfiles), hx.CoqList(creads)),
		Desc:       d,
		Obs:        map[string]interface{}{"eff": effs, "reads": obs},
		Nontrivial: nonempty && len(d.Files) > 0,
		Sig:        fmt.Sprintf("blocks:%x", sha1.Sum(db)),
		Origin:     origin,
	}, cnt
}

// ---------- generation ----------

// overlapping files: each file covers a random window of a small time axis with blocks of
// 1-5 values; >12 block locations per key in most cases
func genBlocks(r *hx.Rand, shape int) blocksD {
	d := blocksD{Typ: []int{1, 1, 0, 1, 4, 2, 3, 1}[r.Intn(8)]}
	nf := 2 + r.Intn(5)
	span := int64(40 + r.Intn(80))
	base := int64(0)
	step := int64(1)
	switch r.Intn(10) {
	case 0:
		base = math.MinInt64 + 2 // influxql.MinTime
	case 1:
		base = math.MaxInt64 - 1 - span // up to influxql.MaxTime
	case 2:
		base = -span / 2
	case 3:
		step = 1000
	}
	for i := 0; i < nf; i++ {
		f := bfileD{VSeed: int64(i + 1)}
		var lo, hi int64
		switch shape {
		case 1: // every file spans everything: maximal overlap, > 12 locations
			lo, hi = 0, span
		case 2: // staircase: each file overlaps its neighbours
			w := span / int64(nf)
			lo, hi = int64(i)*w-w/2, int64(i+1)*w+w/2
			if lo < 0 {
				lo = 0
			}
			if hi > span {
				hi = span
			}
		default:
			lo = int64(r.Intn(int(span)))
			hi = lo + 1 + int64(r.Intn(int(span-lo)))
		}
		dens := 30 + r.Intn(70)
		var cur []int64
		bsz := 1 + r.Intn(5)
		for t := lo; t <= hi; t++ {
			if r.Intn(100) < dens {
				cur = append(cur, base+t*step)
				if len(cur) >= bsz {
					f.Blocks = append(f.Blocks, cur)
					cur = nil
					bsz = 1 + r.Intn(5)
				}
			}
		}
		if len(cur) > 0 {
			f.Blocks = append(f.Blocks, cur)
		}
		if len(f.Blocks) == 0 {
			f.Blocks = [][]int64{{base + lo*step}}
		}
		for k := r.Intn(3); k > 0 && r.Chance(60); k-- {
			a := lo + int64(r.Intn(int(hi-lo+1)))
			b := a + int64(r.Intn(8))
			switch r.Intn(8) {
			case 0: // a whole block
				bl := f.Blocks[r.Intn(len(f.Blocks))]
				f.Tombs = append(f.Tombs, [2]int64{bl[0], bl[len(bl)-1]})
				continue
			case 1: // the tail of a block
				bl := f.Blocks[r.Intn(len(f.Blocks))]
				f.Tombs = append(f.Tombs, [2]int64{bl[len(bl)/2], bl[len(bl)-1]})
				continue
			case 2: // the head of a block
				bl := f.Blocks[r.Intn(len(f.Blocks))]
				f.Tombs = append(f.Tombs, [2]int64{bl[0], bl[len(bl)/2]})
				continue
			case 3:
				b = a + int64(r.Intn(int(span)))
			}
			f.Tombs = append(f.Tombs, [2]int64{base + a*step, base + b*step})
		}
		d.Files = append(d.Files, f)
	}
	if (d.Typ == 0 || d.Typ == 1) && r.Chance(70) {
		n := r.Intn(12)
		for i := 0; i < n; i++ {
			d.Cache = append(d.Cache, base+int64(r.Intn(int(span)+4))*step)
		}
	}
	seeks := []int64{base, base + span*step, base + (span/2)*step}
	// block boundaries and their neighbours
	for _, f := range d.Files {
		bl := f.Blocks[r.Intn(len(f.Blocks))]
		seeks = append(seeks, bl[0], bl[len(bl)-1], bl[0]-1, bl[len(bl)-1]+1)
	}
	seeks = append(seeks, math.MinInt64+2, math.MaxInt64-1)
	nr := 4 + r.Intn(4)
	for i := 0; i < nr; i++ {
		t := seeks[r.Intn(len(seeks))]
		if r.Chance(30) {
			t = base + int64(r.Intn(int(span)+1))*step
		}
		asc := r.Bool()
		api := "block"
		switch r.Intn(10) {
		case 0, 1:
			api = "array"
		case 2, 3:
			if d.Typ == 0 || d.Typ == 1 {
				api = "acur"
			}
		case 4:
			if d.Typ == 0 || d.Typ == 1 {
				api = "icur"
			}
		}
		rd := breadD{API: api, T: t, Asc: asc}
		if api == "acur" {
			rd.Buf = 1 + r.Intn(7)
			if asc {
				rd.End = math.MaxInt64 - 1
				if r.Chance(40) {
					rd.End = t + int64(r.Intn(int(span)))*step
					if rd.End < t { // overflow
						rd.End = math.MaxInt64 - 1
					}
				}
			} else {
				rd.End = math.MinInt64 + 2
				if r.Chance(40) {
					rd.End = t - int64(r.Intn(int(span)))*step
					if rd.End > t {
						rd.End = math.MinInt64 + 2
					}
				}
			}
		}
		d.Reads = append(d.Reads, rd)
	}
	return d
}

func seq(lo, hi, step int64) []int64 {
	var r []int64
	for t := lo; t <= hi; t += step {
		r = append(r, t)
	}
	return r
}

func allReads(ts []int64, apis ...string) []breadD {
	var r []breadD
	for _, api := range apis {
		for _, t := range ts {
			for _, asc := range []bool{true, false} {
				rd := breadD{API: api, T: t, Asc: asc}
				if api == "acur" {
					rd.Buf = 3
					rd.End = map[bool]int64{true: math.MaxInt64 - 1, false: math.MinInt64 + 2}[asc]
				}
				r = append(r, rd)
			}
		}
	}
	return r
}

func designedBlocks() []blocksD {
	var ds []blocksD
	// 1. the 7659585 shape: 14 one-point blocks in an old file and one block of a newer file
	//    overwriting the middle: 15 locations (> 12, the insertion-sort threshold of sort.Sort)
	{
		var old [][]int64
		for t := int64(1); t <= 14; t++ {
			old = append(old, []int64{t * 10})
		}
		ds = append(ds, blocksD{Typ: 1, Files: []bfileD{{Blocks: old, VSeed: 1}, {Blocks: [][]int64{{60, 70, 80}}, VSeed: 2}},
			Reads: allReads([]int64{0, 70, 200}, "block", "array")})
		// the same with the newer file in many blocks and a third generation on top
		ds = append(ds, blocksD{Typ: 0, Files: []bfileD{{Blocks: old, VSeed: 1}, {Blocks: [][]int64{{35, 40}, {50, 60}, {70, 75}, {100, 140}}, VSeed: 2},
			{Blocks: [][]int64{{10, 20, 30, 40, 50, 60, 70, 80, 90, 100, 110, 120, 130, 140}}, VSeed: 3}},
			Reads: allReads([]int64{5, 60, 65, 140}, "block")})
	}
	// 2. the f168b0b shape at small scale: a result batch (3 slots) ends inside a TSM block while
	//    cache values precede / interleave it
	ds = append(ds, blocksD{Typ: 1, Files: []bfileD{{Blocks: [][]int64{{10, 11, 12, 13, 14}, {20, 21, 22, 23, 24, 25, 26}}, VSeed: 1}},
		Cache: []int64{1, 2, 12, 30}, Reads: allReads([]int64{0, 12, 40}, "acur", "icur")})
	ds = append(ds, blocksD{Typ: 0, Files: []bfileD{{Blocks: [][]int64{{10, 11, 12, 13, 14}, {20, 21, 22, 23, 24, 25, 26}}, VSeed: 1},
		{Blocks: [][]int64{{5, 12, 22}}, VSeed: 2}}, Cache: []int64{1, 2, 12, 12, 30, 3}, Reads: allReads([]int64{0, 12, 40}, "acur", "icur")})
	// 3. partially tombstoned blocks: tail, head, middle, a whole block, everything
	ds = append(ds, blocksD{Typ: 1, Files: []bfileD{
		{Blocks: [][]int64{seq(0, 9, 1), seq(10, 19, 1), seq(20, 29, 1)}, VSeed: 1, Tombs: [][2]int64{{7, 12}, {25, 29}}},
		{Blocks: [][]int64{seq(5, 14, 1), seq(15, 24, 3)}, VSeed: 2, Tombs: [][2]int64{{5, 6}, {15, 24}}},
		{Blocks: [][]int64{{8, 9}, {11, 28}}, VSeed: 3, Tombs: [][2]int64{{0, 100}}}},
		Reads: allReads([]int64{-1, 0, 7, 12, 13, 24, 29, 30}, "block", "array")})
	// 4. adjacent tombstones that together cover the key: the index drops it
	ds = append(ds, blocksD{Typ: 1, Files: []bfileD{
		{Blocks: [][]int64{seq(0, 9, 1)}, VSeed: 1, Tombs: [][2]int64{{0, 4}, {5, 9}}},
		{Blocks: [][]int64{seq(3, 12, 1)}, VSeed: 2}},
		Reads: allReads([]int64{0, 5, 12}, "block")})
	// 5. seeks at the very ends of int64 (t-1 / t+1 wrap in FileStore.locations): model agreement only
	ds = append(ds, blocksD{Typ: 1, Files: []bfileD{{Blocks: [][]int64{{math.MinInt64 + 2, 0, math.MaxInt64 - 1}}, VSeed: 1}},
		Reads: allReads([]int64{math.MinInt64, math.MinInt64 + 1, math.MinInt64 + 2, math.MaxInt64 - 1, math.MaxInt64}, "block")})
	// 6. a block of a newer file strictly inside a block of an older one, descending from inside
	ds = append(ds, blocksD{Typ: 4, Files: []bfileD{{Blocks: [][]int64{seq(0, 20, 2), seq(22, 40, 2)}, VSeed: 1},
		{Blocks: [][]int64{{7, 8, 9}, {30, 31}}, VSeed: 2}, {Blocks: [][]int64{{8}, {21}, {40, 41}}, VSeed: 3}},
		Reads: allReads([]int64{8, 9, 21, 30, 41}, "block", "array")})
	// 7. all five types, three overlapping generations of 2-point blocks (20+ locations)
	for typ := 0; typ < 5; typ++ {
		var a, b, c [][]int64
		for t := int64(0); t < 16; t += 2 {
			a = append(a, []int64{t, t + 1})
			b = append(b, []int64{t + 1, t + 2})
			c = append(c, []int64{t*2 + 1, t*2 + 3})
		}
		ds = append(ds, blocksD{Typ: typ, Files: []bfileD{{Blocks: a, VSeed: 1}, {Blocks: b, VSeed: 2, Tombs: [][2]int64{{4, 6}}}, {Blocks: c, VSeed: 3}},
			Reads: allReads([]int64{0, 7, 33}, "block")})
	}
	return ds
}

