// h_c02: correspondence harness for C02 (reads equal a last-write-wins model of the shard).
// Runs op histories on a real tsdb.Shard (tsm1 engine, WAL on, background compactions off,
// snapshots/compactions invoked explicitly) and records write results, the field-type table
// and every read.
package main

import (
	"context"
	"crypto/sha1"
	"encoding/json"
	"fmt"
	"math"
	"os"
	"path/filepath"
	"runtime/pprof"
	"sort"
	"strings"
	"time"

	"github.com/influxdata/influxdb/models"
	"github.com/influxdata/influxdb/query"
	"github.com/influxdata/influxdb/tsdb"
	_ "github.com/influxdata/influxdb/tsdb/engine"
	"github.com/influxdata/influxdb/tsdb/engine/tsm1"
	_ "github.com/influxdata/influxdb/tsdb/index"
	"github.com/influxdata/influxdb/tsdb/index/inmem"
	"github.com/influxdata/influxql"
	"verifharness/hx"
)

// ---------- input description ----------

// value types use the TSM block type codes: 0 float 1 integer 2 boolean 3 string 4 unsigned
type fieldD struct {
	N string `json:"n"`
	T int    `json:"t"`
	V string `json:"v"` // float: IEEE bits (decimal), integer/unsigned: decimal, boolean: 0/1, string: hex
}
type pointD struct {
	M string   `json:"m"`
	S string   `json:"s"` // value of the single tag "s"
	T int64    `json:"t"`
	F []fieldD `json:"f"`
}
type runD struct { // n points (one field each) at start, start+step, ...; values derived from vseed
	M     string `json:"m"`
	S     string `json:"s"`
	F     string `json:"f"`
	Typ   int    `json:"typ"`
	Start int64  `json:"start"`
	Step  int64  `json:"step"`
	N     int    `json:"n"`
	VSeed int64  `json:"vseed"`
}
type serD struct {
	M string `json:"m"`
	S string `json:"s"`
}
type opD struct {
	Op   string   `json:"op"` // write snap snapbegin snapcommit compact delete reopen read
	Pts  []pointD `json:"pts,omitempty"`
	Runs []runD   `json:"runs,omitempty"`
	// compact
	Start int  `json:"start,omitempty"`
	Len   int  `json:"len,omitempty"`
	Fast  bool `json:"fast,omitempty"`
	// delete
	Ser []serD `json:"ser,omitempty"`
	Lo  int64  `json:"lo,omitempty"`
	Hi  int64  `json:"hi,omitempty"`
	// read
	M   string `json:"m,omitempty"`
	S   string `json:"s,omitempty"`
	F   string `json:"f,omitempty"`
	Asc bool   `json:"asc,omitempty"`
	API string `json:"api,omitempty"` // iter | cursor
}
type histD struct {
	Index string `json:"index"` // inmem | tsi1
	CSize int    `json:"csize"` // Compactor.Size (points per block in compaction output), 0 = default
	Ops   []opD  `json:"ops"`
}

// expandRun mirrors run_times/run_vals of coq/theories/C02/Run.v
func expandRun(r runD) []pointD {
	pts := make([]pointD, 0, r.N)
	for i := 0; i < r.N; i++ {
		var v string
		switch r.Typ {
		case 0:
			v = fmt.Sprint(uint64(4607182418800017408) + uint64(r.VSeed)*4294967296 + uint64(i)) // adjacent doubles >= 1.0
		case 1:
			v = fmt.Sprint(r.VSeed*1000003 + int64(i))
		case 2:
			v = fmt.Sprint((int64(i) + r.VSeed) & 1)
		case 3:
			v = fmt.Sprintf("%x", []byte{118, byte(r.VSeed), byte(i), byte(i >> 8)})
		default:
			v = fmt.Sprint(uint64(r.VSeed)*7919 + uint64(i))
		}
		pts = append(pts, pointD{M: r.M, S: r.S, T: r.Start + int64(i)*r.Step, F: []fieldD{{N: r.F, T: r.Typ, V: v}}})
	}
	return pts
}

func (o opD) points() []pointD {
	pts := append([]pointD(nil), o.Pts...)
	for _, r := range o.Runs {
		pts = append(pts, expandRun(r)...)
	}
	return pts
}

// ---------- Coq printing ----------

func coqStr(s string) string   { return hx.CoqBytes([]byte(s)) }
func tagBytes(s string) string { return coqStr(",s=" + s) }

func parseU(s string) uint64 { var u uint64; fmt.Sscan(s, &u); return u }
func parseI(s string) int64  { var u int64; fmt.Sscan(s, &u); return u }
func unhex(s string) []byte {
	var b []byte
	fmt.Sscanf(s, "%x", &b)
	return b
}

func coqValue(t int, v string) string {
	switch t {
	case 0:
		return fmt.Sprintf("VFloat %s%%N", v)
	case 1:
		return fmt.Sprintf("VInt %s", hx.CoqZ(parseI(v)))
	case 2:
		return fmt.Sprintf("VBool %s", hx.CoqBool(v == "1"))
	case 3:
		return fmt.Sprintf("VStr %s", hx.CoqBytes(unhex(v)))
	default:
		return fmt.Sprintf("VUint %s%%N", v)
	}
}

func coqPoint(p pointD) string {
	// models.NewPoint serialises the fields sorted by name: that is the order the field
	// iterator of the real point yields them in
	fl := append([]fieldD(nil), p.F...)
	sort.Slice(fl, func(i, j int) bool { return fl[i].N < fl[j].N })
	fs := make([]string, len(fl))
	for i, f := range fl {
		fs[i] = fmt.Sprintf("(%s, %s)", coqStr(f.N), coqValue(f.T, f.V))
	}
	return fmt.Sprintf("mkpt %s %s %s %s", coqStr(p.M), tagBytes(p.S), hx.CoqZ(p.T), hx.CoqList(fs))
}

type tvObs struct {
	T     int64
	Typ   int
	Raw   string // bare literal: decimal, true/false, or a byte list
	Bytes []byte // string values
}

func bareZ(z int64) string {
	if z < 0 {
		return fmt.Sprintf("(%d)", z)
	}
	return fmt.Sprint(z)
}

var valsFn = []string{"vals_float", "vals_int", "vals_bool", "vals_str", "vals_uint"}
var valsScope = []string{"%N", "%Z", "", "%N", "%N"}
var valCtor = []string{"VFloat", "VInt", "VBool", "VStr", "VUint"}

// typed value list: vals_int [1;2]%Z
func coqVals(typ int, raws []string) string {
	return fmt.Sprintf("(%s [%s]%s)", valsFn[typ], strings.Join(raws, ";"), valsScope[typ])
}

func coqTVs(vs []tvObs) string {
	if len(vs) == 0 {
		return "[]"
	}
	same := true
	for _, x := range vs {
		if x.Typ != vs[0].Typ {
			same = false
		}
	}
	if same {
		ts := make([]string, len(vs))
		raws := make([]string, len(vs))
		for i, x := range vs {
			ts[i] = bareZ(x.T)
			raws[i] = x.Raw
		}
		return fmt.Sprintf("(tvs [%s]%%Z %s)", strings.Join(ts, ";"), coqVals(vs[0].Typ, raws))
	}
	var sb strings.Builder
	sb.WriteString("[")
	for i, x := range vs {
		if i > 0 {
			sb.WriteString(";")
		}
		fmt.Fprintf(&sb, "(%s,%s (%s)%s)", hx.CoqZ(x.T), valCtor[x.Typ], x.Raw, valsScope[x.Typ])
	}
	sb.WriteString("]")
	return sb.String()
}

const dM = uint64(1)<<31 - 1

func dStep(acc, base, w uint64) uint64 { return (acc*base + w + 1) % dM }

// tvWords mirrors tv_words of Run.v
func tvWords(x tvObs) []uint64 {
	w64 := func(n uint64) []uint64 { return []uint64{n >> 32, n & 0xffffffff} }
	ws := append(w64(uint64(x.T)), uint64(x.Typ))
	switch x.Typ {
	case 0, 4:
		ws = append(ws, w64(parseU(x.Raw))...)
	case 1:
		ws = append(ws, w64(uint64(parseI(strings.Trim(x.Raw, "()"))))...)
	case 2:
		if x.Raw == "true" {
			ws = append(ws, 1)
		} else {
			ws = append(ws, 0)
		}
	case 3:
		ws = append(ws, uint64(len(x.Bytes)))
		for _, b := range x.Bytes {
			ws = append(ws, uint64(b))
		}
	}
	return ws
}

func digest(base uint64, vs []tvObs) uint64 {
	var acc uint64
	for _, x := range vs {
		for _, w := range tvWords(x) {
			acc = dStep(acc, base, w)
		}
	}
	return acc
}

func rawOf(t int, v string) string {
	switch t {
	case 1:
		return bareZ(parseI(v))
	case 2:
		return hx.CoqBool(v == "1")
	case 3:
		return hx.CoqBytes(unhex(v))
	}
	return v
}

// a batch as a Coq term: runs of single-field points of one series in the compact form
func coqBatch(o opD) string {
	var parts []string
	if len(o.Pts) > 0 {
		cps := make([]string, len(o.Pts))
		for i, p := range o.Pts {
			cps[i] = coqPoint(p)
		}
		parts = append(parts, hx.CoqList(cps))
	}
	for _, r := range o.Runs {
		parts = append(parts, fmt.Sprintf("pts1 %s %s %s (run_times %s %s %d) (run_vals %d %d %d)", coqStr(r.M), tagBytes(r.S), coqStr(r.F),
			hx.CoqZ(r.Start), hx.CoqZ(r.Step), r.N, r.Typ, r.VSeed, r.N))
	}
	if len(parts) == 0 {
		return "[]"
	}
	return "(" + strings.Join(parts, " ++ ") + ")"
}

// ---------- world ----------

type nopPlanner struct{}

func (nopPlanner) Plan(time.Time) []tsm1.CompactionGroup { return nil }
func (nopPlanner) PlanLevel(int) []tsm1.CompactionGroup  { return nil }
func (nopPlanner) PlanOptimize() []tsm1.CompactionGroup  { return nil }
func (nopPlanner) Release([]tsm1.CompactionGroup)        {}
func (nopPlanner) FullyCompacted() bool                  { return true }
func (nopPlanner) ForceFull()                            {}
func (nopPlanner) SetFileStore(*tsm1.FileStore)          {}

type idSets struct{ sets []*tsdb.SeriesIDSet }

func (a idSets) ForEach(f func(ids *tsdb.SeriesIDSet)) error {
	for _, s := range a.sets {
		f(s)
	}
	return nil
}

type world struct {
	dir   string
	index string
	csize int
	sfile *tsdb.SeriesFile
	sh    *tsdb.Shard
	eng   *tsm1.Engine
	snap  *tsm1.VerifSnap
}

func (w *world) open() error {
	w.sfile = tsdb.NewSeriesFile(filepath.Join(w.dir, "_series"))
	if err := w.sfile.Open(); err != nil {
		return err
	}
	opt := tsdb.NewEngineOptions()
	opt.IndexVersion = w.index
	opt.Config.WALDir = filepath.Join(w.dir, "wal")
	opt.WALEnabled = true
	if w.index == tsdb.InmemIndexName {
		opt.InmemIndex = inmem.NewIndex("db0", w.sfile)
	}
	opt.SeriesIDSets = idSets{[]*tsdb.SeriesIDSet{tsdb.NewSeriesIDSet()}}
	opt.CompactionPlannerCreator = func(tsdb.Config) interface{} { return nopPlanner{} }
	sh := tsdb.NewShard(1, filepath.Join(w.dir, "data", "db0", "rp0", "1"), filepath.Join(w.dir, "wal", "db0", "rp0", "1"), w.sfile, opt)
	sh.CompactionDisabled = true // no background snapshot/compaction goroutines; the Compactor itself stays usable
	if err := sh.Open(); err != nil {
		return err
	}
	w.sh = sh
	e, err := sh.Engine()
	if err != nil {
		return err
	}
	w.eng = e.(*tsm1.Engine)
	w.eng.Compactor.Size = w.csize
	w.snap = nil
	return nil
}

func (w *world) close() {
	if w.sh != nil {
		w.sh.Close()
		w.sh = nil
	}
	if w.sfile != nil {
		w.sfile.Close()
		w.sfile = nil
	}
}

func mkPoint(p pointD) (models.Point, error) {
	fields := models.Fields{}
	for _, f := range p.F {
		switch f.T {
		case 0:
			fields[f.N] = math.Float64frombits(parseU(f.V))
		case 1:
			fields[f.N] = parseI(f.V)
		case 2:
			fields[f.N] = f.V == "1"
		case 3:
			fields[f.N] = string(unhex(f.V))
		default:
			fields[f.N] = parseU(f.V)
		}
	}
	return models.NewPoint(p.M, models.NewTags(map[string]string{"s": p.S}), fields, time.Unix(0, p.T))
}

type serElem struct {
	name []byte
	tags models.Tags
}

func (e serElem) Name() []byte        { return e.name }
func (e serElem) Tags() models.Tags   { return e.tags }
func (e serElem) Deleted() bool       { return false }
func (e serElem) Expr() influxql.Expr { return nil }

type serIter struct {
	elems []serElem
	i     int
}

func (s *serIter) Close() error { return nil }
func (s *serIter) Next() (tsdb.SeriesElem, error) {
	if s.i >= len(s.elems) {
		return nil, nil
	}
	e := s.elems[s.i]
	s.i++
	return e, nil
}

func typeCode(t influxql.DataType) int {
	switch t {
	case influxql.Float:
		return 0
	case influxql.Integer:
		return 1
	case influxql.Boolean:
		return 2
	case influxql.String:
		return 3
	case influxql.Unsigned:
		return 4
	}
	return 9
}

// ftab reads the shard's field-type table for the given measurements (public API).
func (w *world) ftab(meas []string) (string, map[string]int) {
	var items []string
	m := map[string]int{}
	for _, name := range meas {
		mf := w.eng.MeasurementFieldSet().Fields([]byte(name)) // non-creating accessor
		if mf == nil {
			continue
		}
		fs := mf.FieldSet()
		keys := make([]string, 0, len(fs))
		for k := range fs {
			keys = append(keys, k)
		}
		sort.Strings(keys)
		for _, k := range keys {
			items = append(items, fmt.Sprintf("((%s, %s), %d%%N)", coqStr(name), coqStr(k), typeCode(fs[k])))
			m[name+"/"+k] = typeCode(fs[k])
		}
	}
	return hx.CoqList(items), m
}

func (w *world) readIter(o opD) (res []tvObs, err error) {
	opt := query.IteratorOptions{
		Expr:       &influxql.VarRef{Val: o.F},
		Dimensions: []string{"s"},
		Condition:  influxql.MustParseExpr(fmt.Sprintf("s = '%s'", o.S)),
		StartTime:  o.Lo, EndTime: o.Hi, Ascending: o.Asc, Ordered: true,
	}
	itr, err := w.sh.CreateIterator(context.Background(), &influxql.Measurement{Name: o.M}, opt)
	if err != nil {
		return nil, err
	}
	if itr == nil {
		return nil, nil
	}
	defer itr.Close()
	for {
		switch it := itr.(type) {
		case query.FloatIterator:
			p, err := it.Next()
			if err != nil || p == nil {
				return res, err
			}
			res = append(res, tvObs{p.Time, 0, fmt.Sprint(math.Float64bits(p.Value)), nil})
		case query.IntegerIterator:
			p, err := it.Next()
			if err != nil || p == nil {
				return res, err
			}
			res = append(res, tvObs{p.Time, 1, bareZ(p.Value), nil})
		case query.UnsignedIterator:
			p, err := it.Next()
			if err != nil || p == nil {
				return res, err
			}
			res = append(res, tvObs{p.Time, 4, fmt.Sprint(p.Value), nil})
		case query.BooleanIterator:
			p, err := it.Next()
			if err != nil || p == nil {
				return res, err
			}
			res = append(res, tvObs{p.Time, 2, hx.CoqBool(p.Value), nil})
		case query.StringIterator:
			p, err := it.Next()
			if err != nil || p == nil {
				return res, err
			}
			res = append(res, tvObs{p.Time, 3, hx.CoqBytes([]byte(p.Value)), []byte(p.Value)})
		default:
			return nil, fmt.Errorf("unknown iterator type %T", itr)
		}
	}
}

func (w *world) readCursor(o opD) (res []tvObs, err error) {
	ci, err := w.sh.CreateCursorIterator(context.Background())
	if err != nil {
		return nil, err
	}
	cur, err := ci.Next(context.Background(), &tsdb.CursorRequest{Name: []byte(o.M), Tags: models.NewTags(map[string]string{"s": o.S}),
		Field: o.F, Ascending: o.Asc, StartTime: o.Lo, EndTime: o.Hi})
	if err != nil {
		return nil, err
	}
	if cur == nil {
		return nil, nil
	}
	defer cur.Close()
	for {
		n := 0
		switch c := cur.(type) {
		case tsdb.FloatArrayCursor:
			a := c.Next()
			n = a.Len()
			for i := 0; i < n; i++ {
				res = append(res, tvObs{a.Timestamps[i], 0, fmt.Sprint(math.Float64bits(a.Values[i])), nil})
			}
		case tsdb.IntegerArrayCursor:
			a := c.Next()
			n = a.Len()
			for i := 0; i < n; i++ {
				res = append(res, tvObs{a.Timestamps[i], 1, bareZ(a.Values[i]), nil})
			}
		case tsdb.UnsignedArrayCursor:
			a := c.Next()
			n = a.Len()
			for i := 0; i < n; i++ {
				res = append(res, tvObs{a.Timestamps[i], 4, fmt.Sprint(a.Values[i]), nil})
			}
		case tsdb.BooleanArrayCursor:
			a := c.Next()
			n = a.Len()
			for i := 0; i < n; i++ {
				res = append(res, tvObs{a.Timestamps[i], 2, hx.CoqBool(a.Values[i]), nil})
			}
		case tsdb.StringArrayCursor:
			a := c.Next()
			n = a.Len()
			for i := 0; i < n; i++ {
				res = append(res, tvObs{a.Timestamps[i], 3, hx.CoqBytes([]byte(a.Values[i])), []byte(a.Values[i])})
			}
		default:
			return nil, fmt.Errorf("unknown cursor type %T", cur)
		}
		if n == 0 {
			return res, cur.Err()
		}
	}
}

func guard(f func() error) (err error, panicked bool) {
	defer func() {
		if e := recover(); e != nil {
			err = fmt.Errorf("panic: %v", e)
			panicked = true
		}
	}()
	return f(), false
}

type counter map[string]int

func (c counter) Count(k string) { c[k]++ }

func runHist(d histD, origin string) (hx.Case, counter) {
	o := counter{}
	tmp := ""
	if os.Getenv("TMPDIR") == "" {
		if st, err := os.Stat("/dev/shm"); err == nil && st.IsDir() {
			tmp = "/dev/shm" // the engine fsyncs on every write; a memory-backed directory keeps the run short
		}
	}
	dir, err := os.MkdirTemp(tmp, "h_c02")
	if err != nil {
		panic(err)
	}
	defer os.RemoveAll(dir)
	if d.Index == "" {
		d.Index = "inmem"
	}
	w := &world{dir: dir, index: d.Index, csize: d.CSize}
	if err := w.open(); err != nil {
		panic(err)
	}
	defer w.close()

	// measurements mentioned anywhere in the history (for the field table observation)
	measSet := map[string]bool{}
	for _, op := range d.Ops {
		for _, p := range op.Pts {
			measSet[p.M] = true
		}
		for _, r := range op.Runs {
			measSet[r.M] = true
		}
		for _, s := range op.Ser {
			measSet[s.M] = true
		}
		if op.M != "" {
			measSet[op.M] = true
		}
	}
	var meas []string
	for m := range measSet {
		meas = append(meas, m)
	}
	sort.Strings(meas)

	var items []string
	var obs []interface{}
	nOkWrites, nNonEmptyReads, nPartial, nBig := 0, 0, 0, 0
	emitFtab := func() map[string]int {
		s, m := w.ftab(meas)
		items = append(items, "XFtab "+s)
		return m
	}
	prevTab := map[string]int{}
	o.Count(fmt.Sprintf("hist:index=%s", d.Index))
	o.Count(fmt.Sprintf("hist:csize=%d", d.CSize))
	for _, op := range d.Ops {
		o.Count("op:" + op.Op)
		switch op.Op {
		case "write":
			pds := op.points()
			if len(pds) >= 999 {
				nBig++
				o.Count(fmt.Sprintf("write:run=%d", len(pds)))
			}
			pts := make([]models.Point, 0, len(pds))
			bad := false
			for _, pd := range pds {
				p, err := mkPoint(pd)
				if err != nil {
					bad = true
					break
				}
				pts = append(pts, p)
			}
			if bad {
				o.Count("write:unbuildable-skipped")
				continue
			}
			err, _ := guard(func() error { return w.sh.WritePoints(pts) })
			cls := "WOk"
			switch e := err.(type) {
			case nil:
				nOkWrites++
			case tsdb.PartialWriteError:
				cls = fmt.Sprintf("(WPartial %d)", e.Dropped)
				nPartial++
				nOkWrites++
			default:
				cls = "WErr"
			}
			o.Count("write:" + strings.Fields(strings.Trim(cls, "()"))[0])
			items = append(items, fmt.Sprintf("XWrite %s %s", coqBatch(op), cls))
			obs = append(obs, map[string]interface{}{"write": cls, "err": fmt.Sprint(err)})
			prevTab = emitFtab()
		case "snap":
			if w.snap != nil {
				// Engine.snapshotMu: a second WriteSnapshot waits until the one in flight is committed
				o.Count("snap:would-wait-for-in-flight-skipped")
				continue
			}
			err, _ := guard(func() error { return w.eng.WriteSnapshot() })
			items = append(items, "XSnapshot "+hx.CoqBool(err == nil))
			if err != nil {
				obs = append(obs, map[string]interface{}{"snap_err": fmt.Sprint(err)})
			}
		case "snapbegin":
			if w.snap != nil {
				continue
			}
			err, _ := guard(func() error {
				s, err := w.eng.VerifSnapshotBegin()
				w.snap = s
				return err
			})
			items = append(items, "XSnapBegin "+hx.CoqBool(err == nil))
		case "snapcommit":
			if w.snap == nil {
				continue
			}
			s := w.snap
			w.snap = nil
			err, _ := guard(func() error { return w.eng.VerifSnapshotCommit(s) })
			items = append(items, "XSnapCommit "+hx.CoqBool(err == nil))
		case "compact":
			files := w.eng.FileStore.Files()
			if len(files) == 0 || op.Len < 1 || op.Start < 0 {
				o.Count("compact:no-files-skipped")
				continue
			}
			// start/len are taken relative to the files that exist now: the generator cannot know
			// how many there are (empty snapshots write none, compactions merge them)
			op.Start %= len(files)
			op.Len = 1 + (op.Len-1)%(len(files)-op.Start)
			var group []string
			for _, f := range files[op.Start : op.Start+op.Len] {
				group = append(group, f.Path())
			}
			err, _ := guard(func() error {
				var out []string
				var err error
				if op.Fast {
					out, err = w.eng.Compactor.CompactFast(group)
				} else {
					out, err = w.eng.Compactor.CompactFull(group)
				}
				if err != nil {
					return err
				}
				return w.eng.FileStore.ReplaceWithCallback(group, out, nil)
			})
			items = append(items, fmt.Sprintf("XCompact %d %d %s", op.Start, op.Len, hx.CoqBool(err == nil)))
			// layout after the compaction: blocks per key and file (input distribution only)
			maxBlocks, total := 0, 0
			var layout []string
			for _, f := range w.eng.FileStore.Files() {
				for i := 0; i < f.KeyCount(); i++ {
					k, _ := f.KeyAt(i)
					n := len(f.ReadEntries(k, nil))
					total += n
					if n > maxBlocks {
						maxBlocks = n
					}
					layout = append(layout, fmt.Sprintf("%s:%s=%d", filepath.Base(f.Path()), k, n))
				}
			}
			obs = append(obs, map[string]interface{}{"layout": layout})
			switch {
			case total > 12:
				o.Count("layout:blocks>12")
			case total > 4:
				o.Count("layout:blocks 5..12")
			default:
				o.Count("layout:blocks<=4")
			}
			if err != nil {
				obs = append(obs, map[string]interface{}{"compact_err": fmt.Sprint(err)})
			}
			o.Count(fmt.Sprintf("compact:len=%d,fast=%v", op.Len, op.Fast))
		case "delete":
			if w.snap != nil {
				// Engine.snapshotMu: the delete waits until the snapshot in flight is committed
				sn := w.snap
				w.snap = nil
				err, _ := guard(func() error { return w.eng.VerifSnapshotCommit(sn) })
				items = append(items, "XSnapCommit "+hx.CoqBool(err == nil))
				o.Count("delete:waited-for-in-flight-snapshot")
			}
			it := &serIter{}
			var cs []string
			for _, s := range op.Ser {
				it.elems = append(it.elems, serElem{[]byte(s.M), models.NewTags(map[string]string{"s": s.S})})
				cs = append(cs, fmt.Sprintf("(%s, %s)", coqStr(s.M), tagBytes(s.S)))
			}
			err, _ := guard(func() error { return w.sh.DeleteSeriesRange(it, op.Lo, op.Hi) })
			// deleteSeriesRange re-enables level compactions on its way out (engine quirk); switch the
			// background goroutine off again but keep the Compactor usable
			w.eng.SetCompactionsEnabled(false)
			w.eng.Compactor.EnableCompactions()
			w.eng.Compactor.EnableSnapshots()
			_, tab := w.ftab(meas)
			var drops []string
			for _, m := range meas {
				had, has := false, false
				for k := range prevTab {
					if strings.HasPrefix(k, m+"/") {
						had = true
					}
				}
				for k := range tab {
					if strings.HasPrefix(k, m+"/") {
						has = true
					}
				}
				if had && !has {
					drops = append(drops, coqStr(m))
				}
			}
			if len(drops) > 0 {
				o.Count("delete:measurement-dropped")
			}
			items = append(items, fmt.Sprintf("XDelete %s %s %s %s %s", hx.CoqList(cs), hx.CoqZ(op.Lo), hx.CoqZ(op.Hi), hx.CoqList(drops), hx.CoqBool(err == nil)))
			if err != nil {
				obs = append(obs, map[string]interface{}{"delete_err": fmt.Sprint(err)})
			}
			prevTab = emitFtab()
		case "reopen":
			w.close()
			err, _ := guard(func() error { return w.open() })
			if err != nil {
				items = append(items, "XReopen false")
				obs = append(obs, map[string]interface{}{"reopen_err": fmt.Sprint(err)})
				break
			}
			items = append(items, "XReopen true")
			prevTab = emitFtab()
		case "read":
			// every read is taken through BOTH read paths: the InfluxQL iterator
			// (Shard.CreateIterator) and the array cursors (Shard.CreateCursorIterator).
			// When the two observations are identical one term is emitted (checking it
			// checks both), otherwise one per path.
			hd := fmt.Sprintf("%s %s %s %s %s %s", coqStr(op.M), tagBytes(op.S), coqStr(op.F), hx.CoqZ(op.Lo), hx.CoqZ(op.Hi), hx.CoqBool(op.Asc))
			var terms []string
			for _, api := range []string{"iter", "cursor"} {
				var res []tvObs
				err, _ := guard(func() error {
					var err error
					if api == "cursor" {
						res, err = w.readCursor(op)
					} else {
						res, err = w.readIter(op)
					}
					return err
				})
				term := "XRead " + hd + " None"
				if err == nil && len(res) > 40 {
					o.Count("read:long(digest)")
					term = fmt.Sprintf("XReadD %s %d %s %s %d%%Z %d%%Z %d%%Z", hd, len(res), coqTVs(res[:8]), coqTVs(res[len(res)-8:]), digest(1000003, res), digest(998244353, res), digest(16777619, res))
				} else if err == nil {
					term = "XRead " + hd + " (Some " + coqTVs(res) + ")"
				}
				if err == nil && len(res) > 0 {
					nNonEmptyReads++
				}
				terms = append(terms, term)
				ob := map[string]interface{}{"read_n": len(res), "api": api}
				if err != nil {
					ob["err"] = fmt.Sprint(err)
				}
				obs = append(obs, ob)
				o.Count(fmt.Sprintf("read:api=%s,asc=%v", api, op.Asc))
				if len(res) == 0 {
					o.Count("read:empty")
				}
				if len(res) >= 1000 {
					o.Count("read:>=1000 points (more than one cursor batch)")
				}
			}
			if terms[0] == terms[1] {
				o.Count("read:both-paths-identical")
				items = append(items, terms[0])
			} else {
				o.Count("read:paths-differ")
				items = append(items, terms...)
			}
		}
		if w.sh == nil {
			break
		}
	}
	if nPartial > 0 {
		o.Count("hist:with-partial-write")
	}
	if nBig > 0 {
		o.Count("hist:with-block-sized-run")
	}
	js, _ := json.Marshal(d)
	coq := "CHist " + hx.CoqBool(d.Index == "tsi1") + " " + hx.CoqList(items)
	return hx.Case{Kind: "hist", Coq: coq, Desc: d, Obs: obs, Nontrivial: nOkWrites > 0 && nNonEmptyReads > 0,
		Sig: fmt.Sprintf("%x", sha1.Sum(js)), Origin: origin}, o
}

func emit(o *hx.Out, c hx.Case, cnt counter) {
	for k, v := range cnt {
		for i := 0; i < v; i++ {
			o.Count(k)
		}
	}
	o.Emit(c)
}

// runAll runs the histories with a small worker pool (each has its own directory) and emits
// the cases in input order.  The progress marker names the oldest history still running.
func runAll(o *hx.Out, hs []histD, origin string, workers int) {
	type res struct {
		c   hx.Case
		cnt counter
	}
	out := make([]chan res, len(hs))
	sem := make(chan struct{}, workers)
	for i := range hs {
		out[i] = make(chan res, 1)
	}
	go func() {
		for i := range hs {
			sem <- struct{}{}
			go func(i int) {
				c, cnt := runHist(hs[i], origin)
				out[i] <- res{c, cnt}
				<-sem
			}(i)
		}
	}()
	for i := range hs {
		o.Begin("hist", hs[i])
		r := <-out[i]
		emit(o, r.c, r.cnt)
	}
}

// ---------- generation ----------

var measN = []string{"m0", "m1"}
var serN = []string{"a", "b", "c"}
var fldN = []string{"f0", "f1", "f2"}

const minT = models.MinNanoTime
const maxT = models.MaxNanoTime

func genValue(r *hx.Rand, t int) string {
	switch t {
	case 0:
		for {
			var bits uint64
			switch r.Intn(6) {
			case 0:
				bits = []uint64{0, 1 << 63, math.Float64bits(math.MaxFloat64), math.Float64bits(-math.MaxFloat64), math.Float64bits(math.SmallestNonzeroFloat64), math.Float64bits(1.5)}[r.Intn(6)]
			case 1:
				bits = r.U64()
			default:
				bits = math.Float64bits(float64(r.Intn(200)-100) / 4)
			}
			f := math.Float64frombits(bits)
			if !math.IsNaN(f) && !math.IsInf(f, 0) {
				return fmt.Sprint(bits)
			}
		}
	case 1:
		switch r.Intn(5) {
		case 0:
			return fmt.Sprint([]int64{math.MinInt64, math.MaxInt64, 0, -1, 1}[r.Intn(5)])
		case 1:
			return fmt.Sprint(int64(r.U64()))
		}
		return fmt.Sprint(r.Intn(100) - 50)
	case 2:
		return fmt.Sprint(r.Intn(2))
	case 3:
		n := r.Intn(6)
		if r.Chance(5) {
			n = 200 + r.Intn(200)
		}
		return fmt.Sprintf("%x", r.Bytes(n))
	default:
		switch r.Intn(5) {
		case 0:
			return fmt.Sprint([]uint64{0, math.MaxUint64, 1 << 63, 1}[r.Intn(4)])
		case 1:
			return fmt.Sprint(r.U64())
		}
		return fmt.Sprint(r.Intn(100))
	}
}

type gen struct {
	r     *hx.Rand
	types map[string]int // intended type of measurement/field
	big   bool
	base  []int64     // time bases used by this history
	keys  [][3]string // (measurement, series, field) written so far
	nextF int         // next never-used field name f<nextF>
}

func (g *gen) note(pts []pointD) {
	for _, p := range pts {
		for _, f := range p.F {
			g.keys = append(g.keys, [3]string{p.M, p.S, f.N})
		}
	}
}

func (g *gen) time() int64 {
	r := g.r
	switch r.Intn(20) {
	case 0:
		return []int64{minT, minT + 1, maxT, maxT - 1, 0, -1}[r.Intn(6)]
	case 1:
		return int64(r.U64())>>1 - int64(r.U64())>>2
	}
	b := g.base[r.Intn(len(g.base))]
	return b + int64(r.Intn(14))
}

func (g *gen) ftype(m, f string) int {
	k := m + "/" + f
	if _, ok := g.types[k]; !ok {
		g.types[k] = g.r.Intn(5)
	}
	t := g.types[k]
	if g.r.Chance(7) {
		return g.r.Intn(5) // possibly conflicting
	}
	return t
}

func (g *gen) point() pointD {
	r := g.r
	p := pointD{M: measN[r.Intn(len(measN))], S: serN[r.Intn(len(serN))], T: g.time()}
	if r.Chance(70) {
		p.M = measN[0]
	}
	nf := 1
	if r.Chance(30) {
		nf = 2 + r.Intn(2)
	}
	perm := []int{0, 1, 2}
	for i := 2; i > 0; i-- {
		j := r.Intn(i + 1)
		perm[i], perm[j] = perm[j], perm[i]
	}
	for i := 0; i < nf; i++ {
		f := fldN[perm[i]]
		t := g.ftype(p.M, f)
		p.F = append(p.F, fieldD{N: f, T: t, V: genValue(r, t)})
	}
	return p
}

func (g *gen) readOp(full bool) opD {
	r := g.r
	o := opD{Op: "read", M: measN[r.Intn(len(measN))], S: serN[r.Intn(len(serN))], F: fldN[r.Intn(len(fldN))], Asc: r.Bool(), API: "iter"}
	if r.Chance(75) {
		o.M = measN[0]
	}
	if len(g.keys) > 0 && r.Chance(85) { // mostly keys that were written
		k := g.keys[r.Intn(len(g.keys))]
		o.M, o.S, o.F = k[0], k[1], k[2]
	}
	if r.Chance(40) {
		o.API = "cursor"
	}
	if full || r.Chance(35) {
		o.Lo, o.Hi = minT, maxT
		return o
	}
	a, b := g.time(), g.time()
	if r.Chance(50) { // short window near a base: inside / on block boundaries
		b = a + int64(r.Intn(6))
		if b < a {
			b = a
		}
	}
	if a > b && r.Chance(90) {
		a, b = b, a
	}
	o.Lo, o.Hi = a, b
	return o
}

func genHist(r *hx.Rand, big, dense bool) histD {
	g := &gen{r: r, types: map[string]int{}, big: big, base: []int64{0, 10, 1000}, nextF: 3}
	d := histD{Index: "inmem"}
	if r.Chance(35) {
		d.Index = "tsi1"
	}
	if !big {
		d.CSize = []int{0, 2, 2, 3, 3, 5}[r.Intn(6)]
	}
	nops := 6 + r.Intn(14)
	if dense { // many small blocks per key: runs of 12-40 points in separate generations, Compactor.Size 2 or 3
		d.CSize = 2 + r.Intn(2)
		g.base = []int64{0, 20, 50, 90}
		nops = 14 + r.Intn(10)
	}
	nfiles := 0
	inflight := false
	for i := 0; i < nops; i++ {
		k := r.Intn(100)
		switch {
		case k < 38:
			np := 1 + r.Intn(6)
			if r.Chance(15) {
				np = 8 + r.Intn(20)
			}
			op := opD{Op: "write"}
			if g.nextF < 10 && r.Chance(12) {
				// several points of ONE batch introduce the same new field (it is the last field of each
				// point in key order), sometimes followed at once by a restart and a read of it
				f := fmt.Sprintf("f%d", g.nextF)
				g.nextF++
				m := measN[0]
				t := g.ftype(m, f)
				for j := 0; j < 2+r.Intn(3); j++ {
					p := pointD{M: m, S: serN[r.Intn(len(serN))], T: g.time()}
					if r.Chance(40) {
						p.F = append(p.F, fieldD{N: "f0", T: g.ftype(m, "f0"), V: ""})
						p.F[0].V = genValue(r, p.F[0].T)
					}
					p.F = append(p.F, fieldD{N: f, T: t, V: genValue(r, t)})
					op.Pts = append(op.Pts, p)
				}
				g.note(op.Pts)
				d.Ops = append(d.Ops, op)
				if r.Chance(50) {
					if inflight && r.Chance(50) {
						d.Ops = append(d.Ops, opD{Op: "snapcommit"})
					}
					inflight = false
					d.Ops = append(d.Ops, opD{Op: "reopen"})
					d.Ops = append(d.Ops, opD{Op: "read", M: m, S: op.Pts[0].S, F: f, Lo: minT, Hi: maxT, Asc: r.Bool()})
				}
				break
			}
			for j := 0; j < np; j++ {
				p := g.point()
				if j > 0 && r.Chance(25) { // duplicate timestamp / same series within the batch
					p.M, p.S, p.T = op.Pts[j-1].M, op.Pts[j-1].S, op.Pts[j-1].T
					for x := range p.F {
						p.F[x].T = g.ftype(p.M, p.F[x].N)
						p.F[x].V = genValue(r, p.F[x].T)
					}
				}
				op.Pts = append(op.Pts, p)
			}
			g.note(op.Pts)
			d.Ops = append(d.Ops, op)
			if r.Chance(10) { // re-write the identical batch
				d.Ops = append(d.Ops, op)
			}
		case k < 44 && big:
			m, f := measN[0], fldN[r.Intn(2)]
			t := g.ftype(m, f)
			n := []int{999, 1000, 1001, 1000, 2001, 250, 500, 700, 1}[r.Intn(9)] // the small ones make a 1000-slot cursor batch end inside a block
			sr := serN[r.Intn(2)]
			g.keys = append(g.keys, [3]string{m, sr, f})
			d.Ops = append(d.Ops, opD{Op: "write", Runs: []runD{{M: m, S: sr, F: f, Typ: t, Start: []int64{0, 0, 500, 1000, -3, 999}[r.Intn(6)],
				Step: int64(1 + r.Intn(2)), N: n, VSeed: int64(r.Intn(50))}}})
		case k < 44 || (dense && k < 50):
			m, f := measN[0], fldN[r.Intn(2)]
			t := g.ftype(m, f)
			sr := serN[r.Intn(2)]
			g.keys = append(g.keys, [3]string{m, sr, f})
			n := 3 + r.Intn(12)
			if dense {
				n = 12 + r.Intn(30)
			}
			start := int64(r.Intn(12))
			if dense && r.Chance(60) { // spread out: chains of files where the third overlaps the second but not the first
				start = int64(r.Intn(90))
			}
			d.Ops = append(d.Ops, opD{Op: "write", Runs: []runD{{M: m, S: sr, F: f, Typ: t, Start: start,
				Step: int64(1 + r.Intn(3)), N: n, VSeed: int64(r.Intn(50))}}})
			if dense && r.Chance(70) { // one generation per run: many overlapping blocks once compacted
				d.Ops = append(d.Ops, opD{Op: "snap"})
				nfiles++
			}
		case k < 58:
			if inflight {
				d.Ops = append(d.Ops, opD{Op: "snapcommit"})
				inflight = false
			} else if r.Chance(25) {
				d.Ops = append(d.Ops, opD{Op: "snapbegin"})
				inflight = true
			} else {
				d.Ops = append(d.Ops, opD{Op: "snap"})
			}
			nfiles++
		case k < 66:
			if nfiles == 0 {
				d.Ops = append(d.Ops, opD{Op: "snap"})
				nfiles++
				break
			}
			if !inflight && r.Chance(70) { // flush first: the hot cache becomes one more generation
				d.Ops = append(d.Ops, opD{Op: "snap"})
				nfiles++
			}
			// start/len are reduced modulo the files that exist when the op runs
			st := r.Intn(2) * r.Intn(4)
			ln := 1 + r.Intn(4)
			if r.Chance(60) {
				ln = 2 + r.Intn(3) // groups of overlapping files take the de-duplicating path that cuts blocks of Compactor.Size
			}
			d.Ops = append(d.Ops, opD{Op: "compact", Start: st, Len: ln, Fast: r.Chance(35)})
		case k < 76:
			if inflight { // a delete while a snapshot is in flight is the C10 finding; not generated here
				d.Ops = append(d.Ops, opD{Op: "snapcommit"})
				inflight = false
			}
			op := opD{Op: "delete"}
			ns := 1 + r.Intn(2)
			for j := 0; j < ns; j++ {
				op.Ser = append(op.Ser, serD{M: measN[0], S: serN[r.Intn(len(serN))]})
				if r.Chance(20) {
					op.Ser[j].M = measN[1]
				}
			}
			switch r.Intn(6) {
			case 0:
				op.Lo, op.Hi = math.MinInt64, math.MaxInt64
			case 1:
				op.Lo, op.Hi = minT, maxT
			case 2:
				op.Lo, op.Hi = g.time(), maxT
			default:
				a := g.time()
				op.Lo, op.Hi = a, a+int64(r.Intn(8))
				if op.Hi < op.Lo {
					op.Hi = op.Lo
				}
			}
			d.Ops = append(d.Ops, op)
		case k < 82:
			if inflight && r.Chance(50) {
				d.Ops = append(d.Ops, opD{Op: "snapcommit"})
				inflight = false
			}
			d.Ops = append(d.Ops, opD{Op: "reopen"})
			inflight = false
		default:
			d.Ops = append(d.Ops, g.readOp(false))
		}
	}
	// final sweep: every key that could exist, full range and a window
	nr := 6
	if big {
		nr = 4
	}
	for i := 0; i < nr; i++ {
		d.Ops = append(d.Ops, g.readOp(i < 2))
	}
	return d
}

// designed witnesses (also the initial corpus)
func designed() []histD {
	i := func(n string, v int64) fieldD { return fieldD{N: n, T: 1, V: fmt.Sprint(v)} }
	fl := func(n string, v float64) fieldD { return fieldD{N: n, T: 0, V: fmt.Sprint(math.Float64bits(v))} }
	rd := func(f string, lo, hi int64, asc bool, api string) opD {
		return opD{Op: "read", M: "m0", S: "a", F: f, Lo: lo, Hi: hi, Asc: asc, API: api}
	}
	allReads := func(f string) []opD {
		return []opD{rd(f, minT, maxT, true, "iter"), rd(f, minT, maxT, false, "iter"), rd(f, minT, maxT, true, "cursor"), rd(f, minT, maxT, false, "cursor")}
	}
	var hs []histD
	// 1. value overwritten in a newer file, in the snapshot and in the hot cache
	h := histD{Index: "inmem", Ops: []opD{
		{Op: "write", Pts: []pointD{{"m0", "a", 1, []fieldD{i("f0", 1)}}, {"m0", "a", 2, []fieldD{i("f0", 2)}}, {"m0", "a", 3, []fieldD{i("f0", 3)}}}},
		{Op: "snap"},
		{Op: "write", Pts: []pointD{{"m0", "a", 2, []fieldD{i("f0", 20)}}}},
		{Op: "snap"},
		{Op: "write", Pts: []pointD{{"m0", "a", 3, []fieldD{i("f0", 30)}}, {"m0", "a", 3, []fieldD{i("f0", 31)}}}},
		{Op: "snapbegin"},
		{Op: "write", Pts: []pointD{{"m0", "a", 1, []fieldD{i("f0", 10)}}}},
	}}
	h.Ops = append(h.Ops, allReads("f0")...)
	h.Ops = append(h.Ops, opD{Op: "snapcommit"}, opD{Op: "compact", Start: 0, Len: 3}, opD{Op: "reopen"})
	h.Ops = append(h.Ops, allReads("f0")...)
	hs = append(hs, h)
	// 2. type conflict: partial write, other points stored; then re-write identical points
	h = histD{Index: "tsi1", Ops: []opD{
		{Op: "write", Pts: []pointD{{"m0", "a", 1, []fieldD{fl("f0", 1.5)}}}},
		{Op: "write", Pts: []pointD{{"m0", "a", 2, []fieldD{i("f0", 7)}}, {"m0", "b", 2, []fieldD{fl("f0", 2.5), i("f1", 4)}}, {"m0", "a", 3, []fieldD{i("f0", 8), i("f1", 9)}}}},
		{Op: "write", Pts: []pointD{{"m0", "a", 1, []fieldD{fl("f0", 1.5)}}}},
	}}
	h.Ops = append(h.Ops, allReads("f0")...)
	h.Ops = append(h.Ops, allReads("f1")...)
	h.Ops = append(h.Ops, opD{Op: "read", M: "m0", S: "b", F: "f0", Lo: minT, Hi: maxT, Asc: true, API: "iter"})
	hs = append(hs, h)
	// 3. in-batch conflicting NEW types (no prior type): whole batch refused
	h = histD{Index: "inmem", Ops: []opD{
		{Op: "write", Pts: []pointD{{"m0", "a", 1, []fieldD{fl("f0", 1)}}, {"m0", "b", 1, []fieldD{i("f0", 1)}}}},
		{Op: "write", Pts: []pointD{{"m0", "a", 2, []fieldD{i("f0", 5)}}}},
		{Op: "reopen"},
		{Op: "write", Pts: []pointD{{"m0", "a", 3, []fieldD{i("f0", 6)}}}},
	}}
	h.Ops = append(h.Ops, allReads("f0")...)
	hs = append(hs, h)
	// 4. block-sized runs, overlapping generations, partially tombstoned block, extreme timestamps
	for _, n := range []int{999, 1000, 1001} {
		h = histD{Index: "inmem", Ops: []opD{
			{Op: "write", Runs: []runD{{M: "m0", S: "a", F: "f0", Typ: 1, Start: 0, Step: 1, N: n, VSeed: 1}}},
			{Op: "snap"},
			{Op: "write", Runs: []runD{{M: "m0", S: "a", F: "f0", Typ: 1, Start: 500, Step: 1, N: n, VSeed: 2}}},
			{Op: "write", Pts: []pointD{{"m0", "a", minT, []fieldD{i("f0", -1)}}, {"m0", "a", maxT, []fieldD{i("f0", -2)}}}},
			{Op: "snap"},
			{Op: "delete", Ser: []serD{{"m0", "a"}}, Lo: 990, Hi: 1010},
			rd("f0", 999, 1001, true, "iter"), rd("f0", 999, 1001, false, "iter"), rd("f0", 1000, 1000+int64(n), false, "cursor"),
			rd("f0", 400, 600, false, "iter"), rd("f0", 400, 600, true, "cursor"),
			{Op: "compact", Start: 0, Len: 2},
			rd("f0", 999, 1001, true, "cursor"), rd("f0", 1, int64(n), false, "iter"),
		}}
		h.Ops = append(h.Ops, allReads("f0")...)
		hs = append(hs, h)
	}
	// 5. delete everything of a measurement, then write the field with another type
	h = histD{Index: "inmem", Ops: []opD{
		{Op: "write", Pts: []pointD{{"m0", "a", 1, []fieldD{fl("f0", 1)}}, {"m0", "a", 5, []fieldD{fl("f0", 2)}}}},
		{Op: "snap"},
		{Op: "delete", Ser: []serD{{"m0", "a"}}, Lo: math.MinInt64, Hi: math.MaxInt64},
		{Op: "write", Pts: []pointD{{"m0", "a", 1, []fieldD{i("f0", 3)}}}},
	}}
	h.Ops = append(h.Ops, allReads("f0")...)
	hs = append(hs, h)
	// 6. small compaction blocks: reads starting inside a block, descending
	h = histD{Index: "inmem", CSize: 2, Ops: []opD{
		{Op: "write", Runs: []runD{{M: "m0", S: "a", F: "f0", Typ: 0, Start: 0, Step: 2, N: 9, VSeed: 1}}},
		{Op: "snap"},
		{Op: "write", Runs: []runD{{M: "m0", S: "a", F: "f0", Typ: 0, Start: 1, Step: 2, N: 9, VSeed: 2}}},
		{Op: "snap"},
		{Op: "compact", Start: 0, Len: 1}, {Op: "compact", Start: 1, Len: 1},
		{Op: "write", Runs: []runD{{M: "m0", S: "a", F: "f0", Typ: 0, Start: 4, Step: 3, N: 4, VSeed: 3}}},
		{Op: "snap"},
		{Op: "delete", Ser: []serD{{"m0", "a"}}, Lo: 6, Hi: 7},
	}}
	for lo := int64(0); lo < 8; lo += 3 {
		h.Ops = append(h.Ops, rd("f0", lo, lo+7, false, "iter"), rd("f0", lo, lo+7, true, "iter"), rd("f0", lo, lo+7, false, "cursor"), rd("f0", lo, lo+7, true, "cursor"))
	}
	h.Ops = append(h.Ops, opD{Op: "compact", Start: 0, Len: 3, Fast: true})
	h.Ops = append(h.Ops, allReads("f0")...)
	hs = append(hs, h)
	// 7. a block consumed first, then a chain of three generations A=[10..20] B=[15..30] C=[25..40]
	// where C overlaps B but not A; every later generation overwrites the overlap
	h = histD{Index: "inmem", Ops: []opD{
		{Op: "write", Runs: []runD{{M: "m0", S: "a", F: "f0", Typ: 1, Start: 0, Step: 1, N: 6, VSeed: 1}}}, {Op: "snap"},
		{Op: "write", Runs: []runD{{M: "m0", S: "a", F: "f0", Typ: 1, Start: 10, Step: 1, N: 11, VSeed: 2}}}, {Op: "snap"},
		{Op: "write", Runs: []runD{{M: "m0", S: "a", F: "f0", Typ: 1, Start: 15, Step: 1, N: 16, VSeed: 3}}}, {Op: "snap"},
		{Op: "write", Runs: []runD{{M: "m0", S: "a", F: "f0", Typ: 1, Start: 25, Step: 1, N: 16, VSeed: 4}}}, {Op: "snap"},
	}}
	h.Ops = append(h.Ops, allReads("f0")...)
	h.Ops = append(h.Ops, rd("f0", 3, 38, true, "iter"), rd("f0", 3, 38, false, "iter"), rd("f0", 12, 27, true, "iter"), rd("f0", 12, 27, false, "iter"))
	hs = append(hs, h)
	// 8. two points of one batch introduce the same new field while fields.idx already exists; restart with tsi1
	h = histD{Index: "tsi1", Ops: []opD{
		{Op: "write", Pts: []pointD{{"m0", "a", 1, []fieldD{i("f0", 1)}}}},
		{Op: "write", Pts: []pointD{{"m0", "a", 2, []fieldD{i("f1", 2)}}, {"m0", "b", 2, []fieldD{i("f1", 3)}}}},
		{Op: "reopen"},
	}}
	h.Ops = append(h.Ops, allReads("f1")...)
	h.Ops = append(h.Ops, opD{Op: "write", Pts: []pointD{{"m0", "a", 3, []fieldD{fl("f1", 1.5)}}, {"m0", "a", 4, []fieldD{i("f0", 4)}}}})
	h.Ops = append(h.Ops, allReads("f1")...)
	h.Ops = append(h.Ops, allReads("f0")...)
	hs = append(hs, h)
	// 9. a 1000-slot cursor batch that ends inside a TSM block: cache values before and inside the block
	for _, n := range []int{500, 999, 1} {
		h = histD{Index: "inmem", Ops: []opD{
			{Op: "write", Runs: []runD{{M: "m0", S: "a", F: "f0", Typ: 0, Start: 1000, Step: 2, N: 1000, VSeed: 1}}}, {Op: "snap"},
			{Op: "write", Runs: []runD{{M: "m0", S: "a", F: "f0", Typ: 0, Start: 0, Step: 1, N: n, VSeed: 2}, {M: "m0", S: "a", F: "f0", Typ: 0, Start: 1201, Step: 2, N: 300, VSeed: 3}}},
		}}
		h.Ops = append(h.Ops, allReads("f0")...)
		h.Ops = append(h.Ops, rd("f0", 250, 1700, true, "cursor"), rd("f0", 250, 1700, false, "cursor"), rd("f0", 1100, 2500, true, "cursor"))
		hs = append(hs, h)
	}
	return hs
}

func main() {
	f := hx.ParseFlags()
	o := hx.NewOut(f.OutDir)
	defer o.Close()
	models.EnableUintSupport()
	if p := os.Getenv("H_CPUPROFILE"); p != "" {
		pf, _ := os.Create(p)
		pprof.StartCPUProfile(pf)
		defer pprof.StopCPUProfile()
	}
	if f.In != "" {
		for _, in := range hx.ReadInputs(f.In) {
			if in.Kind == "blocks" {
				var d blocksD
				if err := json.Unmarshal(in.Desc, &d); err != nil {
					panic(err)
				}
				o.Begin("blocks", d)
				c, cnt := runBlocks(d, "replay")
				emit(o, c, cnt)
				continue
			}
			var d histD
			if err := json.Unmarshal(in.Desc, &d); err != nil {
				panic(err)
			}
			o.Begin("hist", d)
			c, cnt := runHist(d, "replay")
			emit(o, c, cnt)
		}
		return
	}
	runAll(o, designed(), "designed", 4)
	// layer B: real TSM files with chosen block boundaries read through the real KeyCursor
	for _, d := range designedBlocks() {
		o.Begin("blocks", d)
		c, cnt := runBlocks(d, "designed")
		emit(o, c, cnt)
	}
	rb := hx.NewRand(f.Seed ^ 0xb10c5)
	for i := 0; i < (f.N+1)/2; i++ {
		d := genBlocks(rb.Split(), i%4)
		o.Begin("blocks", d)
		c, cnt := runBlocks(d, "gen")
		emit(o, c, cnt)
	}
	r := hx.NewRand(f.Seed)
	var hs []histD
	for i := 0; i < f.N; i++ {
		big := i%12 == 5
		dense := i%5 == 2
		hs = append(hs, genHist(r.Split(), big, dense && !big))
	}
	runAll(o, hs, "gen", 6)
}
