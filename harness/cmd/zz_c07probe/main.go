package main

import (
	"fmt"
	"math"
	"time"

	"github.com/influxdata/influxdb/services/meta"
)

type pb struct{ b []byte }

func (p *pb) varint(v uint64) {
	for v >= 0x80 {
		p.b = append(p.b, byte(v)|0x80)
		v >>= 7
	}
	p.b = append(p.b, byte(v))
}
func (p *pb) u(field int, v uint64) { p.varint(uint64(field)<<3 | 0); p.varint(v) }
func (p *pb) bytes(field int, v []byte) {
	p.varint(uint64(field)<<3 | 2)
	p.varint(uint64(len(v)))
	p.b = append(p.b, v...)
}
func (p *pb) s(field int, v string) { p.bytes(field, []byte(v)) }

func env(t uint64, body []byte) []byte {
	var cm pb
	cm.u(1, t)
	cm.bytes(int(100+t), body)
	return cm.b
}
func createDataNode(http, tcp string) []byte { var m pb; m.s(1, http); m.s(2, tcp); return env(25, m.b) }
func createMetaNode(http, tcp string) []byte { var m pb; m.s(1, http); m.s(2, tcp); m.u(3, 7); return env(24, m.b) }
func updateDataNode(id uint64, http, tcp string) []byte {
	var m pb; m.u(1, id); m.s(2, http); m.s(3, tcp); return env(26, m.b)
}
func createDB(n string) []byte { var m pb; m.s(1, n); return env(3, m.b) }
func createSG(db, rp string, t int64) []byte { var m pb; m.s(1, db); m.s(2, rp); m.u(3, uint64(t)); return env(9, m.b) }
func truncate(t int64) []byte { var m pb; m.u(1, uint64(t)); return env(31, m.b) }

func ids(d *meta.Data) string {
	s := fmt.Sprintf("idx=%d meta=", d.Index)
	for _, n := range d.MetaNodes { s += fmt.Sprintf("(%d %s %s)", n.ID, n.Addr, n.TCPAddr) }
	s += " data="
	for _, n := range d.DataNodes { s += fmt.Sprintf("(%d %s %s)", n.ID, n.Addr, n.TCPAddr) }
	return s
}
func groups(d *meta.Data) string {
	s := ""
	for _, db := range d.Databases { for _, rp := range db.RetentionPolicies { for _, g := range rp.ShardGroups {
		s += fmt.Sprintf("[g%d %v .. %v trunc=%v(%v) del=%v]", g.ID, g.StartTime, g.EndTime, g.TruncatedAt, g.Truncated(), g.Deleted())
	}}}
	return s
}

func try(name string, f func()) {
	defer func() { if e := recover(); e != nil { fmt.Printf("%s: PANIC %v\n", name, e) } }()
	f()
}

func main() {
	// (a) aliasing
	f := meta.NewVerifFSM(true)
	i := uint64(1)
	ap := func(b []byte) interface{} { i++; return f.Apply(i, 1, b) }
	ap(createMetaNode("m1:8091", "h9:8088"))           // id 1 (meta)
	ap(createDataNode("h2:8086", "h2:8088"))           // id 2
	ap(createDataNode("h3:8086", "h3:8088"))           // id 3
	ap(createDataNode("h4:8086", "h4:8088"))           // id 4
	pub, _ := f.Publish()
	snap, _ := f.Snapshot()
	fmt.Println("published:", ids(pub), " snap:", ids(snap.Data()), "cap", cap(pub.DataNodes))
	ap(createDataNode("h9:8086", "h9:8088")) // reuses meta id 1, sorts in place
	fmt.Println("after CreateDataNode: published:", ids(pub), " snap:", ids(snap.Data()))
	ap(updateDataNode(2, "X:1", "X:2"))
	fmt.Println("after UpdateDataNode: published:", ids(pub), " snap:", ids(snap.Data()))
	fmt.Println("rejected:", ap(createDataNode("h9:8086", "h9:8088")))
	fmt.Println("after rejected cmd: snap:", ids(snap.Data()), " cur:", ids(f.Data()))
	img, _ := snap.Persist()
	g := meta.NewVerifFSM(true)
	g.Restore(img)
	fmt.Println("restored:", ids(g.Data()))

	// (b) validate vs apply
	for _, c := range []struct{ n string; b []byte }{
		{"type 3 no ext", func() []byte { var cm pb; cm.u(1, 3); return cm.b }()},
		{"type 3 wrong ext(104)", func() []byte { var cm pb; var m pb; m.s(1, "x"); cm.u(1, 3); cm.bytes(104, m.b); return cm.b }()},
		{"type 3 ext missing required Name", func() []byte { var cm pb; cm.u(1, 3); cm.bytes(103, nil); return cm.b }()},
		{"type 7 (not in switch)", func() []byte { var cm pb; cm.u(1, 7); return cm.b }()},
		{"type 99", func() []byte { var cm pb; cm.u(1, 99); return cm.b }()},
		{"type 2 no ext", func() []byte { var cm pb; cm.u(1, 2); return cm.b }()},
		{"no type", []byte{}},
		{"garbage", []byte{0xff, 0xff, 0xff}},
		{"type 3 ext as varint", func() []byte { var cm pb; cm.u(1, 3); cm.u(103, 5); return cm.b }()},
	} {
		ok, typ, fields, st := meta.VerifEnvelope(c.b)
		present := ""
		for k, fl := range fields { if st[k] != 0 { present += fmt.Sprintf(" %d:%d", fl, st[k]) } }
		fmt.Printf("%-36s validate=%v envelope ok=%v typ=%d ext[%s] ", c.n, meta.VerifValidateCommand(c.b), ok, typ, present)
		try("apply", func() { h := meta.NewVerifFSM(true); fmt.Println("apply ->", h.Apply(2, 1, c.b)) })
	}

	// (c) time wrap, (d) trunc at epoch
	h := meta.NewVerifFSM(true)
	j := uint64(1)
	ah := func(b []byte) interface{} { j++; return h.Apply(j, 1, b) }
	ah(createDataNode("h2:8086", "h2:8088"))
	ah(createDB("db0"))
	fmt.Println(ah(createSG("db0", "autogen", math.MinInt64+2)))
	fmt.Println(ah(createSG("db0", "autogen", int64(time.Hour))))
	fmt.Println(ah(truncate(0)))
	fmt.Println("before:", groups(h.Data()))
	s2, _ := h.Snapshot()
	img2, _ := s2.Persist()
	k := meta.NewVerifFSM(true)
	fmt.Println(k.Restore(img2))
	fmt.Println("after: ", groups(k.Data()))
}
