// guard.go: the delete guards (tsdb/guard.go) and the epoch tracker (tsdb/epoch_tracker.go).
//
// kind guard    : newGuard(min,max,names,expr).Matches on single points and batches (real code through
//
//	tsdb.VerifGuardMatches), compared with the model; the executable spec asks that every
//	point the delete would select (Coq gselects) is matched.
//
// kind guarddel : the same points written to a real Store (inmem / tsi1), a real Store.DeleteSeries with
//
//	the condition, which points it removed, and what the guard the delete installs says
//	about each point; spec: removed => matched.
//
// kind epoch    : a schedule of writer / deleter threads driven single-threaded against the real
//
//	epochTracker with real guards; the state after every action.
//
// kind epochraw : StartWrite / EndWrite / WaitDelete / Done calls in any order, state after each.
package main

import (
	"encoding/json"
	"fmt"
	"math"
	"os"
	"path/filepath"
	"regexp"
	"sort"
	"strings"
	"time"

	"github.com/influxdata/influxdb/models"
	"github.com/influxdata/influxdb/tsdb"
	"github.com/influxdata/influxdb/tsdb/engine/tsm1"
	"github.com/influxdata/influxql"
	"verifharness/hx"
)

// ---------- points ----------

type GPt struct {
	M    string      `json:"m"`
	Tags [][2]string `json:"tags,omitempty"`
	T    int64       `json:"t"`
}

func (p GPt) real() (models.Point, error) {
	tags := make(models.Tags, 0, len(p.Tags))
	for _, kv := range p.Tags {
		tags = append(tags, models.NewTag([]byte(kv[0]), []byte(kv[1])))
	}
	sort.Stable(tags)
	return models.NewPoint(p.M, tags, models.Fields{"f": int64(1)}, time.Unix(0, p.T))
}

// the point as the guard sees it
func coqPoint(p models.Point) string {
	var tags []string
	for _, t := range p.Tags() {
		tags = append(tags, fmt.Sprintf("(%s, %s)", hx.CoqBytes(t.Key), hx.CoqBytes(t.Value)))
	}
	return fmt.Sprintf("{| gp_name := %s; gp_tags := %s; gp_time := %s |}",
		hx.CoqBytes(p.Name()), hx.CoqList(tags), hx.CoqZ(p.UnixNano()))
}

func realPoints(o *hx.Out, in []GPt) []models.Point {
	var pts []models.Point
	for _, p := range in {
		var mp models.Point
		err := guard(func() error {
			var e error
			mp, e = p.real()
			return e
		})
		if err != nil || mp == nil {
			count(o, "guard:point-rejected")
			continue
		}
		pts = append(pts, mp)
	}
	return pts
}

// ---------- expressions ----------

type reTab struct {
	res []*regexp.Regexp
}

func (rt *reTab) id(r *regexp.Regexp) int {
	for i, x := range rt.res {
		if x == r {
			return i
		}
	}
	rt.res = append(rt.res, r)
	return len(rt.res) - 1
}

func coqOperand(e influxql.Expr, rt *reTab) string {
	switch e := e.(type) {
	case *influxql.VarRef:
		ty := "TField"
		if e.Type == influxql.Unknown {
			ty = "TUnknown"
		} else if e.Type == influxql.Tag {
			ty = "TTag"
		}
		return fmt.Sprintf("OVar %s %s", hx.CoqStr(e.Val), ty)
	case *influxql.StringLiteral:
		return "OStr " + hx.CoqStr(e.Val)
	case *influxql.RegexLiteral:
		if e.Val == nil {
			return "OLit"
		}
		return fmt.Sprintf("ORegex %d%%N", rt.id(e.Val))
	case *influxql.BinaryExpr:
		return "OBinary"
	default:
		return "OLit"
	}
}

func coqExpr(e influxql.Expr, rt *reTab) string {
	switch e := e.(type) {
	case *influxql.ParenExpr:
		return "EParen (" + coqExpr(e.Expr, rt) + ")"
	case *influxql.BooleanLiteral:
		return "EBool " + hx.CoqBool(e.Val)
	case *influxql.BinaryExpr:
		switch e.Op {
		case influxql.AND:
			return "EAnd (" + coqExpr(e.LHS, rt) + ") (" + coqExpr(e.RHS, rt) + ")"
		case influxql.OR:
			return "EOr (" + coqExpr(e.LHS, rt) + ") (" + coqExpr(e.RHS, rt) + ")"
		}
		op := "BOtherOp"
		switch e.Op {
		case influxql.EQ:
			op = "BEq"
		case influxql.NEQ:
			op = "BNeq"
		case influxql.EQREGEX:
			op = "BEqRegex"
		case influxql.NEQREGEX:
			op = "BNeqRegex"
		}
		return fmt.Sprintf("EBin %s (%s) (%s)", op, coqOperand(e.LHS, rt), coqOperand(e.RHS, rt))
	default:
		return "EOther"
	}
}

func isNilExpr(e influxql.Expr) bool {
	if e == nil {
		return true
	}
	switch x := e.(type) {
	case *influxql.ParenExpr:
		return x == nil
	case *influxql.BooleanLiteral:
		return x == nil
	case *influxql.BinaryExpr:
		return x == nil
	}
	return false
}

func coqExprOpt(e influxql.Expr, rt *reTab) string {
	if isNilExpr(e) {
		return "None"
	}
	return "(Some (" + coqExpr(e, rt) + "))"
}

// regexp.Regexp.Match of every regex of the case on every string of the case
func coqReTab(rt *reTab, pts []models.Point, extra []string) string {
	seen := map[string]bool{"": true}
	strs := []string{""}
	add := func(s string) {
		if !seen[s] {
			seen[s] = true
			strs = append(strs, s)
		}
	}
	for _, p := range pts {
		add(string(p.Name()))
		for _, t := range p.Tags() {
			add(string(t.Value))
		}
	}
	for _, s := range extra {
		add(s)
	}
	var rows []string
	for i, r := range rt.res {
		var cells []string
		for _, s := range strs {
			cells = append(cells, fmt.Sprintf("(%s, %s)", hx.CoqStr(s), hx.CoqBool(r.Match([]byte(s)))))
		}
		rows = append(rows, fmt.Sprintf("(%d%%N, %s)", i, hx.CoqList(cells)))
	}
	return hx.CoqList(rows)
}

func coqNames(names []string) string {
	items := make([]string, len(names))
	for i, n := range names {
		items[i] = hx.CoqStr(n)
	}
	return hx.CoqList(items)
}

func parseOpt(text string) (influxql.Expr, error) {
	if strings.TrimSpace(text) == "" {
		return nil, nil
	}
	var e influxql.Expr
	err := guard(func() error {
		var perr error
		e, perr = influxql.ParseExpr(text)
		return perr
	})
	return e, err
}

// ---------- kind guard ----------

type GuardDesc struct {
	Expr    string   `json:"expr"`
	Names   []string `json:"names,omitempty"`
	Min     int64    `json:"min"`
	Max     int64    `json:"max"`
	Pts     []GPt    `json:"pts"`
	Batches [][]int  `json:"batches,omitempty"`
}

func realMatches(min, max int64, names []string, expr influxql.Expr, pts []models.Point) (res bool, panicked bool) {
	err := guard(func() error {
		res = tsdb.VerifGuardMatches(min, max, names, expr, pts)
		return nil
	})
	return res, err != nil
}

func runGuard(o *hx.Out, d GuardDesc, origin string) {
	o.Begin("guard", d)
	expr, err := parseOpt(d.Expr)
	if err != nil {
		count(o, "guard:parse-error")
		return
	}
	pts := realPoints(o, d.Pts)
	rt := &reTab{}
	coqE := coqExprOpt(expr, rt)
	anyPanic := false
	var rows, obs []string
	nm := 0
	for _, p := range pts {
		m, pk := realMatches(d.Min, d.Max, d.Names, expr, []models.Point{p})
		anyPanic = anyPanic || pk
		if m {
			nm++
		}
		rows = append(rows, fmt.Sprintf("(%s, %s)", coqPoint(p), hx.CoqBool(m)))
		obs = append(obs, fmt.Sprintf("%s@%d=%v", p.Key(), p.UnixNano(), m))
	}
	var batches []string
	for _, b := range d.Batches {
		var sel []models.Point
		var idx []string
		for _, i := range b {
			if i >= 0 && i < len(pts) {
				sel = append(sel, pts[i])
				idx = append(idx, fmt.Sprintf("%d%%nat", i))
			}
		}
		m, pk := realMatches(d.Min, d.Max, d.Names, expr, sel)
		anyPanic = anyPanic || pk
		batches = append(batches, fmt.Sprintf("(%s, %s)", hx.CoqList(idx), hx.CoqBool(m)))
	}
	nilGuard := false
	if e := guard(func() error { nilGuard = tsdb.VerifNilGuardMatches(pts); return nil }); e != nil {
		anyPanic = true
	}
	if anyPanic {
		nilGuard = false // cannot agree: the nil guard matches everything
		count(o, "guard:panic")
	}
	coq := fmt.Sprintf("CGuard %s %s %s %s %s %s %s %s", coqReTab(rt, pts, d.Names), coqE, hx.CoqZ(d.Min), hx.CoqZ(d.Max),
		coqNames(d.Names), hx.CoqList(rows), hx.CoqList(batches), hx.CoqBool(nilGuard))
	countExprShape(o, "guard", expr)
	switch {
	case d.Min == math.MinInt64 || d.Max == math.MaxInt64:
		count(o, "guard:bounds-extreme")
	case d.Min == d.Max:
		count(o, "guard:bounds-instant")
	case d.Min > d.Max:
		count(o, "guard:bounds-empty")
	default:
		count(o, "guard:bounds-range")
	}
	if len(d.Names) == 0 {
		count(o, "guard:names-none")
	} else {
		count(o, "guard:names-some")
	}
	db, _ := json.Marshal(d)
	o.Emit(hx.Case{Kind: "guard", Coq: coq, Desc: d, Obs: map[string]interface{}{"matches": obs, "panic": anyPanic},
		Nontrivial: len(pts) > 0 && nm > 0 && nm < len(pts), Sig: "g:" + string(db), Origin: origin})
}

func countExprShape(o *hx.Out, kind string, e influxql.Expr) {
	if isNilExpr(e) {
		count(o, kind+":expr-nil")
		return
	}
	seen := map[string]bool{}
	influxql.WalkFunc(e, func(n influxql.Node) {
		switch n := n.(type) {
		case *influxql.BinaryExpr:
			switch n.Op {
			case influxql.AND, influxql.OR:
				seen["and-or"] = true
			case influxql.EQREGEX, influxql.NEQREGEX:
				seen["regex"] = true
			case influxql.EQ, influxql.NEQ:
				_, l := n.LHS.(*influxql.VarRef)
				_, r := n.RHS.(*influxql.VarRef)
				if l && r {
					seen["var-var"] = true
				} else {
					seen["eq-neq"] = true
				}
			default:
				seen["other-op"] = true
			}
		case *influxql.BooleanLiteral:
			seen["bool"] = true
		case *influxql.ParenExpr:
			seen["paren"] = true
		case *influxql.VarRef:
			if n.Val == "_name" {
				seen["_name"] = true
			}
		}
	})
	for k := range seen {
		count(o, kind+":expr-"+k)
	}
}

// ---------- kind guarddel ----------

type GuardDelDesc struct {
	Index string   `json:"index"` // inmem | tsi1
	Expr  string   `json:"expr"`
	Names []string `json:"names,omitempty"` // FROM measurements; none = all measurements of the shard
	Min   int64    `json:"min"`             // MinInt64 = no lower bound in the statement
	Max   int64    `json:"max"`             // MaxInt64 = no upper bound
	Pts   []GPt    `json:"pts"`
}

func openGuardStore(root, index string) (*tsdb.Store, error) {
	var st *tsdb.Store
	err := guard(func() error {
		s := tsdb.NewStore(filepath.Join(root, "data"))
		s.EngineOptions.Config.WALDir = filepath.Join(root, "wal")
		s.EngineOptions.Config.Dir = filepath.Join(root, "data")
		s.EngineOptions.WALEnabled = true
		s.EngineOptions.CompactionDisabled = true
		s.EngineOptions.CompactionPlannerCreator = func(tsdb.Config) interface{} { return nopPlanner{} }
		s.EngineOptions.IndexVersion = index
		s.EngineOptions.Config.Index = index
		if err := s.Open(); err != nil {
			return err
		}
		st = s
		return s.CreateShard("db0", "rp0", 1, true)
	})
	if err != nil && st != nil {
		guard(func() error { return st.Close() })
		st = nil
	}
	return st, err
}

func remainingTimes(eng *tsm1.Engine, p models.Point) map[int64]bool {
	res := map[int64]bool{}
	key := append(append([]byte{}, p.Key()...), []byte("#!~#f")...)
	for _, v := range eng.Cache.Values(key) {
		res[v.UnixNano()] = true
	}
	return res
}

func runGuardDel(o *hx.Out, d GuardDelDesc, origin string) {
	o.Begin("guarddel", d)
	// the statement's condition
	var parts []string
	if strings.TrimSpace(d.Expr) != "" {
		parts = append(parts, "("+d.Expr+")")
	}
	if tc := timeCond(d.Min, d.Max); tc != "" {
		parts = append(parts, tc)
	}
	text := strings.Join(parts, " AND ")
	cond, err := parseOpt(text)
	if err != nil {
		count(o, "guarddel:parse-error")
		return
	}
	cond2, _ := parseOpt(text) // a second tree: ConditionExpr is applied by the store as well
	pts := realPoints(o, d.Pts)
	// no two points of one series at one time
	{
		seen := map[string]bool{}
		var uniq []models.Point
		for _, p := range pts {
			k := fmt.Sprintf("%s@%d", p.Key(), p.UnixNano())
			if !seen[k] {
				seen[k] = true
				uniq = append(uniq, p)
			}
		}
		pts = uniq
	}
	root := newDir()
	defer os.RemoveAll(root)
	st, err := openGuardStore(root, d.Index)
	if err != nil {
		panic(fmt.Sprintf("cannot create store (%s): %v", d.Index, err))
	}
	defer func() { guard(func() error { return st.Close() }) }()
	if len(pts) > 0 {
		if e := guard(func() error { return st.WriteToShard(1, pts) }); e != nil {
			panic(fmt.Sprintf("write failed: %v", e))
		}
	}
	e0, err := st.Shard(1).Engine()
	if err != nil {
		panic(err)
	}
	eng := e0.(*tsm1.Engine)
	for _, p := range pts {
		if !remainingTimes(eng, p)[p.UnixNano()] {
			panic(fmt.Sprintf("point %s@%d not readable after the write", p.Key(), p.UnixNano()))
		}
	}
	// the guard Store.DeleteSeries installs: its arguments as store.go computes them
	var sources []influxql.Source
	for _, n := range d.Names {
		sources = append(sources, &influxql.Measurement{Name: n})
	}
	var names []string
	if len(sources) > 0 {
		names = append(names, d.Names...)
	} else {
		st.Shard(1).ForEachMeasurementName(func(name []byte) error {
			names = append(names, string(name))
			return nil
		})
	}
	sort.Strings(names)
	var gcond influxql.Expr
	gmin, gmax := int64(influxql.MinTime), int64(influxql.MaxTime)
	condErr := guard(func() error {
		c, tr, e := influxql.ConditionExpr(cond2, nil)
		if e != nil {
			return e
		}
		gcond = c
		if !tr.Min.IsZero() {
			gmin = tr.Min.UnixNano()
		}
		if !tr.Max.IsZero() {
			gmax = tr.Max.UnixNano()
		}
		return nil
	})
	if condErr != nil {
		// the statement is rejected before any guard exists (Store.DeleteSeries returns the same error)
		count(o, "guarddel:condition-error")
		return
	}
	matched := make([]bool, len(pts))
	anyPanic := false
	for i, p := range pts {
		m, pk := realMatches(gmin, gmax, names, gcond, []models.Point{p})
		matched[i] = m
		anyPanic = anyPanic || pk
	}
	// the real delete
	derr := guard(func() error { return st.DeleteSeries("db0", sources, cond) })
	if derr != nil {
		count(o, "guarddel:delete-error")
	}
	rt := &reTab{}
	coqE := coqExprOpt(gcond, rt)
	var rows, obs []string
	nlost, nunguarded := 0, 0
	for i, p := range pts {
		lost := !remainingTimes(eng, p)[p.UnixNano()]
		if lost {
			nlost++
			if !matched[i] {
				nunguarded++
			}
		}
		m := matched[i]
		rows = append(rows, fmt.Sprintf("(%s, %s, %s)", coqPoint(p), hx.CoqBool(lost), hx.CoqBool(m)))
		obs = append(obs, fmt.Sprintf("%s@%d lost=%v guard=%v", p.Key(), p.UnixNano(), lost, m))
	}
	if anyPanic {
		count(o, "guarddel:guard-panic")
		rows = append(rows, "({| gp_name := []; gp_tags := [([], [])]; gp_time := 0%Z |}, false, false)") // cannot agree
	}
	coq := fmt.Sprintf("CGuardDel %s %s %s %s %s %s %s", coqReTab(rt, pts, names), coqE, hx.CoqZ(gmin), hx.CoqZ(gmax),
		coqNames(names), hx.CoqBool(derr != nil), hx.CoqList(rows))
	count(o, "guarddel:index-"+d.Index)
	countExprShape(o, "guarddel", gcond)
	if len(d.Names) == 0 {
		count(o, "guarddel:from-none")
	} else {
		count(o, "guarddel:from-some")
	}
	errText := ""
	if derr != nil {
		errText = derr.Error()
	}
	db, _ := json.Marshal(d)
	o.Emit(hx.Case{Kind: "guarddel", Coq: coq, Desc: d,
		Obs:        map[string]interface{}{"rows": obs, "delete_error": errText, "guard_min": gmin, "guard_max": gmax, "guard_names": names, "lost": nlost, "lost_unguarded": nunguarded},
		Nontrivial: nlost > 0 && nlost < len(pts), Sig: "gd:" + string(db), Origin: origin})
}

// ---------- kind epoch ----------

type GArgs struct {
	Expr  string   `json:"expr"`
	Names []string `json:"names,omitempty"`
	Min   int64    `json:"min"`
	Max   int64    `json:"max"`
}

type EAct struct {
	T     string `json:"t"` // w | d
	I     int    `json:"i"`
	Order []int  `json:"order,omitempty"`
}

type EpochDesc struct {
	Guards []GArgs `json:"guards"` // one deleter per guard
	WPts   [][]GPt `json:"wpts"`   // one writer per batch
	Sched  []EAct  `json:"sched"`
}

type wThread struct {
	st  int // 0 idle, 1 checking, 2 done
	gen uint64
	gs  []int
}

type dThread struct {
	st  int // 0 idle, 1 waiting, 2 critical section, 3 done
	gen uint64
}

func sameMembers(a, b []int) bool {
	in := func(x int, l []int) bool {
		for _, y := range l {
			if x == y {
				return true
			}
		}
		return false
	}
	for _, x := range a {
		if !in(x, b) {
			return false
		}
	}
	for _, x := range b {
		if !in(x, a) {
			return false
		}
	}
	return true
}

func coqNats(l []int) string {
	items := make([]string, len(l))
	for i, x := range l {
		items[i] = fmt.Sprintf("%d%%nat", x)
	}
	return hx.CoqList(items)
}

func runEpoch(o *hx.Out, d EpochDesc, origin string) {
	o.Begin("epoch", d)
	nw, nd := len(d.WPts), len(d.Guards)
	exprs := make([]influxql.Expr, nd)
	for j, g := range d.Guards {
		e, err := parseOpt(g.Expr)
		if err != nil {
			count(o, "epoch:parse-error")
			return
		}
		exprs[j] = e
	}
	wpts := make([][]models.Point, nw)
	for i := range d.WPts {
		wpts[i] = realPoints(o, d.WPts[i])
	}
	// which guard matches which writer's batch (the real guard.Matches)
	mt := make([][]bool, nd)
	var mtRows []string
	for j := range mt {
		mt[j] = make([]bool, nw)
		var cells []string
		for i := range wpts {
			m, _ := realMatches(d.Guards[j].Min, d.Guards[j].Max, d.Guards[j].Names, exprs[j], wpts[i])
			mt[j][i] = m
			cells = append(cells, hx.CoqBool(m))
		}
		mtRows = append(mtRows, hx.CoqList(cells))
	}
	var tr *tsdb.VerifEpochTracker
	guard(func() error { tr = tsdb.VerifNewEpochTracker(); return nil })
	ws := make([]wThread, nw)
	ds := make([]dThread, nd)
	genDel := map[uint64]int{}
	snapshot := func() string {
		var epoch, largest uint64
		var writes int64
		var dels [][2]int64
		tr2 := tr
		guard(func() error { epoch, largest, writes, dels = tr2.State(); return nil })
		var dl []string
		for _, x := range dels {
			j, ok := genDel[uint64(x[0])]
			if !ok {
				j = 99
			}
			dl = append(dl, fmt.Sprintf("{| d_gen := %d%%N; d_pending := %s; d_guard := %d%%nat |}", x[0], hx.CoqZ(x[1]), j))
		}
		var done []int
		for j := range ds {
			if ds[j].st >= 1 {
				dn := false
				jj := j
				guard(func() error { dn = tr2.GuardDone(ds[jj].gen); return nil })
				if dn {
					done = append(done, j)
				}
			}
		}
		var wl, dsl []string
		for _, w := range ws {
			switch w.st {
			case 0:
				wl = append(wl, "WIdle")
			case 1:
				wl = append(wl, fmt.Sprintf("WChk %d%%N %s", w.gen, coqNats(w.gs)))
			default:
				wl = append(wl, "WDone")
			}
		}
		for _, x := range ds {
			switch x.st {
			case 0:
				dsl = append(dsl, "DlIdle")
			case 1:
				dsl = append(dsl, fmt.Sprintf("DlWait %d%%N", x.gen))
			case 2:
				dsl = append(dsl, fmt.Sprintf("DlCrit %d%%N", x.gen))
			default:
				dsl = append(dsl, "DlDone")
			}
		}
		return fmt.Sprintf("{| gs_tr := {| t_epoch := %d%%N; t_largest := %d%%N; t_writes := %s; t_deletes := %s |}; gs_done := %s; gs_ws := %s; gs_ds := %s |}",
			epoch, largest, hx.CoqZ(writes), hx.CoqList(dl), coqNats(done), hx.CoqList(wl), hx.CoqList(dsl))
	}
	var steps []string
	nran, nblocked, crashed := 0, 0, false
	for _, a := range d.Sched {
		ran := false
		err := guard(func() error {
			switch a.T {
			case "w":
				if a.I < 0 || a.I >= nw {
					return nil
				}
				w := &ws[a.I]
				switch {
				case w.st == 0:
					gens, gen := tr.StartWrite()
					var gl []int
					for _, g := range gens {
						gl = append(gl, genDel[g])
					}
					if sameMembers(a.Order, gl) {
						gl = append([]int{}, a.Order...)
					}
					w.st, w.gen, w.gs = 1, gen, gl
					ran = true
				case w.st == 1 && len(w.gs) == 0:
					tr.EndWrite(w.gen)
					w.st = 2
					ran = true
				case w.st == 1:
					j := w.gs[0]
					blocked := false
					if j >= 0 && j < nd && ds[j].st >= 1 {
						// if guard.Matches(points) { guard.Wait() }
						blocked = tr.GuardMatches(ds[j].gen, wpts[a.I]) && !tr.GuardDone(ds[j].gen)
					}
					if !blocked {
						w.gs = w.gs[1:]
						ran = true
					}
				}
			case "d":
				if a.I < 0 || a.I >= nd {
					return nil
				}
				x := &ds[a.I]
				switch x.st {
				case 0:
					g := d.Guards[a.I]
					gen := tr.WaitDelete(g.Min, g.Max, g.Names, exprs[a.I])
					genDel[gen] = a.I
					x.st, x.gen = 1, gen
					ran = true
				case 1:
					if tr.WaitReturns(x.gen) {
						x.st = 2
						ran = true
					}
				case 2:
					tr.Done(x.gen)
					x.st = 3
					ran = true
				}
			}
			return nil
		})
		if err != nil {
			crashed = true
			count(o, "epoch:panic")
		}
		if ran {
			nran++
		} else {
			nblocked++
		}
		act := ""
		if a.T == "w" {
			act = fmt.Sprintf("AW %d%%nat %s", a.I, coqNats(a.Order))
		} else {
			act = fmt.Sprintf("AD %d%%nat", a.I)
		}
		steps = append(steps, fmt.Sprintf("(%s, %s, %s)", act, hx.CoqBool(ran && !crashed), snapshot()))
	}
	finished := true
	for _, w := range ws {
		finished = finished && w.st == 2
	}
	for _, x := range ds {
		finished = finished && x.st == 3
	}
	if finished {
		count(o, "epoch:all-finished")
	}
	count(o, fmt.Sprintf("epoch:writers-%d", nw))
	count(o, fmt.Sprintf("epoch:deleters-%d", nd))
	coq := fmt.Sprintf("CEpoch %s %d%%nat %d%%nat %s", hx.CoqList(mtRows), nw, nd, hx.CoqList(steps))
	db, _ := json.Marshal(d)
	o.Emit(hx.Case{Kind: "epoch", Coq: coq, Desc: d,
		Obs:        map[string]interface{}{"ran": nran, "blocked": nblocked, "finished": finished, "panic": crashed, "last": snapshot()},
		Nontrivial: nblocked > 0 && nran > 3, Sig: "e:" + string(db), Origin: origin})
}

// ---------- kind epochraw ----------

type RawOp struct {
	K string `json:"k"` // sw | ew | wd | dn
	G uint64 `json:"g,omitempty"`
}

type RawDesc struct {
	Ops []RawOp `json:"ops"`
}

func runEpochRaw(o *hx.Out, d RawDesc, origin string) {
	o.Begin("epochraw", d)
	var tr *tsdb.VerifEpochTracker
	guard(func() error { tr = tsdb.VerifNewEpochTracker(); return nil })
	var waiters []uint64
	var items []string
	crashed := false
	for _, op := range d.Ops {
		var rg []uint64
		var rgen uint64
		coqOp := ""
		err := guard(func() error {
			switch op.K {
			case "sw":
				rg, rgen = tr.StartWrite()
				coqOp = "RStartWrite"
			case "ew":
				tr.EndWrite(op.G)
				coqOp = fmt.Sprintf("REndWrite %d%%N", op.G)
			case "wd":
				rgen = tr.WaitDelete(0, 0, nil, nil)
				waiters = append(waiters, rgen)
				coqOp = "RWaitDelete"
			default:
				tr.Done(op.G)
				coqOp = fmt.Sprintf("RDone %d%%N", op.G)
			}
			return nil
		})
		if err != nil {
			crashed = true
			count(o, "epochraw:panic")
			coqOp = "RDone 0%N"
		}
		count(o, "epochraw:op-"+op.K)
		var epoch, largest uint64
		var writes int64
		var dels [][2]int64
		guard(func() error { epoch, largest, writes, dels = tr.State(); return nil })
		var dl []string
		for _, x := range dels {
			dl = append(dl, fmt.Sprintf("(%d%%N, %s)", x[0], hx.CoqZ(x[1])))
		}
		var dn []uint64
		for _, g := range waiters {
			done := false
			gg := g
			guard(func() error { done = tr.GuardDone(gg); return nil })
			if done {
				dn = append(dn, g)
			}
		}
		if crashed {
			epoch = math.MaxUint32 // cannot agree
		}
		items = append(items, fmt.Sprintf("(%s, (%s, %d%%N, (%d%%N, %d%%N, %s, %s, %s)))", coqOp, hx.CoqNList(rg), rgen,
			epoch, largest, hx.CoqZ(writes), hx.CoqList(dl), hx.CoqNList(dn)))
	}
	db, _ := json.Marshal(d)
	o.Emit(hx.Case{Kind: "epochraw", Coq: "CEpochRaw " + hx.CoqList(items), Desc: d, Obs: map[string]interface{}{"panic": crashed, "ops": len(d.Ops)},
		Nontrivial: len(d.Ops) > 3, Sig: "er:" + string(db), Origin: origin})
}

// ---------- replay ----------

func runGuardInput(o *hx.Out, in hx.Input) bool {
	switch in.Kind {
	case "guard":
		var d GuardDesc
		if err := json.Unmarshal(in.Desc, &d); err != nil {
			panic(err)
		}
		runGuard(o, d, "replay")
	case "guarddel":
		var d GuardDelDesc
		if err := json.Unmarshal(in.Desc, &d); err != nil {
			panic(err)
		}
		runGuardDel(o, d, "replay")
	case "epoch":
		var d EpochDesc
		if err := json.Unmarshal(in.Desc, &d); err != nil {
			panic(err)
		}
		runEpoch(o, d, "replay")
	case "epochraw":
		var d RawDesc
		if err := json.Unmarshal(in.Desc, &d); err != nil {
			panic(err)
		}
		runEpochRaw(o, d, "replay")
	default:
		return false
	}
	return true
}

// ---------- generation ----------

var gTagKeys = []string{"host", "dc", "az"}
var gTagVals = []string{"a", "b", "ab", "x"}
var gMeas = []string{"cpu", "mem", "c"}
var gRegex = []string{"/a/", "/^$/", "/a*/", "/^b/", "/./", "/^(a|x)$/", "/^c/", "/m$/", "/^(cpu)?$/"}

type ggen struct{ r *hx.Rand }

func (g *ggen) pick(l []string) string { return l[g.r.Intn(len(l))] }

func (g *ggen) key() string {
	switch g.r.Intn(12) {
	case 0:
		return "_name"
	case 1:
		return "zz" // a key no point has
	case 2:
		return g.pick(gTagKeys) + "::tag"
	}
	return g.pick(gTagKeys)
}

func (g *ggen) sval(key string) string {
	if key == "_name" && g.r.Chance(80) {
		return g.pick(gMeas)
	}
	if g.r.Chance(15) {
		return ""
	}
	return g.pick(gTagVals)
}

// a comparison the guard and the index both interpret
func (g *ggen) leaf() string {
	k := g.key()
	switch g.r.Intn(10) {
	case 0, 1:
		return fmt.Sprintf("%s = '%s'", k, g.sval(k))
	case 2, 3:
		return fmt.Sprintf("%s != '%s'", k, g.sval(k))
	case 4:
		return fmt.Sprintf("'%s' = %s", g.sval(k), k)
	case 5:
		return fmt.Sprintf("'%s' != %s", g.sval(k), k)
	case 6:
		return fmt.Sprintf("%s =~ %s", k, g.pick(gRegex))
	case 7:
		return fmt.Sprintf("%s !~ %s", k, g.pick(gRegex))
	case 8:
		op := "="
		if g.r.Bool() {
			op = "!="
		}
		return fmt.Sprintf("%s %s %s", k, op, g.key())
	default:
		if g.r.Bool() {
			return "true"
		}
		return "false"
	}
}

// forms the guard answers with "match everything" (and the index hands to the query engine or ignores)
func (g *ggen) other(forDelete bool) string {
	k := g.pick(gTagKeys)
	forms := []string{
		fmt.Sprintf("%s < '%s'", k, g.pick(gTagVals)),
		fmt.Sprintf("%s >= '%s'", k, g.pick(gTagVals)),
		fmt.Sprintf("%s = 5", k),
		fmt.Sprintf("%s = ('%s')", k, g.pick(gTagVals)),
		fmt.Sprintf("%s + 'a' = 'b'", k),
		"1 = 2",
		fmt.Sprintf("%s::field = 'a'", k),
		fmt.Sprintf("%s = %s::field", k, g.pick(gTagKeys)),
		fmt.Sprintf("%s = 1.5", k),
		fmt.Sprintf("%s = true", k),
		fmt.Sprintf("_name < '%s'", g.pick(gMeas)),
	}
	if !forDelete {
		forms = append(forms, "time > 0", "time = 5", k, "'wierd'", "f = 'x'", fmt.Sprintf("%s = now()", k))
	}
	return forms[g.r.Intn(len(forms))]
}

func (g *ggen) expr(depth int, otherPct int, forDelete bool) string {
	if depth <= 0 || g.r.Chance(30) {
		if g.r.Chance(otherPct) {
			return g.other(forDelete)
		}
		return g.leaf()
	}
	l, r := g.expr(depth-1, otherPct, forDelete), g.expr(depth-1, otherPct, forDelete)
	op := "AND"
	if g.r.Bool() {
		op = "OR"
	}
	s := fmt.Sprintf("%s %s %s", l, op, r)
	if g.r.Chance(50) {
		s = "(" + s + ")"
	}
	return s
}

func (g *ggen) tags() [][2]string {
	var tags [][2]string
	for _, k := range gTagKeys {
		if g.r.Chance(55) {
			tags = append(tags, [2]string{k, g.pick(gTagVals)})
		}
	}
	if g.r.Chance(4) {
		tags = append(tags, [2]string{"_name", g.pick(gMeas)})
	}
	return tags
}

func (g *ggen) bounds() (int64, int64) {
	switch g.r.Intn(9) {
	case 0:
		return math.MinInt64, math.MaxInt64
	case 1:
		return math.MinInt64, int64(g.r.Intn(40))
	case 2:
		return int64(g.r.Intn(40)), math.MaxInt64
	case 3:
		t := int64(g.r.Intn(40)) - 10
		return t, t
	case 4:
		return models.MinNanoTime, models.MaxNanoTime
	default:
		lo := int64(g.r.Intn(40)) - 10
		return lo, lo + int64(g.r.Intn(30))
	}
}

// times around the bounds
func boundaryTimes(lo, hi int64) []int64 {
	var ts []int64
	add := func(t int64) {
		if t >= models.MinNanoTime && t <= models.MaxNanoTime {
			ts = append(ts, t)
		}
	}
	if lo > math.MinInt64 {
		add(lo - 1)
	}
	add(lo)
	if lo != hi {
		add(hi)
	}
	if hi < math.MaxInt64 {
		add(hi + 1)
	}
	if lo == math.MinInt64 {
		add(models.MinNanoTime)
	}
	if hi == math.MaxInt64 {
		add(models.MaxNanoTime)
	}
	if len(ts) == 0 {
		ts = append(ts, 0)
	}
	return ts
}

func (g *ggen) names() []string {
	switch g.r.Intn(5) {
	case 0:
		return nil
	case 1:
		return []string{g.pick(gMeas), g.pick(gMeas)}
	case 2:
		return []string{"nope"}
	}
	return []string{g.pick(gMeas)}
}

func (g *ggen) guardCase() GuardDesc {
	d := GuardDesc{Names: g.names()}
	if !g.r.Chance(6) {
		d.Expr = g.expr(g.r.Intn(4), 12, false)
	}
	d.Min, d.Max = g.bounds()
	if g.r.Chance(4) {
		d.Min, d.Max = d.Max, d.Min
	}
	ts := boundaryTimes(d.Min, d.Max)
	n := 4 + g.r.Intn(6)
	for i := 0; i < n; i++ {
		p := GPt{M: g.pick(gMeas), Tags: g.tags(), T: ts[g.r.Intn(len(ts))]}
		if g.r.Chance(3) && len(p.Tags) > 0 {
			p.Tags = append(p.Tags, [2]string{p.Tags[0][0], g.pick(gTagVals)}) // the same key twice
		}
		if g.r.Chance(3) {
			p.Tags = append(p.Tags, [2]string{"host", ""}) // dropped when the key is built
		}
		d.Pts = append(d.Pts, p)
	}
	for b := 0; b < 3; b++ {
		var idx []int
		for i := 0; i < n; i++ {
			if g.r.Chance(40) {
				idx = append(idx, i)
			}
		}
		d.Batches = append(d.Batches, idx)
	}
	d.Batches = append(d.Batches, []int{})
	return d
}

func (g *ggen) guardDelCase(index string) GuardDelDesc {
	d := GuardDelDesc{Index: index}
	if !g.r.Chance(6) {
		d.Expr = g.expr(g.r.Intn(4), 4, true)
	}
	switch g.r.Intn(4) {
	case 0:
	case 1:
		d.Names = []string{g.pick(gMeas), "nope"}
	default:
		d.Names = []string{g.pick(gMeas)}
	}
	d.Min, d.Max = g.bounds()
	if d.Min == models.MinNanoTime {
		d.Min, d.Max = math.MinInt64, math.MaxInt64
	}
	ts := boundaryTimes(d.Min, d.Max)
	// series: every measurement with no tags, plus random tag sets; every series gets every boundary time
	var series []GPt
	for _, m := range gMeas[:2] {
		series = append(series, GPt{M: m})
	}
	n := 4 + g.r.Intn(5)
	for i := 0; i < n; i++ {
		series = append(series, GPt{M: g.pick(gMeas), Tags: g.tags()})
	}
	for _, s := range series {
		for _, t := range ts {
			d.Pts = append(d.Pts, GPt{M: s.M, Tags: s.Tags, T: t})
		}
	}
	return d
}

func (g *ggen) epochCase() EpochDesc {
	nd, nw := 1+g.r.Intn(3), 1+g.r.Intn(4)
	var d EpochDesc
	for j := 0; j < nd; j++ {
		a := GArgs{Names: g.names()}
		if g.r.Chance(70) {
			a.Expr = g.expr(g.r.Intn(2), 5, false)
		}
		a.Min, a.Max = g.bounds()
		d.Guards = append(d.Guards, a)
	}
	for i := 0; i < nw; i++ {
		var pts []GPt
		for k := 0; k <= g.r.Intn(3); k++ {
			pts = append(pts, GPt{M: g.pick(gMeas), Tags: g.tags(), T: int64(g.r.Intn(40)) - 5})
		}
		d.WPts = append(d.WPts, pts)
	}
	n := 10 + g.r.Intn(30)
	for k := 0; k < n; k++ {
		if g.r.Intn(nw+nd) < nw {
			a := EAct{T: "w", I: g.r.Intn(nw)}
			if g.r.Chance(40) {
				// some order of the deleters: used when it names exactly the pending ones
				perm := make([]int, 0, nd)
				for j := 0; j < nd; j++ {
					if g.r.Chance(70) {
						perm = append(perm, j)
					}
				}
				for x := len(perm) - 1; x > 0; x-- {
					y := g.r.Intn(x + 1)
					perm[x], perm[y] = perm[y], perm[x]
				}
				a.Order = perm
			}
			d.Sched = append(d.Sched, a)
		} else {
			d.Sched = append(d.Sched, EAct{T: "d", I: g.r.Intn(nd)})
		}
	}
	if g.r.Chance(60) {
		// then let every thread run to completion, round robin
		for round := 0; round < 3+nd+2*nw; round++ {
			for i := 0; i < nw; i++ {
				d.Sched = append(d.Sched, EAct{T: "w", I: i})
			}
			for j := 0; j < nd; j++ {
				d.Sched = append(d.Sched, EAct{T: "d", I: j})
			}
		}
	}
	return d
}

func (g *ggen) rawCase() RawDesc {
	var d RawDesc
	var wgens, dgens []uint64
	var epoch uint64
	n := 6 + g.r.Intn(25)
	for k := 0; k < n; k++ {
		switch c := g.r.Intn(10); {
		case c < 3:
			epoch++
			wgens = append(wgens, epoch)
			d.Ops = append(d.Ops, RawOp{K: "sw"})
		case c < 6:
			var gen uint64
			if len(wgens) > 0 && g.r.Chance(85) {
				i := g.r.Intn(len(wgens))
				gen = wgens[i]
				if g.r.Chance(85) {
					wgens = append(wgens[:i], wgens[i+1:]...)
				}
			} else {
				gen = uint64(g.r.Intn(int(epoch) + 3))
			}
			d.Ops = append(d.Ops, RawOp{K: "ew", G: gen})
		case c < 8:
			epoch++
			dgens = append(dgens, epoch)
			d.Ops = append(d.Ops, RawOp{K: "wd"})
		default:
			var gen uint64
			if len(dgens) > 0 && g.r.Chance(85) {
				i := g.r.Intn(len(dgens))
				gen = dgens[i]
				if g.r.Chance(80) {
					dgens = append(dgens[:i], dgens[i+1:]...)
				}
			} else {
				gen = uint64(g.r.Intn(int(epoch) + 3))
			}
			d.Ops = append(d.Ops, RawOp{K: "dn", G: gen})
		}
	}
	return d
}

// ---------- designed ----------

func designedGuards(o *hx.Out) {
	tg := func(kv ...string) [][2]string {
		var t [][2]string
		for i := 0; i+1 < len(kv); i += 2 {
			t = append(t, [2]string{kv[i], kv[i+1]})
		}
		return t
	}
	// the points of the witnesses: with and without the tag the predicate names
	base := func(ts ...int64) []GPt {
		var ps []GPt
		for _, t := range ts {
			ps = append(ps,
				GPt{M: "cpu", T: t}, GPt{M: "cpu", Tags: tg("host", "a"), T: t}, GPt{M: "cpu", Tags: tg("host", "b"), T: t},
				GPt{M: "cpu", Tags: tg("dc", "x"), T: t}, GPt{M: "cpu", Tags: tg("dc", "x", "host", "a"), T: t},
				GPt{M: "mem", Tags: tg("host", "a"), T: t})
		}
		return ps
	}
	all := [][]int{{0, 1, 2, 3, 4, 5}, {0, 3}, {}, {5}}
	for _, e := range []string{
		"host != 'a'", "host = ''", "host != ''", "host =~ /^$/", "host =~ /a*/", "host !~ /a/", "host !~ /a*/", "host =~ /a/",
		"_name =~ /cp/", "_name !~ /cp/", "_name = 'cpu'", "_name != 'cpu'", "host = dc", "host != dc", "'b' != host",
		"true AND (false OR ('b' != host::tag))", "host = 'a' AND dc = 'x'", "host = 'a' OR dc != 'x'",
		"host < 'b'", "host = 5", "1 = 2", "false", "true", "(false) AND host = 'a'", "false OR false", "host = 'a' AND false AND dc = 'x'",
		"time > 0", "host", "zz = ''", "zz != ''", "zz =~ /^$/", "_name = host", "",
	} {
		runGuard(o, GuardDesc{Expr: e, Names: []string{"cpu", "mem"}, Min: 10, Max: 20, Pts: base(9, 10, 20, 21), Batches: all}, "designed")
	}
	// bounds: inclusive ends, a single instant, the whole int64 range, an empty range; names none / other
	for _, b := range [][2]int64{{10, 10}, {10, 20}, {math.MinInt64, math.MaxInt64}, {math.MinInt64, 10}, {10, math.MaxInt64}, {20, 10}, {models.MinNanoTime, models.MaxNanoTime}} {
		ts := boundaryTimes(b[0], b[1])
		runGuard(o, GuardDesc{Expr: "host = 'a'", Names: []string{"cpu"}, Min: b[0], Max: b[1], Pts: base(ts...), Batches: all}, "designed")
		runGuard(o, GuardDesc{Expr: "", Names: nil, Min: b[0], Max: b[1], Pts: base(ts...), Batches: all}, "designed")
		runGuard(o, GuardDesc{Expr: "host != 'a'", Names: []string{"nope"}, Min: b[0], Max: b[1], Pts: base(ts...)}, "designed")
	}
	// the real delete on both index types
	for _, idx := range []string{"inmem", "tsi1"} {
		for _, e := range []string{"host != 'a'", "host = ''", "host =~ /^$/", "host !~ /a/", "_name =~ /cp/", "host = dc", "host != dc", "host = 'a' OR dc = 'x'", ""} {
			runGuardDel(o, GuardDelDesc{Index: idx, Expr: e, Min: 10, Max: 20, Pts: base(9, 10, 20, 21)}, "designed")
		}
		runGuardDel(o, GuardDelDesc{Index: idx, Expr: "host = 'a'", Names: []string{"cpu"}, Min: 15, Max: 15, Pts: base(14, 15, 16)}, "designed")
		runGuardDel(o, GuardDelDesc{Index: idx, Expr: "host != 'b'", Names: []string{"mem", "nope"}, Min: math.MinInt64, Max: math.MaxInt64,
			Pts: base(models.MinNanoTime, 0, models.MaxNanoTime)}, "designed")
		runGuardDel(o, GuardDelDesc{Index: idx, Expr: "host = 5", Min: 10, Max: 20, Pts: base(10)}, "designed")
	}
	// epoch: a write in flight holds the delete; the delete holds the matching write, not the other one
	gA := GArgs{Expr: "host = 'a'", Names: []string{"cpu"}, Min: 0, Max: 100}
	gAll := GArgs{Min: math.MinInt64, Max: math.MaxInt64}
	wA := []GPt{{M: "cpu", Tags: tg("host", "a"), T: 5}}
	wB := []GPt{{M: "cpu", Tags: tg("host", "b"), T: 5}}
	wNo := []GPt{{M: "cpu", T: 5}}
	W := func(i int, order ...int) EAct { return EAct{T: "w", I: i, Order: order} }
	D := func(j int) EAct { return EAct{T: "d", I: j} }
	runEpoch(o, EpochDesc{Guards: []GArgs{gA}, WPts: [][]GPt{wA, wB}, Sched: []EAct{W(0), D(0), D(0), W(1), W(1), W(1), W(0), W(0), D(0), W(0), W(0), D(0), W(0), W(0), W(0)}}, "designed")
	runEpoch(o, EpochDesc{Guards: []GArgs{gA, gAll}, WPts: [][]GPt{wA, wB, wNo}, Sched: []EAct{W(0), D(0), W(1), D(1), D(0), W(1), W(0), D(0), D(1), W(1, 1, 0), D(0), W(1), D(1),
		D(1), W(1), W(1), W(1), W(2), W(2), W(2), D(1), D(1), W(2), W(2)}}, "designed")
	runEpoch(o, EpochDesc{Guards: []GArgs{{Expr: "host != 'a'", Names: []string{"cpu"}, Min: 5, Max: 5}}, WPts: [][]GPt{wNo, wA}, Sched: []EAct{D(0), D(0), W(0), W(0), W(1), W(1), W(1), D(0), W(0), W(0)}}, "designed")
	runEpochRaw(o, RawDesc{Ops: []RawOp{{K: "sw"}, {K: "wd"}, {K: "sw"}, {K: "wd"}, {K: "ew", G: 3}, {K: "ew", G: 1}, {K: "dn", G: 2}, {K: "sw"}, {K: "dn", G: 4}, {K: "ew", G: 5}}}, "designed")
	runEpochRaw(o, RawDesc{Ops: []RawOp{{K: "wd"}, {K: "ew", G: 1}, {K: "ew", G: 7}, {K: "dn", G: 9}, {K: "dn", G: 1}, {K: "dn", G: 1}, {K: "sw"}, {K: "ew", G: 2}, {K: "ew", G: 2}}}, "designed")
}

func generatedGuards(o *hx.Out, r *hx.Rand, n int, tier string) {
	capped := func(x, c int) int {
		if x > c {
			return c
		}
		return x
	}
	ng, ndel, ne, nr := capped(3*n, 4500), capped(n/2, 500), capped(2*n, 2000), capped(n, 1000)
	for i := 0; i < ng; i++ {
		g := &ggen{r: r.Split()}
		runGuard(o, g.guardCase(), "gen")
	}
	for i := 0; i < ndel; i++ {
		g := &ggen{r: r.Split()}
		idx := "inmem"
		if i%2 == 1 {
			idx = "tsi1"
		}
		runGuardDel(o, g.guardDelCase(idx), "gen")
	}
	for i := 0; i < ne; i++ {
		g := &ggen{r: r.Split()}
		runEpoch(o, g.epochCase(), "gen")
	}
	for i := 0; i < nr; i++ {
		g := &ggen{r: r.Split()}
		runEpochRaw(o, g.rawCase(), "gen")
	}
}
