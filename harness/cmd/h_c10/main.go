// h_c10: delete harness for C10 (deletes remove exactly the targeted data, permanently).
// Histories of writes, range deletes (by series, by tag predicate, whole measurement, whole database),
// measurement drops, snapshots, compactions and crash-restarts run on a real tsdb.Store; after every
// operation every key ever written is read back and the listed series are collected.  A delete can be
// placed inside an in-flight cache snapshot through the verifPoint hook in writeSnapshotAndCommit.
package main

import (
	"context"
	"encoding/json"
	"fmt"
	"io"
	"math"
	"os"
	"path/filepath"
	"sort"
	"strings"
	"sync"
	"time"

	"github.com/influxdata/influxdb/models"
	"github.com/influxdata/influxdb/query"
	"github.com/influxdata/influxdb/tsdb"
	_ "github.com/influxdata/influxdb/tsdb/engine"
	"github.com/influxdata/influxdb/tsdb/engine/tsm1"
	_ "github.com/influxdata/influxdb/tsdb/index"
	"github.com/influxdata/influxql"
	"verifharness/hx"
)

// ---------- input description ----------

type Pt struct {
	M string `json:"m"`
	S string `json:"s"`
	F string `json:"f"` // first letter gives the type: i f s b u
	T int64  `json:"t"`
	V string `json:"v"` // int64 / float bits / string / 0|1 / uint64
}

type Ser struct {
	M string `json:"m"`
	S string `json:"s"`
}

type Op struct {
	K      string `json:"k"` // w snap snapfail compact del restart
	Pts    []Pt   `json:"pts,omitempty"`
	Series []Ser  `json:"series,omitempty"`
	Lo     int64  `json:"lo,omitempty"`
	Hi     int64  `json:"hi,omitempty"`
	I      int    `json:"i,omitempty"`
	N      int    `json:"n,omitempty"`
}

type Crash struct {
	At    int    `json:"at"`    // index of the operation the crash falls in / after
	Point string `json:"point"` // after | wal | snapshot.written | snapshot.replaced | replace.renamed
	Cut   int64  `json:"cut"`   // wal: bytes of the operation's WAL entry that reached the disk; -1 = all but one
}

type Desc struct {
	Ops    []Op   `json:"ops"`
	Crash1 Crash  `json:"crash1"`
	Ops2   []Op   `json:"ops2"`
	Crash2 *Crash `json:"crash2,omitempty"` // relative to ops2; nil = no second restart
}

// ---------- keys, values, Coq rendering ----------

func seriesKey(m, s string) string  { return m + ",s=" + s }
func compKey(m, s, f string) string { return seriesKey(m, s) + "#!~#" + f }
func coqStr(s string) string        { return hx.CoqBytes([]byte(s)) }
func (p Pt) key() string            { return compKey(p.M, p.S, p.F) }
func parseI(s string) int64         { var v int64; fmt.Sscan(s, &v); return v }
func parseU(s string) uint64        { var v uint64; fmt.Sscan(s, &v); return v }

func (p Pt) coqValue() string {
	switch p.F[0] {
	case 'i':
		return "VInt " + hx.CoqZ(parseI(p.V))
	case 'f':
		return fmt.Sprintf("VFloat %d%%N", parseU(p.V))
	case 's':
		return "VStr " + coqStr(p.V)
	case 'b':
		return "VBool " + hx.CoqBool(p.V == "1")
	default:
		return fmt.Sprintf("VUint %d%%N", parseU(p.V))
	}
}

func (p Pt) field() interface{} {
	switch p.F[0] {
	case 'i':
		return parseI(p.V)
	case 'f':
		return math.Float64frombits(parseU(p.V))
	case 's':
		return p.V
	case 'b':
		return p.V == "1"
	default:
		return parseU(p.V)
	}
}

func coqPts(pts []Pt) string {
	items := make([]string, len(pts))
	for i, p := range pts {
		items[i] = fmt.Sprintf("(%s, (%s, %s))", coqStr(p.key()), hx.CoqZ(p.T), p.coqValue())
	}
	return hx.CoqList(items)
}

type tvObs struct {
	T int64
	V string
}

func coqTVs(vs []tvObs) string {
	items := make([]string, len(vs))
	for i, x := range vs {
		items[i] = fmt.Sprintf("(%s, %s)", hx.CoqZ(x.T), x.V)
	}
	return hx.CoqList(items)
}

// ---------- the real store ----------

type nopPlanner struct{}

func (nopPlanner) Plan(time.Time) []tsm1.CompactionGroup { return nil }
func (nopPlanner) PlanLevel(int) []tsm1.CompactionGroup  { return nil }
func (nopPlanner) PlanOptimize() []tsm1.CompactionGroup  { return nil }
func (nopPlanner) Release([]tsm1.CompactionGroup)        {}
func (nopPlanner) FullyCompacted() bool                  { return true }
func (nopPlanner) ForceFull()                            {}
func (nopPlanner) SetFileStore(*tsm1.FileStore)          {}

// observer: tsdb.FileStoreObserver of the store under test; called by FileStore.replace
// before every rename of a new file and before every removal of an old one
type observer struct {
	fn func(kind, path string)
}

func (o *observer) FileFinishing(path string) error {
	if o.fn != nil {
		o.fn("finishing", path)
	}
	return nil
}
func (o *observer) FileUnlinking(path string) error {
	if o.fn != nil {
		o.fn("unlinking", path)
	}
	return nil
}

type world struct {
	root string
	st   *tsdb.Store
	sh   *tsdb.Shard
	eng  *tsm1.Engine
	obs  *observer
}

func guard(f func() error) (err error) {
	defer func() {
		if e := recover(); e != nil {
			err = fmt.Errorf("panic: %v", e)
		}
	}()
	return f()
}

func openWorld(root string, create bool) (*world, error) {
	w := &world{root: root, obs: &observer{}}
	err := guard(func() error {
		st := tsdb.NewStore(filepath.Join(root, "data"))
		st.EngineOptions.Config.WALDir = filepath.Join(root, "wal")
		st.EngineOptions.Config.Dir = filepath.Join(root, "data")
		st.EngineOptions.WALEnabled = true
		st.EngineOptions.CompactionDisabled = true // no background goroutines; the Compactor stays usable
		st.EngineOptions.CompactionPlannerCreator = func(tsdb.Config) interface{} { return nopPlanner{} }
		st.EngineOptions.FileStoreObserver = w.obs
		if err := st.Open(); err != nil {
			return err
		}
		w.st = st
		if create {
			if err := st.CreateShard("db0", "rp0", 1, true); err != nil {
				return err
			}
		}
		w.sh = st.Shard(1)
		if w.sh == nil {
			return fmt.Errorf("shard 1 missing after open")
		}
		e, err := w.sh.Engine()
		if err != nil {
			return err
		}
		w.eng = e.(*tsm1.Engine)
		return nil
	})
	if err != nil {
		w.close()
		return nil, err
	}
	return w, nil
}

func (w *world) close() {
	if w.st != nil {
		guard(func() error { return w.st.Close() })
		w.st = nil
	}
}

func (w *world) walDir() string { return filepath.Join(w.root, "wal", "db0", "rp0", "1") }

// newest WAL segment and its length
func walTail(dir string) (string, int64) {
	names, _ := filepath.Glob(filepath.Join(dir, "_*.wal"))
	if len(names) == 0 {
		return "", 0
	}
	sort.Strings(names)
	n := names[len(names)-1]
	st, err := os.Stat(n)
	if err != nil {
		return filepath.Base(n), 0
	}
	return filepath.Base(n), st.Size()
}

func copyTree(src, dst string) error {
	return filepath.Walk(src, func(p string, info os.FileInfo, err error) error {
		if err != nil {
			if os.IsNotExist(err) {
				return nil
			}
			return err
		}
		rel, _ := filepath.Rel(src, p)
		target := filepath.Join(dst, rel)
		if info.IsDir() {
			return os.MkdirAll(target, 0777)
		}
		in, err := os.Open(p)
		if err != nil {
			if os.IsNotExist(err) {
				return nil
			}
			return err
		}
		defer in.Close()
		out, err := os.Create(target)
		if err != nil {
			return err
		}
		defer out.Close()
		if info.Size() < 1<<20 {
			_, err = io.Copy(out, in)
			return err
		}
		// large preallocated files (series file segments): copy the data extents only
		buf := make([]byte, 1<<16)
		size := info.Size()
		var off int64
		for off < size {
			start, err := in.Seek(off, 3) // SEEK_DATA
			if err != nil {
				break // no more data
			}
			end, err := in.Seek(start, 4) // SEEK_HOLE
			if err != nil || end <= start {
				end = size
			}
			for pos := start; pos < end; {
				n := int64(len(buf))
				if end-pos < n {
					n = end - pos
				}
				m, rerr := in.ReadAt(buf[:n], pos)
				if m > 0 {
					if _, err := out.WriteAt(buf[:m], pos); err != nil {
						return err
					}
					pos += int64(m)
				}
				if rerr != nil {
					break
				}
				if m == 0 {
					break
				}
			}
			off = end
		}
		off = size
		return out.Truncate(off)
	})
}

func mkPoints(pts []Pt) ([]models.Point, error) {
	var res []models.Point
	for _, p := range pts {
		mp, err := models.NewPoint(p.M, models.NewTags(map[string]string{"s": p.S}), models.Fields{p.F: p.field()}, time.Unix(0, p.T))
		if err != nil {
			return nil, err
		}
		res = append(res, mp)
	}
	return res, nil
}

type serElem struct {
	name []byte
	tags models.Tags
}

func (e serElem) Name() []byte        { return e.name }
func (e serElem) Tags() models.Tags   { return e.tags }
func (e serElem) Deleted() bool       { return false }
func (e serElem) Expr() influxql.Expr { return nil }

type serIter struct {
	elems []serElem
	i     int
}

func (s *serIter) Close() error { return nil }
func (s *serIter) Next() (tsdb.SeriesElem, error) {
	if s.i >= len(s.elems) {
		return nil, nil
	}
	e := s.elems[s.i]
	s.i++
	return e, nil
}

func (w *world) readKey(m, s, f string) (res []tvObs, err error) {
	opt := query.IteratorOptions{
		Expr:       &influxql.VarRef{Val: f},
		Dimensions: []string{"s"},
		Condition:  influxql.MustParseExpr(fmt.Sprintf("s = '%s'", s)),
		StartTime:  influxql.MinTime, EndTime: influxql.MaxTime, Ascending: true, Ordered: true,
	}
	itr, err := w.sh.CreateIterator(context.Background(), &influxql.Measurement{Name: m}, opt)
	if err != nil {
		return nil, err
	}
	if itr == nil {
		return nil, nil
	}
	defer itr.Close()
	for {
		switch it := itr.(type) {
		case query.FloatIterator:
			p, err := it.Next()
			if err != nil || p == nil {
				return res, err
			}
			res = append(res, tvObs{p.Time, fmt.Sprintf("VFloat %d%%N", math.Float64bits(p.Value))})
		case query.IntegerIterator:
			p, err := it.Next()
			if err != nil || p == nil {
				return res, err
			}
			res = append(res, tvObs{p.Time, "VInt " + hx.CoqZ(p.Value)})
		case query.UnsignedIterator:
			p, err := it.Next()
			if err != nil || p == nil {
				return res, err
			}
			res = append(res, tvObs{p.Time, fmt.Sprintf("VUint %d%%N", p.Value)})
		case query.BooleanIterator:
			p, err := it.Next()
			if err != nil || p == nil {
				return res, err
			}
			res = append(res, tvObs{p.Time, "VBool " + hx.CoqBool(p.Value)})
		case query.StringIterator:
			p, err := it.Next()
			if err != nil || p == nil {
				return res, err
			}
			res = append(res, tvObs{p.Time, "VStr " + coqStr(p.Value)})
		default:
			return nil, fmt.Errorf("unknown iterator type %T", itr)
		}
	}
}

var workRoot string
var dirSeq int
var mu sync.Mutex

func coqSeries(ss []Ser) string {
	items := make([]string, len(ss))
	for i, s := range ss {
		items[i] = coqStr(seriesKey(s.M, s.S))
	}
	return hx.CoqList(items)
}

func sortedKeys(m map[string][3]string) []string {
	ks := make([]string, 0, len(m))
	for k := range m {
		ks = append(ks, k)
	}
	sort.Strings(ks)
	return ks
}

func count(o *hx.Out, k string) {
	mu.Lock()
	o.Count(k)
	mu.Unlock()
}

func newDir() string {
	mu.Lock()
	dirSeq++
	n := dirSeq
	mu.Unlock()
	d := filepath.Join(workRoot, fmt.Sprintf("w%06d", n))
	os.MkdirAll(d, 0777)
	return d
}

func takeImage(w *world, tailName string, truncTo int64) (string, error) {
	dst := newDir()
	if err := copyTree(filepath.Join(w.root, "data"), filepath.Join(dst, "data")); err != nil {
		return "", err
	}
	if err := copyTree(filepath.Join(w.root, "wal"), filepath.Join(dst, "wal")); err != nil {
		return "", err
	}
	if truncTo >= 0 && tailName != "" {
		if err := os.Truncate(filepath.Join(dst, "wal", "db0", "rp0", "1", tailName), truncTo); err != nil {
			return "", err
		}
	}
	return dst, nil
}

// ---------- C10: one history, observed after every operation ----------

// Op kinds here: w, snap, compact (I,N), restart (crash image after the previous operation, reopen),
// del (Series, Lo, Hi; I = selection form: 0 tag predicate, 1 whole measurement, 2 whole database),
// dropm (Series[0].M), snapdel (a del executed while the cache snapshot of this WriteSnapshot is in flight)
type Desc10 struct {
	Ops []Op `json:"ops"`
}

type run10 struct {
	w      *world
	o      *hx.Out
	xs     []string
	keys   map[string][3]string
	series map[Ser]bool
	hot    map[string]map[int64]bool // composite key -> times currently in the hot cache
	hit    bool                      // a delete ran while an in-flight snapshot held matching points
	retained map[string]map[int64]bool // snapshot the cache retained after a failed flush (nil: none)
	nobs   int
	nvals  int
	obsLog []string
	ghost  map[string]bool // series listed at some observation although every key of it read back empty
}

func (r *run10) keysOfSeries(ss []Ser) []string {
	var ks []string
	for _, k := range sortedKeys(r.keys) {
		p := r.keys[k]
		for _, s := range ss {
			if s.M == p[0] && s.S == p[1] {
				ks = append(ks, coqStr(k))
				break
			}
		}
	}
	return ks
}

func timeCond(lo, hi int64) string {
	var cs []string
	if lo != math.MinInt64 {
		cs = append(cs, fmt.Sprintf("time >= %d", lo))
	}
	if hi != math.MaxInt64 {
		cs = append(cs, fmt.Sprintf("time <= %d", hi))
	}
	return strings.Join(cs, " AND ")
}

func (r *run10) measurements() []string {
	seen := map[string]bool{}
	var ms []string
	for s := range r.series {
		if !seen[s.M] {
			seen[s.M] = true
			ms = append(ms, s.M)
		}
	}
	sort.Strings(ms)
	return ms
}

// the engine deletes one measurement at a time: requested series of measurement m
func (r *run10) seriesOf(m string, only []Ser) []Ser {
	var ss []Ser
	for s := range r.series {
		if s.M != m {
			continue
		}
		if only != nil {
			ok := false
			for _, x := range only {
				if x == s {
					ok = true
				}
			}
			if !ok {
				continue
			}
		}
		ss = append(ss, s)
	}
	sort.Slice(ss, func(i, j int) bool { return ss[i].S < ss[j].S })
	return ss
}

// doDelete runs a range delete through Store.DeleteSeries and records the model steps
func (r *run10) doDelete(op Op, snapshotInFlight map[string]map[int64]bool) error {
	xs, all, err := r.deleteCalls(op)
	if err != nil {
		return err
	}
	r.xs = append(r.xs, xs...)
	r.deleteBook(op, all, snapshotInFlight)
	return nil
}

// deleteCalls issues the Store.DeleteSeries calls of one delete operation and returns the
// model steps they stand for.  It only reads the run's bookkeeping, so it may run on its own
// goroutine while the main goroutine sits inside WriteSnapshot.
func (r *run10) deleteCalls(op Op) (xs []string, all []Ser, err error) {
	lo, hi := op.Lo, op.Hi
	type call struct {
		sources []influxql.Source
		cond    string
		groups  [][]Ser // per engine delete (one per measurement, in name order)
	}
	var calls []call
	switch op.I {
	case 1: // whole measurement(s)
		seen := map[string]bool{}
		for _, s := range op.Series {
			if seen[s.M] {
				continue
			}
			seen[s.M] = true
			g := r.seriesOf(s.M, nil)
			calls = append(calls, call{sources: []influxql.Source{&influxql.Measurement{Name: s.M}}, cond: timeCond(lo, hi), groups: [][]Ser{g}})
			all = append(all, g...)
		}
	case 2: // whole database
		c := call{cond: timeCond(lo, hi)}
		for _, m := range r.measurements() {
			g := r.seriesOf(m, nil)
			c.groups = append(c.groups, g)
			all = append(all, g...)
		}
		calls = append(calls, c)
	default: // tag predicate, one call per measurement
		byM := map[string][]Ser{}
		var ms []string
		for _, s := range op.Series {
			if _, ok := byM[s.M]; !ok {
				ms = append(ms, s.M)
			}
			byM[s.M] = append(byM[s.M], s)
		}
		for _, m := range ms {
			var ors []string
			for _, s := range byM[m] {
				ors = append(ors, fmt.Sprintf("s = '%s'", s.S))
			}
			cond := "(" + strings.Join(ors, " OR ") + ")"
			if tc := timeCond(lo, hi); tc != "" {
				cond += " AND " + tc
			}
			g := r.seriesOf(m, byM[m])
			calls = append(calls, call{sources: []influxql.Source{&influxql.Measurement{Name: m}}, cond: cond, groups: [][]Ser{g}})
			all = append(all, g...)
		}
	}
	for _, c := range calls {
		var cond influxql.Expr
		if c.cond != "" {
			var err error
			cond, err = influxql.ParseExpr(c.cond)
			if err != nil {
				return nil, nil, err
			}
		}
		if err := guard(func() error { return r.w.st.DeleteSeries("db0", c.sources, cond) }); err != nil {
			return nil, nil, fmt.Errorf("delete: %v", err)
		}
		for _, g := range c.groups {
			if len(g) == 0 {
				continue
			}
			xs = append(xs, fmt.Sprintf("XDelete %s %s %s", coqSeries(g), hx.CoqZ(lo), hx.CoqZ(hi)))
		}
	}
	xs = append(xs, fmt.Sprintf("XHist (HAck (ODelete %s %s %s))", hx.CoqList(r.keysOfSeries(all)), hx.CoqZ(lo), hx.CoqZ(hi)))
	return xs, all, nil
}

// deleteBook: the hot cache loses the range; a delete that completed while a snapshot was in
// flight (snapshotInFlight != nil) and matched a point of it is the shape Engine.snapshotMu excludes
func (r *run10) deleteBook(op Op, all []Ser, snapshotInFlight map[string]map[int64]bool) {
	lo, hi := op.Lo, op.Hi
	if len(all) > 0 {
		r.retained = nil // deleteSeriesRange writes a retained snapshot out before it deletes
	}
	match := func(k string) bool {
		p := r.keys[k]
		for _, s := range all {
			if s.M == p[0] && s.S == p[1] {
				return true
			}
		}
		return false
	}
	for k, ts := range r.hot {
		if !match(k) {
			continue
		}
		for t := range ts {
			if t >= lo && t <= hi {
				delete(ts, t)
			}
		}
	}
	for k, ts := range snapshotInFlight {
		if !match(k) {
			continue
		}
		for t := range ts {
			if t >= lo && t <= hi {
				r.hit = true
			}
		}
	}
	count(r.o, fmt.Sprintf("del:form%d", op.I))
	switch {
	case lo == math.MinInt64 && hi == math.MaxInt64:
		count(r.o, "del:range-all")
	case lo == hi:
		count(r.o, "del:range-instant")
	case lo == math.MinInt64 || hi == math.MaxInt64:
		count(r.o, "del:range-open")
	default:
		count(r.o, "del:range-closed")
	}
}

func (r *run10) observe() {
	keys := sortedKeys(r.keys)
	var items []string
	ok := true
	withPoints := map[string]bool{}
	for _, k := range keys {
		p := r.keys[k]
		var vs []tvObs
		if err := guard(func() error {
			var err error
			vs, err = r.w.readKey(p[0], p[1], p[2])
			return err
		}); err != nil {
			ok = false
			r.obsLog = append(r.obsLog, "readerr:"+k+":"+err.Error())
		}
		r.nvals += len(vs)
		if len(vs) > 0 {
			withPoints[seriesKey(p[0], p[1])] = true
		}
		items = append(items, fmt.Sprintf("(%s, %s)", coqStr(k), coqTVs(vs)))
	}
	// listings
	var lst []string
	ctx := context.Background()
	names := map[string]bool{}
	if err := guard(func() error {
		ns, err := r.w.st.MeasurementNames(ctx, nil, "db0", "", nil)
		for _, n := range ns {
			names[string(n)] = true
		}
		return err
	}); err != nil {
		ok = false
		r.obsLog = append(r.obsLog, "nameserr:"+err.Error())
	}
	withSeries := map[string]bool{}
	for _, m := range r.measurements() {
		cond := influxql.MustParseExpr(fmt.Sprintf("_name = '%s' AND _tagKey = 's'", m))
		var tvs []tsdb.TagValues
		if err := guard(func() error {
			var err error
			tvs, err = r.w.st.TagValues(ctx, nil, []uint64{1}, cond)
			return err
		}); err != nil {
			ok = false
			r.obsLog = append(r.obsLog, "tagvalueserr:"+err.Error())
		}
		for _, tv := range tvs {
			for _, kv := range tv.Values {
				lst = append(lst, seriesKey(tv.Measurement, kv.Value))
				withSeries[tv.Measurement] = true
			}
		}
		// TagKeys must list "s" exactly when some series of m is listed
		var tks []tsdb.TagKeys
		guard(func() error {
			var err error
			tks, err = r.w.st.TagKeys(ctx, nil, []uint64{1}, influxql.MustParseExpr(fmt.Sprintf("_name = '%s'", m)))
			return err
		})
		hasKey := false
		for _, tk := range tks {
			for _, k := range tk.Keys {
				if tk.Measurement == m && k == "s" {
					hasKey = true
				}
			}
		}
		if hasKey != withSeries[m] {
			lst = append(lst, "!tagkeys-mismatch:"+m)
		}
	}
	for m := range names {
		if !withSeries[m] {
			lst = append(lst, "!measurement-without-series:"+m)
		}
	}
	for m := range withSeries {
		if !names[m] {
			lst = append(lst, "!series-without-measurement:"+m)
		}
	}
	if !ok {
		lst = append(lst, "!observation-error")
	}
	for _, sk := range lst {
		if !strings.HasPrefix(sk, "!") && !withPoints[sk] {
			r.ghost[sk] = true
		}
	}
	sort.Strings(lst)
	ls := make([]string, len(lst))
	for i, s := range lst {
		ls[i] = coqStr(s)
	}
	r.xs = append(r.xs, fmt.Sprintf("XObs %s %s", hx.CoqList(items), hx.CoqList(ls)))
	r.obsLog = append(r.obsLog, strings.Join(lst, ";"))
	r.nobs++
}

// pausing series iterator: hands out its elements and runs atEnd once before reporting the end
type pauseIter struct {
	elems []serElem
	i     int
	atEnd func()
}

func (s *pauseIter) Close() error { return nil }
func (s *pauseIter) Next() (tsdb.SeriesElem, error) {
	if s.i >= len(s.elems) {
		if s.atEnd != nil {
			f := s.atEnd
			s.atEnd = nil
			f()
		}
		return nil, nil
	}
	e := s.elems[s.i]
	s.i++
	return e, nil
}

func elemOf(s Ser) serElem {
	return serElem{name: []byte(s.M), tags: models.NewTags(map[string]string{"s": s.S})}
}

// overlap: two deletes overlap on the shard.  D1 (Series[0]) has picked up its series -- level
// compactions are off -- but has not written its tombstones when D2 (Series[1]) starts and
// completes; then the harness plays the compaction goroutine: Compactor.CompactFull of all
// files must be refused while D1 is in flight.  If it is not, the result is installed after D1
// finished, as Engine.compactGroup would do.
func (r *run10) overlap(op Op) error {
	if len(op.Series) < 2 {
		return fmt.Errorf("ovl needs two series")
	}
	d1, d2 := op.Series[0], op.Series[1]
	lo, hi := op.Lo, op.Hi
	// level compactions are "on" in the engine only after something enabled them: a delete of a
	// series that was never written does (it returns before touching any data)
	warm := &serIter{elems: []serElem{elemOf(Ser{M: "zz", S: "zz"})}}
	if err := guard(func() error { return r.w.sh.DeleteSeriesRange(warm, 0, 0) }); err != nil {
		return fmt.Errorf("warm-up delete: %v", err)
	}
	var group, out []string
	var cerr, d2err error
	refused := false
	it := &pauseIter{elems: []serElem{elemOf(d1)}}
	it.atEnd = func() {
		d2err = guard(func() error { return r.w.sh.DeleteSeriesRange(&serIter{elems: []serElem{elemOf(d2)}}, lo, hi) })
		for _, f := range r.w.eng.FileStore.Files() {
			group = append(group, f.Path())
		}
		sort.Strings(group)
		if len(group) == 0 {
			return
		}
		cerr = guard(func() error {
			var e error
			out, e = r.w.eng.Compactor.CompactFull(group)
			return e
		})
		refused = cerr != nil
	}
	if err := guard(func() error { return r.w.sh.DeleteSeriesRange(it, lo, hi) }); err != nil {
		return fmt.Errorf("delete: %v", err)
	}
	if d2err != nil {
		return fmt.Errorf("inner delete: %v", d2err)
	}
	if len(group) > 0 && !refused {
		// the compaction ran while a delete was in flight: install its result now
		count(r.o, "ovl:compaction-not-refused")
		if err := guard(func() error { return r.w.eng.FileStore.ReplaceWithCallback(group, out, nil) }); err != nil {
			return fmt.Errorf("replace: %v", err)
		}
	} else if len(group) > 0 {
		count(r.o, "ovl:compaction-refused")
	}
	for _, d := range []Ser{d2, d1} {
		g := r.seriesOf(d.M, []Ser{d})
		if len(g) > 0 {
			r.xs = append(r.xs, fmt.Sprintf("XDelete %s %s %s", coqSeries(g), hx.CoqZ(lo), hx.CoqZ(hi)))
		}
		r.xs = append(r.xs, fmt.Sprintf("XHist (HAck (ODelete %s %s %s))", hx.CoqList(r.keysOfSeries(g)), hx.CoqZ(lo), hx.CoqZ(hi)))
		for k, ts := range r.hot {
			if r.keys[k][0] == d.M && r.keys[k][1] == d.S {
				for t := range ts {
					if t >= lo && t <= hi {
						delete(ts, t)
					}
				}
			}
		}
	}
	count(r.o, "op:overlapping-deletes")
	return nil
}

func (r *run10) write(op Op) error {
	pts, err := mkPoints(op.Pts)
	if err != nil {
		return err
	}
	for _, p := range op.Pts {
		r.keys[p.key()] = [3]string{p.M, p.S, p.F}
		r.series[Ser{p.M, p.S}] = true
		if r.hot[p.key()] == nil {
			r.hot[p.key()] = map[int64]bool{}
		}
		r.hot[p.key()][p.T] = true
	}
	if err := guard(func() error { return r.w.st.WriteToShard(1, pts) }); err != nil {
		return fmt.Errorf("write: %v", err)
	}
	r.xs = append(r.xs, "XS (Write "+coqPts(op.Pts)+")", "XS WalSync", "XHist (HAck (OWrite "+coqPts(op.Pts)+"))")
	count(r.o, "op:write")
	return nil
}

func runHist10(o *hx.Out, d Desc10, origin string) {
	o.Begin("hist", d)
	root := newDir()
	defer os.RemoveAll(root)
	w, err := openWorld(root, true)
	if err != nil {
		panic(fmt.Sprintf("cannot create store: %v", err))
	}
	r := &run10{w: w, o: o, xs: []string{"XOpen"}, keys: map[string][3]string{}, series: map[Ser]bool{}, hot: map[string]map[int64]bool{}, ghost: map[string]bool{}}
	defer func() { r.w.close() }()
	var liveErr error
	for _, op := range d.Ops {
		var err error
		switch op.K {
		case "w":
			err = r.write(op)
		case "snapfail":
			// a cache snapshot whose TSM write fails: the cache retains it (Compactor snapshots
			// disabled for this one call); the next snapshot - or the next delete - writes it out
			r.xs = append(r.xs, "XS SnapBegin")
			r.w.eng.Compactor.DisableSnapshots()
			e2 := guard(func() error { return r.w.eng.WriteSnapshot() })
			r.w.eng.Compactor.EnableSnapshots()
			r.xs = append(r.xs, "XTry SnapFail")
			if e2 == nil {
				count(r.o, "op:snapfail-empty")
			} else {
				count(r.o, "op:snapfail")
				if r.retained == nil {
					r.retained = r.hot
					r.hot = map[string]map[int64]bool{}
				}
			}
		case "snap", "snapdel":
			r.xs = append(r.xs, "XS SnapBegin")
			inflight := r.hot
			if r.retained != nil {
				// the retained snapshot is the one written; the hot cache stays
				inflight = r.retained
				r.retained = nil
			} else {
				r.hot = map[string]map[int64]bool{}
			}
			fired := false
			type delRes struct {
				xs  []string
				all []Ser
				err error
			}
			var delDone chan delRes
			if op.K == "snapdel" {
				tsm1.SetVerifPoint(func(name string, args ...interface{}) {
					if name == "snapshot.written" && !fired {
						fired = true
						r.xs = append(r.xs, "XTry SnapWriteTmp") // a cache with no keys but a residual byte count is snapshotted by the code and is an empty snapshot in the model
						// the delete is issued by another client while the snapshot is in flight
						// (its file written, not yet installed).  Engine.snapshotMu must hold it
						// back until the snapshot is committed.
						delDone = make(chan delRes, 1)
						go func() {
							xs, all, e := r.deleteCalls(op)
							delDone <- delRes{xs, all, e}
						}()
						select {
						case d := <-delDone:
							// it ran inside the in-flight snapshot
							delDone = nil
							count(r.o, "snapdel:ran-in-flight")
							if d.err != nil {
								err = d.err
							} else {
								r.xs = append(r.xs, d.xs...)
								r.deleteBook(op, d.all, inflight)
							}
						case <-time.After(150 * time.Millisecond):
							count(r.o, "snapdel:held-back")
						}
					}
				})
			}
			e2 := guard(func() error { return r.w.eng.WriteSnapshot() })
			tsm1.SetVerifPoint(nil)
			if e2 != nil {
				err = fmt.Errorf("snapshot: %v", e2)
			}
			r.xs = append(r.xs, "XSnapRest")
			if delDone != nil {
				select {
				case d := <-delDone:
					if d.err != nil {
						err = d.err
					} else {
						r.xs = append(r.xs, d.xs...)
						r.deleteBook(op, d.all, nil)
					}
				case <-time.After(60 * time.Second):
					panic("a delete held back by an in-flight snapshot never completed after the snapshot was committed")
				}
			}
			if op.K == "snapdel" && !fired && err == nil {
				err = r.doDelete(op, nil) // nothing was in the cache: the delete runs after the (empty) snapshot
			}
			if op.K == "snapdel" {
				count(r.o, "op:snapdel")
			} else {
				count(r.o, "op:snap")
			}
		case "compact":
			var paths []string
			for _, f := range r.w.eng.FileStore.Files() {
				paths = append(paths, f.Path())
			}
			sort.Strings(paths)
			n := op.N
			if op.I >= len(paths) {
				count(r.o, "op:compact-skipped")
				break
			}
			if op.I+n > len(paths) {
				n = len(paths) - op.I
			}
			if n < 1 {
				count(r.o, "op:compact-skipped")
				break
			}
			group := paths[op.I : op.I+n]
			mg, sq := 0, 0
			for _, p := range group {
				g, q, _ := tsm1.DefaultParseFileName(p)
				if g > mg {
					mg, sq = g, q
				} else if g == mg && q > sq {
					sq = q
				}
			}
			fit := true
			for _, p := range paths[op.I+n:] {
				g, q, _ := tsm1.DefaultParseFileName(p)
				if g < mg || (g == mg && q <= sq+1) {
					fit = false
				}
			}
			if !fit {
				count(r.o, "op:compact-skipped")
				break
			}
			var out []string
			if e := guard(func() error {
				var e error
				out, e = r.w.eng.Compactor.CompactFull(group)
				return e
			}); e != nil {
				err = fmt.Errorf("compact: %v", e)
				break
			}
			if e := guard(func() error { return r.w.eng.FileStore.ReplaceWithCallback(group, out, nil) }); e != nil {
				err = fmt.Errorf("replace: %v", e)
				break
			}
			r.xs = append(r.xs, fmt.Sprintf("XS (CompactWriteTmp %d %d)", op.I, n), "XS ReplaceRename", "XReplaceAll")
			count(r.o, fmt.Sprintf("op:compact-n%d", n))
		case "del":
			err = r.doDelete(op, nil)
			count(r.o, "op:delete")
		case "dropm":
			m := op.Series[0].M
			g := r.seriesOf(m, nil)
			if e := guard(func() error { return r.w.st.DeleteMeasurement("db0", m) }); e != nil {
				err = fmt.Errorf("drop measurement: %v", e)
				break
			}
			if len(g) > 0 {
				r.xs = append(r.xs, fmt.Sprintf("XDelete %s %s %s", coqSeries(g), hx.CoqZ(math.MinInt64), hx.CoqZ(math.MaxInt64)))
			}
			r.xs = append(r.xs, fmt.Sprintf("XHist (HAck (ODelete %s %s %s))", hx.CoqList(r.keysOfSeries(g)), hx.CoqZ(math.MinInt64), hx.CoqZ(math.MaxInt64)))
			for k := range r.hot {
				if r.keys[k][0] == m {
					delete(r.hot, k)
				}
			}
			count(r.o, "op:dropm")
		case "ovl":
			err = r.overlap(op)
		case "restart":
			// crash image of the quiescent store, reopened by a fresh Store
			img, e := takeImage(r.w, "", -1)
			if e != nil {
				panic(e)
			}
			r.w.close()
			nw, e := openWorld(img, false)
			if e != nil {
				err = fmt.Errorf("reopen: %v", e)
				os.RemoveAll(img)
				break
			}
			defer os.RemoveAll(img)
			r.w = nw
			r.xs = append(r.xs, "XS (Crash 0 0)", "XOpen")
			count(r.o, "op:restart")
		default:
			err = fmt.Errorf("unknown op %q", op.K)
		}
		if err != nil {
			liveErr = err
			break
		}
		r.observe()
	}
	if liveErr != nil {
		count(o, "live-run-error")
		r.xs = append(r.xs, "XS OpenLoad") // not applicable: the case cannot agree
		r.obsLog = append(r.obsLog, "error:"+liveErr.Error())
	}
	db, _ := json.Marshal(d)
	var ghosts []string
	for g := range r.ghost {
		ghosts = append(ghosts, g)
	}
	sort.Strings(ghosts)
	obs := map[string]interface{}{"listings": r.obsLog, "inflight_hit": r.hit, "nobs": r.nobs, "ghost_series": ghosts}
	xs := hx.CoqList(r.xs)
	// the same run is checked twice: once for what reads return, once for what is listed
	o.Emit(hx.Case{Kind: "hist", Coq: "CHist MReads " + xs, Desc: d, Obs: obs,
		Nontrivial: r.nvals > 0 && r.nobs > 1, Sig: "r:" + string(db), Origin: origin})
	o.Emit(hx.Case{Kind: "list", Coq: "CHist MList " + xs, Desc: d, Obs: obs,
		Nontrivial: r.nvals > 0 && r.nobs > 1, Sig: "l:" + string(db), Origin: origin})
}

// ---------- generation ----------

var measurements = []string{"m0", "m1"}
var tagvals = []string{"a", "a!", "b", "c"} // "a" / "a!": series keys whose byte order and composite-key order differ
var fields = []string{"i0", "i1", "f0", "s0"}

type gen struct {
	r    *hx.Rand
	seen []Pt
	nval int64
}

func (g *gen) value(f string) string {
	g.nval++
	switch f[0] {
	case 'i':
		return fmt.Sprint(g.nval)
	case 'f':
		return fmt.Sprint(math.Float64bits(float64(g.nval) + 0.5))
	default:
		return fmt.Sprintf("v%d", g.nval)
	}
}

func (g *gen) time() int64 {
	if g.r.Chance(8) {
		return []int64{influxql.MinTime + 2, influxql.MaxTime - 2, 0, -1}[g.r.Intn(4)]
	}
	return int64(g.r.Intn(20))
}

func (g *gen) point() Pt {
	if len(g.seen) > 0 && g.r.Chance(25) {
		p := g.seen[g.r.Intn(len(g.seen))]
		p.V = g.value(p.F)
		return p
	}
	m := measurements[0]
	if g.r.Chance(30) {
		m = measurements[1]
	}
	f := fields[0]
	if g.r.Chance(40) {
		f = fields[g.r.Intn(len(fields))]
	}
	p := Pt{M: m, S: tagvals[g.r.Intn(len(tagvals))], F: f, T: g.time()}
	p.V = g.value(f)
	return p
}

func (g *gen) write() Op {
	op := Op{K: "w"}
	for i, n := 0, 1+g.r.Intn(4); i < n; i++ {
		p := g.point()
		op.Pts = append(op.Pts, p)
		g.seen = append(g.seen, p)
	}
	return op
}

func (g *gen) del(kind string) Op {
	op := Op{K: kind}
	switch x := g.r.Intn(10); {
	case x < 6 || kind == "snapdel":
		op.I = 0
	case x < 9:
		op.I = 1
	default:
		op.I = 2
	}
	for i, n := 0, 1+g.r.Intn(2); i < n; i++ {
		s := Ser{M: measurements[g.r.Intn(2)], S: tagvals[g.r.Intn(len(tagvals))]}
		if len(g.seen) > 0 && g.r.Chance(85) {
			p := g.seen[g.r.Intn(len(g.seen))]
			s = Ser{M: p.M, S: p.S}
		}
		dup := false
		for _, x := range op.Series {
			if x == s {
				dup = true
			}
		}
		if !dup {
			op.Series = append(op.Series, s)
		}
	}
	switch g.r.Intn(6) {
	case 0:
		op.Lo, op.Hi = math.MinInt64, math.MaxInt64
	case 1:
		t := g.time()
		if len(g.seen) > 0 {
			t = g.seen[g.r.Intn(len(g.seen))].T
		}
		op.Lo, op.Hi = t, t
	case 2:
		op.Lo, op.Hi = math.MinInt64, int64(g.r.Intn(20))
	case 3:
		op.Lo, op.Hi = int64(g.r.Intn(20)), math.MaxInt64
	default:
		a, b := int64(g.r.Intn(20)), int64(g.r.Intn(20))
		if a > b {
			a, b = b, a
		}
		op.Lo, op.Hi = a, b
	}
	return op
}

func (g *gen) history(n int, known bool) []Op {
	ops := []Op{g.write()}
	placed := false
	for len(ops) < n {
		switch x := g.r.Intn(100); {
		case x < 42:
			ops = append(ops, g.write())
		case x < 62:
			ops = append(ops, g.del("del"))
		case x < 66:
			ops = append(ops, Op{K: "dropm", Series: []Ser{{M: measurements[g.r.Intn(2)]}}})
		case x < 80:
			if known && !placed && len(ops) >= 2 {
				ops = append(ops, g.del("snapdel"))
				placed = true
			} else if x >= 77 {
				ops = append(ops, Op{K: "snapfail"})
			} else {
				ops = append(ops, Op{K: "snap"})
			}
		case x < 88:
			ops = append(ops, Op{K: "compact", I: g.r.Intn(2) * g.r.Intn(2), N: 2 + g.r.Intn(2) - g.r.Intn(2)*g.r.Intn(2)})
		default:
			ops = append(ops, Op{K: "restart"})
		}
	}
	return ops
}

func ip(m, s, f string, t int64, v int64) Pt { return Pt{M: m, S: s, F: f, T: t, V: fmt.Sprint(v)} }

// tombstone-replay family: several series interleaved in ONE file, 2-4 range deletes with
// different ranges (nested, overlapping, sharing one bound, disjoint) on different series,
// reopen before any compaction, more writes, second reopen
func (g *gen) tombFamily() []Op {
	var pts []Pt
	for t := int64(1); t <= 8; t++ {
		for _, sv := range tagvals {
			p := Pt{M: "m0", S: sv, F: "i0", T: t}
			p.V = g.value("i0")
			pts = append(pts, p)
			g.seen = append(g.seen, p)
		}
	}
	ops := []Op{{K: "w", Pts: pts}, {K: "snap"}}
	n := 2 + g.r.Intn(3)
	var plo, phi int64 = 3, 5
	first := g.r.Intn(len(tagvals))
	for i := 0; i < n; i++ {
		lo, hi := int64(1+g.r.Intn(8)), int64(0)
		hi = lo + int64(g.r.Intn(int(9-lo)))
		switch g.r.Intn(8) {
		case 0:
			lo = math.MinInt64
		case 1:
			hi = math.MaxInt64
		}
		if i > 0 {
			switch g.r.Intn(5) {
			case 0: // shares the lower bound
				lo = plo
				if hi < lo {
					hi = lo
				}
			case 1: // shares the upper bound
				hi = phi
				if lo > hi {
					lo = hi
				}
			case 2: // both open below: time <= t1 then time <= t2
				lo = math.MinInt64
			}
		}
		sv := tagvals[(first+i)%len(tagvals)]
		ops = append(ops, Op{K: "del", Series: []Ser{{"m0", sv}}, Lo: lo, Hi: hi})
		plo, phi = lo, hi
		if g.r.Chance(15) {
			ops = append(ops, Op{K: "restart"})
		}
	}
	ops = append(ops, Op{K: "restart"}, g.write())
	if g.r.Chance(50) {
		ops = append(ops, g.del("del"))
	}
	if g.r.Chance(30) {
		ops = append(ops, Op{K: "snap"})
	}
	ops = append(ops, Op{K: "restart"})
	return ops
}

// overlapping deletes with a compaction attempt in the window
func (g *gen) overlapFamily() []Op {
	ops := []Op{g.write(), g.write(), {K: "snap"}, g.write()}
	if g.r.Chance(50) {
		ops = append(ops, Op{K: "snap"}, g.write())
	}
	var cands []Ser
	seenS := map[Ser]bool{}
	for _, p := range g.seen {
		s := Ser{p.M, p.S}
		if !seenS[s] {
			seenS[s] = true
			cands = append(cands, s)
		}
	}
	d1 := cands[g.r.Intn(len(cands))]
	d2 := cands[g.r.Intn(len(cands))]
	if d2 == d1 {
		d2 = Ser{M: "m1", S: "c"}
	}
	op := Op{K: "ovl", Series: []Ser{d1, d2}, Lo: math.MinInt64, Hi: math.MaxInt64}
	if g.r.Chance(40) {
		op.Lo, op.Hi = 0, int64(5+g.r.Intn(15))
	}
	ops = append(ops, op, Op{K: "restart"}, g.write(), Op{K: "restart"})
	return ops
}

func designed(o *hx.Out) {
	w := func(pts ...Pt) Op { return Op{K: "w", Pts: pts} }
	a1, a2, a3 := ip("m0", "a", "i0", 1, 10), ip("m0", "a", "i0", 2, 20), ip("m0", "a", "i0", 3, 30)
	b1, c1 := ip("m0", "b", "i0", 1, 11), ip("m1", "a", "i0", 1, 12)
	delA := func(lo, hi int64) Op { return Op{K: "del", Series: []Ser{{"m0", "a"}}, Lo: lo, Hi: hi} }
	// deletes over cache, one file, several files; then every continuation
	runHist10(o, Desc10{Ops: []Op{w(a1, a2, a3, b1, c1), delA(2, 2), {K: "snap"}, {K: "restart"}, w(a2), delA(1, 2), {K: "snap"}, {K: "compact", I: 0, N: 2}, {K: "restart"}}}, "designed")
	runHist10(o, Desc10{Ops: []Op{w(a1, b1), {K: "snap"}, w(a2), {K: "snap"}, w(a3), delA(math.MinInt64, math.MaxInt64), {K: "restart"}, {K: "compact", I: 0, N: 2}, w(a1), {K: "snap"}, {K: "restart"}}}, "designed")
	// a delete that spans all points of a series; two instants; the measurement's last series; drop
	runHist10(o, Desc10{Ops: []Op{w(a1, a3, c1), {K: "snap"}, delA(1, 3), {K: "restart"}, w(a1, a3), {K: "snap"}, delA(1, 1), delA(3, 3), {K: "restart"}}}, "designed")
	runHist10(o, Desc10{Ops: []Op{w(a1, b1, c1), {K: "dropm", Series: []Ser{{M: "m1"}}}, {K: "snap"}, {K: "dropm", Series: []Ser{{M: "m0"}}}, {K: "restart"}, w(a1), {K: "restart"}}}, "designed")
	runHist10(o, Desc10{Ops: []Op{w(a1, b1, c1), {K: "snap"}, {K: "del", I: 2, Lo: math.MinInt64, Hi: 1}, {K: "restart"}, w(a2, c1), {K: "del", I: 1, Series: []Ser{{M: "m0"}}, Lo: 2, Hi: math.MaxInt64}, {K: "snap"}, {K: "restart"}}}, "designed")
	// tombstone replay at reopen: different ranges on different series of one file
	six := func(sv string, base int64) []Pt {
		var ps []Pt
		for t := int64(1); t <= 6; t++ {
			ps = append(ps, ip("m0", sv, "i0", t, base+t))
		}
		return ps
	}
	all := append(append(six("a", 100), six("b", 200)...), six("c", 300)...)
	delS := func(sv string, lo, hi int64) Op { return Op{K: "del", Series: []Ser{{"m0", sv}}, Lo: lo, Hi: hi} }
	runHist10(o, Desc10{Ops: []Op{w(all...), {K: "snap"}, delS("a", 2, 3), delS("b", 2, 5), {K: "restart"}, w(a1), {K: "restart"}}}, "designed")
	runHist10(o, Desc10{Ops: []Op{w(all...), {K: "snap"}, delS("a", math.MinInt64, 2), delS("b", math.MinInt64, 4), delS("c", 3, 4), {K: "restart"}, w(a1), {K: "restart"}}}, "designed")
	runHist10(o, Desc10{Ops: []Op{w(all...), {K: "snap"}, delS("a", 5, 6), delS("b", 1, 2), delS("c", 2, 6), delS("a", 1, 1), {K: "restart"}, {K: "snap"}, {K: "restart"}}}, "designed")
	// series keys where one is a prefix of the other and the next byte sorts below '#': in a file, in the cache, both
	x1, x5 := ip("m0", "a!", "i0", 1, 11), ip("m0", "a!", "i0", 5, 51)
	a5 := ip("m0", "a", "i0", 5, 50)
	both := []Ser{{"m0", "a"}, {"m0", "a!"}}
	runHist10(o, Desc10{Ops: []Op{w(a1, x1, a5, x5), {K: "snap"}, {K: "del", Series: both, Lo: 1, Hi: 1}, {K: "restart"}, {K: "del", Series: []Ser{{"m0", "a"}}, Lo: 5, Hi: 5}, {K: "restart"}}}, "designed")
	runHist10(o, Desc10{Ops: []Op{w(a1, x1, a5, x5), {K: "del", Series: both, Lo: 1, Hi: 1}, {K: "restart"}, {K: "del", Series: []Ser{{"m0", "a!"}}, Lo: math.MinInt64, Hi: math.MaxInt64}, {K: "restart"}}}, "designed")
	runHist10(o, Desc10{Ops: []Op{w(a1, x1), {K: "snap"}, w(a5, x5), {K: "del", I: 1, Series: []Ser{{M: "m0"}}, Lo: 1, Hi: 5}, {K: "restart"}}}, "designed")
	// overlapping deletes and a compaction in the window
	runHist10(o, Desc10{Ops: []Op{w(a1, a2, b1), {K: "snap"}, w(c1), {K: "ovl", Series: []Ser{{"m0", "a"}, {"m1", "a"}}, Lo: math.MinInt64, Hi: math.MaxInt64}, {K: "restart"}}}, "designed")
	runHist10(o, Desc10{Ops: []Op{w(a1, a2, b1), {K: "snap"}, w(a3), {K: "snap"}, {K: "ovl", Series: []Ser{{"m0", "a"}, {"m0", "b"}}, Lo: 1, Hi: 2}, {K: "restart"}, w(a1), {K: "restart"}}}, "designed")
	// the known shape: a delete while the snapshot holding the points is in flight
	runHist10(o, Desc10{Ops: []Op{w(a1, a2), {K: "snapdel", Series: []Ser{{"m0", "a"}}, Lo: 1, Hi: 1}, {K: "restart"}}}, "designed")
	runHist10(o, Desc10{Ops: []Op{w(a1, b1), {K: "snap"}, w(a2, a3), {K: "snapdel", Series: []Ser{{"m0", "a"}}, Lo: 1, Hi: 2}, w(a2), {K: "restart"}}}, "designed")
	// a snapshot the cache retained after a failed flush: the delete writes it out first
	runHist10(o, Desc10{Ops: []Op{w(a1, a2), {K: "snapfail"}, delA(1, 1), {K: "restart"}}}, "designed")
	runHist10(o, Desc10{Ops: []Op{w(a1, a2, b1), {K: "snapfail"}, w(a3), delA(2, 3), {K: "snap"}, {K: "restart"}, w(a2), {K: "restart"}}}, "designed")
	runHist10(o, Desc10{Ops: []Op{w(a1, a2), {K: "snapfail"}, w(a3), {K: "snapdel", Series: []Ser{{"m0", "a"}}, Lo: 1, Hi: 3}, {K: "restart"}}}, "designed")
	runHist10(o, Desc10{Ops: []Op{w(a1), {K: "snapfail"}, {K: "snapfail"}, {K: "del", I: 2, Lo: math.MinInt64, Hi: math.MaxInt64}, {K: "restart"}}}, "designed")
}

func main() {
	f := hx.ParseFlags()
	o := hx.NewOut(f.OutDir)
	defer o.Close()
	var err error
	workRoot, err = os.MkdirTemp("", "h_c10")
	if err != nil {
		panic(err)
	}
	defer os.RemoveAll(workRoot)
	if f.In != "" {
		seen := map[string]bool{}
		for _, in := range hx.ReadInputs(f.In) {
			if runGuardInput(o, in) {
				continue // kinds guard, guarddel, epoch, epochraw (guard.go)
			}
			if seen[string(in.Desc)] {
				continue // "hist" and "list" cases share one input
			}
			seen[string(in.Desc)] = true
			var d Desc10
			if err := json.Unmarshal(in.Desc, &d); err != nil {
				panic(err)
			}
			runHist10(o, d, "replay")
		}
		return
	}
	designed(o)
	designedGuards(o)
	r := hx.NewRand(f.Seed)
	for i := 0; i < f.N; i++ {
		g := &gen{r: r.Split()}
		switch {
		case i%5 == 1:
			runHist10(o, Desc10{Ops: g.tombFamily()}, "gen")
		case i%10 == 7:
			runHist10(o, Desc10{Ops: g.overlapFamily()}, "gen")
		default:
			runHist10(o, Desc10{Ops: g.history(5+g.r.Intn(9), i%4 == 1)}, "gen")
		}
	}
	generatedGuards(o, hx.NewRand(f.Seed^0x10c10), f.N, f.Tier)
}
