// h_c19: stress harness for C19 (concurrent operation never corrupts state or loses writes).
//
// The parent process generates run descriptions (seeded) and executes every batch of runs
// in a CHILD process of this same binary (built with -race): a race report, a deadlock
// (time-out) or a panic in the real code then becomes an observation of that run
// (obs.race / obs.timeout / obs.panic) instead of the death of the harness.  Each run
// drives REAL code of /repo concurrently, logs an abstract history next to the real calls
// and ends with a quiescent comparison; the history goes into the Coq case, where the
// model replays it (agree) and the executable spec is evaluated on what was observed.
package main

import (
	"bufio"
	"bytes"
	"encoding/json"
	"flag"
	"fmt"
	"os"
	"os/exec"
	"path/filepath"
	"runtime/debug"
	"strings"
	"sync"
	"time"

	_ "github.com/influxdata/influxdb/tsdb/engine"
	_ "github.com/influxdata/influxdb/tsdb/index"
	"verifharness/hx"
)

// runDesc is the complete, replayable description of one stress run.
type runDesc struct {
	Kind    string `json:"kind"`
	Seed    uint64 `json:"seed"`
	Workers int    `json:"workers,omitempty"`
	Ops     int    `json:"ops,omitempty"`
	Cap     int    `json:"cap,omitempty"`
	// pool
	IdleMs      int  `json:"idle_ms,omitempty"`
	DialFailPct int  `json:"dial_fail_pct,omitempty"`
	UnusablePct int  `json:"unusable_pct,omitempty"`
	PoolClose   int  `json:"pool_close,omitempty"` // 0 no, 1 at the end, 2 racing the workers' Close calls
	DoubleClose bool `json:"double_close,omitempty"`
	WaitMs      int  `json:"wait_ms,omitempty"` // PoolWaitTimeout
	// field
	Writers  []fieldWriter `json:"writers,omitempty"`
	Schedule []string      `json:"schedule,omitempty"` // "V<i>" / "R<i>"
	// shard
	Readers   int `json:"readers,omitempty"`
	Snapshots int `json:"snapshots,omitempty"`
	// cluster
	Queries []string `json:"queries,omitempty"`
}

type fieldWriter struct {
	Series int `json:"series"`
	Field  int `json:"field"`
	Type   int `json:"type"` // 1 float 2 integer 3 string 4 boolean (influxql.DataType)
}

// runResult is what the child reports for one run.
type runResult struct {
	Desc       runDesc                `json:"desc"`
	Coq        string                 `json:"coq"` // with %BAD% where the child-process verdict goes
	Obs        map[string]interface{} `json:"obs"`
	Nontrivial bool                   `json:"nontrivial"`
	Sig        string                 `json:"sig"`
	Counts     []string               `json:"counts"`
}

var (
	childFlag = flag.String("child", "", "internal: JSON file with the run descriptions this child process executes")
	childOut  = flag.String("childout", "", "internal: JSONL file the child appends its results to")
)

func main() {
	f := hx.ParseFlags()
	if *childFlag != "" {
		childMain(*childFlag, *childOut)
		return
	}
	o := hx.NewOut(f.OutDir)
	defer o.Close()
	var descs []runDesc
	origin := "gen"
	if f.In != "" {
		origin = "replay"
		for _, in := range hx.ReadInputs(f.In) {
			var d runDesc
			if err := json.Unmarshal(in.Desc, &d); err != nil {
				panic(err)
			}
			if d.Kind == "" {
				d.Kind = in.Kind
			}
			descs = append(descs, d)
		}
	} else {
		descs = generate(hx.NewRand(f.Seed), f.N, f.Tier)
	}
	runAll(o, descs, origin, f)
}

// ---------------------------------------------------------------- parent side

type batch struct {
	descs []runDesc
}

func batchSize(kind string) int {
	switch kind {
	case "pool":
		return 12
	case "fieldsched", "fieldfree":
		return 25
	case "shard":
		return 4
	case "cluster":
		return 4
	case "meta":
		return 6
	case "auth":
		return 2
	case "hh":
		return 4
	case "metawait":
		return 2
	case "cachekey":
		return 6
	case "bulk":
		return 3
	case "cacheinit":
		return 2
	case "idlefree":
		return 2
	}
	return 1
}

func runAll(o *hx.Out, descs []runDesc, origin string, f hx.Flags) {
	// group consecutive runs of one kind into batches (a replay file runs one by one)
	var batches []batch
	for i := 0; i < len(descs); {
		j := i + 1
		if origin != "replay" {
			for j < len(descs) && descs[j].Kind == descs[i].Kind && j-i < batchSize(descs[i].Kind) {
				j++
			}
		}
		batches = append(batches, batch{descs: descs[i:j]})
		i = j
	}
	par := 6
	type done struct {
		idx int
		res []emitted
	}
	results := make([][]emitted, len(batches))
	sem := make(chan struct{}, par)
	var wg sync.WaitGroup
	for i := range batches {
		wg.Add(1)
		sem <- struct{}{}
		go func(i int) {
			defer wg.Done()
			defer func() { <-sem }()
			results[i] = runBatch(f.OutDir, i, batches[i], f.Tier)
		}(i)
	}
	wg.Wait()
	for _, rs := range results {
		for _, e := range rs {
			for _, c := range e.counts {
				o.Count(c)
			}
			e.c.Origin = origin
			o.Emit(e.c)
		}
	}
}

type emitted struct {
	c      hx.Case
	counts []string
}

func timeoutFor(kind, tier string, n int) time.Duration {
	per := 20 * time.Second
	switch kind {
	case "pool", "fieldsched", "fieldfree":
		per = 8 * time.Second
	case "auth", "meta":
		per = 40 * time.Second
	case "cacheinit", "idlefree":
		per = 60 * time.Second // seconds of work; the margin is for a loaded machine (shard creation and fsync per round)
	}
	if tier == "thorough" {
		per *= 4
	}
	return 30*time.Second + time.Duration(n)*per
}

// runBatch executes one child process and turns its results (and its death, if any) into cases.
func runBatch(outDir string, idx int, b batch, tier string) []emitted {
	in := filepath.Join(outDir, fmt.Sprintf("batch_%d.json", idx))
	out := filepath.Join(outDir, fmt.Sprintf("batch_%d.out", idx))
	cdir := filepath.Join(outDir, fmt.Sprintf("child_%d", idx))
	data, _ := json.Marshal(b.descs)
	os.WriteFile(in, data, 0644)
	defer os.Remove(in)
	defer os.Remove(out)
	defer os.RemoveAll(cdir)
	exe, err := os.Executable()
	if err != nil {
		panic(err)
	}
	cmd := exec.Command(exe, "-out", cdir, "-child", in, "-childout", out, "-tier", tier)
	cmd.Env = append(os.Environ(), "GORACE=halt_on_error=1 exitcode=66 history_size=2", "GOMAXPROCS=8")
	var stderr bytes.Buffer
	cmd.Stderr = &stderr
	cmd.Stdout = &stderr
	if err := cmd.Start(); err != nil {
		panic(err)
	}
	waitErr := make(chan error, 1)
	go func() { waitErr <- cmd.Wait() }()
	timedOut := false
	select {
	case err = <-waitErr:
	case <-time.After(timeoutFor(b.descs[0].Kind, tier, len(b.descs))):
		timedOut = true
		cmd.Process.Signal(sigquit()) // the Go runtime dumps all goroutine stacks
		select {
		case err = <-waitErr:
		case <-time.After(10 * time.Second):
			cmd.Process.Kill()
			err = <-waitErr
		}
	}
	log := stderr.String()
	race := strings.Contains(log, "WARNING: DATA RACE")
	panicked := !race && !timedOut && err != nil
	// results the child managed to write
	var res []runResult
	if fh, e := os.Open(out); e == nil {
		sc := bufio.NewScanner(fh)
		sc.Buffer(make([]byte, 1<<20), 1<<28)
		for sc.Scan() {
			var r runResult
			if json.Unmarshal(sc.Bytes(), &r) == nil && r.Coq != "" {
				res = append(res, r)
			}
		}
		fh.Close()
	}
	var outv []emitted
	for _, r := range res {
		r.Obs["race"] = false
		r.Obs["timeout"] = r.Obs["hung"] == true // a call of the real code that did not return before its deadline
		r.Obs["panic"] = false
		outv = append(outv, emitted{c: hx.Case{Kind: r.Desc.Kind, Coq: strings.ReplaceAll(r.Coq, "%BAD%", "false"), Desc: r.Desc,
			Obs: r.Obs, Nontrivial: r.Nontrivial, Sig: r.Sig}, counts: r.Counts})
	}
	if (race || timedOut || panicked) && len(res) < len(b.descs) {
		// the run in progress when the child died
		d := b.descs[len(res)]
		obs := map[string]interface{}{"race": race, "timeout": timedOut, "panic": panicked, "log_tail": tail(log, 60000)}
		outv = append(outv, emitted{c: hx.Case{Kind: d.Kind, Coq: deadCase(d), Desc: d, Obs: obs, Nontrivial: true,
			Sig: fmt.Sprintf("dead:%s:%d", d.Kind, d.Seed)}, counts: []string{"child_died:" + d.Kind}})
	} else if err != nil && len(res) == len(b.descs) {
		// died after the last run (e.g. a race reported during shutdown): attribute to the last run
		if len(outv) > 0 {
			last := &outv[len(outv)-1]
			obs := last.c.Obs.(map[string]interface{})
			obs["race"], obs["timeout"], obs["panic"] = race, timedOut, panicked
			obs["log_tail"] = tail(log, 60000)
			last.c.Coq = strings.ReplaceAll(res[len(res)-1].Coq, "%BAD%", "true")
		}
	}
	return outv
}

func tail(s string, n int) string {
	if len(s) > n {
		return s[len(s)-n:]
	}
	return s
}

// deadCase is the case of a run whose child process died: no history, bad = true.
func deadCase(d runDesc) string {
	switch d.Kind {
	case "pool":
		return fmt.Sprintf("CPool %d [] (mkPO 0 0 0 false false true false false)", max(d.Cap, 1))
	case "cluster":
		return "CCluster 1 0 0 0 true"
	case "fieldsched":
		return "CFieldSched [] [] [] [] true"
	case "fieldfree":
		return "CFieldFree [] [] [] true"
	case "shard":
		return "CShard [] [] [] true"
	case "meta":
		return "CMeta [] true"
	case "auth":
		return "CAuth [] true"
	case "hh":
		return "CHh [] true"
	case "metawait":
		return "CWait [] true"
	case "cachekey", "bulk":
		return "CShard [] [] [] true"
	case "cacheinit":
		return "CCacheInit [] true"
	case "idlefree":
		return "CIdleFree [] true"
	}
	return "CMeta [] true"
}

// ---------------------------------------------------------------- child side

func childMain(in, out string) {
	data, err := os.ReadFile(in)
	if err != nil {
		panic(err)
	}
	var descs []runDesc
	if err := json.Unmarshal(data, &descs); err != nil {
		panic(err)
	}
	fh, err := os.OpenFile(out, os.O_CREATE|os.O_WRONLY|os.O_APPEND, 0644)
	if err != nil {
		panic(err)
	}
	defer fh.Close()
	dir, err := os.MkdirTemp("", "h_c19")
	if err != nil {
		panic(err)
	}
	defer os.RemoveAll(dir)
	debug.SetTraceback("all")
	env := newChildEnv(dir)
	defer env.Close()
	for i, d := range descs {
		var r runResult
		switch d.Kind {
		case "pool":
			r = runPool(d)
		case "cluster":
			r = runCluster(env, d)
		case "fieldsched":
			r = runFieldSched(env, d, i)
		case "fieldfree":
			r = runFieldFree(env, d, i)
		case "shard":
			r = runShard(env, d, i)
		case "meta":
			r = runMeta(env, d)
		case "auth":
			r = runAuth(env, d)
		case "hh":
			r = runHH(env, d, i)
		case "metawait":
			r = runMetaWait(env, d, i)
		case "cachekey":
			r = runCacheKey(env, d, i)
		case "bulk":
			r = runBulk(env, d, i)
		case "cacheinit":
			r = runCacheInit(d)
		case "idlefree":
			r = runIdleFree(env, d, i)
		default:
			panic("unknown kind " + d.Kind)
		}
		r.Desc = d
		b, err := json.Marshal(r)
		if err != nil {
			panic(err)
		}
		fh.Write(append(b, '\n'))
		fh.Sync()
	}
}

func max(a, b int) int {
	if a > b {
		return a
	}
	return b
}
