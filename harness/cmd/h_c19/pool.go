package main

// (ii) direct stress of coordinator.NewBoundedPool: many goroutines doing
// Get / MarkUnusable / Close against a factory that counts live underlying connections.

import (
	"errors"
	"fmt"
	"net"
	"runtime"
	"strings"
	"sync"
	"sync/atomic"
	"syscall"
	"time"

	"github.com/influxdata/influxdb/coordinator"
	"verifharness/hx"
)

func sigquit() syscall.Signal { return syscall.SIGQUIT }

type plog struct {
	mu  sync.Mutex
	evs []string
	n   map[string]int
}

func (l *plog) add(kind, ev string) {
	l.evs = append(l.evs, ev)
	l.n[kind]++
}

// fconn is the underlying connection the factory hands to the pool.
type fconn struct {
	id     uint64
	f      *pfactory
	closed int32
	owner  int32 // 1 while a user holds it
	uses   int32
}

type faddr struct{ c *fconn }

func (faddr) Network() string  { return "fake" }
func (a faddr) String() string { return fmt.Sprintf("fake:%d", a.c.id) }

func (c *fconn) Read(b []byte) (int, error)         { return 0, errors.New("fake") }
func (c *fconn) Write(b []byte) (int, error)        { return len(b), nil }
func (c *fconn) LocalAddr() net.Addr                { return faddr{c} }
func (c *fconn) RemoteAddr() net.Addr               { return faddr{c} }
func (c *fconn) SetDeadline(t time.Time) error      { return nil }
func (c *fconn) SetReadDeadline(t time.Time) error  { return nil }
func (c *fconn) SetWriteDeadline(t time.Time) error { return nil }
func (c *fconn) Close() error {
	c.f.log.mu.Lock()
	if atomic.AddInt32(&c.closed, 1) == 1 {
		c.f.live--
		c.f.log.add("connclosed", fmt.Sprintf("EvConnClosed %d", c.id))
	} else {
		c.f.extraCloses++
	}
	c.f.log.mu.Unlock()
	return nil
}

type pfactory struct {
	log         *plog
	next        uint64
	live        int
	extraCloses int
	failPct     int
	r           *hx.Rand
}

var errDial = errors.New("dial failed (injected)")

func (f *pfactory) dial() (net.Conn, error) {
	f.log.mu.Lock()
	defer f.log.mu.Unlock()
	if f.r.Chance(f.failPct) {
		return nil, errDial
	}
	c := &fconn{id: f.next, f: f}
	f.next++
	f.live++
	return c, nil
}

func runPool(d runDesc) runResult {
	if d.Cap <= 0 {
		d.Cap = 4
	}
	if d.WaitMs > 0 {
		coordinator.PoolWaitTimeout = time.Duration(d.WaitMs) * time.Millisecond
	} else {
		coordinator.PoolWaitTimeout = 5 * time.Second
	}
	r := hx.NewRand(d.Seed)
	lg := &plog{n: map[string]int{}}
	f := &pfactory{log: lg, failPct: d.DialFailPct, r: r.Split()}
	pool, err := coordinator.NewBoundedPool(0, d.Cap, time.Duration(d.IdleMs)*time.Millisecond, f.dial)
	if err != nil {
		panic(err)
	}
	var handout2, sampleBad int32
	var nextH uint64
	stopSample := make(chan struct{})
	var sampWG sync.WaitGroup
	sampWG.Add(1)
	go func() {
		defer sampWG.Done()
		for {
			select {
			case <-stopSample:
				return
			default:
			}
			if pool.Size() > d.Cap || pool.Len() > d.Cap {
				atomic.StoreInt32(&sampleBad, 1)
			}
			time.Sleep(100 * time.Microsecond)
		}
	}()

	get := func() (uint64, net.Conn, *fconn) {
		h := atomic.AddUint64(&nextH, 1)
		c, err := pool.Get()
		lg.mu.Lock()
		defer lg.mu.Unlock()
		if err != nil {
			lg.add("get_err", fmt.Sprintf("EvGetErr %d %s", h, hx.CoqBool(err == errDial)))
			return h, nil, nil
		}
		fc := c.LocalAddr().(faddr).c
		if !atomic.CompareAndSwapInt32(&fc.owner, 0, 1) {
			atomic.StoreInt32(&handout2, 1)
		}
		if atomic.AddInt32(&fc.uses, 1) == 1 {
			lg.add("get_new", fmt.Sprintf("EvGetNew %d %d", h, fc.id))
		} else {
			lg.add("get_idle", fmt.Sprintf("EvGetIdle %d %d", h, fc.id))
		}
		return h, c, fc
	}
	mark := func(h uint64, c net.Conn) {
		lg.mu.Lock()
		lg.add("mark", fmt.Sprintf("EvMark %d", h))
		lg.mu.Unlock()
		coordinator.MarkUnusable(c)
	}
	closeH := func(h uint64, c net.Conn, fc *fconn) {
		lg.mu.Lock()
		lg.add("close", fmt.Sprintf("EvClose %d", h))
		lg.mu.Unlock()
		atomic.StoreInt32(&fc.owner, 0)
		c.Close()
	}

	allClosed := true
	poolClosed := false
	if d.PoolClose == 3 {
		// Pool.Close racing Gets (also Gets blocked waiting for a connection): the history
		// cannot be replayed step by step, only the end state is compared - every
		// connection closed, nobody crashed or hung
		var wg sync.WaitGroup
		for w := 0; w < d.Workers; w++ {
			wg.Add(1)
			wr := r.Split()
			go func() {
				defer wg.Done()
				for i := 0; i < d.Ops; i++ {
					c, err := pool.Get()
					if err != nil {
						continue
					}
					fc := c.LocalAddr().(faddr).c
					if !atomic.CompareAndSwapInt32(&fc.owner, 0, 1) {
						atomic.StoreInt32(&handout2, 1)
					}
					if wr.Chance(50) {
						time.Sleep(time.Duration(wr.Intn(200)) * time.Microsecond)
					}
					if wr.Chance(d.UnusablePct) {
						coordinator.MarkUnusable(c)
					}
					atomic.StoreInt32(&fc.owner, 0)
					c.Close()
				}
			}()
		}
		time.Sleep(time.Duration(200+r.Intn(3000)) * time.Microsecond)
		pool.Close()
		poolClosed = true
		wg.Wait()
		lg.mu.Lock()
		lg.evs = []string{"EvPoolClose"}
		lg.n = map[string]int{"poolclose": 1}
		lg.mu.Unlock()
	} else if d.DoubleClose {
		// designed witness of Props.pool_double_close_refuted on the real code
		h1, c1, f1 := get()
		_, c2, _ := get()
		_ = c2
		mark(h1, c1)
		closeH(h1, c1, f1)
		closeH(h1, c1, f1)
		allClosed = false
	} else {
		barrier := make(chan struct{})
		closedDone := make(chan struct{})
		var wg, atBarrier sync.WaitGroup
		for w := 0; w < d.Workers; w++ {
			wg.Add(1)
			atBarrier.Add(1)
			wr := r.Split()
			go func() {
				defer wg.Done()
				type held struct {
					h  uint64
					c  net.Conn
					fc *fconn
				}
				var hold []held
				for i := 0; i < d.Ops; i++ {
					h, c, fc := get()
					if c != nil {
						hold = append(hold, held{h, c, fc})
					}
					if wr.Chance(30) {
						runtime.Gosched()
					}
					// release some of what is held (a worker holds at most two connections)
					for len(hold) > 0 && (len(hold) >= 2 || wr.Chance(70)) {
						k := wr.Intn(len(hold))
						x := hold[k]
						hold = append(hold[:k], hold[k+1:]...)
						if wr.Chance(d.UnusablePct) {
							mark(x.h, x.c)
						}
						if wr.Chance(10) {
							time.Sleep(time.Duration(wr.Intn(300)) * time.Microsecond)
						}
						closeH(x.h, x.c, x.fc)
					}
				}
				if d.PoolClose == 2 {
					// keep one connection to be closed while Pool.Close runs
					if len(hold) == 0 {
						h, c, fc := get()
						if c != nil {
							hold = append(hold, held{h, c, fc})
						}
					}
				}
				atBarrier.Done()
				if d.PoolClose == 2 {
					<-barrier
				}
				for _, x := range hold {
					closeH(x.h, x.c, x.fc)
				}
				if d.PoolClose == 2 {
					<-closedDone
					h, c, fc := get() // the pool is closed: ErrClosed
					if c != nil {
						closeH(h, c, fc)
					}
				}
			}()
		}
		if d.PoolClose == 2 {
			atBarrier.Wait()
			close(barrier)
			lg.mu.Lock()
			lg.add("poolclose", "EvPoolClose")
			lg.mu.Unlock()
			pool.Close()
			poolClosed = true
			close(closedDone)
		}
		wg.Wait()
		if d.PoolClose == 1 {
			lg.mu.Lock()
			lg.add("poolclose", "EvPoolClose")
			lg.mu.Unlock()
			pool.Close()
			poolClosed = true
		}
	}
	close(stopSample)
	sampWG.Wait()
	// quiescent observation (the pruner may be in the middle of a round: retry until stable)
	var size, ln, live, nEvs int
	for try := 0; try < 200; try++ {
		lg.mu.Lock()
		n1 := len(lg.evs)
		live = f.live
		lg.mu.Unlock()
		size, ln = pool.Size(), pool.Len()
		lg.mu.Lock()
		n2 := len(lg.evs)
		lg.mu.Unlock()
		nEvs = n1
		if n1 != n2 {
			continue // the pruner acted between the two looks
		}
		if poolClosed {
			// the pruner may still be closing what it had taken out when the pool was closed
			if !allClosed || live == 0 {
				break
			}
		} else if size == live && (!allClosed || ln == size) {
			break
		}
		time.Sleep(time.Millisecond)
	}
	lg.mu.Lock()
	evs := append([]string(nil), lg.evs[:nEvs]...)
	counts := []string{}
	for k, v := range lg.n {
		counts = append(counts, fmt.Sprintf("pool_ev:%s:%s", k, bucket(v)))
	}
	extra := f.extraCloses
	lg.mu.Unlock()
	if !poolClosed && !d.DoubleClose {
		pool.Close()
	}
	coq := fmt.Sprintf("CPool %d [%s] (mkPO %d %d %d %s %s %%BAD%% %s %s)", d.Cap, strings.Join(evs, "; "),
		size, ln, live, hx.CoqBool(allClosed), hx.CoqBool(poolClosed), hx.CoqBool(handout2 != 0), hx.CoqBool(sampleBad != 0))
	counts = append(counts, fmt.Sprintf("pool:cap=%d", d.Cap), fmt.Sprintf("pool:workers=%d", d.Workers), fmt.Sprintf("pool:close_mode=%d", d.PoolClose))
	return runResult{Coq: coq, Nontrivial: len(evs) > 4 || (d.PoolClose == 3 && f.next > 1), Sig: fmt.Sprintf("pool:%d:%d:%d", d.Seed, len(evs), f.next),
		Obs: map[string]interface{}{"size": size, "len": ln, "live": live, "events": len(evs), "conns_made": f.next,
			"handout2": handout2 != 0, "sample_bad": sampleBad != 0, "underlying_double_closes": extra, "pool_closed": poolClosed},
		Counts: counts}
}

func bucket(v int) string {
	switch {
	case v == 0:
		return "0"
	case v < 10:
		return "1-9"
	case v < 100:
		return "10-99"
	case v < 1000:
		return "100-999"
	}
	return "1000+"
}
