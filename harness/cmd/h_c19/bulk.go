package main

import (
	"context"
	"fmt"
	"os"
	"os/exec"
	"sort"
	"strings"
	"sync"
	"sync/atomic"
	"time"

	"github.com/influxdata/influxdb/models"
	"github.com/influxdata/influxdb/query"
	"github.com/influxdata/influxdb/tsdb"
	"github.com/influxdata/influxdb/tsdb/engine/tsm1"
	"github.com/influxdata/influxql"
	"verifharness/hx"
)

// runBulk: writers pour large batches with UNSORTED timestamps into a few series while cache
// snapshots run back to back.  A big unsorted cache makes every phase of WriteSnapshot that
// runs outside the engine lock (de-duplication, writing the TSM file) long enough for many
// writes to be acknowledged inside it; whatever the snapshot's WAL-segment list covers must
// then be exactly what the snapshot holds.  After the last write no snapshot is taken: every
// acknowledged batch has to be readable live AND from a copy of what is on disk (= after a
// crash now).  One batch = one write id of the CShard case.
func runBulk(env *childEnv, d runDesc, run int) runResult {
	st := env.getStore()
	shID := env.newShard()
	sh := st.Shard(shID)
	meas := "cpu"
	eng, err := sh.Engine()
	if err != nil {
		panic(err)
	}
	te := eng.(*tsm1.Engine)
	lg := &slog{}
	r := hx.NewRand(d.Seed)
	var wg sync.WaitGroup
	stop := make(chan struct{})
	var writersDone int32
	var nSnaps int64
	type batchRec struct {
		id     uint64
		series int
		ts     []int64
	}
	var recMu sync.Mutex
	var recs []batchRec
	per := d.Ops // batches per writer
	size := 120
	for w := 0; w < d.Workers; w++ {
		wg.Add(1)
		wr := r.Split()
		go func(w int) {
			defer wg.Done()
			for i := 0; i < per; i++ {
				id := pointID(w, i+1)
				n := size + wr.Intn(size)
				// timestamps of this batch: a block below every earlier block of the writer, shuffled
				base := int64(per-i) * 1000
				ts := make([]int64, n)
				for k := range ts {
					ts[k] = base + int64(k)
				}
				for k := n - 1; k > 0; k-- {
					j := wr.Intn(k + 1)
					ts[k], ts[j] = ts[j], ts[k]
				}
				pts := make([]models.Point, 0, n)
				for _, t := range ts {
					p, err := models.NewPoint(meas, models.NewTags(map[string]string{"host": fmt.Sprintf("h%d", w)}),
						map[string]interface{}{"v": float64(t)}, time.Unix(0, t))
					if err != nil {
						panic(err)
					}
					pts = append(pts, p)
				}
				lg.mu.Lock()
				lg.evs = append(lg.evs, fmt.Sprintf("SvWBegin %d", id))
				lg.mu.Unlock()
				if err := st.WriteToShard(shID, pts); err == nil {
					lg.mu.Lock()
					lg.evs = append(lg.evs, fmt.Sprintf("SvWAck %d", id))
					lg.acked = append(lg.acked, id)
					lg.mu.Unlock()
					recMu.Lock()
					recs = append(recs, batchRec{id, w, ts})
					recMu.Unlock()
				}
			}
		}(w)
	}
	var swg sync.WaitGroup
	swg.Add(1)
	go func() {
		defer swg.Done()
		sr := r.Split()
		for {
			select {
			case <-stop:
				return
			default:
			}
			time.Sleep(time.Duration(200+sr.Intn(1500)) * time.Microsecond)
			if atomic.LoadInt32(&writersDone) != 0 {
				return
			}
			lg.mu.Lock()
			lg.evs = append(lg.evs, "SvSnapBegin")
			lg.mu.Unlock()
			err := te.WriteSnapshot()
			lg.mu.Lock()
			lg.evs = append(lg.evs, fmt.Sprintf("SvSnapEnd %s", hx.CoqBool(err == nil)))
			lg.mu.Unlock()
			atomic.AddInt64(&nSnaps, 1)
		}
	}()
	wg.Wait()
	atomic.StoreInt32(&writersDone, 1)
	close(stop)
	swg.Wait()

	bad := "%BAD%"
	obs := map[string]interface{}{}
	// live and recovered reads are per timestamp: read the raw series
	live := map[int]map[int64]bool{}
	for s := 0; s < d.Workers; s++ {
		tsv, err := readTimes(sh, meas, s)
		if err != nil {
			bad = "true"
			obs["read_error"] = err.Error()
		}
		live[s] = tsv
	}
	rec, rerr := recoverTimes(env, te, shID, meas, d.Workers)
	if rerr != nil {
		bad = "true"
		obs["read_error"] = "recovery copy: " + rerr.Error()
	}
	var final []uint64
	lostLive, lostDisk := 0, 0
	recMu.Lock()
	sort.Slice(recs, func(i, j int) bool { return recs[i].id < recs[j].id })
	for _, b := range recs {
		okLive, okDisk := true, true
		for _, t := range b.ts {
			if !live[b.series][t] {
				okLive = false
			}
			if rec != nil && !rec[b.series][t] {
				okDisk = false
			}
		}
		if okLive && okDisk {
			final = append(final, b.id)
		}
		if !okLive {
			lostLive++
		}
		if !okDisk {
			lostDisk++
		}
	}
	recMu.Unlock()
	lg.mu.Lock()
	evs := append([]string(nil), lg.evs...)
	acked := append([]uint64(nil), lg.acked...)
	lg.mu.Unlock()
	obs["batches_acked"] = len(acked)
	obs["snapshots"] = nSnaps
	obs["batches_incomplete_live"] = lostLive
	obs["batches_incomplete_in_disk_copy"] = lostDisk
	coq := fmt.Sprintf("CShard [%s] %s %s %s", strings.Join(evs, "; "), hx.CoqNList(acked), hx.CoqNList(final), bad)
	return runResult{Coq: coq, Nontrivial: len(acked) > 0 && nSnaps > 0, Sig: fmt.Sprintf("bulk:%d:%d:%d", d.Seed, len(evs), nSnaps),
		Obs: obs, Counts: []string{"bulk:batches=" + bucket(len(acked)), "bulk:snapshots=" + bucket(int(nSnaps))}}
}

// readTimes returns the timestamps of series h<series> whose value equals the timestamp
func readTimes(sh *tsdb.Shard, meas string, series int) (map[int64]bool, error) {
	cond, err := influxql.ParseExpr(fmt.Sprintf("host = 'h%d'", series))
	if err != nil {
		return nil, err
	}
	opt := query.IteratorOptions{
		Expr:       &influxql.VarRef{Val: "v", Type: influxql.Float},
		Dimensions: []string{"host"},
		Condition:  cond,
		StartTime:  influxql.MinTime,
		EndTime:    influxql.MaxTime,
		Ascending:  true,
		Ordered:    true,
	}
	itr, err := sh.CreateIterator(context.Background(), &influxql.Measurement{Name: meas}, opt)
	if err != nil {
		return nil, err
	}
	out := map[int64]bool{}
	if itr == nil {
		return out, nil
	}
	defer itr.Close()
	fitr, ok := itr.(query.FloatIterator)
	if !ok {
		return nil, fmt.Errorf("iterator type %T", itr)
	}
	for {
		p, err := fitr.Next()
		if err != nil {
			return out, err
		}
		if p == nil {
			return out, nil
		}
		if int64(p.Value) != p.Time {
			return out, fmt.Errorf("series h%d: value %v at time %d", series, p.Value, p.Time)
		}
		out[p.Time] = true
	}
}

// recoverTimes: like recoverCopy, per timestamp
func recoverTimes(env *childEnv, te *tsm1.Engine, shID uint64, meas string, nSeries int) (map[int]map[int64]bool, error) {
	te.SetCompactionsEnabled(false)
	root := fmt.Sprintf("%s/copy_%d", env.dir, shID)
	defer os.RemoveAll(root)
	src := env.dir + "/tsdb"
	for _, sub := range []string{"data", "wal"} {
		dst := fmt.Sprintf("%s/%s/db/rp", root, sub)
		if err := os.MkdirAll(dst, 0755); err != nil {
			return nil, err
		}
		if out, err := exec.Command("cp", "-r", fmt.Sprintf("%s/%s/db/rp/%d", src, sub, shID), dst+"/").CombinedOutput(); err != nil {
			return nil, fmt.Errorf("cp: %v %s", err, out)
		}
	}
	if out, err := exec.Command("cp", "-r", src+"/data/db/_series", root+"/data/db/").CombinedOutput(); err != nil {
		return nil, fmt.Errorf("cp: %v %s", err, out)
	}
	st := tsdb.NewStore(root + "/data")
	st.EngineOptions.Config.WALDir = root + "/wal"
	st.EngineOptions.Config.Dir = root + "/data"
	if err := st.Open(); err != nil {
		return nil, err
	}
	defer st.Close()
	sh := st.Shard(shID)
	if sh == nil {
		return nil, fmt.Errorf("shard %d not found in the copy", shID)
	}
	got := map[int]map[int64]bool{}
	for s := 0; s < nSeries; s++ {
		res, err := readTimes(sh, meas, s)
		if err != nil {
			return nil, err
		}
		got[s] = res
	}
	return got, nil
}
