package main

// (i) tsdb.Store / Shard drivers: field creation under enforced and free schedules,
// writers vs readers vs snapshots vs compactions vs deletes of other series.

import (
	"context"
	"fmt"
	"os"
	"os/exec"
	"sort"
	"strings"
	"sync"
	"sync/atomic"
	"time"

	"github.com/influxdata/influxdb/models"
	"github.com/influxdata/influxdb/query"
	"github.com/influxdata/influxdb/tsdb"
	"github.com/influxdata/influxdb/tsdb/engine/tsm1"
	"github.com/influxdata/influxql"
	"verifharness/hx"
)

// schedValidator wraps the real default validator; [after] runs once the real Validate
// returned, i.e. between validation and field creation of that point.
type schedValidator struct {
	inner tsdb.FieldValidator
	after atomic.Value // func(models.Point)
}

func (v *schedValidator) Validate(mf *tsdb.MeasurementFields, p models.Point) error {
	err := v.inner.Validate(mf, p)
	if f, ok := v.after.Load().(func(models.Point)); ok && f != nil {
		f(p)
	}
	return err
}

type childEnv struct {
	dir   string
	store *tsdb.Store
	val   *schedValidator
	nsh   uint64
	cl    *cluster
	meta  *metaEnv
}

func newChildEnv(dir string) *childEnv { return &childEnv{dir: dir} }

func (e *childEnv) Close() {
	if e.store != nil {
		e.store.Close()
	}
	if e.cl != nil {
		e.cl.Close()
	}
	if e.meta != nil {
		e.meta.Close()
	}
}

func (e *childEnv) getStore() *tsdb.Store {
	if e.store != nil {
		return e.store
	}
	st := tsdb.NewStore(e.dir + "/tsdb/data")
	st.EngineOptions.Config.WALDir = e.dir + "/tsdb/wal"
	st.EngineOptions.Config.Dir = e.dir + "/tsdb/data"
	e.val = &schedValidator{inner: tsdb.VerifDefaultFieldValidator()}
	e.val.after.Store(func(models.Point) {})
	st.EngineOptions.FieldValidator = e.val
	if err := st.Open(); err != nil {
		panic(err)
	}
	e.store = st
	return st
}

func (e *childEnv) newShard() uint64 {
	st := e.getStore()
	e.nsh++
	if err := st.CreateShard("db", "rp", e.nsh, true); err != nil {
		panic(err)
	}
	return e.nsh
}

func fieldValue(typ int, k int) interface{} {
	switch typ {
	case 1:
		return float64(k) + 0.5
	case 2:
		return int64(k)
	case 3:
		return fmt.Sprintf("s%d", k)
	default:
		return k%2 == 0
	}
}

func fieldTypeCode(t models.FieldType) int {
	switch t {
	case models.Float:
		return 1
	case models.Integer:
		return 2
	case models.String:
		return 3
	case models.Boolean:
		return 4
	}
	return 0
}

// outcome: 0 stored, 1 dropped by the validator (partial write), 2 field creation conflict
// (batch refused), 3 engine per-series conflict, 9 anything else
func writeOutcome(err error) int {
	if err == nil {
		return 0
	}
	if _, ok := err.(tsdb.PartialWriteError); ok {
		return 1
	}
	if err == tsdb.ErrFieldTypeConflict {
		return 2
	}
	if strings.HasPrefix(err.Error(), "engine:") && strings.Contains(err.Error(), tsdb.ErrFieldTypeConflict.Error()) {
		return 3
	}
	return 9
}

type fieldObs struct {
	ftypes [][2]int // field, type
	stored [][3]int // series, field, type
}

func observeFields(sh *tsdb.Shard, meas string, ws []fieldWriter) fieldObs {
	var o fieldObs
	mf := sh.MeasurementFields([]byte(meas))
	seenF := map[int]bool{}
	seenS := map[[2]int]bool{}
	eng, err := sh.Engine()
	if err != nil {
		panic(err)
	}
	te := eng.(*tsm1.Engine)
	for _, w := range ws {
		if !seenF[w.Field] {
			seenF[w.Field] = true
			if f := mf.Field(fmt.Sprintf("f%d", w.Field)); f != nil {
				o.ftypes = append(o.ftypes, [2]int{w.Field, int(f.Type)})
			}
		}
		k := [2]int{w.Series, w.Field}
		if !seenS[k] {
			seenS[k] = true
			key := fmt.Sprintf("%s,host=h%d#!~#f%d", meas, w.Series, w.Field)
			if t, err := te.Type([]byte(key)); err == nil {
				o.stored = append(o.stored, [3]int{w.Series, w.Field, fieldTypeCode(t)})
			}
		}
	}
	return o
}

func coqPairs(ps [][2]int) string {
	var it []string
	for _, p := range ps {
		it = append(it, fmt.Sprintf("(%d, %d)", p[0], p[1]))
	}
	return hx.CoqList(it)
}
func coqTriples(ps [][3]int) string {
	var it []string
	for _, p := range ps {
		it = append(it, fmt.Sprintf("(%d, %d, %d)", p[0], p[1], p[2]))
	}
	return hx.CoqList(it)
}

func mkPoint(meas string, w fieldWriter, idx int) models.Point {
	p, err := models.NewPoint(meas, models.NewTags(map[string]string{"host": fmt.Sprintf("h%d", w.Series)}),
		map[string]interface{}{fmt.Sprintf("f%d", w.Field): fieldValue(w.Type, idx)}, time.Unix(0, int64(idx+1)))
	if err != nil {
		panic(err)
	}
	return p
}

var fieldShard uint64

// runFieldSched: writers proceed exactly in the order of d.Schedule; "V<i>" lets writer i
// run up to the end of FieldValidator.Validate, "R<i>" lets it run to completion.
func runFieldSched(env *childEnv, d runDesc, run int) runResult {
	st := env.getStore()
	if fieldShard == 0 {
		fieldShard = env.newShard()
	}
	meas := fmt.Sprintf("fs%d_%d", d.Seed, run)
	n := len(d.Writers)
	turnV, doneV := make([]chan struct{}, n), make([]chan struct{}, n)
	turnR, doneR := make([]chan struct{}, n), make([]chan struct{}, n)
	outcome := make([]int, n)
	hooked := make([]int32, n)
	for i := range d.Writers {
		turnV[i], doneV[i], turnR[i], doneR[i] = make(chan struct{}), make(chan struct{}), make(chan struct{}), make(chan struct{})
	}
	env.val.after.Store(func(p models.Point) {
		if string(p.Name()) != meas {
			return
		}
		i := int(p.Time().UnixNano()) - 1
		if i < 0 || i >= n {
			return
		}
		if atomic.CompareAndSwapInt32(&hooked[i], 0, 1) {
			close(doneV[i])
			<-turnR[i]
		}
	})
	for i, w := range d.Writers {
		go func(i int, w fieldWriter) {
			<-turnV[i]
			err := st.WriteToShard(fieldShard, []models.Point{mkPoint(meas, w, i)})
			if atomic.CompareAndSwapInt32(&hooked[i], 0, 1) {
				close(doneV[i]) // the validator was never reached
				<-turnR[i]
			}
			outcome[i] = writeOutcome(err)
			close(doneR[i])
		}(i, w)
	}
	var tr []string
	for _, step := range d.Schedule {
		var i int
		fmt.Sscanf(step[1:], "%d", &i)
		if i < 0 || i >= n {
			continue
		}
		w := d.Writers[i]
		if step[0] == 'V' {
			close(turnV[i])
			<-doneV[i]
			tr = append(tr, fmt.Sprintf("FValidate %d (mkW %d %d %d)", i, w.Series, w.Field, w.Type))
		} else {
			close(turnR[i])
			<-doneR[i]
			tr = append(tr, fmt.Sprintf("FCheckCreate %d; FCreate %d; FEngine %d", i, i, i))
		}
	}
	env.val.after.Store(func(models.Point) {})
	obs := observeFields(st.Shard(fieldShard), meas, d.Writers)
	var outs []string
	conflict := false
	for i := range d.Writers {
		outs = append(outs, fmt.Sprintf("(%d, %d)", i, outcome[i]))
		if outcome[i] != 0 {
			conflict = true
		}
	}
	coq := fmt.Sprintf("CFieldSched %s %s %s %s %%BAD%%", hx.CoqList(tr), hx.CoqList(outs), coqPairs(obs.ftypes), coqTriples(obs.stored))
	return runResult{Coq: coq, Nontrivial: conflict, Sig: fmt.Sprintf("fs:%v:%v", d.Writers, d.Schedule),
		Obs:    map[string]interface{}{"outcomes": outcome, "field_types": obs.ftypes, "stored": obs.stored},
		Counts: []string{fmt.Sprintf("fieldsched:writers=%d", n), fmt.Sprintf("fieldsched:conflict=%v", conflict)}}
}

// runFieldFree: conflicting writers of new fields, released together right after their
// validation (so that they race through field creation and the engine write).
func runFieldFree(env *childEnv, d runDesc, run int) runResult {
	st := env.getStore()
	if fieldShard == 0 {
		fieldShard = env.newShard()
	}
	meas := fmt.Sprintf("ff%d_%d", d.Seed, run)
	n := len(d.Writers)
	var arrived int32
	release := make(chan struct{})
	var once sync.Once
	env.val.after.Store(func(p models.Point) {
		if string(p.Name()) != meas {
			return
		}
		if int(atomic.AddInt32(&arrived, 1)) >= n {
			once.Do(func() { close(release) })
		}
		select {
		case <-release:
		case <-time.After(2 * time.Second):
			once.Do(func() { close(release) })
		}
	})
	outcome := make([]int, n)
	var wg sync.WaitGroup
	for i, w := range d.Writers {
		wg.Add(1)
		go func(i int, w fieldWriter) {
			defer wg.Done()
			outcome[i] = writeOutcome(st.WriteToShard(fieldShard, []models.Point{mkPoint(meas, w, i)}))
		}(i, w)
	}
	wg.Wait()
	env.val.after.Store(func(models.Point) {})
	obs := observeFields(st.Shard(fieldShard), meas, d.Writers)
	ftype := map[int]int{}
	for _, ft := range obs.ftypes {
		ftype[ft[0]] = ft[1]
	}
	// winners (writers of the type the field ended up with) first
	idx := make([]int, n)
	for i := range idx {
		idx[i] = i
	}
	sort.SliceStable(idx, func(a, b int) bool {
		wa := ftype[d.Writers[idx[a]].Field] == d.Writers[idx[a]].Type
		wb := ftype[d.Writers[idx[b]].Field] == d.Writers[idx[b]].Type
		return wa && !wb
	})
	var ws []string
	for _, i := range idx {
		w := d.Writers[i]
		ws = append(ws, fmt.Sprintf("(%d, mkW %d %d %d)", i, w.Series, w.Field, w.Type))
	}
	nOK := 0
	for _, o := range outcome {
		if o == 0 {
			nOK++
		}
	}
	coq := fmt.Sprintf("CFieldFree %s %s %s %%BAD%%", hx.CoqList(ws), coqPairs(obs.ftypes), coqTriples(obs.stored))
	return runResult{Coq: coq, Nontrivial: nOK > 0 && nOK < n, Sig: fmt.Sprintf("ff:%d:%v:%v", d.Seed, d.Writers, outcome),
		Obs:    map[string]interface{}{"outcomes": outcome, "field_types": obs.ftypes, "stored": obs.stored},
		Counts: []string{fmt.Sprintf("fieldfree:writers=%d", n), fmt.Sprintf("fieldfree:accepted=%d", nOK)}}
}

// ---------------------------------------------------------------- shard: writes vs reads

type slog struct {
	mu    sync.Mutex
	evs   []string
	acked []uint64
}

func pointID(series, seq int) uint64 { return uint64(series)<<20 | uint64(seq) }

func readSeries(sh *tsdb.Shard, meas string, series int) ([]uint64, error) {
	cond, err := influxql.ParseExpr(fmt.Sprintf("host = 'h%d'", series))
	if err != nil {
		return nil, err
	}
	opt := query.IteratorOptions{
		Expr:       &influxql.VarRef{Val: "v", Type: influxql.Float},
		Dimensions: []string{"host"},
		Condition:  cond,
		StartTime:  influxql.MinTime,
		EndTime:    influxql.MaxTime,
		Ascending:  true,
		Ordered:    true,
	}
	itr, err := sh.CreateIterator(context.Background(), &influxql.Measurement{Name: meas}, opt)
	if err != nil {
		return nil, err
	}
	if itr == nil {
		return nil, nil
	}
	defer itr.Close()
	fitr, ok := itr.(query.FloatIterator)
	if !ok {
		return nil, fmt.Errorf("iterator type %T", itr)
	}
	var res []uint64
	for {
		p, err := fitr.Next()
		if err != nil {
			return res, err
		}
		if p == nil {
			return res, nil
		}
		// the value carries the sequence number; the time is the sequence number too
		if int64(p.Value) != p.Time {
			return res, fmt.Errorf("series h%d: value %v at time %d", series, p.Value, p.Time)
		}
		res = append(res, pointID(series, int(p.Time)))
	}
}

func runShard(env *childEnv, d runDesc, run int) runResult {
	st := env.getStore()
	shID := env.newShard()
	sh := st.Shard(shID)
	meas := "cpu"
	eng, err := sh.Engine()
	if err != nil {
		panic(err)
	}
	te := eng.(*tsm1.Engine)
	lg := &slog{}
	r := hx.NewRand(d.Seed)
	const seriesPerWriter = 3
	var wg sync.WaitGroup
	stop := make(chan struct{})
	var badRead atomic.Value
	var nWrites, nReads, nSnaps, nDeletes int64
	var writersDone int32

	for w := 0; w < d.Workers; w++ {
		wg.Add(1)
		wr := r.Split()
		go func(w int) {
			defer wg.Done()
			seq := make([]int, seriesPerWriter)
			for i := 0; i < d.Ops; i++ {
				k := wr.Intn(seriesPerWriter)
				series := w*seriesPerWriter + k
				nb := 1 + wr.Intn(4)
				var pts []models.Point
				var ids []uint64
				for b := 0; b < nb; b++ {
					seq[k]++
					p, err := models.NewPoint(meas, models.NewTags(map[string]string{"host": fmt.Sprintf("h%d", series)}),
						map[string]interface{}{"v": float64(seq[k])}, time.Unix(0, int64(seq[k])))
					if err != nil {
						panic(err)
					}
					pts = append(pts, p)
					ids = append(ids, pointID(series, seq[k]))
				}
				lg.mu.Lock()
				for _, id := range ids {
					lg.evs = append(lg.evs, fmt.Sprintf("SvWBegin %d", id))
				}
				lg.mu.Unlock()
				err := st.WriteToShard(shID, pts)
				if err == nil {
					lg.mu.Lock()
					for _, id := range ids {
						lg.evs = append(lg.evs, fmt.Sprintf("SvWAck %d", id))
						lg.acked = append(lg.acked, id)
					}
					lg.mu.Unlock()
					atomic.AddInt64(&nWrites, int64(len(ids)))
				}
			}
		}(w)
	}
	// readers
	var rid uint64
	var rwg sync.WaitGroup
	for rd := 0; rd < d.Readers; rd++ {
		rwg.Add(1)
		rr := r.Split()
		go func() {
			defer rwg.Done()
			for {
				select {
				case <-stop:
					return
				default:
				}
				if atomic.LoadInt64(&nReads) > 150 {
					time.Sleep(2 * time.Millisecond) // bounded history
					continue
				}
				series := rr.Intn(d.Workers * seriesPerWriter)
				id := atomic.AddUint64(&rid, 1)
				lg.mu.Lock()
				lg.evs = append(lg.evs, fmt.Sprintf("SvRBegin %d", id))
				lg.mu.Unlock()
				res, err := readSeries(sh, meas, series)
				if err != nil {
					badRead.Store(err.Error())
				}
				lg.mu.Lock()
				lg.evs = append(lg.evs, fmt.Sprintf("SvREnd %d %d %s", id, series, hx.CoqNList(res)))
				lg.mu.Unlock()
				atomic.AddInt64(&nReads, 1)
				time.Sleep(time.Duration(rr.Intn(400)) * time.Microsecond)
			}
		}()
	}
	// snapshots + compactions
	rwg.Add(1)
	go func() {
		defer rwg.Done()
		sr := r.Split()
		for i := 0; ; i++ {
			select {
			case <-stop:
				return
			default:
			}
			time.Sleep(time.Duration(500+sr.Intn(3000)) * time.Microsecond)
			if d.Snapshots > 0 && i >= d.Snapshots {
				continue
			}
			if atomic.LoadInt32(&writersDone) != 0 {
				// no snapshot after the last write: what the last snapshots left in the
				// cache has to be recoverable from the WAL segments that remain
				return
			}
			lg.mu.Lock()
			lg.evs = append(lg.evs, "SvSnapBegin")
			lg.mu.Unlock()
			err := te.WriteSnapshot()
			lg.mu.Lock()
			lg.evs = append(lg.evs, fmt.Sprintf("SvSnapEnd %s", hx.CoqBool(err == nil)))
			lg.mu.Unlock()
			atomic.AddInt64(&nSnaps, 1)
			if sr.Chance(30) {
				te.ScheduleFullCompaction()
				lg.mu.Lock()
				lg.evs = append(lg.evs, "SvCompact")
				lg.mu.Unlock()
			}
		}
	}()
	// writes and deletes of OTHER series (another measurement of the same shard)
	rwg.Add(1)
	go func() {
		defer rwg.Done()
		k := 0
		for {
			select {
			case <-stop:
				return
			default:
			}
			k++
			p, _ := models.NewPoint("junk", models.NewTags(map[string]string{"host": fmt.Sprintf("j%d", k%5)}),
				map[string]interface{}{"v": float64(k)}, time.Unix(0, int64(k)))
			st.WriteToShard(shID, []models.Point{p})
			if k%7 == 0 {
				cond, _ := influxql.ParseExpr(fmt.Sprintf("host = 'j%d'", k%5))
				st.DeleteSeries("db", []influxql.Source{&influxql.Measurement{Database: "db", RetentionPolicy: "rp", Name: "junk"}}, cond)
				atomic.AddInt64(&nDeletes, 1)
			}
			time.Sleep(300 * time.Microsecond)
		}
	}()
	wg.Wait()
	atomic.StoreInt32(&writersDone, 1)
	close(stop)
	rwg.Wait()
	// quiescent read of every series
	var final []uint64
	for s := 0; s < d.Workers*seriesPerWriter; s++ {
		res, err := readSeries(sh, meas, s)
		if err != nil {
			badRead.Store(err.Error())
		}
		final = append(final, res...)
	}
	// ... and of a copy of what is on disk now, opened by a second store (= what a restart
	// would see): a point counts as finally readable only if it is in both
	recovered, rerr := recoverCopy(env, te, shID, meas, d.Workers*seriesPerWriter)
	lostOnDisk := 0
	if rerr != nil {
		badRead.Store("recovery copy: " + rerr.Error())
	} else {
		var both []uint64
		for _, id := range final {
			if recovered[id] {
				both = append(both, id)
			} else {
				lostOnDisk++
			}
		}
		final = both
	}
	lg.mu.Lock()
	evs := append([]string(nil), lg.evs...)
	acked := append([]uint64(nil), lg.acked...)
	lg.mu.Unlock()
	bad := "%BAD%"
	obs := map[string]interface{}{"writes_acked": len(acked), "reads": nReads, "snapshots": nSnaps, "deletes_other_series": nDeletes,
		"final_points": len(final), "readable_now_but_not_from_disk_copy": lostOnDisk}
	if e, ok := badRead.Load().(string); ok {
		bad = "true"
		obs["read_error"] = e
	}
	coq := fmt.Sprintf("CShard [%s] %s %s %s", strings.Join(evs, "; "), hx.CoqNList(acked), hx.CoqNList(final), bad)
	return runResult{Coq: coq, Nontrivial: nReads > 0 && len(acked) > 0, Sig: fmt.Sprintf("shard:%d:%d:%d", d.Seed, len(evs), nReads),
		Obs: obs, Counts: []string{"shard:reads=" + bucket(int(nReads)), "shard:writes=" + bucket(len(acked)), "shard:snapshots=" + bucket(int(nSnaps))}}
}

// recoverCopy copies the shard's files (data, WAL, series file) as they are on disk and
// opens them with a second store; it returns the points that store can read.
func recoverCopy(env *childEnv, te *tsm1.Engine, shID uint64, meas string, nSeries int) (map[uint64]bool, error) {
	te.SetCompactionsEnabled(false) // waits for running compactions: the file set is stable
	root := fmt.Sprintf("%s/copy_%d", env.dir, shID)
	defer os.RemoveAll(root)
	src := env.dir + "/tsdb"
	for _, sub := range []string{"data", "wal"} {
		dst := fmt.Sprintf("%s/%s/db/rp", root, sub)
		if err := os.MkdirAll(dst, 0755); err != nil {
			return nil, err
		}
		if out, err := exec.Command("cp", "-r", fmt.Sprintf("%s/%s/db/rp/%d", src, sub, shID), dst+"/").CombinedOutput(); err != nil {
			return nil, fmt.Errorf("cp: %v %s", err, out)
		}
	}
	if out, err := exec.Command("cp", "-r", src+"/data/db/_series", root+"/data/db/").CombinedOutput(); err != nil {
		return nil, fmt.Errorf("cp: %v %s", err, out)
	}
	st := tsdb.NewStore(root + "/data")
	st.EngineOptions.Config.WALDir = root + "/wal"
	st.EngineOptions.Config.Dir = root + "/data"
	if err := st.Open(); err != nil {
		return nil, err
	}
	defer st.Close()
	sh := st.Shard(shID)
	if sh == nil {
		return nil, fmt.Errorf("shard %d not found in the copy", shID)
	}
	got := map[uint64]bool{}
	for s := 0; s < nSeries; s++ {
		res, err := readSeries(sh, meas, s)
		if err != nil {
			return nil, err
		}
		for _, id := range res {
			got[id] = true
		}
	}
	return got, nil
}

// runCacheKey: goroutines released together write distinct points to the SAME brand-new
// series (a new cache key, a new series-type-map entry, a new index entry) - round after
// round; every acknowledged point has to be there at the end.
func runCacheKey(env *childEnv, d runDesc, run int) runResult {
	st := env.getStore()
	shID := env.newShard()
	sh := st.Shard(shID)
	meas := "cpu"
	lg := &slog{}
	k := d.Workers
	if k < 2 {
		k = 2
	}
	for round := 0; round < d.Ops; round++ {
		release := make(chan struct{})
		var wg sync.WaitGroup
		for w := 0; w < k; w++ {
			wg.Add(1)
			go func(w int) {
				defer wg.Done()
				seq := w + 1
				p, err := models.NewPoint(meas, models.NewTags(map[string]string{"host": fmt.Sprintf("h%d", round)}),
					map[string]interface{}{"v": float64(seq)}, time.Unix(0, int64(seq)))
				if err != nil {
					panic(err)
				}
				id := pointID(round, seq)
				<-release
				lg.mu.Lock()
				lg.evs = append(lg.evs, fmt.Sprintf("SvWBegin %d", id))
				lg.mu.Unlock()
				if err := st.WriteToShard(shID, []models.Point{p}); err == nil {
					lg.mu.Lock()
					lg.evs = append(lg.evs, fmt.Sprintf("SvWAck %d", id))
					lg.acked = append(lg.acked, id)
					lg.mu.Unlock()
				}
			}(w)
		}
		close(release)
		wg.Wait()
	}
	var final []uint64
	var rerr string
	for s := 0; s < d.Ops; s++ {
		res, err := readSeries(sh, meas, s)
		if err != nil {
			rerr = err.Error()
		}
		final = append(final, res...)
	}
	bad := "%BAD%"
	obs := map[string]interface{}{"writes_acked": len(lg.acked), "rounds": d.Ops, "writers_per_new_key": k, "final_points": len(final)}
	if rerr != "" {
		bad = "true"
		obs["read_error"] = rerr
	}
	coq := fmt.Sprintf("CShard [%s] %s %s %s", strings.Join(lg.evs, "; "), hx.CoqNList(lg.acked), hx.CoqNList(final), bad)
	return runResult{Coq: coq, Nontrivial: len(lg.acked) > 0, Sig: fmt.Sprintf("cachekey:%d:%d:%d", d.Seed, d.Ops, k),
		Obs: obs, Counts: []string{"cachekey:rounds=" + bucket(d.Ops), fmt.Sprintf("cachekey:writers=%d", k)}}
}
