package main

// (iv) real meta.Service (single-node raft) + real meta.Client on loopback: metadata
// updates (pointer swaps in the client and the store) against concurrent readers, and
// password changes against concurrent authentications.
// (iii) real hinted-handoff service: concurrent WriteShard for several nodes racing the
// sender, the purger and Close.

import (
	"errors"
	"fmt"
	"net"
	"strings"
	"sync"
	"sync/atomic"
	"time"

	"github.com/influxdata/influxdb/models"
	"github.com/influxdata/influxdb/services/hh"
	"github.com/influxdata/influxdb/services/meta"
	"github.com/influxdata/influxdb/tcp"
	"github.com/influxdata/influxdb/toml"
	"golang.org/x/crypto/bcrypt"
	"verifharness/hx"
)

type metaEnv struct {
	svc *meta.Service
	ln  net.Listener
	c   *meta.Client
	ndb int
}

func freeAddr() string {
	l, err := net.Listen("tcp", "127.0.0.1:0")
	if err != nil {
		panic(err)
	}
	defer l.Close()
	return l.Addr().String()
}

func (e *childEnv) getMeta() *metaEnv {
	if e.meta != nil {
		return e.meta
	}
	meta.VerifSetBcryptCost(bcrypt.MinCost)
	cfg := meta.NewConfig()
	cfg.BindAddress = freeAddr()
	cfg.HTTPBindAddress = freeAddr()
	cfg.Dir = e.dir + "/meta"
	cfg.LeaseDuration = toml.Duration(time.Second)
	cfg.SingleServer = true
	cfg.LoggingEnabled = false
	ln, err := net.Listen("tcp", cfg.BindAddress)
	if err != nil {
		panic(err)
	}
	mux := tcp.NewMux()
	s := meta.NewService(cfg)
	s.RaftListener = mux.Listen(meta.MuxHeader)
	go mux.Serve(ln)
	if err := s.Open(); err != nil {
		panic(err)
	}
	ccfg := meta.NewConfig()
	ccfg.Dir = e.dir + "/metaclient"
	c := meta.NewClient(ccfg)
	c.SetMetaServers([]string{cfg.HTTPBindAddress})
	if err := c.Open(); err != nil {
		panic(err)
	}
	e.meta = &metaEnv{svc: s, ln: ln, c: c}
	return e.meta
}

func (m *metaEnv) Close() {
	m.c.Close()
	done := make(chan struct{})
	go func() { m.svc.Close(); close(done) }()
	select {
	case <-done:
	case <-time.After(5 * time.Second):
	}
	m.ln.Close()
}

func runMeta(env *childEnv, d runDesc) runResult {
	m := env.getMeta()
	c := m.c
	m.ndb++
	db := fmt.Sprintf("db%d_%d", d.Seed, m.ndb)
	dur := 2 * time.Hour
	if _, err := c.CreateDatabaseWithRetentionPolicy(db, &meta.RetentionPolicySpec{Name: "rp", Duration: &dur, ShardGroupDuration: time.Hour}); err != nil {
		panic(err)
	}
	var mu sync.Mutex
	var evs []string
	log := func(s string) { mu.Lock(); evs = append(evs, s); mu.Unlock() }
	stop := make(chan struct{})
	var wg sync.WaitGroup
	var rid uint64
	var nReads int64
	value := func(di *meta.DatabaseInfo) uint64 {
		rp := di.RetentionPolicy("rp")
		if rp == nil {
			return 0
		}
		return uint64(rp.Duration/time.Hour) - 2
	}
	r := hx.NewRand(d.Seed)
	for i := 0; i < d.Readers; i++ {
		wg.Add(1)
		rr := r.Split()
		go func() {
			defer wg.Done()
			for {
				select {
				case <-stop:
					return
				default:
				}
				if atomic.LoadInt64(&nReads) > 120 {
					time.Sleep(2 * time.Millisecond)
					continue
				}
				id := atomic.AddUint64(&rid, 1)
				log(fmt.Sprintf("MvRBegin %d", id))
				var di *meta.DatabaseInfo
				dbs := c.Databases() // the published slice itself, not a copy
				for k := range dbs {
					if dbs[k].Name == db {
						di = &dbs[k]
					}
				}
				if di == nil {
					log(fmt.Sprintf("MvREnd %d 0 false", id))
					continue
				}
				v := value(di)
				// keep the published object for a while, then read it again: it must not have changed
				time.Sleep(time.Duration(rr.Intn(1500)) * time.Microsecond)
				stable := value(di) == v
				log(fmt.Sprintf("MvREnd %d %d %s", id, v, hx.CoqBool(stable)))
				atomic.AddInt64(&nReads, 1)
			}
		}()
	}
	// other metadata traffic that swaps the pointer too
	wg.Add(1)
	go func() {
		defer wg.Done()
		for k := 0; ; k++ {
			select {
			case <-stop:
				return
			default:
			}
			c.CreateDatabase(fmt.Sprintf("%s_x%d", db, k%3))
			c.ShardGroupsByTimeRange(db, "rp", time.Unix(0, 0), time.Unix(1<<30, 0))
			time.Sleep(500 * time.Microsecond)
		}
	}()
	for k := 1; k <= d.Ops; k++ {
		log(fmt.Sprintf("MvWBegin %d", k))
		nd := time.Duration(k+2) * time.Hour
		if err := c.UpdateRetentionPolicy(db, "rp", &meta.RetentionPolicyUpdate{Duration: &nd}, false); err != nil {
			panic(err)
		}
		log(fmt.Sprintf("MvWAck %d", k))
	}
	close(stop)
	wg.Wait()
	// quiescent read
	log("MvRBegin 0")
	di := c.Database(db)
	log(fmt.Sprintf("MvREnd 0 %d true", value(di)))
	mu.Lock()
	coq := fmt.Sprintf("CMeta [%s] %%BAD%%", strings.Join(evs, "; "))
	n := len(evs)
	mu.Unlock()
	return runResult{Coq: coq, Nontrivial: nReads > 0, Sig: fmt.Sprintf("meta:%d:%d", d.Seed, n),
		Obs:    map[string]interface{}{"updates": d.Ops, "reads": nReads, "final": value(di)},
		Counts: []string{"meta:reads=" + bucket(int(nReads)), "meta:updates=" + bucket(d.Ops)}}
}

func runAuth(env *childEnv, d runDesc) runResult {
	m := env.getMeta()
	c := m.c
	var rounds []string
	var obs [][2]bool
	for k := 0; k < d.Ops; k++ {
		m.ndb++
		user := fmt.Sprintf("u%d_%d", d.Seed, m.ndb)
		if _, err := c.CreateUser(user, "old", false); err != nil {
			panic(err)
		}
		// calls with the old password in flight while the password changes
		var wg sync.WaitGroup
		for i := 0; i < d.Workers; i++ {
			wg.Add(1)
			go func() {
				defer wg.Done()
				for j := 0; j < 3; j++ {
					c.Authenticate(user, "old")
				}
			}()
		}
		if err := c.UpdateUser(user, "new"); err != nil {
			panic(err)
		}
		wg.Wait()
		// calls that begin after the change was acknowledged
		_, errOld := c.Authenticate(user, "old")
		_, errNew := c.Authenticate(user, "new")
		rounds = append(rounds, fmt.Sprintf("(%s, %s)", hx.CoqBool(errOld == nil), hx.CoqBool(errNew == nil)))
		obs = append(obs, [2]bool{errOld == nil, errNew == nil})
	}
	coq := fmt.Sprintf("CAuth %s %%BAD%%", hx.CoqList(rounds))
	return runResult{Coq: coq, Nontrivial: len(rounds) > 0, Sig: fmt.Sprintf("auth:%d:%d", d.Seed, len(rounds)),
		Obs: map[string]interface{}{"rounds_old_accepted_new_accepted": obs}, Counts: []string{"auth:rounds=" + bucket(len(rounds))}}
}

// ---------------------------------------------------------------- hinted handoff

type hhWriter struct {
	mu        sync.Mutex
	delivered map[uint64]int
	failPct   int
	r         *hx.Rand
}

func (w *hhWriter) WriteShardBinary(shardID, ownerID uint64, points [][]byte) error {
	w.mu.Lock()
	defer w.mu.Unlock()
	if w.r.Chance(w.failPct) {
		return errors.New("remote write failed (injected)")
	}
	for _, b := range points {
		p, err := models.NewPointFromBytes(b)
		if err != nil {
			return err
		}
		w.delivered[uint64(p.Time().UnixNano())]++
	}
	return nil
}

type hhMeta struct{}

func (hhMeta) DataNode(id uint64) (*meta.NodeInfo, error) { return &meta.NodeInfo{ID: id}, nil }

func runHH(env *childEnv, d runDesc, run int) runResult {
	dir := fmt.Sprintf("%s/hh_%d_%d", env.dir, d.Seed, run)
	cfg := hh.NewConfig()
	cfg.Dir = dir
	// NodeProcessor.run re-arms both timers on every loop: the purge interval has to be
	// longer than the retry interval or the sender never runs
	cfg.RetryInterval = toml.Duration(time.Millisecond)
	cfg.RetryMaxInterval = toml.Duration(4 * time.Millisecond)
	cfg.PurgeInterval = toml.Duration(7 * time.Millisecond)
	if d.IdleMs > 0 {
		cfg.PurgeInterval = toml.Duration(time.Duration(d.IdleMs) * time.Millisecond)
	}
	r := hx.NewRand(d.Seed)
	w1 := &hhWriter{delivered: map[uint64]int{}, failPct: 30, r: r.Split()}
	svc := hh.NewService(cfg, w1)
	svc.MetaClient = hhMeta{}
	if err := svc.Open(); err != nil {
		panic(err)
	}
	const nNodes = 3
	var mu sync.Mutex
	acked := map[uint64]uint64{}     // id -> node
	attempted := map[uint64]uint64{} // id -> node
	var wg sync.WaitGroup
	var nextID uint64
	var closedFlag int32
	for w := 0; w < d.Workers; w++ {
		wg.Add(1)
		wr := r.Split()
		go func() {
			defer wg.Done()
			for i := 0; i < d.Ops && atomic.LoadInt32(&closedFlag) == 0; i++ {
				node := uint64(2 + wr.Intn(nNodes))
				shard := uint64(1 + wr.Intn(2))
				id := atomic.AddUint64(&nextID, 1)
				p, err := models.NewPoint("m", models.NewTags(map[string]string{"n": fmt.Sprint(node)}),
					map[string]interface{}{"v": float64(id)}, time.Unix(0, int64(id)))
				if err != nil {
					panic(err)
				}
				mu.Lock()
				attempted[id] = node
				mu.Unlock()
				var werr error
				func() {
					defer func() {
						if e := recover(); e != nil {
							panic(e) // a panic in the real code is an observation of the child
						}
					}()
					werr = svc.WriteShard(shard, node, []models.Point{p})
				}()
				if werr == nil {
					mu.Lock()
					acked[id] = node
					mu.Unlock()
				}
				if wr.Chance(20) {
					time.Sleep(time.Duration(wr.Intn(2000)) * time.Microsecond) // let queues drain: the purger closes empty processors
				}
			}
		}()
	}
	// Close racing the writers
	closeAt := time.Duration(2+r.Intn(20)) * time.Millisecond
	if d.PoolClose == 0 {
		wg.Wait()
	} else {
		time.Sleep(closeAt)
	}
	if err := svc.Close(); err != nil {
		panic(err)
	}
	atomic.StoreInt32(&closedFlag, 1)
	wg.Wait()
	// a WriteShard that was in flight may have opened a processor after Close: close it too
	if err := svc.Close(); err != nil {
		panic(err)
	}
	// reopen with a writer that accepts everything and drain what is on disk
	w2 := &hhWriter{delivered: map[uint64]int{}, r: r.Split()}
	cfg2 := cfg
	cfg2.PurgeInterval = toml.Duration(time.Hour)
	svc2 := hh.NewService(cfg2, w2)
	svc2.MetaClient = hhMeta{}
	if err := svc2.Open(); err != nil {
		panic(err)
	}
	deadline := time.Now().Add(8 * time.Second)
	for time.Now().Before(deadline) {
		missing := 0
		mu.Lock()
		w1.mu.Lock()
		w2.mu.Lock()
		for id := range acked {
			if w1.delivered[id] == 0 && w2.delivered[id] == 0 {
				missing++
			}
		}
		w2.mu.Unlock()
		w1.mu.Unlock()
		mu.Unlock()
		if missing == 0 {
			break
		}
		time.Sleep(5 * time.Millisecond)
	}
	svc2.Close()
	w1.mu.Lock()
	defer w1.mu.Unlock()
	w2.mu.Lock()
	defer w2.mu.Unlock()
	var nodes []string
	per := map[uint64][3]int{}
	phantom := false
	for id, n := range attempted {
		x := per[n]
		x[2]++
		per[n] = x
		_ = id
	}
	for id, n := range acked {
		x := per[n]
		x[0]++
		if w1.delivered[id] > 0 || w2.delivered[id] > 0 {
			x[1]++
		}
		per[n] = x
	}
	for _, w := range []*hhWriter{w1, w2} {
		for id := range w.delivered {
			if _, ok := attempted[id]; !ok {
				phantom = true
			}
		}
	}
	tot := [3]int{}
	for n := uint64(2); n < 2+nNodes; n++ {
		x := per[n]
		found := x[1]
		if phantom {
			found = x[2] + 1
		}
		nodes = append(nodes, fmt.Sprintf("(%d, %d, %d)", x[0], found, x[2]))
		tot[0] += x[0]
		tot[1] += x[1]
		tot[2] += x[2]
	}
	coq := fmt.Sprintf("CHh %s %%BAD%%", hx.CoqList(nodes))
	return runResult{Coq: coq, Nontrivial: tot[0] > 0, Sig: fmt.Sprintf("hh:%d:%d:%d", d.Seed, tot[0], tot[2]),
		Obs:    map[string]interface{}{"acked": tot[0], "acked_found": tot[1], "attempted": tot[2], "phantom": phantom, "close_races_writers": d.PoolClose != 0},
		Counts: []string{"hh:acked=" + bucket(tot[0]), fmt.Sprintf("hh:close_race=%v", d.PoolClose != 0)}}
}
