package main

// Two-node loopback cluster used to drive the REAL remote-iterator path:
// node 2 = real tsdb.Store + real coordinator.Service behind a real tcp.Mux;
// node 1 = real coordinator.MetaExecutor + real coordinator.ClusterShardMapper + query.Select.

import (
	"context"
	"errors"
	"fmt"
	"net"
	"sync"
	"sync/atomic"
	"time"

	"github.com/influxdata/influxdb/coordinator"
	"github.com/influxdata/influxdb/models"
	"github.com/influxdata/influxdb/query"
	"github.com/influxdata/influxdb/services/meta"
	"github.com/influxdata/influxdb/tcp"
	"github.com/influxdata/influxdb/tsdb"
	"github.com/influxdata/influxql"
	"verifharness/hx"
)

// ---- counting listener: live server-side connections = live underlying pool connections ----

type countListener struct {
	net.Listener
	accepted int64
	live     int64
}

type countConn struct {
	net.Conn
	l    *countListener
	once sync.Once
}

func (c *countConn) Close() error {
	c.once.Do(func() { atomic.AddInt64(&c.l.live, -1) })
	return c.Conn.Close()
}

func (l *countListener) Accept() (net.Conn, error) {
	c, err := l.Listener.Accept()
	if err != nil {
		return nil, err
	}
	atomic.AddInt64(&l.accepted, 1)
	atomic.AddInt64(&l.live, 1)
	return &countConn{Conn: c, l: l}, nil
}

// ---- fakes for the metadata the services ask for (routing only) ----

type svcMeta struct{ addr string }

func (svcMeta) NodeID() uint64            { return 2 }
func (svcMeta) MetaServers() []string     { return []string{"127.0.0.1:1"} }
func (svcMeta) SetMetaServers(a []string) {}
func (m svcMeta) DataNode(id uint64) (*meta.NodeInfo, error) {
	return nil, errors.New("node not found")
}
func (svcMeta) CreateDataNode(httpAddr, tcpAddr string) (*meta.NodeInfo, error) {
	return &meta.NodeInfo{ID: 2}, nil
}
func (svcMeta) DataNodeByTCPAddr(tcpAddr string) (*meta.NodeInfo, error) {
	return nil, errors.New("node not found")
}
func (svcMeta) Status() (*meta.MetaNodeStatus, error) { return nil, errors.New("no status") }
func (svcMeta) Save() error                           { return nil }

type fakeServer struct{}

func (fakeServer) Reset() error       { return nil }
func (fakeServer) HTTPAddr() string   { return "127.0.0.1:0" }
func (fakeServer) HTTPScheme() string { return "http" }
func (fakeServer) TCPAddr() string    { return "127.0.0.1:0" }

type fakeHH struct{}

func (fakeHH) RemoveNode(ownerID uint64) error { return nil }

// queryMeta is node 1's view: one shard group, shard 1 owned by node 2.
type queryMeta struct {
	coordinator.MetaClient // nil: any other call panics (recovered and reported)
	addr                   string
}

func (q *queryMeta) NodeID() uint64 { return 1 }
func (q *queryMeta) DataNode(id uint64) (*meta.NodeInfo, error) {
	if id == 2 {
		return &meta.NodeInfo{ID: 2, TCPAddr: q.addr}, nil
	}
	return nil, errors.New("node not found")
}
func (q *queryMeta) DataNodes() []meta.NodeInfo {
	return []meta.NodeInfo{{ID: 1}, {ID: 2, TCPAddr: q.addr}}
}
func (q *queryMeta) DataNodeByTCPAddr(a string) (*meta.NodeInfo, error) {
	return nil, errors.New("node not found")
}
func (q *queryMeta) ShardGroupsByTimeRange(database, policy string, min, max time.Time) ([]meta.ShardGroupInfo, error) {
	return []meta.ShardGroupInfo{{
		ID:        1,
		StartTime: time.Unix(0, 0),
		EndTime:   time.Unix(1<<40, 0),
		Shards:    []meta.ShardInfo{{ID: 1, Owners: []meta.ShardOwner{{NodeID: 2}}}},
	}}, nil
}

type cluster struct {
	remoteStore *tsdb.Store
	localStore  *tsdb.Store
	svc         *coordinator.Service
	cl          *countListener
	mux         *tcp.Mux
	exec        *coordinator.MetaExecutor
	mapper      *coordinator.ClusterShardMapper
	closeFns    []func()
}

func openStore(dir string) *tsdb.Store {
	st := tsdb.NewStore(dir + "/data")
	st.EngineOptions.Config.WALDir = dir + "/wal"
	st.EngineOptions.Config.Dir = dir + "/data"
	if err := st.Open(); err != nil {
		panic(err)
	}
	return st
}

func newCluster(dir string, maxStreams int, idle time.Duration) *cluster {
	c := &cluster{}
	c.remoteStore = openStore(dir + "/n2")
	c.localStore = openStore(dir + "/n1")
	if err := c.remoteStore.CreateShard("db", "rp", 1, true); err != nil {
		panic(err)
	}
	var pts []models.Point
	for m := 0; m < 3; m++ {
		for s := 0; s < 3; s++ {
			for t := 0; t < 20; t++ {
				p, err := models.NewPoint(fmt.Sprintf("m%d", m), models.NewTags(map[string]string{"host": fmt.Sprintf("h%d", s)}),
					map[string]interface{}{"v": float64(t + s), "w": int64(t)}, time.Unix(0, int64(1000+t)))
				if err != nil {
					panic(err)
				}
				pts = append(pts, p)
			}
		}
	}
	if err := c.remoteStore.WriteToShard(1, pts); err != nil {
		panic(err)
	}

	ln, err := net.Listen("tcp", "127.0.0.1:0")
	if err != nil {
		panic(err)
	}
	c.cl = &countListener{Listener: ln}
	c.mux = tcp.NewMux()
	svc := coordinator.NewService(coordinator.NewConfig())
	svc.Listener = c.mux.Listen(coordinator.MuxHeader)
	svc.DefaultListener = c.mux.DefaultListener()
	svc.TSDBStore = c.remoteStore
	svc.MetaClient = svcMeta{}
	svc.Server = fakeServer{}
	svc.HintedHandoff = fakeHH{}
	svc.TaskManager = query.NewTaskManager()
	go c.mux.Serve(c.cl)
	if err := svc.Open(); err != nil {
		panic(err)
	}
	c.svc = svc

	qm := &queryMeta{addr: ln.Addr().String()}
	c.exec = coordinator.NewMetaExecutor(5*time.Second, 2*time.Second, idle, maxStreams)
	c.exec.MetaClient = qm
	c.mapper = &coordinator.ClusterShardMapper{MetaClient: qm, TSDBStore: c.localStore, MetaExecutor: c.exec}
	return c
}

func (c *cluster) Close() {
	c.exec.Close()
	c.cl.Close()
	done := make(chan struct{})
	go func() { c.svc.Close(); close(done) }()
	select {
	case <-done:
	case <-time.After(5 * time.Second):
	}
	c.remoteStore.Close()
	c.localStore.Close()
}

// runQuery executes one SELECT the way coordinator.StatementExecutor.executeSelectStatement
// does (query.Select -> Emitter -> drain -> Close) and returns the number of rows.
func (c *cluster) runQuery(q string, drain bool) (rows int, err error) {
	defer func() {
		if e := recover(); e != nil {
			err = fmt.Errorf("panic: %v", e)
		}
	}()
	stmt, err := influxql.ParseStatement(q)
	if err != nil {
		return 0, err
	}
	sel := stmt.(*influxql.SelectStatement)
	ctx, cancel := context.WithCancel(context.Background())
	defer cancel()
	cur, err := query.Select(ctx, sel, c.mapper, query.SelectOptions{})
	if err != nil {
		return 0, err
	}
	em := query.NewEmitter(cur, 0)
	defer em.Close()
	for drain {
		row, _, err := em.Emit()
		if err != nil {
			return rows, err
		}
		if row == nil {
			break
		}
		rows += len(row.Values)
	}
	return rows, nil
}

// poolStats waits for the server side to notice closed connections, then reports.
func (c *cluster) poolStats() (size, idle int, live int64) {
	deadline := time.Now().Add(2 * time.Second)
	for {
		size, idle, _ = c.exec.VerifPoolStats(2)
		live = atomic.LoadInt64(&c.cl.live)
		if int64(size) == live || time.Now().After(deadline) {
			return
		}
		time.Sleep(5 * time.Millisecond)
	}
}

// runCluster: concurrent SELECTs (some abandoned before being drained) through the real
// ClusterShardMapper / MetaExecutor.CreateIterator / remote reader iterators, interleaved
// with MapType / IteratorCost calls that return usable connections to the pool.
func runCluster(env *childEnv, d runDesc) runResult {
	if d.Cap <= 0 {
		d.Cap = 32
	}
	if env.cl == nil {
		env.cl = newCluster(env.dir+"/cluster", d.Cap, time.Hour)
	}
	c := env.cl
	r := hx.NewRand(d.Seed)
	var wg sync.WaitGroup
	var nOK, nErr, nRows int64
	workers := d.Workers
	if workers <= 0 {
		workers = 3
	}
	qch := make(chan string, len(d.Queries))
	for _, q := range d.Queries {
		qch <- q
	}
	close(qch)
	for w := 0; w < workers; w++ {
		wg.Add(1)
		wr := r.Split()
		go func() {
			defer wg.Done()
			for q := range qch {
				if wr.Chance(40) {
					// stock the pool with usable connections (returned to the idle list)
					var wg2 sync.WaitGroup
					for k := 0; k < 1+wr.Intn(3); k++ {
						wg2.Add(1)
						go func() {
							defer wg2.Done()
							c.exec.MapType(2, []uint64{1}, &influxql.Measurement{Database: "db", RetentionPolicy: "rp", Name: "m0"}, "v")
						}()
					}
					wg2.Wait()
				}
				rows, err := c.runQuery(q, !wr.Chance(25))
				if err != nil {
					atomic.AddInt64(&nErr, 1)
				} else {
					atomic.AddInt64(&nOK, 1)
					atomic.AddInt64(&nRows, int64(rows))
				}
			}
		}()
	}
	wg.Wait()
	size, idle, live := c.poolStats()
	coq := fmt.Sprintf("CCluster %d %d %d %d %%BAD%%", d.Cap, size, idle, live)
	return runResult{Coq: coq, Nontrivial: nOK > 0, Sig: fmt.Sprintf("cluster:%d:%v", d.Seed, d.Queries),
		Obs: map[string]interface{}{"pool_size": size, "pool_idle": idle, "server_live_conns": live, "queries_ok": nOK, "queries_err": nErr,
			"rows": nRows, "conns_accepted": atomic.LoadInt64(&c.cl.accepted)},
		Counts: []string{"cluster:queries=" + bucket(len(d.Queries)), "cluster:errors=" + bucket(int(nErr))}}
}
