package main

// (i-d) a write racing with the release of an idle shard's resources.  Per round: a new
// shard gets one point, the cache is snapshotted (the cache is allocated and empty, the
// shard fully compacted: idle), then two goroutines are released together - one does what
// Store.monitorShards does every 10 s (`if sh.IsIdle() { sh.Free() }`), the other writes a
// second point after a seeded delay of 0-150 us.  Both points must be readable afterwards.

import (
	"fmt"
	"sync"
	"time"

	"github.com/influxdata/influxdb/models"
	"github.com/influxdata/influxdb/tsdb/engine/tsm1"
	"verifharness/hx"
)

func runIdleFree(env *childEnv, d runDesc, run int) runResult {
	st := env.getStore()
	r := hx.NewRand(d.Seed)
	meas := "cpu"
	mk := func(seq int) models.Point {
		p, err := models.NewPoint(meas, models.NewTags(map[string]string{"host": "h0"}),
			map[string]interface{}{"v": float64(seq)}, time.Unix(0, int64(seq)))
		if err != nil {
			panic(err)
		}
		return p
	}
	type round struct {
		acked, visible []int
	}
	var kept []round
	total, lossy, freed, skipped := 0, 0, 0, 0
	var rerr string
	every := d.Ops / 6
	if every < 1 {
		every = 1
	}
	for it := 0; it < d.Ops; it++ {
		shID := env.newShard()
		sh := st.Shard(shID)
		var x round
		if err := st.WriteToShard(shID, []models.Point{mk(1)}); err != nil {
			panic(err)
		}
		x.acked = append(x.acked, 1)
		eng, err := sh.Engine()
		if err != nil {
			panic(err)
		}
		sh.SetCompactionsEnabled(true) // the store's own monitor may have found the new shard idle already
		if err := eng.(*tsm1.Engine).WriteSnapshot(); err != nil {
			skipped++
			st.DeleteShard(shID)
			continue
		}
		delay := time.Duration(r.Intn(150)) * time.Microsecond
		release := make(chan struct{})
		var wg sync.WaitGroup
		var werr error
		didFree := false
		wg.Add(2)
		go func() {
			defer wg.Done()
			<-release
			if idle, _ := sh.IsIdle(); idle {
				didFree = true
				sh.Free()
			}
		}()
		go func() {
			defer wg.Done()
			<-release
			spin(delay)
			werr = st.WriteToShard(shID, []models.Point{mk(2)})
		}()
		close(release)
		wg.Wait()
		if didFree {
			freed++
		}
		if werr == nil {
			x.acked = append(x.acked, 2)
		}
		ids, err := readSeries(sh, meas, 0)
		if err != nil {
			rerr = err.Error()
		}
		seen := map[int]bool{}
		for _, id := range ids {
			x.visible = append(x.visible, int(id&0xfffff))
			seen[int(id&0xfffff)] = true
		}
		lost := false
		for _, a := range x.acked {
			lost = lost || !seen[a]
		}
		total++
		if lost {
			lossy++
		}
		if (lost && lossy <= 20) || it%every == 0 || it == d.Ops-1 {
			kept = append(kept, x)
		}
		st.DeleteShard(shID)
	}
	var items []string
	for _, x := range kept {
		items = append(items, fmt.Sprintf("(%s, %s)", coqInts(x.acked), coqInts(x.visible)))
	}
	bad := "%BAD%"
	obs := map[string]interface{}{"rounds": total, "rounds_free_called": freed, "rounds_with_lost_write": lossy,
		"rounds_skipped": skipped, "rounds_in_case": len(kept)}
	if rerr != "" {
		bad = "true"
		obs["read_error"] = rerr
	}
	coq := fmt.Sprintf("CIdleFree %s %s", hx.CoqList(items), bad)
	return runResult{Coq: coq, Nontrivial: freed > 0, Sig: fmt.Sprintf("idlefree:%d:%d", d.Seed, d.Ops),
		Obs: obs, Counts: []string{"idlefree:rounds=" + bucket(total), "idlefree:free_called=" + bucket(freed), fmt.Sprintf("idlefree:lossy=%v", lossy > 0)}}
}
