package main

import (
	"fmt"

	"verifharness/hx"
)

var queryShapes = []string{
	"SELECT v FROM db.rp.m%d",
	"SELECT mean(v) FROM db.rp.m%d",
	"SELECT v, w FROM db.rp.m%d",
	"SELECT v FROM db.rp.m%d, db.rp.m1",
	"SELECT mean(v) FROM db.rp.m%d, db.rp.m2 GROUP BY host",
	"SELECT v FROM db.rp.m%d LIMIT 1",
	"SELECT v FROM db.rp.m%d, db.rp.m1 LIMIT 1 OFFSET 1",
	"SELECT mean(v), max(w) FROM db.rp.m%d, db.rp.m1, db.rp.m2",
	"SELECT v FROM db.rp./m.*/ WHERE host = 'h%d'",
	"SELECT mean(v) FROM (SELECT v FROM db.rp.m%d), (SELECT v FROM db.rp.m1)",
	"SELECT max(v), w FROM db.rp.m%d",
	"SELECT top(v, 2), host FROM db.rp.m%d",
	"SELECT derivative(mean(v)) FROM db.rp.m%d WHERE time >= 1000 AND time < 1020 GROUP BY time(5ns)",
	"SELECT v + w FROM db.rp.m%d",
	"SELECT count(v) FROM db.rp.m%d WHERE time >= 1000 AND time < 1020 GROUP BY time(4ns), host fill(0)",
	"SELECT distinct(w) FROM db.rp.m%d",
	"SELECT first(v), last(w) FROM db.rp.m%d GROUP BY host",
	"SELECT v FROM db.rp.m%d WHERE v > 5 SLIMIT 1",
	"SELECT nosuchfield FROM db.rp.m%d",
	"SELECT v FROM db.rp.nosuchmeasurement%d",
	"SELECT percentile(v, 90) FROM db.rp.m%d, db.rp.m0",
	"SELECT v FROM db.rp.m%d ORDER BY time DESC LIMIT 3",
}

func genSchedule(r *hx.Rand, n int) []string {
	// random interleaving with V_i before R_i
	var sched []string
	vDone := make([]bool, n)
	rDone := make([]bool, n)
	for len(sched) < 2*n {
		i := r.Intn(n)
		switch {
		case !vDone[i]:
			vDone[i] = true
			sched = append(sched, fmt.Sprintf("V%d", i))
		case !rDone[i] && r.Chance(60):
			rDone[i] = true
			sched = append(sched, fmt.Sprintf("R%d", i))
		}
	}
	return sched
}

func genWriters(r *hx.Rand, n int, distinctSeries bool) []fieldWriter {
	ws := make([]fieldWriter, n)
	nf := 1 + r.Intn(2)
	for i := range ws {
		s := r.Intn(3)
		if distinctSeries {
			s = i
		}
		t := 1 + r.Intn(4)
		if r.Chance(30) {
			t = 1 + r.Intn(2)
		}
		ws[i] = fieldWriter{Series: s, Field: r.Intn(nf), Type: t}
	}
	return ws
}

// generate: designed runs first, then a seeded mix of all drivers.
func generate(r *hx.Rand, n int, tier string) []runDesc {
	var ds []runDesc
	// --- designed ---
	// the refutation witness of the pinned field-creation code, replayed on the real code:
	// B validates (field absent), A creates the field as integer and writes, then B proceeds
	ds = append(ds, runDesc{Kind: "fieldsched", Seed: 1,
		Writers:  []fieldWriter{{Series: 2, Field: 7, Type: 1}, {Series: 1, Field: 7, Type: 2}},
		Schedule: []string{"V0", "V1", "R1", "R0"}})
	ds = append(ds, runDesc{Kind: "fieldsched", Seed: 2,
		Writers:  []fieldWriter{{Series: 1, Field: 1, Type: 1}, {Series: 1, Field: 1, Type: 2}, {Series: 2, Field: 1, Type: 1}},
		Schedule: []string{"V0", "V1", "V2", "R2", "R1", "R0"}})
	// witness of Props.pool_double_close_refuted (outside the callers' discipline)
	ds = append(ds, runDesc{Kind: "pool", Seed: 3, Cap: 2, DoubleClose: true})
	ds = append(ds, runDesc{Kind: "pool", Seed: 4, Cap: 1, Workers: 3, Ops: 20, UnusablePct: 30, WaitMs: 20})

	quota := func(pct int) int {
		k := n * pct / 100
		if k < 1 {
			k = 1
		}
		return k
	}
	scale := 1
	if tier == "thorough" {
		scale = 4
	}
	for i := 0; i < quota(28); i++ {
		d := runDesc{Kind: "pool", Seed: r.U64() % 1000000, Cap: 1 + r.Intn(6), Workers: 2 + r.Intn(7), Ops: (20 + r.Intn(60)) * scale,
			UnusablePct: []int{0, 10, 30, 60}[r.Intn(4)], DialFailPct: []int{0, 0, 5, 20}[r.Intn(4)], PoolClose: []int{0, 0, 1, 2, 3}[r.Intn(5)]}
		if r.Chance(50) {
			d.IdleMs = 1 + r.Intn(3)
		}
		if d.Workers*2 > d.Cap {
			d.WaitMs = 2 + r.Intn(20) // starved pool: Gets wait for a connection or time out
		}
		ds = append(ds, d)
	}
	for i := 0; i < quota(22); i++ {
		nw := 2 + r.Intn(3)
		ds = append(ds, runDesc{Kind: "fieldsched", Seed: r.U64() % 1000000, Writers: genWriters(r, nw, false), Schedule: genSchedule(r, nw)})
	}
	for i := 0; i < quota(22); i++ {
		ds = append(ds, runDesc{Kind: "fieldfree", Seed: r.U64() % 1000000, Writers: genWriters(r, 4+r.Intn(6), true)})
	}
	for i := 0; i < quota(5); i++ {
		ds = append(ds, runDesc{Kind: "shard", Seed: r.U64() % 1000000, Workers: 2 + r.Intn(2), Ops: (20 + r.Intn(30)) * (1 + scale/2), Readers: 2 + r.Intn(2)})
	}
	for i := 0; i < quota(4); i++ {
		nq := (6 + r.Intn(10)) * scale
		qs := make([]string, nq)
		for k := range qs {
			qs[k] = fmt.Sprintf(queryShapes[r.Intn(len(queryShapes))], r.Intn(3))
		}
		ds = append(ds, runDesc{Kind: "cluster", Seed: r.U64() % 1000000, Cap: 32, Workers: 2 + r.Intn(3), Queries: qs})
	}
	for i := 0; i < quota(3); i++ {
		ds = append(ds, runDesc{Kind: "meta", Seed: r.U64() % 1000000, Ops: (4 + r.Intn(6)) * scale, Readers: 2 + r.Intn(2)})
	}
	for i := 0; i < quota(1); i++ {
		ds = append(ds, runDesc{Kind: "auth", Seed: r.U64() % 1000000, Ops: 2 * scale, Workers: 2 + r.Intn(2)})
	}
	for i := 0; i < quota(2); i++ {
		ds = append(ds, runDesc{Kind: "metawait", Seed: r.U64() % 1000000, Ops: 600 * scale, Workers: 2 + r.Intn(3)})
	}
	for i := 0; i < quota(8); i++ {
		ds = append(ds, runDesc{Kind: "cachekey", Seed: r.U64() % 1000000, Ops: (15 + r.Intn(25)) * scale, Workers: 2 + r.Intn(5)})
	}
	for i := 0; i < quota(3); i++ {
		ds = append(ds, runDesc{Kind: "bulk", Seed: r.U64() % 1000000, Workers: 4 + r.Intn(3), Ops: (8 + r.Intn(6)) * (1 + scale/2)})
	}
	for i := 0; i < quota(4); i++ {
		ds = append(ds, runDesc{Kind: "hh", Seed: r.U64() % 1000000, Workers: 2 + r.Intn(3), Ops: (20 + r.Intn(40)) * scale, PoolClose: r.Intn(2)})
	}
	// last, so that the descriptions above are the ones earlier runs of the same seed had
	for i := 0; i < quota(2); i++ {
		ds = append(ds, runDesc{Kind: "cacheinit", Seed: r.U64() % 1000000, Workers: 2 + r.Intn(5), Ops: 10000 * scale})
	}
	for i := 0; i < quota(2); i++ {
		ds = append(ds, runDesc{Kind: "idlefree", Seed: r.U64() % 1000000, Ops: 120 * scale})
	}
	return ds
}
