package main

// (i-c) the lazy allocation of the tsm1 cache store: goroutines released together make the
// FIRST writes to a new (even iterations) or freed (odd iterations) tsm1.Cache; every
// write that returned nil must be in what Cache.Values returns afterwards.  This is the
// real tsm1.Cache driven directly, at the place where a shard's first writes meet
// (cachekey drives the same code through tsdb.Store, one first write per shard).

import (
	"fmt"
	"sort"
	"strings"
	"sync"

	"github.com/influxdata/influxdb/tsdb/engine/tsm1"
	"verifharness/hx"
)

func runCacheInit(d runDesc) runResult {
	k := d.Workers
	if k < 2 {
		k = 2
	}
	key := []byte("cpu,host=h0#!~#v")
	type iter struct {
		acked, visible []int
	}
	var kept []iter
	lossy, total, ackedN := 0, 0, 0
	var c *tsm1.Cache
	every := d.Ops / 8
	if every < 1 {
		every = 1
	}
	for it := 0; it < d.Ops; it++ {
		if c == nil || it%2 == 0 {
			c = tsm1.NewCache(0)
		} else {
			c.Free() // quiescent: the values of the previous iteration have been read
		}
		release := make(chan struct{})
		errs := make([]error, k)
		var wg sync.WaitGroup
		for w := 0; w < k; w++ {
			wg.Add(1)
			go func(w int) {
				defer wg.Done()
				v := tsm1.NewFloatValue(int64(w+1), float64(w+1))
				<-release
				// the engine's path (Cache.Write has no caller outside the tests)
				errs[w] = c.WriteMulti(map[string][]tsm1.Value{string(key): {v}})
			}(w)
		}
		close(release)
		wg.Wait()
		var x iter
		for w, e := range errs {
			if e == nil {
				x.acked = append(x.acked, w+1)
			}
		}
		for _, v := range c.Values(key) {
			x.visible = append(x.visible, int(v.UnixNano()))
		}
		sort.Ints(x.visible)
		seen := map[int]bool{}
		for _, v := range x.visible {
			seen[v] = true
		}
		lost := false
		for _, a := range x.acked {
			lost = lost || !seen[a]
		}
		total++
		ackedN += len(x.acked)
		if lost {
			lossy++
		}
		if (lost && lossy <= 20) || it%every == 0 || it == d.Ops-1 {
			kept = append(kept, x)
		}
	}
	var items []string
	for _, x := range kept {
		items = append(items, fmt.Sprintf("(%s, %s)", coqInts(x.acked), coqInts(x.visible)))
	}
	coq := fmt.Sprintf("CCacheInit %s %%BAD%%", hx.CoqList(items))
	return runResult{Coq: coq, Nontrivial: ackedN > total, Sig: fmt.Sprintf("cacheinit:%d:%d:%d", d.Seed, d.Ops, k),
		Obs: map[string]interface{}{"first_write_rounds": total, "writers_per_round": k, "writes_acked": ackedN,
			"rounds_with_lost_write": lossy, "rounds_in_case": len(kept)},
		Counts: []string{"cacheinit:rounds=" + bucket(total), fmt.Sprintf("cacheinit:writers=%d", k), fmt.Sprintf("cacheinit:lossy=%v", lossy > 0)}}
}

func coqInts(xs []int) string {
	s := make([]string, len(xs))
	for i, x := range xs {
		s[i] = fmt.Sprint(x)
	}
	return "[" + strings.Join(s, ";") + "]"
}
