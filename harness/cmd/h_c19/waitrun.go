package main

// (iv-b) a real meta.Client against a minimal snapshot server: every metadata update whose
// index has been published to the client must return (no lost wake-up in waitForIndex).

import (
	"encoding/binary"
	"fmt"
	"io"
	"net/http"
	"net/http/httptest"
	"strconv"
	"strings"
	"sync"
	"time"

	"github.com/influxdata/influxdb/services/meta"
	"verifharness/hx"
)

// fakeMeta: POST /execute applies any command by advancing the index; GET /?index=N is
// the snapshot long poll.  The answer to /execute and the release of the long poll
// happen within a few dozen microseconds of each other, in either order (as with the
// real meta service, where one raft apply triggers both).
type fakeMeta struct {
	mu      sync.Mutex
	index   uint64
	changed chan struct{}
	r       *hx.Rand
	addr    string
	jitter  int
}

func (f *fakeMeta) publish(index uint64) {
	f.mu.Lock()
	if index > f.index {
		f.index = index
	}
	close(f.changed)
	f.changed = make(chan struct{})
	f.mu.Unlock()
}

func spin(d time.Duration) {
	for t := time.Now(); time.Since(t) < d; {
	}
}

// internal.Response{OK: true, Index: index} in protobuf wire format
func responseBytes(index uint64) []byte {
	b := []byte{0x08, 0x01, 0x18}
	var v [binary.MaxVarintLen64]byte
	n := binary.PutUvarint(v[:], index)
	return append(b, v[:n]...)
}

func (f *fakeMeta) ServeHTTP(w http.ResponseWriter, r *http.Request) {
	if r.Method == "POST" && strings.HasSuffix(r.URL.Path, "/execute") {
		io.Copy(io.Discard, r.Body)
		f.mu.Lock()
		f.index++
		index := f.index
		d := time.Duration(f.r.Intn(2*f.jitter)-f.jitter) * time.Microsecond
		f.mu.Unlock()
		b := responseBytes(index)
		w.Header().Set("Content-Length", strconv.Itoa(len(b)))
		if d < 0 {
			f.publish(index)
			spin(-d)
			w.Write(b)
			return
		}
		w.Write(b)
		w.(http.Flusher).Flush()
		spin(d)
		f.publish(index)
		return
	}
	after, _ := strconv.ParseUint(r.URL.Query().Get("index"), 10, 64)
	for {
		f.mu.Lock()
		index, ch := f.index, f.changed
		f.mu.Unlock()
		if index > after {
			b, _ := (&meta.Data{Index: index, ClusterID: 1,
				MetaNodes: []meta.NodeInfo{{ID: 1, Addr: f.addr, TCPAddr: "127.0.0.1:8089"}}, MaxNodeID: 1}).MarshalBinary()
			w.Write(b)
			return
		}
		select {
		case <-ch:
		case <-r.Context().Done():
			return
		}
	}
}

func runMetaWait(env *childEnv, d runDesc, run int) runResult {
	r := hx.NewRand(d.Seed)
	f := &fakeMeta{index: 1, changed: make(chan struct{}), r: r.Split(), jitter: 60}
	srv := httptest.NewServer(f)
	defer func() {
		// the client's poller may open one more long poll while it is being closed:
		// keep cutting connections until the server has shut down
		done := make(chan struct{})
		go func() { srv.Close(); close(done) }()
		for {
			srv.CloseClientConnections()
			select {
			case <-done:
				return
			case <-time.After(5 * time.Millisecond):
			}
		}
	}()
	f.addr = strings.TrimPrefix(srv.URL, "http://")
	cfg := meta.NewConfig()
	cfg.Dir = fmt.Sprintf("%s/mw_%d_%d", env.dir, d.Seed, run)
	c := meta.NewClient(cfg)
	c.SetMetaServers([]string{f.addr})
	if err := c.Open(); err != nil {
		panic(err)
	}
	defer c.Close()
	deadline := 6 * time.Second
	type callRes struct {
		lo, after uint64
		ret       bool
	}
	var calls []callRes
	hung := false
	one := func() callRes {
		f.mu.Lock()
		lo := f.index + 1
		f.mu.Unlock()
		done := make(chan error, 1)
		go func() { done <- c.PruneShardGroups() }()
		select {
		case err := <-done:
			if err != nil {
				panic(err)
			}
			return callRes{lo, c.Data().Index, true}
		case <-time.After(deadline):
			return callRes{lo, c.Data().Index, false}
		}
	}
	burst := d.Workers
	for i := 0; i < d.Ops && !hung; {
		if burst > 1 && r.Chance(15) {
			// a burst of concurrent updates, then quiet: the last one has nothing after it to rescue it
			var wg sync.WaitGroup
			res := make([]callRes, burst)
			for k := 0; k < burst; k++ {
				wg.Add(1)
				go func(k int) { defer wg.Done(); res[k] = one() }(k)
			}
			wg.Wait()
			for _, x := range res {
				calls = append(calls, x)
				hung = hung || !x.ret
			}
			i += burst
			continue
		}
		x := one()
		calls = append(calls, x)
		hung = hung || !x.ret
		i++
	}
	// the Coq case carries every call that did not return and a sample of those that did
	var items []string
	for k, x := range calls {
		if !x.ret || k%25 == 0 || k == len(calls)-1 {
			items = append(items, fmt.Sprintf("(%d, %d, %d, %s)", k, x.lo, x.after, hx.CoqBool(x.ret)))
		}
	}
	coq := fmt.Sprintf("CWait %s %%BAD%%", hx.CoqList(items))
	return runResult{Coq: coq, Nontrivial: len(calls) > 10, Sig: fmt.Sprintf("metawait:%d:%d", d.Seed, len(calls)),
		Obs:    map[string]interface{}{"updates": len(calls), "hung": hung, "timeout": hung, "client_index": c.Data().Index},
		Counts: []string{"metawait:updates=" + bucket(len(calls)), fmt.Sprintf("metawait:hung=%v", hung)}}
}
