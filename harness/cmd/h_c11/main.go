// h_c11: correspondence harness for C11 (query results depend only on data + statement).
// Every generated (data set, SELECT statement) is executed by the REAL query.Executor +
// coordinator.StatementExecutor + coordinator.ClusterShardMapper over REAL tsdb.Store shards
// under several physical layouts (shard-group duration, shards per group, cache / snapshot /
// full compaction, inmem / tsi1 index).  The canonicalised models.Rows of every layout are
// emitted; Coq (C11/Run.v) evaluates the reference Spec.eval on the same data + statement and
// compares it with every layout.
package main

import (
	"encoding/json"
	"fmt"
	"math"
	"math/big"
	"os"
	"sort"
	"strings"
	"time"

	"github.com/influxdata/influxdb/coordinator"
	"github.com/influxdata/influxdb/models"
	"github.com/influxdata/influxdb/query"
	"github.com/influxdata/influxdb/services/meta"
	"github.com/influxdata/influxdb/tsdb"
	_ "github.com/influxdata/influxdb/tsdb/engine"
	"github.com/influxdata/influxdb/tsdb/engine/tsm1"
	_ "github.com/influxdata/influxdb/tsdb/index"
	"github.com/influxdata/influxql"
	"verifharness/hx"
)

// ---------------------------------------------------------------- vocabulary

var hostPool = []string{"", "a", "b", "c", // index 0 = tag absent; order of the pool = byte order
	// used by designed data only (many series in one tag set of one shard: more than GOMAXPROCS)
	"d", "e", "f", "g", "h", "i", "j", "k", "l", "m", "n", "o", "p", "q", "r", "s", "t", "u", "v"}

// the generator draws hosts from the first genHosts entries
const genHosts = 4

var regionPool = []string{"", "x", "y"}
var strPool = []string{"", "a", "a b", "b", "zz"} // string field values, in byte order

const (
	ftFloat = 0
	ftInt   = 1
	ftStr   = 2
	ftBool  = 3
)

const (
	fnRaw = iota
	fnCount
	fnSum
	fnMean
	fnMin
	fnMax
	fnFirst
	fnLast
	fnSpread
	fnMedian
	fnDistinct      // distinct(f)
	fnMode          // mode(f)
	fnPercentile    // percentile(f, Pct2/2)
	fnCountDistinct // count(distinct(f))
)

// column name of the result
var fnNames = []string{"f", "count", "sum", "mean", "min", "max", "first", "last", "spread", "median",
	"distinct", "mode", "percentile", "count"}

// label of the function in the distribution counters
var fnLabels = []string{"f", "count", "sum", "mean", "min", "max", "first", "last", "spread", "median",
	"distinct", "mode", "percentile", "count_distinct"}

const (
	fillNull = iota // default
	fillNone
	fillNum
	fillPrev
	fillLinear
)

// Pt is one written point: series index, time (ns), value code of field f
// (float/int: the integer; string: index in strPool; bool: 0/1), optional field g.
type Pt struct {
	S int    `json:"s"`
	T int64  `json:"t"`
	V int64  `json:"v"`
	G *int64 `json:"g,omitempty"`
}

type Data struct {
	FT      int      `json:"ft"`
	Series  [][2]int `json:"series"`  // (host index, region index)
	Batches [][]Pt   `json:"batches"` // written in this order; later writes overwrite
}

type Stmt struct {
	Fn       int   `json:"fn"`
	TMin     int64 `json:"tmin"`
	TMax     int64 `json:"tmax"`
	PredTag  int   `json:"pred_tag"` // -1 none, 0 host, 1 region
	PredNeg  bool  `json:"pred_neg"`
	PredVal  int   `json:"pred_val"`
	Interval int64 `json:"interval"` // 0 = no GROUP BY time
	OffLit   int64 `json:"off_lit"`  // literal second argument of time()
	ByHost   bool  `json:"by_host"`
	ByRegion bool  `json:"by_region"`
	Fill     int   `json:"fill"`
	FillVal  int64 `json:"fill_val"`
	FillExpl bool  `json:"fill_explicit"` // write fill(null) explicitly
	Desc     bool  `json:"desc"`
	Limit    int   `json:"limit"`
	Off      int   `json:"offset"`
	SLimit   int   `json:"slimit"`
	SOff     int   `json:"soffset"`
	Pct2     int   `json:"pct2,omitempty"` // percentile: twice the second argument (N or N.5)
}

type Layout struct {
	SGDur   int64  `json:"sg_dur"`  // shard group duration (ns); 0 = one group for everything
	NShards int    `json:"nshards"` // shards per group, series spread by hash
	Index   string `json:"index"`   // inmem | tsi1
	Snap    []bool `json:"snap"`    // snapshot the cache after batch i
	Final   int    `json:"final"`   // 0 leave, 1 snapshot, 2 snapshot + full compaction
	// Inflight k > 0: after batch k (1-based) a cache snapshot is BEGUN on every shard written so
	// far and stays in flight while the later batches are written and while the queries run
	// (reads then combine files, the snapshot being flushed and the live cache)
	Inflight int `json:"inflight,omitempty"`
}

type CaseDesc struct {
	Data    Data     `json:"data"`
	Stmt    Stmt     `json:"stmt"`
	Layouts []Layout `json:"layouts"`
	Query   string   `json:"query,omitempty"` // informative; rebuilt from Stmt on replay
}

// ---------------------------------------------------------------- statement text

func (s Stmt) text() string {
	var sb strings.Builder
	sb.WriteString("SELECT ")
	switch s.Fn {
	case fnRaw:
		sb.WriteString(`"f"`)
	case fnPercentile:
		if s.Pct2%2 == 0 {
			fmt.Fprintf(&sb, `percentile("f", %d)`, s.Pct2/2)
		} else {
			fmt.Fprintf(&sb, `percentile("f", %d.5)`, s.Pct2/2)
		}
	case fnCountDistinct:
		sb.WriteString(`count(distinct("f"))`)
	default:
		fmt.Fprintf(&sb, `%s("f")`, fnNames[s.Fn])
	}
	fmt.Fprintf(&sb, ` FROM "m" WHERE time >= %d AND time <= %d`, s.TMin, s.TMax)
	if s.PredTag >= 0 {
		key, pool := "host", hostPool
		if s.PredTag == 1 {
			key, pool = "region", regionPool
		}
		op := "="
		if s.PredNeg {
			op = "!="
		}
		fmt.Fprintf(&sb, ` AND "%s" %s '%s'`, key, op, pool[s.PredVal])
	}
	var dims []string
	if s.Interval > 0 {
		if s.OffLit != 0 {
			dims = append(dims, fmt.Sprintf("time(%dns, %dns)", s.Interval, s.OffLit))
		} else {
			dims = append(dims, fmt.Sprintf("time(%dns)", s.Interval))
		}
	}
	if s.ByHost {
		dims = append(dims, `"host"`)
	}
	if s.ByRegion {
		dims = append(dims, `"region"`)
	}
	if len(dims) > 0 {
		sb.WriteString(" GROUP BY " + strings.Join(dims, ", "))
	}
	switch s.Fill {
	case fillNull:
		if s.FillExpl {
			sb.WriteString(" fill(null)")
		}
	case fillNone:
		sb.WriteString(" fill(none)")
	case fillNum:
		fmt.Fprintf(&sb, " fill(%d)", s.FillVal)
	case fillPrev:
		sb.WriteString(" fill(previous)")
	case fillLinear:
		sb.WriteString(" fill(linear)")
	}
	if s.Desc {
		sb.WriteString(" ORDER BY time DESC")
	}
	if s.Limit > 0 {
		fmt.Fprintf(&sb, " LIMIT %d", s.Limit)
	}
	if s.Off > 0 {
		fmt.Fprintf(&sb, " OFFSET %d", s.Off)
	}
	if s.SLimit > 0 {
		fmt.Fprintf(&sb, " SLIMIT %d", s.SLimit)
	}
	if s.SOff > 0 {
		fmt.Fprintf(&sb, " SOFFSET %d", s.SOff)
	}
	return sb.String()
}

// ---------------------------------------------------------------- store / executor wiring

type metaStub struct {
	coordinator.MetaClient // nil: any method not overridden below panics (none is reached by SELECT)
	groups                 map[string][]meta.ShardGroupInfo
}

func (m *metaStub) NodeID() uint64 { return 1 }
func (m *metaStub) Database(name string) *meta.DatabaseInfo {
	if _, ok := m.groups[name]; !ok {
		return nil
	}
	return &meta.DatabaseInfo{Name: name, DefaultRetentionPolicy: "rp"}
}
func (m *metaStub) ShardGroupsByTimeRange(database, policy string, min, max time.Time) ([]meta.ShardGroupInfo, error) {
	var res []meta.ShardGroupInfo
	for _, g := range m.groups[database] {
		if g.Overlaps(min, max) { // same test as meta.Data.ShardGroupsByTimeRange
			res = append(res, g)
		}
	}
	return res, nil
}

type tsdbStub struct{ coordinator.TSDBStore }

type pendingSnap struct {
	eng *tsm1.Engine
	vs  *tsm1.VerifSnap
}

type env struct {
	pending []pendingSnap // snapshots in flight for the layout being queried
	stores  map[string]*tsdb.Store
	meta    *metaStub
	exec    *query.Executor
	nextID  uint64
	nextDB  int
}

func newEnv(dir string) *env {
	e := &env{stores: map[string]*tsdb.Store{}, meta: &metaStub{groups: map[string][]meta.ShardGroupInfo{}}, nextID: 1}
	for _, idx := range []string{"inmem", "tsi1"} {
		st := tsdb.NewStore(dir + "/" + idx + "/data")
		st.EngineOptions.Config.WALDir = dir + "/" + idx + "/wal"
		st.EngineOptions.Config.Dir = dir + "/" + idx + "/data"
		st.EngineOptions.IndexVersion = idx
		st.EngineOptions.CompactionDisabled = true // no background compactions: the layout decides
		if err := st.Open(); err != nil {
			panic(err)
		}
		e.stores[idx] = st
	}
	return e
}

func (e *env) close() {
	for _, st := range e.stores {
		st.Close()
	}
}

// storeRouter gives the shard mapper the shards of whichever store holds them.
type storeRouter struct{ e *env }

func (r storeRouter) ShardGroup(ids []uint64) tsdb.ShardGroup {
	for _, st := range r.e.stores {
		if len(ids) > 0 && st.Shard(ids[0]) != nil {
			return st.ShardGroup(ids)
		}
	}
	return r.e.stores["inmem"].ShardGroup(ids)
}

func (e *env) executor() *query.Executor {
	if e.exec != nil {
		return e.exec
	}
	ex := query.NewExecutor()
	ex.StatementExecutor = &coordinator.StatementExecutor{
		MetaClient: e.meta,
		TSDBStore:  tsdbStub{},
		ShardMapper: &coordinator.ClusterShardMapper{
			MetaClient: e.meta,
			TSDBStore:  storeRouter{e},
		},
	}
	e.exec = ex
	return ex
}

func floorDiv(a, b int64) int64 {
	q := a / b
	if (a%b != 0) && ((a < 0) != (b < 0)) {
		q--
	}
	return q
}

func fieldValue(ft int, v int64) interface{} {
	switch ft {
	case ftFloat:
		return float64(v)
	case ftInt:
		return v
	case ftStr:
		return strPool[v]
	default:
		return v != 0
	}
}

func seriesTags(s [2]int) models.Tags {
	m := map[string]string{}
	if s[0] > 0 {
		m["host"] = hostPool[s[0]]
	}
	if s[1] > 0 {
		m["region"] = regionPool[s[1]]
	}
	return models.NewTags(m)
}

func engineOf(st *tsdb.Store, id uint64) *tsm1.Engine {
	sh := st.Shard(id)
	if sh == nil {
		panic("no shard")
	}
	eng, err := sh.Engine()
	if err != nil {
		panic(err)
	}
	return eng.(*tsm1.Engine)
}

func snapshot(eng *tsm1.Engine) {
	// tsdb.Store.monitorShards (10 s ticker) may have freed an idle shard, which disables
	// its compactor; snapshots and compactions are driven by the layout here.
	eng.Compactor.EnableSnapshots()
	if err := eng.WriteSnapshot(); err != nil {
		panic(err)
	}
}

var compactSkipped int

func fullCompact(eng *tsm1.Engine) {
	snapshot(eng)
	var paths []string
	for _, f := range eng.FileStore.Files() {
		paths = append(paths, f.Path())
	}
	if len(paths) == 0 {
		return
	}
	sort.Strings(paths)
	eng.Compactor.EnableCompactions()
	newFiles, err := eng.Compactor.CompactFull(paths)
	if err != nil {
		compactSkipped++ // a background compaction holds the files: leave them
		return
	}
	if err := eng.FileStore.ReplaceWithCallback(paths, newFiles, nil); err != nil {
		panic(err)
	}
}

// build materialises the data under the layout in a fresh database; returns its name and,
// for every write in order, the index of the shard that received it.
func (e *env) build(d Data, l Layout) (string, []int) {
	st := e.stores[l.Index]
	db := fmt.Sprintf("db%d", e.nextDB)
	e.nextDB++
	type key struct {
		grp int64
		sh  int
	}
	shardID := map[key]uint64{}
	var groups []meta.ShardGroupInfo
	grpIdx := map[int64]int{}
	n := l.NShards
	if n < 1 {
		n = 1
	}
	shardFor := func(p models.Point, t int64) uint64 {
		g := int64(0)
		if l.SGDur > 0 {
			g = floorDiv(t, l.SGDur)
		}
		gi, ok := grpIdx[g]
		if !ok {
			sg := meta.ShardGroupInfo{ID: e.nextID}
			e.nextID++
			if l.SGDur > 0 {
				sg.StartTime = time.Unix(0, g*l.SGDur).UTC()
				sg.EndTime = time.Unix(0, (g+1)*l.SGDur).UTC()
			} else {
				sg.StartTime = time.Unix(0, -1<<40).UTC()
				sg.EndTime = time.Unix(0, 1<<40).UTC()
			}
			for i := 0; i < n; i++ {
				id := e.nextID
				e.nextID++
				sg.Shards = append(sg.Shards, meta.ShardInfo{ID: id, Owners: []meta.ShardOwner{{NodeID: 1}}})
				shardID[key{g, i}] = id
				if err := st.CreateShard(db, "rp", id, true); err != nil {
					panic(err)
				}
			}
			groups = append(groups, sg)
			gi = len(groups) - 1
			grpIdx[g] = gi
		}
		_ = gi
		return shardID[key{g, int(p.HashID() % uint64(n))}] // as meta.ShardGroupInfo.ShardFor
	}
	touched := map[uint64]bool{}
	inflight := map[uint64]bool{}
	dense := map[uint64]int{}
	var assign []int
	for bi, batch := range d.Batches {
		per := map[uint64][]models.Point{}
		var order []uint64
		for _, w := range batch {
			fields := models.Fields{"f": fieldValue(d.FT, w.V)}
			if w.G != nil {
				fields["g"] = *w.G
			}
			p, err := models.NewPoint("m", seriesTags(d.Series[w.S]), fields, time.Unix(0, w.T))
			if err != nil {
				panic(err)
			}
			id := shardFor(p, w.T)
			if _, ok := dense[id]; !ok {
				dense[id] = len(dense)
			}
			assign = append(assign, dense[id])
			if _, ok := per[id]; !ok {
				order = append(order, id)
			}
			per[id] = append(per[id], p)
		}
		for _, id := range order {
			if err := st.WriteToShard(id, per[id]); err != nil {
				panic(fmt.Sprintf("WriteToShard: %v", err))
			}
			touched[id] = true
		}
		if bi < len(l.Snap) && l.Snap[bi] {
			for _, id := range order {
				if !inflight[id] {
					snapshot(engineOf(st, id))
				}
			}
		}
		if l.Inflight == bi+1 {
			for id := range touched {
				eng := engineOf(st, id)
				eng.Compactor.EnableSnapshots()
				vs, err := eng.VerifSnapshotBegin()
				if err != nil {
					panic(fmt.Sprintf("VerifSnapshotBegin: %v", err))
				}
				inflight[id] = true
				e.pending = append(e.pending, pendingSnap{eng, vs})
			}
		}
	}
	ids := make([]uint64, 0, len(touched))
	for id := range touched {
		ids = append(ids, id)
	}
	sort.Slice(ids, func(i, j int) bool { return ids[i] < ids[j] })
	for _, id := range ids {
		if inflight[id] {
			continue // a second snapshot would wait for the one in flight
		}
		switch l.Final {
		case 1:
			snapshot(engineOf(st, id))
		case 2:
			fullCompact(engineOf(st, id))
		}
	}
	sort.Slice(groups, func(i, j int) bool { return groups[i].StartTime.Before(groups[j].StartTime) })
	e.meta.groups[db] = groups
	return db, assign
}

func (e *env) drop(db string, l Layout) {
	for _, p := range e.pending {
		if err := p.eng.VerifSnapshotCommit(p.vs); err != nil {
			panic(fmt.Sprintf("VerifSnapshotCommit: %v", err))
		}
	}
	e.pending = nil
	delete(e.meta.groups, db)
	e.stores[l.Index].DeleteDatabase(db)
}

// ---------------------------------------------------------------- running + canonicalising

// RVal: canonical result value. K: 0 null, 1 int, 2 float (exact rational Num/Den), 3 string
// (index in strPool, -1 unknown), 4 bool, 5 anything else.
type RVal struct {
	K   int    `json:"k"`
	Num string `json:"num,omitempty"` // decimal big integer as string (float numerator can exceed int64)
	Den string `json:"den,omitempty"`
	I   int64  `json:"i,omitempty"`
}

type Row struct {
	Tags []int    `json:"tags"` // values of the GROUP BY tags in key order, as pool indices
	T    []int64  `json:"t"`
	V    []RVal   `json:"v"`
	Raw  []string `json:"-"`
}

type Result struct {
	Err    string `json:"err,omitempty"`
	ColsOK bool   `json:"cols_ok"`
	Rows   []Row  `json:"rows"`
}

func floatExact(f float64) (string, string, bool) {
	if math.IsNaN(f) || math.IsInf(f, 0) {
		return "0", "0", false
	}
	r := new(big.Rat)
	if r.SetFloat64(f) == nil {
		return "0", "0", false
	}
	return r.Num().String(), r.Denom().String(), true
}

func idxOf(pool []string, s string) int {
	for i, x := range pool {
		if x == s {
			return i
		}
	}
	return -1
}

func (e *env) run(db string, s Stmt) (res Result) {
	defer func() {
		if r := recover(); r != nil {
			res = Result{Err: fmt.Sprintf("panic: %v", r)}
		}
	}()
	q, err := influxql.ParseQuery(s.text())
	if err != nil {
		return Result{Err: "parse: " + err.Error()}
	}
	ch := e.executor().ExecuteQuery(q, query.ExecutionOptions{Database: db}, make(chan struct{}))
	res.ColsOK = true
	wantCol := fnNames[s.Fn]
	for r := range ch {
		if r.Err != nil {
			res.Err = r.Err.Error()
			continue
		}
		for _, row := range r.Series {
			if row.Name != "m" || len(row.Columns) != 2 || row.Columns[0] != "time" || row.Columns[1] != wantCol {
				res.ColsOK = false
			}
			var cr Row
			// tags: exactly the GROUP BY keys
			keys := []string{}
			if s.ByHost {
				keys = append(keys, "host")
			}
			if s.ByRegion {
				keys = append(keys, "region")
			}
			if len(row.Tags) != len(keys) {
				res.ColsOK = false
			}
			cr.Tags = []int{}
			for _, k := range keys {
				v, ok := row.Tags[k]
				if !ok {
					res.ColsOK = false
				}
				pool := hostPool
				if k == "region" {
					pool = regionPool
				}
				ix := idxOf(pool, v)
				if ix < 0 {
					res.ColsOK = false
					ix = 99
				}
				cr.Tags = append(cr.Tags, ix)
			}
			for _, vals := range row.Values {
				if len(vals) != 2 {
					res.ColsOK = false
					continue
				}
				tm, ok := vals[0].(time.Time)
				if !ok {
					res.ColsOK = false
					continue
				}
				cr.T = append(cr.T, tm.UnixNano())
				var rv RVal
				switch v := vals[1].(type) {
				case nil:
					rv = RVal{K: 0}
				case int64:
					rv = RVal{K: 1, I: v}
				case float64:
					n, d, ok := floatExact(v)
					if ok {
						rv = RVal{K: 2, Num: n, Den: d}
					} else {
						rv = RVal{K: 5}
					}
				case string:
					rv = RVal{K: 3, I: int64(idxOf(strPool, v))}
				case bool:
					rv = RVal{K: 4}
					if v {
						rv.I = 1
					}
				default:
					rv = RVal{K: 5}
				}
				cr.V = append(cr.V, rv)
			}
			res.Rows = append(res.Rows, cr)
		}
	}
	return res
}

// ---------------------------------------------------------------- Coq printing

func coqN(n int) string { return fmt.Sprintf("%d", n) }

func coqBigZ(s string) string {
	if strings.HasPrefix(s, "-") {
		return "(" + s + ")%Z"
	}
	return s + "%Z"
}

func coqRVal(v RVal) string {
	switch v.K {
	case 0:
		return "RNull"
	case 1:
		return "RInt " + hx.CoqZ(v.I)
	case 2:
		return "RFlt " + coqBigZ(v.Num) + " " + coqBigZ(v.Den)
	case 3:
		return "RStr " + hx.CoqZ(v.I)
	case 4:
		return "RBool " + hx.CoqBool(v.I != 0)
	}
	return "ROther"
}

func coqResult(r Result) string {
	if r.Err != "" {
		return "LErr"
	}
	rows := make([]string, 0, len(r.Rows))
	for _, row := range r.Rows {
		tags := make([]string, len(row.Tags))
		for i, t := range row.Tags {
			tags[i] = coqN(t)
		}
		vals := make([]string, len(row.T))
		for i := range row.T {
			vals[i] = "(" + hx.CoqZ(row.T[i]) + ", " + coqRVal(row.V[i]) + ")"
		}
		rows = append(rows, "("+hx.CoqList(tags)+", "+hx.CoqList(vals)+")")
	}
	return "LOk " + hx.CoqBool(r.ColsOK) + " " + hx.CoqList(rows)
}

// logical data handed to Coq: the write history in order (the Spec applies last-write-wins)
func coqData(d Data) string {
	var ws []string
	for _, b := range d.Batches {
		for _, w := range b {
			s := d.Series[w.S]
			ws = append(ws, fmt.Sprintf("mkW [%d;%d] %s %s", s[0], s[1], hx.CoqZ(w.T), hx.CoqZ(w.V)))
		}
	}
	return hx.CoqList(ws)
}

func coqStmt(s Stmt) string {
	pred := "None"
	if s.PredTag >= 0 {
		pred = fmt.Sprintf("(Some (%d%%nat, %s, %d))", s.PredTag, hx.CoqBool(s.PredNeg), s.PredVal)
	}
	fill := []string{"FillNull", "FillNone", "(FillNum " + hx.CoqZ(s.FillVal) + ")", "FillPrev", "FillLinear"}[s.Fill]
	fn := []string{"FRaw", "FCount", "FSum", "FMean", "FMin", "FMax", "FFirst", "FLast", "FSpread", "FMedian",
		"FDistinct", "FMode", "(FPercentile " + hx.CoqZ(int64(s.Pct2)) + ")", "FCountDistinct"}[s.Fn]
	return fmt.Sprintf("(mkStmt %s %s %s %s %s %s [%s;%s] %s %s %d %d %d %d)",
		fn, hx.CoqZ(s.TMin), hx.CoqZ(s.TMax), pred, hx.CoqZ(s.Interval), hx.CoqZ(s.OffLit),
		hx.CoqBool(s.ByHost), hx.CoqBool(s.ByRegion), fill, hx.CoqBool(s.Desc), s.Limit, s.Off, s.SLimit, s.SOff)
}

var ftCoq = []string{"TFloat", "TInt", "TStr", "TBool"}

// ---------------------------------------------------------------- one data set

func stmtSig(s Stmt) string { b, _ := json.Marshal(s); return string(b) }

func resultsEqual(a, b Result) bool {
	x, _ := json.Marshal(a)
	y, _ := json.Marshal(b)
	return string(x) == string(y)
}

func runDataSet(o *hx.Out, e *env, d Data, stmts []Stmt, layouts []Layout, origin string) {
	if len(stmts) == 0 {
		return
	}
	o.Begin("q", CaseDesc{Data: d, Stmt: stmts[0], Layouts: layouts})
	dbs := make([]string, len(layouts))
	assigns := make([]string, len(layouts))
	for i, l := range layouts {
		var as []int
		dbs[i], as = e.build(d, l)
		xs := make([]uint64, len(as))
		for j, a := range as {
			xs[j] = uint64(a)
		}
		assigns[i] = hx.CoqNList(xs)
	}
	npts := 0
	for _, b := range d.Batches {
		npts += len(b)
	}
	dataCoq := coqData(d)
	dsig, _ := json.Marshal(d)
	for _, s := range stmts {
		desc := CaseDesc{Data: d, Stmt: s, Layouts: layouts, Query: s.text()}
		o.Begin("q", desc)
		results := make([]Result, len(layouts))
		for i := range layouts {
			results[i] = e.run(dbs[i], s)
		}
		// identical results are printed once: (assignment, index of the result)
		var uniq []Result
		var uniqCoq []string
		rs := make([]string, len(results))
		nrows, nvals := 0, 0
		allEq := true
		for i, r := range results {
			k := -1
			for j := range uniq {
				if resultsEqual(uniq[j], r) {
					k = j
					break
				}
			}
			if k < 0 {
				uniq = append(uniq, r)
				uniqCoq = append(uniqCoq, coqResult(r))
				k = len(uniq) - 1
			}
			rs[i] = fmt.Sprintf("(%s, %d%%nat)", assigns[i], k)
			if k != 0 {
				allEq = false
			}
		}
		for _, row := range results[0].Rows {
			nrows++
			nvals += len(row.T)
		}
		coq := fmt.Sprintf("CQ %s %s %s %s %s", ftCoq[d.FT], dataCoq, coqStmt(s), hx.CoqList(rs), hx.CoqList(uniqCoq))
		o.Count("fn:" + fnLabels[s.Fn])
		o.Count(fmt.Sprintf("ft:%s", ftCoq[d.FT]))
		if s.Interval > 0 {
			o.Count(fmt.Sprintf("fill:%d", s.Fill))
			if s.OffLit != 0 {
				o.Count("interval:with_offset")
			} else {
				o.Count("interval:no_offset")
			}
		} else {
			o.Count("interval:none")
		}
		if s.Desc {
			o.Count("desc")
		}
		if s.Limit > 0 || s.Off > 0 {
			o.Count("limit/offset")
		}
		if s.SLimit > 0 || s.SOff > 0 {
			o.Count("slimit/soffset")
		}
		if s.PredTag >= 0 {
			o.Count("tag_predicate")
		}
		if s.ByHost || s.ByRegion {
			o.Count("group_by_tags")
		}
		if !allEq {
			o.Count("layouts_differ_bitwise")
		}
		if results[0].Err != "" {
			o.Count("error_result")
		}
		switch {
		case nvals == 0:
			o.Count("rows:empty")
		case nvals < 5:
			o.Count("rows:1-4")
		default:
			o.Count("rows:5+")
		}
		o.Count(fmt.Sprintf("series_rows:%d", min(nrows, 4)))
		o.Emit(hx.Case{Kind: "q", Coq: coq, Desc: desc,
			Obs:        map[string]interface{}{"results": results, "layouts_agree_bitwise": allEq},
			Nontrivial: nvals > 0 && npts > 0, Sig: string(dsig) + "|" + stmtSig(s), Origin: origin})
	}
	for i, l := range layouts {
		e.drop(dbs[i], l)
	}
}

func min(a, b int) int {
	if a < b {
		return a
	}
	return b
}

// ---------------------------------------------------------------- main

func main() {
	f := hx.ParseFlags()
	o := hx.NewOut(f.OutDir)
	defer o.Close()
	dir, err := os.MkdirTemp("", "h_c11")
	if err != nil {
		panic(err)
	}
	defer os.RemoveAll(dir)
	e := newEnv(dir)
	defer e.close()

	if f.In != "" {
		for _, in := range hx.ReadInputs(f.In) {
			var d CaseDesc
			if err := json.Unmarshal(in.Desc, &d); err != nil {
				panic(err)
			}
			if len(d.Layouts) == 0 {
				d.Layouts = defaultLayouts(len(d.Data.Batches))
			}
			runDataSet(o, e, d.Data, []Stmt{d.Stmt}, d.Layouts, "replay")
		}
		return
	}
	r := hx.NewRand(f.Seed)
	designed(o, e, f.Tier == "thorough")
	perData := 8
	nData := (f.N + perData - 1) / perData
	for i := 0; i < nData; i++ {
		rr := r.Split()
		d := genData(rr)
		nl := 6
		if f.Tier == "thorough" {
			nl = 8
		}
		layouts := genLayouts(rr, d, nl)
		var stmts []Stmt
		for k := 0; k < perData; k++ {
			stmts = append(stmts, genStmt(rr, d))
		}
		runDataSet(o, e, d, stmts, layouts, "gen")
	}
}
