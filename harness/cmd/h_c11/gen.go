package main

import (
	"runtime"
	"sort"

	"verifharness/hx"
)

// ---------------------------------------------------------------- layouts

func defaultLayouts(nb int) []Layout {
	all := func(b bool) []bool {
		s := make([]bool, nb)
		for i := range s {
			s[i] = b
		}
		return s
	}
	alt := make([]bool, nb)
	for i := range alt {
		alt[i] = i%2 == 0
	}
	return []Layout{
		{SGDur: 0, NShards: 1, Index: "inmem", Snap: all(false), Final: 0},                         // one shard, cache only
		{SGDur: 0, NShards: 1, Index: "tsi1", Snap: all(true), Final: 2},                           // one shard, one compacted file
		{SGDur: 10, NShards: 1, Index: "inmem", Snap: alt, Final: 1},                               // many shard groups, files
		{SGDur: 0, NShards: 3, Index: "tsi1", Snap: alt, Final: 0},                                 // series spread over 3 shards, files + cache
		{SGDur: 25, NShards: 2, Index: "inmem", Snap: all(true), Final: 0},                         // groups x shards, several files each
		{SGDur: 0, NShards: 1, Index: "inmem", Snap: all(false), Final: 0, Inflight: (nb + 1) / 2}, // a snapshot in flight under the later batches
	}
}

func genLayouts(r *hx.Rand, d Data, n int) []Layout {
	nb := len(d.Batches)
	ls := defaultLayouts(nb)
	durs := []int64{3, 10, 25, 50, 100, 1000}
	ls[2].SGDur = durs[r.Intn(4)]
	ls[4].SGDur = durs[1+r.Intn(5)]
	ls[4].NShards = 2 + r.Intn(2)
	for len(ls) < n {
		l := Layout{NShards: 1 + r.Intn(3), Index: []string{"inmem", "tsi1"}[r.Intn(2)], Final: r.Intn(3)}
		if r.Chance(70) {
			l.SGDur = durs[r.Intn(len(durs))]
		}
		l.Snap = make([]bool, nb)
		for i := range l.Snap {
			l.Snap[i] = r.Bool()
		}
		if nb > 1 && r.Chance(25) {
			l.Inflight = 1 + r.Intn(nb-1)
		}
		ls = append(ls, l)
	}
	// randomise the storage state of the fixed shapes a little
	for i := 2; i < len(ls) && i < 5; i++ {
		for j := range ls[i].Snap {
			ls[i].Snap[j] = r.Bool()
		}
		ls[i].Final = r.Intn(3)
	}
	return ls[:n]
}

// ---------------------------------------------------------------- data

func genValue(r *hx.Rand, ft int) int64 {
	switch ft {
	case ftFloat, ftInt:
		switch r.Intn(12) {
		case 0:
			return int64(r.Intn(3)) - 1
		case 1:
			v := int64(1)<<40 + int64(r.Intn(5))
			if r.Bool() {
				v = -v
			}
			return v
		default:
			return int64(r.Intn(21)) - 10
		}
	case ftStr:
		return int64(r.Intn(len(strPool)))
	default:
		return int64(r.Intn(2))
	}
}

// dupPool, when set, restricts the field values of a data set to a few values, so that
// windows hold many duplicates: equal frequencies (mode), equal values at different times in
// different shards (percentile, distinct) and values that occur once.
func genDupPool(r *hx.Rand, ft int) []int64 {
	n := 2 + r.Intn(3)
	pool := make([]int64, 0, n)
	for len(pool) < n {
		v := genValue(r, ft)
		if ft == ftFloat || ft == ftInt {
			v = int64(r.Intn(7)) - 3
		}
		pool = append(pool, v)
	}
	return pool
}

func genData(r *hx.Rand) Data {
	var d Data
	switch x := r.Intn(100); {
	case x < 35:
		d.FT = ftFloat
	case x < 70:
		d.FT = ftInt
	case x < 85:
		d.FT = ftStr
	default:
		d.FT = ftBool
	}
	ns := 1 + r.Intn(5)
	seen := map[[2]int]bool{}
	for len(d.Series) < ns {
		s := [2]int{r.Intn(genHosts), r.Intn(len(regionPool))}
		if r.Chance(60) && s[0] == 0 {
			s[0] = 1 + r.Intn(genHosts-1)
		}
		if !seen[s] {
			seen[s] = true
			d.Series = append(d.Series, s)
		}
	}
	noTies := r.Chance(50)
	var dupPool []int64
	total := 0
	switch x := r.Intn(100); {
	case x < 2:
		total = 0
	case x < 30:
		total = 1 + r.Intn(8)
	case x < 80:
		total = 8 + r.Intn(25)
	default:
		total = 30 + r.Intn(28)
	}
	if r.Chance(45) {
		dupPool = genDupPool(r, d.FT)
		if total >= 8 && r.Chance(50) {
			noTies = false // duplicates and cross-series timestamp ties together
		}
	}
	genVal := func() int64 {
		if dupPool != nil && !r.Chance(12) {
			return dupPool[r.Intn(len(dupPool))]
		}
		return genValue(r, d.FT)
	}
	lo := []int64{-60, -30, -5, 0, 0, 3, 100}[r.Intn(7)]
	span := []int64{20, 50, 100, 200}[r.Intn(4)]
	genTime := func() int64 {
		switch r.Intn(10) {
		case 0, 1, 2:
			return lo + int64(r.Intn(int(span/10)+1))*10
		case 3, 4:
			return lo + int64(r.Intn(int(span/5)+1))*5
		case 5:
			t := lo + int64(r.Intn(int(span/10)+1))*10
			if r.Bool() {
				return t - 1
			}
			return t + 1
		default:
			return lo + int64(r.Intn(int(span)+1))
		}
	}
	nb := 1 + r.Intn(3)
	d.Batches = make([][]Pt, nb)
	used := map[int64]int{} // time -> series that owns it (noTies)
	var all []Pt
	for i := 0; i < total; i++ {
		var p Pt
		if len(all) > 0 && r.Chance(15) {
			// overwrite an earlier point later
			q := all[r.Intn(len(all))]
			p = Pt{S: q.S, T: q.T, V: genVal()}
		} else {
			p = Pt{S: r.Intn(ns), V: genVal()}
			for try := 0; try < 12; try++ {
				p.T = genTime()
				if !noTies {
					break
				}
				if s, ok := used[p.T]; !ok || s == p.S {
					break
				}
				p.T = lo + span + 1 + int64(i) // fallback: surely fresh
			}
			if noTies {
				if s, ok := used[p.T]; ok && s != p.S {
					continue
				}
				used[p.T] = p.S
			}
		}
		if r.Chance(25) {
			g := int64(r.Intn(100))
			p.G = &g
		}
		all = append(all, p)
	}
	// distribute over batches keeping the generation order (later = overwrites)
	cuts := make([]int, 0, nb)
	for i := 0; i < nb-1; i++ {
		cuts = append(cuts, r.Intn(len(all)+1))
	}
	sort.Ints(cuts)
	prev := 0
	for i := 0; i < nb; i++ {
		end := len(all)
		if i < nb-1 {
			end = cuts[i]
		}
		d.Batches[i] = append([]Pt{}, all[prev:end]...)
		prev = end
	}
	return d
}

func dataRange(d Data) (int64, int64, bool) {
	first := true
	var lo, hi int64
	for _, b := range d.Batches {
		for _, p := range b {
			if first || p.T < lo {
				lo = p.T
			}
			if first || p.T > hi {
				hi = p.T
			}
			first = false
		}
	}
	if first {
		return 0, 100, false
	}
	return lo, hi, true
}

// ---------------------------------------------------------------- statements

func fnsFor(ft int) []int {
	switch ft {
	case ftFloat, ftInt:
		return []int{fnRaw, fnCount, fnSum, fnMean, fnMin, fnMax, fnFirst, fnLast, fnSpread, fnMedian,
			fnDistinct, fnMode, fnPercentile, fnCountDistinct}
	case ftStr:
		return []int{fnRaw, fnCount, fnFirst, fnLast, fnDistinct, fnMode, fnCountDistinct}
	default:
		return []int{fnRaw, fnCount, fnFirst, fnLast, fnMin, fnMax, fnDistinct, fnMode, fnCountDistinct}
	}
}

// twice the second argument of percentile(): boundaries of the nearest-rank index (0, 100,
// above 100, x.5) and the usual ones
var pct2s = []int{0, 1, 2, 20, 50, 66, 99, 100, 101, 120, 150, 180, 190, 198, 199, 200, 201, 240}

func genPct2(r *hx.Rand) int {
	if r.Chance(30) {
		return r.Intn(201)
	}
	return pct2s[r.Intn(len(pct2s))]
}

func fillsFor(ft, fn int) []int {
	if ft == ftFloat || ft == ftInt {
		return []int{fillNull, fillNone, fillNum, fillPrev, fillLinear}
	}
	if fn == fnCount || fn == fnCountDistinct {
		return []int{fillNull, fillNone, fillNum, fillPrev, fillLinear}
	}
	return []int{fillNull, fillNone, fillPrev}
}

var intervals = []int64{1, 2, 3, 5, 7, 10, 20, 25, 50, 100, 1000}

func genStmt(r *hx.Rand, d Data) Stmt {
	lo, hi, _ := dataRange(d)
	span := hi - lo + 1
	s := Stmt{PredTag: -1}
	fns := fnsFor(d.FT)
	if r.Chance(18) {
		s.Fn = fnRaw
	} else {
		s.Fn = fns[1+r.Intn(len(fns)-1)]
	}
	if s.Fn == fnPercentile {
		s.Pct2 = genPct2(r)
	}
	align := func(t int64) int64 { return floorDiv(t, 10) * 10 }
	switch r.Intn(8) {
	case 0:
		s.TMin = lo
	case 1:
		s.TMin = align(lo)
	case 2:
		s.TMin = align(lo) + int64(r.Intn(3)) - 1
	case 3:
		s.TMin = lo + int64(r.Intn(int(span/2)+1))
	case 4:
		s.TMin = lo + 1
	default:
		s.TMin = lo - int64(r.Intn(30))
	}
	switch r.Intn(8) {
	case 0:
		s.TMax = hi
	case 1:
		s.TMax = align(hi) + 9
	case 2:
		s.TMax = align(hi) + int64(r.Intn(3)) - 1
	case 3:
		s.TMax = hi - int64(r.Intn(int(span/2)+1))
	case 4:
		s.TMax = hi - 1
	default:
		s.TMax = hi + int64(r.Intn(30))
	}
	if r.Chance(3) { // a range without data
		s.TMin, s.TMax = hi+5, hi+40
	}
	if s.TMin > s.TMax {
		s.TMin, s.TMax = s.TMax, s.TMin
	}
	if r.Chance(30) {
		s.PredTag = r.Intn(2)
		s.PredNeg = r.Chance(35)
		if s.PredTag == 0 {
			s.PredVal = 1 + r.Intn(genHosts-1)
		} else {
			s.PredVal = 1 + r.Intn(len(regionPool)-1)
		}
	}
	if s.Fn != fnRaw && r.Chance(65) {
		i := r.Intn(len(intervals))
		for (s.TMax-s.TMin)/intervals[i] > 70 && i < len(intervals)-1 {
			i++
		}
		s.Interval = intervals[i]
		if r.Chance(50) {
			s.OffLit = int64(r.Intn(int(4*s.Interval)+1)) - 2*s.Interval
		}
		fills := fillsFor(d.FT, s.Fn)
		s.Fill = fills[r.Intn(len(fills))]
		if s.Fill == fillNull {
			s.FillExpl = r.Bool()
		}
		if s.Fill == fillNum {
			s.FillVal = int64(r.Intn(13)) - 3
		}
	} else if s.Fn != fnRaw && r.Chance(15) {
		// fill clause without GROUP BY time: accepted, no effect
		s.Fill = []int{fillNone, fillNum, fillPrev}[r.Intn(3)]
		s.FillVal = 7
	}
	s.ByHost = r.Chance(45)
	s.ByRegion = r.Chance(30)
	s.Desc = r.Chance(30)
	if r.Chance(35) {
		s.Limit = 1 + r.Intn(4)
	}
	if r.Chance(25) {
		s.Off = 1 + r.Intn(3)
	}
	if r.Chance(15) {
		s.SLimit = 1 + r.Intn(2)
	}
	if r.Chance(10) {
		s.SOff = 1 + r.Intn(2)
	}
	if !slimitModelled(d, s) {
		s.SLimit, s.SOff = 0, 0
	}
	return s
}

// The order in which a shard numbers its tag sets for SLIMIT is the byte order of
// tsdb.MakeTagsKey, which lists only the tags a series HAS; the model orders tag sets as
// value tuples.  Both agree when every series has all of the GROUP BY tags or none.
func slimitModelled(d Data, s Stmt) bool {
	for _, ser := range d.Series {
		has, want := 0, 0
		if s.ByHost {
			want++
			if ser[0] > 0 {
				has++
			}
		}
		if s.ByRegion {
			want++
			if ser[1] > 0 {
				has++
			}
		}
		if has != 0 && has != want {
			return false
		}
	}
	return true
}

// ---------------------------------------------------------------- designed cases

func designedData(ft int) Data {
	d := Data{FT: ft, Series: [][2]int{{1, 1}, {2, 1}, {2, 2}, {0, 0}}}
	val := func(i int) int64 {
		switch ft {
		case ftFloat, ftInt:
			return []int64{3, -2, 7, 7, 0, 5, -2, 11, 4, 4, 9, -6, 1}[i%13]
		case ftStr:
			return int64(i*3) % int64(len(strPool))
		default:
			return int64((i / 2) % 2)
		}
	}
	// boundary-aligned times, gaps (30..39, 50..69 empty), negative times, one far point
	times := [][]int64{
		{-25, -20, -11, -10, -1, 0, 1, 9, 10, 19, 20, 21, 40, 41, 70, 100},
		{-19, -9, 2, 8, 11, 22, 42, 71, 99},
		{-21, 3, 12, 23, 43, 72},
		{-5, 5, 15, 45},
	}
	i := 0
	var b0, b1, b2 []Pt
	for s, ts := range times {
		for _, t := range ts {
			p := Pt{S: s, T: t, V: val(i)}
			if i%4 == 0 {
				g := int64(i)
				p.G = &g
			}
			b0 = append(b0, p)
			i++
		}
	}
	// overwritten later: same series/time, new value (two generations)
	b1 = []Pt{{S: 0, T: 0, V: val(5)}, {S: 0, T: 10, V: val(6)}, {S: 1, T: 11, V: val(7)}, {S: 0, T: 7, V: val(8)}, {S: 3, T: 45, V: val(2)}}
	b2 = []Pt{{S: 0, T: 10, V: val(1)}, {S: 2, T: 44, V: val(3)}, {S: 1, T: -9, V: val(4)}}
	d.Batches = [][]Pt{b0, b1, b2}
	return d
}

// time ties across series of one tag set
func designedTies(ft int) Data {
	d := Data{FT: ft, Series: [][2]int{{1, 1}, {2, 1}, {3, 2}}}
	v := func(i int64) int64 {
		switch ft {
		case ftStr:
			return i % int64(len(strPool))
		case ftBool:
			return i % 2
		}
		return i
	}
	d.Batches = [][]Pt{{
		{S: 0, T: 0, V: v(1)}, {S: 1, T: 0, V: v(4)}, {S: 2, T: 0, V: v(2)},
		{S: 0, T: 10, V: v(6)}, {S: 1, T: 10, V: v(3)},
		{S: 1, T: 20, V: v(5)}, {S: 2, T: 20, V: v(8)},
		{S: 0, T: 30, V: v(7)},
	}}
	return d
}

// few values, many duplicates; the same value at different times in different series; ties in
// frequency; a value that occurs once; cross-series timestamp ties
func designedDups(ft int) Data {
	d := Data{FT: ft, Series: [][2]int{{1, 1}, {2, 1}, {3, 2}, {1, 2}}}
	v := func(i int64) int64 {
		switch ft {
		case ftStr:
			return i % int64(len(strPool))
		case ftBool:
			return i % 2
		}
		return i
	}
	var b []Pt
	vals := []int64{2, 1, 2, 3, 1, 3, 4, 2, 1, 3, 3, 1, 2, 0, 1, 2, 3, 3, 2, 1, 1, 2, 3, 2}
	for i, x := range vals {
		b = append(b, Pt{S: i % 4, T: int64((i*7)%60 - (i%3)*((i*7)%60%5)), V: v(x)})
	}
	d.Batches = [][]Pt{b}
	return d
}

// designedMany: n series in ONE tag set (same region, n different hosts), all in the same
// shard group: per-series iterators of a pushed-down call are merged in parallel groups whose
// number depends on GOMAXPROCS, so n is chosen above the CPU count and not a multiple of it
func designedMany(ft int, n int) Data {
	d := Data{FT: ft}
	var b []Pt
	for i := 0; i < n; i++ {
		d.Series = append(d.Series, [2]int{1 + i, 1})
		b = append(b, Pt{S: i, T: int64(i % 7), V: int64(i + 1)}, Pt{S: i, T: int64(20 + i%5), V: int64(100 - i)})
	}
	d.Batches = [][]Pt{b}
	return d
}

func designed(o *hx.Out, e *env, thorough bool) {
	for _, ft := range []int{ftFloat, ftInt} {
		for _, n := range []int{runtime.GOMAXPROCS(0) + 1, 2*runtime.GOMAXPROCS(0) + 3} {
			if n > len(hostPool)-1 {
				n = len(hostPool) - 1
			}
			dm := designedMany(ft, n)
			var ms []Stmt
			for _, fn := range []int{fnCount, fnSum, fnMax, fnFirst, fnLast, fnMean} {
				ms = append(ms, Stmt{Fn: fn, TMin: -5, TMax: 40, PredTag: -1})
				ms = append(ms, Stmt{Fn: fn, TMin: -5, TMax: 40, PredTag: -1, ByRegion: true, Interval: 10, Desc: fn == fnMax})
			}
			runDataSet(o, e, dm, ms, defaultLayouts(1), "designed")
			if !thorough {
				break
			}
		}
	}
	type iv struct{ d, off int64 }
	ivs := []iv{{0, 0}, {10, 0}, {10, 3}, {20, -7}}
	for _, ft := range []int{ftFloat, ftInt, ftStr, ftBool} {
		d := designedData(ft)
		var stmts []Stmt
		k := 0
		for _, fn := range fnsFor(ft) {
			for _, v := range ivs {
				if fn == fnRaw && v.d != 0 {
					continue
				}
				fills := []int{fillNull}
				if v.d != 0 {
					fills = fillsFor(ft, fn)
				}
				for _, fill := range fills {
					for _, desc := range []bool{false, true} {
						s := Stmt{Fn: fn, TMin: -22, TMax: 75, PredTag: -1, Interval: v.d, OffLit: v.off, Fill: fill, FillVal: 5, Desc: desc}
						if fn == fnPercentile {
							s.Pct2 = pct2s[(3*k+5)%len(pct2s)]
						}
						switch k % 6 {
						case 1:
							s.ByHost = true
						case 2:
							s.ByHost, s.ByRegion = true, true
						case 3:
							s.ByRegion = true
							s.Limit, s.Off = 2, 1
						case 4:
							s.Limit = 3
							s.TMin, s.TMax = -20, 69
						case 5:
							s.PredTag, s.PredVal, s.PredNeg = 0, 2, k%4 == 1
							s.ByRegion = true
						}
						if !thorough && fn >= fnDistinct && (k+1)%3 != 0 {
							k++
							continue // quick tier: a third of the sweep for distinct/mode/percentile/count(distinct)
						}
						if ft != ftFloat && ft != ftInt && k%3 == 0 {
							k++
							continue // thin out the non-numeric sweep
						}
						if !thorough && (k+ft)%2 == 1 {
							k++
							continue // quick tier: every other combination (float and int take alternate halves)
						}
						stmts = append(stmts, s)
						k++
					}
				}
			}
		}
		// limit/offset/slimit sweep on raw and count
		for _, fn := range []int{fnRaw, fnCount} {
			for lim := 0; lim <= 2; lim++ {
				for off := 0; off <= 2; off++ {
					s := Stmt{Fn: fn, TMin: -30, TMax: 120, PredTag: -1, ByHost: true, Limit: lim, Off: off, Desc: (lim+off)%2 == 1}
					if fn == fnCount {
						s.Interval = 20
					}
					stmts = append(stmts, s)
					s.ByHost, s.ByRegion = true, true
					s.SLimit, s.SOff = lim, off
					s.Limit, s.Off = 0, 0
					if lim+off > 0 {
						stmts = append(stmts, s)
					}
				}
			}
		}
		runDataSet(o, e, d, stmts, defaultLayouts(len(d.Batches)), "designed")

		// cross-series time ties
		dt := designedTies(ft)
		var ts []Stmt
		for _, fn := range fnsFor(ft) {
			for _, desc := range []bool{false, true} {
				p2 := 0
				if fn == fnPercentile {
					p2 = 100
				}
				ts = append(ts, Stmt{Fn: fn, TMin: -5, TMax: 35, PredTag: -1, Desc: desc, Pct2: p2})
				ts = append(ts, Stmt{Fn: fn, TMin: -5, TMax: 35, PredTag: -1, Desc: desc, ByRegion: true, Limit: 2, Pct2: p2})
				if fn != fnRaw {
					ts = append(ts, Stmt{Fn: fn, TMin: -5, TMax: 35, PredTag: -1, Desc: desc, Interval: 20, Pct2: p2})
				}
			}
		}
		runDataSet(o, e, dt, ts, defaultLayouts(1), "designed")

		// duplicates: equal frequencies, equal values at different times in different series
		// (hence shards), values that occur once
		dd := designedDups(ft)
		var ds []Stmt
		for _, fn := range []int{fnDistinct, fnMode, fnPercentile, fnCountDistinct} {
			if fn == fnPercentile && ft != ftFloat && ft != ftInt {
				continue
			}
			for _, desc := range []bool{false, true} {
				p2s := []int{0}
				if fn == fnPercentile {
					p2s = []int{100, 40, 200}
					if thorough {
						p2s = []int{100, 40, 150, 200, 1}
					}
				}
				for _, p2 := range p2s {
					ds = append(ds, Stmt{Fn: fn, TMin: 0, TMax: 59, PredTag: -1, Desc: desc, Pct2: p2})
					if thorough || ft == ftFloat || ft == ftInt {
						ds = append(ds, Stmt{Fn: fn, TMin: 0, TMax: 59, PredTag: -1, Desc: desc, Pct2: p2, ByRegion: true})
					}
					ds = append(ds, Stmt{Fn: fn, TMin: 0, TMax: 59, PredTag: -1, Desc: desc, Pct2: p2, Interval: 30, Limit: 3, Off: 1})
					if thorough || p2 == p2s[0] {
						ds = append(ds, Stmt{Fn: fn, TMin: 3, TMax: 52, PredTag: -1, Desc: desc, Pct2: p2, Interval: 20, OffLit: 5, ByHost: true, Fill: fillPrev})
					}
				}
			}
		}
		runDataSet(o, e, dd, ds, defaultLayouts(1), "designed")
	}
}
