// Storage-read streams (coordinator/store_stream.go, MetaExecutor.ReadFilter / ReadGroup).
// Three case kinds:
//
//	recv  : the real storeStreamReceiver.Recv on the first k bytes of messages written by the real
//	        storeStreamSender (plus an ill-formed tail), compared message by message (byte level)
//	rsraw : the real reads.ResultSetStreamReader / GroupResultSetStreamReader on top of the real
//	        receiver on such a byte stream (also ill-formed frame sequences, runs of empty responses)
//	sread : the real MetaExecutor.ReadFilter / ReadGroup against the real coordinator.Service +
//	        storage.Store + tsdb.Store of a node of the in-process cluster, through a TCP proxy that
//	        closes the node's byte stream after k bytes
package main

import (
	"bytes"
	"context"
	"encoding/binary"
	"fmt"
	"io"
	"math"
	"net"
	"strconv"
	"strings"
	"sync"
	"time"

	"github.com/gogo/protobuf/types"
	"github.com/influxdata/influxdb/coordinator"
	"github.com/influxdata/influxdb/models"
	"github.com/influxdata/influxdb/services/meta"
	"github.com/influxdata/influxdb/services/storage"
	"github.com/influxdata/influxdb/storage/reads"
	"github.com/influxdata/influxdb/storage/reads/datatypes"
	"github.com/influxdata/influxdb/tsdb/cursors"
	"verifharness/hx"
)

// ---------------------------------------------------------------- building byte streams with the real sender

type frameDesc struct {
	Kind string  `json:"kind"` // "s" series | "p" float points | "g" group
	ID   int     `json:"id,omitempty"`
	TS   []int64 `json:"ts,omitempty"`
}

type msgDesc struct {
	Typ    int         `json:"typ"` // 1 = ReadResponse, 2 = trailer (written by sender.Close), other: written with WriteTLV, read as a ReadResponse
	Frames []frameDesc `json:"frames,omitempty"`
}

func idKey(id int) string { return fmt.Sprintf("%06d", id) }

func buildResponse(fs []frameDesc) *datatypes.ReadResponse {
	rr := &datatypes.ReadResponse{}
	for _, f := range fs {
		switch f.Kind {
		case "s":
			rr.Frames = append(rr.Frames, datatypes.ReadResponse_Frame{Data: &datatypes.ReadResponse_Frame_Series{Series: &datatypes.ReadResponse_SeriesFrame{
				Tags: []datatypes.Tag{{Key: []byte("id"), Value: []byte(idKey(f.ID))}}, DataType: datatypes.DataTypeFloat}}})
		case "p":
			vals := make([]float64, len(f.TS))
			for i, t := range f.TS {
				vals[i] = float64(t)
			}
			rr.Frames = append(rr.Frames, datatypes.ReadResponse_Frame{Data: &datatypes.ReadResponse_Frame_FloatPoints{FloatPoints: &datatypes.ReadResponse_FloatPointsFrame{
				Timestamps: append([]int64{}, f.TS...), Values: vals}}})
		case "g":
			rr.Frames = append(rr.Frames, datatypes.ReadResponse_Frame{Data: &datatypes.ReadResponse_Frame_Group{Group: &datatypes.ReadResponse_GroupFrame{
				TagKeys: [][]byte{[]byte("id")}, PartitionKeyVals: [][]byte{[]byte(idKey(f.ID))}}}})
		default:
			panic("frame kind " + f.Kind)
		}
	}
	return rr
}

// encodeMsg: the bytes the real sender writes for one message; returns (type, payload)
func encodeMsg(m msgDesc) (byte, []byte, []byte) {
	var buf bytes.Buffer
	snd := coordinator.NewStoreStreamSender(&buf)
	switch m.Typ {
	case 2:
		snd.SetTrailer(map[string][]string{"scanned-bytes": {"12"}, "scanned-values": {"3"}})
		if err := snd.Close(); err != nil {
			panic(err)
		}
	case 1:
		if err := snd.Send(buildResponse(m.Frames)); err != nil {
			panic(err)
		}
	default:
		p, err := buildResponse(m.Frames).Marshal()
		if err != nil {
			panic(err)
		}
		if err := coordinator.WriteTLV(&buf, byte(m.Typ), p); err != nil {
			panic(err)
		}
	}
	b := buf.Bytes()
	if len(b) < 9 || int(binary.BigEndian.Uint64(b[1:9])) != len(b)-9 {
		panic("sender wrote an unexpected frame")
	}
	return b[0], b[9:], b
}

func absFrames(fs []frameDesc) string {
	var out []string
	for _, f := range fs {
		switch f.Kind {
		case "s":
			out = append(out, fmt.Sprintf("FSeries %d", f.ID))
		case "g":
			out = append(out, fmt.Sprintf("FGroup %d", f.ID))
		default:
			out = append(out, "FPoints "+coqTS(f.TS))
		}
	}
	return hx.CoqList(out)
}

const tsOffset = 1000000 // timestamps are shifted into N

func coqTS(ts []int64) string {
	u := make([]uint64, len(ts))
	for i, t := range ts {
		u[i] = uint64(t + tsOffset)
	}
	return hx.CoqNList(u)
}

// ---------------------------------------------------------------- items a caller collects

type item struct {
	Kind int     `json:"kind"` // 0 series, 1 group
	ID   int     `json:"id"`
	TS   []int64 `json:"ts,omitempty"`
}

func coqItems(its []item) string {
	var out []string
	for _, it := range its {
		out = append(out, fmt.Sprintf("(%d, %d, %s)", it.Kind, it.ID, coqTS(it.TS)))
	}
	return hx.CoqList(out)
}

// the naive reading of a frame sequence: every series with the points that follow it
func planItems(ms []msgDesc) []item {
	var its []item
	for _, m := range ms {
		if m.Typ == 2 {
			continue
		}
		for _, f := range m.Frames {
			switch f.Kind {
			case "s":
				its = append(its, item{Kind: 0, ID: f.ID})
			case "g":
				its = append(its, item{Kind: 1, ID: f.ID})
			case "p":
				if n := len(its); n > 0 && its[n-1].Kind == 0 {
					its[n-1].TS = append(its[n-1].TS, f.TS...)
				}
			}
		}
	}
	return its
}

// drainCursor reads every array of a cursor; check validates (timestamp, value) pairs
func drainCursor(cur cursors.Cursor, check func(t int64, v interface{}) bool) (ts []int64, corrupt bool) {
	if cur == nil {
		return nil, false
	}
	defer cur.Close()
	switch c := cur.(type) {
	case cursors.FloatArrayCursor:
		for {
			a := c.Next()
			if a.Len() == 0 {
				break
			}
			for i, t := range a.Timestamps {
				ts = append(ts, t)
				corrupt = corrupt || i >= len(a.Values) || !check(t, a.Values[i])
			}
		}
	case cursors.StringArrayCursor:
		for {
			a := c.Next()
			if a.Len() == 0 {
				break
			}
			for i, t := range a.Timestamps {
				ts = append(ts, t)
				corrupt = corrupt || i >= len(a.Values) || !check(t, a.Values[i])
			}
		}
	case cursors.IntegerArrayCursor:
		for {
			a := c.Next()
			if a.Len() == 0 {
				break
			}
			for i, t := range a.Timestamps {
				ts = append(ts, t)
				corrupt = corrupt || i >= len(a.Values) || !check(t, a.Values[i])
			}
		}
	default:
		panic(fmt.Sprintf("unexpected cursor type %T", cur))
	}
	return ts, corrupt
}

type seriesID func(tags models.Tags) int

func collectRS(rs reads.ResultSet, sid seriesID, check func(tags models.Tags) func(int64, interface{}) bool) (its []item, err error, corrupt bool) {
	if rs == nil {
		return nil, nil, false
	}
	defer rs.Close()
	for rs.Next() {
		tags := rs.Tags().Clone()
		it := item{Kind: 0, ID: sid(tags)}
		ts, c := drainCursor(rs.Cursor(), check(tags))
		it.TS, corrupt = ts, corrupt || c
		its = append(its, it)
	}
	return its, rs.Err(), corrupt
}

func collectGRS(rs reads.GroupResultSet, gid func(pk [][]byte) int, sid seriesID, check func(tags models.Tags) func(int64, interface{}) bool) (its []item, err error, corrupt bool) {
	if rs == nil {
		return nil, nil, false
	}
	defer rs.Close()
	for {
		gc := rs.Next()
		if gc == nil {
			break
		}
		its = append(its, item{Kind: 1, ID: gid(gc.PartitionKeyVals())})
		for gc.Next() {
			tags := gc.Tags().Clone()
			it := item{Kind: 0, ID: sid(tags)}
			ts, c := drainCursor(gc.Cursor(), check(tags))
			it.TS, corrupt = ts, corrupt || c
			its = append(its, it)
		}
		gc.Close()
	}
	return its, rs.Err(), corrupt
}

// ---------------------------------------------------------------- kind "recv"

type recvDesc struct {
	Msgs []msgDesc `json:"msgs"`
	Tail string    `json:"tail,omitempty"` // "" | "neg" (negative size) | "big" (size = MaxMessageSize) | "hdr3" (type + 3 size bytes) | "typ" (a lone type byte)
	K    int       `json:"k"`
}

func tailBytes(kind string) []byte {
	switch kind {
	case "":
		return nil
	case "neg":
		return []byte{1, 0xff, 0xff, 0xff, 0xff, 0xff, 0xff, 0xff, 0xf0}
	case "big":
		return []byte{1, 0, 0, 0, 0, 0x40, 0, 0, 0, 7, 7}
	case "hdr3":
		return []byte{1, 0, 0, 0}
	case "typ":
		return []byte{1}
	}
	panic("tail " + kind)
}

func validMsgs(ms []msgDesc) bool {
	if len(ms) > 12 {
		return false
	}
	for _, m := range ms {
		if m.Typ < 1 || m.Typ > 255 || len(m.Frames) > 12 {
			return false
		}
		for _, f := range m.Frames {
			if (f.Kind != "s" && f.Kind != "p" && f.Kind != "g") || f.ID < 0 || f.ID > 99999 || len(f.TS) > 16 {
				return false
			}
			for _, t := range f.TS {
				if t < -tsOffset || t > 1<<40 {
					return false
				}
			}
		}
	}
	return true
}

func runRecv(o *hx.Out, d recvDesc, origin string) {
	switch d.Tail {
	case "", "neg", "big", "hdr3", "typ":
	default:
		o.Count("recv:skipped-invalid-input")
		return
	}
	if !validMsgs(d.Msgs) || d.K < 0 {
		o.Count("recv:skipped-invalid-input")
		return
	}
	o.Begin("recv", d)
	var stream []byte
	var fsC []string
	for _, m := range d.Msgs {
		typ, payload, raw := encodeMsg(m)
		stream = append(stream, raw...)
		fsC = append(fsC, fmt.Sprintf("(%d, %s)", typ, hx.CoqBytes(payload)))
	}
	tail := tailBytes(d.Tail)
	stream = append(stream, tail...)
	k := d.K
	if k > len(stream) {
		k = len(stream)
	}
	type recvObs struct {
		Trailer bool   `json:"trailer"`
		Payload []byte `json:"payload,omitempty"`
	}
	var got []recvObs
	var endErr error
	func() {
		defer func() {
			if e := recover(); e != nil {
				endErr = fmt.Errorf("panic: %v", e)
			}
		}()
		rcv := coordinator.NewStoreStreamReceiver(bytes.NewReader(stream[:k]))
		for i := 0; i < len(d.Msgs)+4; i++ {
			rr, err := rcv.Recv()
			if err == io.EOF {
				return
			}
			if err != nil {
				endErr = err
				return
			}
			if rr == nil {
				got = append(got, recvObs{Trailer: true})
				continue
			}
			p, err := rr.Marshal()
			if err != nil {
				endErr = err
				return
			}
			got = append(got, recvObs{Payload: p})
		}
		endErr = fmt.Errorf("receiver does not stop")
	}()
	var obsC []string
	for _, g := range got {
		obsC = append(obsC, fmt.Sprintf("(%s, %s)", hx.CoqBool(g.Trailer), hx.CoqBytes(g.Payload)))
	}
	coq := fmt.Sprintf("CRecv %s %s %d %s %s", hx.CoqList(fsC), hx.CoqBytes(tail), d.K, hx.CoqList(obsC), hx.CoqBool(endErr != nil))
	o.Count(fmt.Sprintf("recv:msgs=%d", len(d.Msgs)))
	o.Count("recv:tail=" + d.Tail)
	o.Count("recv:cut=" + cutClass(streamLens(d.Msgs), 0, d.K))
	msg := ""
	if endErr != nil {
		msg = endErr.Error()
	}
	o.Emit(hx.Case{Kind: "recv", Coq: coq, Desc: d,
		Obs:        map[string]interface{}{"received": got, "error": endErr != nil, "msg": msg, "stream_len": len(stream), "lens": streamLens(d.Msgs)},
		Nontrivial: d.K < len(stream) && len(d.Msgs) > 0, Sig: fmt.Sprintf("recv:%v", d), Origin: origin})
}

func streamLens(ms []msgDesc) []int {
	var l []int
	for _, m := range ms {
		_, p, _ := encodeMsg(m)
		l = append(l, len(p))
	}
	return l
}

// where a cut at offset k lies in a stream of a response message of hdr bytes and messages
// with the given payload lengths
func cutClass(lens []int, hdr, k int) string {
	if k < hdr {
		return "in-response-message"
	}
	k -= hdr
	if k == 0 {
		if len(lens) == 0 {
			return "none"
		}
		return "boundary(before-first)"
	}
	for _, l := range lens {
		switch {
		case k == 0:
			return "boundary"
		case k < 1:
			return "?"
		case k == 1:
			return "after-type-byte"
		case k < 9:
			return "in-size"
		case k == 9 && l > 0:
			return "after-size"
		case k < 9+l:
			return "in-value"
		}
		k -= 9 + l
	}
	if k == 0 {
		return "none(full)"
	}
	return "none(beyond)"
}

// ---------------------------------------------------------------- kind "rsraw"

type rsDesc struct {
	Grp  bool      `json:"grp,omitempty"`
	Msgs []msgDesc `json:"msgs"`
	K    int       `json:"k"`
}

func parseID(b []byte) int {
	n, err := strconv.Atoi(string(b))
	if err != nil {
		return 999999
	}
	return n
}

func rawSID(tags models.Tags) int { return parseID(tags.Get([]byte("id"))) }
func rawGID(pk [][]byte) int {
	if len(pk) != 1 {
		return 999999
	}
	return parseID(pk[0])
}
func rawCheck(models.Tags) func(int64, interface{}) bool {
	return func(t int64, v interface{}) bool { f, ok := v.(float64); return ok && f == float64(t) }
}

func runRS(o *hx.Out, d rsDesc, origin string) {
	if !validMsgs(d.Msgs) || d.K < 0 {
		o.Count("rsraw:skipped-invalid-input")
		return
	}
	// the group reader checks that partition keys ascend (not modelled): group ids must ascend
	last := -1
	for _, m := range d.Msgs {
		if m.Typ == 2 {
			continue
		}
		for _, f := range m.Frames {
			if f.Kind == "g" {
				if f.ID <= last {
					o.Count("rsraw:skipped-invalid-input")
					return
				}
				last = f.ID
			}
		}
	}
	o.Begin("rsraw", d)
	var stream []byte
	var msC []string
	var lens []int
	for _, m := range d.Msgs {
		typ, payload, raw := encodeMsg(m)
		stream = append(stream, raw...)
		lens = append(lens, len(payload))
		fr := m.Frames
		if m.Typ == 2 {
			fr = nil
		}
		msC = append(msC, fmt.Sprintf("(%d, %d, %s)", typ, len(payload), absFrames(fr)))
	}
	k := d.K
	if k > len(stream) {
		k = len(stream)
	}
	var its []item
	var err error
	var corrupt bool
	func() {
		defer func() {
			if e := recover(); e != nil {
				err = fmt.Errorf("panic: %v", e)
			}
		}()
		rcv := coordinator.NewStoreStreamReceiver(bytes.NewReader(stream[:k]))
		if d.Grp {
			its, err, corrupt = collectGRS(reads.NewGroupResultSetStreamReader(rcv), rawGID, rawSID, rawCheck)
		} else {
			its, err, corrupt = collectRS(reads.NewResultSetStreamReader(rcv), rawSID, rawCheck)
		}
	}()
	ref := planItems(d.Msgs)
	coq := fmt.Sprintf("CSRead %s 0 %s %d %s false %s %s %s", hx.CoqBool(d.Grp), hx.CoqList(msC), d.K, coqItems(ref),
		coqItems(its), hx.CoqBool(err != nil), hx.CoqBool(corrupt))
	o.Count(fmt.Sprintf("rsraw:grp=%v", d.Grp))
	o.Count(fmt.Sprintf("rsraw:msgs=%d", len(d.Msgs)))
	o.Count("rsraw:cut=" + cutClass(lens, 0, d.K))
	msg := ""
	if err != nil {
		msg = err.Error()
	}
	o.Emit(hx.Case{Kind: "rsraw", Coq: coq, Desc: d,
		Obs:        map[string]interface{}{"items": its, "error": err != nil, "msg": msg, "reference": ref, "corrupt": corrupt, "lens": lens, "hdr": 0},
		Nontrivial: d.K < len(stream) && len(d.Msgs) > 0, Sig: fmt.Sprintf("rsraw:%v", d), Origin: origin})
}

// ---------------------------------------------------------------- cutting proxy

// cutProxy forwards client -> node unchanged and node -> client up to k bytes, then closes the
// client side (FIN: the request has been read completely, nothing is unread); it keeps reading
// the node's stream to the end and records all of it.
type cutProxy struct {
	ln     net.Listener
	target string
	k      int // < 0: never cut
	mu     sync.Mutex
	rec    []byte
	conns  int
	done   chan struct{}
}

func newCutProxy(target string, k int) *cutProxy {
	ln, err := net.Listen("tcp", "127.0.0.1:0")
	if err != nil {
		panic(err)
	}
	p := &cutProxy{ln: ln, target: target, k: k, done: make(chan struct{})}
	go func() {
		first := true
		for {
			c, err := ln.Accept()
			if err != nil {
				return
			}
			p.mu.Lock()
			p.conns++
			p.mu.Unlock()
			if !first {
				c.Close()
				continue
			}
			first = false
			go p.handle(c)
		}
	}()
	return p
}

func (p *cutProxy) addr() string { return p.ln.Addr().String() }

func (p *cutProxy) handle(c net.Conn) {
	defer close(p.done)
	s, err := net.Dial("tcp", p.target)
	if err != nil {
		c.Close()
		return
	}
	defer s.Close()
	go io.Copy(s, c) // the request; ends when the client side is closed
	buf := make([]byte, 64<<10)
	sent, closed := 0, false
	for {
		n, err := s.Read(buf)
		if n > 0 {
			p.mu.Lock()
			p.rec = append(p.rec, buf[:n]...)
			total := len(p.rec)
			p.mu.Unlock()
			if !closed {
				m := n
				if p.k >= 0 && sent+m > p.k {
					m = p.k - sent
				}
				if m > 0 {
					c.Write(buf[:m])
					sent += m
				}
				if p.k >= 0 && total > p.k {
					c.Close()
					closed = true
				}
			}
		}
		if err != nil {
			break
		}
	}
	if !closed {
		c.Close()
	}
}

func (p *cutProxy) wait() []byte {
	select {
	case <-p.done:
	case <-time.After(30 * time.Second):
		panic("proxy: the node did not finish its stream")
	}
	p.ln.Close()
	p.mu.Lock()
	defer p.mu.Unlock()
	return append([]byte(nil), p.rec...)
}

// ---------------------------------------------------------------- kind "sread"

type storeMeta struct {
	id   uint64
	data *meta.Data
}

func (m storeMeta) NodeID() uint64                          { return m.id }
func (m storeMeta) Database(name string) *meta.DatabaseInfo { return m.data.Database(name) }
func (m storeMeta) ShardGroupsByTimeRange(database, policy string, min, max time.Time) ([]meta.ShardGroupInfo, error) {
	return m.data.ShardGroupsByTimeRange(database, policy, min, max)
}

type sreadDesc struct {
	World worldDesc `json:"world"`
	Node  uint64    `json:"node"` // the node asked (must hold the shards)
	IDs   []uint64  `json:"ids"`
	Grp   bool      `json:"grp,omitempty"`
	K     int       `json:"k"` // bytes of the node's reply after which the connection is closed; < 0: never
}

func seriesKey(tags models.Tags) string {
	var parts []string
	for _, t := range tags {
		parts = append(parts, string(t.Key)+"="+string(t.Value))
	}
	return strings.Join(parts, ",")
}

func readSource(rp string) *types.Any {
	a, err := types.MarshalAny(&storage.ReadSource{Database: "db", RetentionPolicy: rp})
	if err != nil {
		panic(err)
	}
	return a
}

func validSRead(d sreadDesc) bool {
	if !validQuery(queryDesc{World: d.World, Local: 1, Tmin: 0, Tmax: 1, Fault: faultPlan{}}) || len(d.World.GroupDefs) > 0 {
		return false
	}
	if d.Node < 1 || d.Node > uint64(d.World.N) || len(d.IDs) == 0 {
		return false
	}
	rp := -1
	for _, id := range d.IDs {
		ok := false
		for _, sp := range d.World.Shards {
			if sp.ID != id {
				continue
			}
			if rp >= 0 && rp != sp.RP {
				return false
			}
			rp = sp.RP
			for _, o := range sp.Owners {
				ok = ok || o == d.Node
			}
		}
		if !ok {
			return false
		}
	}
	for _, sp := range d.World.Shards {
		if sp.Big < 0 || sp.Big > 60000 || len(sp.Tagged) > 0 {
			return false
		}
	}
	return true
}

func runSRead(o *hx.Out, d sreadDesc, origin string) {
	if !validSRead(d) {
		o.Count("sread:skipped-invalid-input")
		return
	}
	o.Begin("sread", d)
	w := getWorld(d.World)
	w.setState(nil)
	rp, big := 0, map[uint64]int{}
	for _, sp := range d.World.Shards {
		big[sp.ID] = sp.Big
		if sp.ID == d.IDs[0] {
			rp = sp.RP
		}
	}
	ctx := context.WithValue(context.Background(), coordinator.ShardIDsKey, d.IDs)
	rng := datatypes.TimestampRange{Start: math.MinInt64, End: math.MaxInt64}
	rfReq := func() *datatypes.ReadFilterRequest {
		return &datatypes.ReadFilterRequest{ReadSource: readSource(rpName(rp)), Range: rng}
	}
	rgReq := func() *datatypes.ReadGroupRequest {
		return &datatypes.ReadGroupRequest{ReadSource: readSource(rpName(rp)), Range: rng, Group: datatypes.GroupBy, GroupKeys: []string{"_measurement"}}
	}
	// values: field v = timestamp, f<id> = 1, s = Big bytes of 'x'
	check := func(tags models.Tags) func(int64, interface{}) bool {
		field := string(tags.Get([]byte("_field")))
		return func(t int64, v interface{}) bool {
			switch x := v.(type) {
			case float64:
				if field == "v" {
					return x == float64(t)
				}
				return x == 1
			case string:
				return field == "s" && len(x) > 0 && x == strings.Repeat("x", len(x))
			}
			return false
		}
	}
	// reference: the same request on the single store holding every shard once, no network
	keys := map[string]int{}
	gkeys := map[string]int{}
	sid := func(tags models.Tags) int {
		k := seriesKey(tags)
		if _, ok := keys[k]; !ok {
			keys[k] = len(keys) + 1
		}
		return keys[k]
	}
	gidOf := func(k string) int {
		if _, ok := gkeys[k]; !ok {
			gkeys[k] = len(gkeys) + 1
		}
		return gkeys[k]
	}
	gid := func(pk [][]byte) int { return gidOf(string(bytes.Join(pk, []byte{0}))) }
	refStore := storage.NewStore(w.ref, storeMeta{id: 99, data: w.data})
	var ref []item
	var refErr error
	var refCorrupt bool
	if d.Grp {
		rs, err := refStore.ReadGroup(ctx, rgReq())
		if err != nil {
			panic("reference ReadGroup failed: " + err.Error())
		}
		ref, refErr, refCorrupt = collectGRS(rs, gid, sid, check)
	} else {
		rs, err := refStore.ReadFilter(ctx, rfReq())
		if err != nil {
			panic("reference ReadFilter failed: " + err.Error())
		}
		ref, refErr, refCorrupt = collectRS(rs, sid, check)
	}
	if refErr != nil || refCorrupt {
		panic(fmt.Sprintf("reference read failed: %v corrupt=%v", refErr, refCorrupt))
	}

	proxy := newCutProxy(w.nodes[d.Node].addr, d.K)
	mc := w.metaFor(1, nil)
	mc.addrs[d.Node] = proxy.addr()
	me := coordinator.NewMetaExecutor(60*time.Second, 10*time.Second, 0, 64)
	me.MetaClient = mc
	defer me.Close()
	var its []item
	var callErr, strErr error
	var corrupt bool
	func() {
		defer func() {
			if e := recover(); e != nil {
				strErr = fmt.Errorf("panic: %v", e)
			}
		}()
		if d.Grp {
			var rs reads.GroupResultSet
			rs, callErr = me.ReadGroup(d.Node, d.IDs, context.Background(), rgReq())
			if callErr == nil {
				its, strErr, corrupt = collectGRS(rs, gid, sid, check)
			}
		} else {
			var rs reads.ResultSet
			rs, callErr = me.ReadFilter(d.Node, d.IDs, context.Background(), rfReq())
			if callErr == nil {
				its, strErr, corrupt = collectRS(rs, sid, check)
			}
		}
	}()
	full := proxy.wait()
	if proxy.conns != 1 {
		panic(fmt.Sprintf("proxy saw %d connections", proxy.conns))
	}
	// the structure of what the node wrote: response message, then the stream messages
	if len(full) < 9 {
		panic("node reply shorter than a message header")
	}
	hdr := 9 + int(binary.BigEndian.Uint64(full[1:9]))
	if hdr > len(full) {
		panic("node reply: incomplete response message")
	}
	var msC []string
	var lens []int
	nframes := 0
	for rest := full[hdr:]; len(rest) > 0; {
		if len(rest) < 9 {
			panic("node stream: trailing bytes")
		}
		typ, sz := rest[0], int(binary.BigEndian.Uint64(rest[1:9]))
		if sz < 0 || 9+sz > len(rest) {
			panic("node stream: incomplete message")
		}
		payload := rest[9 : 9+sz]
		rest = rest[9+sz:]
		lens = append(lens, sz)
		var fr []string
		if typ != 2 {
			var rr datatypes.ReadResponse
			if err := rr.Unmarshal(payload); err != nil {
				panic("node stream: " + err.Error())
			}
			for _, f := range rr.Frames {
				nframes++
				switch x := f.Data.(type) {
				case *datatypes.ReadResponse_Frame_Series:
					tags := make(models.Tags, len(x.Series.Tags))
					for i, t := range x.Series.Tags {
						tags[i] = models.Tag{Key: t.Key, Value: t.Value}
					}
					fr = append(fr, fmt.Sprintf("FSeries %d", sid(tags)))
				case *datatypes.ReadResponse_Frame_Group:
					fr = append(fr, fmt.Sprintf("FGroup %d", gid(x.Group.PartitionKeyVals)))
				case *datatypes.ReadResponse_Frame_FloatPoints:
					fr = append(fr, "FPoints "+coqTS(x.FloatPoints.Timestamps))
				case *datatypes.ReadResponse_Frame_StringPoints:
					fr = append(fr, "FPoints "+coqTS(x.StringPoints.Timestamps))
				case *datatypes.ReadResponse_Frame_IntegerPoints:
					fr = append(fr, "FPoints "+coqTS(x.IntegerPoints.Timestamps))
				default:
					panic(fmt.Sprintf("node stream: frame %T", f.Data))
				}
			}
		}
		msC = append(msC, fmt.Sprintf("(%d, %d, %s)", typ, sz, hx.CoqList(fr)))
	}
	k := d.K
	if k < 0 {
		k = len(full) + 1
	}
	coq := fmt.Sprintf("CSRead %s %d %s %d %s %s %s %s %s", hx.CoqBool(d.Grp), hdr, hx.CoqList(msC), k, coqItems(ref),
		hx.CoqBool(callErr != nil), coqItems(its), hx.CoqBool(strErr != nil), hx.CoqBool(corrupt))
	o.Count(fmt.Sprintf("sread:grp=%v", d.Grp))
	o.Count(fmt.Sprintf("sread:stream_msgs=%s", bucket(len(lens))))
	o.Count(fmt.Sprintf("sread:stream_bytes=%s", sizeBucket(len(full))))
	o.Count("sread:cut=" + cutClass(lens, hdr, k))
	o.Count(fmt.Sprintf("sread:ref_items=%s", bucket(len(ref))))
	switch {
	case callErr != nil:
		o.Count("sread:result=call-error")
	case strErr != nil:
		o.Count("sread:result=stream-error")
	default:
		o.Count("sread:result=ok")
	}
	msg := ""
	if callErr != nil {
		msg = callErr.Error()
	} else if strErr != nil {
		msg = strErr.Error()
	}
	o.Emit(hx.Case{Kind: "sread", Coq: coq, Desc: d,
		Obs: map[string]interface{}{"call_error": callErr != nil, "items": its, "error": strErr != nil, "msg": msg, "reference": ref,
			"corrupt": corrupt, "hdr": hdr, "lens": lens, "reply_bytes": len(full), "frames": nframes},
		Nontrivial: len(ref) > 0 && d.K >= 0 && d.K < len(full), Sig: fmt.Sprintf("sread:%v", d), Origin: origin})
}

func sizeBucket(n int) string {
	switch {
	case n < 1<<10:
		return "<1K"
	case n < 64<<10:
		return "1K-64K"
	case n < 256<<10:
		return "64K-256K"
	}
	return ">=256K"
}

// ---------------------------------------------------------------- designed + generated stream cases

// every offset of a small stream, both readers
func designedStream(o *hx.Out, tier string) {
	small := []msgDesc{
		{Typ: 1, Frames: []frameDesc{{Kind: "s", ID: 1}, {Kind: "p", TS: []int64{10, 11}}}},
		{Typ: 1, Frames: []frameDesc{{Kind: "p", TS: []int64{12}}, {Kind: "s", ID: 2}, {Kind: "p", TS: []int64{20}}}},
		{Typ: 2},
	}
	n := 0
	for _, m := range small {
		_, _, raw := encodeMsg(m)
		n += len(raw)
	}
	for k := 0; k <= n+1; k++ {
		runRecv(o, recvDesc{Msgs: small, K: k}, "designed")
		runRS(o, rsDesc{Msgs: small, K: k}, "designed")
	}
	for _, tail := range []string{"neg", "big", "hdr3", "typ"} {
		for _, k := range []int{n, n + 1, n + 2, n + 9, n + 20} {
			runRecv(o, recvDesc{Msgs: small, Tail: tail, K: k}, "designed")
		}
	}
	// an unknown message type is read as a response; an empty response; runs of trailers
	runRecv(o, recvDesc{Msgs: []msgDesc{{Typ: 7, Frames: small[0].Frames}, {Typ: 1}, {Typ: 2}, {Typ: 2}}, K: 1000}, "designed")
	grp := []msgDesc{
		{Typ: 1, Frames: []frameDesc{{Kind: "g", ID: 1}, {Kind: "s", ID: 1}, {Kind: "p", TS: []int64{5}}, {Kind: "s", ID: 2}, {Kind: "p", TS: []int64{6}}}},
		{Typ: 1, Frames: []frameDesc{{Kind: "g", ID: 2}, {Kind: "s", ID: 3}, {Kind: "p", TS: []int64{7, 8}}}},
		{Typ: 2},
	}
	n = 0
	for _, m := range grp {
		_, _, raw := encodeMsg(m)
		n += len(raw)
	}
	for k := 0; k <= n+1; k++ {
		runRS(o, rsDesc{Grp: true, Msgs: grp, K: k}, "designed")
	}
	for _, g := range []bool{false, true} {
		// ill-formed sequences: the wrong reader for the stream, points before a series, three empty responses
		runRS(o, rsDesc{Grp: g, Msgs: small, K: 1000}, "designed")
		runRS(o, rsDesc{Grp: g, Msgs: grp, K: 1000}, "designed")
		runRS(o, rsDesc{Grp: g, Msgs: []msgDesc{{Typ: 1, Frames: []frameDesc{{Kind: "p", TS: []int64{1}}}}}, K: 1000}, "designed")
		runRS(o, rsDesc{Grp: g, Msgs: []msgDesc{{Typ: 2}, {Typ: 2}, {Typ: 2}, small[0]}, K: 1000}, "designed")
		runRS(o, rsDesc{Grp: g, Msgs: []msgDesc{{Typ: 2}, {Typ: 1}, small[0], grp[0]}, K: 1000}, "designed")
		runRS(o, rsDesc{Grp: g, Msgs: []msgDesc{grp[0], {Typ: 2}, {Typ: 2}, grp[1]}, K: 1000}, "designed")
	}

	// end to end.  World A: small float data (one message); world B: strings of 30000 bytes: the
	// node flushes a message every 64 KiB
	wa := worldDesc{N: 2, Groups: 1, Shards: []shardPlan{
		{ID: 1, Owners: []uint64{2}, Group: 0, Times: []int64{10, 11}},
		{ID: 2, Owners: []uint64{2, 1}, Group: 0, Times: []int64{120}}}}
	wb := worldDesc{N: 2, Groups: 1, Shards: []shardPlan{
		{ID: 1, Owners: []uint64{2}, Group: 0, Times: []int64{10, 11, 12}, Big: 30000},
		{ID: 2, Owners: []uint64{2}, Group: 0, Times: []int64{120, 121}, Big: 30000}}}
	for _, grp := range []bool{false, true} {
		sreadSweep(o, sreadDesc{World: wa, Node: 2, IDs: []uint64{1, 2}, Grp: grp}, "designed", 0)
		sreadSweep(o, sreadDesc{World: wb, Node: 2, IDs: []uint64{1, 2}, Grp: grp}, "designed", 0)
		sreadSweep(o, sreadDesc{World: wa, Node: 1, IDs: []uint64{2}, Grp: grp}, "designed", 6)
	}
}

// sreadSweep: one uncut run to learn the structure of the node's reply, then cuts at 0, inside
// the type byte / size / value of the response message and of every stream message, exactly
// at every message boundary, one byte before the end, the full length (limit > 0: a sample)
func sreadSweep(o *hx.Out, d sreadDesc, origin string, limit int) {
	hdr, lens := probeSRead(d)
	if hdr == 0 {
		return
	}
	d.K = -1
	runSRead(o, d, origin)
	var ks []int
	ks = append(ks, 0, 1, 5, 9, hdr/2+5, hdr-1, hdr)
	off := hdr
	for _, l := range lens {
		ks = append(ks, off+1, off+4, off+8, off+9, off+9+l/2, off+9+l-1, off+9+l)
		off += 9 + l
	}
	ks = append(ks, off, off+1)
	seen := map[int]bool{}
	var uniq []int
	for _, k := range ks {
		if k >= 0 && !seen[k] {
			seen[k] = true
			uniq = append(uniq, k)
		}
	}
	if limit > 0 && len(uniq) > limit {
		step := len(uniq) / limit
		var pick []int
		for i := 0; i < len(uniq); i += step {
			pick = append(pick, uniq[i])
		}
		uniq = pick
	}
	for _, k := range uniq {
		d.K = k
		runSRead(o, d, origin)
	}
}

// probeSRead: the message structure of the node's uncut reply (harness-internal; every emitted
// case records the structure of its own reply again)
func probeSRead(d sreadDesc) (int, []int) {
	if !validSRead(d) {
		return 0, nil
	}
	var got struct {
		hdr  int
		lens []int
	}
	w := getWorld(d.World)
	w.setState(nil)
	proxy := newCutProxy(w.nodes[d.Node].addr, -1)
	mc := w.metaFor(1, nil)
	mc.addrs[d.Node] = proxy.addr()
	me := coordinator.NewMetaExecutor(60*time.Second, 10*time.Second, 0, 64)
	me.MetaClient = mc
	defer me.Close()
	rp := 0
	for _, sp := range d.World.Shards {
		if sp.ID == d.IDs[0] {
			rp = sp.RP
		}
	}
	rng := datatypes.TimestampRange{Start: math.MinInt64, End: math.MaxInt64}
	if d.Grp {
		rs, err := me.ReadGroup(d.Node, d.IDs, context.Background(), &datatypes.ReadGroupRequest{ReadSource: readSource(rpName(rp)), Range: rng, Group: datatypes.GroupBy, GroupKeys: []string{"_measurement"}})
		if err == nil && rs != nil {
			for gc := rs.Next(); gc != nil; gc = rs.Next() {
				for gc.Next() {
					drainCursor(gc.Cursor(), func(int64, interface{}) bool { return true })
				}
				gc.Close()
			}
			rs.Close()
		}
	} else {
		rs, err := me.ReadFilter(d.Node, d.IDs, context.Background(), &datatypes.ReadFilterRequest{ReadSource: readSource(rpName(rp)), Range: rng})
		if err == nil && rs != nil {
			for rs.Next() {
				drainCursor(rs.Cursor(), func(int64, interface{}) bool { return true })
			}
			rs.Close()
		}
	}
	full := proxy.wait()
	if len(full) < 9 {
		return 0, nil
	}
	got.hdr = 9 + int(binary.BigEndian.Uint64(full[1:9]))
	for rest := full[got.hdr:]; len(rest) >= 9; {
		sz := int(binary.BigEndian.Uint64(rest[1:9]))
		if 9+sz > len(rest) {
			break
		}
		got.lens = append(got.lens, sz)
		rest = rest[9+sz:]
	}
	return got.hdr, got.lens
}

func genMsgs(r *hx.Rand, grp bool) []msgDesc {
	var ms []msgDesc
	nm := 1 + r.Intn(4)
	sid, gidN := 1, 1
	started := false
	for i := 0; i < nm; i++ {
		if r.Chance(8) {
			ms = append(ms, msgDesc{Typ: 2}) // a stray trailer
			continue
		}
		m := msgDesc{Typ: 1}
		if r.Chance(6) {
			m.Typ = 3 + r.Intn(200)
		}
		nf := r.Intn(5)
		if r.Chance(80) && nf == 0 {
			nf = 1
		}
		for j := 0; j < nf; j++ {
			switch x := r.Intn(10); {
			case grp && (!started || x == 0):
				m.Frames = append(m.Frames, frameDesc{Kind: "g", ID: gidN})
				gidN++
				started = true
			case x < 4 || (!started && r.Chance(92)):
				m.Frames = append(m.Frames, frameDesc{Kind: "s", ID: sid})
				sid++
				started = true
			default:
				np := 1 + r.Intn(3)
				var ts []int64
				for q := 0; q < np; q++ {
					ts = append(ts, int64(sid*100+j*10+q))
				}
				m.Frames = append(m.Frames, frameDesc{Kind: "p", TS: ts})
			}
		}
		if !grp && r.Chance(3) {
			m.Frames = append(m.Frames, frameDesc{Kind: "g", ID: gidN}) // a group frame in a ReadFilter stream
			gidN++
		}
		ms = append(ms, m)
	}
	if r.Chance(85) {
		ms = append(ms, msgDesc{Typ: 2})
	}
	return ms
}

// pickCut: offsets biased to the interesting places of a stream with the given payload lengths
func pickCut(r *hx.Rand, hdr int, lens []int) int {
	total := hdr
	for _, l := range lens {
		total += 9 + l
	}
	if r.Chance(10) {
		return total + r.Intn(3)
	}
	if r.Chance(15) || len(lens) == 0 {
		return r.Intn(total + 1)
	}
	i := r.Intn(len(lens))
	off := hdr
	for _, l := range lens[:i] {
		off += 9 + l
	}
	l := lens[i]
	switch r.Intn(7) {
	case 0:
		return off // boundary before message i
	case 1:
		return off + 1
	case 2:
		return off + 2 + r.Intn(7)
	case 3:
		return off + 9
	case 4:
		return off + 9 + r.Intn(l+1)
	case 5:
		return off + 9 + l - 1
	}
	return off + 9 + l
}

func genStream(o *hx.Out, r *hx.Rand, n int, tier string) {
	// end-to-end worlds: 2-3 nodes, 1-3 shards on the asked node, strings of 0 / 9000 / 30000 bytes
	nworlds := 2
	if tier == "thorough" {
		nworlds = 8
	}
	perWorld := n / 6 / nworlds
	for wi := 0; wi < nworlds; wi++ {
		nn := 2 + r.Intn(2)
		node := uint64(1 + r.Intn(nn))
		wd := worldDesc{N: nn, Groups: 1}
		ns := 1 + r.Intn(3)
		big := []int{0, 9000, 30000}[r.Intn(3)]
		var ids []uint64
		for s := 1; s <= ns; s++ {
			sp := shardPlan{ID: uint64(s), Group: 0, Owners: []uint64{node}, Big: big}
			if r.Bool() {
				sp.Owners = append(sp.Owners, uint64(int(node)%nn+1))
			}
			for q := r.Intn(4); q > 0; q-- {
				sp.Times = append(sp.Times, int64(s*100+q*7+r.Intn(5)))
			}
			wd.Shards = append(wd.Shards, sp)
			if r.Chance(80) || len(ids) == 0 {
				ids = append(ids, sp.ID)
			}
		}
		for _, grp := range []bool{false, true} {
			d := sreadDesc{World: wd, Node: node, IDs: ids, Grp: grp}
			hdr, lens := probeSRead(d)
			if hdr == 0 {
				continue
			}
			d.K = -1
			runSRead(o, d, "gen")
			for i := 0; i < perWorld/2; i++ {
				d.K = pickCut(r, hdr, lens)
				if r.Chance(12) {
					d.K = r.Intn(hdr + 1)
				}
				runSRead(o, d, "gen")
			}
		}
	}
	// synthetic streams
	for i := 0; i < n-n/6; i++ {
		grp := r.Chance(40)
		ms := genMsgs(r, grp)
		lens := streamLens(ms)
		k := pickCut(r, 0, lens)
		if i%3 == 0 {
			tail := ""
			if r.Chance(30) {
				tail = []string{"neg", "big", "hdr3", "typ"}[r.Intn(4)]
				if r.Chance(70) {
					k += 12
				}
			}
			runRecv(o, recvDesc{Msgs: ms, Tail: tail, K: k}, "gen")
		} else {
			runRS(o, rsDesc{Grp: grp, Msgs: ms, K: k}, "gen")
		}
	}
}
