// h_c05: correspondence harness for C05 (distributed query reads every shard exactly once
// or fails).  An in-process mini-cluster: every data node is a real tsdb.Store + a real
// coordinator.Service behind a real tcp.Mux on loopback; every coordinating node uses a real
// MetaExecutor + ClusterShardMapper; all share a fake MetaClient backed by a real meta.Data.
// Faults are injected below the mux (connection wrapper: refuse, cut the reply) and in the
// node's TSDBStore (shard group returning an error => the Service replies with an error).
package main

import (
	"context"
	"encoding/binary"
	"encoding/json"
	"errors"
	"fmt"
	"io"
	"log"
	"math/rand"
	"net"
	"os"
	"sort"
	"strconv"
	"strings"
	"sync"
	"syscall"
	"time"

	"github.com/influxdata/influxdb/coordinator"
	"github.com/influxdata/influxdb/models"
	"github.com/influxdata/influxdb/query"
	"github.com/influxdata/influxdb/services/meta"
	"github.com/influxdata/influxdb/services/storage"
	"github.com/influxdata/influxdb/storage/reads"
	"github.com/influxdata/influxdb/storage/reads/datatypes"
	"github.com/influxdata/influxdb/tcp"
	"github.com/influxdata/influxdb/tsdb"
	_ "github.com/influxdata/influxdb/tsdb/engine"
	_ "github.com/influxdata/influxdb/tsdb/index"
	"github.com/influxdata/influxql"
	"verifharness/hx"
)

// ---------------------------------------------------------------- input description

type shardPlan struct {
	ID     uint64   `json:"id"`
	Owners []uint64 `json:"owners"`
	Group  int      `json:"group"`
	RP     int      `json:"rp,omitempty"` // retention policy 0 ("rp") or 1 ("rp1")
	Times  []int64  `json:"times"` // timestamps = row ids (unique in the world)
	// store-read / SHOW worlds only: Big > 0 adds a string field "s" of Big bytes to every point
	// of measurement "m" (response messages are flushed every 64 KiB); Tagged adds one series
	// per triple (measurement "t<a>", tag "k<b>" = "v<c>")
	Big    int      `json:"big,omitempty"`
	// typed-merge worlds only: timestamps (= row ids) of the points of measurement "mi", whose
	// field "v" is an INTEGER; a shard with no Int holds no measurement "mi" at all
	Int []int64 `json:"int,omitempty"`
	// MapType worlds only: the type ("f", "i", "s", "b") of field "w" of measurement "mt" in
	// this shard; empty: the shard does not hold the measurement
	WT string `json:"wt,omitempty"`
	Tagged [][3]int `json:"tagged,omitempty"`
}

type worldDesc struct {
	N      int         `json:"n"`      // data nodes 1..N
	Groups int         `json:"groups"` // without group_defs: shard group g covers [g*1000, (g+1)*1000) in both rps
	Shards []shardPlan `json:"shards"` // in metadata order; Group indexes group_defs when present
	// explicit metadata history: odd-sized groups, truncated groups with successors, deleted groups
	GroupDefs []groupDef `json:"group_defs,omitempty"`
}

type groupDef struct {
	RP      int    `json:"rp"`
	Start   int64  `json:"start"`
	End     int64  `json:"end"`
	Trunc   *int64 `json:"trunc,omitempty"` // TruncatedAt
	Deleted bool   `json:"deleted,omitempty"`
}

// defs returns the shard groups of the world and, for each shard, the index of its group
func (w worldDesc) defs() ([]groupDef, []int) {
	idx := make([]int, len(w.Shards))
	if len(w.GroupDefs) > 0 {
		for i, sp := range w.Shards {
			idx[i] = sp.Group
		}
		return w.GroupDefs, idx
	}
	var ds []groupDef
	for rp := 0; rp < 2; rp++ {
		for g := 0; g < w.Groups; g++ {
			ds = append(ds, groupDef{RP: rp, Start: int64(g) * 1000, End: int64(g+1) * 1000})
		}
	}
	for i, sp := range w.Shards {
		idx[i] = sp.RP*w.Groups + sp.Group
	}
	return ds, idx
}

// groupsOfRP: the groups of one retention policy that have shards, in metadata order
// (sorted by start time, as meta.Data keeps them), each with the indexes of its shards
func (w worldDesc) groupsOfRP(rp int) (gs []groupDef, shards [][]int) {
	ds, idx := w.defs()
	var order []int
	for gi, g := range ds {
		if g.RP != rp {
			continue
		}
		has := false
		for i := range w.Shards {
			has = has || idx[i] == gi
		}
		if has {
			order = append(order, gi)
		}
	}
	sort.SliceStable(order, func(a, b int) bool { return ds[order[a]].Start < ds[order[b]].Start })
	for _, gi := range order {
		gs = append(gs, ds[gi])
		var sh []int
		for i := range w.Shards {
			if idx[i] == gi {
				sh = append(sh, i)
			}
		}
		shards = append(shards, sh)
	}
	return
}

func (w worldDesc) shardDeleted(i int) bool {
	ds, idx := w.defs()
	return ds[idx[i]].Deleted
}

type faultPlan struct {
	Seed    uint64 `json:"seed"`
	Prob    int    `json:"prob"`     // percent of requests that get a fault
	CleanOK bool   `json:"clean_ok"` // allow cuts at a frame boundary / right after a length prefix
}

type queryDesc struct {
	World worldDesc `json:"world"`
	Local uint64    `json:"local"`
	Tmin  int64     `json:"tmin"`
	Tmax  int64     `json:"tmax"`
	Down  []uint64  `json:"down"`
	Fault faultPlan `json:"fault"`
	Ops   []string  `json:"ops"` // "ci" | "fd" | "ic"
	// sources of the statement (default: one measurement "m" of "rp"); OpSrc[i] = index of the
	// source whose measurement operation i addresses (default 0)
	Sources []srcDesc `json:"sources,omitempty"`
	OpSrc   []int     `json:"op_src,omitempty"`
	// when non-zero, math/rand is seeded with it right before MapShards (designed cases that
	// need a particular random owner choice try a few seeds)
	RandSeed int64 `json:"rand_seed,omitempty"`
}

type srcDesc struct {
	RP   int  `json:"rp"`            // 0 | 1
	Meas int  `json:"meas"`          // measurement "m", "m1", "m2" (identical data)
	Sub  bool `json:"sub,omitempty"` // wrapped in a subquery
}

func rpName(i int) string {
	if i == 0 {
		return "rp"
	}
	return fmt.Sprintf("rp%d", i)
}

func measName(i int) string {
	if i == 0 {
		return "m"
	}
	return fmt.Sprintf("m%d", i)
}

const nMeas = 3

func (d queryDesc) sources() []srcDesc {
	if len(d.Sources) == 0 {
		return []srcDesc{{}}
	}
	return d.Sources
}

func (d queryDesc) opSrc(i int) int {
	if i < len(d.OpSrc) {
		return d.OpSrc[i]
	}
	return 0
}

func measurementOf(sd srcDesc) *influxql.Measurement {
	return &influxql.Measurement{Database: "db", RetentionPolicy: rpName(sd.RP), Name: measName(sd.Meas)}
}

type respDesc struct {
	Op  string `json:"op"`  // ci fd ic rf rg
	Out string `json:"out"` // serve error dial cuthdr
}

// ---------------------------------------------------------------- outcomes

type outcome struct {
	Kind string // serve error cuthdr cutpts
	J, B int
}

func (o outcome) coq() string {
	switch o.Kind {
	case "error":
		return "ErrorReply"
	case "cuthdr":
		return "CutHdr"
	case "cutpts":
		return fmt.Sprintf("(CutPts %d %d)", o.J, o.B)
	case "dial":
		return "DialFail"
	}
	return "Serve"
}

func mix(x uint64) uint64 {
	x += 0x9E3779B97F4A7C15
	x = (x ^ (x >> 30)) * 0xBF58476D1CE4E5B9
	x = (x ^ (x >> 27)) * 0x94D049BB133111EB
	return x ^ (x >> 31)
}

// the node behaviour: a deterministic function of (plan, node, shard ids, call index)
func (f faultPlan) outcomeFor(node uint64, ids []uint64, idx int) outcome {
	h := mix(f.Seed ^ mix(node))
	for _, id := range ids {
		h = mix(h ^ id)
	}
	h = mix(h ^ uint64(idx)*0x1F)
	if int(h%100) >= f.Prob {
		return outcome{Kind: "serve"}
	}
	h = mix(h)
	switch k := h % 100; {
	case k < 35:
		return outcome{Kind: "error"}
	case k < 55:
		return outcome{Kind: "cuthdr"}
	default:
		h = mix(h)
		j := int(h % 4)
		h = mix(h)
		// a stream that stops after b bytes of a frame ends "cleanly" for the client iff
		// b = 0 or b = 4 (see Model.clean_cut): only plans with CleanOK produce those
		b := int(h%7) + 1
		if b == 4 {
			b = 5
		}
		if f.CleanOK && (h>>8)%3 == 0 {
			b = 4 * int((h>>16)%2)
		}
		return outcome{Kind: "cutpts", J: j, B: b}
	}
}

func keyOf(ids []uint64) string {
	s := make([]string, len(ids))
	for i, x := range ids {
		s[i] = strconv.FormatUint(x, 10)
	}
	return strings.Join(s, ",")
}

// ---------------------------------------------------------------- per-case node state

type callRec struct {
	Node uint64
	IDs  []uint64
	Idx  int
	Out  outcome
	Typ  byte
}

type caseState struct {
	mu      sync.Mutex
	plan    func(node uint64, ids []uint64, idx int, typ byte) outcome
	counts  map[string]int // node|ids -> calls so far
	calls   []callRec
	pendErr map[string]int // node|ids -> error replies the store still has to produce
	showErr map[uint64]bool // nodes whose store fails MeasurementNames / TagKeys / TagValues
	delay   map[uint64]time.Duration // typed-merge cases: how long a node waits before it serves a request
}

func newCaseState(plan func(node uint64, ids []uint64, idx int, typ byte) outcome) *caseState {
	return &caseState{plan: plan, counts: map[string]int{}, pendErr: map[string]int{}}
}

func (cs *caseState) onRequest(node uint64, ids []uint64, typ byte) outcome {
	cs.mu.Lock()
	defer cs.mu.Unlock()
	k := fmt.Sprintf("%d|%s", node, keyOf(ids))
	idx := cs.counts[k]
	cs.counts[k] = idx + 1
	out := cs.plan(node, ids, idx, typ)
	cs.calls = append(cs.calls, callRec{Node: node, IDs: append([]uint64(nil), ids...), Idx: idx, Out: out, Typ: typ})
	if out.Kind == "error" {
		cs.pendErr[k]++
	}
	return out
}

func (cs *caseState) takeErr(node uint64, ids []uint64) bool {
	cs.mu.Lock()
	defer cs.mu.Unlock()
	k := fmt.Sprintf("%d|%s", node, keyOf(ids))
	if cs.pendErr[k] > 0 {
		cs.pendErr[k]--
		return true
	}
	return false
}

// ---------------------------------------------------------------- fault-injecting connection

const (
	typReadFilter = 17
	typReadGroup  = 19
	typCreateIter = 21
	typIterCost   = 23
	typFieldDims  = 25
)

type node struct {
	id    uint64
	store *tsdb.Store
	svc   *coordinator.Service
	ln    net.Listener
	addr  string
	mu    sync.Mutex
	state *caseState
}

func (n *node) cur() *caseState {
	n.mu.Lock()
	defer n.mu.Unlock()
	return n.state
}

type faultListener struct {
	net.Listener
	n *node
}

func (l *faultListener) Accept() (net.Conn, error) {
	c, err := l.Listener.Accept()
	if err != nil {
		return nil, err
	}
	return &faultConn{Conn: c, n: l.n, cs: l.n.cur()}, nil
}

type faultConn struct {
	net.Conn
	n  *node
	cs *caseState

	rmu       sync.Mutex
	seenHdr   bool
	rbuf      []byte
	wmu       sync.Mutex
	wbuf      []byte
	cur       outcome
	curTyp    byte
	respSent  bool // response TLV of the current request forwarded
	ptsSent   int
	cutDone   bool
	closeOnce sync.Once
}

func (c *faultConn) Read(b []byte) (int, error) {
	n, err := c.Conn.Read(b)
	if n > 0 && c.cs != nil {
		c.rmu.Lock()
		c.rbuf = append(c.rbuf, b[:n]...)
		c.sniff()
		c.rmu.Unlock()
	}
	return n, err
}

func (c *faultConn) sniff() {
	if !c.seenHdr {
		if len(c.rbuf) == 0 {
			return
		}
		c.seenHdr = true
		c.rbuf = c.rbuf[1:]
	}
	for len(c.rbuf) >= 9 {
		typ := c.rbuf[0]
		sz := int64(binary.BigEndian.Uint64(c.rbuf[1:9]))
		if sz < 0 || sz > 1<<24 {
			c.rbuf = nil
			return
		}
		if int64(len(c.rbuf)-9) < sz {
			return
		}
		payload := c.rbuf[9 : 9+sz]
		var ids []uint64
		ok := true
		switch typ {
		case typCreateIter:
			var r coordinator.CreateIteratorRequest
			ok = r.UnmarshalBinary(payload) == nil
			ids = r.ShardIDs
		case typIterCost:
			var r coordinator.IteratorCostRequest
			ok = r.UnmarshalBinary(payload) == nil
			ids = r.ShardIDs
		case typFieldDims:
			var r coordinator.FieldDimensionsRequest
			ok = r.UnmarshalBinary(payload) == nil
			ids = r.ShardIDs
		case typReadFilter:
			var r coordinator.StoreReadFilterRequest
			ok = r.UnmarshalBinary(payload) == nil
			ids = r.ShardIDs
		case typReadGroup:
			var r coordinator.StoreReadGroupRequest
			ok = r.UnmarshalBinary(payload) == nil
			ids = r.ShardIDs
		default:
			ok = false
		}
		c.rbuf = c.rbuf[9+sz:]
		if !ok {
			continue
		}
		out := c.cs.onRequest(c.n.id, ids, typ)
		c.wmu.Lock()
		c.cur, c.curTyp, c.respSent, c.ptsSent = out, typ, false, 0
		c.wmu.Unlock()
	}
}

func streamingTyp(t byte) bool { return t == typCreateIter }

// isPointFrame: a frame of the point stream that carries a point (no Stats = 11, no Trace = 13)
func isPointFrame(p []byte) bool {
	i := 0
	for i < len(p) {
		tag, n := binary.Uvarint(p[i:])
		if n <= 0 {
			return true
		}
		i += n
		field, wt := tag>>3, tag&7
		if field == 11 || field == 13 {
			return false
		}
		switch wt {
		case 0:
			_, n := binary.Uvarint(p[i:])
			if n <= 0 {
				return true
			}
			i += n
		case 1:
			i += 8
		case 2:
			l, n := binary.Uvarint(p[i:])
			if n <= 0 {
				return true
			}
			i += n + int(l)
		case 5:
			i += 4
		default:
			return true
		}
	}
	return true
}

func (c *faultConn) cut(prefix []byte) {
	if len(prefix) > 0 {
		c.Conn.Write(prefix)
	}
	c.cutDone = true
	c.closeOnce.Do(func() { c.Conn.Close() })
}

func (c *faultConn) Write(b []byte) (int, error) {
	if c.cs == nil {
		return c.Conn.Write(b)
	}
	c.wmu.Lock()
	defer c.wmu.Unlock()
	if c.cutDone {
		return 0, errors.New("connection cut by fault injection")
	}
	c.wbuf = append(c.wbuf, b...)
	for {
		if !c.respSent {
			if len(c.wbuf) < 9 {
				break
			}
			sz := int(binary.BigEndian.Uint64(c.wbuf[1:9]))
			if len(c.wbuf) < 9+sz {
				break
			}
			unit := c.wbuf[:9+sz]
			if c.cur.Kind == "cuthdr" {
				c.cut(unit[:(9+sz)/2])
				return 0, errors.New("connection cut by fault injection")
			}
			if _, err := c.Conn.Write(unit); err != nil {
				return 0, err
			}
			c.wbuf = c.wbuf[9+sz:]
			c.respSent = true
			if !streamingTyp(c.curTyp) {
				c.respSent = false // next request on this pooled connection
				c.cur = outcome{Kind: "serve"}
			}
			continue
		}
		// point stream frames: uint32 length + protobuf
		if len(c.wbuf) < 4 {
			break
		}
		sz := int(binary.BigEndian.Uint32(c.wbuf[:4]))
		if len(c.wbuf) < 4+sz {
			break
		}
		unit := c.wbuf[:4+sz]
		if c.cur.Kind == "cutpts" && c.ptsSent == c.cur.J {
			nb := c.cur.B
			if nb > len(unit)-1 {
				nb = len(unit) - 1
			}
			c.cut(unit[:nb])
			return 0, errors.New("connection cut by fault injection")
		}
		if _, err := c.Conn.Write(unit); err != nil {
			return 0, err
		}
		if isPointFrame(unit[4:]) {
			c.ptsSent++
		}
		c.wbuf = c.wbuf[4+sz:]
	}
	return len(b), nil
}

func (c *faultConn) Close() error {
	var err error
	c.closeOnce.Do(func() { err = c.Conn.Close() })
	return err
}

// ---------------------------------------------------------------- store wrappers

var errInjected = errors.New("injected storage error")

type errShardGroup struct{ tsdb.ShardGroup }

func (errShardGroup) CreateIterator(ctx context.Context, m *influxql.Measurement, opt query.IteratorOptions) (query.Iterator, error) {
	return nil, errInjected
}
func (errShardGroup) IteratorCost(measurement string, opt query.IteratorOptions) (query.IteratorCost, error) {
	return query.IteratorCost{}, errInjected
}
func (errShardGroup) FieldDimensions(measurements []string) (map[string]influxql.DataType, map[string]struct{}, error) {
	return nil, nil, errInjected
}

// nodeStore is the TSDBStore of a data node's coordinator.Service
type nodeStore struct {
	*tsdb.Store
	n *node
}

func (s nodeStore) ShardGroup(ids []uint64) tsdb.ShardGroup {
	if cs := s.n.cur(); cs != nil && cs.delay != nil {
		time.Sleep(cs.delay[s.n.id])
	}
	sg := s.Store.ShardGroup(ids)
	if cs := s.n.cur(); cs != nil && cs.takeErr(s.n.id, ids) {
		return errShardGroup{sg}
	}
	return sg
}

func (s nodeStore) showErr() bool {
	cs := s.n.cur()
	return cs != nil && cs.showErr[s.n.id]
}

func (s nodeStore) MeasurementNames(ctx context.Context, auth query.FineAuthorizer, database string, retentionPolicy string, cond influxql.Expr) ([][]byte, error) {
	if s.showErr() {
		return nil, errInjected
	}
	return s.Store.MeasurementNames(ctx, auth, database, retentionPolicy, cond)
}

func (s nodeStore) TagKeys(ctx context.Context, auth query.FineAuthorizer, shardIDs []uint64, cond influxql.Expr) ([]tsdb.TagKeys, error) {
	if s.showErr() {
		return nil, errInjected
	}
	return s.Store.TagKeys(ctx, auth, shardIDs, cond)
}

func (s nodeStore) TagValues(ctx context.Context, auth query.FineAuthorizer, shardIDs []uint64, cond influxql.Expr) ([]tsdb.TagValues, error) {
	if s.showErr() {
		return nil, errInjected
	}
	return s.Store.TagValues(ctx, auth, shardIDs, cond)
}

// errStore is the storage Store of a node for ReadFilter/ReadGroup
type rfStore struct {
	n    *node
	real *storage.Store
}

func (s rfStore) ReadFilter(ctx context.Context, req *datatypes.ReadFilterRequest) (reads.ResultSet, error) {
	ids, _ := ctx.Value(coordinator.ShardIDsKey).([]uint64)
	if cs := s.n.cur(); cs != nil && cs.takeErr(s.n.id, ids) {
		return nil, errInjected
	}
	if req.ReadSource == nil || s.real == nil {
		return nil, nil
	}
	return s.real.ReadFilter(ctx, req)
}
func (s rfStore) ReadGroup(ctx context.Context, req *datatypes.ReadGroupRequest) (reads.GroupResultSet, error) {
	ids, _ := ctx.Value(coordinator.ShardIDsKey).([]uint64)
	if cs := s.n.cur(); cs != nil && cs.takeErr(s.n.id, ids) {
		return nil, errInjected
	}
	if req.ReadSource == nil || s.real == nil {
		return nil, nil
	}
	return s.real.ReadGroup(ctx, req)
}

// localStore is the TSDBStore of the coordinating node's ClusterShardMapper: records the
// shard ids mapped to the local node
type localStore struct {
	st  *tsdb.Store
	got *[][]uint64
}

func (s localStore) ShardGroup(ids []uint64) tsdb.ShardGroup {
	*s.got = append(*s.got, append([]uint64(nil), ids...))
	return s.st.ShardGroup(ids)
}

// ---------------------------------------------------------------- fake meta client

type svcMeta struct{ id uint64 }

func (m svcMeta) NodeID() uint64            { return m.id }
func (svcMeta) MetaServers() []string       { return nil }
func (svcMeta) SetMetaServers(a []string)   {}
func (svcMeta) DataNode(id uint64) (*meta.NodeInfo, error) {
	return nil, errors.New("node not found")
}
func (svcMeta) CreateDataNode(httpAddr, tcpAddr string) (*meta.NodeInfo, error) {
	return nil, errors.New("not supported")
}
func (svcMeta) DataNodeByTCPAddr(tcpAddr string) (*meta.NodeInfo, error) {
	return nil, errors.New("node not found")
}
func (svcMeta) Status() (*meta.MetaNodeStatus, error) { return nil, errors.New("no status") }
func (svcMeta) Save() error                            { return nil }

type fakeServer struct{}

func (fakeServer) Reset() error       { return nil }
func (fakeServer) HTTPAddr() string   { return "127.0.0.1:0" }
func (fakeServer) HTTPScheme() string { return "http" }
func (fakeServer) TCPAddr() string    { return "127.0.0.1:0" }

type fakeHH struct{}

func (fakeHH) RemoveNode(ownerID uint64) error { return nil }

// clusterMeta implements coordinator.MetaClient (only what the read path uses) on a real
// meta.Data; the embedded nil interface panics on anything else.
type clusterMeta struct {
	coordinator.MetaClient
	local    uint64
	data     *meta.Data
	addrs    map[uint64]string
	down     map[uint64]bool
	deadAddr string
	mu       sync.Mutex
	returned map[string][]meta.ShardInfo
	nmeta    int
}

func (m *clusterMeta) NodeID() uint64 { return m.local }
func (m *clusterMeta) DataNode(id uint64) (*meta.NodeInfo, error) {
	a, ok := m.addrs[id]
	if !ok {
		return nil, fmt.Errorf("node %d not found", id)
	}
	if m.down[id] {
		a = m.deadAddr
	}
	return &meta.NodeInfo{ID: id, Addr: a, TCPAddr: a}, nil
}
func (m *clusterMeta) DataNodes() []meta.NodeInfo {
	var out []meta.NodeInfo
	for id, a := range m.addrs {
		out = append(out, meta.NodeInfo{ID: id, Addr: a, TCPAddr: a})
	}
	sort.Slice(out, func(i, j int) bool { return out[i].ID < out[j].ID })
	return out
}
func (m *clusterMeta) DataNodeByTCPAddr(tcpAddr string) (*meta.NodeInfo, error) {
	for id, a := range m.addrs {
		if a == tcpAddr {
			return &meta.NodeInfo{ID: id, Addr: a, TCPAddr: a}, nil
		}
	}
	return nil, errors.New("node not found")
}
func (m *clusterMeta) ShardGroupsByTimeRange(database, policy string, min, max time.Time) ([]meta.ShardGroupInfo, error) {
	gs, err := m.data.ShardGroupsByTimeRange(database, policy, min, max)
	if err == nil {
		m.mu.Lock()
		if m.returned == nil {
			m.returned = map[string][]meta.ShardInfo{}
		}
		m.returned[policy] = nil
		for _, g := range gs {
			m.returned[policy] = append(m.returned[policy], g.Shards...)
		}
		m.nmeta++
		m.mu.Unlock()
	}
	return gs, err
}

// ---------------------------------------------------------------- world

type world struct {
	desc     worldDesc
	key      string
	dir      string
	nodes    map[uint64]*node
	ref      *tsdb.Store
	data     *meta.Data
	deadAddr string
}

func openStore(dir string) *tsdb.Store {
	st := tsdb.NewStore(dir + "/data")
	st.EngineOptions.Config.WALDir = dir + "/wal"
	st.EngineOptions.Config.Dir = dir + "/data"
	if err := st.Open(); err != nil {
		panic(err)
	}
	return st
}

func loadShard(st *tsdb.Store, sp shardPlan) {
	if err := st.CreateShard("db", rpName(sp.RP), sp.ID, true); err != nil {
		panic(err)
	}
	// a sentinel point before every query range: the measurement exists in every shard
	// (IteratorCost counts the shard) even when a shard has no row in range
	st0 := -int64(1000 + sp.ID)
	var pts []models.Point
	for mi := 0; mi < nMeas; mi++ { // every measurement holds the same data
		pts = append(pts, models.MustNewPoint(measName(mi), models.NewTags(nil),
			models.Fields{"v": float64(st0), fmt.Sprintf("f%d", sp.ID): float64(1)}, time.Unix(0, st0)))
		for _, t := range sp.Times {
			pts = append(pts, models.MustNewPoint(measName(mi), models.NewTags(nil),
				models.Fields{"v": float64(t), fmt.Sprintf("f%d", sp.ID): float64(1)}, time.Unix(0, t)))
		}
	}
	if sp.Big > 0 {
		big := strings.Repeat("x", sp.Big)
		for _, t := range sp.Times {
			pts = append(pts, models.MustNewPoint(measName(0), models.NewTags(nil), models.Fields{"s": big}, time.Unix(0, t)))
		}
	}
	if sp.WT != "" {
		var v interface{}
		switch sp.WT {
		case "f":
			v = float64(1)
		case "i":
			v = int64(1)
		case "s":
			v = "x"
		case "b":
			v = true
		default:
			panic("unknown field type " + sp.WT)
		}
		pts = append(pts, models.MustNewPoint("mt", models.NewTags(nil), models.Fields{"w": v}, time.Unix(0, int64(sp.Group)*1000)))
	}
	for _, t := range sp.Int {
		pts = append(pts, models.MustNewPoint("mi", models.NewTags(nil), models.Fields{"v": int64(t)}, time.Unix(0, t)))
	}
	for i, tg := range sp.Tagged {
		pts = append(pts, models.MustNewPoint(fmt.Sprintf("t%d", tg[0]),
			models.NewTags(map[string]string{fmt.Sprintf("k%d", tg[1]): fmt.Sprintf("v%d", tg[2])}),
			models.Fields{"v": float64(1)}, time.Unix(0, int64(sp.Group)*1000+int64(i))))
	}
	if err := st.WriteToShard(sp.ID, pts); err != nil {
		panic(err)
	}
}

func buildWorld(d worldDesc, deadAddr string) *world {
	b, _ := json.Marshal(d)
	dir, err := os.MkdirTemp("", "h_c05w")
	if err != nil {
		panic(err)
	}
	w := &world{desc: d, key: string(b), dir: dir, nodes: map[uint64]*node{}, deadAddr: deadAddr}
	// metadata: a real meta.Data with hand-placed shard groups (arbitrary ownership layouts)
	var rps []meta.RetentionPolicyInfo
	for rp := 0; rp < 2; rp++ {
		gds, gshards := d.groupsOfRP(rp)
		var groups []meta.ShardGroupInfo
		for gi, gd := range gds {
			g := meta.ShardGroupInfo{ID: uint64(rp*100 + gi + 1), StartTime: time.Unix(0, gd.Start), EndTime: time.Unix(0, gd.End)}
			if gd.Trunc != nil {
				g.TruncatedAt = time.Unix(0, *gd.Trunc)
			}
			if gd.Deleted {
				g.DeletedAt = time.Unix(0, 1)
			}
			for _, si := range gshards[gi] {
				sp := d.Shards[si]
				info := meta.ShardInfo{ID: sp.ID}
				for _, o := range sp.Owners {
					info.Owners = append(info.Owners, meta.ShardOwner{NodeID: o})
				}
				g.Shards = append(g.Shards, info)
			}
			groups = append(groups, g)
		}
		rps = append(rps, meta.RetentionPolicyInfo{Name: rpName(rp), ReplicaN: 1, ShardGroupDuration: time.Hour, ShardGroups: groups})
	}
	w.data = &meta.Data{Databases: []meta.DatabaseInfo{{Name: "db", DefaultRetentionPolicy: "rp", RetentionPolicies: rps}}}
	// reference: one store holding every shard once
	w.ref = openStore(dir + "/ref")
	for i, sp := range d.Shards {
		if !d.shardDeleted(i) { // data of a deleted group is no longer part of the database
			loadShard(w.ref, sp)
		}
	}
	for id := uint64(1); id <= uint64(d.N); id++ {
		n := &node{id: id}
		n.store = openStore(fmt.Sprintf("%s/n%d", dir, id))
		for _, sp := range d.Shards {
			for _, o := range sp.Owners {
				if o == id {
					loadShard(n.store, sp)
					break
				}
			}
		}
		ln, err := net.Listen("tcp", "127.0.0.1:0")
		if err != nil {
			panic(err)
		}
		n.ln = ln
		n.addr = ln.Addr().String()
		mux := tcp.NewMux()
		mux.Logger = log.New(io.Discard, "", 0)
		svc := coordinator.NewService(coordinator.NewConfig())
		svc.TSDBStore = nodeStore{Store: n.store, n: n}
		svc.Store = rfStore{n: n, real: storage.NewStore(n.store, storeMeta{id: id, data: w.data})}
		svc.MetaClient = svcMeta{id: id}
		svc.Server = fakeServer{}
		svc.HintedHandoff = fakeHH{}
		svc.TaskManager = query.NewTaskManager()
		svc.Listener = mux.Listen(coordinator.MuxHeader)
		svc.DefaultListener = mux.DefaultListener()
		go mux.Serve(&faultListener{Listener: ln, n: n})
		if err := svc.Open(); err != nil {
			panic(err)
		}
		n.svc = svc
		w.nodes[id] = n
	}
	return w
}

func (w *world) close() {
	for _, n := range w.nodes {
		n.ln.Close()
		n.svc.Close()
		n.store.Close()
	}
	w.ref.Close()
	os.RemoveAll(w.dir)
}

func (w *world) setState(cs *caseState) {
	for _, n := range w.nodes {
		n.mu.Lock()
		n.state = cs
		n.mu.Unlock()
	}
}

func (w *world) metaFor(local uint64, down []uint64) *clusterMeta {
	m := &clusterMeta{local: local, data: w.data, addrs: map[uint64]string{}, down: map[uint64]bool{}, deadAddr: w.deadAddr}
	for id, n := range w.nodes {
		m.addrs[id] = n.addr
	}
	for _, d := range down {
		m.down[d] = true
	}
	return m
}

var (
	worlds   = map[string]*world{}
	worldLRU []string
	deadAddr string
)

func getWorld(d worldDesc) *world {
	b, _ := json.Marshal(d)
	k := string(b)
	if w, ok := worlds[k]; ok {
		return w
	}
	if len(worldLRU) >= 3 {
		old := worldLRU[0]
		worldLRU = worldLRU[1:]
		worlds[old].close()
		delete(worlds, old)
	}
	w := buildWorld(d, deadAddr)
	worlds[k] = w
	worldLRU = append(worldLRU, k)
	return w
}

// ---------------------------------------------------------------- running one query case

var measurement = &influxql.Measurement{Database: "db", RetentionPolicy: "rp", Name: "m"}

func iterOpt() query.IteratorOptions {
	return query.IteratorOptions{
		Expr:      &influxql.VarRef{Val: "v", Type: influxql.Float},
		Ordered:   true,
		Ascending: true,
		StartTime: influxql.MinTime,
		EndTime:   influxql.MaxTime,
	}
}

type opObs struct {
	Err  bool     `json:"err"`
	Vals []uint64 `json:"vals,omitempty"`
	Msg  string   `json:"msg,omitempty"`
}

func (o opObs) coq() string {
	if o.Err {
		return "OErr"
	}
	return "(OOk " + hx.CoqNList(o.Vals) + ")"
}

func drain(itr query.Iterator) (rows []uint64, err error) {
	if itr == nil {
		return nil, nil
	}
	defer itr.Close()
	fi, ok := itr.(query.FloatIterator)
	if !ok {
		return nil, fmt.Errorf("unexpected iterator type %T", itr)
	}
	for {
		p, err := fi.Next()
		if err != nil {
			return nil, err
		}
		if p == nil {
			break
		}
		if p.Value != float64(p.Time) {
			return nil, fmt.Errorf("corrupt point t=%d v=%v", p.Time, p.Value)
		}
		rows = append(rows, uint64(p.Time))
	}
	sort.Slice(rows, func(i, j int) bool { return rows[i] < rows[j] })
	return rows, nil
}

func runOp(sg query.ShardGroup, measurement *influxql.Measurement, op string) (obs opObs) {
	defer func() {
		if e := recover(); e != nil {
			obs = opObs{Err: true, Msg: fmt.Sprintf("panic: %v", e)}
		}
	}()
	switch op {
	case "ci":
		itr, err := sg.CreateIterator(context.Background(), measurement, iterOpt())
		if err != nil {
			return opObs{Err: true, Msg: err.Error()}
		}
		rows, err := drain(itr)
		if err != nil {
			return opObs{Err: true, Msg: err.Error()}
		}
		return opObs{Vals: rows}
	case "fd":
		fields, _, err := sg.FieldDimensions(measurement)
		if err != nil {
			return opObs{Err: true, Msg: err.Error()}
		}
		var ids []uint64
		for f := range fields {
			if strings.HasPrefix(f, "f") {
				id, _ := strconv.ParseUint(f[1:], 10, 64)
				ids = append(ids, id)
			}
		}
		sort.Slice(ids, func(i, j int) bool { return ids[i] < ids[j] })
		return opObs{Vals: ids}
	case "ic":
		cost, err := sg.IteratorCost(measurement, iterOpt())
		if err != nil {
			return opObs{Err: true, Msg: err.Error()}
		}
		return opObs{Vals: []uint64{uint64(cost.NumShards)}}
	}
	panic("unknown op " + op)
}

func coqOp(op string) string {
	switch op {
	case "ci":
		return "OpCI"
	case "fd":
		return "OpFD"
	case "ic":
		return "OpIC"
	case "rf":
		return "OpRF"
	case "rg":
		return "OpRG"
	}
	panic("op " + op)
}


func coqKey(node uint64, ids []uint64) string {
	return fmt.Sprintf("(%d, %s)", node, hx.CoqNList(ids))
}

// validQuery: the hypotheses under which the property is stated (and the harness' own
// conventions); replayed / shrunk inputs outside them are skipped, not run.
func validQuery(d queryDesc) bool {
	w := d.World
	if w.N < 1 || w.N > 6 || w.Groups < 1 || w.Groups > 8 || d.Local < 1 || d.Local > uint64(w.N) || d.Tmin < 0 || d.Tmax < d.Tmin {
		return false
	}
	if len(w.GroupDefs) > 16 {
		return false
	}
	for _, gd := range w.GroupDefs {
		if gd.RP < 0 || gd.RP > 1 || gd.Start < 0 || gd.End <= gd.Start || gd.End > 1<<40 {
			return false
		}
		if gd.Trunc != nil && (*gd.Trunc < gd.Start || *gd.Trunc >= gd.End) {
			return false
		}
	}
	ngroups := w.Groups
	if len(w.GroupDefs) > 0 {
		ngroups = len(w.GroupDefs)
	}
	ids, times := map[uint64]bool{}, map[int64]bool{}
	for _, sp := range w.Shards {
		if sp.ID == 0 || ids[sp.ID] || len(sp.Owners) == 0 || sp.Group < 0 || sp.Group >= ngroups || sp.RP < 0 || sp.RP > 1 {
			return false
		}
		if len(w.GroupDefs) > 0 && w.GroupDefs[sp.Group].RP != sp.RP {
			return false
		}
		ids[sp.ID] = true
		seen := map[uint64]bool{}
		for _, ow := range sp.Owners {
			if ow < 1 || ow > uint64(w.N) || seen[ow] {
				return false
			}
			seen[ow] = true
		}
		for _, t := range sp.Times {
			lo, hi := int64(sp.Group)*1000, int64(sp.Group+1)*1000
			if len(w.GroupDefs) > 0 {
				lo, hi = w.GroupDefs[sp.Group].Start, w.GroupDefs[sp.Group].End
			}
			if times[t] || t < lo || t >= hi {
				return false
			}
			times[t] = true
		}
	}
	for _, n := range d.Down {
		if n < 1 || n > uint64(w.N) {
			return false
		}
	}
	for i, op := range d.Ops {
		if op != "ci" && op != "fd" && op != "ic" {
			return false
		}
		if d.opSrc(i) < 0 || d.opSrc(i) >= len(d.sources()) {
			return false
		}
	}
	if len(d.Sources) > 4 || len(d.OpSrc) > len(d.Ops) {
		return false
	}
	for _, sd := range d.Sources {
		if sd.RP < 0 || sd.RP > 1 || sd.Meas < 0 || sd.Meas >= nMeas {
			return false
		}
	}
	for _, sp := range w.Shards {
		if sp.RP < 0 || sp.RP > 1 {
			return false
		}
	}
	return d.Fault.Prob >= 0 && d.Fault.Prob <= 100
}

func runQuery(o *hx.Out, d queryDesc, origin string) {
	if !validQuery(d) {
		o.Count("query:skipped-invalid-input")
		return
	}
	o.Begin("query", d)
	w := getWorld(d.World)
	cs := newCaseState(func(node uint64, ids []uint64, idx int, typ byte) outcome {
		return d.Fault.outcomeFor(node, ids, idx)
	})
	w.setState(cs)
	defer w.setState(nil)

	mc := w.metaFor(d.Local, d.Down)
	me := coordinator.NewMetaExecutor(60*time.Second, 10*time.Second, 0, 64)
	me.MetaClient = mc
	defer me.Close()
	var localGot [][]uint64
	var localSt *tsdb.Store
	if n, ok := w.nodes[d.Local]; ok {
		localSt = n.store
	}
	mapper := &coordinator.ClusterShardMapper{MetaClient: mc, TSDBStore: localStore{st: localSt, got: &localGot}, MetaExecutor: me}
	tr := influxql.TimeRange{Min: time.Unix(0, d.Tmin).UTC(), Max: time.Unix(0, d.Tmax).UTC()}
	srcs := d.sources()
	var sources influxql.Sources
	for _, sd := range srcs {
		m := measurementOf(sd)
		if sd.Sub {
			sources = append(sources, &influxql.SubQuery{Statement: &influxql.SelectStatement{Sources: influxql.Sources{m}}})
		} else {
			sources = append(sources, m)
		}
	}

	// reference, independent of the metadata lookup under test: one store holding the union of
	// the live data.  Rows (ci): every shard of the retention policy, filtered by time only.
	// Fields / cost (fd, ic): the shards of the live groups whose nominal range [start, end)
	// meets [tmin, tmax].
	refFor := func(all bool) *coordinator.LocalShardMapping {
		lm := &coordinator.LocalShardMapping{ShardMap: map[coordinator.Source]tsdb.ShardGroup{}, MinTime: tr.Min, MaxTime: tr.Max}
		for rp := 0; rp < 2; rp++ {
			gds, gshards := d.World.groupsOfRP(rp)
			var ids []uint64
			for gi, gd := range gds {
				if gd.Deleted || (!all && !(gd.Start <= d.Tmax && gd.End > d.Tmin)) {
					continue
				}
				for _, si := range gshards[gi] {
					ids = append(ids, d.World.Shards[si].ID)
				}
			}
			lm.ShardMap[coordinator.Source{Database: "db", RetentionPolicy: rpName(rp)}] = w.ref.ShardGroup(ids)
		}
		return lm
	}
	refAll, refMust := refFor(true), refFor(false)
	var refs []opObs
	for i, op := range d.Ops {
		rsg := refMust
		if op == "ci" {
			rsg = refAll
		}
		r := runOp(rsg, measurementOf(srcs[d.opSrc(i)]), op)
		if r.Err {
			panic("reference failed: " + r.Msg)
		}
		refs = append(refs, r)
	}

	var sg query.ShardGroup
	var mapErr error
	func() {
		defer func() {
			if e := recover(); e != nil {
				mapErr = fmt.Errorf("panic: %v", e)
			}
		}()
		if d.RandSeed != 0 {
			rand.Seed(d.RandSeed)
		}
		sg, mapErr = mapper.MapShards(sources, tr, query.SelectOptions{})
	}()
	if mapErr != nil {
		panic("MapShards failed: " + mapErr.Error())
	}
	mc.mu.Lock()
	views := map[int][]meta.ShardInfo{}
	for rp := 0; rp < 2; rp++ {
		if v, ok := mc.returned[rpName(rp)]; ok {
			views[rp] = append([]meta.ShardInfo(nil), v...)
		}
	}
	mc.mu.Unlock()

	// observed mapping per source key
	type ent struct {
		Node uint64   `json:"node"`
		IDs  []uint64 `json:"ids"`
	}
	type srcMap struct {
		RP     int      `json:"rp"`
		Local  []uint64 `json:"local"`
		Remote []ent    `json:"remote"`
	}
	var omap []srcMap
	nremote := 0
	for _, vm := range coordinator.VerifMapping(sg) {
		sm := srcMap{RP: -1, Local: []uint64{}, Remote: []ent{}}
		for rp := 0; rp < 2; rp++ {
			if vm.RetentionPolicy == rpName(rp) {
				sm.RP = rp
			}
		}
		sm.Local = append(sm.Local, vm.Local...)
		sort.Slice(sm.Local, func(i, j int) bool { return sm.Local[i] < sm.Local[j] })
		for _, g := range vm.Remote {
			sm.Remote = append(sm.Remote, ent{g.NodeID, g.ShardIDs})
			nremote++
		}
		omap = append(omap, sm)
	}

	// operations, with the segment of the request log each one produced
	var obs []opObs
	var segs [][]callRec
	for i, op := range d.Ops {
		cs.mu.Lock()
		n0 := len(cs.calls)
		cs.mu.Unlock()
		obs = append(obs, runOp(sg, measurementOf(srcs[d.opSrc(i)]), op))
		cs.mu.Lock()
		seg := append([]callRec(nil), cs.calls[n0:]...)
		cs.mu.Unlock()
		sort.SliceStable(seg, func(i, j int) bool {
			if seg[i].Node != seg[j].Node {
				return seg[i].Node < seg[j].Node
			}
			ki, kj := keyOf(seg[i].IDs), keyOf(seg[j].IDs)
			if ki != kj {
				return ki < kj
			}
			return seg[i].Idx < seg[j].Idx
		})
		segs = append(segs, seg)
	}
	sg.Close()

	// ---- build the Coq case
	var groupsC, oviewsC, dataC []string
	viewIDs := []uint64{}
	rowsObs := map[string][]uint64{}
	for rp := 0; rp < 2; rp++ {
		view, ok := views[rp]
		if !ok {
			continue
		}
		var vids []uint64
		for _, si := range view {
			vids = append(vids, si.ID)
			viewIDs = append(viewIDs, si.ID)
		}
		oviewsC = append(oviewsC, fmt.Sprintf("(%d, %s)", rp, hx.CoqNList(vids)))
		gds, gshards := d.World.groupsOfRP(rp)
		var gsC []string
		for gi, gd := range gds {
			var shardsC []string
			for _, si := range gshards[gi] {
				sp := d.World.Shards[si]
				shardsC = append(shardsC, fmt.Sprintf("(%d, %s)", sp.ID, hx.CoqNList(sp.Owners)))
				rows := []uint64{}
				for _, t := range sp.Times {
					if t >= d.Tmin && t <= d.Tmax {
						rows = append(rows, uint64(t))
					}
				}
				rowsObs[strconv.FormatUint(sp.ID, 10)] = rows
				dataC = append(dataC, fmt.Sprintf("(%d, %s)", sp.ID, hx.CoqNList(rows)))
			}
			tr := "None"
			if gd.Trunc != nil {
				tr = "(Some " + hx.CoqZ(*gd.Trunc) + ")"
			}
			gsC = append(gsC, fmt.Sprintf("(%s, %s, %s, %s, %s)", hx.CoqZ(gd.Start), hx.CoqZ(gd.End), tr, hx.CoqBool(gd.Deleted), hx.CoqList(shardsC)))
		}
		groupsC = append(groupsC, fmt.Sprintf("(%d, %s)", rp, hx.CoqList(gsC)))
	}
	var behC, srcsC, opsC, refsC, omapC, oresC, ologsC []string
	nfault, ncalls := 0, 0
	kinds := map[string]bool{}
	type callObs struct {
		Node uint64   `json:"node"`
		IDs  []uint64 `json:"ids"`
		Idx  int      `json:"idx"`
		Out  string   `json:"out"`
		Req  string   `json:"req"`
		Op   int      `json:"op"`
	}
	callsObs := []callObs{}
	for i, seg := range segs {
		var logC []string
		for _, c := range seg {
			if c.Out.Kind != "serve" {
				behC = append(behC, fmt.Sprintf("(%s, %d, %s)", coqKey(c.Node, c.IDs), c.Idx, c.Out.coq()))
				nfault++
				kinds[c.Out.Kind] = true
			}
			ncalls++
			logC = append(logC, coqKey(c.Node, c.IDs))
			callsObs = append(callsObs, callObs{c.Node, c.IDs, c.Idx, c.Out.coq(),
				map[byte]string{typCreateIter: "ci", typIterCost: "ic", typFieldDims: "fd", typReadFilter: "rf", typReadGroup: "rg"}[c.Typ], i})
		}
		ologsC = append(ologsC, hx.CoqList(logC))
	}
	for _, sd := range srcs {
		srcsC = append(srcsC, strconv.Itoa(sd.RP))
	}
	for i, op := range d.Ops {
		opsC = append(opsC, fmt.Sprintf("(%d, %s)", srcs[d.opSrc(i)].RP, coqOp(op)))
		refsC = append(refsC, hx.CoqNList(refs[i].Vals))
		oresC = append(oresC, obs[i].coq())
	}
	for _, sm := range omap {
		var rem []string
		for _, e := range sm.Remote {
			rem = append(rem, coqKey(e.Node, e.IDs))
		}
		omapC = append(omapC, fmt.Sprintf("(%d, (%s, %s))", sm.RP, hx.CoqNList(sm.Local), hx.CoqList(rem)))
	}
	coq := fmt.Sprintf("CQuery %d %s %s %s %s %s %s %s %s %s %s %s %s %s", d.Local, hx.CoqZ(d.Tmin), hx.CoqZ(d.Tmax),
		hx.CoqList(groupsC), hx.CoqList(dataC),
		hx.CoqNList(d.Down), hx.CoqList(behC), hx.CoqList(srcsC), hx.CoqList(opsC), hx.CoqList(refsC),
		hx.CoqList(oviewsC), hx.CoqList(omapC), hx.CoqList(oresC), hx.CoqList(ologsC))

	// ---- evidence bookkeeping
	o.Count(fmt.Sprintf("query:nodes=%d", d.World.N))
	o.Count(fmt.Sprintf("query:sources=%d", len(srcs)))
	keysSeen := map[int]bool{}
	sameKey, sub := false, false
	for _, sd := range srcs {
		sameKey = sameKey || keysSeen[sd.RP]
		keysSeen[sd.RP] = true
		sub = sub || sd.Sub
	}
	if sameKey {
		o.Count("query:repeated_db_rp=yes")
	}
	if sub {
		o.Count("query:subquery_source=yes")
	}
	nlocal := 0
	for _, sm := range omap {
		nlocal += len(sm.Local)
	}
	switch {
	case nlocal == 0:
		o.Count("query:coordinator_owns=none")
	case nremote == 0:
		o.Count("query:coordinator_owns=all")
	default:
		o.Count("query:coordinator_owns=some")
	}
	o.Count(fmt.Sprintf("query:shards_in_range=%s", bucket(len(viewIDs))))
	o.Count(fmt.Sprintf("query:down=%d", len(d.Down)))
	o.Count(fmt.Sprintf("query:remote_groups=%d", nremote))
	o.Count(fmt.Sprintf("query:requests=%s", bucket(ncalls)))
	o.Count(fmt.Sprintf("query:injected_faults=%s", bucket(nfault)))
	for k := range kinds {
		o.Count("query:fault_kind=" + k)
	}
	for i, op := range d.Ops {
		if obs[i].Err {
			o.Count("query:" + op + "=error")
		} else {
			o.Count("query:" + op + "=ok")
		}
	}
	sigb, _ := json.Marshal(d)
	o.Emit(hx.Case{Kind: "query", Coq: coq, Desc: d,
		Obs:        map[string]interface{}{"results": obs, "reference": refs, "mapping": omap, "served": callsObs, "view": viewIDs, "rows": rowsObs},
		Nontrivial: len(viewIDs) > 0 && nremote > 0,
		Sig:        "q:" + string(sigb), Origin: origin})
}

func bucket(n int) string {
	switch {
	case n == 0:
		return "0"
	case n <= 2:
		return "1-2"
	case n <= 5:
		return "3-5"
	case n <= 10:
		return "6-10"
	}
	return "11+"
}

// ---------------------------------------------------------------- one MetaExecutor call vs one reply

var respWorld = worldDesc{N: 2, Groups: 1, Shards: []shardPlan{{ID: 1, Owners: []uint64{2}, Group: 0, Times: []int64{5, 6}}}}

func runResp(o *hx.Out, d respDesc, origin string) {
	o.Begin("resp", d)
	w := getWorld(respWorld)
	out := outcome{Kind: d.Out}
	cs := newCaseState(func(node uint64, ids []uint64, idx int, typ byte) outcome { return out })
	w.setState(cs)
	defer w.setState(nil)
	var down []uint64
	if d.Out == "dial" {
		down = []uint64{2}
	}
	mc := w.metaFor(1, down)
	me := coordinator.NewMetaExecutor(60*time.Second, 10*time.Second, 0, 64)
	me.MetaClient = mc
	defer me.Close()
	ids := []uint64{1}
	var err error
	func() {
		defer func() {
			if e := recover(); e != nil {
				err = fmt.Errorf("panic: %v", e)
			}
		}()
		switch d.Op {
		case "ci":
			var itr query.Iterator
			itr, err = me.CreateIterator(2, ids, context.Background(), measurement, iterOpt())
			if itr != nil {
				itr.Close()
			}
		case "fd":
			_, _, err = me.FieldDimensions(2, ids, measurement)
		case "ic":
			_, err = me.IteratorCost(2, ids, measurement, iterOpt())
		case "rf":
			var rs reads.ResultSet
			rs, err = me.ReadFilter(2, ids, context.Background(), &datatypes.ReadFilterRequest{})
			if rs != nil {
				rs.Close()
			}
		case "rg":
			var rs reads.GroupResultSet
			rs, err = me.ReadGroup(2, ids, context.Background(), &datatypes.ReadGroupRequest{})
			if rs != nil {
				rs.Close()
			}
		}
	}()
	coq := fmt.Sprintf("CResp %s %s %s", coqOp(d.Op), out.coq(), hx.CoqBool(err != nil))
	o.Count("resp:" + d.Op + ":" + d.Out)
	msg := ""
	if err != nil {
		msg = err.Error()
	}
	o.Emit(hx.Case{Kind: "resp", Coq: coq, Desc: d, Obs: map[string]interface{}{"client_error": err != nil, "msg": msg},
		Nontrivial: d.Out != "serve", Sig: "r:" + d.Op + ":" + d.Out, Origin: origin})
}

// ---------------------------------------------------------------- generation

func genWorld(r *hx.Rand, tier string) worldDesc {
	n := 2 + r.Intn(2)
	if r.Chance(20) {
		n = 4 // rounds with two nodes of which one fails and the query still succeeds need >= 4 nodes
	}
	if tier == "thorough" && r.Chance(10) {
		n = 5
	}
	d := worldDesc{N: n, Groups: 1 + r.Intn(3)}
	id := uint64(1)
	style := r.Intn(3) // 0: ring placement with a replication factor, 1: arbitrary owner sets, 2: mixed
	repl := 1 + r.Intn(n)
	twoRP := r.Chance(40) // some shards live in a second retention policy
	for g := 0; g < d.Groups; g++ {
		ns := 1 + r.Intn(3)
		for k := 0; k < ns; k++ {
			sp := shardPlan{ID: id, Group: g}
			if twoRP && r.Chance(35) {
				sp.RP = 1
			}
			switch {
			case style == 0 || (style == 2 && r.Bool()):
				start := r.Intn(n)
				for j := 0; j < repl; j++ {
					sp.Owners = append(sp.Owners, uint64((start+j)%n+1))
				}
			default:
				perm := []uint64{}
				for x := 1; x <= n; x++ {
					perm = append(perm, uint64(x))
				}
				for i := len(perm) - 1; i > 0; i-- {
					j := r.Intn(i + 1)
					perm[i], perm[j] = perm[j], perm[i]
				}
				sp.Owners = perm[:1+r.Intn(n)]
			}
			np := r.Intn(4)
			for j := 0; j < np; j++ {
				sp.Times = append(sp.Times, int64(g)*1000+int64(k)*100+int64(j)*7+int64(r.Intn(5)))
			}
			d.Shards = append(d.Shards, sp)
			id++
		}
	}
	return d
}

func genOwners(r *hx.Rand, n int) []uint64 {
	perm := []uint64{}
	for x := 1; x <= n; x++ {
		perm = append(perm, uint64(x))
	}
	for i := len(perm) - 1; i > 0; i-- {
		j := r.Intn(i + 1)
		perm[i], perm[j] = perm[j], perm[i]
	}
	return perm[:1+r.Intn(n)]
}

// genHistoryWorld: a metadata history as TRUNCATE SHARDS / ALTER RETENTION POLICY ... SHARD
// DURATION / DROP SHARD leave it: odd-sized consecutive groups, truncated groups (holding points
// stamped after the truncation time, written before it) followed by a successor group
// [truncatedAt, end), deleted groups (optionally re-created).
func genHistoryWorld(r *hx.Rand, tier string) worldDesc {
	n := 2 + r.Intn(2)
	d := worldDesc{N: n}
	id := uint64(1)
	used := map[int64]bool{}
	addShards := func(gi int, rp int, lo, hi int64, minPts int) {
		ns := 1 + r.Intn(2)
		for k := 0; k < ns; k++ {
			sp := shardPlan{ID: id, Group: gi, RP: rp, Owners: genOwners(r, n)}
			np := minPts + r.Intn(3)
			for j := 0; j < np; j++ {
				t := lo + int64(r.Intn(int(hi-lo)))
				switch r.Intn(6) { // bias to the edges of the group
				case 0:
					t = lo
				case 1:
					t = hi - 1
				}
				if !used[t] {
					used[t] = true
					sp.Times = append(sp.Times, t)
				}
			}
			d.Shards = append(d.Shards, sp)
			id++
		}
	}
	nrp := 1
	if r.Chance(30) {
		nrp = 2
	}
	for rp := 0; rp < nrp; rp++ {
		t := int64(0)
		ng := 2 + r.Intn(3)
		for i := 0; i < ng; i++ {
			dur := []int64{1000, 700, 1300, 500, 250}[r.Intn(5)]
			g := groupDef{RP: rp, Start: t, End: t + dur}
			switch r.Intn(10) {
			case 0, 1, 2, 3: // truncated, with a successor
				at := t + int64(r.Intn(int(dur)))
				if r.Chance(15) {
					at = t // truncated before it took any write ("future" group)
				}
				g.Trunc = &at
				d.GroupDefs = append(d.GroupDefs, g)
				addShards(len(d.GroupDefs)-1, rp, t, t+dur, 1) // points on both sides of the truncation time
				if r.Chance(80) {
					d.GroupDefs = append(d.GroupDefs, groupDef{RP: rp, Start: at, End: t + dur})
					addShards(len(d.GroupDefs)-1, rp, at, t+dur, 0)
				}
			case 4: // deleted, possibly re-created
				g.Deleted = true
				d.GroupDefs = append(d.GroupDefs, g)
				addShards(len(d.GroupDefs)-1, rp, t, t+dur, 1)
				if r.Bool() {
					d.GroupDefs = append(d.GroupDefs, groupDef{RP: rp, Start: t, End: t + dur})
					addShards(len(d.GroupDefs)-1, rp, t, t+dur, 0)
				}
			default:
				d.GroupDefs = append(d.GroupDefs, g)
				addShards(len(d.GroupDefs)-1, rp, t, t+dur, 0)
			}
			t += dur
			if r.Chance(15) {
				t += 300 // a gap without any group
			}
		}
	}
	d.Groups = len(d.GroupDefs)
	return d
}

// range bounds exactly at group start / end / truncation time, and one off
func boundaryRange(r *hx.Rand, w worldDesc) (int64, int64) {
	var pts []int64
	for _, g := range w.GroupDefs {
		pts = append(pts, g.Start, g.End)
		if g.Trunc != nil {
			pts = append(pts, *g.Trunc)
		}
	}
	pick := func() int64 {
		t := pts[r.Intn(len(pts))] + int64(r.Intn(3)) - 1
		if t < 0 {
			t = 0
		}
		return t
	}
	a, b := pick(), pick()
	if a > b {
		a, b = b, a
	}
	return a, b
}

func genQuery(r *hx.Rand, w worldDesc, cleanOK bool) queryDesc {
	d := queryDesc{World: w, Local: uint64(1 + r.Intn(w.N))}
	ownsNone := []uint64{}
	for n := 1; n <= w.N; n++ {
		owns := false
		for _, sp := range w.Shards {
			for _, o := range sp.Owners {
				owns = owns || o == uint64(n)
			}
		}
		if !owns {
			ownsNone = append(ownsNone, uint64(n))
		}
	}
	mode := r.Intn(10)
	if mode < 3 && len(ownsNone) > 0 { // a coordinator that owns no shard at all
		d.Local = ownsNone[r.Intn(len(ownsNone))]
	}
	for try := 0; try < 3 && mode >= 6; try++ { // prefer coordinators that need some remote shard
		remote := false
		for _, sp := range w.Shards {
			own := false
			for _, o := range sp.Owners {
				own = own || o == d.Local
			}
			remote = remote || !own
		}
		if remote || r.Chance(25) {
			break
		}
		d.Local = uint64(1 + r.Intn(w.N))
	}
	g0 := r.Intn(w.Groups)
	g1 := g0 + r.Intn(w.Groups-g0)
	if r.Chance(60) {
		g0, g1 = 0, w.Groups-1
	}
	d.Tmin, d.Tmax = int64(g0)*1000, int64(g1)*1000+999
	if r.Chance(20) {
		d.Tmin += int64(r.Intn(300))
		d.Tmax -= int64(r.Intn(300))
	}
	if len(w.GroupDefs) > 0 {
		d.Tmin, d.Tmax = boundaryRange(r, w)
		if r.Chance(15) {
			d.Tmin = 0
		}
		if r.Chance(15) {
			d.Tmax = 1 << 20
		}
	}
	d.Down = []uint64{}
	for n := 1; n <= w.N; n++ {
		if uint64(n) != d.Local && r.Chance(20) {
			d.Down = append(d.Down, uint64(n))
		}
	}
	d.Fault = faultPlan{Seed: r.U64() >> 12, CleanOK: cleanOK}
	switch r.Intn(5) {
	case 0:
		d.Fault.Prob = 0
	case 1, 2:
		d.Fault.Prob = 25
	case 3:
		d.Fault.Prob = 50
	default:
		d.Fault.Prob = 80
	}
	if r.Chance(55) { // multi-source statement: FROM a, b[, c]; subqueries; two retention policies
		ns := 2 + r.Intn(2)
		for i := 0; i < ns; i++ {
			sd := srcDesc{Meas: r.Intn(nMeas), Sub: r.Chance(20)}
			if r.Chance(30) {
				sd.RP = 1
			}
			d.Sources = append(d.Sources, sd)
		}
	}
	all := []string{"ci", "fd", "ic"}
	nops := 1 + r.Intn(3)
	for i := 0; i < nops; i++ {
		if i == 0 && r.Chance(60) {
			d.Ops = append(d.Ops, "ci")
		} else {
			d.Ops = append(d.Ops, all[r.Intn(3)])
		}
		if len(d.Sources) > 0 {
			d.OpSrc = append(d.OpSrc, r.Intn(len(d.Sources)))
		}
	}
	return d
}

func designed(o *hx.Out) {
	for _, op := range []string{"ci", "fd", "ic", "rf", "rg"} {
		for _, out := range []string{"serve", "error", "dial", "cuthdr"} {
			runResp(o, respDesc{Op: op, Out: out}, "designed")
		}
	}
	// the Coq witnesses: 3 nodes, shard 1 only on node 2, shard 2 on nodes 2 and 3, coordinator 1
	w := worldDesc{N: 3, Groups: 1, Shards: []shardPlan{
		{ID: 1, Owners: []uint64{2}, Group: 0, Times: []int64{10, 11}},
		{ID: 2, Owners: []uint64{2, 3}, Group: 0, Times: []int64{20}}}}
	for _, ops := range [][]string{{"ci"}, {"fd", "ci"}, {"ic"}} {
		for _, down := range [][]uint64{{}, {2}, {3}, {2, 3}} {
			for _, prob := range []int{0, 100} {
				for seed := uint64(1); seed <= 3; seed++ {
					runQuery(o, queryDesc{World: w, Local: 1, Tmin: 0, Tmax: 999, Down: down,
						Fault: faultPlan{Seed: seed, Prob: prob}, Ops: ops}, "designed")
					if prob == 0 {
						break
					}
				}
			}
		}
	}
}

// statements with several sources, coordinated by nodes that own none / some / all of the
// shards: the same db/rp twice (FROM m, m1), with a subquery, and two retention policies.
func designedMultiSource(o *hx.Out) {
	w := worldDesc{N: 3, Groups: 1, Shards: []shardPlan{
		{ID: 10, Owners: []uint64{2}, Group: 0, Times: []int64{10, 11}},
		{ID: 11, Owners: []uint64{3, 2}, Group: 0, Times: []int64{120}},
		{ID: 20, Owners: []uint64{3}, Group: 0, RP: 1, Times: []int64{230, 231}}}}
	srcSets := [][]srcDesc{
		{{Meas: 0}, {Meas: 1}},
		{{Meas: 0}, {Meas: 1}, {Meas: 2}},
		{{Meas: 0, Sub: true}, {Meas: 1}},
		{{Meas: 0}, {RP: 1, Meas: 0}},
		{{RP: 1, Meas: 1}, {Meas: 0}, {Meas: 2, Sub: true}},
	}
	for local := uint64(1); local <= 3; local++ { // node 1 owns nothing, 2 some, 3 some
		for _, ss := range srcSets {
			for _, ops := range [][]string{{"ci", "ci"}, {"ic", "fd"}} {
				for _, prob := range []int{0, 40} {
					runQuery(o, queryDesc{World: w, Local: local, Tmin: 0, Tmax: 999, Down: []uint64{},
						Fault: faultPlan{Seed: 7 + local, Prob: prob}, Ops: ops, Sources: ss, OpSrc: []int{0, len(ss) - 1}}, "designed")
				}
			}
		}
	}
	// a coordinator that owns every shard of the source: all local, re-mapped per source
	wAll := worldDesc{N: 2, Groups: 1, Shards: []shardPlan{
		{ID: 1, Owners: []uint64{1, 2}, Group: 0, Times: []int64{5}},
		{ID: 2, Owners: []uint64{1}, Group: 0, Times: []int64{105, 106}}}}
	for local := uint64(1); local <= 2; local++ {
		runQuery(o, queryDesc{World: wAll, Local: local, Tmin: 0, Tmax: 999, Down: []uint64{}, Fault: faultPlan{Seed: 3},
			Ops: []string{"ci", "ic", "fd"}, Sources: []srcDesc{{Meas: 0}, {Meas: 1}, {RP: 1, Meas: 0}}, OpSrc: []int{0, 1, 2}}, "designed")
	}
}

// TRUNCATE SHARDS at 400 inside group [0,1000): the truncated group keeps points stamped 600
// and 900 (written before the truncation), the successor [400,1000) holds 450 and 950.  Ranges
// with bounds at / around the truncation time and the group ends; a deleted group after it.
func designedTruncated(o *hx.Out) {
	at := int64(400)
	w := worldDesc{N: 2, Groups: 4, GroupDefs: []groupDef{
		{RP: 0, Start: 0, End: 1000, Trunc: &at}, {RP: 0, Start: 400, End: 1000},
		{RP: 0, Start: 1000, End: 1700, Deleted: true}, {RP: 0, Start: 1000, End: 1700}},
		Shards: []shardPlan{
			{ID: 1, Owners: []uint64{2}, Group: 0, Times: []int64{100, 399, 400, 600, 900}},
			{ID: 2, Owners: []uint64{1, 2}, Group: 1, Times: []int64{450, 950, 999}},
			{ID: 3, Owners: []uint64{2}, Group: 2, Times: []int64{1001, 1500}},
			{ID: 4, Owners: []uint64{2, 1}, Group: 3, Times: []int64{1000, 1699}}}}
	for _, rg := range [][2]int64{{0, 399}, {399, 400}, {400, 400}, {400, 999}, {401, 1000}, {500, 2000}, {999, 999},
		{1000, 1000}, {1000, 1699}, {1700, 1800}, {0, 5000}, {950, 1001}} {
		for local := uint64(1); local <= 2; local++ {
			runQuery(o, queryDesc{World: w, Local: local, Tmin: rg[0], Tmax: rg[1], Down: []uint64{},
				Fault: faultPlan{Seed: 5}, Ops: []string{"ci", "ic", "fd"}}, "designed")
		}
	}
}

// a retry round with two nodes of which one fails while the other succeeds, followed by a
// successful round: the partial results of the failed round must be discarded.
// 4 nodes, coordinator 1 owns nothing; shard 1 on [2,4,3], shard 2 on [2,3]; node 2 is down.
// If the mapper files both shards under node 2: round 1 = {4:[1], 3:[2]}, node 4 fails,
// round 2 = {3:[1,2]}.
func designedPartialRound(o *hx.Out) {
	w := worldDesc{N: 4, Groups: 1, Shards: []shardPlan{
		{ID: 1, Owners: []uint64{2, 4, 3}, Group: 0, Times: []int64{10, 11}},
		{ID: 2, Owners: []uint64{2, 3}, Group: 0, Times: []int64{20, 21}}}}
	found := 0
	for seed := uint64(1); seed < 100000 && found < 3; seed++ {
		f := faultPlan{Seed: seed, Prob: 60}
		k := f.outcomeFor(4, []uint64{1}, 0).Kind
		if (k == "error" || k == "cuthdr") && f.outcomeFor(3, []uint64{2}, 0).Kind == "serve" &&
			f.outcomeFor(3, []uint64{1, 2}, 0).Kind == "serve" && f.outcomeFor(3, []uint64{1, 2}, 1).Kind == "serve" {
			found++
			for rs := int64(1); rs <= 6; rs++ {
				for _, ops := range [][]string{{"ci"}, {"ic", "ci"}} {
					runQuery(o, queryDesc{World: w, Local: 1, Tmin: 0, Tmax: 999, Down: []uint64{2}, Fault: f, Ops: ops, RandSeed: rs}, "designed")
				}
			}
		}
	}
}

func main() {
	f := hx.ParseFlags()
	o := hx.NewOut(f.OutDir)
	defer o.Close()
	// "node down": a loopback port that is bound (so nobody else can take it during the run)
	// but not listening: connections are refused
	fd, err := syscall.Socket(syscall.AF_INET, syscall.SOCK_STREAM, 0)
	if err != nil {
		panic(err)
	}
	defer syscall.Close(fd)
	if err := syscall.Bind(fd, &syscall.SockaddrInet4{Port: 0, Addr: [4]byte{127, 0, 0, 1}}); err != nil {
		panic(err)
	}
	sa, err := syscall.Getsockname(fd)
	if err != nil {
		panic(err)
	}
	deadAddr = fmt.Sprintf("127.0.0.1:%d", sa.(*syscall.SockaddrInet4).Port)
	if c, err := net.DialTimeout("tcp", deadAddr, time.Second); err == nil {
		c.Close()
		panic("dead address accepts connections")
	}
	defer func() {
		for _, w := range worlds {
			w.close()
		}
	}()

	if f.In != "" {
		for _, in := range hx.ReadInputs(f.In) {
			switch in.Kind {
			case "query":
				var d queryDesc
				if err := json.Unmarshal(in.Desc, &d); err != nil {
					panic(err)
				}
				runQuery(o, d, "replay")
			case "resp":
				var d respDesc
				json.Unmarshal(in.Desc, &d)
				runResp(o, d, "replay")
			case "recv":
				var d recvDesc
				if err := json.Unmarshal(in.Desc, &d); err != nil {
					panic(err)
				}
				runRecv(o, d, "replay")
			case "rsraw":
				var d rsDesc
				if err := json.Unmarshal(in.Desc, &d); err != nil {
					panic(err)
				}
				runRS(o, d, "replay")
			case "sread":
				var d sreadDesc
				if err := json.Unmarshal(in.Desc, &d); err != nil {
					panic(err)
				}
				runSRead(o, d, "replay")
			case "show":
				var d showDesc
				if err := json.Unmarshal(in.Desc, &d); err != nil {
					panic(err)
				}
				runShow(o, d, "replay")
			case "tmerge":
				var d tmergeDesc
				if err := json.Unmarshal(in.Desc, &d); err != nil {
					panic(err)
				}
				runTMerge(o, d, "replay")
			case "mtype":
				var d mtypeDesc
				if err := json.Unmarshal(in.Desc, &d); err != nil {
					panic(err)
				}
				runMType(o, d, "replay")
			case "rsmerge":
				var d rsmergeDesc
				if err := json.Unmarshal(in.Desc, &d); err != nil {
					panic(err)
				}
				runRSMerge(o, d, "replay")
			}
		}
		return
	}
	r := hx.NewRand(f.Seed)
	designed(o)
	designedPartialRound(o)
	designedMultiSource(o)
	designedTruncated(o)
	// the stream / SHOW cases draw from their own generators: the query cases of a seed stay the same
	designedStream(o, f.Tier)
	designedShow(o)
	designedMerge(o)
	genMerge(o, hx.NewRand(f.Seed*7919+19), f.Tier)
	designedMType(o)
	genMType(o, hx.NewRand(f.Seed*7919+20), f.Tier)
	genStream(o, hx.NewRand(f.Seed*7919+17), f.N/3, f.Tier)
	genShow(o, hx.NewRand(f.Seed*7919+18), f.N/6, f.Tier)
	perWorld := 40
	if f.Tier == "thorough" {
		perWorld = 120
	}
	var w worldDesc
	for i := 0; i < f.N; i++ {
		if i%perWorld == 0 {
			if (i/perWorld)%3 == 2 {
				w = genHistoryWorld(r, f.Tier)
			} else {
				w = genWorld(r, f.Tier)
			}
		}
		// every 8th case may cut a stream exactly at a frame boundary (open finding)
		runQuery(o, genQuery(r, w, i%8 == 7), "gen")
	}
}
