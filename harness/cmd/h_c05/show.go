// SHOW fan-out: the real ClusterTSDBStore.{MeasurementNames, TagKeys, TagValues} of a coordinating
// node (real MetaExecutor.ExecuteQuery, real coordinator.Service + tsdb.Store on the other nodes)
// with data nodes that refuse connections or reply with an error, on layouts in which replicas
// do / do not cover them.  Reference: the same listing on the single store holding every shard.
package main

import (
	"context"
	"fmt"
	"sort"
	"strings"
	"time"

	"github.com/influxdata/influxdb/coordinator"
	"github.com/influxdata/influxdb/query"
	"github.com/influxdata/influxdb/tsdb"
	"github.com/influxdata/influxql"
	"verifharness/hx"
)

type showDesc struct {
	World worldDesc `json:"world"`
	Local uint64    `json:"local"`
	Down  []uint64  `json:"down"` // nodes refusing connections
	Errs  []uint64  `json:"errs"` // nodes whose store fails the listing: error reply
	Fn    string    `json:"fn"`   // "mn" MeasurementNames | "tk" TagKeys | "tv" TagValues
}

// items as numbers: measurement m/m1/m2 = 1/2/3, t<a> = 10+a; (t<a>, k<b>) = 1000+100a+b;
// (t<a>, k<b>, v<c>) = 100000+10000a+100b+c
func showItemID(s string) uint64 {
	var a, b, c int
	parts := strings.Split(s, "|")
	switch len(parts) {
	case 1:
		for i := 0; i < nMeas; i++ {
			if s == measName(i) {
				return uint64(i + 1)
			}
		}
		if n, _ := fmt.Sscanf(s, "t%d", &a); n == 1 && fmt.Sprintf("t%d", a) == s && a < 90 {
			return uint64(10 + a)
		}
	case 2:
		n1, _ := fmt.Sscanf(parts[0], "t%d", &a)
		n2, _ := fmt.Sscanf(parts[1], "k%d", &b)
		if n1 == 1 && n2 == 1 && fmt.Sprintf("t%d|k%d", a, b) == s && a < 90 && b < 90 {
			return uint64(1000 + 100*a + b)
		}
	case 3:
		n1, _ := fmt.Sscanf(parts[0], "t%d", &a)
		n2, _ := fmt.Sscanf(parts[1], "k%d", &b)
		n3, _ := fmt.Sscanf(parts[2], "v%d", &c)
		if n1 == 1 && n2 == 1 && n3 == 1 && fmt.Sprintf("t%d|k%d|v%d", a, b, c) == s && a < 90 && b < 90 && c < 90 {
			return uint64(100000 + 10000*a + 100*b + c)
		}
	}
	return 9999999 // something that was never written
}

func shardItems(sp shardPlan, fn string) []uint64 {
	set := map[uint64]bool{}
	if fn == "mn" {
		for i := 0; i < nMeas; i++ {
			set[uint64(i+1)] = true
		}
	}
	for _, tg := range sp.Tagged {
		switch fn {
		case "mn":
			set[uint64(10+tg[0])] = true
		case "tk":
			set[uint64(1000+100*tg[0]+tg[1])] = true
		case "tv":
			set[uint64(100000+10000*tg[0]+100*tg[1]+tg[2])] = true
		}
	}
	return sortedSet(set)
}

func sortedSet(set map[uint64]bool) []uint64 {
	out := []uint64{}
	for x := range set {
		out = append(out, x)
	}
	sort.Slice(out, func(i, j int) bool { return out[i] < out[j] })
	return out
}

func validShow(d showDesc) bool {
	if !validQuery(queryDesc{World: d.World, Local: d.Local, Tmin: 0, Tmax: 1, Fault: faultPlan{}}) || len(d.World.GroupDefs) > 0 {
		return false
	}
	if d.Fn != "mn" && d.Fn != "tk" && d.Fn != "tv" {
		return false
	}
	for _, l := range [][]uint64{d.Down, d.Errs} {
		for _, n := range l {
			if n < 1 || n > uint64(d.World.N) || n == d.Local { // the coordinator's own store is called directly
				return false
			}
		}
	}
	for _, sp := range d.World.Shards {
		if sp.Big != 0 || len(sp.Tagged) > 8 {
			return false
		}
		for _, tg := range sp.Tagged {
			for _, x := range tg {
				if x < 0 || x > 20 {
					return false
				}
			}
		}
	}
	return true
}

type showLister interface {
	MeasurementNames(ctx context.Context, auth query.FineAuthorizer, database string, retentionPolicy string, cond influxql.Expr) ([][]byte, error)
	TagKeys(ctx context.Context, auth query.FineAuthorizer, shardIDs []uint64, cond influxql.Expr) ([]tsdb.TagKeys, error)
	TagValues(ctx context.Context, auth query.FineAuthorizer, shardIDs []uint64, cond influxql.Expr) ([]tsdb.TagValues, error)
}

func listing(st showLister, fn string, ids []uint64) (items []uint64, strs []string, err error) {
	defer func() {
		if e := recover(); e != nil {
			err = fmt.Errorf("panic: %v", e)
		}
	}()
	ctx := context.Background()
	switch fn {
	case "mn":
		names, e := st.MeasurementNames(ctx, query.OpenAuthorizer, "db", "", nil)
		if e != nil {
			return nil, nil, e
		}
		for _, n := range names {
			strs = append(strs, string(n))
		}
	case "tk":
		tks, e := st.TagKeys(ctx, query.OpenAuthorizer, ids, nil)
		if e != nil {
			return nil, nil, e
		}
		for _, tk := range tks {
			for _, k := range tk.Keys {
				strs = append(strs, tk.Measurement+"|"+k)
			}
		}
	case "tv":
		cond, e := influxql.ParseExpr(`_tagKey =~ /^k/`)
		if e != nil {
			panic(e)
		}
		tvs, e := st.TagValues(ctx, query.OpenAuthorizer, ids, cond)
		if e != nil {
			return nil, nil, e
		}
		for _, tv := range tvs {
			for _, kv := range tv.Values {
				strs = append(strs, tv.Measurement+"|"+kv.Key+"|"+kv.Value)
			}
		}
	}
	// canonical: the set of items, ascending ids (a duplicate in the listing is kept: it fails the comparison)
	for _, s := range strs {
		items = append(items, showItemID(s))
	}
	sort.Slice(items, func(i, j int) bool { return items[i] < items[j] })
	return items, strs, nil
}

func runShow(o *hx.Out, d showDesc, origin string) {
	if !validShow(d) {
		o.Count("show:skipped-invalid-input")
		return
	}
	o.Begin("show", d)
	w := getWorld(d.World)
	cs := newCaseState(func(node uint64, ids []uint64, idx int, typ byte) outcome { return outcome{Kind: "serve"} })
	cs.showErr = map[uint64]bool{}
	for _, n := range d.Errs {
		cs.showErr[n] = true
	}
	w.setState(cs)
	defer w.setState(nil)
	mc := w.metaFor(d.Local, d.Down)
	me := coordinator.NewMetaExecutor(60*time.Second, 10*time.Second, 0, 64)
	me.MetaClient = mc
	defer me.Close()
	var ids []uint64
	var shardsC, dataC []string
	nodesC := []uint64{}
	for n := 1; n <= d.World.N; n++ {
		nodesC = append(nodesC, uint64(n))
	}
	byShard := map[string][]uint64{}
	uncovered := []uint64{}
	bad := map[uint64]bool{}
	for _, n := range d.Down {
		bad[n] = true
	}
	for _, n := range d.Errs {
		bad[n] = true
	}
	for _, sp := range d.World.Shards {
		ids = append(ids, sp.ID)
		shardsC = append(shardsC, fmt.Sprintf("(%d, %s)", sp.ID, hx.CoqNList(sp.Owners)))
		it := shardItems(sp, d.Fn)
		dataC = append(dataC, fmt.Sprintf("(%d, %s)", sp.ID, hx.CoqNList(it)))
		byShard[fmt.Sprint(sp.ID)] = it
		cov := false
		for _, ow := range sp.Owners {
			cov = cov || !bad[ow]
		}
		if !cov {
			uncovered = append(uncovered, sp.ID)
		}
	}
	ref, refStrs, refErr := listing(w.ref, d.Fn, ids)
	if refErr != nil {
		panic("reference listing failed: " + refErr.Error())
	}
	cts := coordinator.ClusterTSDBStore{Store: w.nodes[d.Local].store, MetaExecutor: me}
	got, gotStrs, err := listing(cts, d.Fn, ids)
	if got == nil {
		got = []uint64{}
	}
	coq := fmt.Sprintf("CShow %d %s %s %s %s %s %s %s %s", d.Local, hx.CoqNList(nodesC), hx.CoqList(shardsC), hx.CoqList(dataC),
		hx.CoqNList(d.Down), hx.CoqNList(d.Errs), hx.CoqNList(ref), hx.CoqNList(got), hx.CoqBool(err != nil))
	o.Count("show:fn=" + d.Fn)
	o.Count(fmt.Sprintf("show:nodes=%d", d.World.N))
	o.Count(fmt.Sprintf("show:down=%d", len(d.Down)))
	o.Count(fmt.Sprintf("show:error_reply=%d", len(d.Errs)))
	if len(uncovered) > 0 {
		o.Count("show:layout=some-shard-without-answering-owner")
	} else if len(bad) > 0 {
		o.Count("show:layout=failed-nodes-covered-by-replicas")
	} else {
		o.Count("show:layout=all-nodes-answer")
	}
	switch {
	case err != nil:
		o.Count("show:result=error")
	case fmt.Sprint(got) == fmt.Sprint(ref):
		o.Count("show:result=complete")
	default:
		o.Count("show:result=incomplete-without-error")
	}
	msg := ""
	if err != nil {
		msg = err.Error()
	}
	o.Emit(hx.Case{Kind: "show", Coq: coq, Desc: d,
		Obs: map[string]interface{}{"listing": got, "listing_strings": gotStrs, "err": err != nil, "msg": msg, "reference": ref,
			"reference_strings": refStrs, "items_by_shard": byShard, "uncovered": uncovered},
		Nontrivial: len(bad) > 0 && len(ref) > 0, Sig: fmt.Sprintf("show:%v", d), Origin: origin})
}

func designedShow(o *hx.Out) {
	// the Coq witness: shard 1 only on node 2, shard 2 on nodes 2 and 3, coordinator 1
	w := worldDesc{N: 3, Groups: 1, Shards: []shardPlan{
		{ID: 1, Owners: []uint64{2}, Group: 0, Times: []int64{10}, Tagged: [][3]int{{0, 0, 0}, {1, 0, 1}, {1, 2, 2}}},
		{ID: 2, Owners: []uint64{2, 3}, Group: 0, Times: []int64{20}, Tagged: [][3]int{{1, 0, 1}, {1, 1, 0}, {2, 0, 0}, {1, 0, 2}, {1, 0, 0}}}}}
	// the same data with a replica of shard 1 on node 3: node 2 is covered
	wc := worldDesc{N: 3, Groups: 1, Shards: []shardPlan{
		{ID: 1, Owners: []uint64{2, 3}, Group: 0, Times: []int64{10}, Tagged: [][3]int{{0, 0, 0}, {1, 0, 1}, {1, 2, 2}}},
		{ID: 2, Owners: []uint64{2, 3}, Group: 0, Times: []int64{20}, Tagged: [][3]int{{1, 0, 1}, {1, 1, 0}, {2, 0, 0}, {1, 0, 2}, {1, 0, 0}}}}}
	for _, wd := range []worldDesc{w, wc} {
		for _, fn := range []string{"mn", "tk", "tv"} {
			for local := uint64(1); local <= 3; local++ {
				for _, f := range [][2][]uint64{{{}, {}}, {{2}, {}}, {{}, {2}}, {{3}, {}}, {{}, {3}}, {{2}, {3}}, {{2, 3}, {}}} {
					runShow(o, showDesc{World: wd, Local: local, Down: f[0], Errs: f[1], Fn: fn}, "designed")
				}
			}
		}
	}
}

func genShow(o *hx.Out, r *hx.Rand, n int, tier string) {
	perWorld := 25
	var wd worldDesc
	for i := 0; i < n; i++ {
		if i%perWorld == 0 {
			nn := 2 + r.Intn(3)
			wd = worldDesc{N: nn, Groups: 1 + r.Intn(2)}
			repl := 1 + r.Intn(nn)
			id := uint64(1)
			for g := 0; g < wd.Groups; g++ {
				for k := 1 + r.Intn(3); k > 0; k-- {
					sp := shardPlan{ID: id, Group: g, Times: []int64{int64(g)*1000 + int64(id)}}
					if r.Chance(25) {
						sp.RP = 1
					}
					if r.Bool() {
						start := r.Intn(nn)
						for j := 0; j < repl; j++ {
							sp.Owners = append(sp.Owners, uint64((start+j)%nn+1))
						}
					} else {
						sp.Owners = genOwners(r, nn)
					}
					for q := r.Intn(7); q > 0; q-- {
						sp.Tagged = append(sp.Tagged, [3]int{r.Intn(3), r.Intn(3), r.Intn(4)})
					}
					wd.Shards = append(wd.Shards, sp)
					id++
				}
			}
		}
		d := showDesc{World: wd, Local: uint64(1 + r.Intn(wd.N)), Down: []uint64{}, Errs: []uint64{}, Fn: []string{"mn", "tk", "tv"}[r.Intn(3)]}
		for nd := uint64(1); nd <= uint64(wd.N); nd++ {
			if nd == d.Local {
				continue
			}
			switch x := r.Intn(100); {
			case x < 25:
				d.Down = append(d.Down, nd)
			case x < 45:
				d.Errs = append(d.Errs, nd)
			}
		}
		runShow(o, d, "gen")
	}
}
