// typed merge of the fan-out (kind tmerge) and merged storage result sets (kind rsmerge):
// see coq/theories/C05/MergeModel.v
package main

import (
	"context"
	"errors"
	"fmt"
	"io"
	"sort"
	"strconv"
	"time"

	"verifharness/hx"

	"github.com/influxdata/influxdb/coordinator"
	"github.com/influxdata/influxdb/query"
	"github.com/influxdata/influxdb/storage/reads"
	"github.com/influxdata/influxdb/storage/reads/datatypes"
	"github.com/influxdata/influxdb/tsdb"
	"github.com/influxdata/influxql"
)

// ---------------------------------------------------------------- tmerge

// SELECT v FROM mi (an integer field) on node Local of the in-process cluster; every shard has
// exactly one owner; shards without "int" rows do not hold the measurement, so a node asked only
// for such shards answers CreateIterator with type Unknown.  Order: the remote nodes in the
// order in which their replies are released (node Order[p] serves its request after (p+1)*gap;
// the local mapping needs no network and comes first).
type tmergeDesc struct {
	World worldDesc `json:"world"`
	Local uint64    `json:"local"`
	Order []uint64  `json:"order"`
}

const tmergeGap = 200 * time.Millisecond

func intOpt() query.IteratorOptions {
	return query.IteratorOptions{
		Expr:      &influxql.VarRef{Val: "v", Type: influxql.Integer},
		Ordered:   true,
		Ascending: true,
		StartTime: influxql.MinTime,
		EndTime:   influxql.MaxTime,
	}
}

var measInt = &influxql.Measurement{Database: "db", RetentionPolicy: "rp", Name: "mi"}

// drainTyped: type code (influxql.DataType) of the iterator, rows (timestamps, sorted)
func drainTyped(itr query.Iterator) (isNil bool, typ uint64, rows []uint64, err error) {
	rows = []uint64{}
	if itr == nil {
		return true, 0, rows, nil
	}
	defer itr.Close()
	switch it := itr.(type) {
	case query.IntegerIterator:
		typ = uint64(influxql.Integer)
		for {
			p, e := it.Next()
			if e != nil {
				return false, typ, nil, e
			}
			if p == nil {
				break
			}
			if p.Value != p.Time {
				return false, typ, nil, fmt.Errorf("corrupt point t=%d v=%v", p.Time, p.Value)
			}
			rows = append(rows, uint64(p.Time))
		}
	case query.FloatIterator:
		typ = uint64(influxql.Float)
		for {
			p, e := it.Next()
			if e != nil {
				return false, typ, nil, e
			}
			if p == nil {
				break
			}
			rows = append(rows, uint64(p.Time))
		}
	default:
		return false, 99, nil, fmt.Errorf("unexpected iterator type %T", itr)
	}
	sort.Slice(rows, func(i, j int) bool { return rows[i] < rows[j] })
	return false, typ, rows, nil
}

func validTMerge(d tmergeDesc) bool {
	if d.World.N < 2 || d.World.N > 6 || len(d.World.GroupDefs) > 0 || d.Local < 1 || d.Local > uint64(d.World.N) {
		return false
	}
	remote := map[uint64]bool{}
	seenT := map[int64]bool{}
	for _, sp := range d.World.Shards {
		if len(sp.Owners) != 1 || sp.RP != 0 || sp.Group < 0 || sp.Group >= d.World.Groups {
			return false
		}
		if sp.Owners[0] != d.Local {
			remote[sp.Owners[0]] = true
		}
		for _, t := range sp.Int {
			if t < 0 || t >= int64(d.World.Groups)*1000 || seenT[t] {
				return false
			}
			seenT[t] = true
		}
	}
	if len(d.Order) != len(remote) {
		return false
	}
	seen := map[uint64]bool{}
	for _, n := range d.Order {
		if !remote[n] || seen[n] {
			return false
		}
		seen[n] = true
	}
	return true
}

func runTMerge(o *hx.Out, d tmergeDesc, origin string) {
	if !validTMerge(d) {
		o.Count("tmerge:skipped-invalid-input")
		return
	}
	o.Begin("tmerge", d)
	w := getWorld(d.World)
	cs := newCaseState(func(node uint64, ids []uint64, idx int, typ byte) outcome { return outcome{Kind: "serve"} })
	cs.delay = map[uint64]time.Duration{}
	for p, n := range d.Order {
		cs.delay[n] = time.Duration(p+1) * tmergeGap
	}
	w.setState(cs)
	defer w.setState(nil)
	mc := w.metaFor(d.Local, nil)
	me := coordinator.NewMetaExecutor(60*time.Second, 10*time.Second, 0, 64)
	me.MetaClient = mc
	defer me.Close()
	var localGot [][]uint64
	mapper := &coordinator.ClusterShardMapper{MetaClient: mc, TSDBStore: localStore{st: w.nodes[d.Local].store, got: &localGot}, MetaExecutor: me}
	tr := influxql.TimeRange{Min: time.Unix(0, 0).UTC(), Max: time.Unix(0, int64(d.World.Groups)*1000-1).UTC()}

	// the sources in arrival order: local mapping (if it has shards), then the nodes of Order
	type src struct {
		remote bool
		typ    uint64
		rows   []uint64
	}
	byNode := map[uint64]*src{}
	var allIDs []uint64
	for _, sp := range d.World.Shards {
		allIDs = append(allIDs, sp.ID)
		n := sp.Owners[0]
		s := byNode[n]
		if s == nil {
			s = &src{remote: n != d.Local, rows: []uint64{}}
			byNode[n] = s
		}
		if len(sp.Int) > 0 {
			s.typ = uint64(influxql.Integer)
		}
		for _, t := range sp.Int {
			s.rows = append(s.rows, uint64(t))
		}
	}
	var arrival []string
	unknown, typed := 0, 0
	add := func(s *src) {
		sort.Slice(s.rows, func(i, j int) bool { return s.rows[i] < s.rows[j] })
		arrival = append(arrival, fmt.Sprintf("(%s, %d, %s)", hx.CoqBool(s.remote), s.typ, hx.CoqNList(s.rows)))
		if s.typ == 0 {
			unknown++
		} else {
			typed++
		}
	}
	if s := byNode[d.Local]; s != nil {
		add(s)
	}
	firstUnknown := false
	for p, n := range d.Order {
		if p == 0 && byNode[d.Local] == nil || (byNode[d.Local] != nil && byNode[d.Local].typ == 0 && p == 0) {
			firstUnknown = byNode[n].typ == 0
		}
		add(byNode[n])
	}

	// reference: the single store holding every shard
	ref := &coordinator.LocalShardMapping{ShardMap: map[coordinator.Source]tsdb.ShardGroup{
		{Database: "db", RetentionPolicy: "rp"}: w.ref.ShardGroup(allIDs)}, MinTime: tr.Min, MaxTime: tr.Max}
	ritr, rerr := ref.CreateIterator(context.Background(), measInt, intOpt())
	if rerr != nil {
		panic("reference failed: " + rerr.Error())
	}
	_, _, refRows, rerr := drainTyped(ritr)
	if rerr != nil {
		panic("reference failed: " + rerr.Error())
	}

	var isNil bool
	var typ uint64
	rows := []uint64{}
	var err error
	func() {
		defer func() {
			if e := recover(); e != nil {
				err = fmt.Errorf("panic: %v", e)
			}
		}()
		sg, e := mapper.MapShards(influxql.Sources{measInt}, tr, query.SelectOptions{})
		if e != nil {
			err = e
			return
		}
		defer sg.Close()
		itr, e := sg.CreateIterator(context.Background(), measInt, intOpt())
		if e != nil {
			err = e
			return
		}
		isNil, typ, rows, err = drainTyped(itr)
	}()
	if rows == nil {
		rows = []uint64{}
	}
	msg := ""
	if err != nil {
		msg = err.Error()
	}
	coq := fmt.Sprintf("CTMerge %s %s %d %s %s %s", hx.CoqList(arrival), hx.CoqBool(isNil), typ, hx.CoqNList(rows),
		hx.CoqBool(err != nil), hx.CoqNList(refRows))
	o.Count(fmt.Sprintf("tmerge:sources=%d", len(arrival)))
	o.Count(fmt.Sprintf("tmerge:sources-without-measurement=%d", unknown))
	if firstUnknown {
		o.Count("tmerge:first-arrival=node-without-measurement")
	} else {
		o.Count("tmerge:first-arrival=other")
	}
	switch {
	case err != nil:
		o.Count("tmerge:result=error")
	case fmt.Sprint(rows) == fmt.Sprint(refRows):
		o.Count("tmerge:result=complete")
	default:
		o.Count("tmerge:result=incomplete-without-error")
	}
	o.Emit(hx.Case{Kind: "tmerge", Coq: coq, Desc: d,
		Obs: map[string]interface{}{"nil": isNil, "type": typ, "rows": rows, "err": err != nil, "msg": msg, "reference": refRows},
		Nontrivial: unknown > 0 && typed > 0 && len(refRows) > 0, Sig: fmt.Sprintf("tmerge:%v", d), Origin: origin})
}

func perms(xs []uint64) [][]uint64 {
	if len(xs) <= 1 {
		return [][]uint64{append([]uint64(nil), xs...)}
	}
	var out [][]uint64
	for i := range xs {
		rest := append(append([]uint64(nil), xs[:i]...), xs[i+1:]...)
		for _, p := range perms(rest) {
			out = append(out, append([]uint64{xs[i]}, p...))
		}
	}
	return out
}

// ---------------------------------------------------------------- rsmerge

// reads.NewMergedResultSet over real ResultSetStreamReaders, in the given order; every input
// delivers its series (one response each, ids ascending, unique over the inputs) and then ends
// with io.EOF or with an error
type rsInput struct {
	Series []uint64 `json:"series"`
	Fails  bool     `json:"fails"`
}

type rsmergeDesc struct {
	Inputs []rsInput `json:"inputs"`
}

type listStream struct {
	resps []*datatypes.ReadResponse
	err   error
}

func (s *listStream) Recv() (*datatypes.ReadResponse, error) {
	if len(s.resps) == 0 {
		if s.err != nil {
			return nil, s.err
		}
		return nil, io.EOF
	}
	r := s.resps[0]
	s.resps = s.resps[1:]
	return r, nil
}

func validRSMerge(d rsmergeDesc) bool {
	if len(d.Inputs) > 8 {
		return false
	}
	seen := map[uint64]bool{}
	for _, in := range d.Inputs {
		if len(in.Series) > 8 {
			return false
		}
		for i, id := range in.Series {
			if id > 9999 || seen[id] || (i > 0 && in.Series[i-1] >= id) {
				return false
			}
			seen[id] = true
		}
	}
	return true
}

func runRSMerge(o *hx.Out, d rsmergeDesc, origin string) {
	if !validRSMerge(d) {
		o.Count("rsmerge:skipped-invalid-input")
		return
	}
	o.Begin("rsmerge", d)
	var in []reads.ResultSet
	var arrival []string
	anyFail, early := false, false
	for _, x := range d.Inputs {
		st := &listStream{}
		for _, id := range x.Series {
			st.resps = append(st.resps, &datatypes.ReadResponse{Frames: []datatypes.ReadResponse_Frame{
				{Data: &datatypes.ReadResponse_Frame_Series{Series: &datatypes.ReadResponse_SeriesFrame{DataType: datatypes.DataTypeFloat,
					Tags: []datatypes.Tag{{Key: []byte("k"), Value: []byte(fmt.Sprintf("%04d", id))}}}}},
				{Data: &datatypes.ReadResponse_Frame_FloatPoints{FloatPoints: &datatypes.ReadResponse_FloatPointsFrame{Timestamps: []int64{int64(id)}, Values: []float64{1}}}},
			}})
		}
		if x.Fails {
			st.err = errors.New("stream failed")
			anyFail = true
			early = early || len(x.Series) == 0
		}
		in = append(in, reads.NewResultSetStreamReader(st))
		ser := x.Series
		if ser == nil {
			ser = []uint64{}
		}
		arrival = append(arrival, fmt.Sprintf("(%s, %s)", hx.CoqNList(ser), hx.CoqBool(x.Fails)))
	}
	got := []uint64{}
	var err error
	func() {
		defer func() {
			if e := recover(); e != nil {
				err = fmt.Errorf("panic: %v", e)
			}
		}()
		rs := reads.NewMergedResultSet(in)
		if rs == nil {
			return
		}
		defer rs.Close()
		for rs.Next() {
			id, _ := strconv.ParseUint(string(rs.Tags().Get([]byte("k"))), 10, 64)
			got = append(got, id)
			if cur := rs.Cursor(); cur != nil {
				cur.Close()
			}
		}
		err = rs.Err()
	}()
	sorted := append([]uint64(nil), got...)
	sort.Slice(sorted, func(i, j int) bool { return sorted[i] < sorted[j] })
	if sorted == nil {
		sorted = []uint64{}
	}
	msg := ""
	if err != nil {
		msg = err.Error()
	}
	o.Count(fmt.Sprintf("rsmerge:inputs=%d", len(d.Inputs)))
	switch {
	case early:
		o.Count("rsmerge:failure=before-first-series")
	case anyFail:
		o.Count("rsmerge:failure=after-a-series")
	default:
		o.Count("rsmerge:failure=none")
	}
	if err != nil {
		o.Count("rsmerge:result=error")
	} else {
		o.Count("rsmerge:result=ok")
	}
	coq := fmt.Sprintf("CRSMerge %s %s %s", hx.CoqList(arrival), hx.CoqBool(err != nil), hx.CoqNList(sorted))
	o.Emit(hx.Case{Kind: "rsmerge", Coq: coq, Desc: d,
		Obs: map[string]interface{}{"series": got, "err": err != nil, "msg": msg},
		Nontrivial: len(d.Inputs) > 1 && anyFail, Sig: fmt.Sprintf("rsmerge:%v", d), Origin: origin})
}

// ---------------------------------------------------------------- designed + generated

func tmWorld(n int, owners []uint64, ints [][]int64) worldDesc {
	w := worldDesc{N: n, Groups: 1}
	for i, ow := range owners {
		w.Shards = append(w.Shards, shardPlan{ID: uint64(i + 1), Owners: []uint64{ow}, Group: 0, Times: []int64{}, Int: ints[i]})
	}
	return w
}

func designedMerge(o *hx.Out) {
	// the Coq witness: node 1 holds no measurement mi, nodes 2 and 3 hold integer rows, the
	// coordinator (node 4) holds nothing: every arrival order of the three replies
	w := tmWorld(4, []uint64{1, 2, 3}, [][]int64{nil, {1, 3}, {2}})
	for _, p := range perms([]uint64{1, 2, 3}) {
		runTMerge(o, tmergeDesc{World: w, Local: 4, Order: p}, "designed")
	}
	// the coordinator holds a shard without the measurement / with it
	w2 := tmWorld(3, []uint64{1, 2, 3}, [][]int64{nil, nil, {5, 6}})
	for _, p := range perms([]uint64{2, 3}) {
		runTMerge(o, tmergeDesc{World: w2, Local: 1, Order: p}, "designed")
	}
	runTMerge(o, tmergeDesc{World: w2, Local: 3, Order: []uint64{1, 2}}, "designed")
	// nobody holds the measurement
	runTMerge(o, tmergeDesc{World: tmWorld(3, []uint64{1, 2}, [][]int64{nil, nil}), Local: 3, Order: []uint64{2, 1}}, "designed")

	// merged result sets: the witness in both orders, failure after a series, a lone input
	for _, d := range []rsmergeDesc{
		{Inputs: []rsInput{{Series: []uint64{}, Fails: true}, {Series: []uint64{1, 2}}}},
		{Inputs: []rsInput{{Series: []uint64{1, 2}}, {Series: []uint64{}, Fails: true}}},
		{Inputs: []rsInput{{Series: []uint64{1}, Fails: true}, {Series: []uint64{2, 3}}}},
		{Inputs: []rsInput{{Series: []uint64{}, Fails: true}}},
		{Inputs: []rsInput{{Series: []uint64{}}, {Series: []uint64{4}}, {Series: []uint64{2, 9}}}},
		{Inputs: []rsInput{{Series: []uint64{}, Fails: true}, {Series: []uint64{}, Fails: false}, {Series: []uint64{7}}}},
	} {
		runRSMerge(o, d, "designed")
	}
}

func genMerge(o *hx.Out, r *hx.Rand, tier string) {
	nt, nr := 6, 150
	if tier == "thorough" {
		nt, nr = 40, 2000
	}
	for i := 0; i < nt; i++ {
		n := 3 + r.Intn(2)
		local := uint64(1 + r.Intn(n))
		ns := 2 + r.Intn(3)
		var owners []uint64
		var ints [][]int64
		remote := map[uint64]bool{}
		t := int64(1)
		for s := 0; s < ns; s++ {
			ow := uint64(1 + r.Intn(n))
			if r.Chance(70) && ow == local {
				ow = uint64(1 + r.Intn(n))
			}
			owners = append(owners, ow)
			if ow != local {
				remote[ow] = true
			}
			var in []int64
			if r.Chance(55) {
				for k := 1 + r.Intn(3); k > 0; k-- {
					in = append(in, t)
					t += int64(1 + r.Intn(5))
				}
			}
			ints = append(ints, in)
		}
		var order []uint64
		for nd := range remote {
			order = append(order, nd)
		}
		sort.Slice(order, func(i, j int) bool { return order[i] < order[j] })
		for i := len(order) - 1; i > 0; i-- {
			j := r.Intn(i + 1)
			order[i], order[j] = order[j], order[i]
		}
		runTMerge(o, tmergeDesc{World: tmWorld(n, owners, ints), Local: local, Order: order}, "gen")
	}
	for i := 0; i < nr; i++ {
		var d rsmergeDesc
		id := uint64(1)
		ni := 1 + r.Intn(4)
		lists := make([][]uint64, ni)
		for k := r.Intn(7); k > 0; k-- {
			j := r.Intn(ni)
			lists[j] = append(lists[j], id)
			id += uint64(1 + r.Intn(3))
		}
		for j := 0; j < ni; j++ {
			s := lists[j]
			if s == nil {
				s = []uint64{}
			}
			d.Inputs = append(d.Inputs, rsInput{Series: s, Fails: r.Chance(25)})
		}
		runRSMerge(o, d, "gen")
	}
}

// ---------------------------------------------------------------- mtype

// ClusterShardMapping.MapType(mt, "w") on node Local: field w has the type WT of each shard
type mtypeDesc struct {
	World worldDesc `json:"world"`
	Local uint64    `json:"local"`
}

var measMT = &influxql.Measurement{Database: "db", RetentionPolicy: "rp", Name: "mt"}

func wtCode(s string) uint64 {
	switch s {
	case "f":
		return uint64(influxql.Float)
	case "i":
		return uint64(influxql.Integer)
	case "s":
		return uint64(influxql.String)
	case "b":
		return uint64(influxql.Boolean)
	}
	return 0
}

func runMType(o *hx.Out, d mtypeDesc, origin string) {
	if d.World.N < 2 || d.World.N > 6 || len(d.World.GroupDefs) > 0 || d.Local < 1 || d.Local > uint64(d.World.N) || len(d.World.Shards) == 0 {
		o.Count("mtype:skipped-invalid-input")
		return
	}
	for _, sp := range d.World.Shards {
		if len(sp.Owners) == 0 || sp.RP != 0 || sp.Group < 0 || sp.Group >= d.World.Groups || (sp.WT != "" && wtCode(sp.WT) == 0) {
			o.Count("mtype:skipped-invalid-input")
			return
		}
	}
	o.Begin("mtype", d)
	w := getWorld(d.World)
	cs := newCaseState(func(node uint64, ids []uint64, idx int, typ byte) outcome { return outcome{Kind: "serve"} })
	w.setState(cs)
	defer w.setState(nil)
	mc := w.metaFor(d.Local, nil)
	me := coordinator.NewMetaExecutor(60*time.Second, 10*time.Second, 0, 64)
	me.MetaClient = mc
	defer me.Close()
	var localGot [][]uint64
	mapper := &coordinator.ClusterShardMapper{MetaClient: mc, TSDBStore: localStore{st: w.nodes[d.Local].store, got: &localGot}, MetaExecutor: me}
	tr := influxql.TimeRange{Min: time.Unix(0, 0).UTC(), Max: time.Unix(0, int64(d.World.Groups)*1000-1).UTC()}
	var allIDs, types []uint64
	localKnows, remoteKnows := false, false
	for _, sp := range d.World.Shards {
		allIDs = append(allIDs, sp.ID)
		types = append(types, wtCode(sp.WT))
		isLocal := false
		for _, ow := range sp.Owners {
			isLocal = isLocal || ow == d.Local
		}
		if sp.WT != "" {
			if isLocal {
				localKnows = true
			} else {
				remoteKnows = true
			}
		}
	}
	ref := &coordinator.LocalShardMapping{ShardMap: map[coordinator.Source]tsdb.ShardGroup{
		{Database: "db", RetentionPolicy: "rp"}: w.ref.ShardGroup(allIDs)}, MinTime: tr.Min, MaxTime: tr.Max}
	refTyp := uint64(ref.MapType(measMT, "w"))
	got := uint64(99)
	msg := ""
	func() {
		defer func() {
			if e := recover(); e != nil {
				msg = fmt.Sprintf("panic: %v", e)
			}
		}()
		sg, e := mapper.MapShards(influxql.Sources{measMT}, tr, query.SelectOptions{})
		if e != nil {
			msg = e.Error()
			return
		}
		defer sg.Close()
		got = uint64(sg.MapType(measMT, "w"))
	}()
	switch {
	case localKnows && remoteKnows:
		o.Count("mtype:field-known=locally-and-remotely")
	case localKnows:
		o.Count("mtype:field-known=locally")
	case remoteKnows:
		o.Count("mtype:field-known=remotely")
	default:
		o.Count("mtype:field-known=nowhere")
	}
	o.Emit(hx.Case{Kind: "mtype", Coq: fmt.Sprintf("CMType %s %d %d", hx.CoqNList(types), got, refTyp), Desc: d,
		Obs:        map[string]interface{}{"type": got, "reference": refTyp, "msg": msg},
		Nontrivial: remoteKnows, Sig: fmt.Sprintf("mtype:%v", d), Origin: origin})
}

func mtWorld(n int, owners [][]uint64, wts []string) worldDesc {
	w := worldDesc{N: n, Groups: 1}
	for i, ow := range owners {
		w.Shards = append(w.Shards, shardPlan{ID: uint64(i + 1), Owners: ow, Group: 0, Times: []int64{}, WT: wts[i]})
	}
	return w
}

func designedMType(o *hx.Out) {
	// the local shard says integer, a remote shard says float: float has precedence
	w := mtWorld(3, [][]uint64{{1}, {2}, {3}}, []string{"i", "f", ""})
	for l := uint64(1); l <= 3; l++ {
		runMType(o, mtypeDesc{World: w, Local: l}, "designed")
	}
	w2 := mtWorld(3, [][]uint64{{1}, {2}, {3}}, []string{"b", "s", "i"})
	for l := uint64(1); l <= 3; l++ {
		runMType(o, mtypeDesc{World: w2, Local: l}, "designed")
	}
	runMType(o, mtypeDesc{World: mtWorld(2, [][]uint64{{1}, {2}}, []string{"", ""}), Local: 1}, "designed")
}

func genMType(o *hx.Out, r *hx.Rand, tier string) {
	n := 12
	if tier == "thorough" {
		n = 150
	}
	kinds := []string{"", "f", "i", "s", "b"}
	for i := 0; i < n; i++ {
		nn := 2 + r.Intn(3)
		ns := 2 + r.Intn(3)
		var owners [][]uint64
		var wts []string
		for s := 0; s < ns; s++ {
			ow := []uint64{uint64(1 + r.Intn(nn))}
			if r.Chance(30) {
				if o2 := uint64(1 + r.Intn(nn)); o2 != ow[0] {
					ow = append(ow, o2)
				}
			}
			owners = append(owners, ow)
			wts = append(wts, kinds[r.Intn(len(kinds))])
		}
		runMType(o, mtypeDesc{World: mtWorld(nn, owners, wts), Local: uint64(1 + r.Intn(nn))}, "gen")
	}
}
