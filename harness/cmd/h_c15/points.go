// points.go — part C of h_c15: streamed query points.  The real typed point encoders /
// IteratorEncoder produce frames, the real typed decoders / NewReaderIterator read them
// back; the Coq model (C15/PointModel.v) must produce byte-identical frames and the same
// decoded values, and the decoded values must equal the originals (incl. "" vs nil aux).
package main

import (
	"bytes"
	"context"
	"encoding/binary"
	"fmt"
	"math"
	"sort"
	"strings"
	"time"

	"github.com/gogo/protobuf/proto"
	"github.com/influxdata/influxdb/pkg/tracing"
	"github.com/influxdata/influxdb/pkg/tracing/wire"
	"github.com/influxdata/influxdb/query"
	"github.com/influxdata/influxql"
	"verifharness/hx"
)

// ---- replayable descriptions ----

type auxDesc struct {
	K string `json:"k"` // f fnil i inil u unil s snil b bnil nil
	N uint64 `json:"n,omitempty"`
	S []byte `json:"s,omitempty"`
}

type kvDesc struct {
	K []byte `json:"key"`
	V []byte `json:"val"`
}

type pointDesc struct {
	Typ        string    `json:"typ"` // float integer unsigned string boolean
	Name       []byte    `json:"name"`
	Tags       []kvDesc  `json:"tags"`
	Time       int64     `json:"time"`
	Nil        bool      `json:"nil"`
	Aux        []auxDesc `json:"aux"`
	Aggregated uint32    `json:"aggregated"`
	N          uint64    `json:"n"` // float bits / int64 as uint64 / uint64 / bool
	S          []byte    `json:"s,omitempty"`
}

type streamDesc struct {
	Typ     string      `json:"typ"`
	Points  []pointDesc `json:"points"`
	SeriesN int64       `json:"series_n"`
	PointN  int64       `json:"point_n"`
	Trace   bool        `json:"trace"`
	// Ticking: the source iterator is slow (a few ms per point) and the encoder's stats
	// interval is 1 ms, so periodic stats frames are emitted in the middle of the stream
	Ticking bool `json:"ticking,omitempty"`
}

type rawDesc struct {
	Typ       string `json:"typ"`
	Stream    []byte `json:"stream"`
	AllowHuge bool   `json:"allow_huge,omitempty"`
}

var typNames = []string{"float", "integer", "unsigned", "string", "boolean"}

func coqTyp(t string) string {
	switch t {
	case "float":
		return "TFloat"
	case "integer":
		return "TInteger"
	case "unsigned":
		return "TUnsigned"
	case "string":
		return "TString"
	case "boolean":
		return "TBoolean"
	}
	panic("bad typ " + t)
}

func dataType(t string) influxql.DataType {
	switch t {
	case "float":
		return influxql.Float
	case "integer":
		return influxql.Integer
	case "unsigned":
		return influxql.Unsigned
	case "string":
		return influxql.String
	case "boolean":
		return influxql.Boolean
	}
	return influxql.Unknown
}

// ---- canonical point (what is compared): everything as unsigned integers / byte strings ----

type cpoint struct {
	Name   []byte
	TagsID []byte
	KVs    []kvDesc // sorted by key
	Time   uint64
	Nil    bool
	Aux    []auxDesc
	Aggr   uint32
	Typ    string
	N      uint64
	S      []byte
}

func tagsOf(d []kvDesc) query.Tags {
	if len(d) == 0 {
		return query.Tags{}
	}
	m := make(map[string]string, len(d))
	for _, kv := range d {
		m[string(kv.K)] = string(kv.V)
	}
	return query.NewTags(m)
}

func kvsOf(t query.Tags) []kvDesc {
	m := t.KeyValues()
	keys := make([]string, 0, len(m))
	for k := range m {
		keys = append(keys, k)
	}
	sort.Strings(keys)
	out := make([]kvDesc, 0, len(keys))
	for _, k := range keys {
		out = append(out, kvDesc{K: []byte(k), V: []byte(m[k])})
	}
	return out
}

func auxOf(d []auxDesc) []interface{} {
	if d == nil {
		return nil
	}
	out := make([]interface{}, len(d))
	for i, a := range d {
		switch a.K {
		case "f":
			out[i] = math.Float64frombits(a.N)
		case "fnil":
			out[i] = (*float64)(nil)
		case "i":
			out[i] = int64(a.N)
		case "inil":
			out[i] = (*int64)(nil)
		case "u":
			out[i] = a.N
		case "unil":
			out[i] = (*uint64)(nil)
		case "s":
			out[i] = string(a.S)
		case "snil":
			out[i] = (*string)(nil)
		case "b":
			out[i] = a.N != 0
		case "bnil":
			out[i] = (*bool)(nil)
		default:
			out[i] = nil
		}
	}
	return out
}

func auxDescOf(aux []interface{}) []auxDesc {
	out := make([]auxDesc, len(aux))
	for i, v := range aux {
		switch v := v.(type) {
		case float64:
			out[i] = auxDesc{K: "f", N: math.Float64bits(v)}
		case *float64:
			out[i] = auxDesc{K: "fnil"}
			if v != nil {
				out[i] = auxDesc{K: "other"}
			}
		case int64:
			out[i] = auxDesc{K: "i", N: uint64(v)}
		case *int64:
			out[i] = auxDesc{K: "inil"}
			if v != nil {
				out[i] = auxDesc{K: "other"}
			}
		case uint64:
			out[i] = auxDesc{K: "u", N: v}
		case *uint64:
			out[i] = auxDesc{K: "unil"}
			if v != nil {
				out[i] = auxDesc{K: "other"}
			}
		case string:
			out[i] = auxDesc{K: "s", S: []byte(v)}
		case *string:
			out[i] = auxDesc{K: "snil"}
			if v != nil {
				out[i] = auxDesc{K: "other"}
			}
		case bool:
			n := uint64(0)
			if v {
				n = 1
			}
			out[i] = auxDesc{K: "b", N: n}
		case *bool:
			out[i] = auxDesc{K: "bnil"}
			if v != nil {
				out[i] = auxDesc{K: "other"}
			}
		case nil:
			out[i] = auxDesc{K: "nil"}
		default:
			out[i] = auxDesc{K: "other"}
		}
	}
	return out
}

func b2n(b bool) uint64 {
	if b {
		return 1
	}
	return 0
}

// realPoint builds the real typed point value (pointer) for a description.
func realPoint(d pointDesc) interface{} {
	tags := tagsOf(d.Tags)
	aux := auxOf(d.Aux)
	switch d.Typ {
	case "float":
		return &query.FloatPoint{Name: string(d.Name), Tags: tags, Time: d.Time, Nil: d.Nil, Aux: aux, Aggregated: d.Aggregated, Value: math.Float64frombits(d.N)}
	case "integer":
		return &query.IntegerPoint{Name: string(d.Name), Tags: tags, Time: d.Time, Nil: d.Nil, Aux: aux, Aggregated: d.Aggregated, Value: int64(d.N)}
	case "unsigned":
		return &query.UnsignedPoint{Name: string(d.Name), Tags: tags, Time: d.Time, Nil: d.Nil, Aux: aux, Aggregated: d.Aggregated, Value: d.N}
	case "string":
		return &query.StringPoint{Name: string(d.Name), Tags: tags, Time: d.Time, Nil: d.Nil, Aux: aux, Aggregated: d.Aggregated, Value: string(d.S)}
	case "boolean":
		return &query.BooleanPoint{Name: string(d.Name), Tags: tags, Time: d.Time, Nil: d.Nil, Aux: aux, Aggregated: d.Aggregated, Value: d.N != 0}
	}
	panic("bad typ")
}

func canon(p interface{}) cpoint {
	switch p := p.(type) {
	case *query.FloatPoint:
		return cpoint{Typ: "float", Name: []byte(p.Name), TagsID: []byte(p.Tags.ID()), KVs: kvsOf(p.Tags), Time: uint64(p.Time), Nil: p.Nil, Aux: auxDescOf(p.Aux), Aggr: p.Aggregated, N: math.Float64bits(p.Value)}
	case *query.IntegerPoint:
		return cpoint{Typ: "integer", Name: []byte(p.Name), TagsID: []byte(p.Tags.ID()), KVs: kvsOf(p.Tags), Time: uint64(p.Time), Nil: p.Nil, Aux: auxDescOf(p.Aux), Aggr: p.Aggregated, N: uint64(p.Value)}
	case *query.UnsignedPoint:
		return cpoint{Typ: "unsigned", Name: []byte(p.Name), TagsID: []byte(p.Tags.ID()), KVs: kvsOf(p.Tags), Time: uint64(p.Time), Nil: p.Nil, Aux: auxDescOf(p.Aux), Aggr: p.Aggregated, N: p.Value}
	case *query.StringPoint:
		return cpoint{Typ: "string", Name: []byte(p.Name), TagsID: []byte(p.Tags.ID()), KVs: kvsOf(p.Tags), Time: uint64(p.Time), Nil: p.Nil, Aux: auxDescOf(p.Aux), Aggr: p.Aggregated, S: []byte(p.Value)}
	case *query.BooleanPoint:
		return cpoint{Typ: "boolean", Name: []byte(p.Name), TagsID: []byte(p.Tags.ID()), KVs: kvsOf(p.Tags), Time: uint64(p.Time), Nil: p.Nil, Aux: auxDescOf(p.Aux), Aggr: p.Aggregated, N: b2n(p.Value)}
	}
	panic(fmt.Sprintf("canon: %T", p))
}

// ---- Coq printers ----

func coqAux(a []auxDesc) string {
	items := make([]string, len(a))
	for i, x := range a {
		switch x.K {
		case "f":
			items[i] = fmt.Sprintf("AFloat %d", x.N)
		case "fnil":
			items[i] = "AFloatNil"
		case "i":
			items[i] = fmt.Sprintf("AInteger %d", x.N)
		case "inil":
			items[i] = "AIntegerNil"
		case "u":
			items[i] = fmt.Sprintf("AUnsigned %d", x.N)
		case "unil":
			items[i] = "AUnsignedNil"
		case "s":
			items[i] = "AString " + hx.CoqBytes(x.S)
		case "snil":
			items[i] = "AStringNil"
		case "b":
			items[i] = "ABoolean " + hx.CoqBool(x.N != 0)
		case "bnil":
			items[i] = "ABooleanNil"
		case "nil":
			items[i] = "AUnknown"
		default:
			items[i] = "AOther"
		}
	}
	return hx.CoqList(items)
}

func coqKVs(kvs []kvDesc) string {
	items := make([]string, len(kvs))
	for i, kv := range kvs {
		items[i] = "(" + hx.CoqBytes(kv.K) + ", " + hx.CoqBytes(kv.V) + ")"
	}
	return hx.CoqList(items)
}

func coqValue(c cpoint) string {
	switch c.Typ {
	case "float":
		return fmt.Sprintf("(VFloat %d)", c.N)
	case "integer":
		return fmt.Sprintf("(VInteger %d)", c.N)
	case "unsigned":
		return fmt.Sprintf("(VUnsigned %d)", c.N)
	case "string":
		return "(VString " + hx.CoqBytes(c.S) + ")"
	case "boolean":
		return "(VBoolean " + hx.CoqBool(c.N != 0) + ")"
	}
	panic("bad typ")
}

func coqPoint(c cpoint) string {
	return fmt.Sprintf("(mkPoint %s %s %d %s %s %d %s)", hx.CoqBytes(c.Name), hx.CoqBytes(c.TagsID), c.Time, hx.CoqBool(c.Nil), coqAux(c.Aux), c.Aggr, coqValue(c))
}

func coqPoints(cs []cpoint) string {
	items := make([]string, len(cs))
	for i, c := range cs {
		items[i] = coqPoint(c)
	}
	return hx.CoqList(items)
}

// ---- running the real code ----

func encodeOne(w *bytes.Buffer, p interface{}) error {
	switch p := p.(type) {
	case *query.FloatPoint:
		return query.NewFloatPointEncoder(w).EncodeFloatPoint(p)
	case *query.IntegerPoint:
		return query.NewIntegerPointEncoder(w).EncodeIntegerPoint(p)
	case *query.UnsignedPoint:
		return query.NewUnsignedPointEncoder(w).EncodeUnsignedPoint(p)
	case *query.StringPoint:
		return query.NewStringPointEncoder(w).EncodeStringPoint(p)
	case *query.BooleanPoint:
		return query.NewBooleanPointEncoder(w).EncodeBooleanPoint(p)
	}
	panic("encodeOne")
}

// decodeOne: one DecodeXPoint call of the typed decoder. cls 0 ok, 1 error, 2 panic.
func decodeOne(typ string, data []byte) (cls int, c cpoint) {
	defer func() {
		if e := recover(); e != nil {
			cls = 2
		}
	}()
	ctx := context.Background()
	r := bytes.NewReader(data)
	var err error
	var p interface{}
	switch typ {
	case "float":
		q := &query.FloatPoint{}
		err = query.NewFloatPointDecoder(ctx, r).DecodeFloatPoint(q)
		p = q
	case "integer":
		q := &query.IntegerPoint{}
		err = query.NewIntegerPointDecoder(ctx, r).DecodeIntegerPoint(q)
		p = q
	case "unsigned":
		q := &query.UnsignedPoint{}
		err = query.NewUnsignedPointDecoder(ctx, r).DecodeUnsignedPoint(q)
		p = q
	case "string":
		q := &query.StringPoint{}
		err = query.NewStringPointDecoder(ctx, r).DecodeStringPoint(q)
		p = q
	case "boolean":
		q := &query.BooleanPoint{}
		err = query.NewBooleanPointDecoder(ctx, r).DecodeBooleanPoint(q)
		p = q
	}
	if err != nil {
		return 1, cpoint{Typ: typ}
	}
	return 0, canon(p)
}

// readAll: NewReaderIterator(...).Next() until end. cls 0 = clean end, 1 = error, 2 = panic.
func readAll(typ string, data []byte) (cls int, pts []cpoint) {
	defer func() {
		if e := recover(); e != nil {
			cls = 2
		}
	}()
	itr := query.NewReaderIterator(context.Background(), bytes.NewReader(data), dataType(typ), query.IteratorStats{})
	for n := 0; n < 1<<20; n++ {
		var p interface{}
		var err error
		var isNil bool
		switch it := itr.(type) {
		case query.FloatIterator:
			q, e := it.Next()
			p, err, isNil = q, e, q == nil
		case query.IntegerIterator:
			q, e := it.Next()
			p, err, isNil = q, e, q == nil
		case query.UnsignedIterator:
			q, e := it.Next()
			p, err, isNil = q, e, q == nil
		case query.StringIterator:
			q, e := it.Next()
			p, err, isNil = q, e, q == nil
		case query.BooleanIterator:
			q, e := it.Next()
			p, err, isNil = q, e, q == nil
		}
		if err != nil {
			return 1, pts
		}
		if isNil {
			return 0, pts
		}
		pts = append(pts, canon(p))
	}
	return 1, pts
}

// slice iterators feeding IteratorEncoder
type baseItr struct {
	stats query.IteratorStats
	delay time.Duration // per Next call (a slow shard scan)
}

func (b *baseItr) wait() {
	if b.delay > 0 {
		time.Sleep(b.delay)
	}
}

func (b *baseItr) Stats() query.IteratorStats { return b.stats }
func (b *baseItr) Close() error               { return nil }

type fItr struct {
	baseItr
	p []*query.FloatPoint
}

func (i *fItr) Next() (*query.FloatPoint, error) {
	i.wait()
	if len(i.p) == 0 {
		return nil, nil
	}
	x := i.p[0]
	i.p = i.p[1:]
	return x, nil
}

type iItr struct {
	baseItr
	p []*query.IntegerPoint
}

func (i *iItr) Next() (*query.IntegerPoint, error) {
	i.wait()
	if len(i.p) == 0 {
		return nil, nil
	}
	x := i.p[0]
	i.p = i.p[1:]
	return x, nil
}

type uItr struct {
	baseItr
	p []*query.UnsignedPoint
}

func (i *uItr) Next() (*query.UnsignedPoint, error) {
	i.wait()
	if len(i.p) == 0 {
		return nil, nil
	}
	x := i.p[0]
	i.p = i.p[1:]
	return x, nil
}

type sItr struct {
	baseItr
	p []*query.StringPoint
}

func (i *sItr) Next() (*query.StringPoint, error) {
	i.wait()
	if len(i.p) == 0 {
		return nil, nil
	}
	x := i.p[0]
	i.p = i.p[1:]
	return x, nil
}

type bItr struct {
	baseItr
	p []*query.BooleanPoint
}

func (i *bItr) Next() (*query.BooleanPoint, error) {
	i.wait()
	if len(i.p) == 0 {
		return nil, nil
	}
	x := i.p[0]
	i.p = i.p[1:]
	return x, nil
}

func sliceItr(typ string, ds []pointDesc, st query.IteratorStats, delay time.Duration) query.Iterator {
	b := baseItr{stats: st, delay: delay}
	switch typ {
	case "float":
		it := &fItr{baseItr: b}
		for _, d := range ds {
			it.p = append(it.p, realPoint(d).(*query.FloatPoint))
		}
		return it
	case "integer":
		it := &iItr{baseItr: b}
		for _, d := range ds {
			it.p = append(it.p, realPoint(d).(*query.IntegerPoint))
		}
		return it
	case "unsigned":
		it := &uItr{baseItr: b}
		for _, d := range ds {
			it.p = append(it.p, realPoint(d).(*query.UnsignedPoint))
		}
		return it
	case "string":
		it := &sItr{baseItr: b}
		for _, d := range ds {
			it.p = append(it.p, realPoint(d).(*query.StringPoint))
		}
		return it
	case "boolean":
		it := &bItr{baseItr: b}
		for _, d := range ds {
			it.p = append(it.p, realPoint(d).(*query.BooleanPoint))
		}
		return it
	}
	panic("bad typ")
}

// a deterministic, non-empty trace
func fixedTrace() (*tracing.Trace, []byte) {
	wt := wire.Trace{Spans: []*wire.Span{{Context: wire.SpanContext{TraceID: 7, SpanID: 9}, Name: "remote_iterator", Start: time.Unix(0, 0).UTC()}}}
	buf, err := proto.Marshal(&wt)
	if err != nil {
		panic(err)
	}
	var t tracing.Trace
	if err := t.UnmarshalBinary(buf); err != nil {
		panic(err)
	}
	data, err := t.MarshalBinary()
	if err != nil {
		panic(err)
	}
	return &t, data
}

// ---- case runners ----

func normPoint(d pointDesc) pointDesc {
	// the map form of the tags: distinct keys, sorted (a Go map has no order)
	m := map[string][]byte{}
	for _, kv := range d.Tags {
		m[string(kv.K)] = kv.V
	}
	keys := make([]string, 0, len(m))
	for k := range m {
		keys = append(keys, k)
	}
	sort.Strings(keys)
	d.Tags = d.Tags[:0:0]
	for _, k := range keys {
		d.Tags = append(d.Tags, kvDesc{K: []byte(k), V: m[k]})
	}
	ok := false
	for _, t := range typNames {
		if t == d.Typ {
			ok = true
		}
	}
	if !ok {
		d.Typ = "float"
	}
	for i := range d.Aux {
		switch d.Aux[i].K {
		case "f", "fnil", "i", "inil", "u", "unil", "s", "snil", "b", "bnil", "nil":
		default:
			d.Aux[i].K = "nil"
		}
		if d.Aux[i].K == "b" && d.Aux[i].N > 1 {
			d.Aux[i].N = 1
		}
	}
	if d.Typ == "boolean" && d.N > 1 {
		d.N = 1
	}
	return d
}

func origCanon(d pointDesc) cpoint { return canon(realPoint(d)) }

func pointSig(d pointDesc) string {
	var sb strings.Builder
	fmt.Fprintf(&sb, "%s|%x|%d|%v|%d|%d|%x|", d.Typ, d.Name, d.Time, d.Nil, d.Aggregated, d.N, d.S)
	for _, kv := range d.Tags {
		fmt.Fprintf(&sb, "%x=%x,", kv.K, kv.V)
	}
	for _, a := range d.Aux {
		fmt.Fprintf(&sb, "%s:%d:%x;", a.K, a.N, a.S)
	}
	return sb.String()
}

func runPoint(o *hx.Out, d pointDesc, origin string) {
	d = normPoint(d)
	o.Begin("point", d)
	orig := origCanon(d)
	var bb bytes.Buffer
	encErr := false
	func() {
		defer func() {
			if e := recover(); e != nil {
				encErr = true
			}
		}()
		if err := encodeOne(&bb, realPoint(d)); err != nil {
			encErr = true
		}
	}()
	data := append([]byte(nil), bb.Bytes()...)
	cls, dec := 1, cpoint{Typ: d.Typ}
	if !encErr {
		cls, dec = decodeOne(d.Typ, data)
	} else {
		cls = 3 // encoder failed: nothing was sent
	}
	coq := fmt.Sprintf("CPoint %s %s %s %s %d %s %s", coqTyp(d.Typ), coqKVs(d.Tags), coqPoint(orig), hx.CoqBytes(data), cls, coqKVs(dec.KVs), coqPoint(dec))
	o.Count("point:typ=" + d.Typ)
	o.Count(fmt.Sprintf("point:aux=%d", len(d.Aux)))
	o.Count(fmt.Sprintf("point:tags=%d", len(d.Tags)))
	for _, a := range d.Aux {
		k := a.K
		if k == "s" && len(a.S) == 0 {
			k = "s-empty"
		}
		o.Count("point:auxkind=" + k)
	}
	o.Emit(hx.Case{Kind: "point", Coq: coq, Desc: d, Obs: map[string]interface{}{"frame_len": len(data), "decode_class": cls, "decoded": dec},
		Nontrivial: len(d.Aux) > 0 || len(d.Tags) > 0 || len(d.Name) > 0, Sig: "pt:" + pointSig(d), Origin: origin})
}

func runStream(o *hx.Out, d streamDesc, origin string) {
	ok := false
	for _, t := range typNames {
		if t == d.Typ {
			ok = true
		}
	}
	if !ok {
		d.Typ = "float"
	}
	for i := range d.Points {
		d.Points[i].Typ = d.Typ
		d.Points[i] = normPoint(d.Points[i])
	}
	o.Begin("stream", d)
	var bb bytes.Buffer
	enc := query.NewIteratorEncoder(&bb)
	enc.StatsInterval = time.Hour // no timer-driven stats frames: initial and final only
	var delay time.Duration
	if d.Ticking {
		enc.StatsInterval = time.Millisecond
		delay = 4 * time.Millisecond
	}
	st := query.IteratorStats{SeriesN: int(d.SeriesN), PointN: int(d.PointN)}
	encCls := 0
	var traceData []byte
	func() {
		defer func() {
			if e := recover(); e != nil {
				encCls = 2
			}
		}()
		if err := enc.EncodeIterator(sliceItr(d.Typ, d.Points, st, delay)); err != nil {
			encCls = 1
			return
		}
		if d.Trace {
			t, data := fixedTrace()
			traceData = data
			if err := enc.EncodeTrace(t); err != nil {
				encCls = 1
			}
		}
	}()
	data := append([]byte(nil), bb.Bytes()...)
	cls, pts := readAll(d.Typ, data)
	origs := make([]cpoint, len(d.Points))
	sigs := make([]string, len(d.Points))
	for i, p := range d.Points {
		origs[i] = origCanon(p)
		sigs[i] = pointSig(p)
	}
	coq := fmt.Sprintf("CStream %s %s %d %d %s %s %d %s %d %s", coqTyp(d.Typ), coqPoints(origs), uint64(d.SeriesN), uint64(d.PointN), hx.CoqBytes(traceData),
		hx.CoqBool(d.Ticking), encCls, hx.CoqBytes(data), cls, coqPoints(pts))
	if d.Ticking {
		o.Count("stream:ticking")
	}
	o.Count("stream:typ=" + d.Typ)
	o.Count(fmt.Sprintf("stream:points=%d", len(d.Points)))
	o.Emit(hx.Case{Kind: "stream", Coq: coq, Desc: d, Obs: map[string]interface{}{"encode_class": encCls, "stream_len": len(data), "read_class": cls, "points_read": len(pts)},
		Nontrivial: len(d.Points) > 0, Sig: fmt.Sprintf("st:%s:%d:%d:%v:%v:%s", d.Typ, d.SeriesN, d.PointN, d.Trace, d.Ticking, strings.Join(sigs, "/")), Origin: origin})
}

const rawCap = 1 << 24

// sanitizeFrames walks the stream the way the frame reader does and clamps every frame
// length it would read to < rawCap, so that the harness does not allocate gigabytes.
func sanitizeFrames(s []byte) []byte {
	s = append([]byte(nil), s...)
	i := 0
	for i+4 <= len(s) {
		sz := binary.BigEndian.Uint32(s[i:])
		if sz >= rawCap {
			s[i] = 0
			sz = binary.BigEndian.Uint32(s[i:])
		}
		i += 4
		if uint64(len(s)-i) < uint64(sz) {
			break
		}
		i += int(sz)
	}
	return s
}

func runRaw(o *hx.Out, d rawDesc, origin string) {
	ok := false
	for _, t := range typNames {
		if t == d.Typ {
			ok = true
		}
	}
	if !ok {
		d.Typ = "float"
	}
	if !d.AllowHuge {
		d.Stream = sanitizeFrames(d.Stream)
	}
	o.Begin("raw", d)
	cls, pts := readAll(d.Typ, d.Stream)
	coq := fmt.Sprintf("CRaw %s %s %d %s", coqTyp(d.Typ), hx.CoqBytes(d.Stream), cls, coqPoints(pts))
	o.Count(fmt.Sprintf("raw:class=%d", cls))
	o.Count(fmt.Sprintf("raw:points=%d", len(pts)))
	o.Emit(hx.Case{Kind: "raw", Coq: coq, Desc: d, Obs: map[string]interface{}{"read_class": cls, "points": pts},
		Nontrivial: len(d.Stream) >= 4, Sig: fmt.Sprintf("raw:%s:%x", d.Typ, d.Stream), Origin: origin})
}

// the DataType codes the aux encoding uses, as the working tree defines them
func runPtConsts(o *hx.Out, origin string) {
	o.Begin("ptconsts", struct{}{})
	vals := []uint64{uint64(influxql.Unknown), uint64(influxql.Float), uint64(influxql.Integer), uint64(influxql.String), uint64(influxql.Boolean), uint64(influxql.Unsigned)}
	o.Emit(hx.Case{Kind: "ptconsts", Coq: "CPtConsts " + hx.CoqNList(vals), Desc: struct{}{}, Obs: vals, Nontrivial: true, Sig: "ptconsts", Origin: origin})
}

// ---- generators ----

var specialF = []uint64{0, 0x8000000000000000, 0x3ff0000000000000, 0x7ff0000000000000, 0xfff0000000000000, 0x7ff8000000000001, 0xffffffffffffffff, 1, 0x7fefffffffffffff, 0x4037000000000000}
var specialI = []uint64{0, 1, 0xffffffffffffffff, 0x7fffffffffffffff, 0x8000000000000000, 127, 128, 16383, 16384, 1 << 32, 1<<63 - 1, 1 << 56, 0xfffffffffffffffe}

func genBytes(r *hx.Rand, noNul bool) []byte {
	var b []byte
	switch r.Intn(8) {
	case 0:
		return nil
	case 1:
		b = []byte([]string{"cpu", "host", "region", "a", "value", "server01", "us-west", "é", "\xff", " ", ",", "="}[r.Intn(12)])
	case 2:
		b = r.Bytes(1 + r.Intn(3))
	case 3:
		b = r.Bytes(120 + r.Intn(20)) // around the 1->2 byte varint length boundary
	default:
		b = r.Bytes(r.Intn(12))
	}
	if noNul {
		for i := range b {
			if b[i] == 0 {
				b[i] = 1
			}
		}
	}
	return b
}

func genAux(r *hx.Rand) []auxDesc {
	n := 0
	switch r.Intn(6) {
	case 0:
		return nil
	case 1:
		n = 1
	case 2:
		n = 2
	default:
		n = r.Intn(7)
	}
	out := make([]auxDesc, n)
	for i := range out {
		switch r.Intn(12) {
		case 0:
			out[i] = auxDesc{K: "f", N: specialF[r.Intn(len(specialF))]}
		case 1:
			out[i] = auxDesc{K: "f", N: r.U64()}
		case 2:
			out[i] = auxDesc{K: "fnil"}
		case 3:
			out[i] = auxDesc{K: "i", N: specialI[r.Intn(len(specialI))]}
		case 4:
			out[i] = auxDesc{K: "inil"}
		case 5:
			out[i] = auxDesc{K: "u", N: specialI[r.Intn(len(specialI))]}
		case 6:
			out[i] = auxDesc{K: "unil"}
		case 7:
			out[i] = auxDesc{K: "s", S: genBytes(r, false)}
		case 8:
			out[i] = auxDesc{K: "s"} // the empty string: must not come back as the nil marker
		case 9:
			out[i] = auxDesc{K: "snil"}
		case 10:
			if r.Bool() {
				out[i] = auxDesc{K: "b", N: uint64(r.Intn(2))}
			} else {
				out[i] = auxDesc{K: "bnil"}
			}
		default:
			out[i] = auxDesc{K: "nil"}
		}
	}
	return out
}

func genPoint(r *hx.Rand, typ string) pointDesc {
	d := pointDesc{Typ: typ, Name: genBytes(r, false), Nil: r.Chance(25), Aux: genAux(r)}
	nt := 0
	if !r.Chance(30) {
		nt = 1 + r.Intn(4)
	}
	for i := 0; i < nt; i++ {
		d.Tags = append(d.Tags, kvDesc{K: genBytes(r, true), V: genBytes(r, true)})
	}
	if r.Bool() {
		d.Time = int64(specialI[r.Intn(len(specialI))])
	} else {
		d.Time = int64(r.U64())
	}
	switch r.Intn(4) {
	case 0:
		d.Aggregated = 0
	case 1:
		d.Aggregated = uint32([]uint64{1, 127, 128, 0xffffffff, 0x80000000}[r.Intn(5)])
	default:
		d.Aggregated = uint32(r.U64())
	}
	switch typ {
	case "float":
		if r.Bool() {
			d.N = specialF[r.Intn(len(specialF))]
		} else {
			d.N = r.U64()
		}
	case "integer", "unsigned":
		if r.Bool() {
			d.N = specialI[r.Intn(len(specialI))]
		} else {
			d.N = r.U64()
		}
	case "string":
		d.S = genBytes(r, false)
	case "boolean":
		d.N = uint64(r.Intn(2))
	}
	return d
}

// ---- a small protobuf writer for hand-built (possibly ill-formed) frames ----

func pbVarint(b []byte, x uint64) []byte {
	for x >= 0x80 {
		b = append(b, byte(x)|0x80)
		x >>= 7
	}
	return append(b, byte(x))
}
func pbTag(b []byte, field uint64, wire int) []byte { return pbVarint(b, field<<3|uint64(wire)) }
func pbBytesField(b []byte, field uint64, v []byte) []byte {
	b = pbTag(b, field, 2)
	b = pbVarint(b, uint64(len(v)))
	return append(b, v...)
}
func pbVarintField(b []byte, field uint64, v uint64) []byte { return pbVarint(pbTag(b, field, 0), v) }
func pbFixed64Field(b []byte, field uint64, v uint64) []byte {
	b = pbTag(b, field, 1)
	var x [8]byte
	binary.LittleEndian.PutUint64(x[:], v)
	return append(b, x[:]...)
}
func frameOf(body []byte) []byte {
	var h [4]byte
	binary.BigEndian.PutUint32(h[:], uint32(len(body)))
	return append(h[:], body...)
}

// genBody builds a Point message body field by field, with deliberate irregularities.
func genBody(r *hx.Rand) []byte {
	var b []byte
	required := []uint64{1, 2, 3, 4}
	for _, f := range required {
		if r.Chance(6) {
			continue // missing required field
		}
		switch f {
		case 1, 2:
			v := genBytes(r, false)
			if f == 2 && r.Bool() {
				v = append(append(genBytes(r, true), 0), genBytes(r, true)...)
			}
			if r.Chance(4) {
				b = pbVarintField(b, f, r.U64()) // wrong wire type
			} else {
				b = pbBytesField(b, f, v)
			}
		case 3:
			b = pbVarintField(b, 3, specialI[r.Intn(len(specialI))])
		case 4:
			b = pbVarintField(b, 4, []uint64{0, 1, 2, 1 << 40}[r.Intn(4)])
		}
	}
	nf := r.Intn(6)
	for i := 0; i < nf; i++ {
		switch r.Intn(16) {
		case 0, 1, 2: // aux element
			var a []byte
			if !r.Chance(10) {
				a = pbVarintField(a, 1, []uint64{0, 1, 2, 3, 4, 9, 5, 10, 0xffffffffffffffff, 1 << 32, 1<<32 + 3}[r.Intn(11)])
			}
			for k := r.Intn(3); k > 0; k-- {
				switch r.Intn(6) {
				case 0:
					a = pbFixed64Field(a, 2, r.U64())
				case 1:
					a = pbVarintField(a, 3, r.U64())
				case 2:
					a = pbBytesField(a, 4, genBytes(r, false))
				case 3:
					a = pbVarintField(a, 5, uint64(r.Intn(3)))
				case 4:
					a = pbVarintField(a, 6, r.U64())
				default:
					a = pbVarintField(a, uint64(7+r.Intn(5)), r.U64()) // unknown field in Aux
				}
			}
			if r.Chance(5) && len(a) > 0 {
				a = a[:len(a)-1]
			}
			b = pbBytesField(b, 5, a)
		case 3:
			b = pbVarintField(b, 6, []uint64{0, 1, 0xffffffff, 1 << 32, 1<<32 + 5, r.U64()}[r.Intn(6)])
		case 4:
			b = pbFixed64Field(b, 7, r.U64())
		case 5:
			b = pbVarintField(b, 8, r.U64())
		case 6:
			b = pbBytesField(b, 9, genBytes(r, false))
		case 7:
			b = pbVarintField(b, 10, uint64(r.Intn(3)))
		case 8:
			b = pbVarintField(b, 12, r.U64())
		case 9: // stats
			var s []byte
			if r.Bool() {
				s = pbVarintField(s, 1, r.U64())
			}
			if r.Bool() {
				s = pbVarintField(s, 2, r.U64())
			}
			if r.Chance(10) {
				s = append(s, 0x80)
			}
			b = pbBytesField(b, 11, s)
		case 10: // trace
			b = pbBytesField(b, 13, r.Bytes(r.Intn(4)))
		case 11: // unknown field, any wire type
			f := uint64(14 + r.Intn(40))
			if r.Chance(20) {
				f = 1 << uint(10+r.Intn(40))
			}
			switch r.Intn(6) {
			case 0:
				b = pbVarintField(b, f, r.U64())
			case 1:
				b = pbFixed64Field(b, f, r.U64())
			case 2:
				b = pbBytesField(b, f, r.Bytes(r.Intn(5)))
			case 3: // group
				b = pbTag(b, f, 3)
				if r.Bool() {
					b = pbVarintField(b, 1, r.U64())
				}
				if r.Chance(30) {
					b = pbTag(b, 2, 3)
					b = pbTag(b, 2, 4)
				}
				if !r.Chance(20) {
					b = pbTag(b, f, 4)
				}
			case 4:
				b = append(pbTag(b, f, 5), r.Bytes(4)...)
			default:
				b = pbTag(b, f, 6+r.Intn(2))
			}
		case 12: // known field with a wrong wire type
			b = pbFixed64Field(b, uint64(1+r.Intn(13)), r.U64())
		case 13: // over-long / overflowing varints
			b = pbTag(b, 8, 0)
			b = append(b, bytes.Repeat([]byte{0xff}, 9)...)
			b = append(b, []byte{0, 1, 2, 0x7f}[r.Intn(4)])
		case 14: // field number 0, or a non-canonical tag varint
			if r.Bool() {
				b = append(b, byte(r.Intn(8)), byte(r.Intn(3)))
				break
			}
			b = append(b, 0x80|byte(8*3), 0x80, 0)
			b = pbVarint(b, r.U64())
		default: // repeated scalar: the last one wins
			b = pbBytesField(b, 1, genBytes(r, false))
		}
	}
	if r.Chance(8) && len(b) > 0 {
		b = b[:r.Intn(len(b))]
	}
	return b
}

func genRaw(r *hx.Rand, typ string) rawDesc {
	var s []byte
	switch r.Intn(5) {
	case 0, 1: // hand-built frames
		for n := 1 + r.Intn(3); n > 0; n-- {
			s = append(s, frameOf(genBody(r))...)
		}
	case 2, 3: // a valid stream, mutated
		var bb bytes.Buffer
		n := 1 + r.Intn(3)
		for i := 0; i < n; i++ {
			t := typ
			if r.Chance(20) {
				t = typNames[r.Intn(len(typNames))] // a point of another type in the stream
			}
			encodeOne(&bb, realPoint(normPoint(genPoint(r, t))))
		}
		s = append([]byte(nil), bb.Bytes()...)
		switch r.Intn(5) {
		case 0:
			if len(s) > 0 {
				s = s[:r.Intn(len(s))]
			}
		case 1:
			for k := 1 + r.Intn(3); k > 0 && len(s) > 0; k-- {
				s[r.Intn(len(s))] ^= byte(1 << uint(r.Intn(8)))
			}
		case 2:
			if len(s) > 4 {
				i := 4 + r.Intn(len(s)-4)
				s[i] = []byte{0, 1, 0x7f, 0x80, 0xff}[r.Intn(5)]
			}
		case 3:
			s = append(s, r.Bytes(r.Intn(6))...)
		}
	default: // random bytes behind small length prefixes
		for n := 1 + r.Intn(3); n > 0; n-- {
			k := r.Intn(24)
			body := r.Bytes(k)
			var h [4]byte
			binary.BigEndian.PutUint32(h[:], uint32(k+[]int{0, 0, 0, 1, -1, 3}[r.Intn(6)]))
			s = append(s, h[:]...)
			s = append(s, body...)
		}
	}
	return rawDesc{Typ: typ, Stream: s}
}

// ---- designed cases ----

func designedPoints(o *hx.Out) {
	runPtConsts(o, "designed")
	allAux := []auxDesc{{K: "f", N: 0x3ff8000000000000}, {K: "fnil"}, {K: "i", N: 0xffffffffffffffff}, {K: "inil"}, {K: "u", N: 0xffffffffffffffff}, {K: "unil"},
		{K: "s", S: []byte("x")}, {K: "s"}, {K: "snil"}, {K: "b", N: 1}, {K: "b", N: 0}, {K: "bnil"}, {K: "nil"}, {K: "f", N: 0}, {K: "i", N: 0}, {K: "u", N: 0}}
	for _, typ := range typNames {
		zero := pointDesc{Typ: typ}
		runPoint(o, zero, "designed")
		// each aux kind alone, in particular "" vs the string nil marker
		for _, a := range allAux {
			runPoint(o, pointDesc{Typ: typ, Name: []byte("cpu"), Aux: []auxDesc{a}}, "designed")
		}
		runPoint(o, pointDesc{Typ: typ, Name: []byte("cpu"), Tags: []kvDesc{{K: []byte("host"), V: []byte("a")}, {K: []byte("region"), V: []byte("")}}, Time: -1, Nil: true,
			Aux: allAux, Aggregated: 0xffffffff, N: 1, S: []byte("")}, "designed")
		runPoint(o, pointDesc{Typ: typ, Name: []byte{0xff, 0, 0xfe}, Tags: []kvDesc{{K: []byte(""), V: []byte("")}}, Time: -9223372036854775808, N: 0xffffffffffffffff, S: []byte{0, 0xff}}, "designed")
		runPoint(o, pointDesc{Typ: typ, Name: bytes.Repeat([]byte("n"), 300), Tags: []kvDesc{{K: []byte("k"), V: bytes.Repeat([]byte("v"), 200)}}, Time: 9223372036854775807, N: 0x7ff8000000000001, S: bytes.Repeat([]byte("s"), 130)}, "designed")
		// streams
		p1 := pointDesc{Typ: typ, Name: []byte("cpu"), Tags: []kvDesc{{K: []byte("host"), V: []byte("a")}}, Time: 1, Aux: []auxDesc{{K: "s"}, {K: "snil"}}, N: 1, S: []byte("v")}
		p2 := pointDesc{Typ: typ, Name: []byte("cpu"), Time: 2, Nil: true, Aux: []auxDesc{{K: "nil"}, {K: "f", N: 1}}}
		runStream(o, streamDesc{Typ: typ}, "designed")
		runStream(o, streamDesc{Typ: typ, Trace: true}, "designed")
		runStream(o, streamDesc{Typ: typ, Points: []pointDesc{p1}, SeriesN: 1, PointN: 1}, "designed")
		runStream(o, streamDesc{Typ: typ, Points: []pointDesc{p1, p2, p1}, SeriesN: -1, PointN: 9223372036854775807, Trace: true}, "designed")
		// periodic stats frames in the middle of the stream: no point may be lost to them
		runStream(o, streamDesc{Typ: typ, Points: []pointDesc{p1, p2, p1, p2, p1, p2}, SeriesN: 2, PointN: 6, Ticking: true}, "designed")
		runStream(o, streamDesc{Typ: typ, Points: []pointDesc{p2, p1, p1}, SeriesN: 1, PointN: 3, Trace: true, Ticking: true}, "designed")
		// frame-level edge cases
		var one bytes.Buffer
		encodeOne(&one, realPoint(normPoint(p1)))
		f := one.Bytes()
		for k := 0; k <= len(f); k++ { // every truncation of a valid frame
			runRaw(o, rawDesc{Typ: typ, Stream: f[:k]}, "designed")
		}
		runRaw(o, rawDesc{Typ: typ, Stream: append(append([]byte{}, f...), f...)}, "designed")
		runRaw(o, rawDesc{Typ: typ, Stream: []byte{0, 0, 0, 0}}, "designed")
		runRaw(o, rawDesc{Typ: typ, Stream: []byte{0, 0, 0, 0, 0, 0, 0, 0}}, "designed")
		runRaw(o, rawDesc{Typ: typ, Stream: []byte{0, 0, 0, 1}}, "designed")
		runRaw(o, rawDesc{Typ: typ, Stream: []byte{0, 0, 0, 2, 8}}, "designed")
		runRaw(o, rawDesc{Typ: typ, Stream: []byte{0, 0xff, 0xff, 0xff, 1}}, "designed")
		req := pbVarintField(pbVarintField(pbBytesField(pbBytesField(nil, 1, []byte("m")), 2, []byte("k\x00v")), 3, 5), 4, 0)
		runRaw(o, rawDesc{Typ: typ, Stream: frameOf(req)}, "designed")                                                 // no value field at all: zero value
		runRaw(o, rawDesc{Typ: typ, Stream: frameOf(pbBytesField(append([]byte{}, req...), 2, []byte("nonul")))}, "designed") // tags id without separator
		runRaw(o, rawDesc{Typ: typ, Stream: frameOf(pbBytesField(append([]byte{}, req...), 11, nil))}, "designed")     // empty stats: skipped
		runRaw(o, rawDesc{Typ: typ, Stream: frameOf(pbBytesField(append([]byte{}, req...), 13, nil))}, "designed")     // empty trace: a point
		runRaw(o, rawDesc{Typ: typ, Stream: frameOf(pbBytesField(append([]byte{}, req...), 13, []byte{1}))}, "designed")
		runRaw(o, rawDesc{Typ: typ, Stream: frameOf(pbBytesField(append([]byte{}, req...), 5, nil))}, "designed") // aux without DataType
		runRaw(o, rawDesc{Typ: typ, Stream: frameOf(pbBytesField(append([]byte{}, req...), 5, []byte{8, 3}))}, "designed")
		runRaw(o, rawDesc{Typ: typ, Stream: frameOf(pbBytesField(append([]byte{}, req...), 5, []byte{8, 3, 0x22, 0}))}, "designed") // string aux, present and empty
		runRaw(o, rawDesc{Typ: typ, Stream: frameOf(append(append([]byte{}, req...), 0x7b, 0x7c))}, "designed")                    // group 15 start/end
		runRaw(o, rawDesc{Typ: typ, Stream: frameOf(append(append([]byte{}, req...), 0x7b))}, "designed")                          // unterminated group
		runRaw(o, rawDesc{Typ: typ, Stream: frameOf(append(append([]byte{}, req...), 0x7c))}, "designed")                          // stray end group
		runRaw(o, rawDesc{Typ: typ, Stream: frameOf(append(append([]byte{}, req...), 0x7e))}, "designed")                          // wire type 6
		runRaw(o, rawDesc{Typ: typ, Stream: frameOf(append(append([]byte{}, req...), 0x7d, 1, 2, 3))}, "designed")                 // short fixed32
		// field number 0 is rejected ("illegal tag 0") in every message type, whatever its wire type
		runRaw(o, rawDesc{Typ: typ, Stream: frameOf(append(append([]byte{}, req...), 0, 11))}, "designed")
		runRaw(o, rawDesc{Typ: typ, Stream: frameOf(append(append([]byte{}, req...), 2, 0))}, "designed")
		runRaw(o, rawDesc{Typ: typ, Stream: frameOf(append(append([]byte{}, req...), 7))}, "designed")
		runRaw(o, rawDesc{Typ: typ, Stream: frameOf(pbBytesField(append([]byte{}, req...), 5, []byte{8, 1, 0, 0}))}, "designed")
		runRaw(o, rawDesc{Typ: typ, Stream: frameOf(pbBytesField(append([]byte{}, req...), 11, []byte{0, 0}))}, "designed")
		runRaw(o, rawDesc{Typ: typ, Stream: frameOf(append(append([]byte{}, req...), 0x7b, 0, 0, 0x7c))}, "designed") // tag 0 inside a skipped group is not checked
	}
	// one large frame length (allocation only; the read fails)
	runRaw(o, rawDesc{Typ: "float", Stream: []byte{0x08, 0, 0, 0, 1, 2, 3}, AllowHuge: true}, "designed")
}
