// envelopes.go — part A of h_c15: well-formed request envelopes (built through the real
// request structs' MarshalBinary, framed with the real WriteTLV) whose CONTENTS are
// invalid or at an edge, for every message type of the dispatch table.  They are fed to
// the real Service.handleConn exactly like the random byte streams (kind "serve").
package main

import (
	"bytes"
	"encoding"
	"fmt"
	"regexp"
	"sort"
	"time"

	"github.com/gogo/protobuf/types"
	"github.com/influxdata/influxdb/coordinator"
	"github.com/influxdata/influxdb/models"
	"github.com/influxdata/influxdb/pkg/tracing"
	"github.com/influxdata/influxdb/query"
	"github.com/influxdata/influxdb/services/storage"
	"github.com/influxdata/influxdb/storage/reads/datatypes"
	"github.com/influxdata/influxql"
	"verifharness/hx"
)

var reqTypes = coordinator.VerifRequestTypes()

type envelope struct {
	Label  string
	Stream []byte
}

func tlv(typ byte, payload []byte) []byte {
	var bb bytes.Buffer
	if err := coordinator.WriteTLV(&bb, typ, payload); err != nil {
		panic(err)
	}
	return bb.Bytes()
}

// env frames one request value. A request value that the SENDER cannot marshal is not an
// input of the listener; it is skipped (ok=false).
func env(name, label string, m encoding.BinaryMarshaler) (e envelope, ok bool) {
	typ, found := reqTypes[name]
	if !found {
		panic("unknown request type " + name)
	}
	defer func() {
		if r := recover(); r != nil {
			ok = false
		}
	}()
	buf, err := m.MarshalBinary()
	if err != nil {
		return envelope{}, false
	}
	return envelope{Label: name + ":" + label, Stream: tlv(typ, buf)}, true
}

func mustExpr(s string) influxql.Expr {
	e, err := influxql.ParseExpr(s)
	if err != nil {
		panic(err)
	}
	return e
}

// rawCond is an influxql.Expr whose String() is arbitrary text: the request structs send
// conditions as text, so this is how a peer's unparsable/garbage condition is produced
// through the real MarshalBinary.
type rawExpr struct {
	*influxql.VarRef
	s string
}

func (r rawExpr) String() string { return r.s }
func garbageExpr(s string) influxql.Expr {
	return rawExpr{VarRef: &influxql.VarRef{Val: "x"}, s: s}
}

var statementTexts = []string{
	"", " ", "\t\n", ";", " ; ", ";;", "-- c", "-- c\n", "/* c */", "/*", "DROP", "DROP DATABASE", "SELECT", "SELECT * FROM cpu",
	"SHOW DATABASES", "SHOW QUERIES", "KILL QUERY 1", "KILL QUERY 99999 ON \"h:1\"", "CREATE DATABASE x", "DROP DATABASE nodb",
	"DROP DATABASE nodb; DROP DATABASE nodb2", "DROP SERIES FROM nomeas", "DROP SERIES FROM /x/ WHERE host = 'a'",
	"DROP SERIES WHERE time > 0", "DELETE FROM nomeas", "DELETE WHERE time < 0", "DELETE FROM nomeas WHERE v = 1", "DROP MEASUREMENT nomeas",
	"DROP SHARD 424242", "DROP SHARD 18446744073709551615", "DROP SHARD -1", "DROP RETENTION POLICY norp ON nodb",
	"drop database \"\"", "DROP MEASUREMENT \"\"", "\x00", "\xff\xfe", "DROP DATABASE \"a\x00b\"", "SELECT (", "SELECT 1 FROM (SELECT", "'",
	"\"", "DROP SERIES FROM /(/", "DROP DATABASE nodb -- trailing", "EXPLAIN SELECT * FROM cpu", "GRANT ALL TO u",
}

var conditionTexts = []string{
	"", "host = 'a'", "_name = 'cpu'", "_name =~ /c.*/", "host =~ /(/", "(", "1", "1 = 1", "time > 0", "host", "'a'", "\x00", "host = ",
	"_tagKey = 'host'", "_tagKey =~ /h/ AND host = 'a'", "a = b = c", "host !~ /a/ OR region = 'w'", "f(x) = 1", "-- c", ";", "value > 1.5",
	"host = 'a' AND (", "now() > 1", "$x = 1", "\"", "true", "false AND true", "1 + 'a' = 2", "time = '2020-01-01T00:00:00Z'",
}

var hostTexts = []string{"", ":", "127.0.0.1:1", "256.256.256.256:1", "nohost.invalid:1", "127.0.0.1", "[::1]:1", "127.0.0.1:99999", "\x00:1", "a b:1"}

func cond(s string) influxql.Expr {
	if s == "" {
		return nil
	}
	if e, err := influxql.ParseExpr(s); err == nil {
		return e
	}
	return garbageExpr(s)
}

func measurementVariants() []influxql.Measurement {
	re := func(s string) *influxql.RegexLiteral { return &influxql.RegexLiteral{Val: regexp.MustCompile(s)} }
	return []influxql.Measurement{
		{},
		{Name: "cpu"},
		{Database: "db", RetentionPolicy: "rp", Name: "cpu"},
		{Database: "db", RetentionPolicy: "rp", Name: "nomeas"},
		{Database: "nodb", RetentionPolicy: "norp", Name: ""},
		{Database: "db", RetentionPolicy: "rp", Regex: re(".*")},
		{Database: "db", RetentionPolicy: "rp", Regex: re("")},
		{Database: "db", RetentionPolicy: "rp", Regex: re("^$")},
		{Database: "db", RetentionPolicy: "rp", Regex: re("c(pu)?|mem")},
		{Name: "cpu", SystemIterator: "_fieldKeys"},
		{Name: "cpu", SystemIterator: "_series"},
		{Name: "cpu", SystemIterator: "_tagKeys"},
		{Name: "cpu", SystemIterator: "_nosuch"},
		{Name: "\x00"},
		{Name: "cpu", IsTarget: true},
	}
}

func shardLists() [][]uint64 {
	return [][]uint64{nil, {}, {1}, {2}, {1, 2}, {99}, {1, 99}, {0}, {18446744073709551615}, {1, 1, 1}}
}

func ref(v string, t influxql.DataType) *influxql.VarRef { return &influxql.VarRef{Val: v, Type: t} }

func optVariants() []query.IteratorOptions {
	full := func(e influxql.Expr) query.IteratorOptions {
		return query.IteratorOptions{Expr: e, StartTime: influxql.MinTime, EndTime: influxql.MaxTime, Ascending: true}
	}
	call := func(name string, args ...influxql.Expr) influxql.Expr { return &influxql.Call{Name: name, Args: args} }
	var out []query.IteratorOptions
	out = append(out, query.IteratorOptions{})
	for _, f := range []string{"value", "n", "s", "b", "u", "nofield", "host", ""} {
		for _, t := range []influxql.DataType{influxql.Unknown, influxql.Float, influxql.Integer, influxql.String, influxql.Boolean, influxql.Unsigned, influxql.Tag, influxql.AnyField, influxql.Time, influxql.Duration} {
			out = append(out, full(ref(f, t)))
		}
	}
	for _, fn := range []string{"count", "sum", "mean", "min", "max", "first", "last", "distinct", "median", "mode", "stddev", "spread", "nosuchfn", ""} {
		out = append(out, full(call(fn, ref("value", influxql.Float))))
		out = append(out, full(call(fn, ref("n", influxql.Integer))))
		out = append(out, full(call(fn, ref("s", influxql.String))))
		out = append(out, full(call(fn)))
	}
	out = append(out, full(call("percentile", ref("value", influxql.Float), &influxql.IntegerLiteral{Val: 50})))
	out = append(out, full(call("percentile", ref("value", influxql.Float))))
	out = append(out, full(call("top", ref("value", influxql.Float), &influxql.IntegerLiteral{Val: 0})))
	out = append(out, full(call("bottom", ref("value", influxql.Float), &influxql.IntegerLiteral{Val: -1})))
	out = append(out, full(call("sample", ref("value", influxql.Float), &influxql.IntegerLiteral{Val: 0})))
	out = append(out, full(call("count", call("distinct", ref("value", influxql.Float)))))
	out = append(out, full(&influxql.BinaryExpr{Op: influxql.ADD, LHS: ref("value", influxql.Float), RHS: ref("n", influxql.Integer)}))
	out = append(out, full(&influxql.IntegerLiteral{Val: 1}))
	out = append(out, full(&influxql.StringLiteral{Val: ""}))
	out = append(out, full(&influxql.Wildcard{}))
	// auxiliary fields, dimensions, conditions, intervals, limits at extremes
	o := full(ref("value", influxql.Float))
	o.Aux = []influxql.VarRef{{Val: "s", Type: influxql.String}, {Val: "host", Type: influxql.Tag}, {Val: "nofield"}, {Val: "n", Type: influxql.Unsigned}, {Val: ""}}
	out = append(out, o)
	o = query.IteratorOptions{Aux: []influxql.VarRef{{Val: "value", Type: influxql.Float}, {Val: "s", Type: influxql.String}, {Val: "u", Type: influxql.Unsigned}}, StartTime: influxql.MinTime, EndTime: influxql.MaxTime, Ascending: true}
	out = append(out, o)
	o = full(ref("value", influxql.Float))
	o.Dimensions = []string{"host", "", "nosuch"}
	o.GroupBy = map[string]struct{}{"host": {}, "": {}}
	out = append(out, o)
	for _, c := range conditionTexts {
		if e := cond(c); e != nil {
			o = full(ref("value", influxql.Float))
			o.Condition = e
			out = append(out, o)
		}
	}
	o = full(call("mean", ref("value", influxql.Float)))
	o.Interval = query.Interval{Duration: -1}
	out = append(out, o)
	o.Interval = query.Interval{Duration: 1, Offset: -9223372036854775808}
	out = append(out, o)
	o.Interval = query.Interval{Duration: 9223372036854775807}
	out = append(out, o)
	o = full(ref("value", influxql.Float))
	o.StartTime, o.EndTime = influxql.MaxTime, influxql.MinTime
	out = append(out, o)
	o.StartTime, o.EndTime = -9223372036854775808, 9223372036854775807
	out = append(out, o)
	o = full(ref("value", influxql.Float))
	o.Limit, o.Offset, o.SLimit, o.SOffset, o.MaxSeriesN = -1, -1, -1, -1, -1
	out = append(out, o)
	o.Limit, o.Offset, o.SLimit, o.SOffset, o.MaxSeriesN = 9223372036854775807, 9223372036854775807, 1, 9223372036854775807, 1
	out = append(out, o)
	o = full(ref("value", influxql.Float))
	o.Ascending = false
	o.Ordered = true
	o.Dedupe = true
	o.StripName = true
	o.Fill = influxql.NumberFill
	o.FillValue = 1.5
	out = append(out, o)
	o.Fill = influxql.FillOption(99)
	out = append(out, o)
	o = full(ref("value", influxql.Float))
	o.Location = time.UTC
	out = append(out, o)
	o.Sources = []influxql.Source{&influxql.Measurement{Name: "cpu"}, &influxql.Measurement{Regex: &influxql.RegexLiteral{Val: regexp.MustCompile("x")}}}
	out = append(out, o)
	return out
}

func readSource(db, rp string) *types.Any {
	a, err := types.MarshalAny(&storage.ReadSource{Database: db, RetentionPolicy: rp})
	if err != nil {
		panic(err)
	}
	return a
}

func readFilterVariants() []datatypes.ReadFilterRequest {
	pred := func(n *datatypes.Node) *datatypes.Predicate { return &datatypes.Predicate{Root: n} }
	cmp := &datatypes.Node{NodeType: datatypes.NodeTypeComparisonExpression, Value: &datatypes.Node_Comparison_{Comparison: datatypes.ComparisonEqual},
		Children: []*datatypes.Node{
			{NodeType: datatypes.NodeTypeTagRef, Value: &datatypes.Node_TagRefValue{TagRefValue: "host"}},
			{NodeType: datatypes.NodeTypeLiteral, Value: &datatypes.Node_StringValue{StringValue: "a"}},
		}}
	return []datatypes.ReadFilterRequest{
		{},
		{ReadSource: &types.Any{}},
		{ReadSource: &types.Any{TypeUrl: "type.googleapis.com/nosuch", Value: []byte{1, 2, 3}}},
		{ReadSource: &types.Any{TypeUrl: "type.googleapis.com/com.github.influxdata.influxdb.services.storage.ReadSource", Value: []byte{0xff}}},
		{ReadSource: readSource("", "")},
		{ReadSource: readSource("nodb", "")},
		{ReadSource: readSource("db", "norp")},
		{ReadSource: readSource("db", "")},
		{ReadSource: readSource("db", "rp")},
		{ReadSource: readSource("db", "rp"), Range: datatypes.TimestampRange{Start: -9223372036854775808, End: 9223372036854775807}},
		{ReadSource: readSource("db", "rp"), Range: datatypes.TimestampRange{Start: 9223372036854775807, End: -9223372036854775808}},
		{ReadSource: readSource("db", "rp"), Range: datatypes.TimestampRange{Start: 0, End: 9223372036854775807}, Predicate: &datatypes.Predicate{}},
		{ReadSource: readSource("db", "rp"), Range: datatypes.TimestampRange{Start: 0, End: 9223372036854775807}, Predicate: pred(cmp)},
		{ReadSource: readSource("db", "rp"), Range: datatypes.TimestampRange{Start: 0, End: 9223372036854775807}, Predicate: pred(&datatypes.Node{NodeType: datatypes.NodeTypeComparisonExpression})},
		{ReadSource: readSource("db", "rp"), Range: datatypes.TimestampRange{Start: 0, End: 9223372036854775807}, Predicate: pred(&datatypes.Node{NodeType: datatypes.NodeTypeLogicalExpression})},
		{ReadSource: readSource("db", "rp"), Range: datatypes.TimestampRange{Start: 0, End: 9223372036854775807}, Predicate: pred(&datatypes.Node{NodeType: datatypes.Node_Type(99)})},
		{ReadSource: readSource("db", "rp"), Range: datatypes.TimestampRange{Start: 0, End: 9223372036854775807}, Predicate: pred(&datatypes.Node{NodeType: datatypes.NodeTypeParenExpression})},
		{ReadSource: readSource("db", "rp"), Range: datatypes.TimestampRange{Start: 0, End: 9223372036854775807}, Predicate: pred(&datatypes.Node{NodeType: datatypes.NodeTypeLiteral, Value: &datatypes.Node_RegexValue{RegexValue: "("}})},
		{ReadSource: readSource("db", "rp"), Range: datatypes.TimestampRange{Start: 0, End: 9223372036854775807}, Predicate: pred(&datatypes.Node{NodeType: datatypes.NodeTypeComparisonExpression, Value: &datatypes.Node_Comparison_{Comparison: datatypes.ComparisonRegex},
			Children: []*datatypes.Node{{NodeType: datatypes.NodeTypeTagRef, Value: &datatypes.Node_TagRefValue{TagRefValue: "host"}}}})},
	}
}

// designedEnvelopes returns the always-run designed cases of part A. full (thorough
// tier) takes the whole product of measurements x shard lists x options; the quick tier
// takes every option on the populated shard and a thinner slice elsewhere.
func designedEnvelopes(full bool) []envelope {
	var out []envelope
	add := func(name, label string, m encoding.BinaryMarshaler) {
		if e, ok := env(name, label, m); ok {
			out = append(out, e)
		}
	}

	// --- WriteShard: valid envelope; unparsable / empty / truncated binary points
	good, _ := models.ParsePointsString("cpu,host=a value=1.5,n=3i,s=\"x\",b=true 1000000000")
	goodBin, _ := good[0].MarshalBinary()
	pointSets := [][][]byte{
		nil, {}, {nil}, {{}}, {{0}}, {{0, 0, 0, 0}}, {{0xff, 0xff, 0xff, 0xff}}, {{0, 0, 0, 200, 1, 2}},
		{goodBin}, {goodBin[:len(goodBin)/2]}, {goodBin[:4]}, {goodBin[:5]}, {goodBin[1:]}, {append(append([]byte{}, goodBin...), 1, 2, 3)},
		{goodBin, nil, goodBin}, {goodBin, {0xff}, goodBin}, {[]byte("garbage")}, {bytes.Repeat([]byte{0x80}, 40)},
	}
	for _, k := range []int{4, 8, 12, len(goodBin) - 9, len(goodBin) - 8, len(goodBin) - 1} {
		if k > 0 && k < len(goodBin) {
			m := append([]byte{}, goodBin...)
			m[k] ^= 0xff
			pointSets = append(pointSets, [][]byte{m})
		}
	}
	for i, ps := range pointSets {
		for _, sh := range []struct {
			id     uint64
			db, rp string
			set    bool
		}{{1, "db", "rp", true}, {2, "db", "rp", true}, {3, "", "", true}, {4, "db", "", true}, {0, "", "", false}, {18446744073709551615, "db", "rp", true}} {
			var w coordinator.WriteShardRequest
			w.SetShardID(sh.id)
			if sh.set {
				w.SetDatabase(sh.db)
				w.SetRetentionPolicy(sh.rp)
			}
			w.SetBinaryPoints(ps)
			add("WriteShard", fmt.Sprintf("points#%d shard=%d db=%q", i, sh.id, sh.db), &w)
		}
	}

	// --- ExecuteStatement: every statement text, with and without database
	for _, st := range statementTexts {
		// never the populated database "db": the statements must not change what later
		// cases (and single-case replays, which start from a fresh store) observe
		for _, db := range []string{"", "scratch", "nodb"} {
			var r coordinator.ExecuteStatementRequest
			r.SetStatement(st)
			r.SetDatabase(db)
			add("ExecuteStatement", fmt.Sprintf("%q on %q", st, db), &r)
		}
	}
	// --- TaskManagerStatement
	for _, st := range statementTexts {
		add("TaskManagerStatement", fmt.Sprintf("%q", st), &coordinator.TaskManagerStatementRequest{Statement: st})
	}
	// --- MeasurementNames / TagKeys / TagValues: nil and garbage conditions
	for _, c := range conditionTexts {
		for _, d := range [][2]string{{"", ""}, {"db", ""}, {"db", "rp"}, {"nodb", "norp"}, {"db", "norp"}} {
			add("MeasurementNames", fmt.Sprintf("cond=%q db=%q rp=%q", c, d[0], d[1]),
				&coordinator.MeasurementNamesRequest{Database: d[0], RetentionPolicy: d[1], Condition: cond(c)})
		}
		for i, ids := range shardLists() {
			if !full && !(i == 0 || i == 2 || i == 5) {
				continue
			}
			add("TagKeys", fmt.Sprintf("cond=%q shards#%d", c, i), &coordinator.TagKeysRequest{ShardIDs: ids, Condition: cond(c)})
			add("TagValues", fmt.Sprintf("cond=%q shards#%d", c, i), &coordinator.TagValuesRequest{ShardIDs: ids, Condition: cond(c)})
		}
	}
	// --- sketches
	for _, db := range []string{"", "db", "nodb", "\x00", "../x"} {
		add("SeriesSketches", fmt.Sprintf("db=%q", db), &coordinator.SeriesSketchesRequest{Database: db})
		add("MeasurementsSketches", fmt.Sprintf("db=%q", db), &coordinator.MeasurementsSketchesRequest{Database: db})
	}
	// --- storage reads
	for i, rq := range readFilterVariants() {
		for j, ids := range shardLists() {
			if j > 5 || (!full && j > 2) {
				break
			}
			add("StoreReadFilter", fmt.Sprintf("req#%d shards#%d", i, j), &coordinator.StoreReadFilterRequest{ShardIDs: ids, Request: rq})
			g := datatypes.ReadGroupRequest{ReadSource: rq.ReadSource, Range: rq.Range, Predicate: rq.Predicate}
			add("StoreReadGroup", fmt.Sprintf("req#%d shards#%d none", i, j), &coordinator.StoreReadGroupRequest{ShardIDs: ids, Request: g})
			g.Group = datatypes.GroupBy
			g.GroupKeys = []string{"host", "", "nosuch"}
			add("StoreReadGroup", fmt.Sprintf("req#%d shards#%d by", i, j), &coordinator.StoreReadGroupRequest{ShardIDs: ids, Request: g})
			g.Group = datatypes.ReadGroupRequest_Group(7)
			g.Aggregate = &datatypes.Aggregate{Type: datatypes.Aggregate_AggregateType(9)}
			g.Hints = 0xffffffff
			add("StoreReadGroup", fmt.Sprintf("req#%d shards#%d badgroup", i, j), &coordinator.StoreReadGroupRequest{ShardIDs: ids, Request: g})
			g.Group = datatypes.GroupBy
			g.Aggregate = &datatypes.Aggregate{Type: datatypes.AggregateTypeSum}
			add("StoreReadGroup", fmt.Sprintf("req#%d shards#%d sum", i, j), &coordinator.StoreReadGroupRequest{ShardIDs: ids, Request: g})
		}
	}
	// --- iterators
	ms := measurementVariants()
	opts := optVariants()
	for i, m := range ms {
		for j, ids := range shardLists() {
			for k, o := range opts {
				// full product is large: all options on the populated shard, a few elsewhere
				if full {
					if !((j == 2 && (i == 1 || i == 2 || i == 5 || i == 9)) || k < 3 || (i+j+k)%17 == 0) {
						continue
					}
				} else if !((j == 2 && (i == 2 || i == 5 || (i == 9 && k%3 == 0))) || (k < 2 && (i+j)%3 == 0) || (i+j+k)%97 == 0) {
					continue
				}
				add("CreateIterator", fmt.Sprintf("m#%d shards#%d opt#%d", i, j, k), &coordinator.CreateIteratorRequest{ShardIDs: ids, Measurement: m, Opt: o})
				if k%3 == 0 {
					add("CreateIterator", fmt.Sprintf("m#%d shards#%d opt#%d span", i, j, k),
						&coordinator.CreateIteratorRequest{ShardIDs: ids, Measurement: m, Opt: o, SpanContext: tracing.SpanContext{TraceID: 1, SpanID: 18446744073709551615}})
				}
				if full || k%4 == 0 {
					add("IteratorCost", fmt.Sprintf("m#%d shards#%d opt#%d", i, j, k), &coordinator.IteratorCostRequest{ShardIDs: ids, Measurement: m, Opt: o})
				}
			}
			add("FieldDimensions", fmt.Sprintf("m#%d shards#%d", i, j), &coordinator.FieldDimensionsRequest{ShardIDs: ids, Measurement: m})
			for fi, f := range []string{"value", "", "n", "s", "b", "host", "nofield", "\x00", "time"} {
				if !full && fi > 0 && !(j == 2 || j == 5) {
					break
				}
				add("MapType", fmt.Sprintf("m#%d shards#%d field=%q", i, j, f), &coordinator.MapTypeRequest{ShardIDs: ids, Measurement: m, Field: f})
			}
		}
	}
	// --- ExpandSources
	srcSets := []influxql.Sources{nil, {}}
	for i := range ms {
		srcSets = append(srcSets, influxql.Sources{&ms[i]})
	}
	srcSets = append(srcSets, influxql.Sources{&ms[1], &ms[5], &ms[0], &ms[7]})
	for i, ss := range srcSets {
		for j, ids := range shardLists() {
			if !full && j > 5 {
				break
			}
			add("ExpandSources", fmt.Sprintf("src#%d shards#%d", i, j), &coordinator.ExpandSourcesRequest{ShardIDs: ids, Sources: ss})
		}
	}
	// --- shard management
	times := []time.Time{{}, time.Unix(0, 0), time.Unix(0, -9223372036854775808), time.Unix(0, 9223372036854775807), time.Unix(1<<40, 0)}
	for _, id := range []uint64{0, 1, 2, 99, 18446744073709551615} {
		for ti, t := range times {
			add("BackupShard", fmt.Sprintf("id=%d since#%d", id, ti), &coordinator.BackupShardRequest{ShardID: id, Since: t})
		}
		if id != 1 && id != 2 {
			add("RemoveShard", fmt.Sprintf("id=%d", id), &coordinator.RemoveShardRequest{ShardID: id})
		}
	}
	for _, h := range hostTexts {
		for _, id := range []uint64{0, 7, 99} {
			add("CopyShard", fmt.Sprintf("host=%q id=%d", h, id), &coordinator.CopyShardRequest{Host: h, Database: "db", Policy: "rp", ShardID: id, Since: time.Unix(0, 0)})
		}
		add("CopyShard", fmt.Sprintf("host=%q nodb", h), &coordinator.CopyShardRequest{Host: h, ShardID: 8})
	}
	// --- cluster membership
	for i, sv := range [][]string{nil, {}, {""}, {"127.0.0.1:1"}, {"x:1", "127.0.0.1:1"}, {"nohost.invalid:1"}, {"\x00"}, {"a", "a", "a"}} {
		for _, up := range []bool{false, true} {
			add("JoinCluster", fmt.Sprintf("servers#%d update=%v", i, up), &coordinator.JoinClusterRequest{MetaServers: sv, Update: up})
		}
	}
	for _, id := range []uint64{0, 1, 2, 18446744073709551615} {
		add("RemoveHintedHandoff", fmt.Sprintf("node=%d", id), &coordinator.RemoveHintedHandoffRequest{NodeID: id})
	}
	// --- requests without a body
	out = append(out, envelope{Label: "ListShards", Stream: []byte{reqTypes["ListShards"]}})
	out = append(out, envelope{Label: "LeaveCluster", Stream: []byte{reqTypes["LeaveCluster"]}})
	// --- several valid envelopes on one connection (the loop continues after a reply)
	var multi []byte
	for _, st := range []string{"", ";", "DROP DATABASE nodb", "DROP"} {
		var r coordinator.ExecuteStatementRequest
		r.SetStatement(st)
		r.SetDatabase("scratch")
		if e, ok := env("ExecuteStatement", "", &r); ok {
			multi = append(multi, e.Stream...)
		}
	}
	if e, ok := env("TagKeys", "", &coordinator.TagKeysRequest{ShardIDs: []uint64{1}}); ok {
		multi = append(multi, e.Stream...)
	}
	multi = append(multi, reqTypes["ListShards"])
	out = append(out, envelope{Label: "multi", Stream: multi})
	return out
}

// genEnvelope: seeded variation — a designed envelope, possibly with a few payload bytes
// mutated or its payload re-framed after truncation (still a well-framed message: the
// length prefix is recomputed), possibly several on one connection.
func genEnvelope(r *hx.Rand, pool []envelope) envelope {
	n := 1
	if r.Chance(25) {
		n = 2 + r.Intn(3)
	}
	var s []byte
	label := ""
	for i := 0; i < n; i++ {
		e := pool[r.Intn(len(pool))]
		st := append([]byte{}, e.Stream...)
		mode := "asis"
		if len(st) > 9 {
			payload := append([]byte{}, st[9:]...)
			switch r.Intn(6) {
			case 0: // flip bytes inside the payload
				for k := 0; k < 1+r.Intn(3) && len(payload) > 0; k++ {
					payload[r.Intn(len(payload))] ^= byte(1 << uint(r.Intn(8)))
				}
				mode = "flip"
			case 1: // truncate payload, re-frame
				payload = payload[:r.Intn(len(payload)+1)]
				mode = "trunc"
			case 2: // replace a byte with a boundary value
				if len(payload) > 0 {
					payload[r.Intn(len(payload))] = []byte{0, 1, 0x7f, 0x80, 0xff}[r.Intn(5)]
				}
				mode = "bound"
			case 3: // append trailing bytes (unknown fields / garbage)
				payload = append(payload, r.Bytes(1+r.Intn(6))...)
				mode = "tail"
			}
			st = tlv(st[0], payload)
		}
		s = append(s, st...)
		if label != "" {
			label += " | "
		}
		label += e.Label + "/" + mode
		// connection-terminating request types end the conversation
	}
	return envelope{Label: label, Stream: s}
}

func sortedKeys(m map[string]byte) []string {
	ks := make([]string, 0, len(m))
	for k := range m {
		ks = append(ks, k)
	}
	sort.Strings(ks)
	return ks
}
