package main

import (
	"fmt"

	"github.com/influxdata/influxdb/coordinator"
	"github.com/influxdata/influxdb/models"
	"github.com/influxdata/influxdb/tsdb"
	"verifharness/hx"
)

// panicStore is the node's TSDB store with a storage-layer fault: every request that reaches
// shard 666 panics inside the store (what a corrupt data file or an unforeseen nil does).  No
// request may take the data node down: the listener has to drop the connection and go on.
type panicStore struct {
	*tsdb.Store
}

const panicShard = 666

func (p panicStore) WriteToShard(id uint64, pts []models.Point) error {
	if id == panicShard {
		panic("verif: storage fault in WriteToShard")
	}
	return p.Store.WriteToShard(id, pts)
}

func (p panicStore) ShardGroup(ids []uint64) tsdb.ShardGroup {
	for _, id := range ids {
		if id == panicShard {
			panic("verif: storage fault in ShardGroup")
		}
	}
	return p.Store.ShardGroup(ids)
}

type recoverDesc struct {
	Label  string `json:"label"`
	Stream []byte `json:"stream"`
}

var svcPanic *coordinator.Service

// runRecover sends one well-formed request that makes the STORE panic, then a healthy request
// on a new connection.  Observed: whether the panic escaped handleConn (it would kill the data
// node process; here the harness's own recover catches it), whether the listener counted it,
// and whether the node still serves the next request.
func runRecover(o *hx.Out, d recoverDesc, follow envelope, origin string) {
	o.Begin("recover", d)
	save := svc
	svc = svcPanic
	defer func() { svc = save }()
	hp0 := handlerPanics()
	_, escaped, _ := serveOnce(serveDesc{Label: d.Label, Stream: d.Stream})
	counted := handlerPanics() > hp0
	types, escaped2, _ := serveOnce(serveDesc{Label: follow.Label, Stream: follow.Stream})
	nextServed := len(types) > 0 && !escaped2
	o.Count(fmt.Sprintf("recover:escaped=%v", escaped))
	coq := fmt.Sprintf("CRecover %s %s %s", hx.CoqBool(escaped), hx.CoqBool(counted), hx.CoqBool(nextServed))
	o.Emit(hx.Case{Kind: "recover", Coq: coq, Desc: d,
		Obs:        map[string]interface{}{"panic_escaped_handleConn": escaped, "listener_counted_panic": counted, "next_request_served": nextServed, "panic": lastPanic},
		Nontrivial: true, Sig: "rc:" + d.Label, Origin: origin})
}

// recoverInputs: one request per handler family that reaches the faulty shard
func recoverInputs() (ins []recoverDesc, follow envelope) {
	var w coordinator.WriteShardRequest
	w.SetShardID(panicShard)
	w.SetDatabase("db")
	w.SetRetentionPolicy("rp")
	pts, _ := models.ParsePointsString("cpu,host=a value=1 1000")
	w.AddPoints(pts)
	if e, ok := env("WriteShard", "faulty shard", &w); ok {
		ins = append(ins, recoverDesc{Label: e.Label, Stream: e.Stream})
	}
	// a remote iterator request over the faulty shard
	for _, o := range optVariants()[:1] {
		for _, m := range measurementVariants()[:1] {
			if e, ok := env("CreateIterator", "faulty shard", &coordinator.CreateIteratorRequest{ShardIDs: []uint64{1, panicShard}, Measurement: m, Opt: o}); ok {
				ins = append(ins, recoverDesc{Label: e.Label, Stream: e.Stream})
			}
			if e, ok := env("FieldDimensions", "faulty shard", &coordinator.FieldDimensionsRequest{ShardIDs: []uint64{panicShard}, Measurement: m}); ok {
				ins = append(ins, recoverDesc{Label: e.Label, Stream: e.Stream})
			}
		}
	}
	for _, e := range designedEnvelopes(false) {
		if follow.Stream == nil && len(e.Label) >= 10 && e.Label[:10] == "WriteShard" {
			follow = e
		}
	}
	return ins, follow
}
