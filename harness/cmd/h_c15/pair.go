// pair.go — request/reply pairing on pooled client connections (kind "pair").
// The real RPC clients (ShardWriter, MetaExecutor) with their real connection pool talk to
// a scripted fake data node: every request carries a distinct token (shard id / database
// name / query id), the node's reply echoes the token it READ from the request (error
// message "node-reply t<k>;", or data naming k), and per request the script makes the node
// answer at once, late (beyond the client timeout), with an error, with an undecodable
// body, or cut / stall the connection.  Observed per call: which connection the node saw
// the request on (so: was the pooled connection reused), and what the caller was handed.
// Property: a caller is handed the reply to ITS request, or an error — never a neighbour's.
package main

import (
	"fmt"
	"net"
	"regexp"
	"strconv"
	"strings"
	"sync"
	"time"

	"github.com/influxdata/influxdb/coordinator"
	"github.com/influxdata/influxdb/models"
	"github.com/influxdata/influxdb/query"
	"github.com/influxdata/influxdb/services/meta"
	"github.com/influxdata/influxdb/tsdb"
	"github.com/influxdata/influxql"
	"verifharness/hx"
)

type pairCall struct {
	Op      string `json:"op"`       // writeshard exec taskmgr names tagkeys tagvalues fielddims maptype itercost
	Token   uint64 `json:"token"`    // distinct per call, 1..9
	Reply   string `json:"reply"`    // ok err garbage cut cutmid silent
	DelayMs int    `json:"delay_ms"` // the node waits this long before it answers
	GapMs   int    `json:"gap_ms"`   // the client waits this long after the call returned
}

type pairDesc struct {
	MaxStreams int        `json:"max_streams"`
	TimeoutMs  int        `json:"timeout_ms"`
	Calls      []pairCall `json:"calls"`
}

var pairOps = []string{"writeshard", "exec", "taskmgr", "names", "tagkeys", "tagvalues", "fielddims", "maptype", "itercost"}
var pairReplies = []string{"ok", "err", "garbage", "cut", "cutmid", "silent"}

var tokenRe = regexp.MustCompile(`node-reply t(\d+);`)
var numRe = regexp.MustCompile(`(\d+)`)

// ---- the fake data node ----

type nodeSeen struct {
	conn int
	seq  int
}

type fakeNode struct {
	ln     net.Listener
	mu     sync.Mutex
	script map[uint64]pairCall
	seen   map[uint64]nodeSeen
	nconn  int
	conns  []net.Conn
	byType map[byte]string
	done   chan struct{}
}

func newFakeNode(d pairDesc) *fakeNode {
	ln, err := net.Listen("tcp", "127.0.0.1:0")
	if err != nil {
		panic(err)
	}
	n := &fakeNode{ln: ln, script: map[uint64]pairCall{}, seen: map[uint64]nodeSeen{}, byType: map[byte]string{}, done: make(chan struct{})}
	for _, c := range d.Calls {
		n.script[c.Token] = c
	}
	for name, t := range reqTypes {
		n.byType[t] = name
	}
	go n.accept()
	return n
}

func (n *fakeNode) accept() {
	for {
		c, err := n.ln.Accept()
		if err != nil {
			return
		}
		n.mu.Lock()
		n.nconn++
		id := n.nconn
		n.conns = append(n.conns, c)
		n.mu.Unlock()
		go n.serve(c, id)
	}
}

func (n *fakeNode) close() {
	close(n.done)
	n.ln.Close()
	n.mu.Lock()
	for _, c := range n.conns {
		c.Close()
	}
	n.mu.Unlock()
}

func firstID(ids []uint64) uint64 {
	if len(ids) == 0 {
		return 0
	}
	return ids[0]
}

func numIn(s string) uint64 {
	m := numRe.FindString(s)
	v, _ := strconv.ParseUint(m, 10, 64)
	return v
}

// serve handles one connection the way the real listener does: strictly one request
// after the other, replies in request order.
func (n *fakeNode) serve(c net.Conn, id int) {
	defer c.Close()
	var hdr [1]byte
	if _, err := c.Read(hdr[:]); err != nil || hdr[0] != coordinator.MuxHeader {
		return
	}
	for seq := 0; ; seq++ {
		typ, buf, err := coordinator.ReadTLV(c)
		if err != nil {
			return
		}
		name := n.byType[typ]
		var token uint64
		switch name {
		case "WriteShard":
			var r coordinator.WriteShardRequest
			if r.UnmarshalBinary(buf) == nil {
				token = r.ShardID()
			}
		case "ExecuteStatement":
			var r coordinator.ExecuteStatementRequest
			if r.UnmarshalBinary(buf) == nil {
				token = numIn(r.Statement())
			}
		case "TaskManagerStatement":
			var r coordinator.TaskManagerStatementRequest
			if r.UnmarshalBinary(buf) == nil {
				token = numIn(r.Statement)
			}
		case "MeasurementNames":
			var r coordinator.MeasurementNamesRequest
			if r.UnmarshalBinary(buf) == nil {
				token = numIn(r.Database)
			}
		case "TagKeys":
			var r coordinator.TagKeysRequest
			if r.UnmarshalBinary(buf) == nil {
				token = firstID(r.ShardIDs)
			}
		case "TagValues":
			var r coordinator.TagValuesRequest
			if r.UnmarshalBinary(buf) == nil {
				token = firstID(r.ShardIDs)
			}
		case "FieldDimensions":
			var r coordinator.FieldDimensionsRequest
			if r.UnmarshalBinary(buf) == nil {
				token = firstID(r.ShardIDs)
			}
		case "MapType":
			var r coordinator.MapTypeRequest
			if r.UnmarshalBinary(buf) == nil {
				token = firstID(r.ShardIDs)
			}
		case "IteratorCost":
			var r coordinator.IteratorCostRequest
			if r.UnmarshalBinary(buf) == nil {
				token = firstID(r.ShardIDs)
			}
		}
		n.mu.Lock()
		n.seen[token] = nodeSeen{conn: id, seq: seq}
		sc := n.script[token]
		n.mu.Unlock()
		if sc.DelayMs > 0 {
			time.Sleep(time.Duration(sc.DelayMs) * time.Millisecond)
		}
		var payload []byte
		nodeErr := fmt.Errorf("node-reply t%d;", token)
		isErr := sc.Reply == "err"
		switch name {
		case "WriteShard":
			var r coordinator.WriteShardResponse
			r.SetCode(0)
			r.SetMessage(fmt.Sprintf("ok t%d", token))
			if isErr {
				r.SetCode(1)
				r.SetMessage(nodeErr.Error())
			}
			payload, _ = r.MarshalBinary()
		case "ExecuteStatement":
			var r coordinator.ExecuteStatementResponse
			r.SetCode(0)
			if isErr {
				r.SetCode(1)
				r.SetMessage(nodeErr.Error())
			}
			payload, _ = r.MarshalBinary()
		case "TaskManagerStatement":
			r := coordinator.TaskManagerStatementResponse{Result: query.Result{StatementID: int(token)}}
			if isErr {
				r = coordinator.TaskManagerStatementResponse{Err: nodeErr}
			}
			payload, _ = r.MarshalBinary()
		case "MeasurementNames":
			r := coordinator.MeasurementNamesResponse{Names: [][]byte{[]byte(fmt.Sprintf("m%d", token))}}
			if isErr {
				r = coordinator.MeasurementNamesResponse{Err: nodeErr}
			}
			payload, _ = r.MarshalBinary()
		case "TagKeys":
			r := coordinator.TagKeysResponse{TagKeys: []tsdb.TagKeys{{Measurement: fmt.Sprintf("m%d", token), Keys: []string{"k"}}}}
			if isErr {
				r = coordinator.TagKeysResponse{Err: nodeErr}
			}
			payload, _ = r.MarshalBinary()
		case "TagValues":
			r := coordinator.TagValuesResponse{TagValues: []tsdb.TagValues{{Measurement: fmt.Sprintf("m%d", token)}}}
			if isErr {
				r = coordinator.TagValuesResponse{Err: nodeErr}
			}
			payload, _ = r.MarshalBinary()
		case "FieldDimensions":
			r := coordinator.FieldDimensionsResponse{Fields: map[string]influxql.DataType{fmt.Sprintf("f%d", token): influxql.Float}, Dimensions: map[string]struct{}{}}
			if isErr {
				r = coordinator.FieldDimensionsResponse{Err: nodeErr}
			}
			payload, _ = r.MarshalBinary()
		case "MapType":
			r := coordinator.MapTypeResponse{Type: influxql.DataType(token % 10)}
			if isErr {
				r = coordinator.MapTypeResponse{Err: nodeErr}
			}
			payload, _ = r.MarshalBinary()
		case "IteratorCost":
			r := coordinator.IteratorCostResponse{Cost: query.IteratorCost{NumShards: int64(token)}}
			if isErr {
				r = coordinator.IteratorCostResponse{Err: nodeErr}
			}
			payload, _ = r.MarshalBinary()
		default:
			return
		}
		frame := tlv(typ+1, payload)
		switch sc.Reply {
		case "ok", "err":
			if _, err := c.Write(frame); err != nil {
				return
			}
		case "garbage": // a complete frame whose body no response type can decode
			if _, err := c.Write(tlv(typ+1, []byte{0x0f})); err != nil {
				return
			}
		case "cut":
			return
		case "cutmid":
			c.Write(frame[:len(frame)/2])
			return
		default: // silent: keep the connection, never answer
			<-n.done
			return
		}
	}
}

// ---- the client side ----

type pairMeta struct{ addr string }

func (m pairMeta) NodeID() uint64 { return 1 }
func (m pairMeta) DataNode(id uint64) (*meta.NodeInfo, error) {
	return &meta.NodeInfo{ID: id, TCPAddr: m.addr}, nil
}
func (m pairMeta) DataNodes() []meta.NodeInfo {
	return []meta.NodeInfo{{ID: 1, TCPAddr: "127.0.0.1:1"}, {ID: 2, TCPAddr: m.addr}}
}
func (m pairMeta) DataNodeByTCPAddr(a string) (*meta.NodeInfo, error) {
	return &meta.NodeInfo{ID: 2, TCPAddr: m.addr}, nil
}
func (m pairMeta) ShardOwner(shardID uint64) (string, string, *meta.ShardGroupInfo) {
	return "db", "rp", &meta.ShardGroupInfo{ID: 1}
}

// result classes: 0 transport / local error (no reply was read), 1 a success reply,
// 2 the node's error reply, 3 a reply frame that could not be decoded
func classify(err error, dataToken uint64) (cls int, tok uint64) {
	if err == nil {
		return 1, dataToken
	}
	s := err.Error()
	if m := tokenRe.FindStringSubmatch(s); m != nil {
		t, _ := strconv.ParseUint(m[1], 10, 64)
		return 2, t
	}
	if strings.Contains(s, "proto:") || strings.Contains(s, "invalid character") || strings.Contains(s, "unexpected end of JSON") {
		return 3, 0
	}
	return 0, 0
}

func doCall(sw *coordinator.ShardWriter, me *coordinator.MetaExecutor, c pairCall) (cls int, tok uint64, msg string) {
	defer func() {
		if e := recover(); e != nil {
			cls, tok, msg = 9, 0, fmt.Sprint("panic: ", e)
		}
	}()
	ids := []uint64{c.Token}
	m := &influxql.Measurement{Name: "cpu"}
	var err error
	var data uint64
	switch c.Op {
	case "writeshard":
		pt, _ := models.ParsePointsString("cpu v=1 1")
		err = sw.WriteShard(c.Token, 2, pt)
	case "exec":
		err = me.ExecuteStatement(&influxql.DropDatabaseStatement{Name: fmt.Sprintf("t%d", c.Token)}, "")
	case "taskmgr":
		var r query.Result
		r, err = me.TaskManagerStatement(2, &influxql.KillQueryStatement{QueryID: c.Token})
		data = uint64(r.StatementID)
	case "names":
		var names [][]byte
		names, err = me.MeasurementNames(2, fmt.Sprintf("t%d", c.Token), "", nil)
		if len(names) > 0 {
			data = numIn(string(names[0]))
		}
	case "tagkeys":
		var r []tsdb.TagKeys
		r, err = me.TagKeys(2, ids, nil)
		if len(r) > 0 {
			data = numIn(r[0].Measurement)
		}
	case "tagvalues":
		var r []tsdb.TagValues
		r, err = me.TagValues(2, ids, nil)
		if len(r) > 0 {
			data = numIn(r[0].Measurement)
		}
	case "fielddims":
		var f map[string]influxql.DataType
		f, _, err = me.FieldDimensions(2, ids, m)
		for k := range f {
			data = numIn(k)
		}
	case "maptype":
		var t influxql.DataType
		t, err = me.MapType(2, ids, m, "v")
		data = uint64(t)
	case "itercost":
		var cst query.IteratorCost
		cst, err = me.IteratorCost(2, ids, m, query.IteratorOptions{})
		data = uint64(cst.NumShards)
	default:
		return 0, 0, "unknown op"
	}
	cls, tok = classify(err, data)
	if err != nil {
		msg = err.Error()
	}
	return cls, tok, msg
}

func normPair(d pairDesc) pairDesc {
	if d.MaxStreams < 1 || d.MaxStreams > 4 {
		d.MaxStreams = 1
	}
	if d.TimeoutMs < 50 || d.TimeoutMs > 1000 {
		d.TimeoutMs = 120
	}
	if len(d.Calls) > 6 {
		d.Calls = d.Calls[:6]
	}
	okOp := map[string]bool{}
	for _, o := range pairOps {
		okOp[o] = true
	}
	okRe := map[string]bool{}
	for _, r := range pairReplies {
		okRe[r] = true
	}
	for i := range d.Calls {
		c := &d.Calls[i]
		c.Token = uint64(i + 1) // distinct, and small enough for every echo channel
		if !okOp[c.Op] {
			c.Op = "writeshard"
		}
		if !okRe[c.Reply] {
			c.Reply = "ok"
		}
		if c.DelayMs < 0 || c.DelayMs > 1500 {
			c.DelayMs = 0
		}
		if c.GapMs < 0 || c.GapMs > 1500 {
			c.GapMs = 0
		}
	}
	return d
}

type pairObs struct {
	Token  uint64 `json:"token"`
	Op     string `json:"op"`
	Reply  string `json:"scripted_reply"`
	Seen   bool   `json:"node_saw_request"`
	Conn   int    `json:"conn"`
	Reused bool   `json:"reused_previous_conn"`
	Class  int    `json:"result_class"`
	Tok    uint64 `json:"result_token"`
	Msg    string `json:"error,omitempty"`
}

// execPair runs one scenario; safe to run several concurrently.
func execPair(d pairDesc) []pairObs {
	node := newFakeNode(d)
	defer node.close()
	mc := pairMeta{addr: node.ln.Addr().String()}
	to := time.Duration(d.TimeoutMs) * time.Millisecond
	sw := coordinator.NewShardWriter(to, time.Second, time.Minute, d.MaxStreams)
	sw.MetaClient = mc
	defer sw.Close()
	me := coordinator.NewMetaExecutor(to, time.Second, time.Minute, d.MaxStreams)
	me.MetaClient = mc
	defer me.Close()

	obs := make([]pairObs, len(d.Calls))
	prevConn := map[string]int{} // per client (each has its own pool)
	for i, c := range d.Calls {
		cls, tok, msg := doCall(sw, me, c)
		if c.GapMs > 0 {
			time.Sleep(time.Duration(c.GapMs) * time.Millisecond)
		}
		node.mu.Lock()
		s, seen := node.seen[c.Token]
		node.mu.Unlock()
		client := "me"
		if c.Op == "writeshard" {
			client = "sw"
		}
		o := pairObs{Token: c.Token, Op: c.Op, Reply: c.Reply, Seen: seen, Conn: s.conn, Class: cls, Tok: tok, Msg: msg}
		if seen {
			o.Reused = prevConn[client] == s.conn
			prevConn[client] = s.conn
		}
		obs[i] = o
	}
	return obs
}

func replyKind(r string) int {
	switch r {
	case "ok":
		return 1
	case "err":
		return 2
	case "garbage":
		return 3
	}
	return 4 // cut, cutmid, silent: no complete reply frame
}

func emitPair(o *hx.Out, d pairDesc, obs []pairObs, origin string) {
	items := make([]string, len(obs))
	sig := fmt.Sprintf("pair:%d:%d", d.MaxStreams, d.TimeoutMs)
	anyLate, anyErr := false, false
	for i, x := range obs {
		// client 0 = ShardWriter pool, 1 = MetaExecutor pool
		cl := 1
		if x.Op == "writeshard" {
			cl = 0
		}
		items[i] = fmt.Sprintf("PC %d %d %d %s %s %d %d", cl, x.Token, replyKind(x.Reply), hx.CoqBool(x.Seen), hx.CoqBool(x.Reused), x.Class, x.Tok)
		c := d.Calls[i]
		sig += fmt.Sprintf("|%s,%s,%d,%d", c.Op, c.Reply, c.DelayMs, c.GapMs)
		if c.DelayMs > d.TimeoutMs {
			anyLate = true
		}
		if c.Reply != "ok" {
			anyErr = true
		}
		o.Count("pair:op=" + c.Op)
		o.Count("pair:reply=" + c.Reply)
		o.Count(fmt.Sprintf("pair:class=%d", x.Class))
		if x.Reused {
			o.Count("pair:conn-reused")
		}
	}
	if anyLate {
		o.Count("pair:with-late-reply")
	}
	o.Emit(hx.Case{Kind: "pair", Coq: "CPair " + hx.CoqList(items), Desc: d, Obs: obs,
		Nontrivial: len(obs) >= 2 && (anyLate || anyErr), Sig: sig, Origin: origin})
}

func runPair(o *hx.Out, d pairDesc, origin string) {
	d = normPair(d)
	o.Begin("pair", d)
	emitPair(o, d, execPair(d), origin)
}

// runPairs executes scenarios concurrently (they are independent: own node, own clients)
// and emits them in order.
func runPairs(o *hx.Out, ds []pairDesc, origin string) {
	for i := range ds {
		ds[i] = normPair(ds[i])
	}
	o.Begin("pair", ds)
	res := make([][]pairObs, len(ds))
	sem := make(chan struct{}, 12)
	var wg sync.WaitGroup
	for i := range ds {
		wg.Add(1)
		sem <- struct{}{}
		go func(i int) {
			defer wg.Done()
			defer func() { <-sem }()
			res[i] = execPair(ds[i])
		}(i)
	}
	wg.Wait()
	for i := range ds {
		emitPair(o, ds[i], res[i], origin)
	}
}

func designedPairs() []pairDesc {
	const T = 120
	late, gap := 2*T+40, 2*T+60
	var out []pairDesc
	ops := pairOps
	for _, op := range ops {
		// reply 1 late, arrives while the client is idle, then two more requests:
		// neighbours differ in outcome so that a shifted reply is visible to the caller
		out = append(out, pairDesc{MaxStreams: 1, TimeoutMs: T, Calls: []pairCall{
			{Op: op, Reply: "ok", DelayMs: late, GapMs: gap}, {Op: op, Reply: "err"}, {Op: op, Reply: "ok"}, {Op: op, Reply: "err"}}})
		out = append(out, pairDesc{MaxStreams: 1, TimeoutMs: T, Calls: []pairCall{
			{Op: op, Reply: "err", DelayMs: late, GapMs: gap}, {Op: op, Reply: "ok"}, {Op: op, Reply: "err"}}})
		// the next request is sent while reply 1 is still outstanding
		out = append(out, pairDesc{MaxStreams: 1, TimeoutMs: T, Calls: []pairCall{
			{Op: op, Reply: "ok"}, {Op: op, Reply: "err", DelayMs: late}, {Op: op, Reply: "ok", GapMs: gap}, {Op: op, Reply: "err"}}})
		// plain sequences, errors, undecodable bodies, cut and stalled connections
		out = append(out, pairDesc{MaxStreams: 1, TimeoutMs: T, Calls: []pairCall{
			{Op: op, Reply: "ok"}, {Op: op, Reply: "err"}, {Op: op, Reply: "garbage"}, {Op: op, Reply: "ok"}}})
		out = append(out, pairDesc{MaxStreams: 1, TimeoutMs: T, Calls: []pairCall{
			{Op: op, Reply: "cut"}, {Op: op, Reply: "ok"}, {Op: op, Reply: "cutmid"}, {Op: op, Reply: "err"}}})
		out = append(out, pairDesc{MaxStreams: 2, TimeoutMs: T, Calls: []pairCall{
			{Op: op, Reply: "silent"}, {Op: op, Reply: "err"}, {Op: op, Reply: "ok", DelayMs: late, GapMs: gap}, {Op: op, Reply: "err"}}})
	}
	// different request types sharing the MetaExecutor's pooled connection
	out = append(out, pairDesc{MaxStreams: 1, TimeoutMs: T, Calls: []pairCall{
		{Op: "itercost", Reply: "ok", DelayMs: late, GapMs: gap}, {Op: "fielddims", Reply: "ok"}, {Op: "maptype", Reply: "err"}, {Op: "tagkeys", Reply: "ok"}}})
	out = append(out, pairDesc{MaxStreams: 1, TimeoutMs: T, Calls: []pairCall{
		{Op: "exec", Reply: "err", DelayMs: late, GapMs: gap}, {Op: "names", Reply: "ok"}, {Op: "tagvalues", Reply: "err"}, {Op: "taskmgr", Reply: "ok"}}})
	out = append(out, pairDesc{MaxStreams: 1, TimeoutMs: T, Calls: []pairCall{
		{Op: "writeshard", Reply: "ok", DelayMs: late, GapMs: gap}, {Op: "exec", Reply: "err"}, {Op: "writeshard", Reply: "err"}, {Op: "itercost", Reply: "ok"}}})
	return out
}

func genPair(r *hx.Rand) pairDesc {
	const T = 120
	d := pairDesc{MaxStreams: 1 + r.Intn(2)*r.Intn(2), TimeoutMs: T}
	n := 2 + r.Intn(3)
	sameOp := pairOps[r.Intn(len(pairOps))]
	mixed := r.Chance(30)
	for i := 0; i < n; i++ {
		c := pairCall{Op: sameOp}
		if mixed {
			c.Op = pairOps[r.Intn(len(pairOps))]
		}
		switch r.Intn(10) {
		case 0, 1, 2, 3:
			c.Reply = "ok"
		case 4, 5, 6:
			c.Reply = "err"
		case 7:
			c.Reply = "garbage"
		case 8:
			c.Reply = []string{"cut", "cutmid"}[r.Intn(2)]
		default:
			c.Reply = "silent"
		}
		if r.Chance(35) {
			c.DelayMs = 2*T + r.Intn(80)
			if r.Chance(70) {
				c.GapMs = c.DelayMs + 20
			}
		} else if r.Chance(20) {
			c.DelayMs = r.Intn(T / 3)
		}
		d.Calls = append(d.Calls, c)
	}
	return d
}
