// wrap.go — part F of h_c15: the rpc.go wrappers WriteShardRequest, ExecuteStatementRequest,
// CreateIteratorRequest, CreateIteratorResponse against their models (coq/theories/C15/Wrap.v):
// the values handed to the real setters / struct fields, the bytes of the real MarshalBinary
// (compared byte for byte with the model's encoding of the modelled pb value), and what a fresh
// value's UnmarshalBinary + getters return.  Opaque payloads (binary points, Measurement,
// IteratorOptions, SpanContext encodings) are produced by the real sub-encoders and given to the
// model as bytes, together with whether the real sub-decoder accepts them.
package main

import (
	"fmt"
	"strings"

	"github.com/influxdata/influxdb/coordinator"
	"github.com/influxdata/influxdb/models"
	"github.com/influxdata/influxdb/pkg/tracing"
	"github.com/influxdata/influxdb/query"
	"github.com/influxdata/influxql"
	"verifharness/hx"
)

type wrapDesc struct {
	Which   string `json:"which"` // writeshard | execstmt | createit | createitresp
	Variant int    `json:"variant"`
	Seed    uint64 `json:"seed"`
	Value   string `json:"value,omitempty"`
}

func coqOptBytes(b []byte, set bool) string {
	if !set {
		return "None"
	}
	return "(Some " + hx.CoqBytes(b) + ")"
}

func safeUnmarshal(f func() error) (cls int, msg string) {
	defer func() {
		if e := recover(); e != nil {
			cls, msg = 2, fmt.Sprint(e)
		}
	}()
	if err := f(); err != nil {
		return 1, err.Error()
	}
	return 0, ""
}

var wrapPoints = func() []models.Point {
	ps, _ := models.ParsePointsString("cpu,host=a value=1.5,n=3i,s=\"x\",b=true 1000000000\nmem value=2 -5\ncpu,h=\\,x v=\"\" 0\nm,t=1 u=18446744073709551615u 9223372036854775806")
	return ps
}()

func runWrap(o *hx.Out, d wrapDesc, origin string) {
	r := hx.NewRand(d.Seed)
	v := d.Variant
	o.Begin("wrap", d)
	var coq, value string
	obs := map[string]interface{}{}
	nontrivial := v != 0
	switch d.Which {
	case "writeshard":
		w := &coordinator.WriteShardRequest{}
		idSet, dbSet, rpSet := v != 0, v == 1 || v == 2 || (v >= 3 && r.Bool()), v == 2 || (v >= 3 && r.Bool())
		var id uint64
		var db, rp string
		if idSet {
			id = gu64(r, v)
			w.SetShardID(id)
		}
		if dbSet {
			db = gstr(r)
			w.SetDatabase(db)
		}
		if rpSet {
			rp = gstr(r)
			w.SetRetentionPolicy(rp)
		}
		var blobs [][]byte
		n := []int{0, 2, 5}[min(v, 2)]
		if v >= 3 {
			n = r.Intn(5)
		}
		allValid := true
		for i := 0; i < n; i++ {
			if v >= 2 && r.Chance(30) {
				allValid = false
				blobs = append(blobs, [][]byte{{}, {0, 0, 0}, []byte("junk"), {0, 0, 0, 200, 1}, r.Bytes(1 + r.Intn(12))}[r.Intn(5)])
				continue
			}
			b, _ := wrapPoints[r.Intn(len(wrapPoints))].MarshalBinary()
			blobs = append(blobs, b)
		}
		if allValid && v%2 == 1 { // through AddPoints: the wrapper marshals each point itself
			for _, b := range blobs {
				p, _ := models.NewPointFromBytes(b)
				w.AddPoints([]models.Point{p})
			}
		} else {
			w.SetBinaryPoints(blobs)
		}
		rb, merr := w.MarshalBinary()
		fresh := &coordinator.WriteShardRequest{}
		cls, emsg := safeUnmarshal(func() error { return fresh.UnmarshalBinary(rb) })
		var accepted []string
		var want, got []string
		for _, b := range blobs {
			p, err := models.NewPointFromBytes(b)
			accepted = append(accepted, hx.CoqBool(err == nil))
			if err == nil {
				want = append(want, fmt.Sprintf("%s@%d", p.String(), p.UnixNano()))
			}
		}
		gid, gdb, grp, np := uint64(0), "", "", 0
		if cls == 0 {
			func() {
				defer func() {
					if e := recover(); e != nil {
						cls, emsg = 2, fmt.Sprint(e)
					}
				}()
				gid, gdb, grp = fresh.ShardID(), fresh.Database(), fresh.RetentionPolicy()
				for _, p := range fresh.Points() {
					got = append(got, fmt.Sprintf("%s@%d", p.String(), p.UnixNano()))
				}
				np = len(got)
			}()
		}
		same := strings.Join(want, "\n") == strings.Join(got, "\n")
		idc := "None"
		if idSet {
			idc = fmt.Sprintf("(Some %d)", id)
		}
		var bl []string
		for _, b := range blobs {
			bl = append(bl, hx.CoqBytes(b))
		}
		coq = fmt.Sprintf("WWriteShard (mkWs %s %s %s %s) %s %s %d %d %s %s %s %d %s", idc, coqOptBytes([]byte(db), dbSet), coqOptBytes([]byte(rp), rpSet),
			hx.CoqList(bl), hx.CoqBytes(rb), hx.CoqBool(merr != nil), cls, gid, hx.CoqStr(gdb), hx.CoqStr(grp), hx.CoqList(accepted), np, hx.CoqBool(same))
		value = fmt.Sprintf("{id=%v/%d db=%v/%q rp=%v/%q blobs=%x}", idSet, id, dbSet, db, rpSet, rp, blobs)
		obs = map[string]interface{}{"bytes": fmt.Sprintf("%x", rb), "marshal_error": fmt.Sprint(merr), "class": cls, "error": emsg, "id": gid, "db": gdb, "rp": grp, "points": got}
	case "execstmt":
		w := &coordinator.ExecuteStatementRequest{}
		sSet, dSet := v != 0, v == 1 || v == 2 || (v >= 3 && r.Chance(80))
		var st, db string
		if sSet {
			st = []string{"", "DROP DATABASE db0", "CREATE DATABASE \"a b\"", "DROP SERIES FROM cpu WHERE host = 'a'", "\xff"}[r.Intn(5)]
			if v >= 3 && r.Bool() {
				st = gstr(r)
			}
			w.SetStatement(st)
		}
		if dSet {
			db = gstr(r)
			w.SetDatabase(db)
		}
		rb, merr := w.MarshalBinary()
		fresh := &coordinator.ExecuteStatementRequest{}
		cls, emsg := safeUnmarshal(func() error { return fresh.UnmarshalBinary(rb) })
		gs, gd := "", ""
		if cls == 0 {
			gs, gd = fresh.Statement(), fresh.Database()
		}
		coq = fmt.Sprintf("WExecStmt %s %s %s %s %d %s %s", coqOptBytes([]byte(st), sSet), coqOptBytes([]byte(db), dSet), hx.CoqBytes(rb), hx.CoqBool(merr != nil), cls, hx.CoqStr(gs), hx.CoqStr(gd))
		value = fmt.Sprintf("{stmt=%v/%q db=%v/%q}", sSet, st, dSet, db)
		obs = map[string]interface{}{"bytes": fmt.Sprintf("%x", rb), "marshal_error": fmt.Sprint(merr), "class": cls, "error": emsg, "stmt": gs, "db": gd}
	case "createit":
		vv := min(v, 3)
		w := &coordinator.CreateIteratorRequest{ShardIDs: gids(r, vv), Measurement: gmeasurement(r, vv), Opt: gopt(r, vv)}
		// IteratorOptions.MarshalBinary walks the GroupBy MAP: with two or more keys the byte order
		// differs from call to call, and this case compares bytes of two separate calls (the
		// sub-encoder's output given to the model, and the wrapper's own call). Keep one key.
		if len(w.Opt.GroupBy) > 1 {
			for k := range w.Opt.GroupBy {
				w.Opt.GroupBy = map[string]struct{}{k: {}}
				break
			}
		}
		if v != 0 {
			w.SpanContext = tracing.SpanContext{TraceID: gu64(r, vv), SpanID: gu64(r, vv)}
		}
		mBuf, e1 := w.Measurement.MarshalBinary()
		oBuf, e2 := w.Opt.MarshalBinary()
		sBuf, e3 := w.SpanContext.MarshalBinary()
		if e1 != nil || e2 != nil || e3 != nil {
			o.Count("wrap:createit-sub-encoder-error")
			return
		}
		rb, merr := w.MarshalBinary()
		var m2 influxql.Measurement
		var o2 query.IteratorOptions
		var s2 tracing.SpanContext
		am, _ := safeUnmarshal(func() error { return m2.UnmarshalBinary(mBuf) })
		ao, _ := safeUnmarshal(func() error { return o2.UnmarshalBinary(oBuf) })
		as, _ := safeUnmarshal(func() error { return s2.UnmarshalBinary(sBuf) })
		fresh := &coordinator.CreateIteratorRequest{}
		cls, emsg := safeUnmarshal(func() error { return fresh.UnmarshalBinary(rb) })
		t := rpcByName("CreateIteratorRequest")
		want := t.canon(w)
		got := ""
		if cls == 0 {
			got = t.canon(fresh)
		}
		coq = fmt.Sprintf("WCreateIt %s %s %s %s %s %s %d %s %s %s %s %s", hx.CoqNList(w.ShardIDs), coqOptBytes(mBuf, mBuf != nil), coqOptBytes(oBuf, oBuf != nil), coqOptBytes(sBuf, sBuf != nil),
			hx.CoqBytes(rb), hx.CoqBool(merr != nil), cls, hx.CoqBool(am == 0), hx.CoqBool(ao == 0), hx.CoqBool(as == 0), hx.CoqNList(fresh.ShardIDs), hx.CoqBool(got == want))
		value = want
		obs = map[string]interface{}{"bytes": fmt.Sprintf("%x", rb), "marshal_error": fmt.Sprint(merr), "class": cls, "error": emsg, "decoded": got}
	case "createitresp":
		w := &coordinator.CreateIteratorResponse{Err: gerr(r, min(v, 3))}
		switch {
		case v == 1:
			w.Type, w.Stats = influxql.Float, query.IteratorStats{SeriesN: 3, PointN: 1000}
		case v == 2:
			w.Type, w.Stats = influxql.DataType(-1), query.IteratorStats{SeriesN: -1, PointN: 9223372036854775807}
		case v >= 3:
			w.Type = influxql.DataType([]int64{0, 1, 2, 3, 4, 5, 9, -1, 1 << 31, 1<<31 - 1, -1 << 31, 1 << 40}[r.Intn(12)])
			w.Stats = query.IteratorStats{SeriesN: int(gi64(r, 3)), PointN: int(gi64(r, 3))}
		}
		rb, merr := w.MarshalBinary()
		fresh := &coordinator.CreateIteratorResponse{}
		cls, emsg := safeUnmarshal(func() error { return fresh.UnmarshalBinary(rb) })
		errc, gerrc := "None", "None"
		if w.Err != nil {
			errc = "(Some " + hx.CoqStr(w.Err.Error()) + ")"
		}
		if cls == 0 && fresh.Err != nil {
			gerrc = "(Some " + hx.CoqStr(fresh.Err.Error()) + ")"
		}
		coq = fmt.Sprintf("WCreateItResp %s %d %d %d %s %s %d %s %d %d %d", errc, uint64(int64(w.Type)), uint64(int64(w.Stats.SeriesN)), uint64(int64(w.Stats.PointN)),
			hx.CoqBytes(rb), hx.CoqBool(merr != nil), cls, gerrc, uint64(int64(fresh.Type)), uint64(int64(fresh.Stats.SeriesN)), uint64(int64(fresh.Stats.PointN)))
		value = fmt.Sprintf("{err=%s type=%d stats=%d/%d}", cerr(w.Err), w.Type, w.Stats.SeriesN, w.Stats.PointN)
		obs = map[string]interface{}{"bytes": fmt.Sprintf("%x", rb), "marshal_error": fmt.Sprint(merr), "class": cls, "error": emsg,
			"decoded": fmt.Sprintf("{err=%s type=%d stats=%d/%d}", cerr(fresh.Err), fresh.Type, fresh.Stats.SeriesN, fresh.Stats.PointN)}
	default:
		return
	}
	d.Value = value
	o.Count("wrap:" + d.Which)
	o.Emit(hx.Case{Kind: "wrap", Coq: "CWrap (" + coq + ")", Desc: d, Obs: obs, Nontrivial: nontrivial, Sig: "wrap:" + d.Which + ":" + value, Origin: origin})
}

var wrapKinds = []string{"writeshard", "execstmt", "createit", "createitresp"}

func designedWraps(o *hx.Out) {
	for _, k := range wrapKinds {
		for v := 0; v <= 3; v++ {
			for s := uint64(0); s < 3; s++ {
				runWrap(o, wrapDesc{Which: k, Variant: v, Seed: s + 10*uint64(v)}, "designed")
			}
		}
	}
}
