// rpcrt.go — part B of h_c15: Unmarshal(Marshal(v)) == v for every request / response type
// of coordinator/rpc.go.  Differential only: the Coq side records the verdict (CRpc).
// Canonical forms: errors by message, influxql expressions by String(), times by
// UnixNano, sets/maps sorted, nil and empty slices identified.
package main

import (
	"encoding/json"
	"errors"
	"fmt"
	"regexp"
	"sort"
	"strings"
	"time"

	"github.com/influxdata/influxdb/coordinator"
	"github.com/influxdata/influxdb/models"
	"github.com/influxdata/influxdb/pkg/estimator"
	"github.com/influxdata/influxdb/pkg/estimator/hll"
	"github.com/influxdata/influxdb/pkg/tracing"
	"github.com/influxdata/influxdb/query"
	"github.com/influxdata/influxdb/services/meta"
	"github.com/influxdata/influxdb/storage/reads/datatypes"
	"github.com/influxdata/influxdb/tsdb"
	"github.com/influxdata/influxql"
	"verifharness/hx"
)

type rtMsg interface {
	MarshalBinary() ([]byte, error)
	UnmarshalBinary([]byte) error
}

type rpcType struct {
	name  string
	gen   func(r *hx.Rand, variant int) rtMsg
	fresh func() rtMsg
	canon func(m rtMsg) string
}

type rpcDesc struct {
	Name    string `json:"name"`
	Variant int    `json:"variant"` // 0 zero value, 1 typical, 2 extremes, >=3 random from seed
	Seed    uint64 `json:"seed"`
	Value   string `json:"value,omitempty"` // canonical form of the generated value (informative)
}

// ---- value generators ----

var utf8Strings = []string{"", "a", "cpu", "db", "rp", "host", "us-west", "é", "日本", " ", "a b", "\"q\"", "x\ny", "\x00", "a,b=c", "/re/", "127.0.0.1:8088"}
var rawStrings = []string{"\xff", "\xfe\x00\xff", "a\xc3"}

// gstr: any bytes (for protobuf proto2 string fields, which are not UTF-8 validated)
func gstr(r *hx.Rand) string {
	switch r.Intn(6) {
	case 0:
		return ""
	case 1:
		return rawStrings[r.Intn(len(rawStrings))]
	case 2:
		return string(r.Bytes(r.Intn(10)))
	default:
		return utf8Strings[r.Intn(len(utf8Strings))]
	}
}

// ustr: valid UTF-8 only (fields carried inside JSON documents)
func ustr(r *hx.Rand) string { return utf8Strings[r.Intn(len(utf8Strings))] }

func gerr(r *hx.Rand, variant int) error {
	switch variant {
	case 0:
		return nil
	case 1:
		return errors.New("shard not found")
	case 2:
		return errors.New("")
	}
	switch r.Intn(4) {
	case 0:
		return nil
	case 1:
		return errors.New("")
	default:
		return errors.New(gstr(r))
	}
}

var extremeI64 = []int64{0, 1, -1, 9223372036854775807, -9223372036854775808, 127, 128, -129, 1 << 32, 1<<53 + 1}
var extremeU64 = []uint64{0, 1, 18446744073709551615, 1 << 63, 127, 128, 1 << 32}

func gi64(r *hx.Rand, variant int) int64 {
	switch variant {
	case 0:
		return 0
	case 1:
		return 42
	case 2:
		return extremeI64[3+r.Intn(2)]
	}
	if r.Bool() {
		return extremeI64[r.Intn(len(extremeI64))]
	}
	return int64(r.U64())
}
func gu64(r *hx.Rand, variant int) uint64 {
	switch variant {
	case 0:
		return 0
	case 1:
		return 7
	case 2:
		return 18446744073709551615
	}
	if r.Bool() {
		return extremeU64[r.Intn(len(extremeU64))]
	}
	return r.U64()
}
func gids(r *hx.Rand, variant int) []uint64 {
	switch variant {
	case 0:
		return nil
	case 1:
		return []uint64{1, 2, 3}
	case 2:
		return []uint64{18446744073709551615, 0}
	}
	switch r.Intn(4) {
	case 0:
		return nil
	case 1:
		return []uint64{}
	}
	n := 1 + r.Intn(4)
	a := make([]uint64, n)
	for i := range a {
		a[i] = gu64(r, 3)
	}
	return a
}

var exprTexts = []string{"host = 'a'", "_name = 'cpu'", "_name =~ /c.*/", "host !~ /a|b/ OR region = 'w'", "value > 1.5 AND n < 3", "time > 0", "host = ''",
	"\"a b\" = 'x'", "host = 'it''s'", "(a = 'b' OR c = 'd') AND e != 'f'", "value", "mean(value)", "count(distinct(n))", "percentile(value, 99)", "value::float",
	"n::integer", "u::unsigned", "s::string", "b::boolean", "host::tag", "value + n * 2", "-value", "1", "1.5", "'str'", "true", "/re/", "*", "time", "now() - 1h",
	"a = 1 AND b = 2.0 AND c = 'three' AND d = true", "f(x, y::float, 'z')", "\"\\\"q\" = 1", "value::float + 1.0 / 3.0", "x =~ /\\//"}

func init() {
	var ok []string
	for _, t := range exprTexts {
		if _, err := influxql.ParseExpr(t); err == nil {
			ok = append(ok, t)
		}
	}
	exprTexts = ok
}

func gexpr(r *hx.Rand, variant int) influxql.Expr {
	switch variant {
	case 0:
		return nil
	case 1:
		return mustExpr("host = 'a' AND value > 1.5")
	case 2:
		return mustExpr("\"a b\" = 'it''s' AND x =~ /\\// OR value::float + 1.0 / 3.0 > -n::integer")
	}
	if r.Chance(20) {
		return nil
	}
	return mustExpr(exprTexts[r.Intn(len(exprTexts))])
}

func gtime(r *hx.Rand, variant int) time.Time {
	switch variant {
	case 0:
		return time.Time{}
	case 1:
		return time.Unix(1600000000, 123456789)
	case 2:
		return time.Unix(0, -9223372036854775808)
	}
	switch r.Intn(5) {
	case 0:
		return time.Time{}
	case 1:
		return time.Unix(0, 9223372036854775807)
	case 2:
		return time.Unix(0, 0).UTC()
	}
	return time.Unix(0, int64(r.U64()))
}

func gmeasurement(r *hx.Rand, variant int) influxql.Measurement {
	switch variant {
	case 0:
		return influxql.Measurement{}
	case 1:
		return influxql.Measurement{Database: "db", RetentionPolicy: "rp", Name: "cpu"}
	case 2:
		return influxql.Measurement{Database: "\xff", RetentionPolicy: "", Regex: &influxql.RegexLiteral{Val: regexp.MustCompile(`^c(pu)?\/|\x00$`)}, IsTarget: true, SystemIterator: "_fieldKeys"}
	}
	m := influxql.Measurement{Database: gstr(r), RetentionPolicy: gstr(r), Name: gstr(r), IsTarget: r.Bool()}
	if r.Chance(30) {
		m.SystemIterator = []string{"_fieldKeys", "_series", "_tagKeys", "x"}[r.Intn(4)]
	}
	if r.Chance(40) {
		m.Regex = &influxql.RegexLiteral{Val: regexp.MustCompile([]string{"", ".*", "^cpu$", "a|b", "[0-9]+", "\\/", "(?i)x", "\\x00", "é"}[r.Intn(9)])}
	}
	return m
}

func gsources(r *hx.Rand, variant int) influxql.Sources {
	switch variant {
	case 0:
		return nil
	}
	if variant >= 3 && r.Chance(20) {
		return influxql.Sources{}
	}
	n := 1 + r.Intn(3)
	s := make(influxql.Sources, n)
	for i := range s {
		m := gmeasurement(r, variant)
		s[i] = &m
	}
	return s
}

func gopt(r *hx.Rand, variant int) query.IteratorOptions {
	switch variant {
	case 0:
		return query.IteratorOptions{}
	case 1:
		return query.IteratorOptions{Expr: mustExpr("mean(value)"), Aux: []influxql.VarRef{{Val: "s", Type: influxql.String}}, Interval: query.Interval{Duration: time.Minute},
			Dimensions: []string{"host"}, GroupBy: map[string]struct{}{"host": {}}, Fill: influxql.NumberFill, FillValue: 1.5, Condition: mustExpr("host = 'a'"),
			StartTime: 0, EndTime: 1000, Ascending: true, Limit: 10, Offset: 1, SLimit: 2, SOffset: 3, Dedupe: true, MaxSeriesN: 100, Ordered: true, Location: time.UTC}
	case 2:
		return query.IteratorOptions{Expr: mustExpr("\"a b\"::float"), Aux: []influxql.VarRef{{Val: "", Type: influxql.Unknown}, {Val: "\xff", Type: influxql.Unsigned}},
			Interval: query.Interval{Duration: -9223372036854775808, Offset: 9223372036854775807}, Dimensions: []string{""}, GroupBy: map[string]struct{}{"": {}},
			Fill: influxql.FillOption(-1), StartTime: influxql.MinTime, EndTime: influxql.MaxTime, Limit: -9223372036854775808, Offset: 9223372036854775807,
			SLimit: -1, SOffset: -1, StripName: true, MaxSeriesN: -1, Sources: gsources(r, 2)}
	}
	o := query.IteratorOptions{Expr: gexpr(r, 3), Condition: gexpr(r, 3), StartTime: gi64(r, 3), EndTime: gi64(r, 3), Ascending: r.Bool(), Limit: int(gi64(r, 3)), Offset: int(gi64(r, 3)),
		SLimit: int(gi64(r, 3)), SOffset: int(gi64(r, 3)), StripName: r.Bool(), Dedupe: r.Bool(), MaxSeriesN: int(gi64(r, 3)), Ordered: r.Bool(),
		Interval: query.Interval{Duration: time.Duration(gi64(r, 3)), Offset: time.Duration(gi64(r, 3))}, Fill: influxql.FillOption(r.Intn(6))}
	if r.Bool() {
		n := r.Intn(4)
		o.Aux = make([]influxql.VarRef, n)
		for i := range o.Aux {
			o.Aux[i] = influxql.VarRef{Val: gstr(r), Type: influxql.DataType(r.Intn(10))}
		}
	}
	if r.Bool() {
		o.Dimensions = []string{}
		for n := r.Intn(3); n > 0; n-- {
			o.Dimensions = append(o.Dimensions, gstr(r))
		}
	}
	if r.Bool() {
		o.GroupBy = map[string]struct{}{}
		for n := r.Intn(3); n > 0; n-- {
			o.GroupBy[gstr(r)] = struct{}{}
		}
	}
	if r.Chance(30) {
		o.FillValue = []float64{0, 1.5, -1, 1e308}[r.Intn(4)]
	}
	if r.Chance(30) {
		o.Location = []*time.Location{time.UTC, mustLoc("Asia/Shanghai"), mustLoc("America/New_York")}[r.Intn(3)]
	}
	if r.Chance(30) {
		o.Sources = []influxql.Source(gsources(r, 3))
	}
	return o
}

func mustLoc(n string) *time.Location {
	l, err := time.LoadLocation(n)
	if err != nil {
		return time.UTC
	}
	return l
}

func gsketch(r *hx.Rand, variant int) estimator.Sketch {
	if variant == 0 {
		return nil
	}
	s := hll.NewDefaultPlus()
	n := 3
	if variant >= 3 {
		n = r.Intn(40)
	}
	if variant == 2 {
		n = 0
	}
	for i := 0; i < n; i++ {
		s.Add([]byte(fmt.Sprintf("series-%d-%d", variant, r.Intn(1000))))
	}
	return s
}

// ---- canonical forms ----

func cerr(e error) string {
	if e == nil {
		return "nil"
	}
	return fmt.Sprintf("err:%q", e.Error())
}
func cexpr(e influxql.Expr) string {
	if e == nil {
		return "nil"
	}
	return fmt.Sprintf("%q", e.String())
}
func cids(a []uint64) string { return fmt.Sprint(append([]uint64{}, a...)) }
func cstrs(a []string) string {
	return fmt.Sprintf("%q", append([]string{}, a...))
}
func cmeas(m *influxql.Measurement) string {
	if m == nil {
		return "nil"
	}
	re := "nil"
	if m.Regex != nil && m.Regex.Val != nil {
		re = fmt.Sprintf("%q", m.Regex.Val.String())
	}
	return fmt.Sprintf("{db=%q rp=%q name=%q re=%s target=%v sys=%q}", m.Database, m.RetentionPolicy, m.Name, re, m.IsTarget, m.SystemIterator)
}
func csources(s []influxql.Source) string {
	var parts []string
	for _, x := range s {
		if m, ok := x.(*influxql.Measurement); ok {
			parts = append(parts, cmeas(m))
		} else {
			parts = append(parts, fmt.Sprintf("%T", x))
		}
	}
	return "[" + strings.Join(parts, ",") + "]"
}
func cset(m map[string]struct{}) string {
	ks := make([]string, 0, len(m))
	for k := range m {
		ks = append(ks, k)
	}
	sort.Strings(ks)
	return fmt.Sprintf("%q", ks)
}
func copt(o *query.IteratorOptions) string {
	aux := make([]string, len(o.Aux))
	for i, a := range o.Aux {
		aux[i] = fmt.Sprintf("%q:%d", a.Val, a.Type)
	}
	loc := "nil"
	if o.Location != nil {
		loc = o.Location.String()
	}
	fv := "nil"
	if o.FillValue != nil {
		fv = fmt.Sprintf("%T:%v", o.FillValue, o.FillValue)
	}
	return fmt.Sprintf("{expr=%s aux=%v src=%s iv=%d/%d dims=%s gb=%s loc=%s fill=%d fv=%s cond=%s t=%d..%d asc=%v lim=%d off=%d slim=%d soff=%d strip=%v dedupe=%v max=%d ord=%v}",
		cexpr(o.Expr), aux, csources(o.Sources), int64(o.Interval.Duration), int64(o.Interval.Offset), cstrs(o.Dimensions), cset(o.GroupBy), loc, o.Fill, fv, cexpr(o.Condition),
		o.StartTime, o.EndTime, o.Ascending, o.Limit, o.Offset, o.SLimit, o.SOffset, o.StripName, o.Dedupe, o.MaxSeriesN, o.Ordered)
}
func csketch(s estimator.Sketch) string {
	if s == nil {
		return "nil"
	}
	b, err := s.MarshalBinary()
	if err != nil {
		return "marshal-error"
	}
	// sparse form: version, precision, 1, then the temporary set (count + 4-byte entries)
	// written in Go map order: sort it
	if len(b) >= 7 && b[2] == 1 {
		n := int(b[3])<<24 | int(b[4])<<16 | int(b[5])<<8 | int(b[6])
		if n >= 0 && 7+4*n <= len(b) {
			ents := make([]string, n)
			for i := 0; i < n; i++ {
				ents[i] = string(b[7+4*i : 11+4*i])
			}
			sort.Strings(ents)
			return fmt.Sprintf("%x|%x|%x", b[:7], strings.Join(ents, ""), b[7+4*n:])
		}
	}
	return fmt.Sprintf("%x", b)
}
func cjson(v interface{}) string {
	b, err := json.Marshal(v)
	if err != nil {
		return "json-error:" + err.Error()
	}
	return string(b)
}

func rpcTypes() []rpcType {
	var ts []rpcType
	add := func(name string, gen func(r *hx.Rand, v int) rtMsg, fresh func() rtMsg, canon func(m rtMsg) string) {
		ts = append(ts, rpcType{name, gen, fresh, canon})
	}
	goodPts, _ := models.ParsePointsString("cpu,host=a value=1.5,n=3i,s=\"x\",b=true 1000000000\nmem value=2 -5\ncpu,h=\\,x v=\"\" 0")

	add("WriteShardRequest", func(r *hx.Rand, v int) rtMsg {
		w := &coordinator.WriteShardRequest{}
		if v == 0 {
			w.SetShardID(0)
			return w
		}
		w.SetShardID(gu64(r, v))
		if v != 3 || r.Bool() {
			w.SetDatabase(gstr(r))
			w.SetRetentionPolicy(gstr(r))
		}
		n := 2
		if v >= 3 {
			n = r.Intn(4)
		}
		for i := 0; i < n; i++ {
			w.AddPoints([]models.Point{goodPts[r.Intn(len(goodPts))]})
		}
		return w
	}, func() rtMsg { return &coordinator.WriteShardRequest{} }, func(m rtMsg) string {
		w := m.(*coordinator.WriteShardRequest)
		var ps []string
		for _, p := range w.Points() {
			ps = append(ps, fmt.Sprintf("%s@%d", p.String(), p.UnixNano()))
		}
		return fmt.Sprintf("{shard=%d db=%q rp=%q points=%q}", w.ShardID(), w.Database(), w.RetentionPolicy(), ps)
	})
	add("WriteShardResponse", func(r *hx.Rand, v int) rtMsg {
		w := &coordinator.WriteShardResponse{}
		w.SetCode(int(int32(gi64(r, v))))
		if v != 0 {
			w.SetMessage(gstr(r))
		}
		return w
	}, func() rtMsg { return &coordinator.WriteShardResponse{} }, func(m rtMsg) string {
		w := m.(*coordinator.WriteShardResponse)
		return fmt.Sprintf("{code=%d msg=%q}", w.Code(), w.Message())
	})
	add("ExecuteStatementRequest", func(r *hx.Rand, v int) rtMsg {
		w := &coordinator.ExecuteStatementRequest{}
		w.SetStatement(gstr(r))
		w.SetDatabase(gstr(r))
		if v == 0 {
			w.SetStatement("")
			w.SetDatabase("")
		}
		return w
	}, func() rtMsg { return &coordinator.ExecuteStatementRequest{} }, func(m rtMsg) string {
		w := m.(*coordinator.ExecuteStatementRequest)
		return fmt.Sprintf("{stmt=%q db=%q}", w.Statement(), w.Database())
	})
	add("ExecuteStatementResponse", func(r *hx.Rand, v int) rtMsg {
		w := &coordinator.ExecuteStatementResponse{}
		w.SetCode(int(int32(gi64(r, v))))
		if v != 0 {
			w.SetMessage(gstr(r))
		}
		return w
	}, func() rtMsg { return &coordinator.ExecuteStatementResponse{} }, func(m rtMsg) string {
		w := m.(*coordinator.ExecuteStatementResponse)
		return fmt.Sprintf("{code=%d msg=%q}", w.Code(), w.Message())
	})
	add("TaskManagerStatementRequest", func(r *hx.Rand, v int) rtMsg {
		if v == 0 {
			return &coordinator.TaskManagerStatementRequest{}
		}
		return &coordinator.TaskManagerStatementRequest{Statement: gstr(r)}
	}, func() rtMsg { return &coordinator.TaskManagerStatementRequest{} }, func(m rtMsg) string {
		return fmt.Sprintf("%q", m.(*coordinator.TaskManagerStatementRequest).Statement)
	})
	add("TaskManagerStatementResponse", func(r *hx.Rand, v int) rtMsg {
		w := &coordinator.TaskManagerStatementResponse{Err: gerr(r, v)}
		if v == 0 {
			return w
		}
		w.Result.StatementID = int(int32(gi64(r, v)))
		w.Result.Partial = r.Bool()
		if r.Bool() {
			w.Result.Err = errors.New(ustr(r) + "x")
		}
		if r.Bool() {
			w.Result.Messages = []*query.Message{{Level: "warning", Text: ustr(r)}}
		}
		for n := r.Intn(3); n > 0; n-- {
			row := &models.Row{Name: ustr(r), Columns: []string{"qid", "query", "database", "duration", "status"}}
			if r.Bool() {
				row.Tags = map[string]string{ustr(r): ustr(r)}
			}
			for k := r.Intn(3); k > 0; k-- {
				row.Values = append(row.Values, []interface{}{float64(r.Intn(100)), ustr(r), ustr(r), "1s", "running"})
			}
			w.Result.Series = append(w.Result.Series, row)
		}
		return w
	}, func() rtMsg { return &coordinator.TaskManagerStatementResponse{} }, func(m rtMsg) string {
		w := m.(*coordinator.TaskManagerStatementResponse)
		return fmt.Sprintf("{result=%s err=%s}", cjson(&w.Result), cerr(w.Err))
	})
	add("MeasurementNamesRequest", func(r *hx.Rand, v int) rtMsg {
		if v == 0 {
			return &coordinator.MeasurementNamesRequest{}
		}
		return &coordinator.MeasurementNamesRequest{Database: gstr(r), RetentionPolicy: gstr(r), Condition: gexpr(r, v)}
	}, func() rtMsg { return &coordinator.MeasurementNamesRequest{} }, func(m rtMsg) string {
		w := m.(*coordinator.MeasurementNamesRequest)
		return fmt.Sprintf("{db=%q rp=%q cond=%s}", w.Database, w.RetentionPolicy, cexpr(w.Condition))
	})
	add("MeasurementNamesResponse", func(r *hx.Rand, v int) rtMsg {
		w := &coordinator.MeasurementNamesResponse{Err: gerr(r, v)}
		if v == 0 {
			return w
		}
		for n := r.Intn(4); n > 0; n-- {
			w.Names = append(w.Names, []byte(gstr(r)))
		}
		return w
	}, func() rtMsg { return &coordinator.MeasurementNamesResponse{} }, func(m rtMsg) string {
		w := m.(*coordinator.MeasurementNamesResponse)
		return fmt.Sprintf("{names=%q err=%s}", append([][]byte{}, w.Names...), cerr(w.Err))
	})
	add("TagKeysRequest", func(r *hx.Rand, v int) rtMsg {
		return &coordinator.TagKeysRequest{ShardIDs: gids(r, v), Condition: gexpr(r, v)}
	}, func() rtMsg { return &coordinator.TagKeysRequest{} }, func(m rtMsg) string {
		w := m.(*coordinator.TagKeysRequest)
		return fmt.Sprintf("{ids=%s cond=%s}", cids(w.ShardIDs), cexpr(w.Condition))
	})
	add("TagKeysResponse", func(r *hx.Rand, v int) rtMsg {
		w := &coordinator.TagKeysResponse{Err: gerr(r, v)}
		if v == 0 {
			return w
		}
		for n := r.Intn(3); n > 0; n-- {
			tk := tsdb.TagKeys{Measurement: ustr(r)}
			for k := r.Intn(3); k > 0; k-- {
				tk.Keys = append(tk.Keys, ustr(r))
			}
			w.TagKeys = append(w.TagKeys, tk)
		}
		return w
	}, func() rtMsg { return &coordinator.TagKeysResponse{} }, func(m rtMsg) string {
		w := m.(*coordinator.TagKeysResponse)
		var parts []string
		for _, tk := range w.TagKeys {
			parts = append(parts, fmt.Sprintf("%q:%s", tk.Measurement, cstrs(tk.Keys)))
		}
		return fmt.Sprintf("{keys=%v err=%s}", parts, cerr(w.Err))
	})
	add("TagValuesRequest", func(r *hx.Rand, v int) rtMsg {
		return &coordinator.TagValuesRequest{ShardIDs: gids(r, v), Condition: gexpr(r, v)}
	}, func() rtMsg { return &coordinator.TagValuesRequest{} }, func(m rtMsg) string {
		w := m.(*coordinator.TagValuesRequest)
		return fmt.Sprintf("{ids=%s cond=%s}", cids(w.ShardIDs), cexpr(w.Condition))
	})
	add("TagValuesResponse", func(r *hx.Rand, v int) rtMsg {
		w := &coordinator.TagValuesResponse{Err: gerr(r, v)}
		if v == 0 {
			return w
		}
		for n := r.Intn(3); n > 0; n-- {
			tv := tsdb.TagValues{Measurement: ustr(r)}
			for k := r.Intn(3); k > 0; k-- {
				tv.Values = append(tv.Values, tsdb.KeyValue{Key: ustr(r), Value: ustr(r)})
			}
			w.TagValues = append(w.TagValues, tv)
		}
		return w
	}, func() rtMsg { return &coordinator.TagValuesResponse{} }, func(m rtMsg) string {
		w := m.(*coordinator.TagValuesResponse)
		var parts []string
		for _, tv := range w.TagValues {
			parts = append(parts, fmt.Sprintf("%q:%q", tv.Measurement, append([]tsdb.KeyValue{}, tv.Values...)))
		}
		return fmt.Sprintf("{values=%v err=%s}", parts, cerr(w.Err))
	})
	add("SeriesSketchesRequest", func(r *hx.Rand, v int) rtMsg {
		if v == 0 {
			return &coordinator.SeriesSketchesRequest{}
		}
		return &coordinator.SeriesSketchesRequest{Database: gstr(r)}
	}, func() rtMsg { return &coordinator.SeriesSketchesRequest{} }, func(m rtMsg) string {
		return fmt.Sprintf("%q", m.(*coordinator.SeriesSketchesRequest).Database)
	})
	add("MeasurementsSketchesRequest", func(r *hx.Rand, v int) rtMsg {
		if v == 0 {
			return &coordinator.MeasurementsSketchesRequest{}
		}
		return &coordinator.MeasurementsSketchesRequest{Database: gstr(r)}
	}, func() rtMsg { return &coordinator.MeasurementsSketchesRequest{} }, func(m rtMsg) string {
		return fmt.Sprintf("%q", m.(*coordinator.MeasurementsSketchesRequest).Database)
	})
	// sketches: either both sketches (success reply) or an error (sketches absent)
	add("SeriesSketchesResponse", func(r *hx.Rand, v int) rtMsg {
		if v == 0 || (v >= 3 && r.Chance(30)) {
			e := gerr(r, 1)
			if v >= 3 {
				e = errors.New(gstr(r))
			}
			return &coordinator.SeriesSketchesResponse{Err: e}
		}
		return &coordinator.SeriesSketchesResponse{Sketch: gsketch(r, v), TSSketch: gsketch(r, v)}
	}, func() rtMsg { return &coordinator.SeriesSketchesResponse{} }, func(m rtMsg) string {
		w := m.(*coordinator.SeriesSketchesResponse)
		return fmt.Sprintf("{s=%s ts=%s err=%s}", csketch(w.Sketch), csketch(w.TSSketch), cerr(w.Err))
	})
	add("MeasurementsSketchesResponse", func(r *hx.Rand, v int) rtMsg {
		if v == 0 || (v >= 3 && r.Chance(30)) {
			e := gerr(r, 1)
			if v >= 3 {
				e = errors.New(gstr(r))
			}
			return &coordinator.MeasurementsSketchesResponse{Err: e}
		}
		return &coordinator.MeasurementsSketchesResponse{Sketch: gsketch(r, v), TSSketch: gsketch(r, v)}
	}, func() rtMsg { return &coordinator.MeasurementsSketchesResponse{} }, func(m rtMsg) string {
		w := m.(*coordinator.MeasurementsSketchesResponse)
		return fmt.Sprintf("{s=%s ts=%s err=%s}", csketch(w.Sketch), csketch(w.TSSketch), cerr(w.Err))
	})
	rfs := readFilterVariants()
	add("StoreReadFilterRequest", func(r *hx.Rand, v int) rtMsg {
		w := &coordinator.StoreReadFilterRequest{ShardIDs: gids(r, v)}
		switch v {
		case 0:
		case 1:
			w.Request = rfs[12]
		case 2:
			w.Request = rfs[10]
		default:
			w.Request = rfs[r.Intn(len(rfs))]
			w.Request.Range = datatypes.TimestampRange{Start: gi64(r, 3), End: gi64(r, 3)}
		}
		return w
	}, func() rtMsg { return &coordinator.StoreReadFilterRequest{} }, func(m rtMsg) string {
		w := m.(*coordinator.StoreReadFilterRequest)
		b, _ := w.Request.Marshal()
		return fmt.Sprintf("{ids=%s req=%x}", cids(w.ShardIDs), b)
	})
	add("StoreReadGroupRequest", func(r *hx.Rand, v int) rtMsg {
		w := &coordinator.StoreReadGroupRequest{ShardIDs: gids(r, v)}
		if v == 0 {
			return w
		}
		f := rfs[r.Intn(len(rfs))]
		w.Request = datatypes.ReadGroupRequest{ReadSource: f.ReadSource, Range: datatypes.TimestampRange{Start: gi64(r, v), End: gi64(r, v)}, Predicate: f.Predicate,
			Group: datatypes.ReadGroupRequest_Group(r.Intn(3)), Hints: datatypes.HintFlags(r.U64())}
		for n := r.Intn(3); n > 0; n-- {
			w.Request.GroupKeys = append(w.Request.GroupKeys, ustr(r))
		}
		if r.Bool() {
			w.Request.Aggregate = &datatypes.Aggregate{Type: datatypes.Aggregate_AggregateType(r.Intn(4))}
		}
		return w
	}, func() rtMsg { return &coordinator.StoreReadGroupRequest{} }, func(m rtMsg) string {
		w := m.(*coordinator.StoreReadGroupRequest)
		b, _ := w.Request.Marshal()
		return fmt.Sprintf("{ids=%s req=%x}", cids(w.ShardIDs), b)
	})
	// the eight error-only responses
	add("StoreReadFilterResponse", func(r *hx.Rand, v int) rtMsg { return &coordinator.StoreReadFilterResponse{Err: gerr(r, v)} },
		func() rtMsg { return &coordinator.StoreReadFilterResponse{} }, func(m rtMsg) string { return cerr(m.(*coordinator.StoreReadFilterResponse).Err) })
	add("StoreReadGroupResponse", func(r *hx.Rand, v int) rtMsg { return &coordinator.StoreReadGroupResponse{Err: gerr(r, v)} },
		func() rtMsg { return &coordinator.StoreReadGroupResponse{} }, func(m rtMsg) string { return cerr(m.(*coordinator.StoreReadGroupResponse).Err) })
	add("CopyShardResponse", func(r *hx.Rand, v int) rtMsg { return &coordinator.CopyShardResponse{Err: gerr(r, v)} },
		func() rtMsg { return &coordinator.CopyShardResponse{} }, func(m rtMsg) string { return cerr(m.(*coordinator.CopyShardResponse).Err) })
	add("RemoveShardResponse", func(r *hx.Rand, v int) rtMsg { return &coordinator.RemoveShardResponse{Err: gerr(r, v)} },
		func() rtMsg { return &coordinator.RemoveShardResponse{} }, func(m rtMsg) string { return cerr(m.(*coordinator.RemoveShardResponse).Err) })
	add("LeaveClusterResponse", func(r *hx.Rand, v int) rtMsg { return &coordinator.LeaveClusterResponse{Err: gerr(r, v)} },
		func() rtMsg { return &coordinator.LeaveClusterResponse{} }, func(m rtMsg) string { return cerr(m.(*coordinator.LeaveClusterResponse).Err) })
	add("RemoveHintedHandoffResponse", func(r *hx.Rand, v int) rtMsg { return &coordinator.RemoveHintedHandoffResponse{Err: gerr(r, v)} },
		func() rtMsg { return &coordinator.RemoveHintedHandoffResponse{} }, func(m rtMsg) string { return cerr(m.(*coordinator.RemoveHintedHandoffResponse).Err) })

	add("CreateIteratorRequest", func(r *hx.Rand, v int) rtMsg {
		w := &coordinator.CreateIteratorRequest{ShardIDs: gids(r, v), Measurement: gmeasurement(r, v), Opt: gopt(r, v)}
		if v != 0 {
			w.SpanContext = tracing.SpanContext{TraceID: gu64(r, v), SpanID: gu64(r, v)}
		}
		return w
	}, func() rtMsg { return &coordinator.CreateIteratorRequest{} }, func(m rtMsg) string {
		w := m.(*coordinator.CreateIteratorRequest)
		return fmt.Sprintf("{ids=%s m=%s opt=%s span=%d/%d}", cids(w.ShardIDs), cmeas(&w.Measurement), copt(&w.Opt), w.SpanContext.TraceID, w.SpanContext.SpanID)
	})
	add("CreateIteratorResponse", func(r *hx.Rand, v int) rtMsg {
		w := &coordinator.CreateIteratorResponse{Err: gerr(r, v)}
		if v != 0 {
			w.Type = influxql.DataType(r.Intn(10))
			w.Stats = query.IteratorStats{SeriesN: int(gi64(r, v)), PointN: int(gi64(r, v))}
		}
		return w
	}, func() rtMsg { return &coordinator.CreateIteratorResponse{} }, func(m rtMsg) string {
		w := m.(*coordinator.CreateIteratorResponse)
		return fmt.Sprintf("{err=%s type=%d stats=%d/%d}", cerr(w.Err), w.Type, w.Stats.SeriesN, w.Stats.PointN)
	})
	add("IteratorCostRequest", func(r *hx.Rand, v int) rtMsg {
		return &coordinator.IteratorCostRequest{ShardIDs: gids(r, v), Measurement: gmeasurement(r, v), Opt: gopt(r, v)}
	}, func() rtMsg { return &coordinator.IteratorCostRequest{} }, func(m rtMsg) string {
		w := m.(*coordinator.IteratorCostRequest)
		return fmt.Sprintf("{ids=%s m=%s opt=%s}", cids(w.ShardIDs), cmeas(&w.Measurement), copt(&w.Opt))
	})
	add("IteratorCostResponse", func(r *hx.Rand, v int) rtMsg {
		return &coordinator.IteratorCostResponse{Err: gerr(r, v), Cost: query.IteratorCost{NumShards: gi64(r, v), NumSeries: gi64(r, v), CachedValues: gi64(r, v),
			NumFiles: gi64(r, v), BlocksRead: gi64(r, v), BlockSize: gi64(r, v)}}
	}, func() rtMsg { return &coordinator.IteratorCostResponse{} }, func(m rtMsg) string {
		w := m.(*coordinator.IteratorCostResponse)
		return fmt.Sprintf("{err=%s cost=%+v}", cerr(w.Err), w.Cost)
	})
	add("FieldDimensionsRequest", func(r *hx.Rand, v int) rtMsg {
		return &coordinator.FieldDimensionsRequest{ShardIDs: gids(r, v), Measurement: gmeasurement(r, v)}
	}, func() rtMsg { return &coordinator.FieldDimensionsRequest{} }, func(m rtMsg) string {
		w := m.(*coordinator.FieldDimensionsRequest)
		return fmt.Sprintf("{ids=%s m=%s}", cids(w.ShardIDs), cmeas(&w.Measurement))
	})
	add("FieldDimensionsResponse", func(r *hx.Rand, v int) rtMsg {
		w := &coordinator.FieldDimensionsResponse{Err: gerr(r, v)}
		if v == 0 {
			return w
		}
		w.Fields = map[string]influxql.DataType{}
		w.Dimensions = map[string]struct{}{}
		for n := r.Intn(4); n > 0; n-- {
			w.Fields[ustr(r)] = influxql.DataType(r.Intn(10))
		}
		for n := r.Intn(4); n > 0; n-- {
			w.Dimensions[gstr(r)] = struct{}{}
		}
		return w
	}, func() rtMsg { return &coordinator.FieldDimensionsResponse{} }, func(m rtMsg) string {
		w := m.(*coordinator.FieldDimensionsResponse)
		ks := make([]string, 0, len(w.Fields))
		for k, t := range w.Fields {
			ks = append(ks, fmt.Sprintf("%q:%d", k, t))
		}
		sort.Strings(ks)
		return fmt.Sprintf("{fields=%v dims=%s err=%s}", ks, cset(w.Dimensions), cerr(w.Err))
	})
	add("MapTypeRequest", func(r *hx.Rand, v int) rtMsg {
		w := &coordinator.MapTypeRequest{ShardIDs: gids(r, v), Measurement: gmeasurement(r, v)}
		if v != 0 {
			w.Field = gstr(r)
		}
		return w
	}, func() rtMsg { return &coordinator.MapTypeRequest{} }, func(m rtMsg) string {
		w := m.(*coordinator.MapTypeRequest)
		return fmt.Sprintf("{ids=%s m=%s field=%q}", cids(w.ShardIDs), cmeas(&w.Measurement), w.Field)
	})
	add("MapTypeResponse", func(r *hx.Rand, v int) rtMsg {
		w := &coordinator.MapTypeResponse{Err: gerr(r, v)}
		if v != 0 {
			w.Type = influxql.DataType(r.Intn(10))
		}
		return w
	}, func() rtMsg { return &coordinator.MapTypeResponse{} }, func(m rtMsg) string {
		w := m.(*coordinator.MapTypeResponse)
		return fmt.Sprintf("{type=%d err=%s}", w.Type, cerr(w.Err))
	})
	add("ExpandSourcesRequest", func(r *hx.Rand, v int) rtMsg {
		return &coordinator.ExpandSourcesRequest{ShardIDs: gids(r, v), Sources: gsources(r, v)}
	}, func() rtMsg { return &coordinator.ExpandSourcesRequest{} }, func(m rtMsg) string {
		w := m.(*coordinator.ExpandSourcesRequest)
		return fmt.Sprintf("{ids=%s src=%s}", cids(w.ShardIDs), csources(w.Sources))
	})
	add("ExpandSourcesResponse", func(r *hx.Rand, v int) rtMsg {
		return &coordinator.ExpandSourcesResponse{Sources: gsources(r, v), Err: gerr(r, v)}
	}, func() rtMsg { return &coordinator.ExpandSourcesResponse{} }, func(m rtMsg) string {
		w := m.(*coordinator.ExpandSourcesResponse)
		return fmt.Sprintf("{src=%s err=%s}", csources(w.Sources), cerr(w.Err))
	})
	add("BackupShardRequest", func(r *hx.Rand, v int) rtMsg {
		return &coordinator.BackupShardRequest{ShardID: gu64(r, v), Since: gtime(r, v)}
	}, func() rtMsg { return &coordinator.BackupShardRequest{} }, func(m rtMsg) string {
		w := m.(*coordinator.BackupShardRequest)
		return fmt.Sprintf("{id=%d since=%d}", w.ShardID, w.Since.UnixNano())
	})
	add("CopyShardRequest", func(r *hx.Rand, v int) rtMsg {
		if v == 0 {
			return &coordinator.CopyShardRequest{}
		}
		return &coordinator.CopyShardRequest{Host: gstr(r), Database: gstr(r), Policy: gstr(r), ShardID: gu64(r, v), Since: gtime(r, v)}
	}, func() rtMsg { return &coordinator.CopyShardRequest{} }, func(m rtMsg) string {
		w := m.(*coordinator.CopyShardRequest)
		return fmt.Sprintf("{host=%q db=%q rp=%q id=%d since=%d}", w.Host, w.Database, w.Policy, w.ShardID, w.Since.UnixNano())
	})
	add("RemoveShardRequest", func(r *hx.Rand, v int) rtMsg { return &coordinator.RemoveShardRequest{ShardID: gu64(r, v)} },
		func() rtMsg { return &coordinator.RemoveShardRequest{} }, func(m rtMsg) string { return fmt.Sprint(m.(*coordinator.RemoveShardRequest).ShardID) })
	add("ListShardsResponse", func(r *hx.Rand, v int) rtMsg {
		w := &coordinator.ListShardsResponse{Err: gerr(r, v)}
		if v == 0 {
			return w
		}
		w.Shards = map[uint64]*meta.ShardOwnerInfo{}
		for n := r.Intn(4); n > 0; n-- {
			w.Shards[gu64(r, 3)] = &meta.ShardOwnerInfo{ID: gu64(r, 3), TCPAddr: ustr(r), State: []string{"hot", "cold", ""}[r.Intn(3)],
				LastModified: time.Unix(int64(r.Intn(1<<31)), int64(r.Intn(1000000000))).UTC(), Size: gi64(r, 3), Err: ustr(r)}
		}
		if r.Chance(20) {
			w.Shards[5] = nil
		}
		return w
	}, func() rtMsg { return &coordinator.ListShardsResponse{} }, func(m rtMsg) string {
		w := m.(*coordinator.ListShardsResponse)
		ks := make([]string, 0, len(w.Shards))
		for k, s := range w.Shards {
			if s == nil {
				ks = append(ks, fmt.Sprintf("%020d:nil", k))
			} else {
				ks = append(ks, fmt.Sprintf("%020d:{%d %q %q %d %d %q}", k, s.ID, s.TCPAddr, s.State, s.LastModified.UnixNano(), s.Size, s.Err))
			}
		}
		sort.Strings(ks)
		return fmt.Sprintf("{shards=%v err=%s}", ks, cerr(w.Err))
	})
	add("JoinClusterRequest", func(r *hx.Rand, v int) rtMsg {
		w := &coordinator.JoinClusterRequest{}
		if v == 0 {
			return w
		}
		w.Update = r.Bool()
		for n := r.Intn(4); n > 0; n-- {
			w.MetaServers = append(w.MetaServers, gstr(r))
		}
		return w
	}, func() rtMsg { return &coordinator.JoinClusterRequest{} }, func(m rtMsg) string {
		w := m.(*coordinator.JoinClusterRequest)
		return fmt.Sprintf("{servers=%s update=%v}", cstrs(w.MetaServers), w.Update)
	})
	add("JoinClusterResponse", func(r *hx.Rand, v int) rtMsg {
		w := &coordinator.JoinClusterResponse{Err: gerr(r, v)}
		if v != 0 && (v < 3 || r.Bool()) {
			w.Node = &meta.NodeInfo{ID: gu64(r, v), Addr: gstr(r), TCPAddr: gstr(r)}
		}
		return w
	}, func() rtMsg { return &coordinator.JoinClusterResponse{} }, func(m rtMsg) string {
		w := m.(*coordinator.JoinClusterResponse)
		n := "nil"
		if w.Node != nil {
			n = fmt.Sprintf("{%d %q %q}", w.Node.ID, w.Node.Addr, w.Node.TCPAddr)
		}
		return fmt.Sprintf("{node=%s err=%s}", n, cerr(w.Err))
	})
	add("RemoveHintedHandoffRequest", func(r *hx.Rand, v int) rtMsg { return &coordinator.RemoveHintedHandoffRequest{NodeID: gu64(r, v)} },
		func() rtMsg { return &coordinator.RemoveHintedHandoffRequest{} }, func(m rtMsg) string {
			return fmt.Sprint(m.(*coordinator.RemoveHintedHandoffRequest).NodeID)
		})
	return ts
}

var rpcTable = rpcTypes()

func rpcByName(n string) *rpcType {
	for i := range rpcTable {
		if rpcTable[i].name == n {
			return &rpcTable[i]
		}
	}
	return nil
}

// runRpc: cls "ok" (decoded = encoded), "lossy", "unmarshal-error", "panic", "unsendable"
// (the sender's MarshalBinary refuses the value: nothing travels).
func runRpc(o *hx.Out, d rpcDesc, origin string) {
	t := rpcByName(d.Name)
	if t == nil {
		return
	}
	o.Begin("rpc", d)
	cls, want, got := "ok", "", ""
	func() {
		defer func() {
			if e := recover(); e != nil {
				cls = fmt.Sprintf("panic: %v", e)
			}
		}()
		v := t.gen(hx.NewRand(d.Seed), d.Variant)
		want = t.canon(v)
		buf, err := v.MarshalBinary()
		if err != nil {
			cls = "unsendable"
			return
		}
		f := t.fresh()
		if err := f.UnmarshalBinary(buf); err != nil {
			cls = "unmarshal-error: " + err.Error()
			return
		}
		got = t.canon(f)
		if got != want {
			cls = "lossy"
		}
	}()
	d.Value = want
	ok := cls == "ok" || cls == "unsendable"
	o.Count("rpc:" + d.Name)
	if cls == "unsendable" {
		o.Count("rpc:unsendable")
	}
	obs := map[string]interface{}{"class": cls}
	if cls == "lossy" {
		obs["decoded"] = got
	}
	o.Emit(hx.Case{Kind: "rpc", Coq: fmt.Sprintf("CRpc %s %s", hx.CoqStr(d.Name), hx.CoqBool(ok)), Desc: d, Obs: obs,
		Nontrivial: d.Variant != 0 && cls == "ok", Sig: "rpc:" + d.Name + ":" + want, Origin: origin})
}
