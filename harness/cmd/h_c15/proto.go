// proto.go — part E of h_c15: every message type of coordinator/internal/data.proto against
// the generic protobuf model (coq/theories/C15/Proto.v).
//
//	kind pbschema: the field table of each registered message type as the linked binary
//	               sees it (reflection over the struct tags) — compared in Coq with the table
//	               genconsts re-read from data.pb.go's AST.
//	kind pbenc:    a generated value (nil / set / empty / large, nested) marshaled with the real
//	               proto.Marshal (what rpc.go calls): bytes and error flag are compared with the
//	               model's encode / complete (byte equality); the real proto.Unmarshal of those
//	               bytes is compared with the model's decode and, for the spec, with the value.
//	kind pbdec:    mutated / truncated / hand-built / random bytes into the real proto.Unmarshal:
//	               ok / error / panic class, the decoded value (unknown fields included) and its
//	               re-marshaling are compared with the model.
//
// The message types are found through gogo/protobuf's type registry by the names of
// data.proto (read from the module directory the harness was built against).
package main

import (
	"fmt"
	"os"
	"path/filepath"
	"reflect"
	"regexp"
	"runtime/debug"
	"sort"
	"strconv"
	"strings"

	"github.com/gogo/protobuf/proto"
	"verifharness/hx"
)

type pbField struct {
	num   int
	kind  int // as in tools/genconsts/c15.go
	label int
	sub   string
	idx   int // struct field index
}

type pbType struct {
	name   string
	typ    reflect.Type // struct type
	fields []pbField    // in field-number order
	unrec  int          // index of XXX_unrecognized
}

var pbTypes []*pbType
var pbByName = map[string]*pbType{}
var pbLoadErr string

func repoDir() string {
	if d := os.Getenv("VERIF_REPO"); d != "" {
		if _, err := os.Stat(filepath.Join(d, "coordinator", "internal", "data.proto")); err == nil {
			return d
		}
	}
	if bi, ok := debug.ReadBuildInfo(); ok {
		for _, d := range bi.Deps {
			if d.Path == "github.com/influxdata/influxdb" && d.Replace != nil {
				return d.Replace.Path
			}
		}
	}
	return "/repo"
}

func pbLoad() {
	raw, err := os.ReadFile(filepath.Join(repoDir(), "coordinator", "internal", "data.proto"))
	if err != nil {
		pbLoadErr = err.Error()
		return
	}
	src := regexp.MustCompile(`//[^\n]*`).ReplaceAllString(string(raw), "")
	pkg := "internal"
	if m := regexp.MustCompile(`package\s+(\w+)\s*;`).FindStringSubmatch(src); m != nil {
		pkg = m[1]
	}
	for _, m := range regexp.MustCompile(`message\s+(\w+)\s*\{`).FindAllStringSubmatch(src, -1) {
		t := proto.MessageType(pkg + "." + m[1])
		if t == nil {
			pbLoadErr += "message " + m[1] + " of data.proto is not registered; "
			continue
		}
		pt := pbReflect(m[1], t.Elem())
		pbTypes = append(pbTypes, pt)
		pbByName[m[1]] = pt
	}
}

func pbReflect(name string, st reflect.Type) *pbType {
	pt := &pbType{name: name, typ: st, unrec: -1}
	for i := 0; i < st.NumField(); i++ {
		f := st.Field(i)
		if f.Name == "XXX_unrecognized" {
			pt.unrec = i
		}
		if strings.HasPrefix(f.Name, "XXX_") {
			continue
		}
		tag := f.Tag.Get("protobuf")
		parts := strings.Split(tag, ",")
		fd := pbField{idx: i, kind: -1, label: -1}
		if len(parts) >= 3 {
			fd.num, _ = strconv.Atoi(parts[1])
			fd.label = map[string]int{"opt": 0, "req": 1, "rep": 2}[parts[2]]
			for _, x := range parts[3:] {
				if x == "packed" && fd.label == 2 {
					fd.label = 3
				}
			}
			t := f.Type
			isBytes := t.Kind() == reflect.Slice && t.Elem().Kind() == reflect.Uint8
			if t.Kind() == reflect.Slice && !isBytes {
				t = t.Elem()
				isBytes = t.Kind() == reflect.Slice && t.Elem().Kind() == reflect.Uint8
			}
			if t.Kind() == reflect.Ptr {
				t = t.Elem()
			}
			switch parts[0] {
			case "varint":
				switch {
				case t.Kind() == reflect.Uint64:
					fd.kind = 0
				case t.Kind() == reflect.Int64:
					fd.kind = 1
				case t.Kind() == reflect.Uint32:
					fd.kind = 2
				case t.Kind() == reflect.Int32 && t.Name() == "int32":
					fd.kind = 3
				case t.Kind() == reflect.Bool:
					fd.kind = 4
				case t.Kind() == reflect.Int32:
					fd.kind = 5
				}
			case "zigzag32":
				fd.kind = 6
			case "zigzag64":
				fd.kind = 7
			case "fixed64":
				fd.kind = 8
			case "fixed32":
				fd.kind = 9
			case "bytes":
				switch {
				case isBytes || t.Kind() == reflect.String:
					fd.kind = 10
				case t.Kind() == reflect.Struct:
					fd.kind = 11
					fd.sub = t.Name()
				}
			}
		}
		pt.fields = append(pt.fields, fd)
	}
	sort.SliceStable(pt.fields, func(i, j int) bool { return pt.fields[i].num < pt.fields[j].num })
	return pt
}

// ---- real struct <-> model value ----

// pbModel renders the message behind the struct value v as the Coq term (slots, unrec) and a
// canonical string.  nil and empty repeated slices are both the empty slot; a nil element of
// [][]byte is the empty byte string (gogo writes it as such).
func pbModel(pt *pbType, v reflect.Value) (coq string, canon string) {
	var slots, cs []string
	for _, f := range pt.fields {
		fv := v.Field(f.idx)
		var elems, ce []string
		one := func(e reflect.Value) {
			switch f.kind {
			case 0, 2, 8, 9:
				if e.Kind() == reflect.Float64 || e.Kind() == reflect.Float32 {
					panic("float fields are not supported by the harness")
				}
				if e.Kind() == reflect.Int64 || e.Kind() == reflect.Int32 {
					x := uint64(e.Int())
					if e.Kind() == reflect.Int32 {
						x = uint64(uint32(e.Int()))
					}
					elems = append(elems, fmt.Sprintf("VNum %d", x))
					ce = append(ce, fmt.Sprint(x))
					return
				}
				elems = append(elems, fmt.Sprintf("VNum %d", e.Uint()))
				ce = append(ce, fmt.Sprint(e.Uint()))
			case 1, 7:
				elems = append(elems, fmt.Sprintf("VNum %d", uint64(e.Int())))
				ce = append(ce, fmt.Sprint(e.Int()))
			case 3, 5, 6:
				elems = append(elems, fmt.Sprintf("VNum %d", uint32(e.Int())))
				ce = append(ce, fmt.Sprint(e.Int()))
			case 4:
				b := 0
				if e.Bool() {
					b = 1
				}
				elems = append(elems, fmt.Sprintf("VNum %d", b))
				ce = append(ce, fmt.Sprint(b))
			case 10:
				var bs []byte
				if e.Kind() == reflect.String {
					bs = []byte(e.String())
				} else {
					bs = e.Bytes()
				}
				elems = append(elems, "VBytes "+hx.CoqBytes(bs))
				ce = append(ce, fmt.Sprintf("%x", bs))
			case 11:
				sub := pbByName[f.sub]
				if sub == nil {
					sub = pbReflect(f.sub, e.Elem().Type())
				}
				c, s := pbModel(sub, e.Elem())
				elems = append(elems, "VMsg "+c)
				ce = append(ce, s)
			default:
				panic(fmt.Sprintf("%s: field %d: unsupported protobuf kind", pt.name, f.num))
			}
		}
		switch {
		case f.label >= 2:
			for i := 0; i < fv.Len(); i++ {
				e := fv.Index(i)
				if f.kind == 11 && e.IsNil() {
					panic("nil element in a repeated message field")
				}
				one(e)
			}
		case fv.Kind() == reflect.Ptr:
			if !fv.IsNil() {
				if f.kind == 11 {
					one(fv)
				} else {
					one(fv.Elem())
				}
			}
		case fv.Kind() == reflect.Slice: // []byte
			if !fv.IsNil() {
				one(fv)
			}
		default:
			panic(fmt.Sprintf("%s: field %d: non-nullable Go type", pt.name, f.num))
		}
		slots = append(slots, "["+strings.Join(elems, "; ")+"]")
		cs = append(cs, strings.Join(ce, ","))
	}
	var un []byte
	if pt.unrec >= 0 {
		un = v.Field(pt.unrec).Bytes()
	}
	// "(slots) (unrec)": rendered so that both "(a, b)" and "VMsg a b" can be formed
	return "([" + strings.Join(slots, "; ") + "]) (" + hx.CoqBytes(un) + ")", "{" + strings.Join(cs, "|") + fmt.Sprintf("|u=%x}", un)
}

func pbPair(pt *pbType, v reflect.Value) (string, string) {
	c, s := pbModel(pt, v)
	// c = "([..]) ([..])"  ->  "([..], [..])"
	i := strings.LastIndex(c, ") (")
	return c[:i] + ", " + c[i+3:], s
}

// ---- value generation ----

var pbStrings = []string{"", "a", "cpu", "db0", "autogen", "host = 'a'", "\x00", "\xff\xfe", "日本", "rp", "b", strings.Repeat("x", 127), strings.Repeat("y", 128)}
var pbU64 = []uint64{0, 1, 127, 128, 16383, 16384, 1<<32 - 1, 1 << 32, 1<<63 - 1, 1 << 63, 1<<64 - 1}

func pbGenScalar(r *hx.Rand, t reflect.Type, variant int) reflect.Value {
	v := reflect.New(t).Elem()
	ext := variant == 2 || (variant >= 4 && r.Bool())
	switch t.Kind() {
	case reflect.Uint64, reflect.Uint32:
		x := uint64(7)
		if ext {
			x = pbU64[r.Intn(len(pbU64))]
		} else if variant >= 4 {
			x = r.U64() >> uint(r.Intn(64))
		}
		v.SetUint(x)
		if t.Kind() == reflect.Uint32 {
			v.SetUint(uint64(uint32(x)))
		}
	case reflect.Int64, reflect.Int32:
		x := int64(-3)
		if ext {
			x = int64(pbU64[r.Intn(len(pbU64))])
		} else if variant >= 4 {
			x = int64(r.U64()) >> uint(r.Intn(64))
		} else if variant == 3 {
			x = 0
		}
		if t.Kind() == reflect.Int32 {
			x = int64(int32(x))
		}
		v.SetInt(x)
	case reflect.Bool:
		v.SetBool(variant != 3 && (variant < 4 || r.Bool()))
	case reflect.String:
		switch {
		case variant == 3:
			v.SetString("")
		case variant == 1:
			v.SetString("cpu")
		default:
			if r.Chance(20) {
				v.SetString(string(r.Bytes(r.Intn(20))))
			} else {
				v.SetString(pbStrings[r.Intn(len(pbStrings))])
			}
		}
	case reflect.Slice: // []byte
		switch {
		case variant == 3:
			v.SetBytes([]byte{})
		case variant == 1:
			v.SetBytes([]byte("b"))
		default:
			if r.Bool() {
				v.SetBytes(r.Bytes(r.Intn(12)))
			} else {
				v.SetBytes([]byte(pbStrings[r.Intn(len(pbStrings))]))
			}
		}
	default:
		panic("unsupported scalar type " + t.String())
	}
	return v
}

// variant 0: zero value (required fields nil: unsendable); 1: required fields only, small values;
// 2: everything set, extremes, long repeated fields; 3: everything set to empty / zero (non-nil
// empty []byte, "", 0, false, non-nil empty slices); >= 4: random.
func pbGen(r *hx.Rand, pt *pbType, variant int, depth int) reflect.Value {
	v := reflect.New(pt.typ).Elem()
	if variant == 0 {
		return v
	}
	for _, f := range pt.fields {
		fv := v.Field(f.idx)
		set := true
		switch {
		case variant == 1:
			set = f.label == 1
		case variant >= 4:
			set = f.label == 1 && !r.Chance(5) || f.label != 1 && r.Chance(65)
		}
		if !set {
			continue
		}
		t := fv.Type()
		switch {
		case f.label >= 2:
			n := 2
			switch {
			case variant == 2:
				n = 6
				if f.kind < 10 {
					n = 130 // a long list of numbers (two-byte length prefix when packed)
				}
			case variant == 3:
				n = 0
			case variant >= 4:
				n = r.Intn(5)
				if r.Chance(4) && f.kind < 10 {
					n = 130 + r.Intn(20)
				}
			}
			s := reflect.MakeSlice(t, 0, n)
			for i := 0; i < n; i++ {
				if f.kind == 11 {
					sub := pbByName[f.sub]
					e := reflect.New(sub.typ)
					e.Elem().Set(pbGen(r, sub, variant, depth+1))
					s = reflect.Append(s, e)
				} else {
					s = reflect.Append(s, pbGenScalar(r, t.Elem(), variant))
				}
			}
			fv.Set(s)
		case f.kind == 11:
			sub := pbByName[f.sub]
			e := reflect.New(sub.typ)
			sv := variant
			if variant >= 4 && r.Chance(15) {
				sv = 0 // a nested message with its required fields missing
			}
			e.Elem().Set(pbGen(r, sub, sv, depth+1))
			fv.Set(e)
		case t.Kind() == reflect.Ptr:
			e := reflect.New(t.Elem())
			e.Elem().Set(pbGenScalar(r, t.Elem(), variant))
			fv.Set(e)
		default: // []byte
			fv.Set(pbGenScalar(r, t, variant))
		}
	}
	return v
}

type pbDesc struct {
	Msg     string `json:"msg"`
	Variant int    `json:"variant"`
	Seed    uint64 `json:"seed"`
	Value   string `json:"value,omitempty"`
}

type pbDecDesc struct {
	Msg    string `json:"msg"`
	Stream []byte `json:"stream"`
	Label  string `json:"label,omitempty"`
}

func pbUnmarshal(pt *pbType, b []byte) (cls int, coq, canon string, re []byte, reErr bool) {
	func() {
		defer func() {
			if e := recover(); e != nil {
				cls = 2
				coq, canon = "([], [])", fmt.Sprintf("panic: %v", e)
			}
		}()
		m := reflect.New(pt.typ)
		if err := proto.Unmarshal(b, m.Interface().(proto.Message)); err != nil {
			cls = 1
			coq, canon = "([], [])", "error: "+err.Error()
			return
		}
		coq, canon = pbPair(pt, m.Elem())
		out, err := proto.Marshal(m.Interface().(proto.Message))
		re, reErr = out, err != nil
	}()
	return
}

func runPbEnc(o *hx.Out, d pbDesc, origin string) {
	pt := pbByName[d.Msg]
	if pt == nil {
		return
	}
	o.Begin("pbenc", d)
	v := pbGen(hx.NewRand(d.Seed), pt, d.Variant, 0)
	coq, canon := pbPair(pt, v)
	d.Value = canon
	m := reflect.New(pt.typ)
	m.Elem().Set(v)
	var rb []byte
	var merr error
	encPanic := ""
	func() {
		defer func() {
			if e := recover(); e != nil {
				encPanic = fmt.Sprint(e)
			}
		}()
		rb, merr = proto.Marshal(m.Interface().(proto.Message))
	}()
	cls, dcoq, dcanon, _, _ := pbUnmarshal(pt, rb)
	if encPanic != "" {
		cls, dcoq, dcanon = 2, "([], [])", "marshal panic: "+encPanic
	}
	o.Count("pbenc:" + d.Msg)
	o.Count(fmt.Sprintf("pbenc:variant%d", min(d.Variant, 4)))
	o.Count(fmt.Sprintf("pbenc:len<=%d", sizeBucket(len(rb))))
	if merr != nil {
		o.Count("pbenc:marshal-error")
	}
	o.Emit(hx.Case{Kind: "pbenc",
		Coq:  fmt.Sprintf("CPbEnc %s %s %s %s %d %s", hx.CoqStr(d.Msg), coq, hx.CoqBytes(rb), hx.CoqBool(merr != nil), cls, dcoq),
		Desc: d, Obs: map[string]interface{}{"bytes": fmt.Sprintf("%x", rb), "marshal_error": fmt.Sprint(merr), "class": cls, "decoded": dcanon},
		Nontrivial: d.Variant != 0 && len(rb) > 0, Sig: "pbenc:" + d.Msg + ":" + canon, Origin: origin})
}

func sizeBucket(n int) int {
	for _, b := range []int{0, 8, 64, 512, 4096} {
		if n <= b {
			return b
		}
	}
	return 1 << 20
}

func runPbDec(o *hx.Out, d pbDecDesc, origin string) {
	pt := pbByName[d.Msg]
	if pt == nil {
		return
	}
	o.Begin("pbdec", d)
	cls, coq, canon, re, reErr := pbUnmarshal(pt, d.Stream)
	o.Count("pbdec:" + d.Msg)
	o.Count(fmt.Sprintf("pbdec:class%d", cls))
	if d.Label != "" {
		o.Count("pbdec:" + strings.SplitN(d.Label, ":", 2)[0])
	}
	o.Emit(hx.Case{Kind: "pbdec",
		Coq:  fmt.Sprintf("CPbDec %s %s %d %s %s %s", hx.CoqStr(d.Msg), hx.CoqBytes(d.Stream), cls, coq, hx.CoqBytes(re), hx.CoqBool(reErr)),
		Desc: d, Obs: map[string]interface{}{"class": cls, "decoded": canon, "remarshal": fmt.Sprintf("%x", re)},
		Nontrivial: len(d.Stream) > 1, Sig: "pbdec:" + d.Msg + ":" + fmt.Sprintf("%x", d.Stream), Origin: origin})
}

func runPbSchema(o *hx.Out, origin string) {
	o.Begin("pbschema", map[string]string{})
	var rows []string
	for _, pt := range pbTypes {
		var fs []string
		for _, f := range pt.fields {
			fs = append(fs, fmt.Sprintf("(%d, %d, %d, %s)", f.num, f.kind+0, f.label, hx.CoqStr(f.sub)))
		}
		rows = append(rows, fmt.Sprintf("(%s, %s)", hx.CoqStr(pt.name), hx.CoqList(fs)))
	}
	if pbLoadErr != "" {
		rows = append(rows, fmt.Sprintf("(%s, [])", hx.CoqStr("load error: "+pbLoadErr)))
	}
	o.Emit(hx.Case{Kind: "pbschema", Coq: "CPbSchema " + hx.CoqList(rows), Desc: map[string]string{}, Obs: map[string]interface{}{"messages": len(pbTypes), "error": pbLoadErr},
		Nontrivial: len(pbTypes) > 0, Sig: "pbschema", Origin: origin})
}

// ---- byte-level builders for the malformed stream ----

func uv(x uint64) []byte { return proto.EncodeVarint(x) }
func tagb(num, wire int) []byte {
	return uv(uint64(num)<<3 | uint64(wire))
}
func cat(bs ...[]byte) []byte {
	var out []byte
	for _, b := range bs {
		out = append(out, b...)
	}
	return out
}

// a valid encoding of a random value of pt
func pbValid(r *hx.Rand, pt *pbType, variant int) []byte {
	m := reflect.New(pt.typ)
	m.Elem().Set(pbGen(r, pt, variant, 0))
	b, _ := proto.Marshal(m.Interface().(proto.Message))
	return b
}

// hand-built fragments that exercise every branch of the unmarshal loop for field f
func pbFragments(pt *pbType) [][2]interface{} {
	var out [][2]interface{}
	add := func(label string, b []byte) { out = append(out, [2]interface{}{label, b}) }
	add("empty", nil)
	add("tag0", []byte{0, 0})
	add("tag0-wire2", []byte{2, 0})
	add("eof-in-tag", []byte{0x80})
	add("overlong-tag", cat([]byte{0xff, 0xff, 0xff, 0xff, 0xff, 0xff, 0xff, 0xff, 0xff, 0x7f}, []byte{0}))
	add("tag-10th-byte-2", []byte{0x88, 0x80, 0x80, 0x80, 0x80, 0x80, 0x80, 0x80, 0x80, 0x02, 0})
	add("nonminimal-tag-unknown", cat([]byte{0xf8, 0x80, 0x00}, uv(5))) // field 15 varint, 3-byte tag
	add("unknown-varint", cat(tagb(99, 0), uv(1<<63)))
	add("unknown-fixed64", cat(tagb(99, 1), []byte{1, 2, 3, 4, 5, 6, 7, 8}))
	add("unknown-fixed64-short", cat(tagb(99, 1), []byte{1, 2, 3}))
	add("unknown-bytes", cat(tagb(99, 2), uv(3), []byte("abc")))
	add("unknown-bytes-short", cat(tagb(99, 2), uv(4), []byte("abc")))
	add("unknown-bytes-huge", cat(tagb(99, 2), uv(1<<64-1)))
	add("unknown-bytes-2^63", cat(tagb(99, 2), uv(1<<63), []byte("abc")))
	add("unknown-group", cat(tagb(99, 3), tagb(1, 0), uv(7), tagb(2, 3), tagb(2, 4), tagb(3, 2), uv(1), []byte{9}, tagb(3, 5), []byte{1, 2, 3, 4}, tagb(99, 4)))
	add("unknown-group-open", cat(tagb(99, 3), tagb(1, 0), uv(7)))
	add("unknown-group-bad-inner", cat(tagb(99, 3), tagb(1, 6), tagb(99, 4)))
	add("stray-endgroup", tagb(99, 4))
	add("unknown-fixed32", cat(tagb(99, 5), []byte{1, 2, 3, 4}))
	add("unknown-fixed32-short", cat(tagb(99, 5), []byte{1}))
	add("wire6", cat(tagb(99, 6), []byte{0}))
	add("wire7", cat(tagb(1, 7), []byte{0}))
	add("huge-field-number", cat(uv(1<<64-8), uv(1)))
	for _, f := range pt.fields {
		n := f.num
		add("known-wire0", cat(tagb(n, 0), uv(300)))
		add("known-wire0-max", cat(tagb(n, 0), uv(1<<64-1)))
		add("known-wire0-eof", cat(tagb(n, 0), []byte{0x80, 0x80}))
		add("known-wire1", cat(tagb(n, 1), []byte{1, 2, 3, 4, 5, 6, 7, 8}))
		add("known-wire2", cat(tagb(n, 2), uv(2), []byte{8, 1}))
		add("known-wire2-empty", cat(tagb(n, 2), uv(0)))
		add("known-wire2-short", cat(tagb(n, 2), uv(9), []byte{8, 1}))
		add("known-wire2-packed", cat(tagb(n, 2), uv(5), uv(1), uv(300), uv(1<<14)))
		add("known-wire2-packed-cut", cat(tagb(n, 2), uv(2), []byte{0x80, 0x80}))
		add("known-wire3", cat(tagb(n, 3), tagb(n, 4)))
		add("known-wire5", cat(tagb(n, 5), []byte{1, 2, 3, 4}))
		add("known-twice", cat(tagb(n, 0), uv(1), tagb(n, 0), uv(2), tagb(n, 2), uv(1), []byte("x"), tagb(n, 2), uv(1), []byte("y")))
		if f.kind == 11 {
			sub := pbByName[f.sub]
			if sub != nil && len(sub.fields) >= 2 {
				a, b := sub.fields[0], sub.fields[1]
				first := cat(tagb(a.num, 0), uv(5))
				second := cat(tagb(b.num, 0), uv(6), tagb(77, 0), uv(1))
				add("nested-merge", cat(tagb(n, 2), uv(uint64(len(first))), first, tagb(n, 2), uv(uint64(len(second))), second))
				add("nested-unknown-only", cat(tagb(n, 2), uv(2), tagb(77, 0), uv(1)))
				add("nested-bad", cat(tagb(n, 2), uv(2), []byte{0, 0}))
				add("nested-cut", cat(tagb(n, 2), uv(3), tagb(a.num, 0), []byte{0x80, 0x80}))
			}
		}
	}
	return out
}

func designedPb(o *hx.Out, thorough bool) {
	runPbSchema(o, "designed")
	seenShape := map[string]bool{}
	for _, pt := range pbTypes {
		for v := 0; v <= 3; v++ {
			runPbEnc(o, pbDesc{Msg: pt.name, Variant: v, Seed: uint64(v)}, "designed")
		}
		r := hx.NewRand(uint64(len(pt.name)) * 7919)
		valid := pbValid(r, pt, 4)
		small := pbValid(r, pt, 1)
		// the full fragment list once per distinct field layout (many responses share one);
		// a short list for the others
		shape := fmt.Sprint(pt.fields)
		full := !seenShape[shape] || thorough
		seenShape[shape] = true
		for i, fr := range pbFragments(pt) {
			label, b := fr[0].(string), fr[1].([]byte)
			if !full && !(label == "tag0" || label == "unknown-bytes" || label == "unknown-group" || label == "known-wire2-short" || label == "known-twice" || label == "wire6") {
				continue
			}
			// alone, after a valid minimal message, and (thorough) before one
			runPbDec(o, pbDecDesc{Msg: pt.name, Stream: b, Label: "frag:" + label}, "designed")
			if thorough || i%3 == 0 {
				runPbDec(o, pbDecDesc{Msg: pt.name, Stream: cat(small, b), Label: "valid+frag:" + label}, "designed")
			}
			if thorough {
				runPbDec(o, pbDecDesc{Msg: pt.name, Stream: cat(b, small), Label: "frag+valid:" + label}, "designed")
			}
		}
		// every truncation of a valid minimal message; some of a large one
		for i := 0; i < len(small); i++ {
			runPbDec(o, pbDecDesc{Msg: pt.name, Stream: small[:i], Label: "trunc:min"}, "designed")
		}
		step := 1 + len(valid)/6
		for i := 1; i < len(valid); i += step {
			runPbDec(o, pbDecDesc{Msg: pt.name, Stream: valid[:i], Label: "trunc:big"}, "designed")
		}
	}
}

func genPbDec(r *hx.Rand) pbDecDesc {
	pt := pbTypes[r.Intn(len(pbTypes))]
	switch r.Intn(6) {
	case 0: // random bytes
		return pbDecDesc{Msg: pt.name, Stream: r.Bytes(r.Intn(24)), Label: "random"}
	case 1: // a valid message of ANOTHER type
		other := pbTypes[r.Intn(len(pbTypes))]
		return pbDecDesc{Msg: pt.name, Stream: pbValid(r, other, 4+r.Intn(2)), Label: "othertype"}
	case 2: // concatenation of fragments
		frs := pbFragments(pt)
		var b []byte
		for n := 1 + r.Intn(3); n > 0; n-- {
			b = append(b, frs[r.Intn(len(frs))][1].([]byte)...)
		}
		if r.Bool() {
			b = cat(pbValid(r, pt, 1), b)
		}
		return pbDecDesc{Msg: pt.name, Stream: b, Label: "frags"}
	default: // mutate a valid message: flip, truncate, insert, duplicate a span
		b := pbValid(r, pt, 4)
		if len(b) == 0 {
			b = pbValid(r, pt, 2)
		}
		b = append([]byte(nil), b...)
		for n := 1 + r.Intn(3); n > 0 && len(b) > 0; n-- {
			i := r.Intn(len(b))
			switch r.Intn(5) {
			case 0:
				b[i] ^= 1 << uint(r.Intn(8))
			case 1:
				b = b[:i]
			case 2:
				b = cat(b[:i], []byte{byte(r.U64())}, b[i:])
			case 3:
				j := i + r.Intn(len(b)-i+1)
				b = cat(b[:j], b[i:j], b[j:])
			case 4:
				b[i] = []byte{0, 0x7f, 0x80, 0xff}[r.Intn(4)]
			}
		}
		return pbDecDesc{Msg: pt.name, Stream: b, Label: "mutated"}
	}
}
