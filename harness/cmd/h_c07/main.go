// h_c07: correspondence harness for C07 (snapshots of the cluster metadata, command
// validation).
//
// kind "snap": one schedule of the FSM goroutine on the real storeFSM: commands applied
// through storeFSM.Apply, Snapshot() (kind 0) and store.snapshot() (kind 1) calls at
// arbitrary points, FURTHER COMMANDS, then Persist / MarshalBinary of a handle taken
// earlier, Restore / UnmarshalBinary of the image into a fresh store and (kind 0) replay of
// the log entries after the snapshot.  Every handle not yet persisted is re-read after
// every later command.
//
// kind "raw": one byte string handed to validateCommand and to storeFSM.Apply (under
// recover), together with what gogo/protobuf makes of it (VerifEnvelope).
//
// kind "persistfault": one snapshot attempt (Snapshot, Persist, raft's Cancel/Close) against a
// sink with planted write / close faults, in memory and on a real raft.FileSnapshotStore; see
// persist.go.
//
// kind "soak" (thorough tier only): three real meta services (hashicorp/raft over loopback)
// with forced snapshots and restarts; see soak.go.
package main

import (
	"encoding/base64"
	"encoding/json"
	"fmt"
	"math"
	"sort"
	"strings"
	"time"

	"github.com/influxdata/influxdb/services/meta"
	"verifharness/hx"
)

// ---------- schedules ----------

type Ev struct {
	K    string `json:"k"` // "cmd" | "take" | "persist"
	Cmd  *Cmd   `json:"cmd,omitempty"`
	Kind int    `json:"kind,omitempty"` // take: 0 = storeFSM.Snapshot, 1 = store.snapshot()
	H    int    `json:"h,omitempty"`    // persist: index of the handle (order of the takes)
}

type SnapDesc struct {
	Auto bool `json:"auto"`
	Evs  []Ev `json:"evs"`
}

type handle struct {
	kind      int
	snap      *meta.VerifSnap
	pub       *meta.Data
	pos       int // commands applied when taken
	taken     string
	stampsT   [][2]int64
	wrapped   bool // some group of the value taken has a time outside the int64 nanosecond range
	stable    bool
	persisted bool
	changedBy string
	// filled by persist
	later    string
	image    []byte
	restored string
	stampsR  [][2]int64
	evIndex  int
}

func (h *handle) data() *meta.Data {
	if h.kind == 0 {
		return h.snap.Data()
	}
	return h.pub
}

func stamps(d *meta.Data) (out [][2]int64, wrapped bool) {
	for i := range d.Databases {
		for j := range d.Databases[i].RetentionPolicies {
			for _, g := range d.Databases[i].RetentionPolicies[j].ShardGroups {
				if !g.DeletedAt.IsZero() {
					out = append(out, [2]int64{int64(g.ID), g.DeletedAt.UnixNano()})
				}
				for _, t := range []time.Time{g.StartTime, g.EndTime, g.TruncatedAt} {
					if !t.IsZero() && !unixNanoBig(t).IsInt64() {
						wrapped = true
					}
				}
			}
		}
	}
	sort.Slice(out, func(a, b int) bool { return out[a][0] < out[b][0] })
	return
}

func coqStamps(s [][2]int64) string {
	var xs []string
	for _, p := range s {
		xs = append(xs, fmt.Sprintf("(%d, %s)", p[0], hx.CoqZ(p[1])))
	}
	return hx.CoqList(xs)
}

func canonOf(d *meta.Data) string { return coqData(d, true) }

type handleObs struct {
	Kind      int    `json:"kind"`
	Pos       int    `json:"pos"`
	Stable    bool   `json:"stable"`
	LaterSame bool   `json:"later_same"`
	Restored  bool   `json:"restored_same"`
	StampsOK  bool   `json:"stamps_same"`
	Converged bool   `json:"converged"`
	OK        bool   `json:"ok"`
	Wrapped   bool   `json:"wrapped"`
	ChangedBy string `json:"changed_by,omitempty"`
}

func applyCmd(f *meta.VerifFSM, c Cmd) (cls uint64, pruned []uint64) {
	return applyOne(f, c, c.AgeA || c.AgeB)
}

func runSnap(o *hx.Out, d SnapDesc, origin string) {
	o.Begin("snap", d)
	f := meta.NewVerifFSM(d.Auto)
	var cmds []Cmd
	var hs []*handle
	terms := make([]string, len(d.Evs))
	changedAfterTake := false
	groups := 0
	prev := stripStamp(f.Data())
	for ei, ev := range d.Evs {
		switch ev.K {
		case "cmd":
			c := *ev.Cmd
			gBefore := len(allGroupIDs(f.Data()))
			cls, pruned := applyCmd(f, c)
			cmds = append(cmds, c)
			terms[ei] = fmt.Sprintf("EvApply %d %d (%s) %s %d", c.Idx, c.Term, coqCmd(c), hx.CoqNList(pruned), cls)
			o.Count("cmd:" + c.K)
			o.Count(fmt.Sprintf("err:%d", cls))
			if len(allGroupIDs(f.Data())) > gBefore {
				groups++
			}
			cur := stripStamp(f.Data())
			if cur != prev && len(hs) > 0 {
				changedAfterTake = true
			}
			prev = cur
			// every handle still held is re-read
			for _, h := range hs {
				if !h.persisted && h.stable && coqData(h.data(), false) != h.taken {
					h.stable = false
					h.changedBy = c.K
				}
			}
		case "take":
			h := &handle{kind: ev.Kind, pos: len(cmds), stable: true}
			if ev.Kind == 0 {
				s, err := f.Snapshot()
				if err != nil {
					panic(err)
				}
				h.snap = s
			} else {
				p, err := f.Publish()
				if err != nil {
					panic(err)
				}
				h.pub = p
			}
			h.taken = coqData(h.data(), false)
			h.stampsT, h.wrapped = stamps(h.data())
			hs = append(hs, h)
			terms[ei] = fmt.Sprintf("EvTake %d (%s) %s", ev.Kind, h.taken, coqStamps(h.stampsT))
			o.Count(fmt.Sprintf("take:kind%d", ev.Kind))
		case "persist":
			if ev.H < 0 || ev.H >= len(hs) || hs[ev.H].persisted {
				terms[ei] = ""
				continue
			}
			h := hs[ev.H]
			h.persisted = true
			h.evIndex = ei
			h.later = coqData(h.data(), false)
			var err error
			if h.kind == 0 {
				h.image, err = h.snap.Persist()
			} else {
				h.image, err = h.pub.MarshalBinary()
			}
			if err != nil {
				panic(err)
			}
			var rd *meta.Data
			if h.kind == 0 {
				g := meta.NewVerifFSM(d.Auto)
				if err := g.Restore(h.image); err != nil {
					panic(err)
				}
				rd = g.Data()
			} else {
				rd = &meta.Data{}
				if err := rd.UnmarshalBinary(h.image); err != nil {
					panic(err)
				}
			}
			h.restored = coqData(rd, false)
			h.stampsR, _ = stamps(rd)
			o.Count(fmt.Sprintf("persist:after-%s-more-commands", bucket(len(cmds)-h.pos)))
		default:
			panic("unknown event kind " + ev.K)
		}
	}
	final := coqData(f.Data(), false)
	finalCanon := canonOf(f.Data())

	// replay: snapshot image + the rest of the log, in a fresh store
	var obs []handleObs
	allOK := true
	for _, h := range hs {
		if !h.persisted {
			continue
		}
		ho := handleObs{Kind: h.kind, Pos: h.pos, Stable: h.stable, LaterSame: h.later == h.taken, Restored: h.restored == h.taken,
			StampsOK: coqStamps(h.stampsR) == coqStamps(h.stampsT), Converged: true, Wrapped: h.wrapped, ChangedBy: h.changedBy}
		rp := "None"
		if h.kind == 0 {
			g := meta.NewVerifFSM(d.Auto)
			if err := g.Restore(h.image); err != nil {
				panic(err)
			}
			var orcs []string
			for _, c := range cmds[h.pos:] {
				_, pruned := applyCmd(g, c)
				orcs = append(orcs, hx.CoqNList(pruned))
			}
			ho.Converged = canonOf(g.Data()) == finalCanon
			rp = fmt.Sprintf("(Some (%s, %s))", hx.CoqList(orcs), coqData(g.Data(), false))
			o.Count(fmt.Sprintf("replay:%s-commands", bucket(len(cmds)-h.pos)))
		}
		ho.OK = ho.Stable && ho.LaterSame && ho.Restored && ho.StampsOK && ho.Converged
		if !ho.OK {
			allOK = false
		}
		obs = append(obs, ho)
		idx := 0
		for k, x := range hs {
			if x == h {
				idx = k
			}
		}
		terms[h.evIndex] = fmt.Sprintf("EvPersist %d (%s) %s (%s) %s %s", idx, h.later, hx.CoqBool(h.stable), h.restored, coqStamps(h.stampsR), rp)
	}
	var ts []string
	for _, t := range terms {
		if t != "" {
			ts = append(ts, t)
		}
	}
	coq := fmt.Sprintf("CSnap %s %s (%s)", hx.CoqBool(d.Auto), hx.CoqList(ts), final)
	js, _ := json.Marshal(d)
	o.Count("loglen:" + bucket(len(cmds)))
	if !allOK {
		o.Count("harness-saw-spec-failure")
	}
	o.Emit(hx.Case{Kind: "snap", Coq: coq, Desc: d,
		Obs:        map[string]interface{}{"handles": obs, "final_canon": finalCanon},
		Nontrivial: len(obs) > 0 && changedAfterTake && groups > 0, Sig: fmt.Sprintf("snap:%x", hashBytes(js)), Origin: origin})
}

func bucket(n int) string {
	switch {
	case n == 0:
		return "0"
	case n < 5:
		return "1-4"
	case n < 20:
		return "5-19"
	case n < 60:
		return "20-59"
	}
	return "60+"
}

func stripStamp(d *meta.Data) string {
	c := *d
	c.Term, c.Index = 0, 0
	return coqData(&c, false)
}

func genSnap(o *hx.Out, r *hx.Rand, n int) {
	g := &gen{r: r, base: 1600000000000000000 + int64(r.Intn(1000))*int64(time.Hour)}
	d := SnapDesc{Auto: r.Chance(70)}
	// the generator needs the current metadata: run a shadow store alongside
	shadow := meta.NewVerifFSM(d.Auto)
	idx, term := uint64(1), uint64(1)
	ncmd, ntaken := 0, 0
	var open []int // handles not yet persisted
	add := func(c Cmd) {
		cc := c
		d.Evs = append(d.Evs, Ev{K: "cmd", Cmd: &cc})
		applyCmd(shadow, c)
		ncmd++
	}
	nextIdx := func() {
		idx += 1 + uint64(r.Intn(3))*uint64(r.Intn(2))
		if r.Chance(3) {
			term++
		}
	}
	take := func() {
		d.Evs = append(d.Evs, Ev{K: "take", Kind: r.Intn(2)})
		open = append(open, ntaken)
		ntaken++
	}
	persist := func() {
		if len(open) == 0 {
			return
		}
		k := r.Intn(len(open))
		d.Evs = append(d.Evs, Ev{K: "persist", H: open[k]})
		open = append(open[:k], open[k+1:]...)
	}
	if r.Chance(10) {
		take() // snapshot of the empty store
	}
	if r.Chance(85) {
		for k := 1 + r.Intn(4); k > 0; k-- {
			nextIdx()
			h := r.Intn(6)
			add(Cmd{K: "CreateDataNode", Idx: idx, Term: term, S: []string{httpPool[h], hostPool[h]}})
			if r.Chance(15) {
				take()
			}
		}
		nextIdx()
		add(Cmd{K: "CreateDatabase", Idx: idx, Term: term, S: []string{"db0"}})
		nextIdx()
		add(Cmd{K: "CreateRetentionPolicy", Idx: idx, Term: term, S: []string{"db0", "rp0"}, U: []uint64{uint64(1 + r.Intn(3))},
			I: []int64{0, []int64{0, int64(time.Hour), int64(24 * time.Hour), int64(90 * time.Minute)}[r.Intn(4)]}, B: []bool{r.Bool()}})
	}
	// lists that the FSM edits in place: several subscriptions, users, policies, CQs
	if len(d.Evs) > 0 && r.Chance(60) {
		for k, nsub := 0, 2+r.Intn(3); k < nsub; k++ {
			nextIdx()
			add(Cmd{K: "CreateSubscription", Idx: idx, Term: term, S: []string{"db0", "rp0", fmt.Sprintf("s%d", k), "ALL", destPool[k%3]}})
		}
		for k, nu := 0, r.Intn(4); k < nu; k++ {
			nextIdx()
			add(Cmd{K: "CreateUser", Idx: idx, Term: term, S: []string{[]string{"alice", "bob", "root", "carol"}[k], "h1"}, B: []bool{k == 2}})
		}
		if r.Chance(50) {
			nextIdx()
			add(Cmd{K: "CreateRetentionPolicy", Idx: idx, Term: term, S: []string{"db0", "rp1"}, U: []uint64{1}, I: []int64{0, int64(24 * time.Hour)}, B: []bool{false}})
			nextIdx()
			add(Cmd{K: "CreateContinuousQuery", Idx: idx, Term: term, S: []string{"db0", "cq0", queryPool[0]}})
			nextIdx()
			add(Cmd{K: "CreateContinuousQuery", Idx: idx, Term: term, S: []string{"db0", "cq1", queryPool[2]}})
		}
	}
	// a command that edits, in place, a list the value just taken also reaches
	afterTake := func() (Cmd, bool) {
		sd := shadow.Data()
		c := Cmd{Idx: idx, Term: term}
		var cands []Cmd
		for i := range sd.Databases {
			db := &sd.Databases[i]
			for j := range db.RetentionPolicies {
				rp := &db.RetentionPolicies[j]
				for k, sub := range rp.Subscriptions {
					if k < len(rp.Subscriptions)-1 || r.Chance(30) {
						cands = append(cands, Cmd{K: "DropSubscription", S: []string{db.Name, rp.Name, sub.Name}})
					}
				}
				cands = append(cands, Cmd{K: "CreateSubscription", S: []string{db.Name, rp.Name, fmt.Sprintf("n%d", r.Intn(4)), "ANY", destPool[r.Intn(3)]}})
				if j < len(db.RetentionPolicies)-1 {
					cands = append(cands, Cmd{K: "DropRetentionPolicy", S: []string{db.Name, rp.Name}})
				}
				for _, sg := range rp.ShardGroups {
					if len(sg.Shards) > 0 {
						cands = append(cands, Cmd{K: "DropShard", U: []uint64{sg.Shards[0].ID}})
						if len(sg.Shards[0].Owners) > 0 {
							cands = append(cands, Cmd{K: "RemoveShardOwner", U: []uint64{sg.Shards[0].ID, sg.Shards[0].Owners[0].NodeID}})
						}
					}
				}
			}
			for k, cq := range db.ContinuousQueries {
				if k < len(db.ContinuousQueries)-1 {
					cands = append(cands, Cmd{K: "DropContinuousQuery", S: []string{db.Name, cq.Name}})
				}
			}
			if i < len(sd.Databases)-1 {
				cands = append(cands, Cmd{K: "DropDatabase", S: []string{db.Name}})
			}
		}
		for k, u := range sd.Users {
			if k < len(sd.Users)-1 {
				cands = append(cands, Cmd{K: "DropUser", S: []string{u.Name}})
			}
			cands = append(cands, Cmd{K: "UpdateUser", S: []string{u.Name, "h9"}})
			cands = append(cands, Cmd{K: "SetAdminPrivilege", S: []string{u.Name}, B: []bool{!u.Admin}})
			if len(sd.Databases) > 0 {
				cands = append(cands, Cmd{K: "SetPrivilege", S: []string{u.Name, sd.Databases[0].Name}, I: []int64{int64(1 + r.Intn(3))}})
			}
		}
		if len(cands) == 0 {
			return c, false
		}
		x := cands[r.Intn(len(cands))]
		x.Idx, x.Term = idx, term
		return x, true
	}
	for ncmd < n {
		switch w := r.Intn(100); {
		case w < 12 && ntaken < 5:
			take()
			// in-place mutations right after a take are what aliasing would corrupt
			if r.Chance(35) {
				nextIdx()
				c := g.next(shadow.Data(), idx, term)
				for tries := 0; tries < 20 && c.K != "CreateDataNode" && c.K != "UpdateDataNode" && c.K != "SetMetaNode" && c.K != "CreateMetaNode" && c.K != "DeleteDataNode"; tries++ {
					c = g.next(shadow.Data(), idx, term)
				}
				add(c)
			} else if r.Chance(70) {
				for k := 1 + r.Intn(3); k > 0; k-- {
					nextIdx()
					if c, ok := afterTake(); ok {
						add(c)
					}
				}
			}
		case w < 20:
			persist()
		default:
			nextIdx()
			add(g.next(shadow.Data(), idx, term))
		}
	}
	for len(open) > 0 {
		persist()
	}
	runSnap(o, d, "gen")
}

// ---------- raw command bytes ----------

type RawDesc struct {
	B     string `json:"b"` // base64 of the bytes
	Shape string `json:"shape,omitempty"`
}

func baseStore() *meta.VerifFSM {
	f := meta.NewVerifFSM(true)
	i := uint64(1)
	for _, c := range []Cmd{
		{K: "CreateDataNode", S: []string{"h1:8086", "h1:8088"}}, {K: "CreateDataNode", S: []string{"h2:8086", "h2:8088"}},
		{K: "CreateMetaNode", S: []string{"h1:8091", "h1:8089"}, U: []uint64{7}},
		{K: "CreateDatabase", S: []string{"db0"}}, {K: "CreateRetentionPolicy", S: []string{"db0", "rp0"}, U: []uint64{1}, I: []int64{0, int64(time.Hour)}, B: []bool{true}},
		{K: "CreateShardGroup", S: []string{"db0", "rp0"}, I: []int64{1600000000000000000}},
		{K: "CreateUser", S: []string{"alice", "h1"}, B: []bool{true}},
	} {
		i++
		c.Idx, c.Term = i, 1
		if v := f.Apply(c.Idx, c.Term, encode(c)); v != nil {
			panic(fmt.Sprint("base store: ", v))
		}
	}
	return f
}

func runRaw(o *hx.Out, d RawDesc, origin string) {
	o.Begin("raw", d)
	b, err := base64.StdEncoding.DecodeString(d.B)
	if err != nil {
		panic(err)
	}
	ok, typ, fields, status := meta.VerifEnvelope(b)
	var exts []string
	nOK, nBad := 0, 0
	for k, f := range fields {
		if status[k] != 0 {
			exts = append(exts, fmt.Sprintf("(%d, %d)", f, status[k]))
			if status[k] == 2 {
				nOK++
			} else {
				nBad++
			}
		}
	}
	accepted := meta.VerifValidateCommand(b) == nil
	crashed := false
	var res string
	func() {
		defer func() {
			if e := recover(); e != nil {
				crashed = true
				res = fmt.Sprint("panic: ", e)
				if len(res) > 120 {
					res = res[:120]
				}
			}
		}()
		f := baseStore()
		v := f.Apply(100, 1, b)
		res = fmt.Sprint(v)
	}()
	o.Count("raw:shape:" + d.Shape)
	o.Count(fmt.Sprintf("raw:accepted=%v,crashed=%v", accepted, crashed))
	coq := fmt.Sprintf("CRaw %s %s %s %s %s", hx.CoqBool(ok), hx.CoqZ(int64(typ)), hx.CoqList(exts), hx.CoqBool(accepted), hx.CoqBool(crashed))
	o.Emit(hx.Case{Kind: "raw", Coq: coq, Desc: d,
		Obs:        map[string]interface{}{"unmarshal_ok": ok, "type": typ, "ext_ok": nOK, "ext_bad": nBad, "accepted": accepted, "crashed": crashed, "apply": res},
		Nontrivial: ok, Sig: "raw:" + d.B, Origin: origin})
}

// sample body (the extension message) for every command type
func sampleBody(t uint64, r *hx.Rand) []byte {
	var m pb
	switch t {
	case 1: // CreateNodeCommand{Host, Rand}
		m.s(1, "h7:8088")
		m.u(2, 5)
		return m.b
	case 2: // DeleteNodeCommand{ID, Force}
		m.u(1, 1)
		m.bool(2, false)
		return m.b
	case 7: // SetDefaultRetentionPolicyCommand{Database, Name}
		m.s(1, "db0")
		m.s(2, "rp0")
		return m.b
	case 17: // SetDataCommand{Data}
		d := &meta.Data{Index: 3, MaxNodeID: 9}
		bs, _ := d.MarshalBinary()
		m.bytes(1, bs)
		return m.b
	case 19: // UpdateNodeCommand{ID, Host}
		m.u(1, 1)
		m.s(2, "h1:8088")
		return m.b
	}
	for k, n := range typeNo {
		if n == t {
			c := sampleCmd(k)
			full := encode(c) // envelope; strip it: field 1 varint, field 100+t bytes
			return stripEnvelope(full)
		}
	}
	return nil
}

func stripEnvelope(b []byte) []byte {
	// 0x08 <type varint> <key varint> <len varint> body
	i := 1
	for b[i]&0x80 != 0 {
		i++
	}
	i++
	for b[i]&0x80 != 0 {
		i++
	}
	i++
	for b[i]&0x80 != 0 {
		i++
	}
	i++
	return b[i:]
}

func sampleCmd(k string) Cmd {
	c := Cmd{K: k}
	switch k {
	case "RemovePeer":
		c.S = []string{"h1:8089"}
	case "CreateDatabase", "DropDatabase":
		c.S = []string{"db1"}
	case "CreateRetentionPolicy":
		c.S = []string{"db0", "rp1"}
		c.U = []uint64{1}
		c.I = []int64{0, int64(time.Hour)}
	case "DropRetentionPolicy":
		c.S = []string{"db0", "rp0"}
	case "UpdateRetentionPolicy":
		c.S = []string{"db0", "rp0", "rp9"}
		c.B = []bool{false, true, false, false, false}
		c.I = []int64{int64(48 * time.Hour), 0}
	case "CreateShardGroup":
		c.S = []string{"db0", "rp0"}
		c.I = []int64{1600007200000000000}
	case "DeleteShardGroup":
		c.S = []string{"db0", "rp0"}
		c.U = []uint64{1}
	case "CreateContinuousQuery":
		c.S = []string{"db0", "cq0", "SELECT mean(v) INTO a FROM b GROUP BY time(1m)"}
	case "DropContinuousQuery":
		c.S = []string{"db0", "cq0"}
	case "CreateSubscription":
		c.S = []string{"db0", "rp0", "s0", "ALL", "udp://h1:9000"}
	case "DropSubscription":
		c.S = []string{"db0", "rp0", "s0"}
	case "CreateUser":
		c.S = []string{"bob", "h2"}
	case "DropUser":
		c.S = []string{"alice"}
	case "UpdateUser":
		c.S = []string{"alice", "h3"}
	case "SetPrivilege":
		c.S = []string{"alice", "db0"}
		c.I = []int64{3}
	case "SetAdminPrivilege":
		c.S = []string{"alice"}
	case "CreateMetaNode", "SetMetaNode":
		c.S = []string{"h2:8091", "h2:8089"}
		c.U = []uint64{3}
	case "DeleteMetaNode", "DeleteDataNode", "DropShard":
		c.U = []uint64{1}
	case "CreateDataNode":
		c.S = []string{"h3:8086", "h3:8088"}
	case "UpdateDataNode":
		c.U = []uint64{1}
		c.S = []string{"h9:8086", "h9:8088"}
	case "TruncateShardGroups":
		c.I = []int64{1600000100000000000}
	case "CopyShardOwner", "RemoveShardOwner":
		c.U = []uint64{1, 2}
	}
	return c
}

func envelope(t int64, parts ...func(*pb)) []byte {
	var cm pb
	cm.i(1, t)
	for _, p := range parts {
		p(&cm)
	}
	return cm.b
}

func extBytes(field uint64, body []byte) func(*pb) {
	return func(p *pb) { p.bytes(int(field), body) }
}

var allTypes = []uint64{1, 2, 3, 4, 5, 6, 7, 8, 9, 10, 11, 12, 13, 14, 15, 16, 17, 18, 19, 21, 22, 23, 24, 25, 26, 27, 28, 29, 30, 31, 32, 33, 34}

func designedRaw(o *hx.Out, r *hx.Rand) {
	emit := func(shape string, b []byte) {
		runRaw(o, RawDesc{B: base64.StdEncoding.EncodeToString(b), Shape: shape}, "designed")
	}
	for _, t := range allTypes {
		body := sampleBody(t, r)
		valid := envelope(int64(t), extBytes(100+t, body))
		emit("valid", valid)
		emit("no-extension", envelope(int64(t)))
		other := allTypes[(int(t)*7+3)%len(allTypes)]
		if other == t {
			other = 3
		}
		emit("wrong-extension", envelope(int64(t), extBytes(100+other, sampleBody(other, r))))
		emit("own-and-other-extension", envelope(int64(t), extBytes(100+other, sampleBody(other, r)), extBytes(100+t, body)))
		emit("empty-extension-body", envelope(int64(t), extBytes(100+t, nil)))
		if len(body) > 1 {
			emit("extension-body-cut", envelope(int64(t), extBytes(100+t, body[:len(body)-1])))
			emit("extension-body-garbage", envelope(int64(t), extBytes(100+t, []byte{0xff, 0xff, 0xff, 0x01})))
		}
		emit("extension-as-varint", envelope(int64(t), func(p *pb) { p.u(int(100+t), 5) }))
		emit("truncated", valid[:len(valid)-1])
		emit("truncated-half", valid[:len(valid)/2])
		emit("extension-before-type", func() []byte {
			var cm pb
			cm.bytes(int(100+t), body)
			cm.i(1, int64(t))
			return cm.b
		}())
		emit("type-twice", func() []byte {
			var cm pb
			cm.i(1, 99)
			cm.bytes(int(100+t), body)
			cm.i(1, int64(t))
			return cm.b
		}())
	}
	for _, t := range []int64{0, 20, 35, 36, 99, 127, 128, 1 << 20, math.MaxInt32, -1, math.MinInt32, 1 << 40} {
		emit("unknown-type", envelope(t))
		emit("unknown-type-with-extension", envelope(t, extBytes(103, sampleBody(3, r))))
	}
	emit("empty", nil)
	emit("only-extension", func() []byte { var cm pb; cm.bytes(103, sampleBody(3, r)); return cm.b }())
	emit("garbage", []byte{0xff, 0xff, 0xff})
	emit("garbage", []byte{0x08})
	emit("garbage", []byte{0x0a, 0x05, 0x01})
	emit("unknown-field", func() []byte { var cm pb; cm.i(1, 3); cm.bytes(103, sampleBody(3, r)); cm.bytes(9, []byte("zz")); return cm.b }())
}

func genRaw(o *hx.Out, r *hx.Rand) {
	t := allTypes[r.Intn(len(allTypes))]
	body := sampleBody(t, r)
	valid := envelope(int64(t), extBytes(100+t, body))
	var b []byte
	shape := ""
	switch r.Intn(8) {
	case 0:
		shape = "random-bytes"
		b = r.Bytes(r.Intn(24))
	case 1:
		shape = "valid-byte-flipped"
		b = append([]byte(nil), valid...)
		b[r.Intn(len(b))] ^= byte(1 << uint(r.Intn(8)))
	case 2:
		shape = "valid-cut"
		b = valid[:r.Intn(len(valid)+1)]
	case 3:
		shape = "random-type-random-extension"
		b = envelope(int64(r.Intn(40)), extBytes(uint64(100+r.Intn(40)), sampleBody(allTypes[r.Intn(len(allTypes))], r)))
	case 4:
		shape = "body-byte-flipped"
		bb := append([]byte(nil), body...)
		if len(bb) > 0 {
			bb[r.Intn(len(bb))] ^= byte(1 << uint(r.Intn(8)))
		}
		b = envelope(int64(t), extBytes(100+t, bb))
	case 5:
		shape = "body-random"
		b = envelope(int64(t), extBytes(100+t, r.Bytes(r.Intn(12))))
	case 6:
		shape = "valid-plus-trailing"
		b = append(append([]byte(nil), valid...), r.Bytes(1+r.Intn(4))...)
	default:
		shape = "two-extensions"
		t2 := allTypes[r.Intn(len(allTypes))]
		b = envelope(int64(t), extBytes(100+t2, sampleBody(t2, r)), extBytes(100+t, body))
	}
	runRaw(o, RawDesc{B: base64.StdEncoding.EncodeToString(b), Shape: shape}, "gen")
}

// ---------- main ----------

func main() {
	f := hx.ParseFlags()
	o := hx.NewOut(f.OutDir)
	defer o.Close()
	if f.In != "" {
		for _, in := range hx.ReadInputs(f.In) {
			switch in.Kind {
			case "snap":
				var d SnapDesc
				if err := json.Unmarshal(in.Desc, &d); err != nil {
					panic(err)
				}
				runSnap(o, d, "replay")
			case "raw":
				var d RawDesc
				if err := json.Unmarshal(in.Desc, &d); err != nil {
					panic(err)
				}
				runRaw(o, d, "replay")
			case "member":
				var d MemberDesc
				if err := json.Unmarshal(in.Desc, &d); err != nil {
					panic(err)
				}
				runMembers(o, []MemberDesc{d}, "replay")
			case "persistfault":
				var d PFDesc
				if err := json.Unmarshal(in.Desc, &d); err != nil {
					panic(err)
				}
				runPersistFault(o, d, "replay")
			case "soak":
				var d SoakDesc
				if err := json.Unmarshal(in.Desc, &d); err != nil {
					panic(err)
				}
				runSoak(o, d, "replay")
			default:
				panic("unknown input kind " + in.Kind)
			}
		}
		return
	}
	r := hx.NewRand(f.Seed)
	designedRaw(o, r.Split())
	// snapshot attempts under planted write / close faults (persist.go)
	rpf := r.Split()
	designedPersistFault(o)
	for i := 0; i < f.N/4; i++ {
		genPersistFault(o, rpf.Split())
	}
	// real meta services: join / remove / leave + re-join (monitor, both tiers)
	runMembers(o, memberScenarios(0), "designed")
	if f.Tier == "thorough" {
		runMembers(o, memberScenarios(4), "designed")
	}
	nSnap := f.N * 6 / 10
	for i := 0; i < nSnap; i++ {
		n := 8 + r.Intn(40)
		if f.Tier == "thorough" && i%10 == 0 {
			n = 100 + r.Intn(120)
		}
		genSnap(o, r.Split(), n)
	}
	for i := nSnap; i < f.N; i++ {
		genRaw(o, r.Split())
	}
	rs := r.Split()
	// same watchdog as for the membership scenarios: stopping real meta services can hang
	soakDone := make(chan struct{})
	rsoak := rs.Split()
	go func() { shortSoak(o, rsoak); close(soakDone) }()
	select {
	case <-soakDone:
	case <-time.After(240 * time.Second):
		o.Count("soak:inconclusive:watchdog")
		if f.Tier != "thorough" {
			return // nothing else follows in the quick tier; the unfinished goroutine ends with the process
		}
	}
	if f.Tier == "thorough" {
		for i := 0; i < 3; i++ {
			genSoak(o, rs.Split())
		}
	}
	_ = strings.Join
}
