// kind "persistfault": one snapshot attempt of the metadata FSM under planted write faults.
//
// The REAL storeFSM.Snapshot() is taken after the commands Cmds (optionally further commands
// After are applied), then the REAL storeFSMSnapshot.Persist runs against a meta.VerifSnapshotSink
// in which faults are planted (the k-th Write call takes only some bytes and fails; the
// finalisation in Close fails), and the harness does what (*raft.Raft).takeSnapshot does next:
// sink.Cancel() if Persist returned an error, sink.Close() otherwise.
//
// The sink is faultSink (records every call, plants the faults) in front of either
//   - store "mem":  memSink, an in-memory sink with FileSnapshotSink's protocol (the first of
//     Close / Cancel decides; Close commits), or
//   - store "file": a sink of a REAL raft.FileSnapshotStore in a temp directory (the store
//     services/meta/raft_state.go opens, same retain count), optionally already holding a good
//     snapshot of an earlier state; commitment is what List() shows, the bytes what Open() reads:
//     what a restart of the meta node would find.
//
// Observed: the calls at the sink, what Persist returned, committed right after Persist / after
// the epilogue, the bytes of the new snapshot, what storeFSM.Restore makes of them in a fresh
// store, which snapshot the store lists as newest.
package main

import (
	"bytes"
	"errors"
	"fmt"
	"io"
	"os"
	"strconv"
	"strings"
	"time"

	"github.com/influxdata/influxdb/services/meta"
	"verifharness/hx"
)

type PFDesc struct {
	Auto      bool     `json:"auto"`
	Cmds      []Cmd    `json:"cmds"`                 // applied before Snapshot()
	After     []Cmd    `json:"after,omitempty"`      // applied between Snapshot() and Persist
	W         []string `json:"w,omitempty"`          // per Write call: "" = ok, else the number of bytes taken before the error: "0","1","half","len-1","len","len+1" or a decimal
	CloseFail bool     `json:"close_fail,omitempty"` // the finalisation in Close fails
	Store     string   `json:"store"`                // "mem" | "file"
	Prior     bool     `json:"prior,omitempty"`      // file: a good snapshot taken after the first half of Cmds is already in the store
}

var errInjected = errors.New("injected fault: no space left on device")
var errSinkClosed = errors.New("write on a closed snapshot sink")

// memSink: the protocol of raft.FileSnapshotSink in memory.
type memSink struct {
	buf       []byte
	closed    bool
	committed bool
}

func (m *memSink) ID() string { return "mem" }
func (m *memSink) Write(p []byte) (int, error) {
	if m.closed {
		return 0, errSinkClosed
	}
	m.buf = append(m.buf, p...)
	return len(p), nil
}
func (m *memSink) Close() error {
	if m.closed {
		return nil
	}
	m.closed = true
	m.committed = true
	return nil
}
func (m *memSink) Cancel() error {
	if m.closed {
		return nil
	}
	m.closed = true
	return nil
}

// faultSink records the calls made at a sink and plants faults in front of it.
type faultSink struct {
	inner     meta.VerifSnapshotSink
	w         []string
	closeFail bool
	done      bool // Close or Cancel has been called: the inner sink is no longer open
	nWrite    int
	offered   []byte   // all Write arguments
	faults    []string // resolved write faults, as Coq option N, per Write call made
	trace     []string // Coq terms of type call
	desc      []string // the same, readable
}

func resolveFault(s string, n int) (int, bool) {
	switch s {
	case "", "none":
		return 0, false
	case "half":
		return n / 2, true
	case "len-1":
		if n == 0 {
			return 0, true
		}
		return n - 1, true
	case "len":
		return n, true
	case "len+1":
		return n + 1, true
	}
	k, err := strconv.Atoi(s)
	if err != nil || k < 0 {
		panic("bad write fault " + s)
	}
	return k, true
}

func (s *faultSink) ID() string { return s.inner.ID() }

func (s *faultSink) Write(p []byte) (int, error) {
	s.offered = append(s.offered, p...)
	spec := ""
	if s.nWrite < len(s.w) {
		spec = s.w[s.nWrite]
	}
	s.nWrite++
	if s.done {
		// the state file is closed
		s.faults = append(s.faults, "None")
		s.trace = append(s.trace, fmt.Sprintf("KWrite %d 0 true", len(p)))
		s.desc = append(s.desc, fmt.Sprintf("Write(%d)=0,closed", len(p)))
		return 0, errSinkClosed
	}
	if k, faulty := resolveFault(spec, len(p)); faulty {
		s.faults = append(s.faults, fmt.Sprintf("Some %d", k))
		n := k
		if n > len(p) {
			n = len(p)
		}
		if n > 0 {
			if m, err := s.inner.Write(p[:n]); err != nil || m != n {
				panic(fmt.Sprint("inner sink refused bytes: ", m, err))
			}
		}
		s.trace = append(s.trace, fmt.Sprintf("KWrite %d %d true", len(p), n))
		s.desc = append(s.desc, fmt.Sprintf("Write(%d)=%d,err", len(p), n))
		return n, errInjected
	}
	s.faults = append(s.faults, "None")
	n, err := s.inner.Write(p)
	s.trace = append(s.trace, fmt.Sprintf("KWrite %d %d %s", len(p), n, hx.CoqBool(err != nil)))
	s.desc = append(s.desc, fmt.Sprintf("Write(%d)=%d,%v", len(p), n, err != nil))
	return n, err
}

func (s *faultSink) Close() error {
	if !s.done && s.closeFail {
		// FileSnapshotSink.Close with a failing finalize(): closed = true, the temporary
		// directory is removed, the error returned
		s.done = true
		s.inner.Cancel()
		s.trace = append(s.trace, "KClose true")
		s.desc = append(s.desc, "Close()=err")
		return errInjected
	}
	s.done = true
	err := s.inner.Close()
	s.trace = append(s.trace, "KClose "+hx.CoqBool(err != nil))
	s.desc = append(s.desc, fmt.Sprintf("Close()=%v", err != nil))
	return err
}

func (s *faultSink) Cancel() error {
	s.done = true
	err := s.inner.Cancel()
	s.trace = append(s.trace, "KCancel")
	s.desc = append(s.desc, "Cancel()")
	return err
}

func coqOptRestored(ok bool, dump string, st [][2]int64) string {
	if !ok {
		return "None"
	}
	return fmt.Sprintf("(Some (%s, %s))", dump, coqStamps(st))
}

func runPersistFault(o *hx.Out, d PFDesc, origin string) {
	o.Begin("persistfault", d)
	f := meta.NewVerifFSM(d.Auto)

	if d.Store != "file" && d.Store != "mem" {
		panic("unknown store " + d.Store)
	}
	dir, err := os.MkdirTemp("", "h_c07_pf")
	if err != nil {
		panic(err)
	}
	defer os.RemoveAll(dir)
	snaps, err := meta.VerifNewFileSnapshotStore(dir) // raft.NewFileSnapshotStore as raftState.open calls it
	if err != nil {
		panic(err)
	}
	create := func(index, term uint64) meta.VerifSnapshotSink {
		sink, err := meta.VerifCreateSink(snaps, index, term)
		if err != nil {
			panic(err)
		}
		return sink
	}

	// the state; a good snapshot of an earlier state goes into the store first
	prior := d.Prior && d.Store == "file"
	var priorID string
	var priorImage []byte
	var priorIndex uint64
	for i, c := range d.Cmds {
		if prior && i == len(d.Cmds)/2 {
			priorIndex = f.Data().Index
			priorID, priorImage = goodSnapshot(f, create(priorIndex, f.Data().Term))
		}
		applyCmd(f, c)
		o.Count("pf:cmd:" + c.K)
	}
	if prior && priorID == "" {
		priorIndex = f.Data().Index
		priorID, priorImage = goodSnapshot(f, create(priorIndex, f.Data().Term))
	}

	snap, err := f.Snapshot()
	if err != nil {
		panic(err)
	}
	taken := coqData(snap.Data(), false)
	stampsT, _ := stamps(snap.Data())
	index, term := f.Data().Index, f.Data().Term
	if prior && index <= priorIndex {
		index = priorIndex + 1
	}
	for _, c := range d.After {
		applyCmd(f, c)
	}

	var mem *memSink
	var inner meta.VerifSnapshotSink
	if d.Store == "file" {
		if prior {
			time.Sleep(2 * time.Millisecond) // snapshot names carry the millisecond
		}
		inner = create(index, term)
	} else {
		mem = &memSink{}
		inner = mem
	}
	sink := &faultSink{inner: inner, w: d.W, closeFail: d.CloseFail}
	id := inner.ID()

	isCommitted := func() bool {
		if mem != nil {
			return mem.committed
		}
		ms, err := snaps.List()
		if err != nil {
			panic(err)
		}
		for _, m := range ms {
			if m.ID == id {
				return true
			}
		}
		return false
	}

	// the real Persist, then what raft's takeSnapshot does with its result
	perr := snap.PersistTo(sink)
	c1 := isCommitted()
	if perr != nil {
		sink.Cancel()
	} else {
		sink.Close()
	}
	snap.Release()
	c2 := isCommitted()

	// what a restart finds
	var held []byte
	newest := 0
	openErr := ""
	if mem != nil {
		held = mem.buf
		if c2 {
			newest = 2
		}
	} else {
		ms, err := snaps.List()
		if err != nil {
			panic(err)
		}
		read := func(id string) ([]byte, error) {
			_, rc, err := snaps.Open(id)
			if err != nil {
				return nil, err
			}
			defer rc.Close()
			return io.ReadAll(rc)
		}
		if c1 || c2 {
			b, err := read(id)
			if err != nil {
				openErr = err.Error()
			}
			held = b
		}
		switch {
		case len(ms) == 0:
			newest = 0
		case ms[0].ID == id:
			newest = 2
		case prior && ms[0].ID == priorID:
			newest = 3
			if b, err := read(priorID); err == nil && bytes.Equal(b, priorImage) {
				newest = 1
			}
		default:
			newest = 3
		}
	}
	restoredOK := false
	restored := ""
	var stampsR [][2]int64
	restoreErr := ""
	if c1 || c2 {
		g := meta.NewVerifFSM(d.Auto)
		func() {
			defer func() {
				if e := recover(); e != nil {
					restoreErr = fmt.Sprint("panic: ", e)
				}
			}()
			if err := g.Restore(held); err != nil {
				restoreErr = err.Error()
				return
			}
			restoredOK = true
		}()
		if restoredOK {
			restored = coqData(g.Data(), false)
			stampsR, _ = stamps(g.Data())
		}
	}

	// the faults planted, as the model's oracle: one entry per Write call made, then the rest of W
	faults := append([]string(nil), sink.faults...)
	for i := len(faults); i < len(d.W); i++ {
		if k, faulty := resolveFault(d.W[i], len(sink.offered)); faulty {
			faults = append(faults, fmt.Sprintf("Some %d", k))
		} else {
			faults = append(faults, "None")
		}
	}
	store := 0
	if d.Store == "file" {
		store = 1
	}
	coq := fmt.Sprintf("CPersist %d %s %s %s %s %s %s %s %s %s (%s) %s %s %d", store, hx.CoqBool(prior), hx.CoqList(faults), hx.CoqBool(d.CloseFail),
		hx.CoqBytes(sink.offered), hx.CoqList(sink.trace), hx.CoqBool(perr != nil), hx.CoqBool(c1), hx.CoqBool(c2), hx.CoqBytes(held),
		taken, coqStamps(stampsT), coqOptRestored(restoredOK, restored, stampsR), newest)

	fired := false
	for _, t := range sink.trace {
		if strings.HasSuffix(t, " true") {
			fired = true
		}
	}
	fk := "none"
	if len(d.W) > 0 && d.W[0] != "" && d.W[0] != "none" {
		fk = d.W[0]
		if _, err := strconv.Atoi(fk); err == nil && fk != "0" && fk != "1" {
			fk = "k"
		}
	}
	o.Count("pf:store:" + d.Store)
	o.Count("pf:write-fault:" + fk)
	o.Count(fmt.Sprintf("pf:close-fault:%v", d.CloseFail))
	o.Count(fmt.Sprintf("pf:prior:%v", prior))
	o.Count("pf:image-bytes:" + bucketBytes(len(sink.offered)))
	o.Count(fmt.Sprintf("pf:after-cmds:%s", bucket(len(d.After))))
	o.Count(fmt.Sprintf("pf:err=%v,committed=%v", perr != nil, c2))
	js := fmt.Sprintf("%v|%v|%v|%v|%v|%v|%v", d.Auto, d.Cmds, d.After, d.W, d.CloseFail, d.Store, d.Prior)
	o.Emit(hx.Case{Kind: "persistfault", Coq: coq, Desc: d,
		Obs: map[string]interface{}{"calls": sink.desc, "persist_err": perr != nil, "committed_after_persist": c1, "committed": c2,
			"image_bytes": len(sink.offered), "held_bytes": len(held), "held_is_image": bytes.Equal(held, sink.offered),
			"restore_err": restoreErr, "restored_same": restoredOK && restored == taken, "open_err": openErr, "newest": newest, "fault_fired": fired},
		Nontrivial: fired && len(sink.offered) > 8, Sig: fmt.Sprintf("pf:%x", hashBytes([]byte(js))), Origin: origin})
}

// goodSnapshot persists the current state, without faults, through the real Snapshot/Persist
// and raft's Close; returns the snapshot's ID and bytes.
func goodSnapshot(f *meta.VerifFSM, sink meta.VerifSnapshotSink) (string, []byte) {
	snap, err := f.Snapshot()
	if err != nil {
		panic(err)
	}
	rec := &faultSink{inner: sink}
	if err := snap.PersistTo(rec); err != nil {
		panic(err)
	}
	if err := rec.Close(); err != nil {
		panic(err)
	}
	snap.Release()
	return sink.ID(), rec.offered
}

func bucketBytes(n int) string {
	switch {
	case n < 64:
		return "<64"
	case n < 512:
		return "64-511"
	case n < 4096:
		return "512-4095"
	}
	return "4096+ (beyond the sink's write buffer)"
}

// ---------- designed and generated inputs ----------

func pfStates() [][]Cmd {
	mk := func(cs ...Cmd) []Cmd {
		for i := range cs {
			cs[i].Idx, cs[i].Term = uint64(i+2), 1
		}
		return cs
	}
	h := int64(time.Hour)
	base := mk(
		Cmd{K: "CreateDataNode", S: []string{"h1:8086", "h1:8088"}}, Cmd{K: "CreateDataNode", S: []string{"h2:8086", "h2:8088"}},
		Cmd{K: "CreateMetaNode", S: []string{"h1:8091", "h1:8089"}, U: []uint64{7}},
		Cmd{K: "CreateDatabase", S: []string{"db0"}},
		Cmd{K: "CreateRetentionPolicy", S: []string{"db0", "rp0"}, U: []uint64{1}, I: []int64{0, h}, B: []bool{true}},
		Cmd{K: "CreateShardGroup", S: []string{"db0", "rp0"}, I: []int64{1600000000000000000}},
		Cmd{K: "CreateUser", S: []string{"alice", "h1"}, B: []bool{true}})
	rich := mk(
		Cmd{K: "CreateDataNode", S: []string{"h1:8086", "h1:8088"}}, Cmd{K: "CreateDataNode", S: []string{"h2:8086", "h2:8088"}},
		Cmd{K: "CreateDataNode", S: []string{"h3:8086", "h3:8088"}},
		Cmd{K: "CreateMetaNode", S: []string{"h1:8091", "h1:8089"}, U: []uint64{7}},
		Cmd{K: "CreateDatabase", S: []string{"db0"}}, Cmd{K: "CreateDatabase", S: []string{"db1"}}, Cmd{K: "CreateDatabase", S: []string{"db2"}},
		Cmd{K: "CreateRetentionPolicy", S: []string{"db0", "rp0"}, U: []uint64{2}, I: []int64{0, h}, B: []bool{true}},
		Cmd{K: "CreateRetentionPolicy", S: []string{"db1", "week"}, U: []uint64{1}, I: []int64{7 * 24 * h, 24 * h}, B: []bool{false}},
		Cmd{K: "CreateSubscription", S: []string{"db0", "rp0", "s0", "ALL", "udp://h1:9000"}},
		Cmd{K: "CreateSubscription", S: []string{"db0", "rp0", "s1", "ANY", "http://h2:9001"}},
		Cmd{K: "CreateContinuousQuery", S: []string{"db0", "cq0", queryPool[0]}},
		Cmd{K: "CreateUser", S: []string{"alice", "h1"}, B: []bool{true}}, Cmd{K: "CreateUser", S: []string{"bob", "h2"}, B: []bool{false}},
		Cmd{K: "SetPrivilege", S: []string{"bob", "db0"}, I: []int64{1}}, Cmd{K: "SetPrivilege", S: []string{"bob", "db1"}, I: []int64{3}},
		Cmd{K: "CreateShardGroup", S: []string{"db0", "rp0"}, I: []int64{1600000000000000000}},
		Cmd{K: "CreateShardGroup", S: []string{"db0", "rp0"}, I: []int64{1600003600000000000}},
		Cmd{K: "CreateShardGroup", S: []string{"db0", "rp0"}, I: []int64{1600007200000000000}},
		Cmd{K: "TruncateShardGroups", I: []int64{1600004000000000000}},
		Cmd{K: "DeleteShardGroup", S: []string{"db0", "rp0"}, U: []uint64{1}},
		Cmd{K: "CreateShardGroup", S: []string{"db1", "week"}, I: []int64{-5}},
		Cmd{K: "DeleteDataNode", U: []uint64{2}})
	// beyond FileSnapshotSink's 4096-byte write buffer
	big := append([]Cmd(nil), base...)
	for i := 0; i < 170; i++ {
		big = append(big, Cmd{K: "CreateShardGroup", S: []string{"db0", "rp0"}, I: []int64{1600000000000000000 + int64(i+1)*h}})
	}
	big = mk(big...)
	return [][]Cmd{nil, base, rich, big}
}

func designedPersistFault(o *hx.Out) {
	states := pfStates()
	after := []Cmd{{K: "CreateDatabase", Idx: 200, Term: 2, S: []string{"later"}}, {K: "DropUser", Idx: 201, Term: 2, S: []string{"nobody"}}}
	for si, cmds := range states {
		for _, store := range []string{"mem", "file"} {
			for _, cf := range []bool{false, true} {
				for _, w := range []string{"", "0", "1", "half", "len-1", "len", "len+1"} {
					d := PFDesc{Auto: true, Cmds: cmds, CloseFail: cf, Store: store}
					if w != "" {
						d.W = []string{w}
					}
					if store == "file" && si > 0 && (w == "half" || w == "" || w == "len") {
						d.Prior = true
					}
					if si == 2 && (w == "half" || w == "") {
						d.After = after
					}
					runPersistFault(o, d, "designed")
				}
			}
		}
		// a fault planted for a second Write call never fires: the snapshot must be taken
		runPersistFault(o, PFDesc{Auto: true, Cmds: cmds, W: []string{"", "0"}, Store: "mem"}, "designed")
	}
}

func genPersistFault(o *hx.Out, r *hx.Rand) {
	g := &gen{r: r, base: 1600000000000000000 + int64(r.Intn(1000))*int64(time.Hour)}
	d := PFDesc{Auto: r.Chance(70), Store: "mem"}
	if r.Chance(25) {
		d.Store = "file"
		d.Prior = r.Chance(60)
	}
	shadow := meta.NewVerifFSM(d.Auto)
	idx, term := uint64(1), uint64(1)
	next := func() {
		idx += 1 + uint64(r.Intn(3))*uint64(r.Intn(2))
		if r.Chance(3) {
			term++
		}
	}
	add := func(dst *[]Cmd, c Cmd) {
		*dst = append(*dst, c)
		applyCmd(shadow, c)
	}
	if r.Chance(85) {
		for k := 1 + r.Intn(4); k > 0; k-- {
			next()
			h := r.Intn(6)
			add(&d.Cmds, Cmd{K: "CreateDataNode", Idx: idx, Term: term, S: []string{httpPool[h], hostPool[h]}})
		}
		next()
		add(&d.Cmds, Cmd{K: "CreateDatabase", Idx: idx, Term: term, S: []string{"db0"}})
		next()
		add(&d.Cmds, Cmd{K: "CreateRetentionPolicy", Idx: idx, Term: term, S: []string{"db0", "rp0"}, U: []uint64{uint64(1 + r.Intn(3))},
			I: []int64{0, []int64{0, int64(time.Hour), int64(24 * time.Hour), int64(90 * time.Minute)}[r.Intn(4)]}, B: []bool{r.Bool()}})
	}
	n := r.Intn(40)
	if r.Chance(10) {
		n = 80 + r.Intn(80)
	}
	for k := 0; k < n; k++ {
		next()
		add(&d.Cmds, g.next(shadow.Data(), idx, term))
	}
	if r.Chance(30) {
		for k := 1 + r.Intn(4); k > 0; k-- {
			next()
			add(&d.After, g.next(shadow.Data(), idx, term))
		}
	}
	switch r.Intn(10) {
	case 0:
		// no write fault
	case 1:
		d.W = []string{"0"}
	case 2:
		d.W = []string{"1"}
	case 3:
		d.W = []string{"len-1"}
	case 4:
		d.W = []string{"len"}
	case 5:
		d.W = []string{"half"}
	case 6:
		d.W = []string{"", strconv.Itoa(r.Intn(8))} // second Write call: never made
	default:
		d.W = []string{strconv.Itoa(r.Intn(1 + r.Intn(3000)))}
	}
	d.CloseFail = r.Chance(25)
	runPersistFault(o, d, "gen")
}
