// h_c07 (part): membership scenarios on real meta services, run in BOTH tiers.
// A small fixed set of schedules (join 1->2, remove the follower of a 2-node and of a 3-node
// cluster through the leader's /remove endpoint, /leave followed by a re-join), each with a
// few acknowledged commands before and after every membership change.
// MONITOR, not a theorem: raft membership (store.join / store.remove / store.leave /
// store.reset) is outside the hypothesis RaftLog.  Observable: after every step no surviving
// node's Index went backwards and its ClusterID did not change; at the end every
// acknowledged database is in every surviving node's metadata, and that metadata equals the
// model applied, from the metadata of the formed cluster, to the acknowledged commands
// (including the CreateMetaNode / DeleteMetaNode commands that join and remove propose).
// A scenario that cannot be judged (cluster does not settle in time and nothing regressed,
// ambiguous HTTP outcome) is counted as inconclusive and emits nothing.
package main

import (
	"encoding/json"
	"fmt"
	"io"
	"net/http"
	"net/url"
	"os"
	"time"

	"github.com/influxdata/influxdb/services/meta"
	"verifharness/hx"
)

type MemberOp struct {
	Op   string `json:"op"` // "form" | "join" | "cmd" | "remove" | "leave"
	Node int    `json:"node,omitempty"`
	Cmd  *Cmd   `json:"cmd,omitempty"`
}

type MemberDesc struct {
	Name  string     `json:"name"`
	Nodes int        `json:"nodes"`
	Ops   []MemberOp `json:"ops"`
}

type memberResult struct {
	c     *hx.Case
	stats []string
}

func postForm(addr, path string, form url.Values, want int, timeout time.Duration) error {
	cl := &http.Client{Timeout: 30 * time.Second, Transport: &http.Transport{DisableKeepAlives: true}}
	end := time.Now().Add(timeout)
	var last error
	for {
		resp, err := cl.PostForm("http://"+addr+path, form)
		if err == nil {
			body, _ := io.ReadAll(resp.Body)
			resp.Body.Close()
			if resp.StatusCode == want {
				return nil
			}
			err = fmt.Errorf("%s: %s", resp.Status, body)
		}
		last = err
		if time.Now().After(end) {
			return last
		}
		time.Sleep(250 * time.Millisecond)
	}
}

func runMemberScenario(d MemberDesc, origin string) (res memberResult) {
	count := func(k string) { res.stats = append(res.stats, k) }
	ns := make([]*soakNode, d.Nodes)
	member := make([]bool, d.Nodes)
	defer func() {
		for _, n := range ns {
			if n != nil {
				n.stop()
				os.RemoveAll(n.cfg.Dir)
			}
		}
	}()
	for i := range ns {
		c := meta.NewConfig()
		c.BindAddress = freePort()
		c.HTTPBindAddress = freePort()
		dir, err := os.MkdirTemp("", "h_c07_member")
		if err != nil {
			panic(err)
		}
		c.Dir = dir
		c.LoggingEnabled = false
		ns[i] = &soakNode{cfg: c}
		if err := ns[i].start(); err != nil {
			count("member:inconclusive:listen")
			return
		}
	}
	members := func() []*soakNode {
		var out []*soakNode
		for i, n := range ns {
			if member[i] {
				out = append(out, n)
			}
		}
		return out
	}
	// up: HTTP endpoint answers
	for _, n := range ns {
		ok := waitFor(20*time.Second, func() bool {
			resp, err := http.Get("http://" + n.cfg.HTTPBindAddress + "/status")
			if err != nil {
				return false
			}
			resp.Body.Close()
			return resp.StatusCode == http.StatusOK
		})
		if !ok {
			count("member:inconclusive:start")
			return
		}
	}

	type seen struct {
		index   uint64
		cluster uint64
	}
	watch := map[int]*seen{}
	regressed := ""
	observe := func() {
		for i, n := range ns {
			if !member[i] {
				continue
			}
			dd := n.data()
			if dd == nil {
				continue
			}
			w := watch[i]
			if w == nil {
				watch[i] = &seen{index: dd.Index, cluster: dd.ClusterID}
				continue
			}
			if dd.Index < w.index && regressed == "" {
				regressed = fmt.Sprintf("node %d: index %d -> %d", i, w.index, dd.Index)
			}
			if w.cluster != 0 && dd.ClusterID != w.cluster && regressed == "" {
				regressed = fmt.Sprintf("node %d: cluster id %d -> %d", i, w.cluster, dd.ClusterID)
			}
			if dd.Index > w.index {
				w.index = dd.Index
			}
			if w.cluster == 0 {
				w.cluster = dd.ClusterID
			}
		}
	}
	settle := func(t time.Duration) bool {
		ok := waitFor(t, func() bool { observe(); return regressed != "" || settled(members()) })
		return ok && regressed == ""
	}
	leaderOf := func() *soakNode {
		var l *soakNode
		waitFor(15*time.Second, func() bool {
			for _, n := range members() {
				func() {
					defer func() { recover() }()
					if n.svc.VerifIsLeader() {
						l = n
					}
				}()
			}
			return l != nil
		})
		return l
	}

	var s0 string
	var steps []soakStep
	var acked []string
	faults := 0
	inconclusive := ""
loop:
	for _, op := range d.Ops {
		switch op.Op {
		case "form": // node 0 bootstraps a one-node cluster by joining itself
			a := ns[0].cfg.HTTPBindAddress
			if err := postForm(a, "/join", url.Values{"addr": {a}}, http.StatusOK, 30*time.Second); err != nil {
				inconclusive = "form"
				break loop
			}
			member[0] = true
			if !settle(30 * time.Second) {
				inconclusive = "form-settle"
				break loop
			}
			s0 = coqData(ns[0].data(), false)
		case "join":
			l := leaderOf()
			if l == nil {
				inconclusive = "no-leader"
				break loop
			}
			n := ns[op.Node]
			if err := postForm(l.cfg.HTTPBindAddress, "/join", url.Values{"addr": {n.cfg.HTTPBindAddress}}, http.StatusOK, 30*time.Second); err != nil {
				inconclusive = "join"
				break loop
			}
			member[op.Node] = true
			delete(watch, op.Node)
			if !settle(40 * time.Second) {
				if regressed == "" {
					inconclusive = "join-settle"
				}
				break loop
			}
			dd := l.data()
			steps = append(steps, soakStep{Cmd: Cmd{K: "CreateMetaNode", S: []string{n.cfg.HTTPBindAddress, n.cfg.BindAddress}, U: []uint64{0}}, Index: dd.Index})
			count("member:join")
		case "cmd":
			es, idx, ok, definite := post(members(), encode(*op.Cmd))
			observe()
			if regressed != "" {
				break loop
			}
			if !definite || !ok {
				inconclusive = "command"
				break loop
			}
			steps = append(steps, soakStep{Cmd: *op.Cmd, Index: idx, Err: es})
			if op.Cmd.K == "CreateDatabase" && es == "" {
				acked = append(acked, op.Cmd.S[0])
			}
			count("member:cmd:" + op.Cmd.K)
		case "remove", "leave":
			if !settle(30 * time.Second) {
				if regressed == "" {
					inconclusive = "settle-before-" + op.Op
				}
				break loop
			}
			l := leaderOf()
			if l == nil {
				inconclusive = "no-leader"
				break loop
			}
			n := ns[op.Node]
			if n == l {
				inconclusive = "target-is-leader" // the scenarios remove followers
				break loop
			}
			var id uint64
			for _, mn := range l.data().MetaNodes {
				if mn.Addr == n.cfg.HTTPBindAddress {
					id = mn.ID
				}
			}
			size := len(members())
			var err error
			if op.Op == "remove" {
				err = postForm(l.cfg.HTTPBindAddress, "/remove", url.Values{"httpAddr": {n.cfg.HTTPBindAddress}}, http.StatusNoContent, 20*time.Second)
			} else {
				err = postForm(n.cfg.HTTPBindAddress, "/leave", nil, http.StatusNoContent, 30*time.Second)
			}
			member[op.Node] = false
			delete(watch, op.Node)
			if op.Op == "remove" {
				n.stop() // a removed node keeps its stale copy; it is no longer part of the cluster
			}
			faults++
			count(fmt.Sprintf("member:%s-follower-of-%d", op.Op, size))
			observe()
			if regressed != "" {
				break loop
			}
			if err != nil {
				inconclusive = op.Op
				break loop
			}
			if !settle(40 * time.Second) {
				if regressed == "" {
					inconclusive = op.Op + "-settle"
				}
				break loop
			}
			steps = append(steps, soakStep{Cmd: Cmd{K: "DeleteMetaNode", U: []uint64{id}}, Index: leaderOf().data().Index})
		default:
			panic("unknown membership op " + op.Op)
		}
	}
	if inconclusive == "" && regressed == "" && !settle(40*time.Second) && regressed == "" {
		inconclusive = "final-settle"
	}
	if inconclusive != "" && regressed == "" {
		count("member:inconclusive:" + inconclusive)
		return
	}
	if s0 == "" {
		count("member:inconclusive:no-initial-state")
		return
	}
	var finals []string
	var term, last uint64
	for _, n := range members() {
		dd := n.data()
		if dd == nil {
			count("member:inconclusive:node-down-at-end")
			return
		}
		if term == 0 {
			term = dd.Term
		}
		finals = append(finals, "("+coqData(dd, false)+")")
	}
	var ss, as []string
	for _, st := range steps {
		ss = append(ss, fmt.Sprintf("(%d, %d, %s)", st.Index, term, coqCmd(st.Cmd)))
		if st.Index > last {
			last = st.Index
		}
	}
	for _, a := range acked {
		as = append(as, coqStr(a))
	}
	coq := fmt.Sprintf("CMember (%s) %s %s %s", s0, hx.CoqList(ss), hx.CoqList(as), hx.CoqList(finals))
	js, _ := json.Marshal(d)
	res.c = &hx.Case{Kind: "member", Coq: coq, Desc: d,
		Obs: map[string]interface{}{"acked_steps": len(steps), "acked_databases": acked, "membership_changes": faults,
			"survivors": len(finals), "regressed": regressed, "last_acked_index": last},
		Nontrivial: faults > 0 || len(members()) > 1, Sig: fmt.Sprintf("member:%x", hashBytes(js)), Origin: origin}
	return
}

func mcmd(k string, s ...string) MemberOp {
	c := Cmd{K: k, S: s}
	if k == "CreateUser" {
		c.B = []bool{false}
	}
	return MemberOp{Op: "cmd", Cmd: &c}
}

func memberScenarios(extra int) []MemberDesc {
	db := func(i int) MemberOp { return mcmd("CreateDatabase", fmt.Sprintf("m%d", i)) }
	pad := func(from int) []MemberOp {
		var out []MemberOp
		for k := 0; k < extra; k++ {
			out = append(out, db(from+k))
		}
		return out
	}
	cat := func(xs ...[]MemberOp) []MemberOp {
		var out []MemberOp
		for _, x := range xs {
			out = append(out, x...)
		}
		return out
	}
	one := func(o MemberOp) []MemberOp { return []MemberOp{o} }
	return []MemberDesc{
		{Name: "join 1->2", Nodes: 2, Ops: cat(one(MemberOp{Op: "form"}), one(db(1)), one(mcmd("CreateUser", "alice", "h1")), pad(10),
			one(MemberOp{Op: "join", Node: 1}), one(db(2)), one(mcmd("CreateDataNode", "h1:8086", "h1:8088")), pad(20))},
		{Name: "remove the follower of a 2-node cluster", Nodes: 2, Ops: cat(one(MemberOp{Op: "form"}), one(db(1)), one(MemberOp{Op: "join", Node: 1}),
			one(db(2)), one(mcmd("CreateUser", "bob", "h2")), pad(10), one(MemberOp{Op: "remove", Node: 1}), one(db(3)), one(mcmd("CreateDataNode", "h2:8086", "h2:8088")), pad(20))},
		{Name: "remove a follower of a 3-node cluster", Nodes: 3, Ops: cat(one(MemberOp{Op: "form"}), one(MemberOp{Op: "join", Node: 1}), one(MemberOp{Op: "join", Node: 2}),
			one(db(1)), one(db(2)), pad(10), one(MemberOp{Op: "remove", Node: 2}), one(db(3)), one(mcmd("CreateUser", "carol", "h3")), pad(20))},
		{Name: "leave of a follower of a 2-node cluster, then re-join", Nodes: 2, Ops: cat(one(MemberOp{Op: "form"}), one(db(1)), one(MemberOp{Op: "join", Node: 1}),
			one(db(2)), pad(10), one(MemberOp{Op: "leave", Node: 1}), one(db(3)), one(mcmd("CreateDataNode", "h3:8086", "h3:8088")), pad(20),
			one(MemberOp{Op: "join", Node: 1}), one(db(4)), pad(30))},
	}
}

// the scenarios are independent clusters on their own ports: run them side by side
func runMembers(o *hx.Out, ds []MemberDesc, origin string) {
	o.Begin("member", map[string]interface{}{"note": "membership scenarios running concurrently", "scenarios": ds})
	// Every wait inside a scenario has its own time limit, but shutting a real meta.Service down
	// (raft, its transport, the HTTP listener) has none and was seen to hang for good on a loaded
	// machine.  This part is a MONITOR of behaviour outside the model: a scenario that does not
	// finish in time is counted as inconclusive like every other unsettled scenario, it must not
	// take the whole check down.
	res := make(chan struct {
		i int
		r memberResult
	}, len(ds))
	for i := range ds {
		go func(i int) {
			res <- struct {
				i int
				r memberResult
			}{i, runMemberScenario(ds[i], origin)}
		}(i)
	}
	out := make([]memberResult, len(ds))
	deadline := time.After(240 * time.Second)
	for got := 0; got < len(ds); got++ {
		select {
		case x := <-res:
			out[x.i] = x.r
		case <-deadline:
			o.Count(fmt.Sprintf("member:inconclusive:watchdog:%d-unfinished", len(ds)-got))
			got = len(ds)
		}
	}
	for _, r := range out {
		for _, k := range r.stats {
			o.Count(k)
		}
		if r.c != nil {
			o.Emit(*r.c)
		}
	}
}
