package main

import "verifharness/hx"

// placeholder, replaced below when the soak is built
type SoakDesc struct {
	Seed uint64 `json:"seed"`
}

func runSoak(o *hx.Out, d SoakDesc, origin string) {}
func genSoak(o *hx.Out, r *hx.Rand)                {}
