// h_c07 (part): thorough-tier soak. Three real meta services (meta.Service: HTTP handler,
// store, hashicorp/raft over loopback, boltdb + file snapshots in temp directories) are
// joined into one cluster; commands are POSTed as raw protobuf to /execute (so the exact
// committed commands are known), interleaved with forced raft snapshots, restarts of single
// nodes and restarts of the whole cluster. Faults happen only while no command is in
// flight, so every command is either acknowledged or certainly not proposed; a run in which
// that cannot be told (ambiguous HTTP failure, cluster that does not settle in time) is
// counted as inconclusive and emits nothing.
// After quiescence every node's metadata is compared with the model applied, from the
// metadata observed after cluster formation, to the acknowledged commands.
package main

import (
	"bytes"
	"encoding/json"
	"fmt"
	"io"
	"log"
	"net"
	"net/http"
	"net/url"
	"os"
	"strings"
	"time"

	"github.com/influxdata/influxdb/services/meta"
	"github.com/influxdata/influxdb/tcp"
	"verifharness/hx"
)

type SoakOp struct {
	Op   string `json:"op"` // "cmd" | "snapshot" | "restart" | "restartall"
	Cmd  *Cmd   `json:"cmd,omitempty"`
	Node int    `json:"node,omitempty"`
}

type SoakDesc struct {
	Ops []SoakOp `json:"ops"`
}

type soakNode struct {
	cfg *meta.Config
	svc *meta.Service
	ln  net.Listener
	err chan error
}

func freePort() string {
	l, err := net.Listen("tcp", "127.0.0.1:0")
	if err != nil {
		panic(err)
	}
	defer l.Close()
	return l.Addr().String()
}

func (n *soakNode) start() error {
	ln, err := net.Listen("tcp", n.cfg.BindAddress)
	if err != nil {
		return err
	}
	mux := tcp.NewMux()
	mux.Logger = log.New(io.Discard, "", 0)
	s := meta.NewService(n.cfg)
	s.RaftListener = mux.Listen(meta.MuxHeader)
	go mux.Serve(ln)
	n.svc, n.ln = s, ln
	n.err = make(chan error, 1)
	go func(ch chan error) { ch <- s.Open() }(n.err)
	return nil
}

func (n *soakNode) stop() {
	if n.svc != nil {
		func() {
			defer func() { recover() }()
			n.svc.Close()
		}()
		n.ln.Close()
		n.svc = nil
	}
}

func (n *soakNode) data() *meta.Data {
	if n.svc == nil {
		return nil
	}
	var d *meta.Data
	func() {
		defer func() { recover() }()
		d, _ = n.svc.VerifData()
	}()
	return d
}

func waitFor(timeout time.Duration, cond func() bool) bool {
	end := time.Now().Add(timeout)
	for time.Now().Before(end) {
		if cond() {
			return true
		}
		time.Sleep(50 * time.Millisecond)
	}
	return cond()
}

// settled: all running nodes have a leader among them, the same Index and the same dump
func settled(ns []*soakNode) bool {
	leader := false
	var first string
	for i, n := range ns {
		d := n.data()
		if d == nil {
			return false
		}
		func() {
			defer func() { recover() }()
			if n.svc.VerifIsLeader() {
				leader = true
			}
		}()
		s := coqData(d, false)
		if i == 0 {
			first = s
		} else if s != first {
			return false
		}
	}
	return leader
}

// diverged: every node is up, a leader exists, all nodes have applied up to the same raft index,
// and yet their metadata differ - not a matter of waiting longer (a restarted node that lost
// what its snapshot held looks like this)
func diverged(ns []*soakNode) bool {
	leader := false
	var idx uint64
	var first string
	differ := false
	for i, n := range ns {
		d := n.data()
		if d == nil {
			return false
		}
		func() {
			defer func() { recover() }()
			if n.svc.VerifIsLeader() {
				leader = true
			}
		}()
		s := coqData(d, false)
		if i == 0 {
			idx, first = d.Index, s
		} else {
			if d.Index != idx {
				return false
			}
			if s != first {
				differ = true
			}
		}
	}
	return leader && differ
}

// minimal decoder of internal.Response{OK=1 bool, Error=2 string, Index=3 uint64}
func decodeResponse(b []byte) (errStr string, index uint64, ok bool) {
	i := 0
	rv := func() (uint64, bool) {
		var v uint64
		for s := uint(0); i < len(b); s += 7 {
			c := b[i]
			i++
			v |= uint64(c&0x7f) << s
			if c&0x80 == 0 {
				return v, true
			}
		}
		return 0, false
	}
	for i < len(b) {
		k, good := rv()
		if !good {
			return "", 0, false
		}
		switch k & 7 {
		case 0:
			v, good := rv()
			if !good {
				return "", 0, false
			}
			if k>>3 == 3 {
				index = v
			}
		case 2:
			l, good := rv()
			if !good || i+int(l) > len(b) {
				return "", 0, false
			}
			if k>>3 == 2 {
				errStr = string(b[i : i+int(l)])
			}
			i += int(l)
		default:
			return "", 0, false
		}
	}
	return errStr, index, true
}

type soakStep struct {
	Cmd   Cmd
	Index uint64
	Err   string
}

// post sends the command to the current leader. definite=false: cannot tell whether it was proposed.
func post(ns []*soakNode, b []byte) (errStr string, index uint64, acked bool, definite bool) {
	last := "no leader"
	for attempt := 0; attempt < 100; attempt++ {
		var leader *soakNode
		for _, n := range ns {
			if n.svc == nil {
				continue
			}
			func() {
				defer func() { recover() }()
				if n.svc.VerifIsLeader() {
					leader = n
				}
			}()
		}
		if leader == nil {
			time.Sleep(100 * time.Millisecond)
			continue
		}
		cl := &http.Client{Timeout: 20 * time.Second, Transport: &http.Transport{DisableKeepAlives: true}, CheckRedirect: func(*http.Request, []*http.Request) error { return http.ErrUseLastResponse }}
		resp, err := cl.Post("http://"+leader.cfg.HTTPBindAddress+"/execute", "application/octet-stream", bytes.NewReader(b))
		if err != nil {
			if strings.Contains(err.Error(), "connection refused") {
				last = err.Error()
				time.Sleep(100 * time.Millisecond)
				continue // not delivered
			}
			return "transport: " + err.Error(), 0, false, false
		}
		body, rerr := io.ReadAll(resp.Body)
		resp.Body.Close()
		switch {
		case resp.StatusCode == http.StatusOK && rerr == nil:
			es, idx, good := decodeResponse(body)
			if !good {
				return "", 0, false, false
			}
			if strings.Contains(es, "leadership lost") || strings.Contains(es, "timed out") || strings.Contains(es, "shutdown") {
				return es, 0, false, false
			}
			if strings.Contains(es, "not the leader") || strings.Contains(es, "node is not the leader") {
				last = es
				time.Sleep(100 * time.Millisecond)
				continue // raft.ErrNotLeader: not proposed
			}
			if idx == 0 {
				// a command the FSM rejected is answered without the index: it is the index the
				// leader's metadata was stamped with (commands are sent one at a time)
				if dd := leader.data(); dd != nil {
					idx = dd.Index
				}
			}
			return es, idx, true, true
		case resp.StatusCode == http.StatusTemporaryRedirect || resp.StatusCode == http.StatusServiceUnavailable:
			last = fmt.Sprintf("http %d %s", resp.StatusCode, body)
			time.Sleep(100 * time.Millisecond)
			continue // not the leader / no leader: not proposed
		case resp.StatusCode == http.StatusBadRequest:
			return string(body), 0, false, true // rejected by validateCommand: never proposed
		default:
			return fmt.Sprintf("http %d: %s", resp.StatusCode, body), 0, false, false
		}
	}
	return "not proposed after 100 attempts: " + last, 0, false, false
}

func runSoak(o *hx.Out, d SoakDesc, origin string) {
	o.Begin("soak", d)
	inconclusive := func(why string) { o.Count("soak:inconclusive:" + why) }
	ns := make([]*soakNode, 3)
	defer func() {
		for _, n := range ns {
			if n != nil {
				n.stop()
				os.RemoveAll(n.cfg.Dir)
			}
		}
	}()
	var https []string
	for i := range ns {
		c := meta.NewConfig()
		c.BindAddress = freePort()
		c.HTTPBindAddress = freePort()
		dir, err := os.MkdirTemp("", "h_c07_soak")
		if err != nil {
			panic(err)
		}
		c.Dir = dir
		c.LoggingEnabled = false
		ns[i] = &soakNode{cfg: c}
		https = append(https, c.HTTPBindAddress)
		if err := ns[i].start(); err != nil {
			inconclusive("listen")
			return
		}
	}
	time.Sleep(1500 * time.Millisecond)
	for _, peer := range https {
		joined := false
		for try := 0; try < 20 && !joined; try++ {
			resp, err := http.PostForm("http://"+https[0]+"/join", url.Values{"addr": {peer}})
			if err == nil {
				io.Copy(io.Discard, resp.Body)
				resp.Body.Close()
				joined = resp.StatusCode == http.StatusOK
			}
			if !joined {
				time.Sleep(300 * time.Millisecond)
			}
		}
		if !joined {
			inconclusive("join")
			return
		}
	}
	formed := waitFor(30*time.Second, func() bool {
		if !settled(ns) {
			return false
		}
		return len(ns[0].data().MetaNodes) == 3
	})
	if !formed {
		inconclusive("formation")
		return
	}
	s0 := coqData(ns[0].data(), false)
	var shadow *meta.VerifFSM
	if os.Getenv("H_C07_SOAK_DEBUG") != "" {
		shadow = meta.NewVerifFSM(true)
		img, _ := ns[0].data().MarshalBinary()
		shadow.Restore(img)
	}
	var steps []soakStep
	faults, snaps := 0, 0
ops:
	for _, op := range d.Ops {
		switch op.Op {
		case "cmd":
			es, idx, acked, definite := post(ns, encode(*op.Cmd))
			if !definite {
				fmt.Fprintf(os.Stderr, "soak: ambiguous response to %s: %q\n", op.Cmd.K, es)
				inconclusive("ambiguous-response")
				return
			}
			if !acked {
				o.Count("soak:cmd-rejected-before-raft")
				continue
			}
			steps = append(steps, soakStep{Cmd: *op.Cmd, Index: idx, Err: es})
			if shadow != nil {
				v := shadow.Apply(idx, 1, encode(*op.Cmd))
				waitFor(5*time.Second, func() bool { return settled(ns) })
				if stripStamp(shadow.Data()) != stripStamp(ns[0].data()) || shadow.Data().Index != ns[0].data().Index {
					fmt.Fprintf(os.Stderr, "soak debug: divergence after %s (resp idx %d err %q, shadow err %v)\nshadow: %s\nnode0:  %s\n", op.Cmd.K, idx, es, v, coqData(shadow.Data(), false), coqData(ns[0].data(), false))
					shadow = nil
				}
			}
			o.Count("soak:cmd:" + op.Cmd.K)
		case "snapshot":
			n := ns[op.Node%3]
			if n.svc != nil {
				if err := n.svc.VerifForceSnapshot(); err == nil {
					snaps++
					o.Count("soak:snapshot-taken")
				} else {
					o.Count("soak:snapshot-skipped")
				}
			}
		case "restart":
			if !waitFor(20*time.Second, func() bool { return settled(ns) }) {
				inconclusive("not-settled-before-restart")
				return
			}
			n := ns[op.Node%3]
			n.stop()
			time.Sleep(300 * time.Millisecond)
			if err := n.start(); err != nil {
				inconclusive("relisten")
				return
			}
			faults++
			o.Count("soak:restart-one")
			if !waitFor(40*time.Second, func() bool { return settled(ns) }) {
				if diverged(ns) {
					o.Count("soak:diverged-after-restart")
					break ops // conclusive: the finals below disagree
				}
				inconclusive("not-settled-after-restart")
				return
			}
		case "restartall":
			if !waitFor(20*time.Second, func() bool { return settled(ns) }) {
				inconclusive("not-settled-before-restart")
				return
			}
			for _, n := range ns {
				n.stop()
			}
			time.Sleep(500 * time.Millisecond)
			for _, n := range ns {
				if err := n.start(); err != nil {
					inconclusive("relisten")
					return
				}
			}
			faults++
			o.Count("soak:restart-all")
			if !waitFor(60*time.Second, func() bool { return settled(ns) }) {
				if diverged(ns) {
					o.Count("soak:diverged-after-restart")
					break ops // conclusive: the finals below disagree
				}
				inconclusive("not-settled-after-restart")
				return
			}
		}
	}
	// quiescence: same index everywhere
	waitFor(30*time.Second, func() bool {
		var idx uint64
		for i, n := range ns {
			dd := n.data()
			if dd == nil {
				return false
			}
			if i == 0 {
				idx = dd.Index
			} else if dd.Index != idx {
				return false
			}
		}
		return len(steps) == 0 || idx >= steps[len(steps)-1].Index
	})
	var finals []string
	var term uint64
	same := true
	for i, n := range ns {
		dd := n.data()
		if dd == nil {
			inconclusive("node-down-at-end")
			return
		}
		if i == 0 {
			term = dd.Term
		}
		finals = append(finals, "("+coqData(dd, false)+")")
		if coqData(dd, true) != coqData(ns[0].data(), true) {
			same = false
		}
	}
	var ss []string
	for _, st := range steps {
		ss = append(ss, fmt.Sprintf("(%d, %d, %s)", st.Index, term, coqCmd(st.Cmd)))
	}
	coq := fmt.Sprintf("CSoak true (%s) %s %s", s0, hx.CoqList(ss), hx.CoqList(finals))
	js, _ := json.Marshal(d)
	o.Emit(hx.Case{Kind: "soak", Coq: coq, Desc: d,
		Obs:        map[string]interface{}{"acked": len(steps), "faults": faults, "snapshots": snaps, "nodes_agree": same},
		Nontrivial: len(steps) >= 10 && faults > 0 && snaps > 0, Sig: fmt.Sprintf("soak:%x", hashBytes(js)), Origin: origin})
}

func genSoak(o *hx.Out, r *hx.Rand) { genSoakN(o, r, 40+r.Intn(30)) }

// shortSoak (both tiers): the shortest history that takes the path a restarted meta node takes
// in production - acknowledged commands, a raft snapshot on two nodes, more commands, restart
// of the whole cluster (each node comes back from its snapshot + log suffix), one more command.
func shortSoak(o *hx.Out, r *hx.Rand) { genSoakN(o, r, 9) }

func genSoakN(o *hx.Out, r *hx.Rand, n int) {
	g := &gen{r: r, base: 1600000000000000000 + int64(r.Intn(1000))*int64(time.Hour)}
	shadow := meta.NewVerifFSM(true)
	var d SoakDesc
	idx := uint64(1)
	add := func(c Cmd) {
		cc := c
		d.Ops = append(d.Ops, SoakOp{Op: "cmd", Cmd: &cc})
		applyCmd(shadow, c)
	}
	for k := 0; k < 3; k++ {
		idx++
		add(Cmd{K: "CreateDataNode", Idx: idx, Term: 1, S: []string{httpPool[k], hostPool[k]}})
	}
	idx++
	add(Cmd{K: "CreateDatabase", Idx: idx, Term: 1, S: []string{"db0"}})
	idx++
	add(Cmd{K: "CreateRetentionPolicy", Idx: idx, Term: 1, S: []string{"db0", "rp0"}, U: []uint64{2}, I: []int64{0, int64(time.Hour)}, B: []bool{true}})
	for len(d.Ops) < n {
		switch w := r.Intn(100); {
		case w < 8:
			d.Ops = append(d.Ops, SoakOp{Op: "snapshot", Node: r.Intn(3)})
		case w < 12:
			d.Ops = append(d.Ops, SoakOp{Op: "restart", Node: r.Intn(3)})
		case w < 14:
			d.Ops = append(d.Ops, SoakOp{Op: "restartall"})
		default:
			idx++
			c := g.next(shadow.Data(), idx, 1)
			// no wall-clock dependent pruning, no raft membership change, sane timestamps
			// (timestamps near MinInt64 are the open finding C07:group-start-before-int64-range)
			if c.K == "PruneShardGroups" || c.K == "RemovePeer" {
				continue
			}
			if (c.K == "CreateShardGroup" || c.K == "TruncateShardGroups") && c.I[0] < 0 {
				c.I[0] = g.base
			}
			c.AgeA, c.AgeB = false, false
			add(c)
		}
	}
	// make sure the interesting path is taken at least once: snapshot, more commands, full restart
	d.Ops = append(d.Ops, SoakOp{Op: "snapshot", Node: 0}, SoakOp{Op: "snapshot", Node: 1})
	for k := 0; k < 3; k++ {
		idx++
		add(Cmd{K: "CreateShardGroup", Idx: idx, Term: 1, S: []string{"db0", "rp0"}, I: []int64{g.base + int64(k+20)*int64(time.Hour)}})
	}
	d.Ops = append(d.Ops, SoakOp{Op: "restartall"})
	idx++
	add(Cmd{K: "CreateDatabase", Idx: idx, Term: 1, S: []string{"db2"}})
	runSoak(o, d, "gen")
}
