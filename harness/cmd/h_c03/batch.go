// kind "batch": a write whose points fall into SEVERAL shards, through the real
// PointsWriter.WritePointsPrivileged (MapShards, one goroutine per shard running
// writeToShardWithContext, the combining loop with w.closing, dropped points).
//
// Every owner goroutine of every shard is stopped at its first external call (a gate, as in
// main.go).  The harness releases the shards one after the other in the requested order and,
// inside a shard, the owners in the requested order; after every release it waits until the
// released goroutine is gone and every collecting goroutine (one per shard + the batch loop)
// is parked in its select again, so the order in which values reach the channels is the one
// described by the input.  PointsWriter.Close is called at the requested point.  After the
// write has returned the remaining owners are still released: their effects (writes, handoff
// offers) are part of the observation.
package main

import (
	"encoding/json"
	"fmt"
	"runtime"
	"sort"
	"strings"
	"sync"
	"time"

	"github.com/influxdata/influxdb/coordinator"
	"github.com/influxdata/influxdb/models"
	"github.com/influxdata/influxdb/services/hh"
	"github.com/influxdata/influxdb/services/meta"
	"github.com/influxdata/influxdb/tsdb"
	"verifharness/hx"
)

type bOwner struct {
	ID int  `json:"id"` // node id
	W  int  `json:"w"`  // as ownerEnv
	Q  bool `json:"q"`
	H  int  `json:"h"`
}

type bShard struct {
	LNF    int      `json:"lnf"`
	Owners []bOwner `json:"owners"`
	Order  []int    `json:"order"` // owner indices in arrival order
}

type bDesc struct {
	Level   string   `json:"level"`
	Self    int      `json:"self"`
	OOO     bool     `json:"ooo"`
	Perm    int      `json:"perm"`
	Shards  []bShard `json:"shards"`  // shard k has id 11+k
	SOrder  []int    `json:"sorder"`  // shard indices in release order
	Close   int      `json:"close"`   // PointsWriter.Close after that many shards were released; -1 never
	Dropped int      `json:"dropped"` // points older than the retention policy
}

const shardBase = 11

func (d *bDesc) behind(s, i int) bool {
	o := d.Shards[s].Owners[i]
	return d.Self != o.ID && !d.OOO && o.Q
}
func (d *bDesc) answers(s, i int) bool { return d.behind(s, i) || d.Shards[s].Owners[i].W != 3 }

func (d *bDesc) sanitise() {
	if _, ok := levels[d.Level]; !ok {
		d.Level = "one"
	}
	if d.Self < 1 {
		d.Self = 1
	}
	if len(d.Shards) > 6 {
		d.Shards = d.Shards[:6]
	}
	for s := range d.Shards {
		sh := &d.Shards[s]
		if sh.LNF < 0 || sh.LNF > 2 {
			sh.LNF = 0
		}
		seenID := map[int]bool{}
		var os []bOwner
		for _, o := range sh.Owners {
			if o.ID < 1 || seenID[o.ID] || len(os) >= 5 {
				continue
			}
			seenID[o.ID] = true
			o.W &= 3
			o.H = ((o.H % 3) + 3) % 3
			os = append(os, o)
		}
		sh.Owners = os
		seen := map[int]bool{}
		ord := []int{}
		for _, i := range sh.Order {
			if i >= 0 && i < len(sh.Owners) && !seen[i] && d.answers(s, i) {
				seen[i] = true
				ord = append(ord, i)
			}
		}
		for i := range sh.Owners {
			if !seen[i] && d.answers(s, i) {
				ord = append(ord, i)
			}
		}
		sh.Order = ord
	}
	n := len(d.Shards)
	seen := map[int]bool{}
	ord := []int{}
	for _, s := range d.SOrder {
		if s >= 0 && s < n && !seen[s] {
			seen[s] = true
			ord = append(ord, s)
		}
	}
	for s := 0; s < n; s++ {
		if !seen[s] {
			ord = append(ord, s)
		}
	}
	// a shard without owners answers at once, before anything is released
	sort.SliceStable(ord, func(a, b int) bool { return len(d.Shards[ord[a]].Owners) == 0 && len(d.Shards[ord[b]].Owners) != 0 })
	d.SOrder = ord
	empty := 0
	for _, sh := range d.Shards {
		if len(sh.Owners) == 0 {
			empty++
		}
	}
	if d.Close >= 0 && d.Close < empty {
		d.Close = empty
	}
	if d.Close < 0 || d.Close >= n {
		d.Close = -1
	}
	if d.Dropped < 0 {
		d.Dropped = 0
	}
	if d.Dropped > 5 {
		d.Dropped = 5
	}
}

// ---------- fakes ----------

type bworld struct {
	mu      sync.Mutex
	d       *bDesc
	seen    [][]bool
	gate    [][]chan struct{}
	gateOpn [][]bool
	entered chan [2]int
	hung    chan [2]int
	abort   chan struct{}
	aborted bool
	nfDone  []bool
	writes, creates, hhs [][]int
	stored, queued       [][]bool
}

func newBWorld(d *bDesc) *bworld {
	w := &bworld{d: d, abort: make(chan struct{})}
	total := 0
	for _, sh := range d.Shards {
		n := len(sh.Owners)
		total += n
		w.seen = append(w.seen, make([]bool, n))
		g := make([]chan struct{}, n)
		for i := range g {
			g[i] = make(chan struct{})
		}
		w.gate = append(w.gate, g)
		w.gateOpn = append(w.gateOpn, make([]bool, n))
		w.writes = append(w.writes, make([]int, n))
		w.creates = append(w.creates, make([]int, n))
		w.hhs = append(w.hhs, make([]int, n))
		w.stored = append(w.stored, make([]bool, n))
		w.queued = append(w.queued, make([]bool, n))
	}
	w.nfDone = make([]bool, len(d.Shards))
	w.entered = make(chan [2]int, total+1)
	w.hung = make(chan [2]int, total+1)
	return w
}

func (w *bworld) open(s, i int) {
	w.mu.Lock()
	if !w.gateOpn[s][i] {
		w.gateOpn[s][i] = true
		close(w.gate[s][i])
	}
	w.mu.Unlock()
}

func (w *bworld) enter(s, i int) {
	w.mu.Lock()
	first := !w.seen[s][i]
	w.seen[s][i] = true
	w.mu.Unlock()
	if first {
		w.entered <- [2]int{s, i}
		<-w.gate[s][i]
	}
}

func (w *bworld) isAborted() bool {
	w.mu.Lock()
	defer w.mu.Unlock()
	return w.aborted
}

// (shard id, node id) -> indices
func (w *bworld) find(shardID, nodeID uint64) (int, int, bool) {
	s := int(shardID) - shardBase
	if s < 0 || s >= len(w.d.Shards) {
		return 0, 0, false
	}
	for i, o := range w.d.Shards[s].Owners {
		if uint64(o.ID) == nodeID {
			return s, i, true
		}
	}
	return 0, 0, false
}

func (w *bworld) direct(shardID, nodeID uint64, local bool) error {
	s, i, ok := w.find(shardID, nodeID)
	if !ok {
		return fmt.Errorf("unknown-owner")
	}
	if w.isAborted() {
		return errAborted
	}
	w.mu.Lock()
	w.writes[s][i]++
	w.mu.Unlock()
	w.enter(s, i)
	if w.isAborted() {
		return errAborted
	}
	e := w.d.Shards[s].Owners[i]
	if e.W == 3 {
		w.hung <- [2]int{s, i}
		<-w.abort
		return errAborted
	}
	if local && w.d.Shards[s].LNF != 0 {
		w.mu.Lock()
		first := !w.nfDone[s]
		w.nfDone[s] = true
		w.mu.Unlock()
		if first {
			return tsdb.ErrShardNotFound
		}
	}
	switch e.W {
	case 0:
		w.mu.Lock()
		w.stored[s][i] = true
		w.mu.Unlock()
		return nil
	case 1:
		return fmt.Errorf("w-err shard %d node %d", shardID, nodeID)
	default:
		if w.d.Perm == 1 {
			return fmt.Errorf("partial write: shard %d node %d", shardID, nodeID)
		}
		return fmt.Errorf("field type conflict shard %d node %d", shardID, nodeID)
	}
}

type bStore struct{ w *bworld }

func (s bStore) WriteToShard(shardID uint64, pts []models.Point) error {
	return s.w.direct(shardID, uint64(s.w.d.Self), true)
}
func (s bStore) CreateShard(db, rp string, shardID uint64, enabled bool) error {
	si, i, ok := s.w.find(shardID, uint64(s.w.d.Self))
	if !ok || s.w.isAborted() {
		return errAborted
	}
	s.w.mu.Lock()
	s.w.creates[si][i]++
	s.w.mu.Unlock()
	if s.w.d.Shards[si].LNF == 2 {
		return fmt.Errorf("create-err shard %d node %d", shardID, s.w.d.Self)
	}
	return nil
}

type bShardWriter struct{ w *bworld }

func (s bShardWriter) WriteShard(shardID, ownerID uint64, pts []models.Point) error {
	return s.w.direct(shardID, ownerID, false)
}

type bHH struct{ w *bworld }

func (s bHH) Empty(shardID, ownerID uint64) bool {
	si, i, ok := s.w.find(shardID, ownerID)
	if !ok || s.w.isAborted() {
		return true
	}
	s.w.enter(si, i)
	return !s.w.d.Shards[si].Owners[i].Q
}
func (s bHH) WriteShard(shardID, ownerID uint64, pts []models.Point) error {
	si, i, ok := s.w.find(shardID, ownerID)
	if !ok || s.w.isAborted() {
		return errAborted
	}
	s.w.mu.Lock()
	s.w.hhs[si][i]++
	s.w.mu.Unlock()
	s.w.enter(si, i)
	if s.w.isAborted() {
		return errAborted
	}
	switch s.w.d.Shards[si].Owners[i].H {
	case 0:
		s.w.mu.Lock()
		s.w.queued[si][i] = true
		s.w.mu.Unlock()
		return nil
	case 1:
		return fmt.Errorf("hh-err shard %d node %d", shardID, ownerID)
	default:
		return hh.ErrQueueBlocked
	}
}

type bMeta struct {
	w      *bworld
	groups []meta.ShardGroupInfo
}

func (m bMeta) NodeID() uint64                            { return uint64(m.w.d.Self) }
func (m bMeta) Database(name string) *meta.DatabaseInfo { return nil }
func (m bMeta) RetentionPolicy(db, rp string) (*meta.RetentionPolicyInfo, error) {
	return &meta.RetentionPolicyInfo{Name: "rp", ReplicaN: 1, Duration: 1000 * time.Hour, ShardGroupDuration: time.Hour}, nil
}
func (m bMeta) CreateShardGroup(db, rp string, t time.Time) (*meta.ShardGroupInfo, error) {
	for k := range m.groups {
		if m.groups[k].Contains(t) {
			return &m.groups[k], nil
		}
	}
	return nil, fmt.Errorf("no shard group for %v", t)
}

// ---------- goroutine observation ----------

// goroutines of the batch under test: live owner goroutines, wait state of every shard
// goroutine, wait state of the goroutine inside WritePointsPrivilegedWithContext ("" = none)
func observeAll() (owners int, shards []string, caller string) {
	n := runtime.Stack(stackBuf, true)
	for n == len(stackBuf) {
		stackBuf = make([]byte, 2*len(stackBuf))
		n = runtime.Stack(stackBuf, true)
	}
	for _, g := range strings.Split(string(stackBuf[:n]), "\n\n") {
		state := "?"
		if a, b := strings.Index(g, "["), strings.Index(g, "]"); a >= 0 && b > a {
			state = g[a+1 : b]
		}
		creator := ""
		if k := strings.LastIndex(g, "created by "); k >= 0 {
			creator = g[k+len("created by "):]
			if e := strings.IndexAny(creator, " \n"); e >= 0 {
				creator = creator[:e]
			}
		}
		switch {
		case strings.HasSuffix(creator, "coordinator.(*PointsWriter).writeToShardWithContext"):
			owners++
		case strings.HasSuffix(creator, "coordinator.(*PointsWriter).WritePointsPrivilegedWithContext"):
			shards = append(shards, state)
		case strings.Contains(g, "coordinator.(*PointsWriter).WritePointsPrivilegedWithContext("):
			caller = state
		}
	}
	return
}

func quiet(shards []string, caller string) bool {
	for _, s := range shards {
		if !strings.HasPrefix(s, "select") {
			return false
		}
	}
	return caller == "" || strings.HasPrefix(caller, "select")
}

// ---------- one run ----------

type bObs struct {
	Class   string       `json:"class"`
	Err     string       `json:"err,omitempty"`
	Dropped int          `json:"dropped,omitempty"`
	Shards  [][]ownerObs `json:"shards"`
}

func battempt(d *bDesc, T time.Duration) (res bObs, valid bool) {
	valid = true
	w := newBWorld(d)
	ns := len(d.Shards)
	total, silent := 0, 0
	now := time.Now()
	base := now.Truncate(time.Hour).Add(-20 * time.Hour)
	var groups []meta.ShardGroupInfo
	var pts []models.Point
	for k, sh := range d.Shards {
		owners := make([]meta.ShardOwner, len(sh.Owners))
		for i, o := range sh.Owners {
			owners[i] = meta.ShardOwner{NodeID: uint64(o.ID)}
			total++
			if !d.answers(k, i) {
				silent++
			}
		}
		st := base.Add(time.Duration(k) * time.Hour)
		groups = append(groups, meta.ShardGroupInfo{ID: uint64(k + 1), StartTime: st, EndTime: st.Add(time.Hour),
			Shards: []meta.ShardInfo{{ID: uint64(shardBase + k), Owners: owners}}})
		pts = append(pts, models.MustNewPoint("cpu", nil, models.Fields{"v": float64(k)}, st.Add(time.Minute)))
	}
	for j := 0; j < d.Dropped; j++ {
		pts = append(pts, models.MustNewPoint("cpu", nil, models.Fields{"v": -1.0}, now.Add(-2000*time.Hour-time.Duration(j)*time.Second)))
	}
	// dropped points in between, not only at the end
	if len(pts) > 1 && d.Dropped > 0 {
		pts[0], pts[len(pts)-1] = pts[len(pts)-1], pts[0]
	}
	pw := coordinator.NewPointsWriter()
	pw.MetaClient = bMeta{w, groups}
	pw.TSDBStore = bStore{w}
	pw.ShardWriter = bShardWriter{w}
	pw.HintedHandoff = bHH{w}
	pw.AllowOutOfOrderWrites = d.OOO
	pw.WriteTimeout = T
	pw.Open()
	closed := false

	type ret struct {
		err      error
		panicked interface{}
	}
	done := make(chan ret, 1)
	baseG := runtime.NumGoroutine()
	t0 := time.Now()
	go func() {
		var r ret
		defer func() {
			if e := recover(); e != nil {
				r.panicked = e
			}
			done <- r
		}()
		r.err = pw.WritePointsPrivileged("db", "rp", levels[d.Level], pts)
	}()
	var final *ret
	stuck := ""
	poll := func() bool {
		if final != nil {
			return true
		}
		select {
		case r := <-done:
			final = &r
			return true
		default:
			return false
		}
	}
	deadline := time.Now().Add(stuckAfter)
	// 1. every owner goroutine reaches its first external call
	for k := 0; k < total && stuck == ""; k++ {
		select {
		case <-w.entered:
		case <-time.After(stuckAfter):
			stuck = "owners did not all start"
		}
	}
	// 2. silent owners go on to their direct write and stay there
	for s := range d.Shards {
		for i := range d.Shards[s].Owners {
			if stuck == "" && !d.answers(s, i) {
				w.open(s, i)
				select {
				case <-w.hung:
				case <-time.After(stuckAfter):
					stuck = "silent owner did not reach its direct write"
				}
			}
		}
	}
	released := 0
	// wait until the goroutines released so far are gone and every collector is parked
	settle := func() {
		for k := 0; stuck == ""; k++ {
			if runtime.NumGoroutine() > baseG+1+ns+total-released && !time.Now().After(deadline) {
				pause(k)
				continue
			}
			ow, sh, caller := observeAll()
			if ow == total-released && quiet(sh, caller) {
				if caller == "" && !poll() { // the batch loop has returned: its value is on the way
					select {
					case r := <-done:
						final = &r
					case <-time.After(stuckAfter):
						stuck = "batch goroutine not found and the write did not return"
					}
				}
				return
			}
			if time.Now().After(deadline) {
				stuck = "no quiescence"
				return
			}
			pause(k)
		}
	}
	settle()
	// 3. release shard after shard
	var tready time.Time
	for idx, s := range d.SOrder {
		if stuck != "" {
			break
		}
		if d.Close == idx && !closed {
			tready = time.Now()
			pw.Close()
			closed = true
			if !poll() {
				select {
				case r := <-done:
					final = &r
				case <-time.After(stuckAfter):
					stuck = "write did not return after Close"
				}
			}
			settle()
		}
		for _, i := range d.Shards[s].Order {
			w.open(s, i)
			released++
			settle()
		}
	}
	if tready.IsZero() {
		tready = time.Now()
	}
	if silent > 0 && !tready.Before(t0.Add(T)) {
		valid = false // the write timeout may have expired before everything requested had happened
	}
	if stuck == "" && final == nil {
		select {
		case r := <-done:
			final = &r
		case <-time.After(stuckAfter):
			stuck = "write did not return"
		}
	}
	// 4. snapshot once every answering owner's goroutine has finished
	for k := 0; stuck == ""; k++ {
		ow, _, _ := observeAll()
		if ow == total-released {
			break
		}
		if time.Now().After(deadline.Add(stuckAfter)) {
			stuck = "owner goroutines did not finish"
		}
		pause(k)
	}
	w.mu.Lock()
	for s, sh := range d.Shards {
		oo := make([]ownerObs, len(sh.Owners))
		for i := range sh.Owners {
			oo[i] = ownerObs{w.writes[s][i], w.creates[s][i], w.stored[s][i], w.hhs[s][i], w.queued[s][i]}
		}
		res.Shards = append(res.Shards, oo)
	}
	w.aborted = true
	w.mu.Unlock()
	// 5. clean up
	close(w.abort)
	for s := range d.Shards {
		for i := range d.Shards[s].Owners {
			w.open(s, i)
		}
	}
	if final == nil {
		select {
		case r := <-done:
			final = &r
		case <-time.After(stuckAfter):
		}
	}
	if !closed {
		pw.Close() // ends shard goroutines still waiting for their timer
	}
	for k := 0; ; k++ {
		ow, sh, caller := observeAll()
		if ow == 0 && len(sh) == 0 && caller == "" {
			break
		}
		if time.Now().After(deadline.Add(3 * stuckAfter)) {
			stuck = "goroutines leaked"
			break
		}
		pause(k)
	}
	var pwe tsdb.PartialWriteError
	switch {
	case stuck != "":
		res.Class, res.Err = "stuck", stuck
	case final == nil:
		res.Class = "stuck"
	case final.panicked != nil:
		res.Class, res.Err = "panic", fmt.Sprint(final.panicked)
	case final.err == nil:
		res.Class = "success"
	case final.err == coordinator.ErrPartialWrite:
		res.Class = "partial"
	case final.err == coordinator.ErrTimeout:
		res.Class = "timeout"
	case final.err == coordinator.ErrWriteFailed:
		res.Class = "failed"
	case strings.HasPrefix(final.err.Error(), "write failed: "):
		res.Class, res.Err = "failed", strings.TrimPrefix(final.err.Error(), "write failed: ")
	default:
		if e, ok := final.err.(tsdb.PartialWriteError); ok {
			pwe = e
		}
		if pwe.Reason == "points beyond retention policy" {
			res.Class, res.Dropped = "dropped", pwe.Dropped
		} else {
			res.Class, res.Err = "other", final.err.Error()
		}
	}
	return
}

// error text of a fake -> Coq term of type option (N * err)
func coqBErr(s string) (string, bool) {
	var sid, id int
	if s == "" {
		return "None", true
	}
	for _, p := range []struct{ f, c string }{{"w-err shard %d node %d", "EW"}, {"field type conflict shard %d node %d", "EW"},
		{"partial write: shard %d node %d", "EW"}, {"hh-err shard %d node %d", "EH"}, {"create-err shard %d node %d", "EC"}} {
		if k, _ := fmt.Sscanf(s, p.f, &sid, &id); k == 2 && fmt.Sprintf(p.f, sid, id) == s {
			return fmt.Sprintf("(Some (%d, %s %d))", sid, p.c, id), true
		}
	}
	return "None", false
}

var bClassCode = map[string]int{"success": 0, "partial": 1, "failed": 2, "timeout": 3, "dropped": 4}

func runBatch(o *hx.Out, d bDesc, origin string) {
	d.sanitise()
	if progressFile == nil {
		o.Begin("batch", d)
	} else {
		b, _ := json.Marshal(map[string]interface{}{"kind": "batch", "desc": d})
		progressFile.WriteAt(b, 0)
		progressFile.Truncate(int64(len(b)))
	}
	silent := false
	owners := 0
	for s := range d.Shards {
		for i := range d.Shards[s].Owners {
			owners++
			if !d.answers(s, i) {
				silent = true
			}
		}
	}
	T := time.Hour
	if silent {
		T = 4 * time.Millisecond
	}
	var res bObs
	for try := 0; ; try++ {
		var valid bool
		res, valid = battempt(&d, T)
		if valid || try >= 5 {
			break
		}
		o.Count("batch:timing-retry")
		T *= 4
	}
	cls, ok := bClassCode[res.Class]
	ce, ok2 := coqBErr(res.Err)
	if !ok || !ok2 {
		cls = 9
	}
	var so, oo []string
	for s, sh := range d.Shards {
		var os, ob []string
		for i, e := range sh.Owners {
			os = append(os, fmt.Sprintf("mkO %d %s %s %s", e.ID, wCoq[e.W&3], hx.CoqBool(e.Q), hCoq[e.H%3]))
			r := res.Shards[s][i]
			ob = append(ob, fmt.Sprintf("ob %d %d %s %d %s", r.Writes, r.Creates, hx.CoqBool(r.Stored), r.HH, hx.CoqBool(r.Queued)))
		}
		ord := make([]uint64, len(sh.Order))
		for i, x := range sh.Order {
			ord[i] = uint64(x)
		}
		so = append(so, fmt.Sprintf("(mkSh %d %s %s, %s)", shardBase+s, nfCoq[sh.LNF], hx.CoqList(os), hx.CoqNList(ord)))
		oo = append(oo, hx.CoqList(ob))
	}
	sord := make([]uint64, len(d.SOrder))
	for i, x := range d.SOrder {
		sord[i] = uint64(x)
	}
	cl := "None"
	if d.Close >= 0 {
		cl = fmt.Sprintf("(Some %d)", d.Close)
	}
	coq := fmt.Sprintf("CBatch %s %d %s %s %s %s %d %d %s %d %s", levelCoq[d.Level], d.Self, hx.CoqBool(d.OOO),
		hx.CoqList(so), hx.CoqNList(sord), cl, d.Dropped, cls, ce, res.Dropped, hx.CoqList(oo))
	o.Count(fmt.Sprintf("batch:shards=%d", len(d.Shards)))
	o.Count("batch:level=" + d.Level)
	o.Count("batch:class=" + res.Class)
	if d.Close >= 0 {
		o.Count("batch:close-during-wait")
	}
	if d.Dropped > 0 {
		o.Count("batch:dropped-points")
	}
	if silent {
		o.Count("batch:silent-owner")
	}
	b, _ := json.Marshal(d)
	o.Emit(hx.Case{Kind: "batch", Coq: coq, Desc: d, Obs: res, Nontrivial: len(d.Shards) >= 2 || d.Dropped > 0, Sig: "b:" + string(b), Origin: origin})
}

// ---------- generation ----------

// shard templates: three owners (nodes 1..3), outcome by level differs
func tmplShard(kind int) bShard {
	ok := bOwner{W: 0}
	rtA := bOwner{W: 1, H: 0}
	rtR := bOwner{W: 1, H: 1}
	perm := bOwner{W: 2}
	qA := bOwner{W: 0, Q: true, H: 0}
	hang := bOwner{W: 3}
	var os []bOwner
	switch kind {
	case 0:
		os = []bOwner{ok, ok, ok}
	case 1:
		os = []bOwner{ok, rtA, perm} // one stored
	case 2:
		os = []bOwner{rtR, perm, rtR} // nothing
	case 3:
		os = []bOwner{ok, hang, rtR} // silent owner
	case 4:
		os = []bOwner{qA, rtA, qA} // only queued
	default:
		os = []bOwner{ok, ok, perm} // majority
	}
	for i := range os {
		os[i].ID = i + 1
	}
	return bShard{Owners: os}
}

const nTmpl = 6

func genBatches(o *hx.Out, r *hx.Rand, n int, thorough bool) {
	// designed
	for _, lv := range levelNames {
		runBatch(o, bDesc{Level: lv, Self: 9, Close: -1}, "designed")             // no points at all
		runBatch(o, bDesc{Level: lv, Self: 9, Close: -1, Dropped: 2}, "designed") // only dropped points
		runBatch(o, bDesc{Level: lv, Self: 1, Close: -1, Shards: []bShard{{}}}, "designed")
		runBatch(o, bDesc{Level: lv, Self: 1, Close: -1, Shards: []bShard{{}, tmplShard(0)}, SOrder: []int{1, 0}}, "designed")
		for _, dr := range []int{0, 3} {
			runBatch(o, bDesc{Level: lv, Self: 1, Close: -1, Dropped: dr, Shards: []bShard{tmplShard(0), tmplShard(0)}}, "designed")
			runBatch(o, bDesc{Level: lv, Self: 4, Close: -1, Dropped: dr, Shards: []bShard{tmplShard(0), tmplShard(2)}, SOrder: []int{0, 1}}, "designed")
			runBatch(o, bDesc{Level: lv, Self: 4, Close: -1, Dropped: dr, Shards: []bShard{tmplShard(0), tmplShard(2)}, SOrder: []int{1, 0}}, "designed")
			runBatch(o, bDesc{Level: lv, Self: 4, Close: 0, Dropped: dr, Shards: []bShard{tmplShard(0), tmplShard(0)}}, "designed")
			runBatch(o, bDesc{Level: lv, Self: 4, Close: 1, Dropped: dr, Shards: []bShard{tmplShard(0), tmplShard(2)}, SOrder: []int{0, 1}}, "designed")
			runBatch(o, bDesc{Level: lv, Self: 4, Close: 1, Dropped: dr, Shards: []bShard{tmplShard(0), tmplShard(2)}, SOrder: []int{1, 0}}, "designed")
			runBatch(o, bDesc{Level: lv, Self: 2, Close: -1, Dropped: dr, Shards: []bShard{tmplShard(3), tmplShard(1), tmplShard(0)}, SOrder: []int{0, 1, 2}}, "designed")
			runBatch(o, bDesc{Level: lv, Self: 2, Close: 2, Dropped: dr, Shards: []bShard{tmplShard(3), tmplShard(0), tmplShard(0)}, SOrder: []int{0, 1, 2}}, "designed")
		}
		// local shard-not-found path differing per shard
		a, b := tmplShard(0), tmplShard(5)
		a.LNF, b.LNF = 1, 2
		runBatch(o, bDesc{Level: lv, Self: 1, Close: -1, Shards: []bShard{a, b, tmplShard(0)}, SOrder: []int{2, 1, 0}}, "designed")
	}
	// exhaustive: two shards x templates x both shard orders x levels x dropped x close
	for a := 0; a < nTmpl; a++ {
		for b := 0; b < nTmpl; b++ {
			for _, ord := range [][]int{{0, 1}, {1, 0}} {
				for _, lv := range levelNames {
					for _, dr := range []int{0, 1} {
						for _, cl := range []int{-1, 0, 1} {
							if cl >= 0 && dr == 1 && !thorough {
								continue
							}
							runBatch(o, bDesc{Level: lv, Self: 4, Close: cl, Dropped: dr, Shards: []bShard{tmplShard(a), tmplShard(b)}, SOrder: ord}, "exhaustive")
						}
					}
				}
			}
		}
	}
	// three shards: all six shard orders; templates/levels sampled (thorough: all)
	perms3 := [][]int{{0, 1, 2}, {0, 2, 1}, {1, 0, 2}, {1, 2, 0}, {2, 0, 1}, {2, 1, 0}}
	for a := 0; a < nTmpl; a++ {
		for b := 0; b < nTmpl; b++ {
			for c := 0; c < nTmpl; c++ {
				if !thorough && !r.Chance(8) {
					continue
				}
				lv := levelNames[r.Intn(4)]
				dr := r.Intn(2)
				cl := -1
				if r.Chance(25) {
					cl = r.Intn(3)
				}
				self := 4
				if r.Chance(30) {
					self = 1 + r.Intn(3)
				}
				for _, ord := range perms3 {
					runBatch(o, bDesc{Level: lv, Self: self, Close: cl, Dropped: dr, Shards: []bShard{tmplShard(a), tmplShard(b), tmplShard(c)}, SOrder: ord}, "exhaustive")
				}
			}
		}
	}
	// sampled: 1..4 shards, 1..3 owners each, full environment product, random orders
	for k := 0; k < n; k++ {
		ns := 1 + r.Intn(4)
		d := bDesc{Level: levelNames[r.Intn(4)], Self: 1 + r.Intn(4), OOO: r.Chance(15), Perm: r.Intn(2), Close: -1}
		if r.Chance(25) {
			d.Dropped = 1 + r.Intn(3)
		}
		if r.Chance(20) {
			d.Close = r.Intn(ns)
		}
		for s := 0; s < ns; s++ {
			var sh bShard
			if r.Chance(40) {
				sh = tmplShard(r.Intn(nTmpl))
			} else {
				no := 1 + r.Intn(3)
				ids := []int{1, 2, 3, 4}
				for i := 3; i > 0; i-- {
					j := r.Intn(i + 1)
					ids[i], ids[j] = ids[j], ids[i]
				}
				for i := 0; i < no; i++ {
					var e ownerEnv
					if r.Chance(60) {
						e = named[r.Intn(len(named))]
					} else {
						e = ownerEnv{W: r.Intn(4), Q: r.Bool(), H: r.Intn(3)}
					}
					sh.Owners = append(sh.Owners, bOwner{ID: ids[i], W: e.W, Q: e.Q, H: e.H})
				}
			}
			if r.Chance(25) {
				sh.LNF = 1 + r.Intn(2)
			}
			// random owner order: sanitise appends the missing ones
			for i := len(sh.Owners) - 1; i >= 0; i-- {
				sh.Order = append(sh.Order, r.Intn(len(sh.Owners)))
			}
			d.Shards = append(d.Shards, sh)
		}
		for s := 0; s < ns; s++ {
			d.SOrder = append(d.SOrder, r.Intn(ns))
		}
		runBatch(o, d, "gen")
	}
}
