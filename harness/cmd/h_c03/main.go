// h_c03: correspondence harness for C03 (cluster write honours the consistency level).
//
// Drives the REAL coordinator.PointsWriter (WritePointsPrivileged -> MapShards ->
// writeToShardWithContext) with fakes for MetaClient / TSDBStore / ShardWriter /
// HintedHandoff.  Every owner's goroutine is stopped at its first external call (a gate);
// the harness releases the gates one at a time in the requested arrival order and, before
// releasing the next one, waits until the owner goroutine is gone and the collecting
// goroutine is parked in its select again (observed through runtime.Stack), so the order in
// which results reach the FIFO result channel - and the point at which the write timeout
// fires - is exactly the one described by the input.
package main

import (
	"encoding/json"
	"errors"
	"fmt"
	"os"
	"path/filepath"
	"runtime"
	"strings"
	"sync"
	"time"

	"github.com/influxdata/influxdb/coordinator"
	"github.com/influxdata/influxdb/models"
	"github.com/influxdata/influxdb/services/hh"
	"github.com/influxdata/influxdb/services/meta"
	"github.com/influxdata/influxdb/tsdb"
	"verifharness/hx"
)

// ---------- input ----------

// environment of one owner (node id = index+1)
type ownerEnv struct {
	W int  `json:"w"` // direct write, if attempted: 0 stored, 1 retryable error, 2 permanent rejection, 3 no answer before the timeout
	Q bool `json:"q"` // hinted-handoff queue of this owner is already non-empty
	H int  `json:"h"` // hinted handoff, if offered: 0 accepts, 1 refuses, 2 refuses with ErrQueueBlocked
}

type desc struct {
	Level  string     `json:"level"` // any | one | quorum | all
	Self   int        `json:"self"`  // node id of the coordinator (owner i has id i+1; len(owners)+1 = not an owner)
	OOO    bool       `json:"ooo"`   // AllowOutOfOrderWrites
	LNF    int        `json:"lnf"`   // local store: 0 shard exists, 1 ErrShardNotFound then CreateShard ok, 2 CreateShard fails
	Perm   int        `json:"perm"`  // wording of the permanent rejection: 0 "field type conflict", 1 "partial write"
	Owners []ownerEnv `json:"owners"`
	Order  []int      `json:"order"` // owner indices in the order their answers arrive (all owners that answer)
}

var levels = map[string]models.ConsistencyLevel{
	"any": models.ConsistencyLevelAny, "one": models.ConsistencyLevelOne,
	"quorum": models.ConsistencyLevelQuorum, "all": models.ConsistencyLevelAll,
}
var levelCoq = map[string]string{"any": "LAny", "one": "LOne", "quorum": "LQuorum", "all": "LAll"}
var levelNames = []string{"any", "one", "quorum", "all"}

func (d *desc) behind(i int) bool { return d.Self != i+1 && !d.OOO && d.Owners[i].Q }
func (d *desc) answers(i int) bool { return d.behind(i) || d.Owners[i].W != 3 }

// sanitise: Order = distinct answering owners as given, then the missing answering owners
func (d *desc) sanitise() {
	seen := map[int]bool{}
	var ord []int
	for _, i := range d.Order {
		if i >= 0 && i < len(d.Owners) && !seen[i] && d.answers(i) {
			seen[i] = true
			ord = append(ord, i)
		}
	}
	for i := range d.Owners {
		if !seen[i] && d.answers(i) {
			ord = append(ord, i)
		}
	}
	d.Order = ord
	if d.Order == nil {
		d.Order = []int{}
	}
	if _, ok := levels[d.Level]; !ok {
		d.Level = "one"
	}
	if d.LNF < 0 || d.LNF > 2 {
		d.LNF = 0
	}
}

// ---------- the fakes ----------

type world struct {
	mu      sync.Mutex
	d       *desc
	n       int
	seen    []bool
	gate    []chan struct{}
	gateOpn []bool
	entered chan int
	hung    chan int
	abort   chan struct{}
	aborted bool
	nfDone  bool
	// observations
	writes, creates, hhs []int
	stored, queued       []bool
}

func newWorld(d *desc) *world {
	n := len(d.Owners)
	w := &world{d: d, n: n, seen: make([]bool, n), gate: make([]chan struct{}, n), gateOpn: make([]bool, n),
		entered: make(chan int, n+1), hung: make(chan int, n+1), abort: make(chan struct{}),
		writes: make([]int, n), creates: make([]int, n), hhs: make([]int, n), stored: make([]bool, n), queued: make([]bool, n)}
	for i := range w.gate {
		w.gate[i] = make(chan struct{})
	}
	return w
}

func (w *world) open(i int) {
	w.mu.Lock()
	if !w.gateOpn[i] {
		w.gateOpn[i] = true
		close(w.gate[i])
	}
	w.mu.Unlock()
}

// enter: the first external call made on behalf of owner i blocks until its gate opens.
func (w *world) enter(i int) {
	w.mu.Lock()
	first := !w.seen[i]
	w.seen[i] = true
	w.mu.Unlock()
	if first {
		w.entered <- i
		<-w.gate[i]
	}
}

var errAborted = errors.New("partial write: harness aborted this owner")

func (w *world) isAborted() bool {
	w.mu.Lock()
	defer w.mu.Unlock()
	return w.aborted
}

func (w *world) permErr(id int) error {
	if w.d.Perm == 1 {
		return fmt.Errorf("partial write: node %d", id)
	}
	return fmt.Errorf("field type conflict node %d", id)
}

// direct write to owner i (local store or remote shard writer)
func (w *world) direct(i int, local bool) error {
	if i < 0 || i >= w.n {
		return fmt.Errorf("unknown-owner")
	}
	if w.isAborted() {
		return errAborted
	}
	w.mu.Lock()
	w.writes[i]++
	w.mu.Unlock()
	w.enter(i)
	if w.isAborted() {
		return errAborted
	}
	e := w.d.Owners[i]
	if e.W == 3 {
		w.hung <- i
		<-w.abort
		return errAborted
	}
	if local && w.d.LNF != 0 {
		w.mu.Lock()
		first := !w.nfDone
		w.nfDone = true
		w.mu.Unlock()
		if first {
			return tsdb.ErrShardNotFound
		}
	}
	switch e.W {
	case 0:
		w.mu.Lock()
		w.stored[i] = true
		w.mu.Unlock()
		return nil
	case 1:
		return fmt.Errorf("w-err node %d", i+1)
	default:
		return w.permErr(i + 1)
	}
}

type fakeStore struct{ w *world }

func (s fakeStore) WriteToShard(shardID uint64, pts []models.Point) error {
	return s.w.direct(s.w.d.Self-1, true)
}
func (s fakeStore) CreateShard(db, rp string, shardID uint64, enabled bool) error {
	i := s.w.d.Self - 1
	if i < 0 || i >= s.w.n || s.w.isAborted() {
		return errAborted
	}
	s.w.mu.Lock()
	s.w.creates[i]++
	s.w.mu.Unlock()
	if s.w.d.LNF == 2 {
		return fmt.Errorf("create-err node %d", i+1)
	}
	return nil
}

type fakeShardWriter struct{ w *world }

func (s fakeShardWriter) WriteShard(shardID, ownerID uint64, pts []models.Point) error {
	return s.w.direct(int(ownerID)-1, false)
}

type fakeHH struct{ w *world }

func (s fakeHH) Empty(shardID, ownerID uint64) bool {
	i := int(ownerID) - 1
	if i < 0 || i >= s.w.n || s.w.isAborted() {
		return true
	}
	s.w.enter(i)
	return !s.w.d.Owners[i].Q
}
func (s fakeHH) WriteShard(shardID, ownerID uint64, pts []models.Point) error {
	i := int(ownerID) - 1
	if i < 0 || i >= s.w.n || s.w.isAborted() {
		return errAborted
	}
	s.w.mu.Lock()
	s.w.hhs[i]++
	s.w.mu.Unlock()
	s.w.enter(i)
	if s.w.isAborted() {
		return errAborted
	}
	switch s.w.d.Owners[i].H {
	case 0:
		s.w.mu.Lock()
		s.w.queued[i] = true
		s.w.mu.Unlock()
		return nil
	case 1:
		return fmt.Errorf("hh-err node %d", i+1)
	default:
		return hh.ErrQueueBlocked
	}
}

type fakeMeta struct {
	w  *world
	sg *meta.ShardGroupInfo
}

func (m fakeMeta) NodeID() uint64                            { return uint64(m.w.d.Self) }
func (m fakeMeta) Database(name string) *meta.DatabaseInfo { return nil }
func (m fakeMeta) RetentionPolicy(db, rp string) (*meta.RetentionPolicyInfo, error) {
	return &meta.RetentionPolicyInfo{Name: "rp", ReplicaN: m.w.n, Duration: 0, ShardGroupDuration: time.Hour}, nil
}
func (m fakeMeta) CreateShardGroup(db, rp string, t time.Time) (*meta.ShardGroupInfo, error) {
	return m.sg, nil
}

// ---------- goroutine observation ----------

var stackBuf = make([]byte, 1<<18)

// goroutines of the write under test: number of per-owner goroutines still alive, and the
// wait state of the collecting goroutine ("" when it is gone).
func observe() (owners int, collector string) {
	n := runtime.Stack(stackBuf, true)
	for n == len(stackBuf) {
		stackBuf = make([]byte, 2*len(stackBuf))
		n = runtime.Stack(stackBuf, true)
	}
	for _, g := range strings.Split(string(stackBuf[:n]), "\n\n") {
		k := strings.LastIndex(g, "created by ")
		if k < 0 {
			continue
		}
		creator := g[k+len("created by "):]
		if e := strings.IndexAny(creator, " \n"); e >= 0 {
			creator = creator[:e]
		}
		switch {
		case strings.HasSuffix(creator, "coordinator.(*PointsWriter).writeToShardWithContext"):
			owners++
		case strings.HasSuffix(creator, "coordinator.(*PointsWriter).WritePointsPrivilegedWithContext"):
			a, b := strings.Index(g, "["), strings.Index(g, "]")
			if a >= 0 && b > a {
				collector = g[a+1 : b]
			} else {
				collector = "?"
			}
		}
	}
	return
}

func pause(k int) {
	if k < 50 {
		runtime.Gosched()
	} else {
		time.Sleep(20 * time.Microsecond)
	}
}

const stuckAfter = 10 * time.Second

// ---------- one run ----------

type ownerObs struct {
	Writes  int  `json:"writes"`
	Creates int  `json:"creates"`
	Stored  bool `json:"stored"`
	HH      int  `json:"hh"`
	Queued  bool `json:"queued"`
}
type obs struct {
	Class  string     `json:"class"`
	Err    string     `json:"err,omitempty"`
	Owners []ownerObs `json:"owners"`
}

// attempt runs the write once with write timeout T; valid=false means the timing guarantee
// could not be established (the run has to be repeated with a larger timeout).
func attempt(d *desc, T time.Duration) (res obs, valid bool) {
	valid = true
	w := newWorld(d)
	n := w.n
	owners := make([]meta.ShardOwner, n)
	for i := range owners {
		owners[i] = meta.ShardOwner{NodeID: uint64(i + 1)}
	}
	now := time.Now()
	sg := &meta.ShardGroupInfo{ID: 1, StartTime: now.Add(-time.Hour), EndTime: now.Add(time.Hour),
		Shards: []meta.ShardInfo{{ID: 1, Owners: owners}}}
	pw := coordinator.NewPointsWriter()
	pw.MetaClient = fakeMeta{w, sg}
	pw.TSDBStore = fakeStore{w}
	pw.ShardWriter = fakeShardWriter{w}
	pw.HintedHandoff = fakeHH{w}
	pw.AllowOutOfOrderWrites = d.OOO
	pw.WriteTimeout = T
	pw.Open()
	pt := models.MustNewPoint("cpu", nil, models.Fields{"v": 1.0}, now)

	type ret struct {
		err      error
		panicked interface{}
	}
	done := make(chan ret, 1)
	baseG := runtime.NumGoroutine()
	t0 := time.Now()
	go func() {
		var r ret
		defer func() {
			if e := recover(); e != nil {
				r.panicked = e
			}
			done <- r
		}()
		r.err = pw.WritePointsPrivileged("db", "rp", levels[d.Level], []models.Point{pt})
	}()

	var final *ret
	stuck := ""
	poll := func() bool { // has the write returned?
		if final != nil {
			return true
		}
		select {
		case r := <-done:
			final = &r
			return true
		default:
			return false
		}
	}
	deadline := time.Now().Add(stuckAfter)
	// 1. every owner goroutine reaches its first external call
	for k := 0; k < n && stuck == ""; k++ {
		select {
		case <-w.entered:
		case r := <-done:
			final = &r
			k = n
		case <-time.After(stuckAfter):
			stuck = "owners did not all start"
		}
	}
	// 2. owners that never answer proceed to their direct write and stay there
	nh := 0
	for i := 0; i < n && stuck == "" && final == nil; i++ {
		if !d.answers(i) {
			w.open(i)
			select {
			case <-w.hung:
				nh++
			case <-time.After(stuckAfter):
				stuck = "silent owner did not reach its direct write"
			}
		}
	}
	// 3. release the answers in order
	released := 0
	for _, i := range d.Order {
		if stuck != "" {
			break
		}
		w.open(i)
		released++
		for k := 0; ; k++ {
			// cheap pre-filter: while more goroutines exist than main + caller + collector +
			// the owners not yet released, the released owner has not finished
			if runtime.NumGoroutine() > baseG+2+n-released && !time.Now().After(deadline) {
				pause(k)
				continue
			}
			ow, col := observe()
			if ow == n-released {
				if poll() {
					break
				}
				if strings.HasPrefix(col, "select") {
					break
				}
				if col == "" { // collector gone: the result is on its way
					select {
					case r := <-done:
						final = &r
					case <-time.After(stuckAfter):
						stuck = "collector goroutine not found and the write did not return"
					}
					break
				}
			}
			if time.Now().After(deadline) {
				stuck = "no quiescence after releasing an owner"
				break
			}
			pause(k)
		}
	}
	// all answers were released and consumed (or the write returned earlier on its own)
	consumedAll := stuck == "" && final == nil
	tready := time.Now()
	if stuck == "" && final == nil {
		select {
		case r := <-done:
			final = &r
		case <-time.After(stuckAfter):
			stuck = "write did not return"
		}
	}
	if final != nil && final.err == coordinator.ErrTimeout && !(consumedAll && tready.Before(t0.Add(T))) {
		// the timer fired (or may have fired) before every released answer was consumed:
		// this run does not realise the requested input
		valid = false
	}
	// 4. snapshot once every answering owner's goroutine is finished
	for k := 0; stuck == ""; k++ {
		ow, _ := observe()
		if ow == n-released {
			break
		}
		if time.Now().After(deadline.Add(stuckAfter)) {
			stuck = "owner goroutines did not finish"
		}
		pause(k)
	}
	w.mu.Lock()
	res.Owners = make([]ownerObs, n)
	for i := 0; i < n; i++ {
		res.Owners[i] = ownerObs{w.writes[i], w.creates[i], w.stored[i], w.hhs[i], w.queued[i]}
	}
	w.aborted = true
	w.mu.Unlock()
	// 5. clean up
	close(w.abort)
	for i := 0; i < n; i++ {
		w.open(i)
	}
	if final == nil {
		select {
		case r := <-done:
			final = &r
		case <-time.After(stuckAfter):
		}
	}
	for k := 0; ; k++ {
		ow, col := observe()
		if ow == 0 && col == "" {
			break
		}
		if time.Now().After(deadline.Add(3 * stuckAfter)) {
			stuck = "goroutines leaked"
			break
		}
		pause(k)
	}
	pw.Close()
	switch {
	case stuck != "":
		res.Class, res.Err = "stuck", stuck
	case final == nil:
		res.Class = "stuck"
	case final.panicked != nil:
		res.Class, res.Err = "panic", fmt.Sprint(final.panicked)
	case final.err == nil:
		res.Class = "success"
	case final.err == coordinator.ErrPartialWrite:
		res.Class = "partial"
	case final.err == coordinator.ErrTimeout:
		res.Class = "timeout"
	case final.err == coordinator.ErrWriteFailed:
		res.Class = "failed"
	case strings.HasPrefix(final.err.Error(), "write failed: "):
		res.Class, res.Err = "failed", strings.TrimPrefix(final.err.Error(), "write failed: ")
	default:
		res.Class, res.Err = "other", final.err.Error()
	}
	return
}

// error text -> Coq term of type option err
func coqErr(s string) (string, bool) {
	var id int
	switch {
	case s == "":
		return "None", true
	case s == hh.ErrQueueBlocked.Error():
		return "(Some EBlocked)", true
	case s == hh.ErrHintedHandoffQueueNotEmpty.Error():
		return "(Some ENotEmpty)", true
	}
	for _, p := range []struct{ f, c string }{{"w-err node %d", "EW"}, {"field type conflict node %d", "EW"},
		{"partial write: node %d", "EW"}, {"hh-err node %d", "EH"}, {"create-err node %d", "EC"}} {
		if k, _ := fmt.Sscanf(s, p.f, &id); k == 1 && fmt.Sprintf(p.f, id) == s {
			return fmt.Sprintf("(Some (%s %d))", p.c, id), true
		}
	}
	return "None", false
}

var wCoq = []string{"WOk", "WRetry", "WPerm", "WHang"}
var hCoq = []string{"HAccept", "HRefuse", "HBlocked"}
var nfCoq = []string{"NfNone", "NfCreateOk", "NfCreateFail"}
var classCode = map[string]int{"success": 0, "partial": 1, "failed": 2, "timeout": 3}

// begin records the input about to run in OUT/progress.json (what hx.Out.Begin does, but
// through one persistent descriptor: tens of thousands of tiny cases per run).
var progressFile *os.File

func begin(o *hx.Out, d desc) {
	if progressFile == nil {
		o.Begin("write", d)
		return
	}
	b, _ := json.Marshal(map[string]interface{}{"kind": "write", "desc": d})
	progressFile.WriteAt(b, 0)
	progressFile.Truncate(int64(len(b)))
}

func runCase(o *hx.Out, d desc, origin string) {
	d.sanitise()
	begin(o, d)
	n := len(d.Owners)
	silent := false
	for i := range d.Owners {
		if !d.answers(i) {
			silent = true
		}
	}
	var res obs
	T := time.Hour
	if silent {
		T = 2 * time.Millisecond
	}
	for try := 0; ; try++ {
		var valid bool
		res, valid = attempt(&d, T)
		if valid || try >= 6 {
			break
		}
		o.Count("timing-retry")
		T *= 4
	}
	cls, ok := classCode[res.Class]
	ce, ok2 := coqErr(res.Err)
	if !ok || !ok2 {
		cls = 9
	}
	var os, oo []string
	for i, e := range d.Owners {
		os = append(os, fmt.Sprintf("mkO %d %s %s %s", i+1, wCoq[e.W&3], hx.CoqBool(e.Q), hCoq[e.H%3]))
		r := res.Owners[i]
		oo = append(oo, fmt.Sprintf("ob %d %d %s %d %s", r.Writes, r.Creates, hx.CoqBool(r.Stored), r.HH, hx.CoqBool(r.Queued)))
	}
	ord := make([]uint64, len(d.Order))
	for i, x := range d.Order {
		ord[i] = uint64(x)
	}
	coq := fmt.Sprintf("CWrite %s %d %s %s %s %s %d %s %s", levelCoq[d.Level], d.Self, hx.CoqBool(d.OOO), nfCoq[d.LNF],
		hx.CoqList(os), hx.CoqNList(ord), cls, ce, hx.CoqList(oo))
	o.Count(fmt.Sprintf("owners=%d", n))
	o.Count("level=" + d.Level)
	o.Count("class=" + res.Class)
	if d.Self >= 1 && d.Self <= n {
		o.Count("coordinator=owner")
	} else {
		o.Count("coordinator=not-owner")
	}
	if d.OOO {
		o.Count("allow-out-of-order")
	}
	if d.LNF != 0 {
		o.Count(fmt.Sprintf("local-shard-not-found=%d", d.LNF))
	}
	nontriv := false
	for i, e := range d.Owners {
		switch {
		case d.behind(i):
			o.Count(fmt.Sprintf("owner:behind-queue,hh=%d", e.H))
		case e.W == 1 && d.Self != i+1:
			o.Count(fmt.Sprintf("owner:retryable,hh=%d", e.H))
		default:
			o.Count(fmt.Sprintf("owner:w=%d", e.W))
		}
		if e.W != 0 || d.behind(i) {
			nontriv = true
		}
	}
	b, _ := json.Marshal(d)
	o.Emit(hx.Case{Kind: "write", Coq: coq, Desc: d, Obs: res, Nontrivial: nontriv || n >= 2, Sig: string(b), Origin: origin})
}

// ---------- generation ----------

// the seven scenarios named by the property
var named = []ownerEnv{
	{W: 0},                // stored
	{W: 1, H: 0},          // retryable failure, handoff accepts
	{W: 1, H: 1},          // retryable failure, handoff refuses
	{W: 2},                // permanent rejection
	{W: 0, Q: true, H: 0}, // handoff queue non-empty, enqueue accepted
	{W: 0, Q: true, H: 1}, // handoff queue non-empty, enqueue refused
	{W: 3},                // no answer before the timeout
}

func permutations(xs []int, f func([]int)) {
	var rec func(k int)
	a := append([]int(nil), xs...)
	rec = func(k int) {
		if k == len(a) {
			f(append([]int{}, a...))
			return
		}
		for i := k; i < len(a); i++ {
			a[k], a[i] = a[i], a[k]
			rec(k + 1)
			a[k], a[i] = a[i], a[k]
		}
	}
	rec(0)
}

func exhaustive(o *hx.Out, n int, selfs []int, ooo bool) {
	idx := make([]int, n)
	for {
		owners := make([]ownerEnv, n)
		for i := range owners {
			owners[i] = named[idx[i]]
		}
		for _, self := range selfs {
			base := desc{Self: self, OOO: ooo, Owners: owners}
			var ans []int
			for i := range owners {
				if base.answers(i) {
					ans = append(ans, i)
				}
			}
			permutations(ans, func(ord []int) {
				for _, lv := range levelNames {
					d := base
					d.Level = lv
					d.Order = ord
					runCase(o, d, "exhaustive")
				}
			})
		}
		k := 0
		for k < n {
			idx[k]++
			if idx[k] < len(named) {
				break
			}
			idx[k] = 0
			k++
		}
		if k == n {
			return
		}
	}
}

func sample(r *hx.Rand) desc {
	n := 1 + r.Intn(5)
	if r.Chance(50) {
		n = 4
	}
	d := desc{Level: levelNames[r.Intn(4)], Self: 1 + r.Intn(n+1), OOO: r.Chance(20), Perm: r.Intn(2)}
	if r.Chance(40) {
		d.Self = n + 1
	}
	if d.Self <= n && r.Chance(40) {
		d.LNF = 1 + r.Intn(2)
	}
	for i := 0; i < n; i++ {
		var e ownerEnv
		if r.Chance(60) {
			e = named[r.Intn(len(named))]
			if e.H == 1 && r.Chance(30) {
				e.H = 2
			}
		} else {
			e = ownerEnv{W: r.Intn(4), Q: r.Bool(), H: r.Intn(3)}
		}
		d.Owners = append(d.Owners, e)
	}
	var ans []int
	for i := range d.Owners {
		if d.answers(i) {
			ans = append(ans, i)
		}
	}
	for i := len(ans) - 1; i > 0; i-- {
		j := r.Intn(i + 1)
		ans[i], ans[j] = ans[j], ans[i]
	}
	d.Order = ans
	return d
}

func main() {
	// one P: the cheapest stop-the-world for runtime.Stack and the fewest scheduling
	// surprises; the ordering guarantees do not depend on it (they are observed, see attempt).
	if os.Getenv("GOMAXPROCS") == "" {
		runtime.GOMAXPROCS(1)
	}
	f := hx.ParseFlags()
	o := hx.NewOut(f.OutDir)
	defer o.Close()
	progressFile, _ = os.OpenFile(filepath.Join(f.OutDir, "progress.json"), os.O_CREATE|os.O_WRONLY|os.O_TRUNC, 0644)
	if f.In != "" {
		for _, in := range hx.ReadInputs(f.In) {
			if in.Kind == "level" {
				var ld levelDesc
				if err := json.Unmarshal(in.Desc, &ld); err == nil {
					runLevel(o, ld, "replay")
				}
				continue
			}
			if in.Kind == "batch" {
				bd := bDesc{Close: -1}
				if err := json.Unmarshal(in.Desc, &bd); err == nil {
					runBatch(o, bd, "replay")
				}
				continue
			}
			if in.Kind == "hh" {
				var hd hhDesc
				if err := json.Unmarshal(in.Desc, &hd); err == nil {
					runHH(o, hd, "replay")
				}
				continue
			}
			if in.Kind == "remote" {
				var rd remoteDesc
				if err := json.Unmarshal(in.Desc, &rd); err == nil {
					runRemote(o, rd, "replay")
				}
				continue
			}
			var d desc
			if err := json.Unmarshal(in.Desc, &d); err != nil {
				continue
			}
			runCase(o, d, "replay")
		}
		return
	}
	// the requested level: the `consistency` parameter through the real parser
	for _, ld := range levelInputs(hx.NewRand(f.Seed^0xc03), 150) {
		runLevel(o, ld, "gen")
	}
	// designed: no owners at all; every handoff-refusal flavour; both rejection wordings
	for _, lv := range levelNames {
		runCase(o, desc{Level: lv, Self: 1, Owners: []ownerEnv{}}, "designed")
		for _, h := range []int{0, 1, 2} {
			q := ownerEnv{W: 0, Q: true, H: h}
			rt := ownerEnv{W: 1, H: h}
			runCase(o, desc{Level: lv, Self: 4, Owners: []ownerEnv{q, q, q}, Order: []int{0, 1, 2}}, "designed")
			runCase(o, desc{Level: lv, Self: 4, Owners: []ownerEnv{rt, rt, rt}, Order: []int{2, 1, 0}}, "designed")
			runCase(o, desc{Level: lv, Self: 1, Owners: []ownerEnv{{W: 2}, q, rt}, Order: []int{2, 1, 0}, Perm: 1}, "designed")
			for _, nf := range []int{1, 2} {
				runCase(o, desc{Level: lv, Self: 2, LNF: nf, Owners: []ownerEnv{rt, {W: 0}, q}, Order: []int{1, 0, 2}}, "designed")
				runCase(o, desc{Level: lv, Self: 2, LNF: nf, Owners: []ownerEnv{rt, {W: 3}, q}, Order: []int{0, 2}}, "designed")
			}
		}
	}
	// the real hh.Service behind the points writer; the real ShardWriter against a scripted node
	genHH(o, hx.NewRand(f.Seed^0xc0311), f.N/25+20)
	genRemote(o, hx.NewRand(f.Seed^0xc0322), f.N/200+6)
	// batches over several shards
	genBatches(o, hx.NewRand(f.Seed^0xc0333), f.N/4, f.Tier == "thorough")
	// exhaustive over the named scenarios
	exhaustive(o, 1, []int{2, 1}, false)
	exhaustive(o, 2, []int{3, 1, 2}, false)
	if f.Tier == "thorough" {
		exhaustive(o, 3, []int{4, 1, 2, 3}, false)
	} else {
		exhaustive(o, 3, []int{4, 1}, false)
	}
	exhaustive(o, 1, []int{2, 1}, true)
	exhaustive(o, 2, []int{3, 1}, true)
	if f.Tier == "thorough" {
		exhaustive(o, 3, []int{4, 2}, true)
	}
	// sampled: 4..5 owners, full environment product, shard-not-found path, out-of-order mode
	r := hx.NewRand(f.Seed)
	for i := 0; i < f.N; i++ {
		runCase(o, sample(r), "gen")
	}
}
