// kind "remote": a sequence of writes through the real PointsWriter whose ShardWriter is the
// REAL coordinator.ShardWriter (with its connection pool) talking to a scripted in-process TCP
// node.  For every request the node stores+acknowledges in time, answers an error in time,
// answers only after the client's read timeout (ack or error), never answers, or hangs up.
// Observed per write: was success reported, and did the node store and acknowledge THIS write.
package main

import (
	"fmt"
	"io"
	"net"
	"strings"
	"sync"
	"time"

	"github.com/influxdata/influxdb/coordinator"
	"github.com/influxdata/influxdb/models"
	"github.com/influxdata/influxdb/services/meta"
	"verifharness/hx"
)

type remoteDesc struct {
	Script []int `json:"script"` // per write: 0 ack, 1 error, 2 late ack, 3 late error, 4 silent, 5 hang up
}

var rCoq = []string{"RAck", "RErr", "RLateAck", "RLateErr", "RSilent", "RHangup"}

const remoteShard = 31
const remoteNode = 2

type rnode struct {
	mu       sync.Mutex
	script   []int
	got      map[int]bool            // write id -> request received
	returned map[int]chan struct{}   // closed when the client's WritePoints call for that write has returned
	lateDone map[int]chan struct{}   // closed when the late reply of that write has been written (or failed)
	ln       net.Listener
	conns    []net.Conn
}

func (n *rnode) serve() {
	for {
		c, err := n.ln.Accept()
		if err != nil {
			return
		}
		n.mu.Lock()
		n.conns = append(n.conns, c)
		n.mu.Unlock()
		go n.handle(c)
	}
}

func reply(c net.Conn, code int, msg string) error {
	var resp coordinator.WriteShardResponse
	resp.SetCode(code)
	resp.SetMessage(msg)
	buf, err := resp.MarshalBinary()
	if err != nil {
		return err
	}
	return coordinator.WriteTLV(c, coordinator.VerifRequestTypes()["WriteShard"]+1, buf)
}

func (n *rnode) handle(c net.Conn) {
	defer c.Close()
	var hdr [1]byte
	if _, err := io.ReadFull(c, hdr[:]); err != nil {
		return
	}
	for {
		_, buf, err := coordinator.ReadTLV(c)
		if err != nil {
			return
		}
		var req coordinator.WriteShardRequest
		if err := req.UnmarshalBinary(buf); err != nil {
			return
		}
		wid := -1
		if pts := req.Points(); len(pts) > 0 {
			if f, err := pts[0].Fields(); err == nil {
				if v, ok := f["v"].(int64); ok {
					wid = int(v)
				}
			}
		}
		n.mu.Lock()
		k := -1
		if wid >= 1 && wid <= len(n.script) {
			k = n.script[wid-1]
			n.got[wid] = true
		}
		ret, late := n.returned[wid], n.lateDone[wid]
		n.mu.Unlock()
		switch k {
		case 0:
			if reply(c, 0, "") != nil {
				return
			}
		case 1:
			if reply(c, 1, "field type conflict (scripted)") != nil {
				return
			}
		case 2, 3:
			<-ret // the client gave up on this write
			var err error
			if k == 2 {
				err = reply(c, 0, "")
			} else {
				err = reply(c, 1, "field type conflict (scripted, late)")
			}
			close(late)
			if err != nil {
				return
			}
		case 4:
			// no reply; keep reading
		default:
			return // hang up
		}
	}
}

type rMeta struct {
	addr string
	sg   *meta.ShardGroupInfo
}

func (m rMeta) NodeID() uint64                            { return 1 }
func (m rMeta) Database(name string) *meta.DatabaseInfo { return nil }
func (m rMeta) RetentionPolicy(db, rp string) (*meta.RetentionPolicyInfo, error) {
	return &meta.RetentionPolicyInfo{Name: "rp", ReplicaN: 1, Duration: 0, ShardGroupDuration: time.Hour}, nil
}
func (m rMeta) CreateShardGroup(db, rp string, t time.Time) (*meta.ShardGroupInfo, error) {
	return m.sg, nil
}
func (m rMeta) DataNode(id uint64) (*meta.NodeInfo, error) {
	return &meta.NodeInfo{ID: id, TCPAddr: m.addr}, nil
}
func (m rMeta) ShardOwner(shardID uint64) (string, string, *meta.ShardGroupInfo) {
	return "db", "rp", m.sg
}

// handoff always refuses: a failed remote write is a failed cluster write
type rHH struct{}

func (rHH) Empty(shardID, ownerID uint64) bool { return true }
func (rHH) WriteShard(shardID, ownerID uint64, pts []models.Point) error {
	return fmt.Errorf("hinted handoff disabled (harness)")
}

type rStore struct{}

func (rStore) WriteToShard(shardID uint64, pts []models.Point) error { return fmt.Errorf("not an owner") }
func (rStore) CreateShard(db, rp string, shardID uint64, enabled bool) error {
	return nil
}

type remoteObs struct {
	Outs     []bool   `json:"success"`
	Acked    []bool   `json:"acked"`
	Errs     []string `json:"errs"`
	TimedOut bool     `json:"-"`
}

func remoteAttempt(d *remoteDesc, timeout time.Duration) (res remoteObs, slow bool) {
	ln, err := net.Listen("tcp", "127.0.0.1:0")
	if err != nil {
		res.Errs = []string{"listen: " + err.Error()}
		return
	}
	n := &rnode{script: d.Script, got: map[int]bool{}, returned: map[int]chan struct{}{}, lateDone: map[int]chan struct{}{}, ln: ln}
	for j := range d.Script {
		n.returned[j+1] = make(chan struct{})
		n.lateDone[j+1] = make(chan struct{})
	}
	go n.serve()
	now := time.Now()
	sg := &meta.ShardGroupInfo{ID: 1, StartTime: now.Add(-time.Hour), EndTime: now.Add(time.Hour),
		Shards: []meta.ShardInfo{{ID: remoteShard, Owners: []meta.ShardOwner{{NodeID: remoteNode}}}}}
	m := rMeta{ln.Addr().String(), sg}
	sw := coordinator.NewShardWriter(timeout, 2*time.Second, time.Hour, 4)
	sw.MetaClient = m
	pw := coordinator.NewPointsWriter()
	pw.MetaClient = m
	pw.TSDBStore = rStore{}
	pw.ShardWriter = sw
	pw.HintedHandoff = rHH{}
	pw.WriteTimeout = time.Minute
	pw.Open()
	for j, k := range d.Script {
		wid := j + 1
		pt := models.MustNewPoint("cpu", nil, models.Fields{"v": int64(wid)}, now.Add(time.Duration(j)*time.Millisecond))
		var err error
		func() {
			defer func() {
				if e := recover(); e != nil {
					err = fmt.Errorf("panic: %v", e)
				}
			}()
			err = pw.WritePointsPrivileged("db", "rp", models.ConsistencyLevelOne, []models.Point{pt})
		}()
		close(n.returned[wid])
		res.Outs = append(res.Outs, err == nil)
		es := ""
		if err != nil {
			es = err.Error()
			// a reply that was sent in time but took longer than the read timeout on a busy machine
			if (k == 0 || k == 1) && strings.Contains(es, "timeout") {
				slow = true
			}
		}
		res.Errs = append(res.Errs, es)
		n.mu.Lock()
		got := n.got[wid]
		n.mu.Unlock()
		res.Acked = append(res.Acked, got && (k == 0 || k == 2))
		if (k == 2 || k == 3) && got {
			// let the late reply go out and reach the client's socket before the next write
			select {
			case <-n.lateDone[wid]:
			case <-time.After(2 * time.Second):
			}
			time.Sleep(3 * time.Millisecond)
		}
	}
	pw.Close()
	sw.Close()
	ln.Close()
	n.mu.Lock()
	for _, c := range n.conns {
		c.Close()
	}
	n.mu.Unlock()
	return
}

func runRemote(o *hx.Out, d remoteDesc, origin string) {
	if len(d.Script) > 6 {
		d.Script = d.Script[:6]
	}
	for i := range d.Script {
		d.Script[i] = ((d.Script[i] % 6) + 6) % 6
	}
	o.Begin("remote", d)
	timeout := 120 * time.Millisecond
	var res remoteObs
	for try := 0; try < 4; try++ {
		var slow bool
		res, slow = remoteAttempt(&d, timeout)
		if !slow {
			break
		}
		o.Count("remote:timing-retry")
		timeout *= 3
	}
	var sc, outs, acked []string
	for j, k := range d.Script {
		sc = append(sc, rCoq[k])
		o.Count("remote:" + rCoq[k])
		if j < len(res.Outs) {
			outs = append(outs, hx.CoqBool(res.Outs[j]))
			acked = append(acked, hx.CoqBool(res.Acked[j]))
		}
	}
	coq := fmt.Sprintf("CRemote %s %s %s", hx.CoqList(sc), hx.CoqList(outs), hx.CoqList(acked))
	o.Emit(hx.Case{Kind: "remote", Coq: coq, Desc: d, Obs: res, Nontrivial: len(d.Script) >= 2, Sig: fmt.Sprintf("remote:%v", d.Script), Origin: origin})
}

func genRemote(o *hx.Out, r *hx.Rand, n int) {
	ds := []remoteDesc{
		{Script: []int{0}}, {Script: []int{0, 0, 0}}, {Script: []int{1, 0}}, {Script: []int{2, 1}}, {Script: []int{2, 4}},
		{Script: []int{2, 0}}, {Script: []int{3, 0}}, {Script: []int{4, 0}}, {Script: []int{5, 0}}, {Script: []int{2, 2, 1}},
		{Script: []int{0, 2, 1, 0}}, {Script: []int{2, 3, 0}}, {Script: []int{3, 1, 0}}, {Script: []int{2, 5, 0}},
	}
	for k := 0; k < n; k++ {
		var s []int
		for j := 2 + r.Intn(3); j > 0; j-- {
			if r.Chance(45) {
				s = append(s, r.Intn(2))
			} else {
				s = append(s, 2+r.Intn(4))
			}
		}
		ds = append(ds, remoteDesc{Script: s})
	}
	runRemoteSet(o, ds, "gen")
}

func runRemoteSet(o *hx.Out, ds []remoteDesc, origin string) {
	for _, d := range ds {
		runRemote(o, d, origin)
	}
}
