// kind "hh": a sequence of writes to one shard through the real PointsWriter with the REAL
// hh.Service (small max-size, nothing drains: the owners are down) as its HintedHandoff.
// Observed: the class reported for every write, which owner's store received which write, and
// - after closing the service - the blocks found in every owner's queue directory when it is
// drained through a fresh queue (so "queued" means: durably there).
package main

import (
	"fmt"
	"os"
	"path/filepath"
	"sort"
	"strings"
	"sync"
	"time"

	"github.com/influxdata/influxdb/coordinator"
	"github.com/influxdata/influxdb/models"
	"github.com/influxdata/influxdb/services/hh"
	"github.com/influxdata/influxdb/services/meta"
	"github.com/influxdata/influxdb/toml"
	"verifharness/hx"
)

type hhWrite struct {
	Level string `json:"level"`
	W     []int  `json:"w"`   // per owner: direct write 0 stored, 1 retryable error, 2 permanent rejection
	Pts   int    `json:"pts"` // points in the write (block size)
}

type hhDesc struct {
	Self    int       `json:"self"`
	OOO     bool      `json:"ooo"`
	Enabled bool      `json:"enabled"`
	Max     int64     `json:"max"` // hinted-handoff max-size in bytes
	Owners  []int     `json:"owners"`
	Writes  []hhWrite `json:"writes"`
}

const hhShard = 21

func (d *hhDesc) sanitise() {
	seen := map[int]bool{}
	var os []int
	for _, id := range d.Owners {
		if id >= 1 && !seen[id] && len(os) < 4 {
			seen[id] = true
			os = append(os, id)
		}
	}
	d.Owners = os
	if d.Self < 1 {
		d.Self = 1
	}
	if d.Max < 0 {
		d.Max = 0
	}
	if d.Max > 1<<20 {
		d.Max = 1 << 20
	}
	if len(d.Writes) > 12 {
		d.Writes = d.Writes[:12]
	}
	for j := range d.Writes {
		w := &d.Writes[j]
		if _, ok := levels[w.Level]; !ok {
			w.Level = "any"
		}
		if w.Pts < 1 {
			w.Pts = 1
		}
		if w.Pts > 20 {
			w.Pts = 20
		}
		for len(w.W) < len(d.Owners) {
			w.W = append(w.W, 1)
		}
		w.W = w.W[:len(d.Owners)]
		for i := range w.W {
			w.W[i] = ((w.W[i] % 3) + 3) % 3
		}
	}
}

type hhWorld struct {
	mu     sync.Mutex
	d      *hhDesc
	cur    int // index of the write in progress
	stores [][2]int
}

func (w *hhWorld) direct(ownerID uint64) error {
	w.mu.Lock()
	defer w.mu.Unlock()
	for i, id := range w.d.Owners {
		if uint64(id) == ownerID {
			switch w.d.Writes[w.cur].W[i] {
			case 0:
				w.stores = append(w.stores, [2]int{w.cur, i})
				return nil
			case 1:
				return fmt.Errorf("w-err node %d", ownerID)
			default:
				return fmt.Errorf("field type conflict node %d", ownerID)
			}
		}
	}
	return fmt.Errorf("unknown-owner")
}

type hhStore struct{ w *hhWorld }

func (s hhStore) WriteToShard(shardID uint64, pts []models.Point) error { return s.w.direct(uint64(s.w.d.Self)) }
func (s hhStore) CreateShard(db, rp string, shardID uint64, enabled bool) error {
	return nil
}

type hhShardWriter struct{ w *hhWorld }

func (s hhShardWriter) WriteShard(shardID, ownerID uint64, pts []models.Point) error {
	return s.w.direct(ownerID)
}

type hhMeta struct {
	self uint64
	sg   *meta.ShardGroupInfo
}

func (m hhMeta) NodeID() uint64                            { return m.self }
func (m hhMeta) Database(name string) *meta.DatabaseInfo { return nil }
func (m hhMeta) RetentionPolicy(db, rp string) (*meta.RetentionPolicyInfo, error) {
	return &meta.RetentionPolicyInfo{Name: "rp", ReplicaN: 1, Duration: 0, ShardGroupDuration: time.Hour}, nil
}
func (m hhMeta) CreateShardGroup(db, rp string, t time.Time) (*meta.ShardGroupInfo, error) {
	return m.sg, nil
}

// the handoff service's own view of the cluster: every owner is unknown (down), nothing drains
type hhNodes struct{}

func (hhNodes) DataNode(id uint64) (*meta.NodeInfo, error) { return nil, nil }

type hhNoWriter struct{}

func (hhNoWriter) WriteShardBinary(shardID, ownerID uint64, points [][]byte) error {
	return fmt.Errorf("connection refused")
}

type hhObs struct {
	Classes []string `json:"classes"`
	Stores  [][2]int `json:"stores"` // (owner node id, write id)
	Queues  [][]int  `json:"queues"` // per owner: write ids of the blocks in its queue
	Err     string   `json:"err,omitempty"`
}

func runHH(o *hx.Out, d hhDesc, origin string) {
	d.sanitise()
	o.Begin("hh", d)
	var res hhObs
	blens := make([]int, len(d.Writes))
	func() {
		defer func() {
			if e := recover(); e != nil {
				res.Err = fmt.Sprint("panic: ", e)
			}
		}()
		dir, err := os.MkdirTemp("", "c03hh")
		if err != nil {
			res.Err = err.Error()
			return
		}
		defer os.RemoveAll(dir)
		cfg := hh.NewConfig()
		cfg.Enabled = d.Enabled
		cfg.Dir = dir
		cfg.MaxSize = d.Max
		cfg.RetryInterval = toml.Duration(time.Hour)
		cfg.RetryMaxInterval = toml.Duration(time.Hour)
		cfg.PurgeInterval = toml.Duration(time.Hour)
		svc := hh.NewService(cfg, hhNoWriter{})
		svc.MetaClient = hhNodes{}
		if err := svc.Open(); err != nil {
			res.Err = "open: " + err.Error()
			return
		}
		w := &hhWorld{d: &d}
		owners := make([]meta.ShardOwner, len(d.Owners))
		for i, id := range d.Owners {
			owners[i] = meta.ShardOwner{NodeID: uint64(id)}
		}
		now := time.Now()
		sg := &meta.ShardGroupInfo{ID: 1, StartTime: now.Add(-time.Hour), EndTime: now.Add(time.Hour),
			Shards: []meta.ShardInfo{{ID: hhShard, Owners: owners}}}
		pw := coordinator.NewPointsWriter()
		pw.MetaClient = hhMeta{uint64(d.Self), sg}
		pw.TSDBStore = hhStore{w}
		pw.ShardWriter = hhShardWriter{w}
		pw.HintedHandoff = svc
		pw.AllowOutOfOrderWrites = d.OOO
		pw.WriteTimeout = time.Minute
		pw.Open()
		for j, wr := range d.Writes {
			w.mu.Lock()
			w.cur = j
			w.mu.Unlock()
			var pts []models.Point
			for k := 0; k < wr.Pts; k++ {
				pts = append(pts, models.MustNewPoint("cpu", nil, models.Fields{"v": int64(j + 1)}, now.Add(time.Duration(k)*time.Millisecond)))
			}
			blens[j] = len(hh.VerifMarshalWrite(hhShard, pts))
			err := pw.WritePointsPrivileged("db", "rp", levels[wr.Level], pts)
			// the write may return as soon as the level is met: let the remaining owner goroutines
			// of THIS write finish before the next one starts (and before the service is closed)
			for k := 0; ; k++ {
				if ow, _ := observe(); ow == 0 {
					break
				}
				pause(k)
			}
			switch {
			case err == nil:
				res.Classes = append(res.Classes, "success")
			case err == coordinator.ErrPartialWrite:
				res.Classes = append(res.Classes, "partial")
			case err == coordinator.ErrTimeout:
				res.Classes = append(res.Classes, "timeout")
			case err == coordinator.ErrWriteFailed || strings.HasPrefix(err.Error(), "write failed: "):
				res.Classes = append(res.Classes, "failed")
			default:
				res.Classes = append(res.Classes, "other:"+err.Error())
			}
		}
		pw.Close()
		if err := svc.Close(); err != nil {
			res.Err = "close: " + err.Error()
			return
		}
		// drain every owner's queue directory through a fresh queue
		for _, id := range d.Owners {
			ids := []int{}
			qdir := filepath.Join(dir, fmt.Sprint(id), fmt.Sprint(hhShard))
			if _, err := os.Stat(qdir); err == nil {
				q, err := hh.VerifNewQueue(qdir, 1<<40, 10)
				if err == nil {
					err = q.Open()
				}
				if err != nil {
					res.Err = "drain open: " + err.Error()
					return
				}
				for n := 0; n < 1000; n++ {
					b, err := q.Current()
					if err != nil {
						break
					}
					_, raw, err := hh.VerifUnmarshalWrite(b)
					wid := -1
					if err == nil && len(raw) > 0 {
						if p, err := models.NewPointFromBytes(raw[0]); err == nil {
							if f, err := p.Fields(); err == nil {
								if v, ok := f["v"].(int64); ok {
									wid = int(v)
								}
							}
						}
					}
					ids = append(ids, wid)
					if err := q.Advance(); err != nil {
						break
					}
				}
				q.Close()
			}
			res.Queues = append(res.Queues, ids)
		}
		w.mu.Lock()
		sort.Slice(w.stores, func(a, b int) bool {
			if w.stores[a][0] != w.stores[b][0] {
				return w.stores[a][0] < w.stores[b][0]
			}
			return w.stores[a][1] < w.stores[b][1]
		})
		for _, s := range w.stores {
			res.Stores = append(res.Stores, [2]int{d.Owners[s[1]], s[0] + 1})
		}
		w.mu.Unlock()
	}()
	// Coq case
	var ids []uint64
	for _, id := range d.Owners {
		ids = append(ids, uint64(id))
	}
	var ws, cls, st, qs []string
	bad := res.Err != "" || len(res.Classes) != len(d.Writes)
	for j, wr := range d.Writes {
		var env []string
		for _, x := range wr.W {
			env = append(env, wCoq[x])
		}
		ws = append(ws, fmt.Sprintf("mkW %d %s %s %d", j+1, levelCoq[wr.Level], hx.CoqList(env), blens[j]))
		c := 9
		if j < len(res.Classes) {
			if k, ok := classCode[res.Classes[j]]; ok {
				c = k
			}
		}
		if bad {
			c = 9
		}
		cls = append(cls, fmt.Sprint(c))
		if j < len(res.Classes) {
			o.Count("hh:class=" + strings.SplitN(res.Classes[j], ":", 2)[0])
		}
	}
	for _, s := range res.Stores {
		st = append(st, fmt.Sprintf("(%d, %d)", s[0], s[1]))
	}
	full := false
	for _, q := range res.Queues {
		var xs []uint64
		for _, x := range q {
			if x < 0 {
				x = 9999
			}
			xs = append(xs, uint64(x))
		}
		qs = append(qs, hx.CoqNList(xs))
	}
	for _, q := range res.Queues {
		if len(q) > 0 {
			full = true
		}
	}
	if full {
		o.Count("hh:something-queued")
	}
	if !d.Enabled {
		o.Count("hh:disabled")
	}
	coq := fmt.Sprintf("CHH %d %s %s %d %s %s %s %s %s", d.Self, hx.CoqBool(d.OOO), hx.CoqBool(d.Enabled), d.Max,
		hx.CoqNList(ids), hx.CoqList(ws), "["+strings.Join(cls, "; ")+"]", hx.CoqList(st), hx.CoqList(qs))
	o.Emit(hx.Case{Kind: "hh", Coq: coq, Desc: d, Obs: res, Nontrivial: len(d.Writes) >= 2, Sig: fmt.Sprintf("hh:%+v", d), Origin: origin})
}

func genHH(o *hx.Out, r *hx.Rand, n int) {
	// designed: one remote owner that is down, the queue fills up under `any`
	// a one-point block is 8 (shard id) + 4 + point bytes; usage starts with the 8-byte footer
	for _, max := range []int64{0, 8, 60, 100, 130, 200, 400} {
		for _, lv := range []string{"any", "one"} {
			var ws []hhWrite
			for j := 0; j < 6; j++ {
				ws = append(ws, hhWrite{Level: lv, W: []int{1}, Pts: 1})
			}
			runHH(o, hhDesc{Self: 9, Enabled: true, Max: max, Owners: []int{2}, Writes: ws}, "designed")
		}
	}
	runHH(o, hhDesc{Self: 9, Enabled: false, Max: 1000, Owners: []int{2, 3}, Writes: []hhWrite{{Level: "any", W: []int{1, 1}, Pts: 1}, {Level: "any", W: []int{0, 1}, Pts: 1}}}, "designed")
	runHH(o, hhDesc{Self: 2, Enabled: true, Max: 150, Owners: []int{2, 3, 4}, Writes: []hhWrite{{Level: "quorum", W: []int{0, 1, 1}, Pts: 1}, {Level: "quorum", W: []int{0, 0, 0}, Pts: 2},
		{Level: "any", W: []int{2, 1, 1}, Pts: 3}, {Level: "any", W: []int{1, 1, 1}, Pts: 1}}}, "designed")
	for k := 0; k < n; k++ {
		no := 1 + r.Intn(3)
		d := hhDesc{Self: 1 + r.Intn(4), OOO: r.Chance(15), Enabled: !r.Chance(8), Max: int64(r.Intn(420))}
		if r.Chance(10) {
			d.Max = int64(r.Intn(3000))
		}
		for i := 0; i < no; i++ {
			d.Owners = append(d.Owners, i+1)
		}
		nw := 2 + r.Intn(7)
		for j := 0; j < nw; j++ {
			w := hhWrite{Level: levelNames[r.Intn(4)], Pts: 1 + r.Intn(3)}
			if r.Chance(55) {
				w.Level = "any"
			}
			for i := 0; i < no; i++ {
				x := 1
				if r.Chance(30) {
					x = r.Intn(3)
				}
				w.W = append(w.W, x)
			}
			d.Writes = append(d.Writes, w)
		}
		runHH(o, d, "gen")
	}
}
