package main

import (
	"fmt"
	"strings"

	"github.com/influxdata/influxdb/models"
	"verifharness/hx"
)

// kind "level": the `consistency` parameter of a write request through the real
// models.ParseConsistencyLevel
type levelDesc struct {
	Param []byte `json:"param"`
}

func runLevel(o *hx.Out, d levelDesc, origin string) {
	o.Begin("level", d)
	var lv models.ConsistencyLevel
	var err error
	func() {
		defer func() {
			if e := recover(); e != nil {
				err = fmt.Errorf("panic: %v", e)
			}
		}()
		lv, err = models.ParseConsistencyLevel(string(d.Param))
	}()
	ok := err == nil
	num := uint64(0)
	if ok && lv >= 0 {
		num = uint64(lv)
	}
	if ok {
		o.Count("level:accepted")
	} else {
		o.Count("level:refused")
	}
	o.Emit(hx.Case{Kind: "level", Coq: fmt.Sprintf("CLevel %s %s %d", hx.CoqBytes(d.Param), hx.CoqBool(ok), num), Desc: d,
		Obs: map[string]interface{}{"accepted": ok, "level": num}, Nontrivial: true, Sig: "lv:" + string(d.Param), Origin: origin})
}

func levelInputs(r *hx.Rand, n int) []levelDesc {
	names := []string{"any", "one", "quorum", "all"}
	var out []levelDesc
	add := func(s string) { out = append(out, levelDesc{Param: []byte(s)}) }
	for _, nm := range names {
		add(nm)
		add(strings.ToUpper(nm))
		add(strings.Title(nm))
		add(nm + " ")
		add(" " + nm)
		add(nm[:len(nm)-1])
		add(nm + nm[len(nm)-1:])
	}
	// non-ASCII: Kelvin sign lowers to 'k', dotted capital I lowers to i + combining dot, full-width letters
	for _, s := range []string{"", "0", "1", "ONE\x00", "K", "quKorum", "İ", "aİl", "ａｌｌ", "ÅLL", "öne", "an\xff", "QUORUM\n", "all\t"} {
		add(s)
	}
	for i := 0; i < n; i++ {
		nm := []byte(names[r.Intn(4)])
		switch r.Intn(6) {
		case 0, 1, 2: // random letter case
			for k := range nm {
				if r.Bool() {
					nm[k] -= 32
				}
			}
		case 3: // one byte changed
			nm[r.Intn(len(nm))] = byte(r.Intn(256))
		case 4: // a byte inserted
			k := r.Intn(len(nm) + 1)
			nm = append(nm[:k], append([]byte{byte(r.Intn(256))}, nm[k:]...)...)
		default: // random bytes
			nm = make([]byte, r.Intn(8))
			for k := range nm {
				nm[k] = byte(r.Intn(256))
			}
		}
		out = append(out, levelDesc{Param: nm})
	}
	return out
}
