// h_c01: crash-image harness for C01 (acknowledged writes survive any crash and restart).
// A history of writes / snapshots / failed snapshots / compactions / deletes / clean restarts is
// run on a real tsdb.Store (WAL on, no background compactions; snapshots and compactions are
// invoked explicitly).  Crash images are copies of the data+WAL directories taken after an
// operation, inside an operation (verifPoint hooks) or with the newest WAL segment truncated
// inside the entry the last operation appended.  Every image is reopened by a fresh Store,
// read, continued with further acknowledged writes, crashed and reopened a second time.
package main

import (
	"context"
	"encoding/json"
	"fmt"
	"io"
	"math"
	"os"
	"path/filepath"
	"sort"
	"strings"
	"sync"
	"time"

	"github.com/influxdata/influxdb/models"
	"github.com/influxdata/influxdb/query"
	"github.com/influxdata/influxdb/tsdb"
	_ "github.com/influxdata/influxdb/tsdb/engine"
	"github.com/influxdata/influxdb/tsdb/engine/tsm1"
	_ "github.com/influxdata/influxdb/tsdb/index"
	"github.com/influxdata/influxql"
	"verifharness/hx"
)

// ---------- input description ----------

type Pt struct {
	M string `json:"m"`
	S string `json:"s"`
	F string `json:"f"` // first letter gives the type: i f s b u
	T int64  `json:"t"`
	V string `json:"v"` // int64 / float bits / string / 0|1 / uint64
}

type Ser struct {
	M string `json:"m"`
	S string `json:"s"`
}

type Op struct {
	K      string `json:"k"` // w snap snapfail compact del restart
	Pts    []Pt   `json:"pts,omitempty"`
	Series []Ser  `json:"series,omitempty"`
	Lo     int64  `json:"lo,omitempty"`
	Hi     int64  `json:"hi,omitempty"`
	I      int    `json:"i,omitempty"`
	N      int    `json:"n,omitempty"`
}

type Crash struct {
	At    int    `json:"at"`    // index of the operation the crash falls in / after
	Point string `json:"point"` // after | wal | snapshot.written | snapshot.replaced | replace.renamed
	Cut   int64  `json:"cut"`   // wal: bytes of the operation's WAL entry that reached the disk; -1 = all but one
}

type Desc struct {
	Ops    []Op   `json:"ops"`
	Crash1 Crash  `json:"crash1"`
	Ops2   []Op   `json:"ops2"`
	Crash2 *Crash `json:"crash2,omitempty"` // relative to ops2; nil = no second restart
}

// ---------- keys, values, Coq rendering ----------

func seriesKey(m, s string) string  { return m + ",s=" + s }
func compKey(m, s, f string) string { return seriesKey(m, s) + "#!~#" + f }
func coqStr(s string) string        { return hx.CoqBytes([]byte(s)) }
func (p Pt) key() string            { return compKey(p.M, p.S, p.F) }
func parseI(s string) int64         { var v int64; fmt.Sscan(s, &v); return v }
func parseU(s string) uint64        { var v uint64; fmt.Sscan(s, &v); return v }

func (p Pt) coqValue() string {
	switch p.F[0] {
	case 'i':
		return "VInt " + hx.CoqZ(parseI(p.V))
	case 'f':
		return fmt.Sprintf("VFloat %d%%N", parseU(p.V))
	case 's':
		return "VStr " + coqStr(p.V)
	case 'b':
		return "VBool " + hx.CoqBool(p.V == "1")
	default:
		return fmt.Sprintf("VUint %d%%N", parseU(p.V))
	}
}

func (p Pt) field() interface{} {
	switch p.F[0] {
	case 'i':
		return parseI(p.V)
	case 'f':
		return math.Float64frombits(parseU(p.V))
	case 's':
		return p.V
	case 'b':
		return p.V == "1"
	default:
		return parseU(p.V)
	}
}

func coqPts(pts []Pt) string {
	items := make([]string, len(pts))
	for i, p := range pts {
		items[i] = fmt.Sprintf("(%s, (%s, %s))", coqStr(p.key()), hx.CoqZ(p.T), p.coqValue())
	}
	return hx.CoqList(items)
}

type tvObs struct {
	T int64
	V string
}

func coqTVs(vs []tvObs) string {
	items := make([]string, len(vs))
	for i, x := range vs {
		items[i] = fmt.Sprintf("(%s, %s)", hx.CoqZ(x.T), x.V)
	}
	return hx.CoqList(items)
}

// ---------- the real store ----------

type nopPlanner struct{}

func (nopPlanner) Plan(time.Time) []tsm1.CompactionGroup { return nil }
func (nopPlanner) PlanLevel(int) []tsm1.CompactionGroup  { return nil }
func (nopPlanner) PlanOptimize() []tsm1.CompactionGroup  { return nil }
func (nopPlanner) Release([]tsm1.CompactionGroup)        {}
func (nopPlanner) FullyCompacted() bool                  { return true }
func (nopPlanner) ForceFull()                            {}
func (nopPlanner) SetFileStore(*tsm1.FileStore)          {}

// observer: tsdb.FileStoreObserver of the store under test; called by FileStore.replace
// before every rename of a new file and before every removal of an old one
type observer struct {
	fn func(kind, path string)
}

func (o *observer) FileFinishing(path string) error {
	if o.fn != nil {
		o.fn("finishing", path)
	}
	return nil
}
func (o *observer) FileUnlinking(path string) error {
	if o.fn != nil {
		o.fn("unlinking", path)
	}
	return nil
}

type world struct {
	root string
	st   *tsdb.Store
	sh   *tsdb.Shard
	eng  *tsm1.Engine
	obs  *observer
}

func guard(f func() error) (err error) {
	defer func() {
		if e := recover(); e != nil {
			err = fmt.Errorf("panic: %v", e)
		}
	}()
	return f()
}

func openWorld(root string, create bool) (*world, error) {
	w := &world{root: root, obs: &observer{}}
	err := guard(func() error {
		st := tsdb.NewStore(filepath.Join(root, "data"))
		st.EngineOptions.Config.WALDir = filepath.Join(root, "wal")
		st.EngineOptions.Config.Dir = filepath.Join(root, "data")
		st.EngineOptions.WALEnabled = true
		st.EngineOptions.CompactionDisabled = true // no background goroutines; the Compactor stays usable
		st.EngineOptions.CompactionPlannerCreator = func(tsdb.Config) interface{} { return nopPlanner{} }
		st.EngineOptions.FileStoreObserver = w.obs
		if err := st.Open(); err != nil {
			return err
		}
		w.st = st
		if create {
			if err := st.CreateShard("db0", "rp0", 1, true); err != nil {
				return err
			}
		}
		w.sh = st.Shard(1)
		if w.sh == nil {
			return fmt.Errorf("shard 1 missing after open")
		}
		e, err := w.sh.Engine()
		if err != nil {
			return err
		}
		w.eng = e.(*tsm1.Engine)
		return nil
	})
	if err != nil {
		w.close()
		return nil, err
	}
	return w, nil
}

func (w *world) close() {
	if w.st != nil {
		guard(func() error { return w.st.Close() })
		w.st = nil
	}
}

func (w *world) walDir() string { return filepath.Join(w.root, "wal", "db0", "rp0", "1") }

// newest WAL segment and its length
func walTail(dir string) (string, int64) {
	names, _ := filepath.Glob(filepath.Join(dir, "_*.wal"))
	if len(names) == 0 {
		return "", 0
	}
	sort.Strings(names)
	n := names[len(names)-1]
	st, err := os.Stat(n)
	if err != nil {
		return filepath.Base(n), 0
	}
	return filepath.Base(n), st.Size()
}

func copyTree(src, dst string) error {
	return filepath.Walk(src, func(p string, info os.FileInfo, err error) error {
		if err != nil {
			if os.IsNotExist(err) {
				return nil
			}
			return err
		}
		rel, _ := filepath.Rel(src, p)
		target := filepath.Join(dst, rel)
		if info.IsDir() {
			return os.MkdirAll(target, 0777)
		}
		in, err := os.Open(p)
		if err != nil {
			if os.IsNotExist(err) {
				return nil
			}
			return err
		}
		defer in.Close()
		out, err := os.Create(target)
		if err != nil {
			return err
		}
		defer out.Close()
		if info.Size() < 1<<20 {
			_, err = io.Copy(out, in)
			return err
		}
		// large preallocated files (series file segments): copy the data extents only
		buf := make([]byte, 1<<16)
		size := info.Size()
		var off int64
		for off < size {
			start, err := in.Seek(off, 3) // SEEK_DATA
			if err != nil {
				break // no more data
			}
			end, err := in.Seek(start, 4) // SEEK_HOLE
			if err != nil || end <= start {
				end = size
			}
			for pos := start; pos < end; {
				n := int64(len(buf))
				if end-pos < n {
					n = end - pos
				}
				m, rerr := in.ReadAt(buf[:n], pos)
				if m > 0 {
					if _, err := out.WriteAt(buf[:m], pos); err != nil {
						return err
					}
					pos += int64(m)
				}
				if rerr != nil {
					break
				}
				if m == 0 {
					break
				}
			}
			off = end
		}
		off = size
		return out.Truncate(off)
	})
}

func mkPoints(pts []Pt) ([]models.Point, error) {
	var res []models.Point
	for _, p := range pts {
		mp, err := models.NewPoint(p.M, models.NewTags(map[string]string{"s": p.S}), models.Fields{p.F: p.field()}, time.Unix(0, p.T))
		if err != nil {
			return nil, err
		}
		res = append(res, mp)
	}
	return res, nil
}

type serElem struct {
	name []byte
	tags models.Tags
}

func (e serElem) Name() []byte        { return e.name }
func (e serElem) Tags() models.Tags   { return e.tags }
func (e serElem) Deleted() bool       { return false }
func (e serElem) Expr() influxql.Expr { return nil }

type serIter struct {
	elems []serElem
	i     int
}

func (s *serIter) Close() error { return nil }
func (s *serIter) Next() (tsdb.SeriesElem, error) {
	if s.i >= len(s.elems) {
		return nil, nil
	}
	e := s.elems[s.i]
	s.i++
	return e, nil
}

func (w *world) readKey(m, s, f string) (res []tvObs, err error) {
	opt := query.IteratorOptions{
		Expr:       &influxql.VarRef{Val: f},
		Dimensions: []string{"s"},
		Condition:  influxql.MustParseExpr(fmt.Sprintf("s = '%s'", s)),
		StartTime:  influxql.MinTime, EndTime: influxql.MaxTime, Ascending: true, Ordered: true,
	}
	itr, err := w.sh.CreateIterator(context.Background(), &influxql.Measurement{Name: m}, opt)
	if err != nil {
		return nil, err
	}
	if itr == nil {
		return nil, nil
	}
	defer itr.Close()
	for {
		switch it := itr.(type) {
		case query.FloatIterator:
			p, err := it.Next()
			if err != nil || p == nil {
				return res, err
			}
			res = append(res, tvObs{p.Time, fmt.Sprintf("VFloat %d%%N", math.Float64bits(p.Value))})
		case query.IntegerIterator:
			p, err := it.Next()
			if err != nil || p == nil {
				return res, err
			}
			res = append(res, tvObs{p.Time, "VInt " + hx.CoqZ(p.Value)})
		case query.UnsignedIterator:
			p, err := it.Next()
			if err != nil || p == nil {
				return res, err
			}
			res = append(res, tvObs{p.Time, fmt.Sprintf("VUint %d%%N", p.Value)})
		case query.BooleanIterator:
			p, err := it.Next()
			if err != nil || p == nil {
				return res, err
			}
			res = append(res, tvObs{p.Time, "VBool " + hx.CoqBool(p.Value)})
		case query.StringIterator:
			p, err := it.Next()
			if err != nil || p == nil {
				return res, err
			}
			res = append(res, tvObs{p.Time, "VStr " + coqStr(p.Value)})
		default:
			return nil, fmt.Errorf("unknown iterator type %T", itr)
		}
	}
}

// ---------- one execution: model steps and acknowledged history recorded along the way ----------

type histItem struct {
	maybe  bool
	del    bool
	pts    []Pt
	series []Ser
	lo, hi int64
}

type trace struct {
	steps []string
	hist  []histItem
	keys  map[string][3]string // composite key -> (m, s, f)
}

func (t *trace) clone() *trace {
	c := &trace{steps: append([]string(nil), t.steps...), hist: append([]histItem(nil), t.hist...), keys: map[string][3]string{}}
	for k, v := range t.keys {
		c.keys[k] = v
	}
	return c
}

func (t *trace) addKeys(pts []Pt) {
	for _, p := range pts {
		t.keys[p.key()] = [3]string{p.M, p.S, p.F}
	}
}

func coqSeries(ss []Ser) string {
	items := make([]string, len(ss))
	for i, s := range ss {
		items[i] = coqStr(seriesKey(s.M, s.S))
	}
	return hx.CoqList(items)
}

// image of the directories at a crash point
type image struct {
	dir   string
	tr    *trace
	label string
}

type capture func(point string, extraSteps []string, inflight *histItem, cut int64, pre int64, tail string)

// runOps executes ops on w, appending to tr; cap is called at every possible crash point of
// operation index i (with the steps of the partially executed operation).
func runOps(w *world, ops []Op, tr *trace, o *hx.Out, at func(i int, point string, extra []string, inflight *histItem, pre, post int64, tail string)) error {
	for i, op := range ops {
		tailName, pre := walTail(w.walDir())
		switch op.K {
		case "w":
			pts, err := mkPoints(op.Pts)
			if err != nil {
				return err
			}
			if at != nil {
				// a write that introduces a field saves fields.idx through a temp file before the
				// points reach the WAL: crash points with the temp file created / fully written
				tsdb.SetVerifPoint(func(name string, args ...interface{}) {
					if name == "fields.tmp.created" || name == "fields.tmp.written" {
						at(i, name, nil, nil, 0, 0, "")
					}
				})
			}
			err = guard(func() error { return w.st.WriteToShard(1, pts) })
			tsdb.SetVerifPoint(nil)
			tr.addKeys(op.Pts)
			if err != nil {
				return fmt.Errorf("write: %v", err)
			}
			count(o, "op:write")
			wstep := "HS (Write " + coqPts(op.Pts) + ")"
			if at != nil {
				tn, post := walTail(w.walDir())
				if tn != tailName {
					pre = 0
				}
				at(i, "wal", []string{wstep}, &histItem{maybe: true, pts: op.Pts}, pre, post, tn)
			}
			tr.steps = append(tr.steps, wstep, "HS WalSync")
			tr.hist = append(tr.hist, histItem{pts: op.Pts})
		case "snap", "snapfail":
			tr.steps = append(tr.steps, "HS SnapBegin")
			if op.K == "snapfail" {
				w.eng.Compactor.DisableSnapshots()
				err := guard(func() error { return w.eng.WriteSnapshot() })
				w.eng.Compactor.EnableSnapshots()
				if err == nil {
					count(o, "op:snapfail-empty")
				} else {
					count(o, "op:snapfail")
				}
				tr.steps = append(tr.steps, "HTry SnapFail")
				break
			}
			if at != nil {
				tsm1.SetVerifPoint(func(name string, args ...interface{}) {
					switch name {
					case "snapshot.written":
						at(i, name, []string{"HS SnapWriteTmp"}, nil, 0, 0, "")
					case "replace.renamed", "snapshot.replaced":
						at(i, name, []string{"HS SnapWriteTmp", "HS SnapRename"}, nil, 0, 0, "")
					}
				})
			}
			if at != nil {
				w.obs.fn = func(kind, path string) {
					if kind == "finishing" && strings.HasSuffix(path, ".tsm.tmp") {
						at(i, "obs.finishing", []string{"HS SnapWriteTmp"}, nil, 0, 0, "")
					}
				}
			}
			err := guard(func() error { return w.eng.WriteSnapshot() })
			tsm1.SetVerifPoint(nil)
			w.obs.fn = nil
			if err != nil {
				return fmt.Errorf("snapshot: %v", err)
			}
			count(o, "op:snap")
			tr.steps = append(tr.steps, "HSnapRest")
		case "compact":
			files := w.eng.FileStore.Files()
			var paths []string
			for _, f := range files {
				paths = append(paths, f.Path())
			}
			sort.Strings(paths)
			if op.I >= len(paths) {
				count(o, "op:compact-skipped")
				break
			}
			n := op.N
			if op.I+n > len(paths) {
				n = len(paths) - op.I
			}
			if n < 1 {
				count(o, "op:compact-skipped")
				break
			}
			group := paths[op.I : op.I+n]
			// the output is named (max generation, its max sequence + 1): it must not collide with
			// or sort after a file behind the group (the planner only compacts whole generations)
			mg, sq := 0, 0
			for _, p := range group {
				g, q, _ := tsm1.DefaultParseFileName(p)
				if g > mg {
					mg, sq = g, q
				} else if g == mg && q > sq {
					sq = q
				}
			}
			fit := true
			for _, p := range paths[op.I+n:] {
				g, q, _ := tsm1.DefaultParseFileName(p)
				if g < mg || (g == mg && q <= sq+1) {
					fit = false
				}
			}
			if !fit {
				count(o, "op:compact-skipped")
				break
			}
			tr.steps = append(tr.steps, fmt.Sprintf("HS (CompactWriteTmp %d %d)", op.I, n))
			var out []string
			if err := guard(func() error {
				var err error
				out, err = w.eng.Compactor.CompactFull(group)
				return err
			}); err != nil {
				return fmt.Errorf("compact: %v", err)
			}
			if at != nil {
				tsm1.SetVerifPoint(func(name string, args ...interface{}) {
					if name == "replace.renamed" {
						at(i, name, []string{"HS ReplaceRename"}, nil, 0, 0, "")
					}
				})
			}
			if at != nil {
				nun := 0
				w.obs.fn = func(kind, path string) {
					switch {
					case kind == "finishing" && strings.HasSuffix(path, ".tsm.tmp"):
						at(i, "obs.finishing", nil, nil, 0, 0, "")
					case kind == "unlinking" && strings.HasSuffix(path, ".tsm"):
						extra := []string{"HS ReplaceRename"}
						for k := 0; k < nun; k++ {
							extra = append(extra, "HS ReplaceRemove")
						}
						at(i, fmt.Sprintf("obs.unlinking%d", nun), extra, nil, 0, 0, "")
						nun++
					}
				}
			}
			err := guard(func() error { return w.eng.FileStore.ReplaceWithCallback(group, out, nil) })
			tsm1.SetVerifPoint(nil)
			w.obs.fn = nil
			if err != nil {
				return fmt.Errorf("replace: %v", err)
			}
			count(o, fmt.Sprintf("op:compact-n%d", n))
			tr.steps = append(tr.steps, "HS ReplaceRename", "HReplaceAll")
		case "del":
			it := &serIter{}
			for _, s := range op.Series {
				it.elems = append(it.elems, serElem{name: []byte(s.M), tags: models.NewTags(map[string]string{"s": s.S})})
			}
			if err := guard(func() error { return w.sh.DeleteSeriesRange(it, op.Lo, op.Hi) }); err != nil {
				return fmt.Errorf("delete: %v", err)
			}
			count(o, "op:delete")
			begin := fmt.Sprintf("HS (DeleteBegin %s %s %s)", coqSeries(op.Series), hx.CoqZ(op.Lo), hx.CoqZ(op.Hi))
			if at != nil {
				tn, post := walTail(w.walDir())
				if tn != tailName {
					pre = 0
				}
				if post > pre {
					at(i, "wal", []string{begin, "HTombAll", "HTry DeleteCache"},
						&histItem{maybe: true, del: true, series: op.Series, lo: op.Lo, hi: op.Hi}, pre, post, tn)
				}
			}
			tr.steps = append(tr.steps, begin, "HTombAll", "HDeleteRest")
			tr.hist = append(tr.hist, histItem{del: true, series: op.Series, lo: op.Lo, hi: op.Hi})
		case "restart":
			// clean shutdown and reopen in place: everything acknowledged is synced
			w.close()
			nw, err := openWorld(w.root, false)
			if err != nil {
				return fmt.Errorf("reopen: %v", err)
			}
			*w = *nw
			count(o, "op:restart")
			tr.steps = append(tr.steps, "HS (Crash 0 0)", "HOpen")
		default:
			return fmt.Errorf("unknown op %q", op.K)
		}
		if at != nil {
			at(i, "after", nil, nil, 0, 0, "")
		}
	}
	return nil
}

func sortedKeys(m map[string][3]string) []string {
	ks := make([]string, 0, len(m))
	for k := range m {
		ks = append(ks, k)
	}
	sort.Strings(ks)
	return ks
}

func crashStep(cut, length int64) string {
	switch {
	case cut <= 0:
		return "HS (Crash 0 0)"
	case cut >= length:
		return "HS (Crash 1 0)"
	default:
		return fmt.Sprintf("HS (Crash 0 %d)", cut)
	}
}

// observe reads every key of the universe and renders the Coq case
func emitCase(o *hx.Out, w *world, openErr error, tr *trace, d Desc, label, origin string) hx.Case {
	keys := sortedKeys(tr.keys)
	var obsItems []string
	obsJSON := map[string]interface{}{}
	nvals := 0
	openOK := openErr == nil
	if openOK {
		for _, k := range keys {
			p := tr.keys[k]
			var vs []tvObs
			err := guard(func() error {
				var err error
				vs, err = w.readKey(p[0], p[1], p[2])
				return err
			})
			if err != nil {
				obsJSON["readerr:"+k] = err.Error()
				openOK = false
			}
			nvals += len(vs)
			obsItems = append(obsItems, fmt.Sprintf("(%s, %s)", coqStr(k), coqTVs(vs)))
			js := make([]string, len(vs))
			for i, x := range vs {
				js[i] = fmt.Sprintf("%d:%s", x.T, x.V)
			}
			obsJSON[k] = strings.Join(js, " ")
		}
	} else {
		obsJSON["openerr"] = openErr.Error()
	}
	var histItems []string
	nmaybe := 0
	for _, h := range tr.hist {
		var opTerm string
		if h.del {
			var ks []string
			for _, k := range keys {
				p := tr.keys[k]
				for _, s := range h.series {
					if s.M == p[0] && s.S == p[1] {
						ks = append(ks, coqStr(k))
						break
					}
				}
			}
			opTerm = fmt.Sprintf("ODelete %s %s %s", hx.CoqList(ks), hx.CoqZ(h.lo), hx.CoqZ(h.hi))
		} else {
			opTerm = "OWrite " + coqPts(h.pts)
		}
		if h.maybe {
			nmaybe++
			histItems = append(histItems, "HMaybe ("+opTerm+")")
		} else {
			histItems = append(histItems, "HAck ("+opTerm+")")
		}
	}
	coq := fmt.Sprintf("CRun %s %s %s %s", hx.CoqList(tr.steps), hx.CoqList(histItems), hx.CoqList(obsItems), hx.CoqBool(openOK))
	db, _ := json.Marshal(d)
	count(o, "crash:"+d.Crash1.Point)
	if d.Crash2 != nil {
		count(o, "restarts:2")
		count(o, "crash2:"+d.Crash2.Point)
	} else {
		count(o, "restarts:1")
	}
	return hx.Case{Kind: "run", Coq: coq, Desc: d, Obs: obsJSON, Nontrivial: nvals > 0 && len(tr.hist) > 0,
		Sig: label + ":" + string(db), Origin: origin}
}

// a variant = one crash image of the shared live run plus its continuation
type variant struct {
	c1   Crash
	ops2 []Op
	c2   *Crash
}

var workRoot string
var dirSeq int
var mu sync.Mutex

func count(o *hx.Out, k string) {
	mu.Lock()
	o.Count(k)
	mu.Unlock()
}

func newDir() string {
	mu.Lock()
	dirSeq++
	n := dirSeq
	mu.Unlock()
	d := filepath.Join(workRoot, fmt.Sprintf("w%06d", n))
	os.MkdirAll(d, 0777)
	return d
}

func takeImage(w *world, tailName string, truncTo int64) (string, error) {
	dst := newDir()
	if err := copyTree(filepath.Join(w.root, "data"), filepath.Join(dst, "data")); err != nil {
		return "", err
	}
	if err := copyTree(filepath.Join(w.root, "wal"), filepath.Join(dst, "wal")); err != nil {
		return "", err
	}
	if truncTo >= 0 && tailName != "" {
		if err := os.Truncate(filepath.Join(dst, "wal", "db0", "rp0", "1", tailName), truncTo); err != nil {
			return "", err
		}
	}
	return dst, nil
}

func resolveCut(cut, length int64) int64 {
	if cut < 0 || cut > length {
		return length - 1
	}
	return cut
}

// runGroup runs ops once and derives every variant's cases from it.
func runGroup(o *hx.Out, ops []Op, vars []variant, origin string) {
	o.Begin("run", Desc{Ops: ops})
	root := newDir()
	defer os.RemoveAll(root)
	w, err := openWorld(root, true)
	if err != nil {
		panic(fmt.Sprintf("cannot create store: %v", err))
	}
	defer func() { w.close() }()
	tr := &trace{steps: []string{"HOpen"}, keys: map[string][3]string{}}
	type img struct {
		v   variant
		dir string
		tr  *trace
	}
	var imgs []img
	at := func(i int, point string, extra []string, inflight *histItem, pre, post int64, tail string) {
		for _, v := range vars {
			if v.c1.At != i || v.c1.Point != point {
				continue
			}
			t2 := tr.clone()
			t2.steps = append(t2.steps, extra...)
			trunc := int64(-1)
			if point == "wal" {
				length := post - pre
				if length <= 0 {
					count(o, "variant-skipped:no-wal-growth")
					continue
				}
				cut := resolveCut(v.c1.Cut, length)
				trunc = pre + cut
				t2.steps = append(t2.steps, crashStep(cut, length))
				if inflight != nil {
					t2.hist = append(t2.hist, *inflight)
					t2.addKeys(inflight.pts)
				}
				count(o, fmt.Sprintf("walcut:%s", cutClass(cut, length)))
			} else {
				t2.steps = append(t2.steps, "HS (Crash 0 0)")
			}
			dir, err := takeImage(w, tail, trunc)
			if err != nil {
				panic(fmt.Sprintf("image copy failed: %v", err))
			}
			imgs = append(imgs, img{v: v, dir: dir, tr: t2})
		}
	}
	if err := runOps(w, ops, tr, o, at); err != nil {
		// the live run itself failed: report as a case that cannot agree
		count(o, "live-run-error")
		tr.steps = append(tr.steps, "HS OpenLoad")
		o.Emit(emitCase(o, w, err, tr, Desc{Ops: ops, Crash1: Crash{At: len(ops), Point: "live-error"}}, "live", origin))
	}
	w.close()
	// images are independent of each other: recover them in parallel, emit in order
	results := make([][]hx.Case, len(imgs))
	var wg sync.WaitGroup
	sem := make(chan struct{}, workers)
	for k, im := range imgs {
		d := Desc{Ops: ops[:im.v.c1.At+1], Crash1: im.v.c1, Ops2: im.v.ops2, Crash2: im.v.c2}
		wg.Add(1)
		sem <- struct{}{}
		go func(k int, im img, d Desc) {
			defer wg.Done()
			defer func() { <-sem }()
			results[k] = runImage(o, im.dir, im.tr, d, origin)
			os.RemoveAll(im.dir)
		}(k, im, d)
	}
	wg.Wait()
	for _, cs := range results {
		for _, c := range cs {
			o.Emit(c)
		}
	}
}

var workers = 8

func cutClass(cut, length int64) string {
	switch {
	case cut == 0:
		return "0"
	case cut < 5:
		return "in-header"
	case cut == 5:
		return "header-only"
	case cut == length:
		return "whole-unacked"
	case cut == length-1:
		return "all-but-one"
	default:
		return "in-payload"
	}
}

func runImage(o *hx.Out, dir string, tr *trace, d Desc, origin string) (res []hx.Case) {
	w, err := openWorld(dir, false)
	tr.steps = append(tr.steps, "HOpen")
	d1 := d
	d1.Ops2, d1.Crash2 = nil, nil
	if err != nil {
		return append(res, emitCase(o, nil, err, tr, d1, "r1", origin))
	}
	res = append(res, emitCase(o, w, nil, tr, d1, "r1", origin))
	if d.Crash2 == nil {
		w.close()
		return
	}
	var dir2 string
	var tr2 *trace
	at := func(i int, point string, extra []string, inflight *histItem, pre, post int64, tail string) {
		if i != d.Crash2.At || point != d.Crash2.Point || dir2 != "" {
			return
		}
		t2 := tr.clone()
		t2.steps = append(t2.steps, extra...)
		trunc := int64(-1)
		if point == "wal" {
			length := post - pre
			if length <= 0 {
				return
			}
			cut := resolveCut(d.Crash2.Cut, length)
			trunc = pre + cut
			t2.steps = append(t2.steps, crashStep(cut, length))
			if inflight != nil {
				t2.hist = append(t2.hist, *inflight)
				t2.addKeys(inflight.pts)
			}
		} else {
			t2.steps = append(t2.steps, "HS (Crash 0 0)")
		}
		var err error
		dir2, err = takeImage(w, tail, trunc)
		if err != nil {
			panic(fmt.Sprintf("image copy failed: %v", err))
		}
		tr2 = t2
	}
	err = runOps(w, d.Ops2, tr, o, at)
	w.close()
	if err != nil {
		count(o, "live-run-error")
		return append(res, emitCase(o, nil, err, tr, d, "r2", origin))
	}
	if dir2 == "" {
		count(o, "variant-skipped:crash2-not-reached")
		return
	}
	defer os.RemoveAll(dir2)
	w2, err := openWorld(dir2, false)
	tr2.steps = append(tr2.steps, "HOpen")
	if err != nil {
		return append(res, emitCase(o, nil, err, tr2, d, "r2", origin))
	}
	res = append(res, emitCase(o, w2, nil, tr2, d, "r2", origin))
	w2.close()
	return
}

// ---------- generation ----------

var measurements = []string{"m0", "m1"}
var tagvals = []string{"a", "b", "c"}
var fields = []string{"i0", "i1", "f0", "s0", "b0", "u0"}

type gen struct {
	r    *hx.Rand
	seen []Pt // points written so far (for overwrites and delete targets)
	nval int64
}

func (g *gen) value(f string) string {
	g.nval++
	switch f[0] {
	case 'i':
		if g.r.Chance(10) {
			return []string{"-9223372036854775808", "9223372036854775807", "0", "-1"}[g.r.Intn(4)]
		}
		return fmt.Sprint(g.nval)
	case 'f':
		return fmt.Sprint(math.Float64bits(float64(g.nval) + 0.5))
	case 's':
		return fmt.Sprintf("v%d", g.nval)
	case 'b':
		return fmt.Sprint(g.nval % 2)
	default:
		return fmt.Sprint(uint64(g.nval) + 1<<63)
	}
}

func (g *gen) time() int64 {
	switch g.r.Intn(12) {
	case 0:
		return []int64{influxql.MinTime + 2, influxql.MaxTime - 2, 0, -1}[g.r.Intn(4)]
	default:
		return int64(g.r.Intn(30))
	}
}

func (g *gen) point() Pt {
	if len(g.seen) > 0 && g.r.Chance(30) { // overwrite an existing (key, time)
		p := g.seen[g.r.Intn(len(g.seen))]
		p.V = g.value(p.F)
		return p
	}
	m := measurements[g.r.Intn(len(measurements))]
	if g.r.Chance(70) {
		m = measurements[0]
	}
	f := fields[g.r.Intn(len(fields))]
	if g.r.Chance(50) {
		f = fields[0]
	}
	p := Pt{M: m, S: tagvals[g.r.Intn(len(tagvals))], F: f, T: g.time()}
	p.V = g.value(f)
	return p
}

func (g *gen) write() Op {
	n := 1 + g.r.Intn(3)
	if g.r.Chance(10) {
		n = 6 + g.r.Intn(10) // entry longer than 64 bytes
	}
	op := Op{K: "w"}
	for i := 0; i < n; i++ {
		p := g.point()
		op.Pts = append(op.Pts, p)
		g.seen = append(g.seen, p)
	}
	return op
}

func (g *gen) del() Op {
	op := Op{K: "del"}
	n := 1 + g.r.Intn(2)
	for i := 0; i < n; i++ {
		s := Ser{M: measurements[g.r.Intn(len(measurements))], S: tagvals[g.r.Intn(len(tagvals))]}
		if len(g.seen) > 0 && g.r.Chance(80) {
			p := g.seen[g.r.Intn(len(g.seen))]
			s = Ser{M: p.M, S: p.S}
		}
		dup := false
		for _, x := range op.Series {
			if x == s {
				dup = true
			}
		}
		if !dup {
			op.Series = append(op.Series, s)
		}
	}
	switch g.r.Intn(5) {
	case 0:
		op.Lo, op.Hi = math.MinInt64, math.MaxInt64
	case 1:
		t := g.time()
		op.Lo, op.Hi = t, t
	case 2:
		op.Lo, op.Hi = math.MinInt64, int64(g.r.Intn(30))
	default:
		a, b := int64(g.r.Intn(30)), int64(g.r.Intn(30))
		if a > b {
			a, b = b, a
		}
		op.Lo, op.Hi = a, b
	}
	return op
}

func (g *gen) history(n int) []Op {
	var ops []Op
	ops = append(ops, g.write())
	for len(ops) < n {
		switch x := g.r.Intn(100); {
		case x < 52:
			ops = append(ops, g.write())
		case x < 68:
			ops = append(ops, Op{K: "snap"})
		case x < 75:
			ops = append(ops, Op{K: "snapfail"})
		case x < 84:
			ops = append(ops, Op{K: "compact", I: g.r.Intn(2) * g.r.Intn(2), N: 2 + g.r.Intn(2) - g.r.Intn(2)*g.r.Intn(2)})
		case x < 96:
			ops = append(ops, g.del())
		default:
			ops = append(ops, Op{K: "restart"})
		}
	}
	return ops
}

// tombstone-replay family: several series interleaved in ONE file, 2-4 range deletes with
// different ranges (nested, overlapping, sharing one bound, disjoint) on different series, a
// restart before any compaction, more writes
func (g *gen) tombFamily() []Op {
	var pts []Pt
	for t := int64(1); t <= 8; t++ {
		for _, sv := range tagvals {
			p := Pt{M: "m0", S: sv, F: "i0", T: t}
			p.V = g.value("i0")
			pts = append(pts, p)
			g.seen = append(g.seen, p)
		}
	}
	ops := []Op{{K: "w", Pts: pts}, {K: "snap"}}
	n := 2 + g.r.Intn(3)
	var plo, phi int64 = 3, 5
	first := g.r.Intn(len(tagvals))
	for i := 0; i < n; i++ {
		lo := int64(1 + g.r.Intn(8))
		hi := lo + int64(g.r.Intn(int(9-lo)))
		switch g.r.Intn(8) {
		case 0:
			lo = math.MinInt64
		case 1:
			hi = math.MaxInt64
		}
		if i > 0 {
			switch g.r.Intn(5) {
			case 0:
				lo = plo
				if hi < lo {
					hi = lo
				}
			case 1:
				hi = phi
				if lo > hi {
					lo = hi
				}
			case 2:
				lo = math.MinInt64
			}
		}
		sv := tagvals[(first+i)%len(tagvals)]
		ops = append(ops, Op{K: "del", Series: []Ser{{"m0", sv}}, Lo: lo, Hi: hi})
		plo, phi = lo, hi
	}
	if g.r.Chance(50) {
		ops = append(ops, Op{K: "restart"})
	}
	ops = append(ops, g.write())
	return ops
}

func (g *gen) ops2() []Op {
	n := 1 + g.r.Intn(2)
	var ops []Op
	for i := 0; i < n; i++ {
		ops = append(ops, g.write())
	}
	return ops
}

func (g *gen) crash2(ops2 []Op) *Crash {
	c := &Crash{At: len(ops2) - 1, Point: "after"}
	if g.r.Chance(50) {
		c.Point = "wal"
		c.Cut = []int64{0, 1, 3, 5, 6, -1, 1 << 40}[g.r.Intn(7)]
	}
	return c
}

func (g *gen) cuts() []int64 {
	// entry length is unknown before the run: special offsets, "all but one" (-1), whole (huge), random
	cs := []int64{0, 1, 4, 5, 6, -1, 1 << 40}
	for i := 0; i < 2; i++ {
		cs = append(cs, int64(7+g.r.Intn(57)))
	}
	return cs
}

func (g *gen) variants(ops []Op, budget int, allCuts bool) []variant {
	var vs []variant
	add := func(c Crash) {
		save := g.seen
		o2 := g.ops2()
		vs = append(vs, variant{c1: c, ops2: o2, c2: g.crash2(o2)})
		g.seen = save
	}
	for i, op := range ops {
		switch op.K {
		case "w", "del":
			if op.K == "w" && (i == 0 || g.r.Chance(35)) {
				// only fires when the write introduces a new field (fields.idx is re-saved)
				add(Crash{At: i, Point: []string{"fields.tmp.created", "fields.tmp.written"}[g.r.Intn(2)]})
			}
			cs := g.cuts()
			if !allCuts {
				// a sample of the cut offsets
				k := 2 + g.r.Intn(2)
				var pick []int64
				for j := 0; j < k; j++ {
					pick = append(pick, cs[g.r.Intn(len(cs))])
				}
				cs = pick
			}
			for _, c := range cs {
				add(Crash{At: i, Point: "wal", Cut: c})
			}
		case "snap":
			add(Crash{At: i, Point: "snapshot.written"})
			add(Crash{At: i, Point: "obs.finishing"})
			add(Crash{At: i, Point: "replace.renamed"})
			add(Crash{At: i, Point: "snapshot.replaced"})
		case "compact":
			add(Crash{At: i, Point: "obs.finishing"})
			add(Crash{At: i, Point: "replace.renamed"})
			add(Crash{At: i, Point: "obs.unlinking0"})
			add(Crash{At: i, Point: "obs.unlinking1"})
		}
		if g.r.Chance(60) || i == len(ops)-1 {
			add(Crash{At: i, Point: "after"})
		}
	}
	// keep within budget, deterministic choice
	for len(vs) > budget {
		j := g.r.Intn(len(vs))
		vs = append(vs[:j], vs[j+1:]...)
	}
	return vs
}

// every offset of a short entry (<= 64 bytes): used by designed histories
func allOffsets(at int, n int64) []Crash {
	var cs []Crash
	for c := int64(0); c <= n; c++ {
		cs = append(cs, Crash{At: at, Point: "wal", Cut: c})
	}
	return cs
}

func ip(m, s, f string, t int64, v int64) Pt { return Pt{M: m, S: s, F: f, T: t, V: fmt.Sprint(v)} }

func designed(o *hx.Out) {
	w1 := Op{K: "w", Pts: []Pt{ip("m0", "a", "i0", 1, 10)}}
	w2 := Op{K: "w", Pts: []Pt{ip("m0", "a", "i0", 2, 20)}}
	w3 := Op{K: "w", Pts: []Pt{ip("m0", "a", "i0", 3, 30), ip("m0", "b", "i0", 3, 31)}}
	w4 := Op{K: "w", Pts: []Pt{ip("m0", "a", "i0", 1, 11), ip("m0", "a", "i0", 4, 40)}}
	// (1) torn tail, acknowledged writes, second restart: every offset of the torn entry
	{
		ops := []Op{w1, w2}
		var vs []variant
		for _, c := range allOffsets(1, 64) {
			vs = append(vs, variant{c1: c, ops2: []Op{w3, w4}, c2: &Crash{At: 1, Point: "after"}})
		}
		runGroup(o, ops, vs, "designed")
	}
	// (2) failed snapshot, write, retried snapshot, crash
	{
		ops := []Op{w1, {K: "snapfail"}, w2, {K: "snap"}, w3}
		var vs []variant
		for i := range ops {
			vs = append(vs, variant{c1: Crash{At: i, Point: "after"}, ops2: []Op{w4}, c2: &Crash{At: 0, Point: "after"}})
		}
		vs = append(vs, variant{c1: Crash{At: 3, Point: "snapshot.written"}, ops2: []Op{w4}, c2: &Crash{At: 0, Point: "wal", Cut: 7}})
		vs = append(vs, variant{c1: Crash{At: 3, Point: "obs.finishing"}, ops2: []Op{w4}, c2: &Crash{At: 0, Point: "after"}})
		vs = append(vs, variant{c1: Crash{At: 3, Point: "replace.renamed"}, ops2: []Op{w4}, c2: &Crash{At: 0, Point: "wal", Cut: 7}})
		vs = append(vs, variant{c1: Crash{At: 3, Point: "snapshot.replaced"}, ops2: []Op{w4}, c2: &Crash{At: 0, Point: "after"}})
		runGroup(o, ops, vs, "designed")
	}
	// (3) snapshots, compaction, delete with torn WAL entry
	{
		del := Op{K: "del", Series: []Ser{{"m0", "a"}}, Lo: 1, Hi: 2}
		ops := []Op{w1, {K: "snap"}, w2, {K: "snap"}, w3, {K: "compact", I: 0, N: 2}, w4, del, {K: "snap"}, {K: "compact", I: 0, N: 2}}
		var vs []variant
		for i := range ops {
			vs = append(vs, variant{c1: Crash{At: i, Point: "after"}, ops2: []Op{w2}, c2: &Crash{At: 0, Point: "after"}})
		}
		vs = append(vs, variant{c1: Crash{At: 5, Point: "replace.renamed"}, ops2: []Op{w2}, c2: &Crash{At: 0, Point: "after"}})
		for _, pt := range []string{"obs.finishing", "obs.unlinking0", "obs.unlinking1"} {
			vs = append(vs, variant{c1: Crash{At: 5, Point: pt}, ops2: []Op{w2}, c2: &Crash{At: 0, Point: "after"}})
			vs = append(vs, variant{c1: Crash{At: 9, Point: pt}, ops2: []Op{w2}, c2: &Crash{At: 0, Point: "after"}})
		}
		for _, i := range []int{1, 3, 8} {
			vs = append(vs, variant{c1: Crash{At: i, Point: "obs.finishing"}, ops2: []Op{w2}, c2: &Crash{At: 0, Point: "after"}})
		}
		vs = append(vs, variant{c1: Crash{At: 9, Point: "replace.renamed"}, ops2: []Op{w2}, c2: &Crash{At: 0, Point: "after"}})
		for _, c := range allOffsets(7, 64) {
			vs = append(vs, variant{c1: c, ops2: []Op{w2}, c2: &Crash{At: 0, Point: "after"}})
		}
		runGroup(o, ops, vs, "designed")
	}
}

// tombstone replay at reopen: different ranges on different series of one file; a crash image
// after every operation is reopened, written to and reopened again
func designedTombs(o *hx.Out) {
	var all []Pt
	for t := int64(1); t <= 6; t++ {
		for i, sv := range []string{"a", "b", "c"} {
			all = append(all, ip("m0", sv, "i0", t, int64(100*(i+1))+t))
		}
	}
	delS := func(sv string, lo, hi int64) Op { return Op{K: "del", Series: []Ser{{"m0", sv}}, Lo: lo, Hi: hi} }
	w5 := Op{K: "w", Pts: []Pt{ip("m0", "a", "i0", 9, 909)}}
	for _, dels := range [][]Op{
		{delS("a", 2, 3), delS("b", 2, 5)},
		{delS("a", math.MinInt64, 2), delS("b", math.MinInt64, 4), delS("c", 3, 4)},
		{delS("a", 5, 6), delS("b", 1, 2), delS("c", 2, 6), delS("a", 1, 1)},
	} {
		ops := append([]Op{{K: "w", Pts: all}, {K: "snap"}}, dels...)
		var vs []variant
		for i := 2; i < len(ops); i++ {
			vs = append(vs, variant{c1: Crash{At: i, Point: "after"}, ops2: []Op{w5}, c2: &Crash{At: 0, Point: "after"}})
		}
		runGroup(o, ops, vs, "designed")
	}
}

func main() {
	f := hx.ParseFlags()
	o := hx.NewOut(f.OutDir)
	defer o.Close()
	var err error
	workRoot, err = os.MkdirTemp("", "h_c01")
	if err != nil {
		panic(err)
	}
	defer os.RemoveAll(workRoot)

	if f.In != "" {
		for _, in := range hx.ReadInputs(f.In) {
			var d Desc
			if err := json.Unmarshal(in.Desc, &d); err != nil {
				panic(err)
			}
			runGroup(o, d.Ops, []variant{{c1: d.Crash1, ops2: d.Ops2, c2: d.Crash2}}, "replay")
		}
		return
	}
	designed(o)
	designedTombs(o)
	r := hx.NewRand(f.Seed)
	perHist := 14
	emitted := 0
	nhist := 0
	for emitted < f.N {
		g := &gen{r: r.Split()}
		n := 4 + g.r.Intn(9)
		ops := g.history(n)
		if nhist%4 == 1 {
			ops = g.tombFamily()
		}
		nhist++
		vs := g.variants(ops, perHist, false)
		runGroup(o, ops, vs, "gen")
		emitted += 2 * len(vs)
	}
}
