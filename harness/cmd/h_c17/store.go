// store.go: case kind "store" — what Store.DeleteShard (the call the retention service ends
// in) does to the REST of a real tsdb.Store.
//
// A store is built from a description (several databases, retention policies and shards of
// both index types, series overlapping across shards and policies), then a list of
// operations (DeleteShard id, close + reopen) is applied.  Before the first and after every
// operation the harness reads everything back through the public API: every remaining
// shard through Shard.CreateIterator, and per database Store.MeasurementNames, TagValues,
// SeriesCardinality and series-file membership.
package main

import (
	"context"
	"encoding/json"
	"fmt"
	"os"
	"path/filepath"
	"sort"
	"strconv"
	"strings"
	"time"

	"github.com/influxdata/influxdb/models"
	"github.com/influxdata/influxdb/query"
	"github.com/influxdata/influxdb/tsdb"
	_ "github.com/influxdata/influxdb/tsdb/engine"
	_ "github.com/influxdata/influxdb/tsdb/index"
	"github.com/influxdata/influxql"
	"verifharness/hx"
)

// ---------- description ----------

type seriesD struct {
	M   int        `json:"m"`   // measurement "m<M>"
	V   int        `json:"v"`   // tag t = "v<V>"
	Pts [][2]int64 `json:"pts"` // (time ns, value), ascending distinct times
}
type sShardD struct {
	ID     uint64    `json:"id"`
	DB     int       `json:"db"`
	RP     int       `json:"rp"`
	Inmem  bool      `json:"inmem"` // index type of the shard (inmem shards are created first, see build)
	Series []seriesD `json:"series"`
}
type sOpD struct {
	K  string   `json:"k"` // "del" | "reopen" | "write"
	ID uint64   `json:"id,omitempty"`
	S  *seriesD `json:"s,omitempty"` // write: points of one series written to shard ID
}
type storeDesc struct {
	Shards []sShardD `json:"shards"`
	Ops    []sOpD    `json:"ops"`
}

// ---------- observation ----------

type sSeriesO struct {
	M   int        `json:"m"`
	V   int        `json:"v"`
	Pts [][2]int64 `json:"pts"`
}
type sShardO struct {
	ID     uint64     `json:"id"`
	DB     int        `json:"db"`
	RP     int        `json:"rp"`
	Series []sSeriesO `json:"series"`
}
type sDBO struct {
	DB    int      `json:"db"`
	SFile [][2]int `json:"sfile"` // universe keys the series file has (not tombstoned)
	Names []int    `json:"names"` // Store.MeasurementNames(db)
	Keys  [][2]int `json:"keys"`  // Store.TagValues over the database's shards, key t
	Card  int64    `json:"card"`  // Store.SeriesCardinality(db)
}
type sObs struct {
	Shards []sShardO `json:"shards"`
	DBs    []sDBO    `json:"dbs"`
}
type sStepO struct {
	Err int  `json:"err"` // 0 nil, 1 ErrShardNotFound, 2 other error
	Obs sObs `json:"obs"`
}

func numOf(s, prefix string) int {
	n, err := strconv.Atoi(strings.TrimPrefix(s, prefix))
	if err != nil || !strings.HasPrefix(s, prefix) {
		return -1
	}
	return n
}

type storeRun struct {
	dir      string
	s        *tsdb.Store
	tsi      bool // the store's configured index version is tsi1
	dbs      []int
	universe [][2]int
}

func (r *storeRun) open() error {
	r.s = tsdb.NewStore(filepath.Join(r.dir, "data"))
	r.s.EngineOptions.Config.WALDir = filepath.Join(r.dir, "wal")
	r.s.EngineOptions.CompactionDisabled = true
	if r.tsi {
		r.s.EngineOptions.IndexVersion = tsdb.TSI1IndexName
	} else {
		r.s.EngineOptions.IndexVersion = tsdb.InmemIndexName
	}
	return r.s.Open()
}

func mkPoints(sd seriesD) []models.Point {
	var pts []models.Point
	tags := models.NewTags(map[string]string{"t": "v" + strconv.Itoa(sd.V)})
	for _, p := range sd.Pts {
		pts = append(pts, models.MustNewPoint("m"+strconv.Itoa(sd.M), tags, models.Fields{"f": p[1]}, time.Unix(0, p[0])))
	}
	return pts
}

// build creates the store: shards with the inmem index first (store configured for inmem),
// then — as after switching index-version to tsi1 and restarting — the tsi1 shards.
func (r *storeRun) build(d storeDesc) error {
	anyInmem, anyTSI := false, false
	for _, sh := range d.Shards {
		if sh.Inmem {
			anyInmem = true
		} else {
			anyTSI = true
		}
	}
	create := func(inmem bool) error {
		for _, sh := range d.Shards {
			if sh.Inmem != inmem {
				continue
			}
			if err := r.s.CreateShard("db"+strconv.Itoa(sh.DB), "rp"+strconv.Itoa(sh.RP), sh.ID, true); err != nil {
				return err
			}
			for _, sd := range sh.Series {
				if err := r.s.WriteToShard(sh.ID, mkPoints(sd)); err != nil {
					return err
				}
			}
		}
		return nil
	}
	r.tsi = !anyInmem
	if err := r.open(); err != nil {
		return err
	}
	if anyInmem {
		if err := create(true); err != nil {
			return err
		}
		if anyTSI {
			if err := r.s.Close(); err != nil {
				return err
			}
			r.tsi = true
			if err := r.open(); err != nil {
				return err
			}
		}
	}
	if anyTSI {
		return create(false)
	}
	return nil
}

func readShard(sh *tsdb.Shard, ms []int) ([]sSeriesO, error) {
	acc := map[[2]int][][2]int64{}
	for _, m := range ms {
		itr, err := sh.CreateIterator(context.Background(), &influxql.Measurement{Name: "m" + strconv.Itoa(m)}, query.IteratorOptions{
			Expr: influxql.MustParseExpr(`f`), Dimensions: []string{"t"}, Ascending: true,
			StartTime: influxql.MinTime, EndTime: influxql.MaxTime})
		if err != nil {
			return nil, err
		}
		if itr == nil {
			continue
		}
		add := func(tags query.Tags, t, v int64) {
			k := [2]int{m, numOf(tags.Value("t"), "v")}
			acc[k] = append(acc[k], [2]int64{t, v})
		}
		switch it := itr.(type) {
		case query.IntegerIterator:
			for {
				p, err := it.Next()
				if err != nil {
					itr.Close()
					return nil, err
				}
				if p == nil {
					break
				}
				add(p.Tags, p.Time, p.Value)
			}
		case query.FloatIterator:
			for {
				p, err := it.Next()
				if err != nil {
					itr.Close()
					return nil, err
				}
				if p == nil {
					break
				}
				add(p.Tags, p.Time, int64(p.Value))
			}
		default:
			itr.Close()
			return nil, fmt.Errorf("unexpected iterator type %T", itr)
		}
		itr.Close()
	}
	var out []sSeriesO
	for k, pts := range acc {
		sort.Slice(pts, func(i, j int) bool { return pts[i][0] < pts[j][0] })
		out = append(out, sSeriesO{M: k[0], V: k[1], Pts: pts})
	}
	sort.Slice(out, func(i, j int) bool {
		if out[i].M != out[j].M {
			return out[i].M < out[j].M
		}
		return out[i].V < out[j].V
	})
	return out, nil
}

func sortKeys(k [][2]int) {
	sort.Slice(k, func(i, j int) bool {
		if k[i][0] != k[j][0] {
			return k[i][0] < k[j][0]
		}
		return k[i][1] < k[j][1]
	})
}

func (r *storeRun) observe() (sObs, error) {
	var o sObs
	ms := map[int]bool{}
	for _, k := range r.universe {
		ms[k[0]] = true
	}
	var mlist []int
	for m := range ms {
		mlist = append(mlist, m)
	}
	sort.Ints(mlist)
	ids := r.s.ShardIDs()
	sort.Slice(ids, func(i, j int) bool { return ids[i] < ids[j] })
	byDB := map[int][]uint64{}
	for _, id := range ids {
		sh := r.s.Shard(id)
		if sh == nil {
			return o, fmt.Errorf("shard %d listed but not found", id)
		}
		so := sShardO{ID: id, DB: numOf(sh.Database(), "db"), RP: numOf(sh.RetentionPolicy(), "rp")}
		ser, err := readShard(sh, mlist)
		if err != nil {
			return o, fmt.Errorf("read shard %d: %v", id, err)
		}
		so.Series = ser
		o.Shards = append(o.Shards, so)
		byDB[so.DB] = append(byDB[so.DB], id)
	}
	for _, db := range r.dbs {
		name := "db" + strconv.Itoa(db)
		do := sDBO{DB: db, SFile: [][2]int{}, Names: []int{}, Keys: [][2]int{}}
		if sf := r.s.VerifSeriesFile(name); sf != nil {
			for _, k := range r.universe {
				tags := models.NewTags(map[string]string{"t": "v" + strconv.Itoa(k[1])})
				id := sf.SeriesID([]byte("m"+strconv.Itoa(k[0])), tags, nil)
				if id != 0 && !sf.IsDeleted(id) {
					do.SFile = append(do.SFile, k)
				}
			}
		}
		names, err := r.s.MeasurementNames(context.Background(), nil, name, "", nil)
		if err != nil {
			return o, fmt.Errorf("MeasurementNames(%s): %v", name, err)
		}
		for _, n := range names {
			do.Names = append(do.Names, numOf(string(n), "m"))
		}
		sort.Ints(do.Names)
		if len(byDB[db]) > 0 {
			tvs, err := r.s.TagValues(context.Background(), nil, byDB[db], influxql.MustParseExpr(`_tagKey = 't'`))
			if err != nil {
				return o, fmt.Errorf("TagValues(%s): %v", name, err)
			}
			for _, tv := range tvs {
				for _, kv := range tv.Values {
					if kv.Key == "t" {
						do.Keys = append(do.Keys, [2]int{numOf(tv.Measurement, "m"), numOf(kv.Value, "v")})
					}
				}
			}
			sortKeys(do.Keys)
		}
		card, err := r.s.SeriesCardinality(context.Background(), name)
		if err != nil {
			return o, fmt.Errorf("SeriesCardinality(%s): %v", name, err)
		}
		do.Card = card
		o.DBs = append(o.DBs, do)
	}
	return o, nil
}

// ---------- Coq printers ----------

func coqKey(k [2]int) string { return fmt.Sprintf("(%d, %d)", k[0], k[1]) }
func coqKeys(ks [][2]int) string {
	var out []string
	for _, k := range ks {
		out = append(out, coqKey(k))
	}
	return hx.CoqList(out)
}
func coqPts(pts [][2]int64) string {
	var out []string
	for _, p := range pts {
		out = append(out, fmt.Sprintf("(%s, %s)", hx.CoqZ(p[0]), hx.CoqZ(p[1])))
	}
	return hx.CoqList(out)
}
func coqInts(xs []int) string {
	var out []string
	for _, x := range xs {
		out = append(out, strconv.Itoa(x))
	}
	return hx.CoqList(out)
}
func coqSObs(o sObs) string {
	var shs, dbs []string
	for _, s := range o.Shards {
		var ser []string
		for _, e := range s.Series {
			ser = append(ser, fmt.Sprintf("(%s, %s)", coqKey([2]int{e.M, e.V}), coqPts(e.Pts)))
		}
		shs = append(shs, fmt.Sprintf("mkShO %d %d %d %s", s.ID, s.DB, s.RP, hx.CoqList(ser)))
	}
	for _, d := range o.DBs {
		dbs = append(dbs, fmt.Sprintf("mkDbO %d %s %s %s %d", d.DB, coqKeys(d.SFile), coqInts(d.Names), coqKeys(d.Keys), d.Card))
	}
	return fmt.Sprintf("mkSO %s %s", hx.CoqList(shs), hx.CoqList(dbs))
}

// validStore: the preconditions under which the abstract store of the model describes the
// store the harness builds: one shard per id, one entry per series key in a shard, every
// series has points, and the timestamps of a series of a shard are strictly increasing over
// the initial content and the later writes (no overwrites).  Shrunk or hand-written
// descriptions that break them are skipped.
func validStore(d storeDesc) bool {
	type sk struct {
		id uint64
		k  [2]int
	}
	last := map[sk]int64{}
	ids := map[uint64]bool{}
	check := func(id uint64, sd seriesD, fresh bool) bool {
		x := sk{id, [2]int{sd.M, sd.V}}
		if _, dup := last[x]; dup && fresh {
			return false
		}
		if len(sd.Pts) == 0 || sd.M < 0 || sd.V < 0 {
			return false
		}
		for _, p := range sd.Pts {
			if t, ok := last[x]; ok && p[0] <= t {
				return false
			}
			last[x] = p[0]
		}
		return true
	}
	for _, sh := range d.Shards {
		if ids[sh.ID] || sh.ID == 0 || sh.DB < 0 || sh.RP < 0 {
			return false
		}
		ids[sh.ID] = true
		for _, sd := range sh.Series {
			if !check(sh.ID, sd, true) {
				return false
			}
		}
	}
	for _, op := range d.Ops {
		switch op.K {
		case "del", "reopen":
		case "write":
			if op.S == nil || !check(op.ID, *op.S, false) {
				return false
			}
		default:
			return false
		}
	}
	return true
}

func runStore(o *hx.Out, d storeDesc, origin string) {
	if !validStore(d) {
		o.Count("store:invalid_description_skipped")
		return
	}
	o.Begin("store", d)
	dir, err := os.MkdirTemp("", "h_c17_store_")
	if err != nil {
		panic(err)
	}
	defer os.RemoveAll(dir)
	r := &storeRun{dir: dir}
	dbSeen, keySeen := map[int]bool{}, map[[2]int]bool{}
	for _, sh := range d.Shards {
		if !dbSeen[sh.DB] {
			dbSeen[sh.DB] = true
			r.dbs = append(r.dbs, sh.DB)
		}
		for _, sd := range sh.Series {
			k := [2]int{sd.M, sd.V}
			if !keySeen[k] {
				keySeen[k] = true
				r.universe = append(r.universe, k)
			}
		}
	}
	for _, op := range d.Ops {
		if op.K == "write" && op.S != nil {
			k := [2]int{op.S.M, op.S.V}
			if !keySeen[k] {
				keySeen[k] = true
				r.universe = append(r.universe, k)
			}
		}
	}
	sort.Ints(r.dbs)
	sortKeys(r.universe)

	var first sObs
	var steps []sStepO
	failed := ""
	func() {
		defer func() {
			if e := recover(); e != nil {
				failed = fmt.Sprintf("panic: %v", e)
			}
		}()
		if err := r.build(d); err != nil {
			failed = "build: " + err.Error()
			return
		}
		if first, err = r.observe(); err != nil {
			failed = "observe: " + err.Error()
			return
		}
		for _, op := range d.Ops {
			st := sStepO{}
			switch op.K {
			case "del":
				switch err := r.s.DeleteShard(op.ID); {
				case err == nil:
				case err == tsdb.ErrShardNotFound:
					st.Err = 1
				default:
					st.Err = 2
				}
			case "write":
				if op.S == nil {
					failed = "write without series"
					return
				}
				switch err := r.s.WriteToShard(op.ID, mkPoints(*op.S)); {
				case err == nil:
				case err == tsdb.ErrShardNotFound:
					st.Err = 1
				default:
					st.Err = 2
				}
			default: // reopen
				if err := r.s.Close(); err != nil {
					failed = "close: " + err.Error()
					return
				}
				if err := r.open(); err != nil {
					failed = "reopen: " + err.Error()
					return
				}
			}
			if st.Obs, err = r.observe(); err != nil {
				failed = "observe: " + err.Error()
				return
			}
			steps = append(steps, st)
		}
	}()
	if r.s != nil {
		func() {
			defer func() { recover() }()
			r.s.Close()
		}()
	}

	// Coq case
	var shs, sts []string
	nser, ninmem, overlap := 0, 0, 0
	type dk struct {
		db int
		k  [2]int
	}
	holders := map[dk]map[int]bool{}
	for _, sh := range d.Shards {
		var ser []string
		for _, sd := range sh.Series {
			ser = append(ser, fmt.Sprintf("(%s, %s)", coqKey([2]int{sd.M, sd.V}), coqPts(sd.Pts)))
			nser++
			x := dk{sh.DB, [2]int{sd.M, sd.V}}
			if holders[x] == nil {
				holders[x] = map[int]bool{}
			}
			holders[x][sh.RP] = true
		}
		if sh.Inmem {
			ninmem++
		}
		shs = append(shs, fmt.Sprintf("mkSS %d %d %d %s %s", sh.ID, sh.DB, sh.RP, hx.CoqBool(sh.Inmem), hx.CoqList(ser)))
	}
	for _, h := range holders {
		if len(h) > 1 {
			overlap++
		}
	}
	ndel := 0
	for i, st := range steps {
		op := "OReopen"
		switch d.Ops[i].K {
		case "del":
			op = fmt.Sprintf("ODel %d", d.Ops[i].ID)
			ndel++
			o.Count(fmt.Sprintf("store:del_err=%d", st.Err))
		case "write":
			op = fmt.Sprintf("OWrite %d %s %s", d.Ops[i].ID, coqKey([2]int{d.Ops[i].S.M, d.Ops[i].S.V}), coqPts(d.Ops[i].S.Pts))
			o.Count(fmt.Sprintf("store:write_err=%d", st.Err))
		default:
			o.Count("store:reopen")
		}
		sts = append(sts, fmt.Sprintf("(%s, %d, %s)", op, st.Err, coqSObs(st.Obs)))
	}
	coq := fmt.Sprintf("CStore %s %s (%s) %s %s", hx.CoqList(shs), coqInts(r.dbs), coqSObs(first), hx.CoqList(sts),
		hx.CoqBool(failed != ""))
	o.Count(fmt.Sprintf("store:shards=%s", bucket(len(d.Shards))))
	o.Count(fmt.Sprintf("store:dbs=%d", len(r.dbs)))
	o.Count(fmt.Sprintf("store:series=%s", bucket(nser)))
	o.Count(fmt.Sprintf("store:keys_in_several_rps=%s", bucket(overlap)))
	switch {
	case ninmem == 0:
		o.Count("store:index=tsi1")
	case ninmem == len(d.Shards):
		o.Count("store:index=inmem")
	default:
		o.Count("store:index=mixed")
	}
	if failed != "" {
		o.Count("store:failed")
	}
	b, _ := json.Marshal(d)
	o.Emit(hx.Case{Kind: "store", Coq: coq, Desc: d, Obs: map[string]interface{}{"first": first, "steps": steps, "failed": failed},
		Nontrivial: ndel > 0 && nser > 0, Sig: "store:" + sig(b), Origin: origin})
}

// ---------- generation ----------

// genMixedChain: a database that mixes index types (inmem shards from before the switch to
// tsi1).  An inmem shard and a tsi1 shard share series; the inmem one is deleted first, then
// the tsi1 one, then a shared series may be written again into a remaining inmem shard.
func genMixedChain(r *hx.Rand) storeDesc {
	var d storeDesc
	ser := func(m, v int, t int64) seriesD {
		return seriesD{M: m, V: v, Pts: [][2]int64{{t + int64(r.Intn(100)), int64(r.Intn(100))}}}
	}
	n := 2 + r.Intn(3)
	shared := [][2]int{}
	for i := 0; i < n; i++ {
		shared = append(shared, [2]int{r.Intn(2), i})
	}
	a := sShardD{ID: 1, DB: 0, RP: 0, Inmem: true}
	b := sShardD{ID: 2, DB: 0, RP: r.Intn(2), Inmem: false}
	c := sShardD{ID: 3, DB: 0, RP: r.Intn(2), Inmem: true}
	for _, k := range shared {
		a.Series = append(a.Series, ser(k[0], k[1], 1000))
		if r.Chance(70) {
			b.Series = append(b.Series, ser(k[0], k[1], 2000))
		}
		if r.Chance(25) {
			c.Series = append(c.Series, ser(k[0], k[1], 3000))
		}
	}
	c.Series = append(c.Series, ser(2, 9, 3000))
	d.Shards = []sShardD{a, b, c}
	if r.Chance(40) {
		d.Shards = append(d.Shards, sShardD{ID: 4, DB: 1, RP: 0, Inmem: r.Bool(), Series: []seriesD{ser(shared[0][0], shared[0][1], 4000)}})
	}
	first, second := uint64(1), uint64(2)
	if r.Chance(25) {
		first, second = second, first
	}
	d.Ops = append(d.Ops, sOpD{K: "del", ID: first})
	if r.Chance(20) {
		d.Ops = append(d.Ops, sOpD{K: "reopen"})
	}
	d.Ops = append(d.Ops, sOpD{K: "del", ID: second})
	if r.Chance(60) {
		k := shared[r.Intn(len(shared))]
		sd := ser(k[0], k[1], 900000)
		d.Ops = append(d.Ops, sOpD{K: "write", ID: 3, S: &sd})
	}
	if r.Chance(30) {
		d.Ops = append(d.Ops, sOpD{K: "del", ID: 3})
	}
	d.Ops = append(d.Ops, sOpD{K: "reopen"})
	return d
}

func genStore(r *hx.Rand) storeDesc {
	if r.Chance(15) {
		return genMixedChain(r)
	}
	var d storeDesc
	ndb := 1 + r.Intn(2)
	mode := r.Intn(5) // 0,1 tsi1; 2,3 inmem; 4 mixed
	nkeysM, nkeysV := 1+r.Intn(3), 1+r.Intn(3)
	id := uint64(0)
	for db := 0; db < ndb; db++ {
		nrp := 1 + r.Intn(3)
		for rp := 0; rp < nrp; rp++ {
			nsh := 1 + r.Intn(2)
			if r.Chance(15) {
				nsh = 3
			}
			for k := 0; k < nsh; k++ {
				id++
				sh := sShardD{ID: id, DB: db, RP: rp}
				switch mode {
				case 0, 1:
					sh.Inmem = false
				case 2, 3:
					sh.Inmem = true
				default:
					sh.Inmem = r.Bool()
				}
				base := int64(k) * 1000000
				for m := 0; m < nkeysM; m++ {
					for v := 0; v < nkeysV; v++ {
						if !r.Chance(55) {
							continue
						}
						sd := seriesD{M: m, V: v}
						np := 1 + r.Intn(3)
						t := base + int64(r.Intn(1000))
						for p := 0; p < np; p++ {
							sd.Pts = append(sd.Pts, [2]int64{t, int64(r.Intn(2000)) - 1000})
							t += 1 + int64(r.Intn(1000))
						}
						sh.Series = append(sh.Series, sd)
					}
				}
				d.Shards = append(d.Shards, sh)
			}
		}
	}
	// shard ids in arbitrary order relative to creation
	if r.Chance(50) {
		perm := make([]uint64, len(d.Shards))
		for i := range perm {
			perm[i] = uint64(i + 1)
		}
		for i := len(perm) - 1; i > 0; i-- {
			j := r.Intn(i + 1)
			perm[i], perm[j] = perm[j], perm[i]
		}
		for i := range d.Shards {
			d.Shards[i].ID = perm[i]
		}
	}
	nops := 1 + r.Intn(4)
	deleted := map[uint64]bool{}
	for k := 0; k < nops; k++ {
		switch {
		case r.Chance(8):
			d.Ops = append(d.Ops, sOpD{K: "del", ID: uint64(len(d.Shards) + 1 + r.Intn(3))}) // unknown shard
		case r.Chance(8) && len(deleted) > 0:
			for x := range deleted {
				d.Ops = append(d.Ops, sOpD{K: "del", ID: x}) // already deleted
				break
			}
		case r.Chance(12):
			d.Ops = append(d.Ops, sOpD{K: "reopen"})
		case r.Chance(25): // a later write, possibly re-creating a series a delete has removed
			sh := d.Shards[r.Intn(len(d.Shards))]
			sd := seriesD{M: r.Intn(nkeysM), V: r.Intn(nkeysV)}
			t := int64(100000000*(k+1)) + int64(r.Intn(1000))
			for p := 1 + r.Intn(2); p > 0; p-- {
				sd.Pts = append(sd.Pts, [2]int64{t, int64(r.Intn(2000)) - 1000})
				t += 1 + int64(r.Intn(1000))
			}
			d.Ops = append(d.Ops, sOpD{K: "write", ID: sh.ID, S: &sd})
		default:
			x := d.Shards[r.Intn(len(d.Shards))].ID
			deleted[x] = true
			d.Ops = append(d.Ops, sOpD{K: "del", ID: x})
		}
	}
	d.Ops = append(d.Ops, sOpD{K: "reopen"})
	return d
}

func designedStore(o *hx.Out) {
	pts := func(t int64) [][2]int64 { return [][2]int64{{t, 1}, {t + 10, 2}} }
	for _, inmem := range []bool{false, true} {
		// the same series key in a finite and an infinite policy of one database; the finite
		// policy's only shard is deleted (the shape of seeded C17-4)
		runStore(o, storeDesc{Shards: []sShardD{
			{ID: 1, DB: 0, RP: 0, Inmem: inmem, Series: []seriesD{{M: 0, V: 0, Pts: pts(10)}}},
			{ID: 2, DB: 0, RP: 1, Inmem: inmem, Series: []seriesD{{M: 0, V: 0, Pts: pts(20)}}},
		}, Ops: []sOpD{{K: "del", ID: 1}, {K: "reopen"}}}, "designed")
		// series only in the deleted shard; same key in another DATABASE must stay
		runStore(o, storeDesc{Shards: []sShardD{
			{ID: 1, DB: 0, RP: 0, Inmem: inmem, Series: []seriesD{{M: 0, V: 0, Pts: pts(10)}, {M: 1, V: 1, Pts: pts(10)}}},
			{ID: 2, DB: 0, RP: 0, Inmem: inmem, Series: []seriesD{{M: 0, V: 0, Pts: pts(1000)}}},
			{ID: 3, DB: 1, RP: 0, Inmem: inmem, Series: []seriesD{{M: 1, V: 1, Pts: pts(10)}}},
		}, Ops: []sOpD{{K: "del", ID: 1}, {K: "reopen"}, {K: "del", ID: 1}, {K: "del", ID: 2}, {K: "reopen"}}}, "designed")
		// last shard of a database, unknown shard
		runStore(o, storeDesc{Shards: []sShardD{
			{ID: 5, DB: 0, RP: 0, Inmem: inmem, Series: []seriesD{{M: 0, V: 0, Pts: pts(10)}}},
		}, Ops: []sOpD{{K: "del", ID: 9}, {K: "del", ID: 5}, {K: "reopen"}}}, "designed")
	}
	// mixed index types in one database (inmem shards from before the switch to tsi1)
	runStore(o, storeDesc{Shards: []sShardD{
		{ID: 1, DB: 0, RP: 0, Inmem: true, Series: []seriesD{{M: 0, V: 0, Pts: pts(10)}, {M: 0, V: 1, Pts: pts(10)}}},
		{ID: 2, DB: 0, RP: 1, Inmem: false, Series: []seriesD{{M: 0, V: 0, Pts: pts(20)}}},
		{ID: 3, DB: 0, RP: 1, Inmem: true, Series: []seriesD{{M: 0, V: 1, Pts: pts(30)}}},
	}, Ops: []sOpD{{K: "del", ID: 1}, {K: "reopen"}, {K: "del", ID: 2}, {K: "reopen"}}}, "designed")
}
