// h_c17: correspondence harness for C17 (retention enforcement).
//
// Runs the REAL retention.Service tick body (the unmodified run() goroutine, gated tick by
// tick through the fakes it calls), RetentionPolicyInfo.ExpiredShardGroups /
// DeletedShardGroups with explicit times, and PointsWriter.MapShards, against a fake
// MetaClient backed by a real meta.Data and a recording TSDBStore with per-call error
// injection.  All wall-clock dependent inputs are offsets from one reading now0 of the
// clock; offsets keep a safety margin on the side where the later real reading could
// flip a comparison (see margin).
package main

import (
	"crypto/sha1"
	"encoding/json"
	"errors"
	"fmt"
	"sort"
	"strconv"
	"strings"
	"time"

	"github.com/influxdata/influxdb/coordinator"
	"github.com/influxdata/influxdb/models"
	"github.com/influxdata/influxdb/services/meta"
	"github.com/influxdata/influxdb/services/retention"
	"github.com/influxdata/influxdb/toml"
	"verifharness/hx"
)

const (
	sec    = int64(time.Second)
	hour   = int64(time.Hour)
	day    = 24 * hour
	margin = 10 * sec // forbidden zone [0, margin) above a boundary
	budget = 4 * time.Second
)

// ---------- replayable descriptions (times = offsets from now0 in ns) ----------

type shardD struct {
	ID     uint64   `json:"id"`
	Owners []uint64 `json:"owners,omitempty"`
}
type groupD struct {
	ID     uint64   `json:"id"`
	Start  int64    `json:"start"`
	End    int64    `json:"end"`
	Del    *int64   `json:"del,omitempty"`
	Trunc  *int64   `json:"trunc,omitempty"`
	Shards []shardD `json:"shards,omitempty"`
}
type rpD struct {
	Name   int      `json:"name"`
	Dur    int64    `json:"dur"`
	SGDur  int64    `json:"sgdur"`
	Groups []groupD `json:"groups,omitempty"`
}
type dbD struct {
	Name int   `json:"name"`
	RPs  []rpD `json:"rps,omitempty"`
}
type passDesc struct {
	Snap  []dbD    `json:"snap"`
	Auth  []dbD    `json:"auth,omitempty"` // nil: same as snap
	Stale bool     `json:"stale"`
	Local []uint64 `json:"local"`
	Orc   []int    `json:"orc"` // 0 ok, 1 error without effect, 2 error with effect
}
type expDesc struct { // absolute times
	RP rpD   `json:"rp"`
	T  int64 `json:"t"`
}
type dropDesc struct {
	Dur   int64   `json:"dur"`
	SGDur int64   `json:"sgdur"`
	Pre   []int64 `json:"pre"` // timestamps (offsets) for which groups exist beforehand
	Pts   []int64 `json:"pts"` // point times (offsets)
	Trunc *int64  `json:"trunc,omitempty"` // TruncateShardGroups(now0+trunc) after creating Pre
}

func cloneDBs(a []dbD) []dbD {
	b, _ := json.Marshal(a)
	var r []dbD
	json.Unmarshal(b, &r)
	return r
}

// ---------- description <-> meta.Data ----------

func tm(base, off int64) time.Time { return time.Unix(0, base+off).UTC() }

func toData(dbs []dbD, base int64) *meta.Data {
	d := &meta.Data{}
	for _, db := range dbs {
		di := meta.DatabaseInfo{Name: "db" + strconv.Itoa(db.Name)}
		for _, rp := range db.RPs {
			ri := meta.RetentionPolicyInfo{Name: "rp" + strconv.Itoa(rp.Name), ReplicaN: 1,
				Duration: time.Duration(rp.Dur), ShardGroupDuration: time.Duration(rp.SGDur)}
			for _, g := range rp.Groups {
				gi := meta.ShardGroupInfo{ID: g.ID, StartTime: tm(base, g.Start), EndTime: tm(base, g.End)}
				if g.Del != nil {
					gi.DeletedAt = tm(base, *g.Del)
				}
				if g.Trunc != nil {
					gi.TruncatedAt = tm(base, *g.Trunc)
				}
				for _, s := range g.Shards {
					si := meta.ShardInfo{ID: s.ID}
					for _, o := range s.Owners {
						si.Owners = append(si.Owners, meta.ShardOwner{NodeID: o})
					}
					gi.Shards = append(gi.Shards, si)
				}
				ri.ShardGroups = append(ri.ShardGroups, gi)
			}
			di.RetentionPolicies = append(di.RetentionPolicies, ri)
		}
		d.Databases = append(d.Databases, di)
	}
	return d
}

func nameNum(s, prefix string) int {
	n, err := strconv.Atoi(strings.TrimPrefix(s, prefix))
	if err != nil {
		panic("unexpected name " + s)
	}
	return n
}

// fromData reads the metadata back; a DeletedAt stamped during the pass (inside
// [t0,t1]) is canonicalised to offset 0 (= the model's tdel).
func fromData(d *meta.Data, base int64, t0, t1 time.Time) []dbD {
	var out []dbD
	for _, di := range d.Databases {
		db := dbD{Name: nameNum(di.Name, "db")}
		for _, ri := range di.RetentionPolicies {
			rp := rpD{Name: nameNum(ri.Name, "rp"), Dur: int64(ri.Duration), SGDur: int64(ri.ShardGroupDuration)}
			for _, gi := range ri.ShardGroups {
				g := groupD{ID: gi.ID, Start: gi.StartTime.UnixNano() - base, End: gi.EndTime.UnixNano() - base}
				if !gi.DeletedAt.IsZero() {
					v := gi.DeletedAt.UnixNano() - base
					if !gi.DeletedAt.Before(t0) && !gi.DeletedAt.After(t1) {
						v = 0
					}
					g.Del = &v
				}
				if !gi.TruncatedAt.IsZero() {
					v := gi.TruncatedAt.UnixNano() - base
					g.Trunc = &v
				}
				for _, si := range gi.Shards {
					s := shardD{ID: si.ID}
					for _, o := range si.Owners {
						s.Owners = append(s.Owners, o.NodeID)
					}
					g.Shards = append(g.Shards, s)
				}
				rp.Groups = append(rp.Groups, g)
			}
			db.RPs = append(db.RPs, rp)
		}
		out = append(out, db)
	}
	return out
}

// ---------- Coq printers ----------

func coqOptZ(p *int64, base int64) string {
	if p == nil {
		return "None"
	}
	return "(Some " + hx.CoqZ(base+*p) + ")"
}
func coqGroup(g groupD, base int64) string {
	var sh []string
	for _, s := range g.Shards {
		sh = append(sh, fmt.Sprintf("mkShard %d %s", s.ID, hx.CoqNList(s.Owners)))
	}
	return fmt.Sprintf("mkGroup %d %s %s %s %s %s", g.ID, hx.CoqZ(base+g.Start), hx.CoqZ(base+g.End),
		coqOptZ(g.Del, base), coqOptZ(g.Trunc, base), hx.CoqList(sh))
}
func coqRP(rp rpD, base int64) string {
	var gs []string
	for _, g := range rp.Groups {
		gs = append(gs, coqGroup(g, base))
	}
	return fmt.Sprintf("mkPolicy %d %s %s %s", rp.Name, hx.CoqZ(rp.Dur), hx.CoqZ(rp.SGDur), hx.CoqList(gs))
}
func coqMeta(dbs []dbD, base int64) string {
	var ds []string
	for _, db := range dbs {
		var rs []string
		for _, rp := range db.RPs {
			rs = append(rs, coqRP(rp, base))
		}
		ds = append(ds, fmt.Sprintf("mkDb %d %s", db.Name, hx.CoqList(rs)))
	}
	return hx.CoqList(ds)
}

// ---------- the fakes and the gated real service ----------

type callRec struct {
	Kind string `json:"k"` // g | s | p
	DB   int    `json:"db,omitempty"`
	RP   int    `json:"rp,omitempty"`
	ID   uint64 `json:"id,omitempty"`
	OK   bool   `json:"ok"`
}

type passCtx struct {
	snapshot []meta.DatabaseInfo
	auth     *meta.Data
	local    []uint64
	orc      []int
	oi       int
	calls    []callRec
	done     chan struct{}
}

func (c *passCtx) next() int {
	if c.oi < len(c.orc) {
		c.oi++
		return c.orc[c.oi-1]
	}
	c.oi++
	return 0
}

var errInjected = errors.New("injected failure")

type fakes struct {
	start chan *passCtx
	cur   *passCtx
}

// Databases is the first call of a tick: it closes the previous pass and waits for the
// next input.  Like meta.Client it hands out an immutable snapshot.
func (f *fakes) Databases() []meta.DatabaseInfo {
	if f.cur != nil && f.cur.done != nil {
		close(f.cur.done)
	}
	c, ok := <-f.start
	if !ok { // the harness is stopping this service: an empty tick
		f.cur = &passCtx{}
		return nil
	}
	f.cur = c
	return f.cur.snapshot
}
func (f *fakes) DeleteShardGroup(database, policy string, id uint64) error {
	c := f.cur
	rec := callRec{Kind: "g", DB: nameNum(database, "db"), RP: nameNum(policy, "rp"), ID: id}
	var err error
	switch c.next() {
	case 1:
		err = errInjected
	case 2:
		c.auth.DeleteShardGroup(database, policy, id)
		err = errInjected
	default:
		err = c.auth.DeleteShardGroup(database, policy, id)
	}
	rec.OK = err == nil
	c.calls = append(c.calls, rec)
	return err
}
func (f *fakes) PruneShardGroups() error {
	c := f.cur
	var err error
	switch c.next() {
	case 1:
		err = errInjected
	case 2:
		c.auth.PruneShardGroups()
		err = errInjected
	default:
		if c.auth != nil {
			c.auth.PruneShardGroups()
		}
	}
	c.calls = append(c.calls, callRec{Kind: "p", OK: err == nil})
	return err
}
func (f *fakes) ShardIDs() []uint64 { return append([]uint64(nil), f.cur.local...) }
func (f *fakes) DeleteShard(id uint64) error {
	c := f.cur
	remove := func() {
		var l []uint64
		for _, x := range c.local {
			if x != id {
				l = append(l, x)
			}
		}
		c.local = l
	}
	var err error
	switch c.next() {
	case 1:
		err = errInjected
	case 2:
		remove()
		err = errInjected
	default:
		remove()
	}
	c.calls = append(c.calls, callRec{Kind: "s", ID: id, OK: err == nil})
	return err
}

// a real retention.Service wired to the fakes.  Every "pass" case and every scenario gets
// its own service, so that whatever the service remembers from tick to tick belongs to the
// case that is being recorded (and is reproduced when the case is replayed).
type service struct {
	fk  *fakes
	svc *retention.Service
}

func startService() *service {
	fk := &fakes{start: make(chan *passCtx)}
	cfg := retention.NewConfig()
	cfg.CheckInterval = toml.Duration(500 * time.Microsecond)
	s := retention.NewService(cfg)
	s.MetaClient = fk
	s.TSDBStore = fk
	if err := s.Open(); err != nil {
		panic(err)
	}
	return &service{fk: fk, svc: s}
}

func (s *service) stop() {
	close(s.fk.start) // the tick in waiting (if any) runs on an empty snapshot
	done := make(chan struct{})
	go func() { s.svc.Close(); close(done) }()
	select {
	case <-done:
	case <-time.After(20 * time.Second):
		panic("retention service does not stop")
	}
}

// one tick of the real service on the given input
func (s *service) realPass(d passDesc, base int64) (calls []callRec, auth *meta.Data, local []uint64, t0, t1 time.Time) {
	fk := s.fk
	authD := d.Auth
	if authD == nil {
		authD = d.Snap
	}
	ctx := &passCtx{snapshot: toData(d.Snap, base).Databases, auth: toData(authD, base),
		local: append([]uint64(nil), d.Local...), orc: d.Orc, done: make(chan struct{})}
	if ctx.snapshot == nil {
		ctx.snapshot = []meta.DatabaseInfo{}
	}
	t0 = time.Now().UTC()
	select {
	case fk.start <- ctx:
	case <-time.After(20 * time.Second):
		panic("retention service does not start a new tick")
	}
	select {
	case <-ctx.done:
	case <-time.After(20 * time.Second):
		panic("retention service tick does not end")
	}
	t1 = time.Now().UTC()
	return ctx.calls, ctx.auth, ctx.local, t0, t1
}

func coqCalls(cs []callRec) string {
	var out []string
	for _, c := range cs {
		switch c.Kind {
		case "g":
			out = append(out, fmt.Sprintf("CDelGroup %d %d %d %s", c.DB, c.RP, c.ID, hx.CoqBool(c.OK)))
		case "s":
			out = append(out, fmt.Sprintf("CDelShard %d %s", c.ID, hx.CoqBool(c.OK)))
		default:
			out = append(out, fmt.Sprintf("CPrune %s", hx.CoqBool(c.OK)))
		}
	}
	return hx.CoqList(out)
}
func coqOrc(o []int) string {
	var out []string
	for _, x := range o {
		out = append(out, []string{"FOk", "FErr", "FErrApplied"}[x%3])
	}
	return hx.CoqList(out)
}

type passObs struct {
	Calls []callRec `json:"calls"`
	Auth  []dbD     `json:"auth"`
	Local []uint64  `json:"local"`
}

func wellFormed(dbs []dbD) bool {
	dn := map[int]bool{}
	for _, db := range dbs {
		if dn[db.Name] {
			return false
		}
		dn[db.Name] = true
		rn := map[int]bool{}
		for _, rp := range db.RPs {
			if rn[rp.Name] {
				return false
			}
			rn[rp.Name] = true
			gn := map[uint64]bool{}
			for _, g := range rp.Groups {
				if gn[g.ID] {
					return false
				}
				gn[g.ID] = true
			}
		}
	}
	return true
}

// runPass executes one pass on a fresh service, emits its case and returns the observation
func runPass(o *hx.Out, d passDesc, base int64, origin string) passObs {
	o.Begin("pass", d)
	svc := startService()
	obs, in, res := svc.tick(o, d, base)
	svc.stop()
	ng, ns := 0, 0
	for _, c := range obs.Calls {
		switch c.Kind {
		case "g":
			ng++
		case "s":
			ns++
		}
	}
	db, _ := json.Marshal(d)
	o.Emit(hx.Case{Kind: "pass", Coq: fmt.Sprintf("CPass (%s) (%s) false", in, res), Desc: d, Obs: obs, Nontrivial: ng+ns > 0,
		Sig: "pass:" + sig(db), Origin: origin})
	return obs
}

// tick runs one tick of this service on d; returns the observation and the Coq terms of the
// input and of the observed result
func (svc *service) tick(o *hx.Out, d passDesc, base int64) (passObs, string, string) {
	calls, auth, local, t0, t1 := svc.realPass(d, base)
	obs := passObs{Calls: calls, Auth: fromData(auth, base, t0, t1), Local: local}
	authD := d.Auth
	if authD == nil {
		authD = d.Snap
	}
	var in string
	if d.Auth == nil {
		in = fmt.Sprintf("let m := %s in mkInput %s %s %s m m %s %s", coqMeta(d.Snap, base), hx.CoqZ(base), hx.CoqZ(base), hx.CoqZ(base),
			hx.CoqNList(d.Local), coqOrc(d.Orc))
	} else {
		in = fmt.Sprintf("mkInput %s %s %s %s %s %s %s", hx.CoqZ(base), hx.CoqZ(base), hx.CoqZ(base),
			coqMeta(d.Snap, base), coqMeta(authD, base), hx.CoqNList(d.Local), coqOrc(d.Orc))
	}
	res := fmt.Sprintf("mkResult %s %s %s", coqCalls(calls), coqMeta(obs.Auth, base), hx.CoqNList(local))
	ng, ns, nfail := 0, 0, 0
	for _, c := range calls {
		switch c.Kind {
		case "g":
			ng++
		case "s":
			ns++
		}
		if !c.OK {
			nfail++
		}
	}
	ngroups := 0
	for _, db := range d.Snap {
		for _, rp := range db.RPs {
			ngroups += len(rp.Groups)
			switch {
			case rp.Dur == 0:
				o.Count("pass:policy=infinite")
			case rp.Dur < 0:
				o.Count("pass:policy=negative")
			default:
				o.Count("pass:policy=finite")
			}
		}
	}
	o.Count(fmt.Sprintf("pass:groups=%s", bucket(ngroups)))
	o.Count(fmt.Sprintf("pass:delgroup_calls=%s", bucket(ng)))
	o.Count(fmt.Sprintf("pass:delshard_calls=%s", bucket(ns)))
	o.Count(fmt.Sprintf("pass:failed_calls=%s", bucket(nfail)))
	o.Count(fmt.Sprintf("pass:stale_snapshot=%v", d.Auth != nil))
	o.Count(fmt.Sprintf("pass:wellformed=%v", wellFormed(d.Snap)))
	clean := d.Auth == nil && wellFormed(d.Snap)
	for _, x := range d.Orc {
		if x != 0 {
			clean = false
		}
	}
	o.Count(fmt.Sprintf("pass:clean=%v", clean))
	// observed boundary: local shards unknown to the metadata are left alone
	known := map[uint64]bool{}
	for _, db := range d.Snap {
		for _, rp := range db.RPs {
			for _, g := range rp.Groups {
				for _, s := range g.Shards {
					known[s.ID] = true
				}
			}
		}
	}
	for _, id := range local {
		if !known[id] {
			o.Count("pass:unknown_local_shard_kept")
			break
		}
	}
	return obs, in, res
}

// ---------- scenarios: consecutive ticks of one service ----------

type scenDesc struct {
	Ticks []passDesc `json:"ticks"`
}

func emitScen(o *hx.Out, d scenDesc, obs []passObs, ins, ress []string, origin string) {
	var ts []string
	nontrivial := false
	for k := range ins {
		ts = append(ts, fmt.Sprintf("(%s, %s)", ins[k], ress[k]))
		for _, c := range obs[k].Calls {
			if c.Kind != "p" {
				nontrivial = true
			}
		}
	}
	o.Count(fmt.Sprintf("scen:ticks=%d", len(d.Ticks)))
	db, _ := json.Marshal(d)
	o.Emit(hx.Case{Kind: "scen", Coq: fmt.Sprintf("CScen %s false", hx.CoqList(ts)), Desc: d, Obs: obs, Nontrivial: nontrivial,
		Sig: "scen:" + sig(db), Origin: origin})
}

// runScen replays a recorded scenario: the ticks as described, on one fresh service
func runScen(o *hx.Out, d scenDesc, origin string) {
	o.Begin("scen", d)
	base := time.Now().UnixNano()
	svc := startService()
	var obs []passObs
	var ins, ress []string
	for _, t := range d.Ticks {
		ob, in, res := svc.tick(o, t, base)
		obs, ins, ress = append(obs, ob), append(ins, in), append(ress, res)
	}
	svc.stop()
	emitScen(o, d, obs, ins, ress, origin)
}

func sig(b []byte) string { return fmt.Sprintf("%x", sha1.Sum(b)) }

func bucket(n int) string {
	switch {
	case n == 0:
		return "0"
	case n <= 2:
		return "1-2"
	case n <= 5:
		return "3-5"
	case n <= 10:
		return "6-10"
	}
	return ">10"
}

// ---------- pure functions with explicit time ----------

func runExp(o *hx.Out, d expDesc, origin string) {
	o.Begin("exp", d)
	data := toData([]dbD{{Name: 0, RPs: []rpD{d.RP}}}, 0)
	rpi := &data.Databases[0].RetentionPolicies[0]
	var ex, de []uint64
	for _, g := range rpi.ExpiredShardGroups(time.Unix(0, d.T).UTC()) {
		ex = append(ex, g.ID)
	}
	for _, g := range rpi.DeletedShardGroups() {
		de = append(de, g.ID)
	}
	coq := fmt.Sprintf("CExp (%s) %s %s %s", coqRP(d.RP, 0), hx.CoqZ(d.T), hx.CoqNList(ex), hx.CoqNList(de))
	o.Count(fmt.Sprintf("exp:expired=%s", bucket(len(ex))))
	b, _ := json.Marshal(d)
	o.Emit(hx.Case{Kind: "exp", Coq: coq, Desc: d, Obs: map[string]interface{}{"expired": ex, "deleted": de},
		Nontrivial: len(d.RP.Groups) > 0, Sig: "exp:" + sig(b), Origin: origin})
}

// ---------- write path ----------

type pwMeta struct {
	data    *meta.Data
	created []string
}

func (m *pwMeta) NodeID() uint64                           { return 1 }
func (m *pwMeta) Database(name string) *meta.DatabaseInfo { return m.data.Database(name) }
func (m *pwMeta) RetentionPolicy(database, policy string) (*meta.RetentionPolicyInfo, error) {
	return m.data.RetentionPolicy(database, policy)
}

// as meta.Client.CreateShardGroup: existing group for the timestamp, else the command, then look up
func (m *pwMeta) CreateShardGroup(database, policy string, timestamp time.Time) (*meta.ShardGroupInfo, error) {
	sg, _ := m.data.ShardGroupByTimestamp(database, policy, timestamp)
	if sg == nil {
		if err := m.data.CreateShardGroup(database, policy, timestamp); err != nil {
			return nil, err
		}
		rpi, err := m.data.RetentionPolicy(database, policy)
		if err != nil {
			return nil, err
		}
		sg = rpi.ShardGroupByTimestamp(timestamp)
	}
	if sg != nil {
		tr := "None"
		if sg.Truncated() {
			tr = "(Some " + hx.CoqZ(sg.TruncatedAt.UnixNano()) + ")"
		}
		m.created = append(m.created, fmt.Sprintf("(%s, mkGroup %d %s %s None %s [])", hx.CoqZ(timestamp.UnixNano()),
			sg.ID, hx.CoqZ(sg.StartTime.UnixNano()), hx.CoqZ(sg.EndTime.UnixNano()), tr))
	}
	return sg, nil
}

func runDrop(o *hx.Out, d dropDesc, origin string) {
	o.Begin("drop", d)
	base := time.Now().UnixNano()
	data := &meta.Data{}
	data.CreateDataNode("h1", "t1")
	data.CreateDataNode("h2", "t2")
	data.Databases = []meta.DatabaseInfo{{Name: "db0", DefaultRetentionPolicy: "rp0", RetentionPolicies: []meta.RetentionPolicyInfo{
		{Name: "rp0", ReplicaN: 1, Duration: time.Duration(d.Dur), ShardGroupDuration: time.Duration(d.SGDur)}}}}
	for _, t := range d.Pre {
		data.CreateShardGroup("db0", "rp0", tm(base, t))
	}
	if d.Trunc != nil {
		data.TruncateShardGroups(tm(base, *d.Trunc))
		o.Count("drop:truncated")
	}
	m := &pwMeta{data: data}
	pw := coordinator.NewPointsWriter()
	pw.MetaClient = m
	wp := &coordinator.WritePointsRequest{Database: "db0", RetentionPolicy: "rp0"}
	for i, t := range d.Pts {
		p, err := models.NewPoint("m", nil, models.Fields{"i": int64(i)}, tm(base, t))
		if err != nil {
			panic(err)
		}
		wp.Points = append(wp.Points, p)
	}
	flags := make([]bool, len(d.Pts))
	failed, panicked := false, false
	func() {
		defer func() {
			if e := recover(); e != nil {
				panicked = true
			}
		}()
		mp, err := pw.MapShards(wp)
		if err != nil {
			failed = true
			return
		}
		for _, p := range mp.Dropped {
			f, _ := p.Fields()
			flags[int(f["i"].(int64))] = true
		}
	}()
	var pts, fl []string
	ndrop := 0
	for i, t := range d.Pts {
		pts = append(pts, hx.CoqZ(base+t))
		fl = append(fl, hx.CoqBool(flags[i]))
		if flags[i] {
			ndrop++
		}
	}
	if failed || panicked {
		fl = nil
	}
	coq := fmt.Sprintf("CDrop %s %s %s %s %s %s", hx.CoqZ(base), hx.CoqZ(d.Dur), hx.CoqList(pts),
		hx.CoqList(m.created), hx.CoqBool(failed || panicked), hx.CoqList(fl))
	o.Count(fmt.Sprintf("drop:dropped=%s", bucket(ndrop)))
	if d.Dur == 0 {
		o.Count("drop:policy=infinite")
	} else {
		o.Count("drop:policy=finite")
	}
	b, _ := json.Marshal(d)
	o.Emit(hx.Case{Kind: "drop", Coq: coq, Desc: d, Obs: map[string]interface{}{"dropped": flags, "err": failed, "panicked": panicked},
		Nontrivial: len(d.Pts) > 0, Sig: "drop:" + sig(b), Origin: origin})
}

// ---------- generation ----------

var durations = []int64{0, 0, hour, hour, day, 7 * day, 30 * day, 365 * day, sec, 90 * 60 * sec}
var sgdurs = []int64{hour, day, 7 * day}

// an offset x such that (x < 0) decides the comparison both at now0 and at any later
// reading within the budget: any negative value, or a value >= margin
func sideOffset(r *hx.Rand) int64 {
	switch r.Intn(8) {
	case 0:
		return -1
	case 1:
		return margin
	case 2:
		return -sec
	case 3:
		return -hour - int64(r.Intn(1000))
	case 4:
		return hour + int64(r.Intn(1000))
	case 5:
		return -(int64(r.Intn(400)) + 1) * day
	case 6:
		return margin + int64(r.Intn(400))*day
	}
	return -int64(r.Intn(int(hour))) - 1
}

type gen struct {
	r       *hx.Rand
	nextGID uint64
	nextSID uint64
}

func (g *gen) delOffset() *int64 {
	// DeletedAt: relative to the prune boundary now0 - 2 weeks, never inside [0, margin) of now0
	var v int64
	switch g.r.Intn(4) {
	case 0:
		v = -14*day + sideOffset(g.r) // around the prune boundary
	case 1:
		v = -int64(g.r.Intn(13)+1) * day // recently deleted
	case 2:
		v = -int64(g.r.Intn(300)+15) * day // long ago
	default:
		v = -margin - int64(g.r.Intn(int(hour)))
	}
	return &v
}

func (g *gen) group(dur, sgdur int64, malformed bool) groupD {
	r := g.r
	g.nextGID++
	gr := groupD{ID: g.nextGID}
	// End + dur - now0 = x  with x on a safe side
	x := sideOffset(r)
	d := dur
	if d == 0 {
		d = []int64{hour, day, 365 * day}[r.Intn(3)]
	}
	gr.End = x - d
	gr.Start = gr.End - sgdur
	if malformed && r.Chance(10) {
		gr.Start = gr.End + int64(r.Intn(1000))
	}
	if r.Chance(25) {
		gr.Del = g.delOffset()
	}
	if r.Chance(20) {
		v := gr.Start + int64(r.Intn(int(sgdur)))
		gr.Trunc = &v
	}
	ns := 1 + r.Intn(3)
	if r.Chance(5) {
		ns = 0
	}
	for i := 0; i < ns; i++ {
		g.nextSID++
		s := shardD{ID: g.nextSID}
		for k := 0; k < 1+r.Intn(2); k++ {
			s.Owners = append(s.Owners, uint64(1+r.Intn(3)))
		}
		gr.Shards = append(gr.Shards, s)
	}
	return gr
}

func (g *gen) meta(malformed bool) []dbD {
	r := g.r
	var dbs []dbD
	ndb := 1 + r.Intn(3)
	if r.Chance(3) {
		ndb = 0
	}
	for i := 0; i < ndb; i++ {
		db := dbD{Name: i}
		if malformed && r.Chance(25) && i > 0 {
			db.Name = r.Intn(i)
		}
		nrp := 1 + r.Intn(2)
		if r.Chance(5) {
			nrp = 0
		}
		for j := 0; j < nrp; j++ {
			rp := rpD{Name: j, Dur: durations[r.Intn(len(durations))], SGDur: sgdurs[r.Intn(len(sgdurs))]}
			if malformed && r.Chance(20) {
				rp.Dur = -durations[2+r.Intn(4)]
			}
			if malformed && r.Chance(25) && j > 0 {
				rp.Name = r.Intn(j)
			}
			ng := r.Intn(5)
			for k := 0; k < ng; k++ {
				gr := g.group(rp.Dur, rp.SGDur, malformed)
				if malformed && r.Chance(15) && k > 0 {
					gr.ID = rp.Groups[r.Intn(k)].ID
				}
				if malformed && r.Chance(10) && len(gr.Shards) > 0 && g.nextSID > 2 {
					gr.Shards[0].ID = uint64(1 + r.Intn(int(g.nextSID)))
				}
				rp.Groups = append(rp.Groups, gr)
			}
			// meta.Data keeps a policy's groups sorted by time while IDs follow creation
			// order: back-filled groups (an older window created later) make the IDs
			// non-monotone along the list
			if r.Chance(70) {
				sort.SliceStable(rp.Groups, func(a, b int) bool { return rp.Groups[a].End < rp.Groups[b].End })
			}
			db.RPs = append(db.RPs, rp)
		}
		dbs = append(dbs, db)
	}
	return dbs
}

func allShardIDs(dbs []dbD) []uint64 {
	var ids []uint64
	for _, db := range dbs {
		for _, rp := range db.RPs {
			for _, g := range rp.Groups {
				for _, s := range g.Shards {
					ids = append(ids, s.ID)
				}
			}
		}
	}
	return ids
}

func (g *gen) local(dbs []dbD) []uint64 {
	r := g.r
	seen := map[uint64]bool{}
	var l []uint64
	for _, id := range allShardIDs(dbs) {
		if r.Chance(65) && !seen[id] {
			seen[id] = true
			l = append(l, id)
		}
	}
	for k := r.Intn(3); k > 0; k-- { // shards unknown to the metadata
		id := uint64(1000 + r.Intn(50))
		if !seen[id] {
			seen[id] = true
			l = append(l, id)
		}
	}
	for i := len(l) - 1; i > 0; i-- { // map order of the real store is arbitrary
		j := r.Intn(i + 1)
		l[i], l[j] = l[j], l[i]
	}
	return l
}

func (g *gen) orc() []int {
	r := g.r
	if r.Chance(45) {
		return []int{}
	}
	n := 1 + r.Intn(12)
	o := make([]int, n)
	for i := range o {
		switch {
		case r.Chance(60):
			o[i] = 0
		case r.Chance(60):
			o[i] = 1
		default:
			o[i] = 2
		}
	}
	return o
}

// environment changes between two passes of a scenario
func (g *gen) mutate(dbs []dbD) (out []dbD, what string) {
	r := g.r
	out = cloneDBs(dbs)
	type loc struct{ i, j int }
	var rps []loc
	for i := range out {
		for j := range out[i].RPs {
			rps = append(rps, loc{i, j})
		}
	}
	if len(rps) == 0 {
		return out, "none"
	}
	l := rps[r.Intn(len(rps))]
	rp := &out[l.i].RPs[l.j]
	switch r.Intn(6) {
	case 0: // ALTER RETENTION POLICY ... DURATION: shorter, longer or infinite
		rp.Dur = durations[r.Intn(len(durations))]
		// keep every group on a safe side of the new boundary
		for k := range rp.Groups {
			x := rp.Groups[k].End + rp.Dur
			if x >= 0 && x < margin {
				rp.Groups[k].End -= margin
				rp.Groups[k].Start -= margin
			}
		}
		return out, "alter-duration"
	case 1: // time passes: everything moves into the past
		dt := []int64{hour, day, 15 * day, 400 * day}[r.Intn(4)]
		for i := range out {
			for j := range out[i].RPs {
				for k := range out[i].RPs[j].Groups {
					gr := &out[i].RPs[j].Groups[k]
					gr.Start -= dt
					gr.End -= dt
					if gr.Del != nil {
						v := *gr.Del - dt
						if v > -14*day-margin && v <= -14*day+margin {
							v = -14*day - margin - 1
						}
						gr.Del = &v
					}
					if gr.Trunc != nil {
						v := *gr.Trunc - dt
						gr.Trunc = &v
					}
					x := gr.End + out[i].RPs[j].Dur
					if x >= 0 && x < margin {
						gr.End -= margin
						gr.Start -= margin
					}
				}
			}
		}
		return out, "time-passes"
	case 2: // a new group is created by a write
		rp.Groups = append(rp.Groups, g.group(rp.Dur, rp.SGDur, false))
		return out, "new-group"
	case 3: // truncate
		for k := range rp.Groups {
			if rp.Groups[k].Del == nil && rp.Groups[k].End > 0 {
				v := int64(0)
				if rp.Groups[k].Start > 0 {
					v = rp.Groups[k].Start
				}
				rp.Groups[k].Trunc = &v
			}
		}
		return out, "truncate"
	case 4: // DROP RETENTION POLICY
		out[l.i].RPs = append(out[l.i].RPs[:l.j], out[l.i].RPs[l.j+1:]...)
		return out, "drop-policy"
	}
	return out, "none"
}

// fix DeletedAt offsets stamped in an earlier pass of the scenario (offset 0) so that they
// stay outside the canonicalisation window of the next pass
func settle(dbs []dbD) []dbD {
	out := cloneDBs(dbs)
	for i := range out {
		for j := range out[i].RPs {
			for k := range out[i].RPs[j].Groups {
				gr := &out[i].RPs[j].Groups[k]
				if gr.Del != nil && *gr.Del >= 0 && *gr.Del < margin {
					v := int64(-1)
					gr.Del = &v
				}
			}
		}
	}
	return out
}

func scenario(o *hx.Out, g *gen, malformed bool) int {
	r := g.r
	base := time.Now().UnixNano()
	started := time.Now()
	state := g.meta(malformed)
	local := g.local(state)
	npass := 1 + r.Intn(4)
	emitted := 0
	var prev []dbD
	var sd scenDesc
	var allObs []passObs
	var ins, ress []string
	o.Begin("scen", sd)
	svc := startService()
	defer func() {
		svc.stop()
		emitScen(o, sd, allObs, ins, ress, "gen")
	}()
	for k := 0; k < npass; k++ {
		if time.Since(started) > budget {
			break // margins are only valid for a bounded real-time span
		}
		d := passDesc{Snap: state, Local: local, Orc: g.orc()}
		if k == npass-1 && r.Chance(50) {
			d.Orc = []int{} // finish with a failure-free pass
		}
		if prev != nil && r.Chance(20) {
			d.Snap, d.Auth, d.Stale = prev, state, true // the node's cache lags behind
		}
		sd.Ticks = append(sd.Ticks, d)
		o.Begin("scen", sd)
		obs, in, res := svc.tick(o, d, base)
		allObs, ins, ress = append(allObs, obs), append(ins, in), append(ress, res)
		emitted++
		prev = state
		state = settle(obs.Auth)
		local = obs.Local
		if r.Chance(60) {
			var what string
			state, what = g.mutate(state)
			o.Count("scenario:env=" + what)
		}
		if r.Chance(25) { // shards (re)appear: restore, copy-shard, or leftovers unknown to the metadata
			local = append(local, g.local(state)...)
			seen := map[uint64]bool{}
			var l []uint64
			for _, id := range local {
				if !seen[id] {
					seen[id] = true
					l = append(l, id)
				}
			}
			local = l
		}
	}
	return emitted
}

var extremes = []int64{0, 1, -1, hour, -hour, 1 << 62, -(1 << 62), 9223372036854775807, -9223372036854775808, 1700000000 * sec}

func genExp(r *hx.Rand) expDesc {
	t := extremes[r.Intn(len(extremes))]
	if r.Chance(70) {
		t = 1700000000*sec + int64(r.Intn(1000000))*sec
	}
	dur := durations[r.Intn(len(durations))]
	switch r.Intn(8) {
	case 0:
		dur = extremes[r.Intn(len(extremes))]
	case 1:
		dur = -dur
	}
	rp := rpD{Name: 0, Dur: dur, SGDur: hour}
	n := 1 + r.Intn(6)
	for k := 0; k < n; k++ {
		g := groupD{ID: uint64(k + 1)}
		// End + dur relative to t: exactly at, one off, far
		delta := []int64{0, 1, -1, 2, -2, sec, -sec, hour, -hour}[r.Intn(9)]
		end := t - dur + delta
		// keep End a valid int64 in Z terms: recompute with big ints avoided by checking wrap
		if (dur > 0 && t-dur > t) || (dur < 0 && t-dur < t) {
			end = extremes[r.Intn(len(extremes))]
		}
		if r.Chance(10) {
			end = extremes[r.Intn(len(extremes))]
		}
		g.End = end
		g.Start = end - hour
		if g.Start > g.End { // wrapped
			g.Start = g.End
		}
		if r.Chance(25) {
			v := int64(1 + r.Intn(1000000))
			if r.Chance(30) {
				v = extremes[1+r.Intn(len(extremes)-1)]
			}
			g.Del = &v
		}
		if r.Chance(20) {
			v := g.Start + 1
			g.Trunc = &v
		}
		g.Shards = []shardD{{ID: uint64(100 + k)}}
		rp.Groups = append(rp.Groups, g)
	}
	return expDesc{RP: rp, T: t}
}

func genDrop(r *hx.Rand) dropDesc {
	d := dropDesc{Dur: durations[r.Intn(len(durations))], SGDur: sgdurs[r.Intn(len(sgdurs))]}
	if d.Dur != 0 && d.Dur < d.SGDur && r.Chance(50) {
		d.SGDur = hour
	}
	pt := func() int64 {
		if d.Dur == 0 {
			return -int64(r.Intn(1000)) * day
		}
		// offset from the cut-off now0 - dur; points in the future are allowed
		x := sideOffset(r)
		if r.Chance(20) {
			x = int64(r.Intn(int(d.Dur/sec)+1)) * sec // inside the retention window
			if x < margin {
				x = margin
			}
		}
		return -d.Dur + x
	}
	for k := r.Intn(3); k > 0; k-- {
		d.Pre = append(d.Pre, pt())
	}
	n := 1 + r.Intn(8)
	for k := 0; k < n; k++ {
		d.Pts = append(d.Pts, pt())
	}
	if len(d.Pre) > 0 && r.Chance(40) {
		v := d.Pre[r.Intn(len(d.Pre))] + int64(r.Intn(3)-1)*int64(r.Intn(int(hour)))
		d.Trunc = &v
	}
	return d
}

func ip(v int64) *int64 { return &v }

func designed(o *hx.Out) {
	// pass: the shape of retention/service_test.go plus boundary offsets, infinite policy,
	// already-deleted and prunable groups, unknown local shards, shards owned elsewhere
	for _, dur := range []int64{0, hour, 30 * day} {
		for _, x := range []int64{-1, -sec, margin, hour} {
			d := dur
			if d == 0 {
				d = hour
			}
			snap := []dbD{{Name: 0, RPs: []rpD{{Name: 0, Dur: dur, SGDur: hour, Groups: []groupD{
				{ID: 1, Start: x - d - hour, End: x - d, Shards: []shardD{{ID: 2, Owners: []uint64{1}}, {ID: 3, Owners: []uint64{2}}}},
				{ID: 4, Start: x - d - 2*hour, End: x - d - hour, Del: ip(-day), Shards: []shardD{{ID: 5, Owners: []uint64{1}}}},
				{ID: 6, Start: x - d - 3*hour, End: x - d - 2*hour, Del: ip(-15 * day), Shards: []shardD{{ID: 7, Owners: []uint64{2}}}},
				{ID: 8, Start: hour, End: 2 * hour, Trunc: ip(hour + 1), Shards: []shardD{{ID: 9, Owners: []uint64{1}}}},
			}}}}}
			for _, orc := range [][]int{{}, {1}, {2}, {0, 1, 0, 1}, {0, 0, 0, 0, 1}} {
				runPass(o, passDesc{Snap: snap, Local: []uint64{3, 2, 5, 7, 9, 1001}, Orc: orc}, time.Now().UnixNano(), "designed")
			}
		}
	}
	// a truncated group is aged from its nominal EndTime: TruncatedAt + Duration is long past,
	// EndTime + Duration is not; points stamped after the truncation time may be in it
	runPass(o, passDesc{Snap: []dbD{{Name: 0, RPs: []rpD{{Name: 0, Dur: hour, SGDur: 7 * day, Groups: []groupD{
		{ID: 1, Start: -7 * day, End: 0, Trunc: ip(-7*day + 1), Shards: []shardD{{ID: 2, Owners: []uint64{1}}}},
		{ID: 3, Start: -14 * day, End: -7 * day, Trunc: ip(-10 * day), Shards: []shardD{{ID: 4, Owners: []uint64{1}}}},
	}}}}}, Local: []uint64{2, 4}, Orc: []int{}}, time.Now().UnixNano(), "designed")
	// back-filled groups: the list is sorted by time, the IDs are not (stored order [5,2,9,1]);
	// every expired one must be found and marked
	runPass(o, passDesc{Snap: []dbD{{Name: 0, RPs: []rpD{{Name: 0, Dur: hour, SGDur: hour, Groups: []groupD{
		{ID: 5, Start: -9 * hour, End: -8 * hour, Shards: []shardD{{ID: 11}}},
		{ID: 2, Start: -8 * hour, End: -7 * hour, Shards: []shardD{{ID: 12}}},
		{ID: 9, Start: -7 * hour, End: -6 * hour, Shards: []shardD{{ID: 13}}},
		{ID: 1, Start: -6 * hour, End: -5 * hour, Shards: []shardD{{ID: 14}}},
		{ID: 3, Start: 0, End: hour, Shards: []shardD{{ID: 15}}},
	}}}}}, Local: []uint64{11, 12, 13, 14, 15}, Orc: []int{}}, time.Now().UnixNano(), "designed")
	// several ticks of one service: a group already marked deleted in the metadata; the local
	// DeleteShard fails on the first tick and must be tried again on the next ones; a shard of
	// the same group that appears later (restore, late hinted hand-off) is removed as well
	{
		snap := []dbD{{Name: 0, RPs: []rpD{{Name: 0, Dur: hour, SGDur: hour, Groups: []groupD{
			{ID: 1, Start: -5 * hour, End: -4 * hour, Del: ip(-60 * sec), Shards: []shardD{{ID: 7}, {ID: 8}}},
			{ID: 2, Start: 0, End: hour, Shards: []shardD{{ID: 9}}},
		}}}}}
		runScen(o, scenDesc{Ticks: []passDesc{
			{Snap: snap, Local: []uint64{7, 9}, Orc: []int{1}},
			{Snap: snap, Local: []uint64{7, 9}, Orc: []int{1}},
			{Snap: snap, Local: []uint64{7, 9}, Orc: []int{}},
			{Snap: snap, Local: []uint64{9, 8}, Orc: []int{}},
		}}, "designed")
		// the group is expired by this node itself; marking succeeds, the local delete fails twice
		snap2 := []dbD{{Name: 0, RPs: []rpD{{Name: 0, Dur: hour, SGDur: hour, Groups: []groupD{
			{ID: 1, Start: -5 * hour, End: -4 * hour, Shards: []shardD{{ID: 7}}},
		}}}}}
		after := []dbD{{Name: 0, RPs: []rpD{{Name: 0, Dur: hour, SGDur: hour, Groups: []groupD{
			{ID: 1, Start: -5 * hour, End: -4 * hour, Del: ip(-1), Shards: []shardD{{ID: 7}}},
		}}}}}
		runScen(o, scenDesc{Ticks: []passDesc{
			{Snap: snap2, Local: []uint64{7}, Orc: []int{0, 1}},
			{Snap: after, Local: []uint64{7}, Orc: []int{1}},
			{Snap: after, Local: []uint64{7}, Orc: []int{}},
		}}, "designed")
	}
	// exp: exact boundary End + Duration == t, one nanosecond either side, infinite, deleted
	for _, dur := range []int64{0, 1, hour, -hour} {
		for _, delta := range []int64{-1, 0, 1} {
			t := 1700000000 * sec
			rp := rpD{Name: 0, Dur: dur, SGDur: hour, Groups: []groupD{
				{ID: 1, Start: t - dur - hour + delta, End: t - dur + delta},
				{ID: 2, Start: t - dur - hour + delta, End: t - dur + delta, Del: ip(5)},
				{ID: 3, Start: t - dur - 10*hour, End: t - dur - 9*hour, Trunc: ip(t - dur - 10*hour + 1)},
			}}
			runExp(o, expDesc{RP: rp, T: t}, "designed")
		}
	}
	// drop: points right below the cut-off, well inside, and an old point covered by the
	// group created for a young point of the same batch
	runDrop(o, dropDesc{Dur: hour, SGDur: hour, Pts: []int64{-hour - 1, -hour + margin, -2 * hour, -sec}}, "designed")
	runDrop(o, dropDesc{Dur: 0, SGDur: 7 * day, Pts: []int64{-1000 * day, 0, -hour}}, "designed")
	runDrop(o, dropDesc{Dur: 90 * 60 * sec, SGDur: hour, Pts: []int64{-90*60*sec + margin, -90*60*sec - sec}}, "designed")
}

func main() {
	f := hx.ParseFlags()
	o := hx.NewOut(f.OutDir)
	defer o.Close()

	if f.In != "" {
		for _, in := range hx.ReadInputs(f.In) {
			switch in.Kind {
			case "pass":
				var d passDesc
				if err := json.Unmarshal(in.Desc, &d); err != nil {
					panic(err)
				}
				runPass(o, d, time.Now().UnixNano(), "replay")
			case "scen":
				var d scenDesc
				if err := json.Unmarshal(in.Desc, &d); err != nil {
					panic(err)
				}
				runScen(o, d, "replay")
			case "exp":
				var d expDesc
				json.Unmarshal(in.Desc, &d)
				runExp(o, d, "replay")
			case "drop":
				var d dropDesc
				json.Unmarshal(in.Desc, &d)
				runDrop(o, d, "replay")
			case "store":
				var d storeDesc
				if err := json.Unmarshal(in.Desc, &d); err != nil {
					panic(err)
				}
				runStore(o, d, "replay")
			}
		}
		return
	}
	designed(o)
	designedStore(o)
	r := hx.NewRand(f.Seed)
	g := &gen{r: r}
	n := 0
	for it := 0; n < f.N; it++ {
		switch {
		case it%12 == 7:
			runStore(o, genStore(r), "gen")
			n++
		case it%6 == 4:
			runExp(o, genExp(r), "gen")
			n++
		case it%6 == 5:
			runDrop(o, genDrop(r), "gen")
			n++
		default:
			g.nextGID, g.nextSID = 0, 0
			n += scenario(o, g, r.Chance(20))
		}
	}
}
