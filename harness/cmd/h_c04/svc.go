// svc.go: the CONSUMER side of the hinted-handoff queue, driven on the real hh.Service and
// hh.NodeProcessor: a fake shardWriter scripted by the oracle of each op (ack / shard gone /
// retryable error / permanent rejection, optionally a concurrent WriteShard while the write is in
// flight), a fake metaClient (node known / unknown / meta error), file mtimes set with
// os.Chtimes for the two age limits, one pass of purgeInactiveProcessors run through the
// verif_export wrappers.  After EVERY op: what the writer received (decoded points per call),
// every processor's Empty() and segment fields, what a fresh reader of a copy of its directory
// gets, and which directories exist.
package main

import (
	"errors"
	"fmt"
	"io"
	"os"
	"path/filepath"
	"runtime"
	"sort"
	"strconv"
	"strings"
	"time"

	"github.com/influxdata/influxdb/models"
	"github.com/influxdata/influxdb/services/hh"
	"github.com/influxdata/influxdb/services/meta"
	"github.com/influxdata/influxdb/toml"
	"verifharness/hx"
)

type sopDesc struct {
	K      string      `json:"k"` // write raw setmax send tick agepurge closeifempty pass removenode restart
	Node   uint64      `json:"node,omitempty"`
	Shard  uint64      `json:"shard,omitempty"`
	Pts    []int       `json:"pts,omitempty"`    // write: point ids
	B      []byte      `json:"b,omitempty"`      // raw: block bytes
	N      int64       `json:"n,omitempty"`      // setmax
	M      int         `json:"m,omitempty"`      // send/tick: DataNode answers 0 node / 1 unknown / 2 error
	W      int         `json:"w,omitempty"`      // send: writer answers 0 ack / 1 shard gone / 2 retryable / 3 permanent
	Ws     []int       `json:"ws,omitempty"`     // tick: writer answers in order, then retryable
	Mid    []int       `json:"mid,omitempty"`    // send: points written by WriteShard while the write is in flight
	Old    []uint64    `json:"old,omitempty"`    // agepurge: segment ids older than the limit
	Active []uint64    `json:"active,omitempty"` // pass: nodes the meta data knows
	Aged   [][2]uint64 `json:"aged,omitempty"`   // pass: (node, shard) whose LastModified is older than MaxAge
}

type svcDesc struct {
	MaxSize int64     `json:"maxsize"`
	Cap     int       `json:"cap"`
	Ops     []sopDesc `json:"ops"`
}

const sentinelNode = 4000000000

func pointOfID(id int) models.Point {
	p, err := models.NewPoint("m", models.NewTags(map[string]string{"t": strconv.Itoa(id)}),
		map[string]interface{}{"v": int64(id), "s": strings.Repeat("z", id%5)}, time.Unix(1700000000+int64(id), 0))
	if err != nil {
		panic(err)
	}
	return p
}

func pointsOf(ids []int) []models.Point {
	out := make([]models.Point, len(ids))
	for i, id := range ids {
		out[i] = pointOfID(id)
	}
	return out
}

// ptable: the points of one case; the Coq term names them P 0, P 1, ... (a let-bound table)
// instead of repeating their bytes in every op and writer call.
type ptable struct {
	ids   map[int]int
	bytes [][]byte
}

func (t *ptable) idx(id int) int {
	if t.ids == nil {
		t.ids = map[int]int{}
	}
	if i, ok := t.ids[id]; ok {
		return i
	}
	b, _ := pointOfID(id).MarshalBinary()
	t.ids[id] = len(t.bytes)
	t.bytes = append(t.bytes, b)
	return len(t.bytes) - 1
}

func (t *ptable) coqPoints(ids []int) string {
	items := make([]string, len(ids))
	for i, id := range ids {
		items[i] = fmt.Sprintf("P %d", t.idx(id))
	}
	return hx.CoqList(items)
}

func (t *ptable) coqRaw(pts [][]byte) string {
	items := make([]string, len(pts))
	for i, p := range pts {
		items[i] = hx.CoqBytes(p)
		for j, b := range t.bytes {
			if string(b) == string(p) {
				items[i] = fmt.Sprintf("P %d", j)
				break
			}
		}
	}
	return hx.CoqList(items)
}

// ---- fakes ----

type wcall struct {
	Node, Shard uint64
	Pts         [][]byte
	W           int
}

type fakeWriter struct {
	script  []int // answers, then retryable
	calls   []wcall
	mid     []int // points to write through the service during the next call
	midDone bool
	svc     **hh.Service
	perm    int
	retry   int
}

func (w *fakeWriter) WriteShardBinary(shardID, ownerID uint64, points [][]byte) error {
	ans := 2
	if len(w.script) > 0 {
		ans, w.script = w.script[0], w.script[1:]
	}
	cp := make([][]byte, len(points))
	for i, p := range points {
		cp[i] = append([]byte(nil), p...)
	}
	w.calls = append(w.calls, wcall{ownerID, shardID, cp, ans})
	if len(w.mid) > 0 && !w.midDone {
		w.midDone = true
		(*w.svc).WriteShard(shardID, ownerID, pointsOf(w.mid)) // a concurrent writer, between Current and Advance
	}
	switch ans {
	case 0, 1:
		return nil // 1: coordinator.ShardWriter answers nil without sending when the shard group is gone
	case 3:
		w.perm++
		if w.perm%2 == 0 {
			return errors.New("error code 1: write shard 7: partial write: points beyond retention policy dropped=1")
		}
		return errors.New("error code 1: write shard 7: field type conflict: input field \"v\" is type float, already exists as type integer")
	}
	// retryable: the target cannot be reached, or it answers with a transient error of its own
	// (coordinator.ShardWriter reports a non-zero reply code as "error code N: <message>")
	w.retry++
	if w.retry%2 == 0 {
		return errors.New("error code 1: write shard 7: engine is closed")
	}
	return errors.New("dial tcp 10.0.0.9:8088: connect: connection refused")
}

type fakeMeta struct {
	active map[uint64]bool
	fail   bool
	flip   int
}

func (m *fakeMeta) DataNode(id uint64) (*meta.NodeInfo, error) {
	if m.fail {
		return nil, errors.New("meta service unavailable")
	}
	if m.active[id] {
		return &meta.NodeInfo{ID: id}, nil
	}
	m.flip++
	if m.flip%2 == 0 {
		return nil, meta.ErrNodeNotFound
	}
	return nil, nil
}

// ---- the service under test ----

type senv struct {
	root string
	cfg  hh.Config
	svc  *hh.Service
	w    *fakeWriter
	m    *fakeMeta
}

func newSenv(maxSize int64, cap int) *senv {
	e := &senv{root: scratch()}
	e.cfg = hh.NewConfig()
	e.cfg.Dir = filepath.Join(e.root, "hh")
	e.cfg.MaxSize = maxSize
	e.cfg.MaxWritesPending = cap
	e.cfg.MaxAge = toml.Duration(time.Hour)
	e.cfg.RetryInterval = toml.Duration(time.Hour)
	e.cfg.RetryMaxInterval = toml.Duration(time.Hour)
	e.cfg.PurgeInterval = toml.Duration(time.Hour)
	e.w = &fakeWriter{svc: &e.svc}
	e.m = &fakeMeta{active: map[uint64]bool{}}
	e.start()
	return e
}

func (e *senv) start() {
	e.svc = hh.NewService(e.cfg, e.w)
	e.svc.MetaClient = e.m
	if err := e.svc.Open(); err != nil {
		panic(err)
	}
	waitPurgerParked()
}

// waitPurgerParked returns once the purge goroutine that Service.Open started sits in its
// select: it reads cfg.PurgeInterval when it starts to run, and purgePass changes that value
// for the purger it starts itself.
func waitPurgerParked() {
	buf := make([]byte, 1<<20)
	for i := 0; ; i++ {
		n := runtime.Stack(buf, true)
		for _, g := range strings.Split(string(buf[:n]), "\n\n") {
			if strings.Contains(g, "purgeInactiveProcessors") && strings.Contains(strings.SplitN(g, "\n", 2)[0], "[select") {
				return
			}
		}
		if i > 1000000 {
			panic("purge pass: the purger goroutine never parked")
		}
		time.Sleep(100 * time.Microsecond)
	}
}

func (e *senv) done() {
	func() {
		defer func() { recover() }()
		e.svc.Close()
	}()
	os.RemoveAll(e.root)
}

func (e *senv) proc(node, shard uint64) *hh.NodeProcessor {
	for _, p := range e.svc.VerifProcessors() {
		if p.Node == node && p.Shard == shard {
			return p.P
		}
	}
	return nil
}

func setMtimes(dir string, old func(id uint64) bool) {
	now := time.Now()
	for _, f := range readDirFiles(dir) {
		t := now
		if old(f.ID) {
			t = now.Add(-2 * time.Hour)
		}
		os.Chtimes(filepath.Join(dir, strconv.FormatUint(f.ID, 10)), t, t)
	}
}

// purgePass runs one tick of Service.purgeInactiveProcessors: an empty sentinel processor is
// created first; a pass removes it, so its disappearance tells that a whole pass has run.
func (e *senv) purgePass() {
	if err := e.svc.WriteShard(1, sentinelNode, nil); err != nil {
		panic(err)
	}
	sdir := e.svc.VerifShardDir(sentinelNode, 1)
	e.svc.VerifSetPurgeInterval(time.Millisecond)
	closing := make(chan struct{})
	e.svc.VerifStartPurger(closing)
	deadline := time.Now().Add(180 * time.Second)
	for {
		if _, err := os.Stat(sdir); os.IsNotExist(err) {
			break
		}
		if time.Now().After(deadline) {
			panic("purge pass did not remove the empty sentinel processor")
		}
		time.Sleep(200 * time.Microsecond)
	}
	close(closing)
	e.svc.VerifBarrier()
	e.svc.VerifSetPurgeInterval(time.Hour)
}

const rcAbsent = 99

func swClass(err error) int {
	switch {
	case err == nil:
		return rcOk
	case err == io.EOF:
		return rcEOF
	}
	return rcOther
}

// exec runs one op; rc, bytes sent, and the mid points actually written
func (e *senv) exec(o sopDesc) (rc int, n int64, mid []int) {
	defer func() {
		if x := recover(); x != nil {
			if s, ok := x.(string); ok && strings.HasPrefix(s, "purge pass") {
				panic(x)
			}
			rc, n = rcPanic, 0
		}
	}()
	e.w.script, e.w.mid, e.w.midDone = nil, nil, false
	e.m.fail = false
	switch o.K {
	case "write":
		return classify(e.svc.WriteShard(o.Shard, o.Node, pointsOf(o.Pts))), 0, nil
	case "restart":
		if err := e.svc.Close(); err != nil {
			panic(err)
		}
		e.start()
		return 0, 0, nil
	case "removenode":
		e.svc.RemoveNode(o.Node)
		return 0, 0, nil
	case "pass":
		e.m.active = map[uint64]bool{}
		for _, a := range o.Active {
			e.m.active[a] = true
		}
		aged := map[[2]uint64]bool{}
		for _, a := range o.Aged {
			aged[a] = true
		}
		for _, p := range e.svc.VerifProcessors() {
			dir := e.svc.VerifShardDir(p.Node, p.Shard)
			var tail uint64
			for _, f := range readDirFiles(dir) {
				if f.ID > tail {
					tail = f.ID
				}
			}
			isAged := aged[[2]uint64{p.Node, p.Shard}]
			setMtimes(dir, func(id uint64) bool { return isAged && id == tail })
		}
		e.purgePass()
		return 0, 0, nil
	}
	np := e.proc(o.Node, o.Shard)
	if np == nil {
		return rcAbsent, 0, nil
	}
	q := hh.VerifQueueOf(np)
	switch o.K {
	case "raw":
		return classify(q.Append(o.B)), 0, nil
	case "setmax":
		return classify(q.SetMaxSegmentSize(o.N)), 0, nil
	case "send", "tick":
		e.m.active = map[uint64]bool{o.Node: o.M == 0}
		e.m.fail = o.M == 2
		if o.K == "send" {
			e.w.script = []int{o.W}
			e.w.mid = o.Mid
			c, err := np.SendWrite()
			if e.w.midDone {
				mid = o.Mid
			}
			return swClass(err), int64(c), mid
		}
		e.w.script = append([]int(nil), o.Ws...)
		for i := 0; ; i++ {
			if _, err := np.SendWrite(); err != nil {
				return 0, 0, nil
			}
			if i > len(o.Ws)+4 {
				return 8, 0, nil // the loop of run would not end
			}
		}
	case "agepurge":
		old := map[uint64]bool{}
		for _, id := range o.Old {
			old[id] = true
		}
		setMtimes(e.svc.VerifShardDir(o.Node, o.Shard), func(id uint64) bool { return old[id] })
		if err := q.PurgeOlderThan(time.Now().Add(-time.Hour)); err != nil {
			return classify(err), 0, nil
		}
		return 0, 0, nil
	case "closeifempty":
		closed, err := np.CloseIfEmpty()
		if err != nil {
			return rcOther, 0, nil
		}
		if closed {
			if err := np.Open(); err != nil {
				panic(err)
			}
			return 1, 0, nil
		}
		return 0, 0, nil
	}
	panic("bad op " + o.K)
}

type kobsJSON struct {
	Node, Shard uint64
	Empty       bool
	Segs        []segJSON
	Vis         [][]byte `json:"-"`
	VisIdx      []uint64
	VisRc       int
}

func (e *senv) observe(maxSize int64, cap int) (keys []kobsJSON, dirs [][2]uint64) {
	for _, p := range e.svc.VerifProcessors() {
		k := kobsJSON{Node: p.Node, Shard: p.Shard}
		func() {
			defer func() { recover() }()
			k.Empty = p.P.Empty()
			for _, s := range hh.VerifQueueOf(p.P).Segments() {
				k.Segs = append(k.Segs, segJSON{s.ID, s.Pos, s.CurrentSize, s.Size, s.MaxSize, int64(s.BufLen), s.Cursor})
			}
		}()
		k.Vis, k.VisRc = readBack(readDirFiles(e.svc.VerifShardDir(p.Node, p.Shard)), maxSize, cap)
		keys = append(keys, k)
	}
	nodes, _ := os.ReadDir(e.cfg.Dir)
	for _, nd := range nodes {
		node, err := strconv.ParseUint(nd.Name(), 10, 64)
		if err != nil {
			continue
		}
		shards, _ := os.ReadDir(filepath.Join(e.cfg.Dir, nd.Name()))
		for _, sd := range shards {
			shard, err := strconv.ParseUint(sd.Name(), 10, 64)
			if err != nil {
				continue
			}
			dirs = append(dirs, [2]uint64{node, shard})
		}
	}
	sort.Slice(dirs, func(i, j int) bool {
		if dirs[i][0] != dirs[j][0] {
			return dirs[i][0] < dirs[j][0]
		}
		return dirs[i][1] < dirs[j][1]
	})
	return
}

func coqSop(t *ptable, o sopDesc, mid []int) string {
	meta := []string{"MActive", "MInactive", "MErr"}
	wr := []string{"WAck", "WGone", "WRetry", "WPerm"}
	switch o.K {
	case "write":
		return fmt.Sprintf("SWrite %d %d %s", o.Node, o.Shard, t.coqPoints(o.Pts))
	case "raw":
		return fmt.Sprintf("SRaw %d %d %s", o.Node, o.Shard, hx.CoqBytes(o.B))
	case "setmax":
		return fmt.Sprintf("SSetMax %d %d %s", o.Node, o.Shard, hx.CoqZ(o.N))
	case "send":
		return fmt.Sprintf("SSend %d %d %s %s %s", o.Node, o.Shard, meta[o.M], wr[o.W], t.coqPoints(mid))
	case "tick":
		ws := make([]string, len(o.Ws))
		for i, w := range o.Ws {
			ws[i] = wr[w]
		}
		return fmt.Sprintf("STick %d %d %s %s", o.Node, o.Shard, meta[o.M], hx.CoqList(ws))
	case "agepurge":
		return fmt.Sprintf("SAgePurge %d %d %s", o.Node, o.Shard, hx.CoqNList(o.Old))
	case "closeifempty":
		return fmt.Sprintf("SCloseIfEmpty %d %d", o.Node, o.Shard)
	case "pass":
		ag := make([]string, len(o.Aged))
		for i, a := range o.Aged {
			ag[i] = fmt.Sprintf("(%d, %d)", a[0], a[1])
		}
		return fmt.Sprintf("SPurgePass %s %s", hx.CoqNList(o.Active), hx.CoqList(ag))
	case "removenode":
		return fmt.Sprintf("SRemoveNode %d", o.Node)
	case "restart":
		return "SRestart"
	}
	panic("bad op " + o.K)
}

func validSop(o sopDesc) bool {
	ok := func(xs []int, hi int) bool {
		for _, x := range xs {
			if x < 0 || x > hi {
				return false
			}
		}
		return true
	}
	if o.Node >= sentinelNode || o.M < 0 || o.M > 2 || o.W < 0 || o.W > 3 || !ok(o.Ws, 3) || !ok(o.Pts, 1<<20) || !ok(o.Mid, 1<<20) {
		return false
	}
	if len(o.Pts) > 40 || len(o.Mid) > 40 || len(o.Ws) > 40 || len(o.B) > 4096 || (o.K == "raw" && len(o.B) == 0) {
		return false // (an empty block is outside the scope of the queue spec: marshalWrite never produces one)
	}
	if o.K == "setmax" && (o.N < 0 || o.N > 1<<40) {
		return false
	}
	switch o.K {
	case "write", "raw", "setmax", "send", "tick", "agepurge", "closeifempty", "pass", "removenode", "restart":
		return true
	}
	return false
}

type sstepJSON struct {
	Op    sopDesc    `json:"op"`
	Rc    int        `json:"rc"`
	N     int64      `json:"n"`
	Calls []wcall    `json:"calls,omitempty"`
	Keys  []kobsJSON `json:"keys"`
	Dirs  [][2]uint64 `json:"dirs"`
}

func runSvc(o *hx.Out, d svcDesc, origin string) {
	o.Begin("svc", d)
	if len(d.Ops) > 80 {
		return
	}
	for _, op := range d.Ops {
		if !validSop(op) {
			return
		}
	}
	e := newSenv(d.MaxSize, d.Cap)
	defer e.done()
	type rec struct {
		op   sopDesc
		mid  []int
		rc   int
		n    int64
		cs   []wcall
		keys []kobsJSON
		dirs [][2]uint64
	}
	var recs []rec
	var tbl [][]byte
	var sig strings.Builder
	sent, dropped := 0, 0
	for _, op := range d.Ops {
		e.w.calls = nil
		rc, n, mid := e.exec(op)
		keys, dirs := e.observe(d.MaxSize, d.Cap)
		recs = append(recs, rec{op, mid, rc, n, e.w.calls, keys, dirs})
		// the blocks of the case, in the order Coq's svc_tbl builds them
		switch op.K {
		case "write":
			if len(op.Pts) > 0 {
				tbl = append(tbl, hh.VerifMarshalWrite(op.Shard, pointsOf(op.Pts)))
			}
		case "raw":
			tbl = append(tbl, op.B)
		case "send":
			if len(mid) > 0 {
				tbl = append(tbl, hh.VerifMarshalWrite(op.Shard, pointsOf(mid)))
			}
		}
		o.Count(fmt.Sprintf("svc:op=%s:rc=%d", op.K, rc))
		for _, c := range e.w.calls {
			o.Count(fmt.Sprintf("svc:writer-answer=%d", c.W))
			sent++
		}
		if len(mid) > 0 {
			o.Count("svc:write-during-send")
		}
		fmt.Fprintf(&sig, "%s.%d.%d.%d.%d.%v.%v.%d;", op.K, op.Node, op.Shard, op.M, op.W, op.Ws, op.Pts, len(op.Mid))
	}
	var steps []string
	var obs []sstepJSON
	pt := &ptable{}
	for _, r := range recs {
		coqSop(pt, r.op, r.mid) // fills the point table in op order
	}
	prevBlocks := 0
	for _, r := range recs {
		var cs []string
		for _, c := range r.cs {
			cs = append(cs, fmt.Sprintf("(%d, %d, %s, %d)", c.Node, c.Shard, pt.coqRaw(c.Pts), c.W))
		}
		var ks []string
		nblocks := 0
		for i := range r.keys {
			k := &r.keys[i]
			k.VisIdx = make([]uint64, len(k.Vis))
			for j, b := range k.Vis {
				k.VisIdx[j] = indexOf(tbl, b)
			}
			if k.VisRc != rcEOF {
				k.VisIdx = append(k.VisIdx, 999998) // the directory is not readable to its end
			}
			nblocks += len(k.Vis)
			if len(k.Segs) > 1 {
				o.Count("svc:state:multi-segment")
			}
			ks = append(ks, fmt.Sprintf("mkKO %d %d %s %s %s", k.Node, k.Shard, hx.CoqBool(k.Empty), coqSegs(k.Segs), hx.CoqNList(k.VisIdx)))
		}
		if nblocks < prevBlocks-len(r.cs) {
			dropped++
		}
		prevBlocks = nblocks
		var ds []string
		for _, x := range r.dirs {
			ds = append(ds, fmt.Sprintf("(%d, %d)", x[0], x[1]))
		}
		steps = append(steps, fmt.Sprintf("(%s, mkSV %d %s %s %s %s)", coqSop(pt, r.op, r.mid), r.rc, hx.CoqZ(r.n), hx.CoqList(cs), hx.CoqList(ks), hx.CoqList(ds)))
		obs = append(obs, sstepJSON{r.op, r.rc, r.n, r.cs, r.keys, r.dirs})
	}
	var files []string
	for _, p := range e.svc.VerifProcessors() {
		files = append(files, fmt.Sprintf("(%d, %d, %s)", p.Node, p.Shard, coqDisk(readDirFiles(e.svc.VerifShardDir(p.Node, p.Shard)))))
	}
	coq := fmt.Sprintf("let P := (fun i : N => nth (N.to_nat i) (%s : list bytes) []) in CSvc %s %s %s %s", coqBlocks(pt.bytes), hx.CoqZ(d.MaxSize), hx.CoqZ(int64(d.Cap)), hx.CoqList(steps), hx.CoqList(files))
	o.Count(fmt.Sprintf("svc:len=%d0s", len(d.Ops)/10))
	if dropped > 0 {
		o.Count("svc:with-discarded-blocks")
	}
	o.Emit(hx.Case{Kind: "svc", Coq: coq, Desc: d, Obs: obs, Nontrivial: sent >= 2, Sig: fmt.Sprintf("svc:%d:%d:%s", d.MaxSize, d.Cap, sig.String()), Origin: origin})
}

// ---- designed cases ----

func designedSvc(o *hx.Out) {
	wr := func(node, shard uint64, pts ...int) sopDesc { return sopDesc{K: "write", Node: node, Shard: shard, Pts: pts} }
	send := func(node, shard uint64, w int) sopDesc { return sopDesc{K: "send", Node: node, Shard: shard, W: w} }
	run := func(ops ...sopDesc) { runSvc(o, svcDesc{1 << 20, 1024, ops}, "designed") }
	// retryable, retryable, then success; then the next block
	run(wr(2, 7, 1, 2), wr(2, 7, 3), send(2, 7, 2), send(2, 7, 2), send(2, 7, 0), send(2, 7, 0), send(2, 7, 0))
	// permanent rejection (both texts), shard gone
	run(wr(2, 7, 1), wr(2, 7, 2), wr(2, 7, 3), wr(2, 7, 4), send(2, 7, 3), send(2, 7, 3), send(2, 7, 1), send(2, 7, 0), send(2, 7, 0))
	// undecodable block between two good ones
	run(wr(2, 7, 1), sopDesc{K: "raw", Node: 2, Shard: 7, B: []byte{0, 0, 0, 0, 0, 0, 0, 7, 0, 0, 0, 9, 1, 2}}, wr(2, 7, 2),
		send(2, 7, 0), send(2, 7, 0), send(2, 7, 0), send(2, 7, 0))
	run(wr(2, 7, 1), sopDesc{K: "raw", Node: 2, Shard: 7, B: []byte{1, 2, 3}}, wr(2, 7, 2),
		sopDesc{K: "tick", Node: 2, Shard: 7, Ws: []int{0, 0, 0}}, sopDesc{K: "tick", Node: 2, Shard: 7, Ws: []int{0, 0, 0}})
	// EOF on the head segment with a following segment
	run(wr(2, 7, 1), sopDesc{K: "setmax", Node: 2, Shard: 7, N: 90}, wr(2, 7, 2), wr(2, 7, 3),
		send(2, 7, 0), send(2, 7, 0), send(2, 7, 0), send(2, 7, 0), send(2, 7, 0), send(2, 7, 0))
	// a block larger than the (shrunk) segment limit: Current fails, Truncate
	run(wr(2, 7, 1), wr(2, 7, 2), sopDesc{K: "setmax", Node: 2, Shard: 7, N: 30}, wr(2, 7, 3), send(2, 7, 0), send(2, 7, 0), send(2, 7, 0))
	// removed node: its queues go, the other node's stay
	run(wr(2, 7, 1), wr(2, 8, 2), wr(3, 7, 3), sopDesc{K: "removenode", Node: 2}, send(3, 7, 0), wr(2, 7, 4), send(2, 7, 0))
	// node unknown to the meta data: nothing is sent; the purge pass keeps young data, drops aged data
	run(wr(2, 7, 1), wr(3, 7, 2), sopDesc{K: "send", Node: 2, Shard: 7, M: 1}, sopDesc{K: "pass", Active: []uint64{3}},
		sopDesc{K: "pass", Active: []uint64{3}, Aged: [][2]uint64{{2, 7}, {3, 7}}}, send(3, 7, 0), sopDesc{K: "pass", Active: []uint64{3}})
	// meta error: nothing moves
	run(wr(2, 7, 1), sopDesc{K: "send", Node: 2, Shard: 7, M: 2}, sopDesc{K: "tick", Node: 2, Shard: 7, M: 2, Ws: []int{0}}, send(2, 7, 0))
	// age purge: old non-head segment behind a young head stays; old head goes
	run(wr(2, 7, 1), sopDesc{K: "setmax", Node: 2, Shard: 7, N: 90}, wr(2, 7, 2), wr(2, 7, 3),
		sopDesc{K: "agepurge", Node: 2, Shard: 7, Old: []uint64{2}}, sopDesc{K: "agepurge", Node: 2, Shard: 7, Old: []uint64{1}},
		sopDesc{K: "tick", Node: 2, Shard: 7, Ws: []int{0, 0, 0, 0}})
	// write while the send is in flight; CloseIfEmpty on a non-empty and on an empty queue; restart
	run(wr(2, 7, 1), sopDesc{K: "send", Node: 2, Shard: 7, W: 0, Mid: []int{5, 6}}, sopDesc{K: "closeifempty", Node: 2, Shard: 7},
		sopDesc{K: "send", Node: 2, Shard: 7, W: 2, Mid: []int{7}}, sopDesc{K: "restart"}, send(2, 7, 0), send(2, 7, 0), send(2, 7, 0),
		sopDesc{K: "closeifempty", Node: 2, Shard: 7}, wr(2, 7, 8), sopDesc{K: "restart"}, sopDesc{K: "tick", Node: 2, Shard: 7, Ws: []int{0, 0}})
	// queue size limit: refused at append, never accepted
	runSvc(o, svcDesc{120, 1024, []sopDesc{wr(2, 7, 1), wr(2, 7, 2), wr(2, 7, 3), wr(2, 7, 4), send(2, 7, 0), wr(2, 7, 5), sopDesc{K: "tick", Node: 2, Shard: 7, Ws: []int{0, 0, 0, 0}}}}, "designed")
}

// ---- generated op sequences ----

func genSvc(r *hx.Rand, n int) svcDesc {
	d := svcDesc{MaxSize: 1 << 20, Cap: 1024}
	if r.Chance(8) {
		d.MaxSize = int64(150 + r.Intn(300))
	}
	nodes := []uint64{2, 3, 5}
	shards := []uint64{7, 8}
	type k2 = [2]uint64
	exists := map[k2]bool{}
	var keys []k2
	pid := 0
	pickKey := func() k2 {
		if len(keys) > 0 && !r.Chance(15) {
			return keys[r.Intn(len(keys))]
		}
		return k2{nodes[r.Intn(len(nodes))], shards[r.Intn(len(shards))]}
	}
	newPts := func() []int {
		c := 1 + r.Intn(3)
		out := make([]int, c)
		for i := range out {
			pid++
			out[i] = pid
		}
		return out
	}
	for len(d.Ops) < n {
		k := pickKey()
		x := r.Intn(100)
		if !exists[k] && x >= 30 && x < 89 && r.Chance(85) {
			x = 0 // mostly write first to a queue that does not exist (any more)
		}
		switch {
		case x < 30:
			d.Ops = append(d.Ops, sopDesc{K: "write", Node: k[0], Shard: k[1], Pts: newPts()})
			if !exists[k] {
				exists[k] = true
				keys = append(keys, k)
			}
		case x < 55:
			op := sopDesc{K: "send", Node: k[0], Shard: k[1], W: []int{0, 0, 0, 2, 2, 3, 1}[r.Intn(7)]}
			if r.Chance(8) {
				op.M = 1 + r.Intn(2)
			}
			if r.Chance(25) {
				op.Mid = newPts()
			}
			d.Ops = append(d.Ops, op)
		case x < 70:
			ws := make([]int, r.Intn(5))
			for i := range ws {
				ws[i] = []int{0, 0, 0, 0, 3, 1, 2}[r.Intn(7)]
			}
			op := sopDesc{K: "tick", Node: k[0], Shard: k[1], Ws: ws}
			if r.Chance(8) {
				op.M = 1 + r.Intn(2)
			}
			d.Ops = append(d.Ops, op)
		case x < 75:
			b := r.Bytes(r.Intn(20) + 1)
			if r.Chance(50) {
				// a well-formed header and a frame that is too short
				b = append([]byte{0, 0, 0, 0, 0, 0, 0, byte(k[1]), 0, 0, 0, byte(5 + r.Intn(30))}, r.Bytes(r.Intn(5))...)
			}
			d.Ops = append(d.Ops, sopDesc{K: "raw", Node: k[0], Shard: k[1], B: b})
		case x < 81:
			nm := int64(60 + r.Intn(120))
			if r.Chance(20) {
				nm = int64(20 + r.Intn(30))
			}
			d.Ops = append(d.Ops, sopDesc{K: "setmax", Node: k[0], Shard: k[1], N: nm})
		case x < 86:
			var old []uint64
			lim := uint64(r.Intn(5))
			for id := uint64(1); id <= 8; id++ {
				if id <= lim || r.Chance(15) {
					old = append(old, id)
				}
			}
			d.Ops = append(d.Ops, sopDesc{K: "agepurge", Node: k[0], Shard: k[1], Old: old})
		case x < 89:
			d.Ops = append(d.Ops, sopDesc{K: "closeifempty", Node: k[0], Shard: k[1]})
		case x < 94:
			var act []uint64
			for _, nd := range nodes {
				if r.Chance(60) {
					act = append(act, nd)
				}
			}
			var aged [][2]uint64
			for _, kk := range keys {
				if r.Chance(50) {
					aged = append(aged, kk)
				}
			}
			d.Ops = append(d.Ops, sopDesc{K: "pass", Active: act, Aged: aged})
			if r.Chance(50) {
				for _, kk := range keys {
					exists[kk] = false // (a guess: empty or aged queues of unknown nodes are gone)
				}
			}
		case x < 96:
			nd := nodes[r.Intn(len(nodes))]
			d.Ops = append(d.Ops, sopDesc{K: "removenode", Node: nd})
			for _, sh := range shards {
				exists[k2{nd, sh}] = false
			}
		default:
			d.Ops = append(d.Ops, sopDesc{K: "restart"})
		}
	}
	return d
}
