// h_c04: correspondence harness for C04 (hinted-handoff queue).
// Runs the real services/hh code (through verif_export.go) on op sequences, crash images,
// racing appenders, WriteShard batches and marshal/unmarshal inputs, and records what it did.
package main

import (
	"bytes"
	"encoding/binary"
	"encoding/json"
	"errors"
	"fmt"
	"io"
	"os"
	"path/filepath"
	"sort"
	"strconv"
	"strings"
	"sync"
	"time"

	"github.com/influxdata/influxdb/models"
	"github.com/influxdata/influxdb/services/hh"
	"github.com/influxdata/influxdb/services/meta"
	"github.com/influxdata/influxdb/toml"
	"verifharness/hx"
)

const (
	rcOk = iota
	rcEOF
	rcNotOpen
	rcSegFull
	rcQueueFull
	rcBlocked
	rcOther
	rcPanic
)

const bufferThreshold = 10 // queue.Append: buffered := len(limiter) >= 10
const lastWriter = 1       // deferred flush when len(limiter) <= 1

var scratchRoot string

func classify(err error) int {
	switch err {
	case nil:
		return rcOk
	case io.EOF:
		return rcEOF
	case hh.ErrNotOpen:
		return rcNotOpen
	case hh.ErrSegmentFull:
		return rcSegFull
	case hh.ErrQueueFull:
		return rcQueueFull
	case hh.ErrQueueBlocked:
		return rcBlocked
	}
	return rcOther
}

// ---------- descriptions ----------

type opDesc struct {
	K   string   `json:"k"`
	N   int64    `json:"n,omitempty"`   // append: block length; setmax: limit
	Tag int      `json:"tag,omitempty"` // append: content tag (unique per sequence)
	Nb  int      `json:"nb,omitempty"`  // append: other appenders holding a token at entry
	Na  int      `json:"na,omitempty"`  // append: ... at exit
	Old []uint64 `json:"old,omitempty"` // purge: ids of the segment files older than the cutoff
}

type seqDesc struct {
	MaxSize int64    `json:"maxsize"`
	Cap     int      `json:"cap"`
	Ops     []opDesc `json:"ops"`
}

type crashDesc struct {
	MaxSize int64    `json:"maxsize"`
	Cap     int      `json:"cap"`
	Ops     []opDesc `json:"ops"`   // prefix
	Final   opDesc   `json:"final"` // the call during which the process dies
	Stage   int      `json:"stage"` // which durable write of the call (-1: all)
	Cut     int      `json:"cut"`   // how many bytes of it reached the file (-1: all)
}

type concDesc struct {
	K       int `json:"k"`
	Per     int `json:"per"`
	DelayUs int `json:"delay_us"`
	Run     int `json:"run"`
}

type splitDesc struct {
	Sizes   []int64 `json:"sizes"` // MarshalBinary sizes of the points
	MaxSize int64   `json:"maxsize"`
}

type marshalDesc struct {
	Shard uint64 `json:"shard"`
	Lens  []int  `json:"lens"` // string field length of each point
}

type unmarshalDesc struct {
	B []byte `json:"b"`
}

func blockOf(tag int, n int64) []byte {
	b := make([]byte, n)
	for j := range b {
		b[j] = byte(tag*31 + j*7 + 1)
	}
	if n >= 2 {
		b[0], b[1] = byte(tag>>8), byte(tag)
	} else if n == 1 {
		b[0] = byte(tag)
	}
	return b
}

// ---------- Coq printers ----------

func coqOp(o opDesc) string {
	switch o.K {
	case "append":
		return fmt.Sprintf("OAppend %s %s %s", hx.CoqBytes(blockOf(o.Tag, o.N)), hx.CoqZ(int64(o.Nb)), hx.CoqZ(int64(o.Na)))
	case "current":
		return "OCurrent"
	case "advance":
		return "OAdvance"
	case "advseg":
		return "OAdvSeg"
	case "truncate":
		return "OTruncate"
	case "setmax":
		return "OSetMax " + hx.CoqZ(o.N)
	case "purge":
		return "OPurge " + hx.CoqNList(o.Old)
	case "close":
		return "OClose"
	case "open":
		return "OOpen"
	case "fresh":
		return "OFresh"
	}
	panic("bad op " + o.K)
}

func coqBlocks(bs [][]byte) string {
	items := make([]string, len(bs))
	for i, b := range bs {
		items[i] = hx.CoqBytes(b)
	}
	return hx.CoqList(items)
}

func coqDisk(d []fileEnt) string {
	items := make([]string, len(d))
	for i, e := range d {
		items[i] = fmt.Sprintf("(%d%%N, %s)", e.ID, hx.CoqBytes(e.Data))
	}
	return hx.CoqList(items)
}

// ---------- directory helpers ----------

type fileEnt struct {
	ID   uint64
	Data []byte
}

func readDirFiles(dir string) []fileEnt {
	ents, err := os.ReadDir(dir)
	if err != nil {
		panic(err)
	}
	var out []fileEnt
	for _, e := range ents {
		id, err := strconv.ParseUint(e.Name(), 10, 64)
		if err != nil || e.IsDir() {
			continue
		}
		b, err := os.ReadFile(filepath.Join(dir, e.Name()))
		if err != nil {
			panic(err)
		}
		out = append(out, fileEnt{id, b})
	}
	sort.Slice(out, func(i, j int) bool { return out[i].ID < out[j].ID })
	return out
}

func writeDirFiles(dir string, d []fileEnt) {
	os.MkdirAll(dir, 0700)
	for _, e := range d {
		if err := os.WriteFile(filepath.Join(dir, strconv.FormatUint(e.ID, 10)), e.Data, 0600); err != nil {
			panic(err)
		}
	}
}

var scratchN int

func scratch() string {
	scratchN++
	d := filepath.Join(scratchRoot, fmt.Sprintf("s%d", scratchN))
	os.MkdirAll(d, 0700)
	return d
}

// readBack: what a fresh process gets from this directory content with the real code:
// newQueue + Open, then Current/Advance until the queue is exhausted.
func readBack(files []fileEnt, maxSize int64, cap int) (out [][]byte, rc int) {
	d := scratch()
	defer os.RemoveAll(d)
	writeDirFiles(d, files)
	var q *hh.VerifQueue
	defer func() {
		if e := recover(); e != nil {
			rc = rcPanic
		}
		if q != nil {
			q.Abandon()
		}
	}()
	q, _ = hh.VerifNewQueue(d, maxSize, cap)
	if err := q.Open(); err != nil {
		return nil, classify(err)
	}
	for i := 0; i < 200; i++ {
		b, err := q.Current()
		if err == nil {
			out = append(out, append([]byte(nil), b...))
			q.Advance()
			continue
		}
		if err == io.EOF {
			if len(q.Segments()) <= 1 {
				return out, rcEOF
			}
			q.AdvanceSegment() // as NodeProcessor.SendWrite does on io.EOF
			continue
		}
		return out, classify(err)
	}
	return out, rcOk
}

// ---------- the queue under test ----------

type env struct {
	dir     string
	q       *hh.VerifQueue
	maxSize int64
	cap     int
}

func newEnv(maxSize int64, cap int) *env {
	e := &env{dir: scratch(), maxSize: maxSize, cap: cap}
	e.q, _ = hh.VerifNewQueue(e.dir, maxSize, cap)
	if err := e.q.Open(); err != nil {
		panic(err)
	}
	return e
}

func (e *env) done() {
	func() {
		defer func() { recover() }()
		e.q.Abandon()
	}()
	os.RemoveAll(e.dir)
}

// exec runs one op on the real queue.
func (e *env) exec(o opDesc) (rc int, data []byte) {
	defer func() {
		if x := recover(); x != nil {
			rc, data = rcPanic, nil
		}
	}()
	switch o.K {
	case "append":
		b := blockOf(o.Tag, o.N)
		got := e.q.TakeTokens(o.Nb)
		err := e.q.Append(b)
		rc = classify(err)
		if rc != rcBlocked && rc != rcNotOpen && rc != rcQueueFull && o.Nb+1 >= bufferThreshold && o.Na+1 <= lastWriter {
			e.q.FlushTail() // the deferred flush of the last buffered appender
		}
		e.q.ReleaseTokens(got)
		return rc, nil
	case "current":
		b, err := e.q.Current()
		if err != nil {
			return classify(err), nil
		}
		return rcOk, append([]byte(nil), b...)
	case "advance":
		return classify(e.q.Advance()), nil
	case "advseg":
		return classify(e.q.AdvanceSegment()), nil
	case "truncate":
		return classify(e.q.Truncate()), nil
	case "setmax":
		return classify(e.q.SetMaxSegmentSize(o.N)), nil
	case "purge":
		now := time.Now()
		old := map[uint64]bool{}
		for _, id := range o.Old {
			old[id] = true
		}
		for _, f := range readDirFiles(e.dir) {
			t := now
			if old[f.ID] {
				t = now.Add(-2 * time.Hour)
			}
			os.Chtimes(filepath.Join(e.dir, strconv.FormatUint(f.ID, 10)), t, t)
		}
		return classify(e.q.PurgeOlderThan(now.Add(-time.Hour))), nil
	case "close":
		return classify(e.q.Close()), nil
	case "open":
		return classify(e.q.Open()), nil
	case "fresh":
		e.q.Abandon()
		e.q, _ = hh.VerifNewQueue(e.dir, e.maxSize, e.cap)
		return classify(e.q.Open()), nil
	}
	panic("bad op " + o.K)
}

type segJSON struct {
	ID                                  uint64
	Pos, Csz, Size, Max, BufLen, Cursor int64
}

func (e *env) segs() (out []segJSON) {
	defer func() {
		if x := recover(); x != nil {
			out = nil
		}
	}()
	for _, s := range e.q.Segments() {
		out = append(out, segJSON{s.ID, s.Pos, s.CurrentSize, s.Size, s.MaxSize, int64(s.BufLen), s.Cursor})
	}
	return
}

func coqSegs(ss []segJSON) string {
	items := make([]string, len(ss))
	for i, s := range ss {
		items[i] = fmt.Sprintf("SO %d %s %s %s %s %s %s", s.ID, hx.CoqZ(s.Pos), hx.CoqZ(s.Csz), hx.CoqZ(s.Size), hx.CoqZ(s.Max), hx.CoqZ(s.BufLen), hx.CoqZ(s.Cursor))
	}
	return hx.CoqList(items)
}

func indexOf(tbl [][]byte, b []byte) uint64 {
	for i, t := range tbl {
		if bytes.Equal(t, b) {
			return uint64(i)
		}
	}
	return 999999
}

func validOp(o opDesc) bool {
	switch o.K {
	case "append":
		return o.N >= 0 && o.N < 1<<16 && o.Nb >= 0 && o.Na >= 0
	case "current", "advance", "advseg", "truncate", "setmax", "purge", "close", "open", "fresh":
		return true
	}
	return false
}

// ---------- op sequences ----------

type stepJSON struct {
	Op    opDesc    `json:"op"`
	Rc    int       `json:"rc"`
	Data  []byte    `json:"data,omitempty"`
	Empty bool      `json:"empty"`
	Segs  []segJSON `json:"segs"`
	Vis   []uint64  `json:"vis"`
	VisRc int       `json:"vis_rc"`
}

func runSeq(o *hx.Out, d seqDesc, origin string) {
	o.Begin("seq", d)
	for _, op := range d.Ops {
		if !validOp(op) {
			return
		}
	}
	e := newEnv(d.MaxSize, d.Cap)
	defer e.done()
	var tbl [][]byte
	for _, op := range d.Ops {
		if op.K == "append" {
			tbl = append(tbl, blockOf(op.Tag, op.N))
		}
	}
	var steps []string
	var obs []stepJSON
	var sig strings.Builder
	nontrivial := 0
	for _, op := range d.Ops {
		rc, data := e.exec(op)
		empty := func() (r bool) {
			defer func() {
				if recover() != nil {
					r = false
				}
			}()
			return e.q.Empty()
		}()
		segs := e.segs()
		vis, vrc := readBack(readDirFiles(e.dir), d.MaxSize, d.Cap)
		idx := make([]uint64, len(vis))
		for i, b := range vis {
			idx[i] = indexOf(tbl, b)
		}
		steps = append(steps, fmt.Sprintf("(%s, mkSO %d %s %s %s %s %d)", coqOp(op), rc, hx.CoqBytes(data), hx.CoqBool(empty), coqSegs(segs), hx.CoqNList(idx), vrc))
		obs = append(obs, stepJSON{op, rc, data, empty, segs, idx, vrc})
		o.Count(fmt.Sprintf("seq:op=%s:rc=%d", op.K, rc))
		if op.K == "append" {
			o.Count("seq:append:buffered=" + hx.CoqBool(op.Nb+1 >= bufferThreshold))
			if len(segs) > 0 {
				dlt := segs[len(segs)-1].Max - op.N
				switch {
				case dlt < -24:
					o.Count("seq:append:len-vs-limit=over24")
				case dlt <= 24:
					o.Count("seq:append:len-vs-limit=within24")
				default:
					o.Count("seq:append:len-vs-limit=under24")
				}
			}
		}
		if len(segs) > 1 {
			o.Count("seq:state:multi-segment")
		}
		if rc == rcOk && (op.K == "append" || op.K == "advance") {
			nontrivial++
		}
		fmt.Fprintf(&sig, "%s.%d.%d.%d.%d;", op.K, op.N, op.Nb, op.Na, len(op.Old))
	}
	final := readDirFiles(e.dir)
	coq := fmt.Sprintf("CSeq %s %s %s %s", hx.CoqZ(d.MaxSize), hx.CoqZ(int64(d.Cap)), hx.CoqList(steps), coqDisk(final))
	o.Count(fmt.Sprintf("seq:len=%d0s", len(d.Ops)/10))
	o.Emit(hx.Case{Kind: "seq", Coq: coq, Desc: d, Obs: obs, Nontrivial: nontrivial >= 3, Sig: fmt.Sprintf("seq:%d:%d:%s", d.MaxSize, d.Cap, sig.String()), Origin: origin})
}

// ---------- crash images ----------

type write struct {
	base []fileEnt // directory right before the write
	fid  uint64
	off  int
	data []byte
	what string
}

func cloneDir(d []fileEnt) []fileEnt {
	out := make([]fileEnt, len(d))
	for i, e := range d {
		out[i] = fileEnt{e.ID, append([]byte(nil), e.Data...)}
	}
	return out
}

func setFile(d []fileEnt, id uint64, data []byte) []fileEnt {
	out := cloneDir(d)
	for i := range out {
		if out[i].ID == id {
			out[i].Data = data
			return out
		}
	}
	out = append(out, fileEnt{id, data})
	sort.Slice(out, func(i, j int) bool { return out[i].ID < out[j].ID })
	return out
}

func getFile(d []fileEnt, id uint64) ([]byte, bool) {
	for _, e := range d {
		if e.ID == id {
			return e.Data, true
		}
	}
	return nil, false
}

func pwrite(f []byte, off int, data []byte) []byte {
	out := append([]byte(nil), f...)
	for len(out) < off+len(data) {
		out = append(out, 0)
	}
	copy(out[off:], data)
	return out
}

// durableWrites reconstructs the ordered file writes of one Append/Advance call from the
// directory before and after it (every write of queue.go starts at len(file)-8 of the file
// it touches; a new segment is created empty, gets an 8-byte zero footer, then the block).
func durableWrites(old, nw []fileEnt) []write {
	var ws []write
	cur := cloneDir(old)
	for _, e := range old {
		n, ok := getFile(nw, e.ID)
		var target []byte
		if ok {
			if bytes.Equal(n, e.Data) {
				continue
			}
			target = n
		} else {
			// head segment advanced to its end, then removed
			target = append([]byte(nil), e.Data...)
			binary.BigEndian.PutUint64(target[len(target)-8:], uint64(len(target)-8))
		}
		off := len(e.Data) - 8
		if !bytes.Equal(target[:off], e.Data[:off]) {
			panic("durableWrites: file changed before its footer")
		}
		ws = append(ws, write{cloneDir(cur), e.ID, off, target[off:], "rewrite-tail"})
		cur = setFile(cur, e.ID, target)
		if !ok {
			// the removal itself: image = directory without the file
			var without []fileEnt
			for _, c := range cur {
				if c.ID != e.ID {
					without = append(without, c)
				}
			}
			cur = without
			ws = append(ws, write{cloneDir(cur), 0, 0, nil, "remove"})
		}
	}
	for _, e := range nw {
		if _, ok := getFile(old, e.ID); ok {
			continue
		}
		cur = setFile(cur, e.ID, []byte{})
		ws = append(ws, write{cloneDir(cur), e.ID, 0, make([]byte, 8), "new-footer"})
		cur = setFile(cur, e.ID, make([]byte, 8))
		if !bytes.Equal(e.Data, make([]byte, 8)) {
			ws = append(ws, write{cloneDir(cur), e.ID, 0, e.Data, "first-block"})
			cur = setFile(cur, e.ID, e.Data)
		}
	}
	// sanity: replaying all writes gives the directory after the call
	a, _ := json.Marshal(cur)
	b, _ := json.Marshal(nw)
	if !bytes.Equal(a, b) {
		panic("durableWrites: replay does not reproduce the directory")
	}
	return ws
}

func runCrash(o *hx.Out, d crashDesc, origin string) {
	o.Begin("crash", d)
	for _, op := range append(append([]opDesc(nil), d.Ops...), d.Final) {
		if !validOp(op) {
			return
		}
	}
	if d.Final.K != "append" && d.Final.K != "advance" {
		return
	}
	e := newEnv(d.MaxSize, d.Cap)
	defer e.done()
	for _, op := range d.Ops {
		e.exec(op)
	}
	old := readDirFiles(e.dir)
	before, brc := readBack(old, d.MaxSize, d.Cap)
	frc, _ := e.exec(d.Final)
	nw := readDirFiles(e.dir)
	after, arc := readBack(nw, d.MaxSize, d.Cap)
	if brc != rcEOF || arc != rcEOF {
		return // not a clean state to crash from (out of scope for this kind)
	}
	ws := durableWrites(old, nw)
	for si, w := range ws {
		if d.Stage >= 0 && d.Stage != si {
			continue
		}
		for cut := 0; cut <= len(w.data); cut++ {
			if d.Cut >= 0 && d.Cut != cut {
				continue
			}
			base, _ := getFile(w.base, w.fid)
			img := setFile(w.base, w.fid, pwrite(base, w.off, w.data[:cut]))
			if w.what == "remove" {
				img = w.base
			}
			drained, drc := readBack(img, d.MaxSize, d.Cap)
			dd := d
			dd.Stage, dd.Cut = si, cut
			coq := fmt.Sprintf("CCrash %s %s %s %d%%N %d%%nat %s %d%%nat %s %s %s %d", hx.CoqZ(d.MaxSize), hx.CoqZ(int64(d.Cap)),
				coqDisk(w.base), w.fid, w.off, hx.CoqBytes(w.data), cut, coqBlocks(before), coqBlocks(after), coqBlocks(drained), drc)
			shape := "inside"
			if cut == 0 {
				shape = "none"
			} else if cut == len(w.data) {
				shape = "complete"
			}
			o.Count(fmt.Sprintf("crash:%s:%s:%s", d.Final.K, w.what, shape))
			o.Emit(hx.Case{Kind: "crash", Coq: coq, Desc: dd,
				Obs: map[string]interface{}{"final_rc": frc, "write": w.what, "file": w.fid, "off": w.off, "len": len(w.data), "cut": cut, "shape": shape,
					"before": len(before), "after": len(after), "drained": len(drained), "drain_rc": drc,
					"lost_acked": lostAcked(before, after, drained)},
				Nontrivial: len(before) > 0, Sig: fmt.Sprintf("crash:%x:%d:%d:%x", mustJSON(w.base), w.fid, cut, w.data), Origin: origin})
		}
	}
}

func mustJSON(v interface{}) []byte { b, _ := json.Marshal(v); return b }

func eqBlocks(a, b [][]byte) bool {
	if len(a) != len(b) {
		return false
	}
	for i := range a {
		if !bytes.Equal(a[i], b[i]) {
			return false
		}
	}
	return true
}

func lostAcked(before, after, drained [][]byte) bool {
	return !eqBlocks(drained, before) && !eqBlocks(drained, after)
}

// ---------- appenders racing Close ----------

func runConc(o *hx.Out, d concDesc, origin string) {
	o.Begin("conc", d)
	if d.K < 1 || d.K > 64 || d.Per < 1 || d.Per > 1000 {
		return
	}
	dir := scratch()
	defer os.RemoveAll(dir)
	q, _ := hh.VerifNewQueue(dir, 1<<30, 1024)
	if err := q.Open(); err != nil {
		panic(err)
	}
	var wg sync.WaitGroup
	var mu sync.Mutex
	var acked []uint64
	start := make(chan struct{})
	for g := 0; g < d.K; g++ {
		wg.Add(1)
		go func(g int) {
			defer wg.Done()
			<-start
			for j := 0; j < d.Per; j++ {
				id := uint64(g*d.Per + j)
				var b [8]byte
				binary.BigEndian.PutUint64(b[:], id)
				if err := q.Append(b[:]); err == nil {
					mu.Lock()
					acked = append(acked, id)
					mu.Unlock()
				}
			}
		}(g)
	}
	close(start)
	time.Sleep(time.Duration(d.DelayUs) * time.Microsecond)
	cerr := q.Close()
	wg.Wait()
	got, rc := readBack(readDirFiles(dir), 1<<30, 1024)
	var readable []uint64
	for _, b := range got {
		if len(b) == 8 {
			readable = append(readable, binary.BigEndian.Uint64(b))
		} else {
			readable = append(readable, 1<<40)
		}
	}
	sort.Slice(acked, func(i, j int) bool { return acked[i] < acked[j] })
	lost := 0
	rs := map[uint64]bool{}
	for _, r := range readable {
		rs[r] = true
	}
	for _, a := range acked {
		if !rs[a] {
			lost++
		}
	}
	if len(readable) > 190 {
		// the reader above stops after 200 calls; keep the case within what both sides read
		o.Count("conc:skipped-too-many-blocks")
		return
	}
	coq := fmt.Sprintf("CConc %d%%N %s %s", d.K*d.Per, hx.CoqNList(acked), hx.CoqNList(readable))
	o.Count(fmt.Sprintf("conc:k=%d", d.K))
	o.Emit(hx.Case{Kind: "conc", Coq: coq, Desc: d, Obs: map[string]interface{}{"acked": len(acked), "readable": len(readable), "lost": lost, "close_rc": classify(cerr), "read_rc": rc},
		Nontrivial: len(acked) > 0, Sig: fmt.Sprintf("conc:%d:%d:%d:%d", d.K, d.Per, d.DelayUs, d.Run), Origin: origin})
}

// ---------- WriteShard ----------

type nullWriter struct{}

func (nullWriter) WriteShardBinary(shardID, ownerID uint64, points [][]byte) error {
	return errors.New("unreachable")
}

type inactiveMeta struct{}

func (inactiveMeta) DataNode(id uint64) (*meta.NodeInfo, error) { return nil, nil }

var pointOverhead = -1

func pointOfSize(i int, size int64) models.Point {
	mk := func(l int) models.Point {
		p, err := models.NewPoint(fmt.Sprintf("m%04d", i), nil, map[string]interface{}{"v": strings.Repeat("x", l)}, time.Unix(1700000000, 0))
		if err != nil {
			panic(err)
		}
		return p
	}
	if pointOverhead < 0 {
		b, _ := mk(0).MarshalBinary()
		pointOverhead = len(b)
	}
	l := int(size) - pointOverhead
	if l < 0 {
		l = 0
	}
	return mk(l)
}

func runSplit(o *hx.Out, d splitDesc, origin string) {
	o.Begin("split", d)
	total := int64(0)
	for _, s := range d.Sizes {
		if s < 0 || s > 12<<20 {
			return
		}
		total += s
	}
	if total > 48<<20 || len(d.Sizes) > 12 {
		return
	}
	dir := scratch()
	defer os.RemoveAll(dir)
	cfg := hh.NewConfig()
	cfg.MaxSize = d.MaxSize
	cfg.RetryInterval = toml.Duration(time.Hour)
	cfg.RetryMaxInterval = toml.Duration(time.Hour)
	cfg.PurgeInterval = toml.Duration(time.Hour)
	np := hh.NewNodeProcessor(cfg, 2, 7, dir, nullWriter{}, inactiveMeta{})
	if err := np.Open(); err != nil {
		panic(err)
	}
	pts := make([]models.Point, len(d.Sizes))
	idx := map[string]uint64{}
	sizes := make([]int64, len(d.Sizes))
	for i, s := range d.Sizes {
		pts[i] = pointOfSize(i, s)
		b, _ := pts[i].MarshalBinary()
		idx[string(b)] = uint64(i)
		sizes[i] = int64(len(b))
	}
	var werr error
	panicked := false
	func() {
		defer func() {
			if recover() != nil {
				panicked = true
			}
		}()
		werr = np.WriteShard(pts)
	}()
	handed := np.Statistics(nil)[0].Values["bytesWritten"].(int64)
	np.Close()
	got, rrc := readBack(readDirFiles(dir), d.MaxSize, 1024)
	var blocks []string
	var blocksJ [][]uint64
	accepted := int64(0)
	for _, b := range got {
		accepted += int64(len(b))
		_, ps, err := hh.VerifUnmarshalWrite(b)
		var ids []uint64
		if err != nil {
			ids = append(ids, 999998)
		}
		for _, p := range ps {
			if k, ok := idx[string(p)]; ok {
				ids = append(ids, k)
			} else {
				ids = append(ids, 999999)
			}
		}
		blocks = append(blocks, hx.CoqNList(ids))
		blocksJ = append(blocksJ, ids)
	}
	outcome := 0
	switch {
	case panicked:
		outcome = 7
	case werr == nil:
		outcome = 0
	case handed > accepted:
		outcome = 2 // a block was handed to queue.Append and refused
	case werr == hh.ErrSegmentFull:
		outcome = 1
	default:
		outcome = 2
	}
	if rrc != rcEOF {
		outcome = 8
	}
	zs := make([]string, len(sizes))
	for i, s := range sizes {
		zs[i] = hx.CoqZ(s)
	}
	coq := fmt.Sprintf("CSplit %s %s %d", hx.CoqList(zs), hx.CoqList(blocks), outcome)
	o.Count(fmt.Sprintf("split:outcome=%d:blocks=%d", outcome, len(got)))
	o.Emit(hx.Case{Kind: "split", Coq: coq, Desc: d, Obs: map[string]interface{}{"blocks": blocksJ, "outcome": outcome, "err": fmt.Sprint(werr)},
		Nontrivial: len(got) > 0, Sig: fmt.Sprintf("split:%v:%d", sizes, d.MaxSize), Origin: origin})
}

// ---------- marshalWrite / unmarshalWrite ----------

func runMarshal(o *hx.Out, d marshalDesc, origin string) {
	o.Begin("marshal", d)
	if len(d.Lens) > 64 {
		return
	}
	var pts []models.Point
	var raw []string
	var rawb [][]byte
	for i, l := range d.Lens {
		if l < 0 || l > 4096 {
			return
		}
		p, err := models.NewPoint(fmt.Sprintf("m%d", i), models.NewTags(map[string]string{"t": strconv.Itoa(l)}), map[string]interface{}{"v": strings.Repeat("y", l), "i": int64(i)}, time.Unix(int64(i), int64(l)))
		if err != nil {
			panic(err)
		}
		pts = append(pts, p)
		b, _ := p.MarshalBinary()
		raw = append(raw, hx.CoqBytes(b))
		rawb = append(rawb, b)
	}
	out := hh.VerifMarshalWrite(d.Shard, pts)
	shard, ps, err := hh.VerifUnmarshalWrite(out)
	rt := err == nil && shard == d.Shard && eqBlocks(ps, rawb)
	coq := fmt.Sprintf("CMarshal %d%%N %s %s %s", d.Shard, hx.CoqList(raw), hx.CoqBytes(out), hx.CoqBool(rt))
	o.Emit(hx.Case{Kind: "marshal", Coq: coq, Desc: d, Obs: map[string]interface{}{"len": len(out), "roundtrip": rt},
		Nontrivial: len(d.Lens) > 0, Sig: fmt.Sprintf("marshal:%d:%v", d.Shard, d.Lens), Origin: origin})
}

func runUnmarshal(o *hx.Out, d unmarshalDesc, origin string) {
	o.Begin("unmarshal", d)
	cls := 0
	var shard uint64
	var ps [][]byte
	func() {
		defer func() {
			if recover() != nil {
				cls = 3
			}
		}()
		s, p, err := hh.VerifUnmarshalWrite(d.B)
		shard, ps = s, p
		switch {
		case err == nil:
			cls = 0
		case err == io.ErrShortBuffer:
			cls = 2
		default:
			cls = 1
		}
	}()
	coq := fmt.Sprintf("CUnmarshal %s %d %d%%N %s", hx.CoqBytes(d.B), cls, shard, coqBlocks(ps))
	o.Count(fmt.Sprintf("unmarshal:cls=%d", cls))
	o.Emit(hx.Case{Kind: "unmarshal", Coq: coq, Desc: d, Obs: map[string]interface{}{"cls": cls, "shard": shard, "points": len(ps)},
		Nontrivial: len(d.B) >= 8, Sig: fmt.Sprintf("um:%x", d.B), Origin: origin})
}

// ---------- generation ----------

type gen struct {
	r    *hx.Rand
	tag  int
	m    int64 // current segment limit
	open bool
	ids  uint64 // upper bound of segment ids
	ops  []opDesc
}

func (g *gen) appendOp() {
	r := g.r
	var n int64
	switch r.Intn(10) {
	case 0, 1, 2, 3:
		n = g.m - 8 - int64(r.Intn(3))*8 + int64(r.Intn(49)) - 24
	case 4, 5, 6:
		n = int64(1 + r.Intn(20))
	case 7, 8:
		n = g.m/2 + int64(r.Intn(25)) - 12
	default:
		n = g.m/3 + int64(r.Intn(9)) - 4
	}
	if n < 1 {
		n = 1
	}
	if n > 400 {
		n = 400
	}
	nb, na := 0, 0
	switch r.Intn(10) {
	case 0, 1:
		nb, na = 9, r.Intn(2)*4
	case 2:
		nb, na = 10+r.Intn(22), r.Intn(12)
	case 3:
		nb = r.Intn(9)
	}
	g.tag++
	g.ops = append(g.ops, opDesc{K: "append", N: n, Tag: g.tag, Nb: nb, Na: na})
	g.ids++
}

func genSeqOps(r *hx.Rand, n int) seqDesc {
	g := &gen{r: r, open: true, m: 10 << 20}
	d := seqDesc{MaxSize: 1 << 20, Cap: 1024}
	m := int64(40 + r.Intn(260))
	if r.Chance(10) {
		d.MaxSize = m*3 + int64(r.Intn(40))
	}
	if r.Chance(10) {
		d.Cap = 12
	}
	if !r.Chance(5) {
		g.ops = append(g.ops, opDesc{K: "setmax", N: m})
		g.m = m
	} else {
		g.m = 300
	}
	fresh := func() {
		g.ops = append(g.ops, opDesc{K: "fresh"})
		g.open = true
		g.m = 10 << 20
		if !r.Chance(10) {
			g.ops = append(g.ops, opDesc{K: "setmax", N: m})
			g.m = m
		} else {
			g.m = 300
		}
	}
	for len(g.ops) < n {
		if !g.open {
			switch r.Intn(6) {
			case 0:
				g.ops = append(g.ops, opDesc{K: "current"})
			case 1:
				g.appendOp()
			case 2:
				fresh()
			default:
				g.ops = append(g.ops, opDesc{K: "open"})
				g.open = true
			}
			continue
		}
		switch x := r.Intn(100); {
		case x < 42:
			g.appendOp()
		case x < 55:
			g.ops = append(g.ops, opDesc{K: "current"})
		case x < 75:
			if r.Chance(60) {
				g.ops = append(g.ops, opDesc{K: "current"})
			}
			g.ops = append(g.ops, opDesc{K: "advance"})
		case x < 80:
			nm := g.m + int64(r.Intn(81)) - 40
			switch r.Intn(8) {
			case 0:
				nm = 8
			case 1:
				nm = int64(r.Intn(30))
			case 2:
				nm = m
			}
			g.ops = append(g.ops, opDesc{K: "setmax", N: nm})
			g.m = nm
			g.ids++
		case x < 84:
			g.ops = append(g.ops, opDesc{K: "close"})
			g.open = false
		case x < 88:
			if r.Chance(50) {
				g.ops = append(g.ops, opDesc{K: "close"})
			}
			fresh()
		case x < 93:
			var old []uint64
			lim := uint64(r.Intn(int(g.ids) + 2))
			for id := uint64(1); id <= g.ids+1; id++ {
				if id <= lim || r.Chance(15) {
					old = append(old, id)
				}
			}
			g.ops = append(g.ops, opDesc{K: "purge", Old: old})
			g.ids++
		case x < 95:
			g.ops = append(g.ops, opDesc{K: "truncate"})
		case x < 98:
			g.ops = append(g.ops, opDesc{K: "current"}, opDesc{K: "advseg"})
		default:
			g.ops = append(g.ops, opDesc{K: "advance"})
		}
	}
	d.Ops = g.ops
	return d
}

// hardenScope keeps generated sequences inside the scope of Spec.v: before a size change,
// purge, truncate or crash-at-rest that follows an append issued on the buffered path, the
// queue is closed (which flushes) and reopened.  endClean: also end open and flushed.
func hardenScope(ops []opDesc, endClean bool) []opDesc {
	var out []opDesc
	dirty := false
	open := true
	for _, op := range ops {
		switch op.K {
		case "append":
			if op.Nb+1 >= bufferThreshold {
				dirty = true
			}
		case "close":
			dirty = false
			open = false
		case "open":
			open = true
		case "fresh":
			if dirty && open {
				out = append(out, opDesc{K: "close"})
				dirty = false
			}
			open = true
		case "setmax", "purge", "truncate":
			if dirty && open {
				out = append(out, opDesc{K: "close"}, opDesc{K: "open"})
				dirty = false
			}
		}
		out = append(out, op)
	}
	if endClean {
		if !open {
			out = append(out, opDesc{K: "open"})
		} else if dirty {
			out = append(out, opDesc{K: "close"}, opDesc{K: "open"})
		}
	}
	return out
}

func designed(o *hx.Out) {
	ap := func(tag int, n int64) opDesc { return opDesc{K: "append", N: n, Tag: tag} }
	bp := func(tag int, n int64) opDesc { return opDesc{K: "append", N: n, Tag: tag, Nb: 9, Na: 5} }
	cur, adv := opDesc{K: "current"}, opDesc{K: "advance"}
	// (a) Empty() between Advance and the next read
	runSeq(o, seqDesc{1 << 20, 1024, []opDesc{ap(1, 3), ap(2, 3), ap(3, 5), cur, adv, cur, adv, cur, adv, cur}}, "designed")
	// (b) acknowledged buffered appends, then Close and a new process
	runSeq(o, seqDesc{1 << 20, 1024, []opDesc{bp(1, 4), bp(2, 4), {K: "close"}, {K: "fresh"}, cur, adv, cur, adv, cur}}, "designed")
	// age purge of the only segment, then appends
	runSeq(o, seqDesc{1 << 20, 1024, []opDesc{ap(1, 3), {K: "purge", Old: []uint64{1}}, ap(2, 3), cur}}, "designed")
	// rollover at every distance from the limit
	for dlt := int64(-26); dlt <= 26; dlt++ {
		m := int64(100)
		runSeq(o, seqDesc{1 << 20, 1024, []opDesc{{K: "setmax", N: m}, ap(1, 30), ap(2, m-8-38+dlt), cur, adv, cur, adv, cur, ap(3, 10), {K: "close"}, {K: "fresh"}, cur}}, "designed")
	}
	// empty middle segments (refused oversized appends), head exhausted
	runSeq(o, seqDesc{1 << 20, 1024, []opDesc{{K: "setmax", N: 60}, ap(1, 20), ap(2, 70), ap(3, 71), cur, adv, cur, adv, cur, adv, cur}}, "designed")
	// torn append / advance: every stage and cut
	runCrash(o, crashDesc{1 << 20, 1024, []opDesc{ap(1, 40), ap(2, 40)}, ap(3, 24), -1, -1}, "designed")
	runCrash(o, crashDesc{1 << 20, 1024, []opDesc{{K: "setmax", N: 100}, ap(1, 40), ap(2, 40)}, ap(3, 24), -1, -1}, "designed")
	runCrash(o, crashDesc{1 << 20, 1024, []opDesc{ap(1, 240), ap(2, 40), ap(3, 9), adv}, adv, -1, -1}, "designed")
	runCrash(o, crashDesc{1 << 20, 1024, []opDesc{{K: "setmax", N: 100}, ap(1, 60), ap(2, 60), ap(3, 9)}, adv, -1, -1}, "designed")
	L := int64(hh.VerifDefaultSegmentSize)
	for _, s := range [][]int64{{L - 20}, {L - 12}, {L - 11}, {4 << 20, 4 << 20, 4 << 20}, {3 << 20, 3 << 20, 3 << 20, 3 << 20, 3 << 20},
		{6 << 20, 6 << 20, 1024, 6 << 20}, {1024, 11 << 20, 1024}, {L - 12 - 100, 80, 1000}, {}} {
		runSplit(o, splitDesc{s, 1 << 30}, "designed")
	}
	runSplit(o, splitDesc{[]int64{6 << 20, 6 << 20, 6 << 20}, 15 << 20}, "designed")
	designedSvc(o)
	for _, b := range [][]byte{{}, {1, 2, 3}, {0, 0, 0, 0, 0, 0, 0, 7}, {0, 0, 0, 0, 0, 0, 0, 7, 0, 0}, {0, 0, 0, 0, 0, 0, 0, 7, 0, 0, 0, 2, 9},
		{0, 0, 0, 0, 0, 0, 0, 7, 0, 0, 0, 0}, {0, 0, 0, 0, 0, 0, 0, 7, 255, 255, 255, 255, 1}, {0, 0, 0, 0, 0, 0, 0, 7, 0, 0, 0, 1, 5, 0, 0, 0, 0}} {
		runUnmarshal(o, unmarshalDesc{b}, "designed")
	}
}

func main() {
	f := hx.ParseFlags()
	o := hx.NewOut(f.OutDir)
	defer o.Close()
	root := os.TempDir()
	if st, err := os.Stat("/dev/shm"); err == nil && st.IsDir() {
		root = "/dev/shm"
	}
	var err error
	scratchRoot, err = os.MkdirTemp(root, "h_c04_")
	if err != nil {
		panic(err)
	}
	defer os.RemoveAll(scratchRoot)

	if f.In != "" {
		for _, in := range hx.ReadInputs(f.In) {
			switch in.Kind {
			case "seq":
				var d seqDesc
				json.Unmarshal(in.Desc, &d)
				runSeq(o, d, "replay")
			case "crash":
				var d crashDesc
				json.Unmarshal(in.Desc, &d)
				runCrash(o, d, "replay")
			case "conc":
				var d concDesc
				json.Unmarshal(in.Desc, &d)
				runConc(o, d, "replay")
			case "split":
				var d splitDesc
				json.Unmarshal(in.Desc, &d)
				runSplit(o, d, "replay")
			case "marshal":
				var d marshalDesc
				json.Unmarshal(in.Desc, &d)
				runMarshal(o, d, "replay")
			case "unmarshal":
				var d unmarshalDesc
				json.Unmarshal(in.Desc, &d)
				runUnmarshal(o, d, "replay")
			case "svc":
				var d svcDesc
				json.Unmarshal(in.Desc, &d)
				runSvc(o, d, "replay")
			}
		}
		return
	}
	r := hx.NewRand(f.Seed)
	designed(o)
	thorough := f.Tier == "thorough"
	// concurrency: k appenders racing Close
	runs := 3
	if thorough {
		runs = 20
	}
	for _, k := range []int{1, 9, 10, 11, 32} {
		for i := 0; i < runs; i++ {
			per := 150 / k
			if per < 3 {
				per = 3
			}
			runConc(o, concDesc{K: k, Per: per, DelayUs: r.Intn(1500), Run: i}, "gen")
		}
	}
	// crash images: every stage and cut of a few generated (state, call) pairs
	ncrash := 6
	nsplit := 4
	if thorough {
		ncrash, nsplit = 60, 30
	}
	for i := 0; i < ncrash; i++ {
		d := genSeqOps(r.Split(), 4+r.Intn(10))
		fin := opDesc{K: "advance"}
		if r.Chance(60) {
			m := int64(100)
			for _, op := range d.Ops {
				if op.K == "setmax" {
					m = op.N
				}
			}
			g := &gen{r: r, m: m}
			g.appendOp()
			fin = g.ops[0]
			fin.Nb, fin.Na, fin.Tag = 0, 0, 999
		}
		runCrash(o, crashDesc{d.MaxSize, d.Cap, hardenScope(d.Ops, true), fin, -1, -1}, "gen")
	}
	L := int64(hh.VerifDefaultSegmentSize)
	for i := 0; i < nsplit; i++ {
		n := 1 + r.Intn(5)
		var sizes []int64
		total := int64(0)
		for j := 0; j < n; j++ {
			var s int64
			switch r.Intn(6) {
			case 0:
				s = int64(100 + r.Intn(2000))
			case 1:
				s = 1 << 20
			case 2:
				s = 3<<20 + int64(r.Intn(100))
			case 3:
				s = L/2 - 12 + int64(r.Intn(41)) - 20
			case 4:
				s = L - 12 + int64(r.Intn(21)) - 10 - total
			default:
				s = 5 << 20
			}
			if s < 50 {
				s = 50
			}
			if total+s > 30<<20 {
				break
			}
			total += s
			sizes = append(sizes, s)
		}
		ms := int64(1 << 30)
		if r.Chance(25) {
			ms = 12 << 20
		}
		runSplit(o, splitDesc{sizes, ms}, "gen")
	}
	for i := 0; i < f.N; i++ {
		switch i % 10 {
		case 6, 7:
			runSvc(o, genSvc(r.Split(), 6+r.Intn(22)), "gen")
		case 8:
			n := r.Intn(6)
			lens := make([]int, n)
			for j := range lens {
				lens[j] = r.Intn(1 + r.Intn(40))
			}
			runMarshal(o, marshalDesc{r.U64() >> uint(r.Intn(64)), lens}, "gen")
		case 9:
			var b []byte
			if r.Chance(60) {
				// mostly valid: shard id + frames, then damaged
				b = r.Bytes(8)
				for k := r.Intn(4); k > 0; k-- {
					p := r.Bytes(r.Intn(12))
					var l [4]byte
					binary.BigEndian.PutUint32(l[:], uint32(len(p)))
					b = append(append(b, l[:]...), p...)
				}
				switch r.Intn(4) {
				case 0:
					b = b[:r.Intn(len(b)+1)]
				case 1:
					b = append(b, r.Bytes(1+r.Intn(5))...)
				}
			} else {
				b = r.Bytes(r.Intn(24))
			}
			runUnmarshal(o, unmarshalDesc{b}, "gen")
		default:
			d := genSeqOps(r.Split(), 8+r.Intn(30))
			d.Ops = hardenScope(d.Ops, false)
			runSeq(o, d, "gen")
		}
	}
}
