// Timestamp-at-precision cases (kind "time") and concurrent hinted-handoff writes (kind "hhw").
package main

import (
	"bytes"
	"fmt"
	"io"
	"math/big"
	"os"
	"strconv"
	"strings"
	"sync"
	"time"

	"github.com/influxdata/influxdb/models"
	"github.com/influxdata/influxdb/services/hh"
	"github.com/influxdata/influxdb/services/meta"
	"github.com/influxdata/influxdb/toml"
	"verifharness/hx"
)

// ---------------------------------------------------------------- kind "time"

// timeDesc: the line "m v=1 <ts>" parsed at precision Prec.  Ts is ASCII.
type timeDesc struct {
	Ts      string `json:"ts"`
	Prec    string `json:"prec"`
	Default int64  `json:"default_ns"`
}

func runTimeCase(o *hx.Out, d timeDesc, origin string) {
	o.Begin("time", d)
	models.VerifSetUintSupport(false)
	defaultTime = time.Unix(0, d.Default).UTC()
	line := []byte("m v=1 " + d.Ts)
	tbl := map[string]*uint64{}
	addFloatTokens(tbl, line)
	po := runParse(line, d.Prec)
	for _, p := range po.pts {
		if p.fstate == 0 {
			addFloatTokens(tbl, p.str)
		}
	}
	coq := fmt.Sprintf("CTime %s %s %s %s %s", cbs(d.Ts), hx.CoqZ(d.Default), cbs(d.Prec), coqFloatTable(tbl), po.coq())
	o.Count("time:prec=" + d.Prec)
	cls := "rejected"
	switch {
	case po.panicked:
		cls = "panic"
	case len(po.pts) > 0:
		cls = "accepted"
	}
	o.Count("time:result=" + cls)
	o.Count(fmt.Sprintf("time:digits=%d", digitClass(d.Ts)))
	o.Emit(hx.Case{Kind: "time", Coq: coq, Desc: d, Obs: po.json(), Nontrivial: len(d.Ts) > 0,
		Sig: fmt.Sprintf("t:%s|%s", d.Ts, d.Prec), Origin: origin})
}

func digitClass(s string) int {
	n := 0
	for _, c := range s {
		if c >= '0' && c <= '9' {
			n++
		}
	}
	switch {
	case n >= 21:
		return 21
	case n >= 18:
		return n
	case n >= 10:
		return 10
	case n >= 2:
		return 2
	}
	return n
}

var timePrecs = []string{"n", "u", "ms", "s", "m", "h", "", "ns", "us"}

func multOf(prec string) *big.Int {
	if m, ok := precMult[prec]; ok {
		return big.NewInt(m)
	}
	return big.NewInt(1)
}

var (
	two63 = new(big.Int).Lsh(big.NewInt(1), 63)
	two64 = new(big.Int).Lsh(big.NewInt(1), 64)
)

func bigAdd(a *big.Int, d int64) *big.Int { return new(big.Int).Add(a, big.NewInt(d)) }
func bigNeg(a *big.Int) *big.Int        { return new(big.Int).Neg(a) }

// boundaryBases: the values around which the verdict of timestamp*mult changes, for one unit:
// +-(2^63-1)/mult, +-2^63/mult, +-MaxNanoTime/mult, and quotients of k*2^64 (+-2^63) whose
// wrapped product lands inside the valid range or on its edges.
func boundaryBases(mult *big.Int, ks []int64) []*big.Int {
	var out []*big.Int
	add := func(x *big.Int) {
		q := new(big.Int).Quo(x, mult)
		out = append(out, q, bigNeg(q))
	}
	add(bigAdd(two63, -1))
	add(two63)
	add(bigAdd(two63, -2)) // MaxNanoTime
	for _, k := range ks {
		kk := new(big.Int).Mul(big.NewInt(k), two64)
		add(kk)
		add(new(big.Int).Add(kk, two63))
		add(new(big.Int).Sub(kk, two63))
	}
	return out
}

var badTimeTexts = []string{"-0", "0", "00", "-00", "007", "-007", "+1", "+0", "-", "--1", "-+1", "1-", "1-1", "1e3", "1.0", "1.", ".1", "0x10", "1_000",
	"1i", "1u", "1n", "t", "0000000000000000000000001", "-0000000000000000000000001", "00000000000000000009223372036854775806",
	"9223372036854775807", "9223372036854775808", "-9223372036854775807", "-9223372036854775808", "-9223372036854775809",
	"18446744073709551615", "18446744073709551616", "-18446744073709551616", "99999999999999999999", "-99999999999999999999",
	"10000000000000000000", "-10000000000000000000", "340282366920938463463374607431768211456", "1 ", "1  ", " 1", "1 2", "1\t", "\t1", "1\x00", "\"1\"", "1\\", "1,2", "1=2", "#1"}

func genTimeText(r *hx.Rand, prec string) string {
	mult := multOf(prec)
	switch k := r.Intn(20); {
	case k < 8:
		ks := []int64{1, 2, 3, int64(1 + r.Intn(400)), int64(1 + r.Intn(4000000))}
		bs := boundaryBases(mult, ks)
		b := bs[r.Intn(len(bs))]
		return bigAdd(b, int64(r.Intn(7)-3)).String()
	case k < 10:
		// the wrapped product is a small in-range value: t = ceil(k*2^64/mult) + j
		kk := new(big.Int).Mul(big.NewInt(int64(1+r.Intn(500))), two64)
		q := new(big.Int).Quo(kk, mult)
		q = bigAdd(q, int64(r.Intn(1000)))
		if r.Bool() {
			q = bigNeg(q)
		}
		return q.String()
	case k < 12:
		// 19 or 20 random digits
		n := 19 + r.Intn(2)
		b := make([]byte, n)
		for i := range b {
			b[i] = byte('0' + r.Intn(10))
		}
		if b[0] == '0' {
			b[0] = '1'
		}
		s := string(b)
		if r.Bool() {
			s = "-" + s
		}
		return s
	case k < 14:
		return badTimeTexts[r.Intn(len(badTimeTexts))]
	case k < 16:
		// any int64
		return strconv.FormatInt(int64(r.U64())>>uint(r.Intn(64)), 10)
	case k < 17:
		// a valid text damaged
		s := []byte(strconv.FormatInt(int64(r.U64())>>uint(r.Intn(64)), 10))
		alpha := "0123456789-+ .eE_xi\t\"\\9"
		p := r.Intn(len(s) + 1)
		s = append(s[:p], append([]byte{alpha[r.Intn(len(alpha))]}, s[p:]...)...)
		return string(s)
	default:
		// in range
		lim := new(big.Int).Quo(bigAdd(two63, -2), mult)
		t := new(big.Int).Mod(new(big.Int).SetUint64(r.U64()), bigAdd(lim, 1))
		if r.Chance(30) {
			t = big.NewInt(int64(r.Intn(12)))
		}
		if r.Bool() {
			t = bigNeg(t)
		}
		s := t.String()
		if r.Chance(10) {
			neg := strings.HasPrefix(s, "-")
			s = strings.TrimPrefix(s, "-")
			s = strings.Repeat("0", 1+r.Intn(4)) + s
			if neg {
				s = "-" + s
			}
		}
		return s
	}
}

func genTime(r *hx.Rand) timeDesc {
	prec := timePrecs[r.Intn(len(timePrecs))]
	if r.Chance(60) {
		prec = []string{"u", "ms", "s", "m", "h"}[r.Intn(5)]
	}
	return timeDesc{Ts: genTimeText(r, prec), Prec: prec, Default: 1600000000123456789}
}

// boundaryInt64: a boundary timestamp for structured lines (must fit int64).
func boundaryInt64(r *hx.Rand, prec string) (int64, bool) {
	bs := boundaryBases(multOf(prec), []int64{1, 2, int64(1 + r.Intn(400))})
	b := bigAdd(bs[r.Intn(len(bs))], int64(r.Intn(5)-2))
	if !b.IsInt64() {
		return 0, false
	}
	return b.Int64(), true
}

func designedTime(o *hx.Out) {
	const dflt = 1600000000123456789
	for _, prec := range []string{"n", "u", "ms", "s", "m", "h"} {
		for _, b := range boundaryBases(multOf(prec), []int64{1, 2}) {
			for d := int64(-1); d <= 1; d++ {
				runTimeCase(o, timeDesc{Ts: bigAdd(b, d).String(), Prec: prec, Default: dflt}, "designed")
			}
		}
		for _, s := range []string{"0", "-0", "1", "-1", "2", "-2", "007", "-", "+1", "9223372036854775807", "-9223372036854775808", "-9223372036854775807",
			"9223372036854775808", "-9223372036854775809", "18446744073709551616", "99999999999999999999"} {
			runTimeCase(o, timeDesc{Ts: s, Prec: prec, Default: dflt}, "designed")
		}
	}
	for _, s := range badTimeTexts {
		runTimeCase(o, timeDesc{Ts: s, Prec: []string{"n", "s", "h", "us"}[len(s)%4], Default: dflt}, "designed")
	}
}

// ---------------------------------------------------------------- kind "hhw"

// hhwDesc: Workers goroutines each call the real NodeProcessor.WriteShard Rounds times with
// batches of Points[(w*Rounds+r) % len(Points)] points whose string field has StrLen bytes;
// every point is distinct (tags b=<worker>_<round>, i=<index>).  MaxPct limits the queue size
// (hh max-size) so that part of the writes is refused with ErrQueueFull and must not be replayed.
type hhwDesc struct {
	Shard   uint64 `json:"shard"`
	Workers int    `json:"workers"`
	Rounds  int    `json:"rounds"`
	Points  []int  `json:"points"`
	StrLen  int    `json:"strlen"`
	Salt    uint32 `json:"salt"`
	MaxPct  int    `json:"max_pct,omitempty"` // > 0: queue size limit = this percentage of all blocks, so some writes are refused
}

type hhwNullWriter struct{}

func (hhwNullWriter) WriteShardBinary(shardID, ownerID uint64, points [][]byte) error {
	return fmt.Errorf("unreachable")
}

type hhwInactiveMeta struct{}

func (hhwInactiveMeta) DataNode(id uint64) (*meta.NodeInfo, error) { return nil, nil }

type hwPoint struct {
	key, fields []byte
	nano        int64
	p           models.Point
}

func mkHWPoint(d hhwDesc, w, rd, i int) hwPoint {
	key := fmt.Sprintf("hw,b=%d_%d,i=%d", w, rd, i)
	val := int64(uint64(d.Salt)*2654435761+uint64(w*1000003+rd*1009+i)) % 1000000007
	if i%3 == 1 {
		val = -val
	}
	fill := strings.Repeat(string(rune('a'+(w+rd+i)%26)), d.StrLen)
	fields := fmt.Sprintf("n=%di,s=\"%s\",k=%s", val, fill, []string{"t", "f", "T", "F"}[(w+i)%4])
	nano := int64(1600000000000000000) + int64(w)*1000000007 + int64(rd)*1009 + int64(i)
	if i%7 == 3 {
		nano = -nano
	}
	line := key + " " + fields + " " + strconv.FormatInt(nano, 10)
	pts, err := models.ParsePointsWithPrecision([]byte(line), time.Unix(0, 0).UTC(), "n")
	if err != nil || len(pts) != 1 || string(pts[0].Key()) != key || pts[0].UnixNano() != nano || pts[0].String() != line {
		panic("generator: hinted point " + line)
	}
	return hwPoint{key: []byte(key), fields: []byte(fields), nano: nano, p: pts[0]}
}

func drainQueue(dir string, maxSize int64, maxWrites int, limit int) (blocks [][]byte, ok bool, panicked bool) {
	var q *hh.VerifQueue
	defer func() {
		if e := recover(); e != nil {
			panicked = true
		}
		if q != nil {
			q.Close()
		}
	}()
	var err error
	q, err = hh.VerifNewQueue(dir, maxSize, maxWrites)
	if err != nil {
		return nil, false, false
	}
	if err := q.Open(); err != nil {
		return nil, false, false
	}
	for i := 0; i < limit; i++ {
		b, err := q.Current()
		if err == nil {
			blocks = append(blocks, append([]byte(nil), b...))
			if err := q.Advance(); err != nil {
				return blocks, false, false
			}
			continue
		}
		if err == io.EOF {
			if len(q.Segments()) <= 1 {
				return blocks, true, false
			}
			q.AdvanceSegment() // as NodeProcessor.SendWrite does on io.EOF
			continue
		}
		return blocks, false, false
	}
	return blocks, false, false
}

func runHHWCase(o *hx.Out, d hhwDesc, origin string) {
	o.Begin("hhw", d)
	if d.Workers < 1 || d.Workers > 16 || d.Rounds < 1 || d.Rounds > 64 || len(d.Points) == 0 || d.StrLen < 0 || d.StrLen > 4096 {
		return
	}
	total := 0
	type batch struct {
		pts   []hwPoint
		acked bool
	}
	batches := make([][]batch, d.Workers)
	for w := 0; w < d.Workers; w++ {
		for rd := 0; rd < d.Rounds; rd++ {
			n := d.Points[(w*d.Rounds+rd)%len(d.Points)]
			if n < 1 || n > 500 {
				return
			}
			total += n
			b := batch{}
			for i := 0; i < n; i++ {
				b.pts = append(b.pts, mkHWPoint(d, w, rd, i))
			}
			batches[w] = append(batches[w], b)
		}
	}
	if total > 4000 {
		return
	}
	dir, err := os.MkdirTemp("", "h_c12_hh")
	if err != nil {
		panic(err)
	}
	defer os.RemoveAll(dir)
	cfg := hh.NewConfig()
	cfg.RetryInterval = toml.Duration(time.Hour)
	cfg.RetryMaxInterval = toml.Duration(time.Hour)
	cfg.PurgeInterval = toml.Duration(time.Hour)
	if d.MaxPct > 0 {
		all := int64(0)
		for w := range batches {
			for _, b := range batches[w] {
				all += 8
				for _, hp := range b.pts {
					pb, _ := hp.p.MarshalBinary()
					all += 4 + int64(len(pb))
				}
			}
		}
		cfg.MaxSize = all*int64(d.MaxPct)/100 + 8
	}
	np := hh.NewNodeProcessor(cfg, 2, d.Shard, dir, hhwNullWriter{}, hhwInactiveMeta{})
	if err := np.Open(); err != nil {
		panic(err)
	}
	var wg sync.WaitGroup
	var mu sync.Mutex
	panicked := false
	start := make(chan struct{})
	for w := 0; w < d.Workers; w++ {
		wg.Add(1)
		go func(w int) {
			defer wg.Done()
			defer func() {
				if e := recover(); e != nil {
					mu.Lock()
					panicked = true
					mu.Unlock()
				}
			}()
			<-start
			for rd := range batches[w] {
				pts := make([]models.Point, len(batches[w][rd].pts))
				for i, hp := range batches[w][rd].pts {
					pts[i] = hp.p
				}
				if err := np.WriteShard(pts); err == nil {
					batches[w][rd].acked = true
				}
			}
		}(w)
	}
	close(start)
	wg.Wait()
	np.Close()
	nb := d.Workers * d.Rounds
	blocks, drainOK, dp := drainQueue(dir, cfg.MaxSize, cfg.MaxWritesPending, 2*nb+16)
	panicked = panicked || dp

	var bitems []string
	nacked := 0
	for w := range batches {
		for _, b := range batches[w] {
			ps := make([]string, len(b.pts))
			for i, hp := range b.pts {
				ps[i] = fmt.Sprintf("(%s, %s, %s)", cb(hp.key), cb(hp.fields), hx.CoqZ(hp.nano))
			}
			bitems = append(bitems, fmt.Sprintf("(%s, %s)", hx.CoqList(ps), hx.CoqBool(b.acked)))
			if b.acked {
				nacked++
			}
		}
	}
	blk := make([]string, len(blocks))
	for i, b := range blocks {
		blk[i] = cb(b)
	}
	// summary of the damage for the report (the verdict is computed in Coq from the blocks)
	undecodable := 0
	for _, b := range blocks {
		if _, _, err := hh.VerifUnmarshalWrite(b); err != nil {
			undecodable++
		}
	}
	distinct := map[string]bool{}
	for _, b := range blocks {
		distinct[string(b)] = true
	}
	coq := fmt.Sprintf("CHHW %d %s %s %s %s", d.Shard, hx.CoqList(bitems), hx.CoqList(blk), hx.CoqBool(drainOK), hx.CoqBool(panicked))
	o.Count(fmt.Sprintf("hhw:workers=%d", d.Workers))
	o.Count(fmt.Sprintf("hhw:batches=%d", bucket(nb)))
	if nacked == nb {
		o.Count("hhw:all_acked")
	} else {
		o.Count("hhw:some_refused")
	}
	o.Emit(hx.Case{Kind: "hhw", Coq: coq, Desc: d, Obs: map[string]interface{}{"batches": nb, "acked": nacked, "blocks": len(blocks),
		"distinct_blocks": len(distinct), "undecodable_blocks": undecodable, "drain_ok": drainOK, "panicked": panicked},
		Nontrivial: nacked > 0, Sig: fmt.Sprintf("hw:%d:%d:%d:%v:%d:%d:%d", d.Shard, d.Workers, d.Rounds, d.Points, d.StrLen, d.Salt, d.MaxPct), Origin: origin})
}

func bucket(n int) int {
	switch {
	case n <= 4:
		return n
	case n <= 8:
		return 8
	case n <= 16:
		return 16
	case n <= 32:
		return 32
	}
	return 64
}

func genHHW(r *hx.Rand, thorough bool) hhwDesc {
	d := hhwDesc{Shard: r.U64() >> uint(r.Intn(64)), Workers: 2 + r.Intn(7), Rounds: 1 + r.Intn(6), Salt: uint32(r.U64())}
	if r.Chance(10) {
		d.Workers = 1
	}
	np := 1 + r.Intn(4)
	budget := 240
	if thorough {
		budget = 600
	}
	per := budget / (d.Workers * d.Rounds)
	if per < 1 {
		per = 1
	}
	for i := 0; i < np; i++ {
		d.Points = append(d.Points, 1+r.Intn(per))
	}
	d.StrLen = []int{0, 1, 8, 40, 200}[r.Intn(5)]
	if d.StrLen*budget > 24000 {
		d.StrLen = 40
	}
	if r.Chance(20) {
		d.MaxPct = 20 + r.Intn(75)
	}
	return d
}

func designedHHW(o *hx.Out) {
	runHHWCase(o, hhwDesc{Shard: 7, Workers: 1, Rounds: 1, Points: []int{1}, StrLen: 3}, "designed")
	runHHWCase(o, hhwDesc{Shard: 7, Workers: 1, Rounds: 3, Points: []int{2, 1}, StrLen: 0}, "designed")
	runHHWCase(o, hhwDesc{Shard: 1 << 63, Workers: 4, Rounds: 4, Points: []int{5, 9, 1}, StrLen: 40, Salt: 1}, "designed")
	runHHWCase(o, hhwDesc{Shard: 7, Workers: 8, Rounds: 6, Points: []int{4, 2, 6}, StrLen: 20, Salt: 2}, "designed")
	runHHWCase(o, hhwDesc{Shard: 7, Workers: 4, Rounds: 5, Points: []int{3, 8}, StrLen: 8, Salt: 3, MaxPct: 50}, "designed")
	runHHWCase(o, hhwDesc{Shard: 7, Workers: 1, Rounds: 6, Points: []int{2}, StrLen: 8, Salt: 4, MaxPct: 40}, "designed")
}

var _ = bytes.Equal
