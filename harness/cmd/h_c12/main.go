// h_c12: correspondence harness for C12 (line protocol and binary point encoding).
// Runs the real models / coordinator / hh code on generated inputs under recover and
// records canonical observations as Coq terms of type C12.Run.case.
package main

import (
	"bytes"
	"encoding/binary"
	"encoding/json"
	"fmt"
	"io"
	"log"
	"math"
	"os"
	"sort"
	"strconv"
	"strings"
	"time"

	"github.com/influxdata/influxdb/coordinator"
	"github.com/influxdata/influxdb/models"
	"github.com/influxdata/influxdb/pkg/escape"
	"github.com/influxdata/influxdb/services/hh"
	"github.com/influxdata/influxdb/tsdb"
	_ "github.com/influxdata/influxdb/tsdb/engine"
	_ "github.com/influxdata/influxdb/tsdb/index"
	"verifharness/hx"
)

// ---------------------------------------------------------------- descriptions (replayable)

type fieldDesc struct {
	Name []byte `json:"name"`
	Kind string `json:"kind"` // i u f b s
	Int  int64  `json:"int,omitempty"`
	Uint uint64 `json:"uint,omitempty"`
	Bits uint64 `json:"bits,omitempty"` // float64 bits of the value the token denotes (real strconv)
	Bool bool   `json:"bool,omitempty"`
	Str  []byte `json:"str,omitempty"`
}

type apDesc struct {
	Meas   []byte      `json:"meas"`
	Tags   [][2][]byte `json:"tags"`
	Fields []fieldDesc `json:"fields"`
	Time   *int64      `json:"time"`
}

type parseDesc struct {
	Lines   [][]byte  `json:"lines"`
	APs     []*apDesc `json:"aps"`  // per line: abstract point of a structured valid line, or null
	Alts    [][]byte  `json:"alts"` // per line: the same point rendered with permuted tags, or null
	Default int64     `json:"default_ns"`
	Prec    string    `json:"prec"`
	Uint    bool      `json:"uint"`
}

type binDesc struct {
	B []byte `json:"b"`
}
type hhDesc struct {
	B []byte `json:"b"`
}
type wsrDesc struct {
	Points [][]byte `json:"points"`
}
type escDesc struct {
	Which int    `json:"which"`
	In    []byte `json:"in"`
}

// ---------------------------------------------------------------- Coq printing

// cb renders a byte string as (ub [..]%uint63): primitive integers of 1 marker + <=7 data bytes.
func cb(b []byte) string {
	if len(b) == 0 {
		return "[]"
	}
	var sb strings.Builder
	sb.WriteString("(ub [")
	for i := 0; i < len(b); i += 7 {
		if i > 0 {
			sb.WriteString(";")
		}
		v := uint64(1)
		for j := i; j < i+7 && j < len(b); j++ {
			v = v<<8 | uint64(b[j])
		}
		fmt.Fprintf(&sb, "%d", v)
	}
	sb.WriteString("]%uint63)")
	return sb.String()
}
func cbs(s string) string { return cb([]byte(s)) }

func coqFloatTable(m map[string]*uint64) string {
	keys := make([]string, 0, len(m))
	for k := range m {
		keys = append(keys, k)
	}
	sort.Strings(keys)
	items := make([]string, 0, len(keys))
	for _, k := range keys {
		v := "None"
		if m[k] != nil {
			v = fmt.Sprintf("(Some %d)", *m[k])
		}
		items = append(items, fmt.Sprintf("(%s, %s)", cbs(k), v))
	}
	return hx.CoqList(items)
}

type fval struct {
	kind string // i u f b s
	i    int64
	u    uint64
	bits uint64
	b    bool
	s    []byte
}

func (v fval) coq() string {
	switch v.kind {
	case "i":
		return "FInt " + hx.CoqZ(v.i)
	case "u":
		return fmt.Sprintf("FUint %d", v.u)
	case "f":
		return fmt.Sprintf("FFloat %d", v.bits)
	case "b":
		return "FBool " + hx.CoqBool(v.b)
	default:
		return "FString " + cb(v.s)
	}
}

func (v fval) eq(w fval) bool {
	return v.kind == w.kind && v.i == w.i && v.u == w.u && v.bits == w.bits && v.b == w.b && bytes.Equal(v.s, w.s)
}

type field struct {
	name []byte
	v    fval
}

type pointObs struct {
	key      []byte
	fstate   int // 0 ok, 1 err, 2 panic
	fields   []field
	nano     int64
	str      []byte
	hash     uint64
	bin      []byte
	reparse  bool
	binrt    bool
	panicked bool // an accessor other than the field access panicked
}

func coqFields(fs []field) string {
	items := make([]string, len(fs))
	for i, f := range fs {
		items[i] = fmt.Sprintf("(%s, %s)", cb(f.name), f.v.coq())
	}
	return hx.CoqList(items)
}

func (o *pointObs) coq() string {
	fo := "FErr"
	switch o.fstate {
	case 0:
		fo = "(FOk " + coqFields(o.fields) + ")"
	case 2:
		fo = "FPanic"
	}
	return fmt.Sprintf("(OP %s %s %s %s %d %s %s %s)", cb(o.key), fo, hx.CoqZ(o.nano), cb(o.str),
		o.hash, cb(o.bin), hx.CoqBool(o.reparse), hx.CoqBool(o.binrt))
}

func (o *pointObs) json() map[string]interface{} {
	fs := []string{}
	for _, f := range o.fields {
		fs = append(fs, fmt.Sprintf("%q=%s", f.name, f.v.coq()))
	}
	return map[string]interface{}{"key": string(o.key), "fields_state": o.fstate, "fields": fs, "nano": o.nano,
		"string": string(o.str), "hash": o.hash, "reparse_ok": o.reparse, "binrt_ok": o.binrt}
}

// ---------------------------------------------------------------- observing the real code

// iterFields mirrors point.unmarshalBinary with the real iterator, keeping order and types.
func iterFields(p models.Point) (fs []field, state int) {
	defer func() {
		if e := recover(); e != nil {
			state = 2
		}
	}()
	if _, err := p.Fields(); err != nil {
		return nil, 1
	}
	it := p.FieldIterator()
	for it.Next() {
		if len(it.FieldKey()) == 0 {
			continue
		}
		name := append([]byte(nil), it.FieldKey()...)
		switch it.Type() {
		case models.Float:
			v, err := it.FloatValue()
			if err != nil {
				return nil, 1
			}
			fs = append(fs, field{name, fval{kind: "f", bits: math.Float64bits(v)}})
		case models.Integer:
			v, err := it.IntegerValue()
			if err != nil {
				return nil, 1
			}
			fs = append(fs, field{name, fval{kind: "i", i: v}})
		case models.Unsigned:
			v, err := it.UnsignedValue()
			if err != nil {
				return nil, 1
			}
			fs = append(fs, field{name, fval{kind: "u", u: v}})
		case models.String:
			fs = append(fs, field{name, fval{kind: "s", s: []byte(it.StringValue())}})
		case models.Boolean:
			v, err := it.BooleanValue()
			if err != nil {
				return nil, 1
			}
			fs = append(fs, field{name, fval{kind: "b", b: v}})
		}
	}
	return fs, 0
}

func sameFields(a, b []field) bool {
	if len(a) != len(b) {
		return false
	}
	for i := range a {
		if !bytes.Equal(a[i].name, b[i].name) || !a[i].v.eq(b[i].v) {
			return false
		}
	}
	return true
}

func basicObs(p models.Point) (o *pointObs) {
	o = &pointObs{}
	defer func() {
		if e := recover(); e != nil {
			o.panicked = true
		}
	}()
	o.key = append([]byte(nil), p.Key()...)
	o.fields, o.fstate = iterFields(p)
	o.nano = p.UnixNano()
	o.str = []byte(p.String())
	o.hash = p.HashID()
	return o
}

var defaultTime time.Time

// observePoint: accessors plus the round-trip checks of the property, all on the real code.
func observePoint(p models.Point) *pointObs {
	o := basicObs(p)
	if o.panicked {
		return o
	}
	func() {
		defer func() {
			if e := recover(); e != nil {
				o.reparse = false
			}
		}()
		// text round trip: String() is in nanoseconds
		ok := bytes.Equal(p.AppendString(nil), o.str) && p.StringSize() == len(o.str)
		pts, err := models.ParsePointsWithPrecision(append([]byte(nil), o.str...), defaultTime, "n")
		if err != nil || len(pts) != 1 {
			ok = false
		} else {
			q := basicObs(pts[0])
			ok = ok && !q.panicked && bytes.Equal(q.key, o.key) && q.fstate == o.fstate && sameFields(q.fields, o.fields) &&
				q.nano == o.nano && bytes.Equal(q.str, o.str) && q.hash == o.hash
		}
		o.reparse = ok
	}()
	func() {
		defer func() {
			if e := recover(); e != nil {
				o.binrt = false
			}
		}()
		b, err := p.MarshalBinary()
		if err != nil {
			return
		}
		o.bin = b
		q, err := models.NewPointFromBytes(append([]byte(nil), b...))
		if err != nil {
			return
		}
		qo := basicObs(q)
		b2, err := q.MarshalBinary()
		ok := err == nil && bytes.Equal(b, b2) && !qo.panicked && bytes.Equal(qo.key, o.key) && qo.fstate == o.fstate &&
			sameFields(qo.fields, o.fields) && qo.nano == o.nano && bytes.Equal(qo.str, o.str) && qo.hash == o.hash
		// hinted-handoff framing of the same point
		w := hh.VerifMarshalWrite(7, []models.Point{p, p})
		sh, pbs, err := hh.VerifUnmarshalWrite(w)
		ok = ok && err == nil && sh == 7 && len(pbs) == 2 && bytes.Equal(pbs[0], b) && bytes.Equal(pbs[1], b)
		o.binrt = ok
	}()
	return o
}

type parseObs struct {
	panicked bool
	pts      []*pointObs
	hadErr   bool
}

func (o *parseObs) coq() string {
	if o.panicked {
		return "PPanic"
	}
	items := make([]string, len(o.pts))
	for i, p := range o.pts {
		items[i] = p.coq()
	}
	return fmt.Sprintf("(POk %s %s)", hx.CoqList(items), hx.CoqBool(o.hadErr))
}

func (o *parseObs) json() interface{} {
	if o.panicked {
		return "panic"
	}
	ps := []interface{}{}
	for _, p := range o.pts {
		ps = append(ps, p.json())
	}
	return map[string]interface{}{"points": ps, "had_err": o.hadErr}
}

func runParse(buf []byte, prec string) (o *parseObs) {
	o = &parseObs{}
	defer func() {
		if e := recover(); e != nil {
			o.panicked = true
		}
	}()
	pts, err := models.ParsePointsWithPrecision(append([]byte(nil), buf...), defaultTime, prec)
	o.hadErr = err != nil
	for _, p := range pts {
		po := observePoint(p)
		if po.panicked {
			o.panicked = true
			return o
		}
		o.pts = append(o.pts, po)
	}
	return o
}

// float oracle: every token of buf that the scanner or the iterator could hand to ParseFloat
func addFloatTokens(tbl map[string]*uint64, buf []byte) {
	add := func(tok []byte) {
		if len(tok) == 0 || len(tok) > 90 {
			return
		}
		if _, ok := tbl[string(tok)]; ok {
			return
		}
		v, err := strconv.ParseFloat(string(tok), 64)
		if err != nil {
			tbl[string(tok)] = nil
		} else {
			b := math.Float64bits(v)
			tbl[string(tok)] = &b
		}
	}
	for j := 1; j <= len(buf); j++ {
		if buf[j-1] != '=' {
			continue
		}
		n1, n2 := 0, 0
		for k := j; k <= len(buf); k++ {
			if k == len(buf) || buf[k] == ',' {
				if n1 < 3 {
					add(buf[j:k])
				}
				n1++
			}
			if k == len(buf) || buf[k] == ',' || buf[k] == ' ' || buf[k] == '\n' {
				if n2 < 4 {
					add(buf[j:k])
				}
				n2++
			}
			if n1 >= 3 && n2 >= 4 {
				break
			}
		}
	}
}

// binFields: the fields region of a binary point (independent of the code under test)
func binFields(b []byte) []byte {
	if len(b) < 4 {
		return nil
	}
	n := int(binary.BigEndian.Uint32(b))
	b = b[4:]
	if len(b) < n+4 {
		return nil
	}
	b = b[n:]
	n = int(binary.BigEndian.Uint32(b))
	b = b[4:]
	if len(b) < n {
		return nil
	}
	return b[:n]
}

func joinLines(ls [][]byte) []byte {
	return bytes.Join(ls, []byte{'\n'})
}

func apCoq(a *apDesc) string {
	if a == nil {
		return "None"
	}
	tags := make([]string, len(a.Tags))
	for i, t := range a.Tags {
		tags[i] = fmt.Sprintf("(%s, %s)", cb(t[0]), cb(t[1]))
	}
	fs := make([]string, len(a.Fields))
	for i, f := range a.Fields {
		v := fval{kind: f.Kind, i: f.Int, u: f.Uint, bits: f.Bits, b: f.Bool, s: f.Str}
		fs[i] = fmt.Sprintf("(%s, %s)", cb(f.Name), v.coq())
	}
	t := "None"
	if a.Time != nil {
		t = "(Some " + hx.CoqZ(*a.Time) + ")"
	}
	return fmt.Sprintf("(Some (mk_apoint %s %s %s %s))", cb(a.Meas), hx.CoqList(tags), hx.CoqList(fs), t)
}

func runParseCase(o *hx.Out, d parseDesc, origin string) {
	o.Begin("parse", d)
	models.VerifSetUintSupport(d.Uint)
	defaultTime = time.Unix(0, d.Default).UTC()
	tbl := map[string]*uint64{}
	whole := joinLines(d.Lines)
	addFloatTokens(tbl, whole)
	wo := runParse(whole, d.Prec)
	per := make([]string, len(d.Lines))
	perJ := make([]interface{}, len(d.Lines))
	permOK := true
	naccept := 0
	for i, l := range d.Lines {
		addFloatTokens(tbl, l)
		lo := runParse(l, d.Prec)
		per[i] = lo.coq()
		perJ[i] = lo.json()
		if !lo.panicked && len(lo.pts) > 0 {
			naccept++
		}
		if i < len(d.Alts) && d.Alts[i] != nil {
			ao := runParse(d.Alts[i], d.Prec)
			bothRejected := !lo.panicked && !ao.panicked && len(lo.pts) == 0 && len(ao.pts) == 0 && lo.hadErr && ao.hadErr
			if !bothRejected && (lo.panicked || ao.panicked || len(lo.pts) != 1 || len(ao.pts) != 1 ||
				!bytes.Equal(lo.pts[0].key, ao.pts[0].key) || lo.pts[0].hash != ao.pts[0].hash) {
				permOK = false
			}
		}
	}
	for _, p := range wo.pts {
		if p.fstate == 0 {
			// binary/text forms of accepted points are decoded again by the model
			addFloatTokens(tbl, p.str)
		}
	}
	aps := make([]string, len(d.Lines))
	nstruct := 0
	for i := range d.Lines {
		var a *apDesc
		if i < len(d.APs) {
			a = d.APs[i]
		}
		if a != nil {
			nstruct++
		}
		aps[i] = apCoq(a)
	}
	lines := make([]string, len(d.Lines))
	for i, l := range d.Lines {
		lines[i] = cb(l)
	}
	coq := fmt.Sprintf("CParse %s %s %s %s %s %s %s %s %s", hx.CoqList(lines), hx.CoqList(aps), hx.CoqZ(d.Default),
		cbs(d.Prec), hx.CoqBool(d.Uint), coqFloatTable(tbl), wo.coq(), hx.CoqList(per), hx.CoqBool(permOK))
	o.Count(fmt.Sprintf("parse:lines=%d", min(len(d.Lines), 6)))
	o.Count("parse:prec=" + d.Prec)
	o.Count(fmt.Sprintf("parse:structured_lines=%d", min(nstruct, 6)))
	switch {
	case wo.panicked:
		o.Count("parse:result=panic")
	case len(wo.pts) > 0 && wo.hadErr:
		o.Count("parse:result=some_accepted_some_rejected")
	case len(wo.pts) > 0:
		o.Count("parse:result=all_accepted")
	case wo.hadErr:
		o.Count("parse:result=all_rejected")
	default:
		o.Count("parse:result=empty")
	}
	h := fmt.Sprintf("%x|%s|%d|%v", whole, d.Prec, d.Default, d.Uint)
	o.Emit(hx.Case{Kind: "parse", Coq: coq, Desc: d, Obs: map[string]interface{}{"whole": wo.json(), "per_line": perJ, "perm_ok": permOK},
		Nontrivial: naccept > 0 || len(wo.pts) > 0, Sig: "p:" + h, Origin: origin})
}

func runBinCase(o *hx.Out, d binDesc, origin string) {
	o.Begin("bin", d)
	tbl := map[string]*uint64{}
	addFloatTokens(tbl, binFields(d.B))
	obs := "BErr"
	cls := "err"
	var pj interface{}
	func() {
		defer func() {
			if e := recover(); e != nil {
				obs, cls = "BPanic", "panic"
			}
		}()
		p, err := models.NewPointFromBytes(append([]byte(nil), d.B...))
		if err != nil {
			return
		}
		po := basicObs(p)
		if po.panicked || po.fstate == 2 {
			obs, cls = "BPanic", "panic"
			return
		}
		po.reparse, po.binrt = true, true
		obs, cls = "(BOk "+po.coq()+")", "ok"
		pj = po.json()
	}()
	o.Count("bin:" + cls)
	coq := fmt.Sprintf("CBin %s %s %s", cb(d.B), coqFloatTable(tbl), obs)
	o.Emit(hx.Case{Kind: "bin", Coq: coq, Desc: d, Obs: map[string]interface{}{"class": cls, "point": pj},
		Nontrivial: len(d.B) >= 8, Sig: fmt.Sprintf("b:%x", d.B), Origin: origin})
}

func runHHCase(o *hx.Out, d hhDesc, origin string) {
	o.Begin("hh", d)
	obs := "HShort"
	cls := "short"
	func() {
		defer func() {
			if e := recover(); e != nil {
				obs, cls = "HPanic", "panic"
			}
		}()
		sh, pts, err := hh.VerifUnmarshalWrite(append([]byte(nil), d.B...))
		if err != nil && len(d.B) < 8 {
			return
		}
		items := make([]string, len(pts))
		for i, p := range pts {
			items[i] = cb(p)
		}
		obs = fmt.Sprintf("(HOk %d %s %s)", sh, hx.CoqList(items), hx.CoqBool(err == nil))
		cls = "complete"
		if err != nil {
			cls = "truncated"
		}
	}()
	o.Count("hh:" + cls)
	o.Emit(hx.Case{Kind: "hh", Coq: fmt.Sprintf("CHH %s %s", cb(d.B), obs), Desc: d, Obs: map[string]interface{}{"class": cls},
		Nontrivial: len(d.B) > 8, Sig: fmt.Sprintf("h:%x", d.B), Origin: origin})
}

var store *tsdb.Store

func runWsrCase(o *hx.Out, d wsrDesc, origin string) {
	o.Begin("wsr", d)
	tbl := map[string]*uint64{}
	for _, p := range d.Points {
		addFloatTokens(tbl, binFields(p))
	}
	count, hasNil, panicked := 0, false, false
	func() {
		defer func() {
			if e := recover(); e != nil {
				panicked = true
			}
		}()
		var req coordinator.WriteShardRequest
		req.SetShardID(1)
		req.SetBinaryPoints(d.Points)
		buf, err := req.MarshalBinary()
		if err != nil {
			panic(err)
		}
		var got coordinator.WriteShardRequest
		if err := got.UnmarshalBinary(buf); err != nil {
			panic(err)
		}
		pts := got.Points()
		count = len(pts)
		for _, p := range pts {
			if p == nil {
				hasNil = true
			}
		}
		// what processWriteShardRequest does next; a write error (field type conflict...) is fine
		store.WriteToShard(1, pts)
	}()
	items := make([]string, len(d.Points))
	for i, p := range d.Points {
		items[i] = cb(p)
	}
	o.Count(fmt.Sprintf("wsr:points=%d,decoded=%d", len(d.Points), count))
	coq := fmt.Sprintf("CWsr %s %s %d %s %s", hx.CoqList(items), coqFloatTable(tbl), count, hx.CoqBool(hasNil), hx.CoqBool(panicked))
	o.Emit(hx.Case{Kind: "wsr", Coq: coq, Desc: d, Obs: map[string]interface{}{"count": count, "has_nil": hasNil, "panicked": panicked},
		Nontrivial: len(d.Points) > 0, Sig: fmt.Sprintf("w:%x", bytes.Join(d.Points, []byte{0xff, 0})), Origin: origin})
}

var escNames = []string{"EscapeMeasurement", "unescapeMeasurement", "escapeTag", "unescapeTag", "escape.Bytes",
	"escape.Unescape", "escape.IsEscaped", "escape.AppendUnescaped", "EscapeStringField", "unescapeStringField"}

func runEscCase(o *hx.Out, d escDesc, origin string) {
	o.Begin("esc", d)
	in := func() []byte { return append([]byte(nil), d.In...) }
	var out []byte
	rt := true
	panicked := false
	func() {
		defer func() {
			if e := recover(); e != nil {
				panicked = true
			}
		}()
		switch d.Which {
		case 0:
			out = models.EscapeMeasurement(in())
			rt = bytes.Equal(models.VerifUnescapeMeasurement(append([]byte(nil), out...)), d.In)
		case 1:
			out = models.VerifUnescapeMeasurement(in())
		case 2:
			out = models.VerifEscapeTag(in())
			rt = bytes.Equal(models.VerifUnescapeTag(append([]byte(nil), out...)), d.In)
		case 3:
			out = models.VerifUnescapeTag(in())
		case 4:
			out = escape.Bytes(in())
			rt = bytes.Equal(escape.Unescape(append([]byte(nil), out...)), d.In) || len(d.In) == 0
			rt = rt && bytes.Equal(escape.AppendUnescaped(nil, out), d.In) && string(out) == escape.String(string(d.In))
		case 5:
			out = escape.Unescape(in())
		case 6:
			out = []byte{0}
			if escape.IsEscaped(in()) {
				out = []byte{1}
			}
		case 7:
			out = escape.AppendUnescaped(nil, in())
		case 8:
			out = []byte(models.EscapeStringField(string(d.In)))
			rt = models.VerifUnescapeStringField(string(out)) == string(d.In)
		case 9:
			out = []byte(models.VerifUnescapeStringField(string(d.In)))
		}
	}()
	if panicked {
		rt = false
	}
	o.Count("esc:" + escNames[d.Which])
	coq := fmt.Sprintf("CEsc %d %s %s %s", d.Which, cb(d.In), cb(out), hx.CoqBool(rt))
	o.Emit(hx.Case{Kind: "esc", Coq: coq, Desc: d, Obs: map[string]interface{}{"out": string(out), "roundtrip_ok": rt, "panicked": panicked},
		Nontrivial: len(d.In) > 0, Sig: fmt.Sprintf("e:%d:%x", d.Which, d.In), Origin: origin})
}

// ---------------------------------------------------------------- generators

var nameAlpha = []byte("abcxyz019_-.:/ ,=\"\\\\  ,,==\t#\x00\x80\xc3\xa9\xff'+")
var strAlpha = []byte("abc 019,=\"\"\\\\\n\t#\x00\x80\xff x y")
var malAlpha = []byte("ab\\ ,=\"\n1-.eiut\tTF#\x00x+E9Nn\\\\,,==  \"\"\r\x80")

func genName(r *hx.Rand, kind int) []byte {
	// kind 0 measurement, 1 tag key/value, 2 field name
	for {
		n := 1 + r.Intn(1+r.Intn(8))
		b := make([]byte, n)
		for i := range b {
			if r.Chance(70) {
				b[i] = "abcdefghmtv012"[r.Intn(14)]
			} else {
				b[i] = nameAlpha[r.Intn(len(nameAlpha))]
			}
		}
		if b[n-1] == '\\' || bytes.IndexByte(b, '\n') >= 0 {
			continue
		}
		if kind != 1 && (b[0] == '\t' || b[0] == 0) {
			continue // leading whitespace of the line / field set is skipped by the scanner
		}
		if kind == 0 && b[0] == '#' {
			continue
		}
		return b
	}
}

func specEscape(b []byte, set string) []byte {
	var out []byte
	for _, c := range b {
		if strings.IndexByte(set, c) >= 0 {
			out = append(out, '\\')
		}
		out = append(out, c)
	}
	return out
}

var specialInts = []int64{0, 1, -1, 9, 10, 42, -42, math.MaxInt64, math.MinInt64, math.MaxInt64 - 1, math.MinInt64 + 1,
	999999999999999999, 1000000000000000000, -1000000000000000000, 1 << 53, 1 << 31, -(1 << 31)}
var floatForms = []string{"0", "1", "-1", "1.", ".5", "-.5", "1.5", "-0", "-0.0", "1e5", "1E5", "1e+5", "1e-5", "1.5e300", "-2.5E-300",
	"4.9e-324", "1.7976931348623157e308", "0.1", "0.30000000000000004", "123456789012345678901234567890", "0.000000000000000000000000001",
	"-123456789012345678901234.5", "1e0", "100", "3.14159", "2.2250738585072014e-308", "9007199254740993", "1e22", "1e23"}
var boolForms = []string{"t", "T", "true", "True", "TRUE", "f", "F", "false", "False", "FALSE"}

func genField(r *hx.Rand, uintOK bool) (fieldDesc, []byte) {
	name := genName(r, 2)
	f := fieldDesc{Name: name}
	var txt []byte
	switch k := r.Intn(10); {
	case k < 3:
		f.Kind = "i"
		if r.Chance(50) {
			f.Int = specialInts[r.Intn(len(specialInts))]
		} else {
			f.Int = int64(r.U64()) >> uint(r.Intn(64))
		}
		txt = append(strconv.AppendInt(nil, f.Int, 10), 'i')
	case k < 4 && uintOK:
		f.Kind = "u"
		if r.Chance(40) {
			f.Uint = []uint64{0, 1, math.MaxUint64, math.MaxUint64 - 1, 1 << 63, 10000000000000000000}[r.Intn(6)]
		} else {
			f.Uint = r.U64() >> uint(r.Intn(64))
		}
		txt = append(strconv.AppendUint(nil, f.Uint, 10), 'u')
	case k < 6:
		f.Kind = "f"
		var s string
		if r.Chance(60) {
			s = floatForms[r.Intn(len(floatForms))]
		} else {
			v := math.Float64frombits(r.U64())
			for math.IsNaN(v) || math.IsInf(v, 0) {
				v = math.Float64frombits(r.U64())
			}
			if r.Bool() {
				s = strconv.FormatFloat(v, 'f', -1, 64)
				if len(s) > 60 {
					s = strconv.FormatFloat(v, 'e', -1, 64)
				}
			} else {
				s = strconv.FormatFloat(v, 'e', -1, 64)
			}
		}
		v, err := strconv.ParseFloat(s, 64)
		if err != nil {
			panic("generator: bad float form " + s)
		}
		f.Bits = math.Float64bits(v)
		txt = []byte(s)
	case k < 8:
		f.Kind = "b"
		s := boolForms[r.Intn(len(boolForms))]
		f.Bool = s[0] == 't' || s[0] == 'T'
		txt = []byte(s)
	default:
		f.Kind = "s"
		n := r.Intn(1 + r.Intn(10))
		f.Str = make([]byte, n)
		for i := range f.Str {
			if r.Chance(60) {
				f.Str[i] = "abc xyz"[r.Intn(7)]
			} else {
				f.Str[i] = strAlpha[r.Intn(len(strAlpha))]
			}
		}
		txt = append(append([]byte{'"'}, []byte(models.EscapeStringField(string(f.Str)))...), '"')
	}
	return f, append(append(specEscape(name, ",\" ="), '='), txt...)
}

var precs = []string{"n", "u", "ms", "s", "m", "h", "", "ns"}
var precMult = map[string]int64{"u": 1e3, "ms": 1e6, "s": 1e9, "m": 60e9, "h": 3600e9}

func ws(r *hx.Rand, atLeastOneSpace bool) []byte {
	var b []byte
	if atLeastOneSpace {
		b = append(b, ' ')
	}
	for r.Chance(15) {
		b = append(b, " \t\x00 "[r.Intn(4)])
	}
	return b
}

// genStructured returns a valid line, its abstract point and a re-rendering with the tags in
// another order.
func genStructured(r *hx.Rand, prec string, uintOK bool) ([]byte, *apDesc, []byte) {
	ap := &apDesc{Meas: genName(r, 0)}
	ntags := r.Intn(1 + r.Intn(6))
	seen := map[string]bool{}
	for i := 0; i < ntags; i++ {
		k := genName(r, 1)
		if seen[string(k)] {
			continue
		}
		seen[string(k)] = true
		ap.Tags = append(ap.Tags, [2][]byte{k, genName(r, 1)})
	}
	if ap.Tags == nil {
		ap.Tags = [][2][]byte{}
	}
	nf := 1 + r.Intn(1+r.Intn(4))
	var ftxt [][]byte
	for i := 0; i < nf; i++ {
		f, t := genField(r, uintOK)
		ap.Fields = append(ap.Fields, f)
		ftxt = append(ftxt, t)
	}
	mult := int64(1)
	if m, ok := precMult[prec]; ok {
		mult = m
	}
	var tstxt []byte
	if r.Chance(80) {
		lim := (int64(math.MaxInt64) - 1) / mult
		var t int64
		switch r.Intn(7) {
		case 0:
			t = []int64{0, 1, -1, lim, -lim, lim - 1, 1600000000}[r.Intn(7)]
			if t > lim {
				t = lim
			}
		case 6:
			// at an edge of the representable range or of a 2^64 wrap; may be out of range, in
			// which case the line must be rejected
			if b, ok := boundaryInt64(r, prec); ok {
				t = b
			}
		case 1:
			t = int64(r.U64()>>1) % (lim + 1)
			if r.Bool() {
				t = -t
			}
		default:
			t = (1600000000000000000 + int64(r.Intn(1000000000))) / mult
		}
		ap.Time = &t
		tstxt = strconv.AppendInt(nil, t, 10)
	}
	render := func(order []int) []byte {
		var b []byte
		b = append(b, specEscape(ap.Meas, ", ")...)
		for _, j := range order {
			b = append(b, ',')
			b = append(b, specEscape(ap.Tags[j][0], ", =")...)
			b = append(b, '=')
			b = append(b, specEscape(ap.Tags[j][1], ", =")...)
		}
		return b
	}
	order := make([]int, len(ap.Tags))
	for i := range order {
		order[i] = i
	}
	shuffle := func() {
		for i := len(order) - 1; i > 0; i-- {
			j := r.Intn(i + 1)
			order[i], order[j] = order[j], order[i]
		}
	}
	if r.Chance(50) {
		// sorted by escaped key (the fast path of scanKey)
		sort.Slice(order, func(a, b int) bool {
			return bytes.Compare(specEscape(ap.Tags[order[a]][0], ", ="), specEscape(ap.Tags[order[b]][0], ", =")) < 0
		})
	} else {
		shuffle()
	}
	key1 := render(order)
	shuffle()
	key2 := render(order)
	lead := []byte{}
	if r.Chance(10) {
		lead = ws(r, false)
	}
	tail := append([]byte{}, ws(r, true)...)
	tail = append(tail, bytes.Join(ftxt, []byte{','})...)
	if tstxt != nil {
		tail = append(tail, ws(r, true)...)
		tail = append(tail, tstxt...)
	}
	if r.Chance(10) {
		tail = append(tail, "   "[:1+r.Intn(3)]...)
	}
	line := append(append(append([]byte{}, lead...), key1...), tail...)
	alt := append(append([]byte{}, key2...), tail...)
	return line, ap, alt
}

func mutate(r *hx.Rand, b []byte) []byte {
	b = append([]byte(nil), b...)
	k := 1 + r.Intn(3)
	for j := 0; j < k; j++ {
		if len(b) == 0 {
			b = append(b, malAlpha[r.Intn(len(malAlpha))])
			continue
		}
		p := r.Intn(len(b))
		switch r.Intn(4) {
		case 0:
			b[p] = malAlpha[r.Intn(len(malAlpha))]
		case 1:
			b = append(b[:p], b[p+1:]...)
		case 2:
			b = append(b[:p], append([]byte{malAlpha[r.Intn(len(malAlpha))]}, b[p:]...)...)
		default:
			b = b[:p] // truncate
		}
	}
	return b
}

var malSeeds = []string{
	"cpu,host=a,region=b value=1i,s=\"x\\\"y\",t=true,f=1.5e3 123",
	"m,b=2,a=1 f=-1.0,g=f 1",
	"a\\ b,t\\=1=v\\,2 x\\ y=\"q\" 5",
	"m f=\"a\\\\\",g=\"b\\\"\" 1",
	"m,a\\,=b\\ ,c\\==d f\\ =1e-5,g\\,=-2i,h\\\"=T -5",
	"m f=\"a\nb\" 1",
	"m f=18446744073709551615u,g=9223372036854775807i 9223372036854775806",
	"# comment",
	"m,t=v f=1",
}

func genMalformed(r *hx.Rand) []byte {
	switch r.Intn(6) {
	case 0:
		n := r.Intn(30)
		b := make([]byte, n)
		for i := range b {
			b[i] = malAlpha[r.Intn(len(malAlpha))]
		}
		return b
	case 1:
		return r.Bytes(r.Intn(40)) // raw bytes, mostly not UTF-8
	default:
		return mutate(r, []byte(malSeeds[r.Intn(len(malSeeds))]))
	}
}

func genDefault(r *hx.Rand) int64 {
	switch r.Intn(4) {
	case 0:
		return []int64{1, 999, 1000, 3599999999999, 3600000000000, 1234567890123456789, -1, -3600000000001, -1234567890123456789}[r.Intn(9)]
	case 1:
		return int64(r.U64() >> 2)
	default:
		return 1600000000000000000 + int64(r.Intn(2000000000))*int64(1+r.Intn(5000))
	}
}

func genParse(r *hx.Rand) parseDesc {
	d := parseDesc{Default: genDefault(r), Prec: precs[r.Intn(len(precs))], Uint: r.Chance(30)}
	n := 1
	if r.Chance(45) {
		n = 2 + r.Intn(4)
	}
	for i := 0; i < n; i++ {
		switch k := r.Intn(10); {
		case k < 6:
			l, ap, alt := genStructured(r, d.Prec, d.Uint)
			d.Lines, d.APs, d.Alts = append(d.Lines, l), append(d.APs, ap), append(d.Alts, alt)
		case k < 7:
			// a structured line damaged afterwards
			l, _, _ := genStructured(r, d.Prec, d.Uint)
			d.Lines, d.APs, d.Alts = append(d.Lines, mutate(r, l)), append(d.APs, nil), append(d.Alts, nil)
		case k < 8 && n > 1:
			// blank line, comment, whitespace
			l := [][]byte{{}, []byte("# c"), []byte("  \t"), []byte(" #x y=1")}[r.Intn(4)]
			d.Lines, d.APs, d.Alts = append(d.Lines, l), append(d.APs, nil), append(d.Alts, nil)
		default:
			d.Lines, d.APs, d.Alts = append(d.Lines, genMalformed(r)), append(d.APs, nil), append(d.Alts, nil)
		}
	}
	return d
}

func validBin(r *hx.Rand) []byte {
	for {
		l, _, _ := genStructured(r, "n", false)
		pts, err := models.ParsePointsWithPrecision(l, time.Unix(0, 1600000000000000000).UTC(), "n")
		if err != nil || len(pts) != 1 {
			continue
		}
		b, err := pts[0].MarshalBinary()
		if err != nil {
			continue
		}
		return b
	}
}

func mkBin(key, fields string, tb []byte) []byte {
	b := make([]byte, 4)
	binary.BigEndian.PutUint32(b, uint32(len(key)))
	b = append(b, key...)
	var n [4]byte
	binary.BigEndian.PutUint32(n[:], uint32(len(fields)))
	b = append(b, n[:]...)
	b = append(b, fields...)
	return append(b, tb...)
}

func timeBytes(r *hx.Rand) []byte {
	tb := make([]byte, 15)
	tb[0] = 1
	switch r.Intn(6) {
	case 0: // zero time
		tb[13], tb[14] = 0xff, 0xff
	case 1: // arbitrary words
		copy(tb[1:], r.Bytes(14))
	case 2: // version 2
		tb = append(tb, byte(r.U64()))
		tb[0] = 2
		binary.BigEndian.PutUint64(tb[1:], uint64(62135596800+1600000000+int64(r.Intn(1000))))
		binary.BigEndian.PutUint32(tb[9:], uint32(r.Intn(1000000000)))
		tb[13], tb[14] = byte(r.U64()), byte(r.U64())
	case 3: // negative nsec
		binary.BigEndian.PutUint64(tb[1:], uint64(62135596800+1600000000))
		binary.BigEndian.PutUint32(tb[9:], uint32(0x80000000+r.Intn(1<<31)))
		tb[13], tb[14] = 0xff, 0xff
	default:
		binary.BigEndian.PutUint64(tb[1:], uint64(62135596800+1600000000+int64(r.Intn(100000))))
		binary.BigEndian.PutUint32(tb[9:], uint32(r.Intn(1000000000)))
		tb[13], tb[14] = 0xff, 0xff
		if r.Chance(20) {
			tb[13], tb[14] = 0, byte(r.Intn(3))
		}
	}
	return tb
}

var binFieldSets = []string{`a="`, `a`, `a=`, `=`, `a="x`, `a=1,`, `a=1,b`, `a=i`, `a=u`, `a=-`, `a=t,`, ",", "a=\"\\", `a="\"`, `a=1i`,
	`a=nan`, `a=inf`, `a=Inf`, `a=-inf`, `a=NaN`, `a=1u`, `a=1e400`, `a=0x10`, `a=1_0`, `a= 1`, `a=T`, `a=1`, `a=0`, `a=TRUE`, `a=tRUE`,
	`a\=b=1`, `a\,b=1,c\ d="x"`, `=1,b=2`, `a=1,=2`, `a="x",b=`, `a==`, `a="x"y`, "a=\"\n\"", `a=9223372036854775808i`, `a=-9223372036854775808i`,
	`a=18446744073709551616u`, `a=1.5,b=2i,c="s",d=t,e=5u`, `\`, `a\`, `a=\`, `a="\`, "", `a="",b=""`}

func genBin(r *hx.Rand) []byte {
	switch r.Intn(8) {
	case 0:
		return validBin(r)
	case 1:
		b := validBin(r)
		return b[:r.Intn(len(b)+1)]
	case 2:
		b := validBin(r)
		k := 1 + r.Intn(3)
		for j := 0; j < k; j++ {
			b[r.Intn(len(b))] = byte(r.U64())
		}
		return b
	case 3:
		return r.Bytes(r.Intn(40))
	case 4:
		// length prefixes at the limits
		b := validBin(r)
		binary.BigEndian.PutUint32(b, []uint32{0, 1, uint32(len(b)), uint32(len(b)) - 4, 0x7fffffff, 0x80000000, 0xffffffff}[r.Intn(7)])
		return b
	default:
		fs := binFieldSets[r.Intn(len(binFieldSets))]
		if r.Chance(25) {
			fs = string(mutate(r, []byte(fs)))
		}
		return mkBin([]string{"cpu", "cpu,host=a", "", "m\\ x,t=\\,"}[r.Intn(4)], fs, timeBytes(r))
	}
}

func genHH(r *hx.Rand) []byte {
	var b []byte
	var hdr [8]byte
	binary.BigEndian.PutUint64(hdr[:], r.U64()>>uint(r.Intn(64)))
	b = append(b, hdr[:]...)
	n := r.Intn(4)
	for i := 0; i < n; i++ {
		pb := r.Bytes(r.Intn(12))
		if r.Chance(30) {
			pb = validBin(r)
		}
		var nb [4]byte
		binary.BigEndian.PutUint32(nb[:], uint32(len(pb)))
		if r.Chance(10) {
			binary.BigEndian.PutUint32(nb[:], []uint32{0, uint32(len(pb)) + 1, 0x7fffffff, 0x80000000, 0xffffffff}[r.Intn(5)])
		}
		b = append(b, nb[:]...)
		b = append(b, pb...)
	}
	switch r.Intn(10) {
	case 0:
		b = b[:r.Intn(len(b)+1)]
	case 1:
		b = append(b, r.Bytes(1+r.Intn(3))...)
	}
	return b
}

func genWsr(r *hx.Rand) wsrDesc {
	var d wsrDesc
	n := r.Intn(5)
	for i := 0; i < n; i++ {
		if r.Chance(55) {
			d.Points = append(d.Points, validBin(r))
		} else {
			d.Points = append(d.Points, genBin(r))
		}
	}
	if d.Points == nil {
		d.Points = [][]byte{}
	}
	return d
}

func genEsc(r *hx.Rand) escDesc {
	n := r.Intn(1 + r.Intn(12))
	b := make([]byte, n)
	alpha := []byte("ab ,=\"\\\\\\,, ==\"\x00\xff")
	for i := range b {
		b[i] = alpha[r.Intn(len(alpha))]
	}
	return escDesc{Which: r.Intn(10), In: b}
}

// ---------------------------------------------------------------- designed cases

func pd(prec string, uintOn bool, lines ...string) parseDesc {
	d := parseDesc{Default: 1600000000123456789, Prec: prec, Uint: uintOn}
	for _, l := range lines {
		d.Lines = append(d.Lines, []byte(l))
		d.APs = append(d.APs, nil)
		d.Alts = append(d.Alts, nil)
	}
	return d
}

func designed(o *hx.Out) {
	for _, d := range []parseDesc{
		// witnesses of the repaired defects
		pd("n", false, "m \t=1"), pd("n", false, "a \t=\"q\" 5"), pd("n", false, "m \x00=-1.0,g=f 1"),
		pd("n", false, "m f=\"q\"\\"), pd("n", false, "m f=\"x\"y 1"), pd("n", false, "m f=\"a\"\"b\" 1"),
		pd("n", false, "m f\\\\=\"a \\\",g=b\\\"\" 1"),
		pd("n", false, "cpu v1i,s=\"x\\\"y=\" ,t=true,f=1.5e3 123\""), pd("n", false, "F nNE,at+=\"=\",,\x00,i =\" 9"),
		pd("n", false, "a b=1\\", "c d=2"), pd("n", false, "a,t=x\\", "c d=2"), pd("n", false, " f= \"a", "\\\"g=\"b\\\"\" 1"),
		pd("n", false, "m\\\\ x=\"a", "b\",t=1 f=1"),
		// forms
		pd("n", false, "cpu value=1"), pd("s", false, "cpu value=1 1"), pd("h", false, "cpu value=1 2562047"), pd("h", false, "cpu value=1 2562048"),
		pd("n", false, "cpu value=1 9223372036854775806"), pd("n", false, "cpu value=1 9223372036854775807"),
		pd("n", false, "cpu value=1 -9223372036854775806"), pd("n", false, "cpu value=1 -9223372036854775807"), pd("u", false, "cpu value=1 -9223372036854775806"),
		pd("n", false, "cpu value=9223372036854775807i"), pd("n", false, "cpu value=9223372036854775808i"), pd("n", false, "cpu value=-9223372036854775808i"),
		pd("n", false, "cpu value=-9223372036854775809i"), pd("n", true, "cpu value=18446744073709551615u"), pd("n", true, "cpu value=18446744073709551616u"),
		pd("n", false, "cpu value=1u"), pd("n", true, "cpu value=-1u"), pd("n", false, "cpu value=1e400"), pd("n", false, "cpu value=1e-400"),
		pd("n", false, "cpu value=NaN"), pd("n", false, "cpu value=nan"), pd("n", false, "cpu value=-"), pd("n", false, "cpu value=."), pd("n", false, "cpu value=-."),
		pd("n", false, "cpu value=1.1.1"), pd("n", false, "cpu value=1e"), pd("n", false, "cpu value=e1"), pd("n", false, "cpu value=1i1"), pd("n", false, "cpu value=1ii"),
		pd("n", false, "cpu,b=1,a=2,b=3 v=1"), pd("n", false, "cpu,a=1,a=2 v=1"), pd("n", false, "cpu,c=1,b=2,a=3 v=1"), pd("n", false, "cpu,a=1 v=1", "cpu,a=1,b= v=1", "cpu, v=1", ",a=1 v=1"),
		pd("n", false, "cpu v=t", "cpu v=tr", "cpu v=TRUE", "cpu v=True", "cpu v=tRUE", "cpu v=FALSE", "cpu v=falsee"),
		pd("n", false, "cpu v=\"a\nb\" 1", "cpu v=2 2"), pd("n", false, "cpu v=\"a", "cpu v=2 2"), pd("ms", false, "", "# x", "   ", "cpu v=1 1", ""),
		pd("n", false, "cpu v=1 1 ", "cpu v=1 1 x", "cpu v=1  1", "cpu v=1 -", "cpu v=1 1-1", "cpu  v=1\t1"),
		pd("n", false, "cpu\\ x,a\\ b=c\\,d,e\\=f=g f\\ 1=1,f\\,2=2,f\\=3=3,f\\\"4=\"4\" 1"),
		pd("n", false, "cpu,a=\\ v=1", "cpu\\ v=1", "cpu,a\\=b v=1", "cpu,a=b\\ v=1 1"),
	} {
		runParseCase(o, d, "designed")
	}
	tb0 := []byte{1, 0, 0, 0, 14, 0x77, 0x92, 0x7e, 0x80, 0, 0, 3, 0xe8, 0xff, 0xff}
	for _, fs := range binFieldSets {
		runBinCase(o, binDesc{B: mkBin("cpu", fs, tb0)}, "designed")
	}
	for _, b := range [][]byte{{}, {0}, {0, 0, 0}, {0, 0, 0, 0}, {0, 0, 0, 1}, {0xff, 0xff, 0xff, 0xff}, {0, 0, 0, 0, 0, 0, 0, 0}, {0x80, 0, 0, 0, 1, 2, 3, 4},
		mkBin("cpu", "a=1", nil), mkBin("cpu", "a=1", []byte{1}), mkBin("cpu", "a=1", []byte{3, 0, 0, 0, 0, 0, 0, 0, 0, 0, 0, 0, 0, 0, 0}),
		mkBin("cpu", "a=1", make([]byte, 15)), mkBin("cpu", "a=1", append([]byte{2}, make([]byte, 15)...)), mkBin("cpu", "a=1", append([]byte{1}, make([]byte, 15)...))} {
		runBinCase(o, binDesc{B: b}, "designed")
	}
	for _, b := range [][]byte{{}, {1, 2, 3}, {0, 0, 0, 0, 0, 0, 0, 7}, {0, 0, 0, 0, 0, 0, 0, 7, 0}, {0, 0, 0, 0, 0, 0, 0, 7, 0, 0, 0, 0}, {0, 0, 0, 0, 0, 0, 0, 7, 0, 0, 0, 1},
		{0, 0, 0, 0, 0, 0, 0, 7, 0, 0, 0, 1, 9}, {0, 0, 0, 0, 0, 0, 0, 7, 0xff, 0xff, 0xff, 0xff, 9}, {0, 0, 0, 0, 0, 0, 0, 7, 0x80, 0, 0, 0, 9}} {
		runHHCase(o, hhDesc{B: b}, "designed")
	}
	runWsrCase(o, wsrDesc{Points: [][]byte{mkBin("cpu", "a=1", tb0), []byte("garbage"), mkBin("cpu", "a=2", tb0)}}, "designed")
	runWsrCase(o, wsrDesc{Points: [][]byte{mkBin("cpu", `a="`, tb0)}}, "designed")
	runWsrCase(o, wsrDesc{Points: [][]byte{{}}}, "designed")
	for w := 0; w < 10; w++ {
		for _, s := range []string{"", "a", ",", " ", "=", "\"", "\\", "\\,", "\\\\,", "a\\ b", "\\\\", ", =\"\\", "\\, \\ \\=\\\"", "a\\", "\\\\\\,"} {
			runEscCase(o, escDesc{Which: w, In: []byte(s)}, "designed")
		}
	}
}

func min(a, b int) int {
	if a < b {
		return a
	}
	return b
}

func main() {
	log.SetOutput(io.Discard) // coordinator logs undecodable points
	f := hx.ParseFlags()
	o := hx.NewOut(f.OutDir)
	defer o.Close()
	dir, err := os.MkdirTemp("", "h_c12")
	if err != nil {
		panic(err)
	}
	defer os.RemoveAll(dir)
	store = tsdb.NewStore(dir + "/data")
	store.EngineOptions.Config.WALDir = dir + "/wal"
	store.EngineOptions.Config.Dir = dir + "/data"
	if err := store.Open(); err != nil {
		panic(err)
	}
	defer store.Close()
	if err := store.CreateShard("db", "rp", 1, true); err != nil {
		panic(err)
	}

	if f.In != "" {
		for _, in := range hx.ReadInputs(f.In) {
			switch in.Kind {
			case "parse":
				var d parseDesc
				if err := json.Unmarshal(in.Desc, &d); err != nil {
					panic(err)
				}
				runParseCase(o, d, "replay")
			case "bin":
				var d binDesc
				json.Unmarshal(in.Desc, &d)
				runBinCase(o, d, "replay")
			case "hh":
				var d hhDesc
				json.Unmarshal(in.Desc, &d)
				runHHCase(o, d, "replay")
			case "wsr":
				var d wsrDesc
				json.Unmarshal(in.Desc, &d)
				runWsrCase(o, d, "replay")
			case "esc":
				var d escDesc
				json.Unmarshal(in.Desc, &d)
				runEscCase(o, d, "replay")
			case "time":
				var d timeDesc
				if err := json.Unmarshal(in.Desc, &d); err != nil {
					panic(err)
				}
				runTimeCase(o, d, "replay")
			case "hhw":
				var d hhwDesc
				if err := json.Unmarshal(in.Desc, &d); err != nil {
					panic(err)
				}
				runHHWCase(o, d, "replay")
			case "fprint":
				var d fprintDesc
				if err := json.Unmarshal(in.Desc, &d); err != nil {
					panic(err)
				}
				runFprintCase(o, d, "replay")
			}
		}
		return
	}
	designed(o)
	designedTime(o)
	designedHHW(o)
	designedFprint(o)
	r := hx.NewRand(f.Seed)
	for i := 0; i < f.N; i++ {
		switch k := i % 20; {
		case k < 10:
			runParseCase(o, genParse(r), "gen")
		case k < 12:
			runTimeCase(o, genTime(r), "gen")
		case k < 15:
			runBinCase(o, binDesc{B: genBin(r)}, "gen")
		case k < 16:
			runHHCase(o, hhDesc{B: genHH(r)}, "gen")
		case k < 17:
			if i%40 == 16 {
				runWsrCase(o, genWsr(r), "gen")
			} else {
				runBinCase(o, binDesc{B: genBin(r)}, "gen")
			}
		case k == 19 && i%40 == 39:
			runHHWCase(o, genHHW(r, f.Tier == "thorough"), "gen")
		case k == 18:
			runFprintCase(o, genFprint(r), "gen")
		default:
			runEscCase(o, genEsc(r), "gen")
		}
	}
}
