package main

// "fprint" cases: a point is BUILT from typed field values (models.NewPoint -> Fields.MarshalBinary
// -> appendField, escape.String, EscapeStringField, strconv.Append*), printed with String() and
// parsed again at precision n.  The model prints the same field set (Print.v) and the executable
// spec demands that the parsed point has the same field names, types and values/bits.

import (
	"bytes"
	"fmt"
	"math"
	"sort"
	"strconv"
	"time"

	"github.com/influxdata/influxdb/models"
	"verifharness/hx"
)

type fprintDesc struct {
	Fields []fieldDesc `json:"fields"`
	Nano   int64       `json:"nano"`
	Uint   bool        `json:"uint"`
}

func runFprintCase(o *hx.Out, d fprintDesc, origin string) {
	o.Begin("fprint", d)
	// sort.Strings order of the names, duplicates dropped (Fields is a map)
	fs := append([]fieldDesc(nil), d.Fields...)
	sort.SliceStable(fs, func(i, j int) bool { return string(fs[i].Name) < string(fs[j].Name) })
	uniq := fs[:0]
	for i, f := range fs {
		if i > 0 && bytes.Equal(f.Name, fs[i-1].Name) {
			continue
		}
		uniq = append(uniq, f)
	}
	fs = uniq
	if len(fs) == 0 {
		return // a point needs a field: NewPoint rejects the empty set, nothing to print
	}
	models.VerifSetUintSupport(d.Uint)
	defaultTime = time.Unix(0, 0).UTC()
	fields := models.Fields{}
	afs := make([]string, len(fs))
	ftexts := []string{}
	seenBits := map[uint64]bool{}
	for i, f := range fs {
		v := fval{kind: f.Kind, i: f.Int, u: f.Uint, bits: f.Bits, b: f.Bool, s: f.Str}
		afs[i] = fmt.Sprintf("(%s, %s)", cb(f.Name), v.coq())
		switch f.Kind {
		case "i":
			fields[string(f.Name)] = f.Int
		case "u":
			fields[string(f.Name)] = f.Uint
		case "f":
			fv := math.Float64frombits(f.Bits)
			fields[string(f.Name)] = fv
			if !seenBits[f.Bits] {
				seenBits[f.Bits] = true
				ftexts = append(ftexts, fmt.Sprintf("(%d%%N, %s)", f.Bits, cb(strconv.AppendFloat(nil, fv, 'f', -1, 64))))
			}
		case "b":
			fields[string(f.Name)] = f.Bool
		default:
			fields[string(f.Name)] = string(f.Str)
		}
		o.Count("fprint:kind=" + f.Kind)
	}
	made := false
	var str []byte
	func() {
		defer func() {
			if e := recover(); e != nil {
				made = false
			}
		}()
		p, err := models.NewPoint("m", nil, fields, time.Unix(0, d.Nano).UTC())
		if err != nil || p == nil {
			return
		}
		str = []byte(p.String())
		made = true
	}()
	tbl := map[string]*uint64{}
	addFloatTokens(tbl, str)
	po := runParse(append([]byte(nil), str...), "n")
	for _, p := range po.pts {
		if p.fstate == 0 {
			addFloatTokens(tbl, p.str)
		}
	}
	coq := fmt.Sprintf("CPrint %s %s %s %s %s %s %s %s", hx.CoqList(afs), hx.CoqZ(d.Nano), hx.CoqList(ftexts), hx.CoqBool(d.Uint),
		coqFloatTable(tbl), hx.CoqBool(made), cb(str), po.coq())
	o.Count(fmt.Sprintf("fprint:fields=%d", min(len(fs), 6)))
	o.Emit(hx.Case{Kind: "fprint", Coq: coq, Desc: d, Obs: map[string]interface{}{"made": made, "string": string(str), "parsed": po.json()},
		Nontrivial: made && len(fs) > 0, Sig: fmt.Sprintf("fp:%x|%d", str, d.Nano), Origin: origin})
}

var fprintFloats = []float64{0, math.Copysign(0, -1), 1, -1, 0.5, 1.5, 0.1, 0.30000000000000004, 1e5, 1e21, 1e22, 1e23, 123456789012345680000,
	-2.5e-7, 3.14159, 9007199254740993, 1e-5, -1e15, 1e40, -1e-40, 5e-324 * 1e290, 123456789.125, 1.7976931348623157e38}

// (the 'f' form of values beyond 1e+-40 runs to hundreds of digits; the float oracle table only holds tokens up to 90 bytes)

func genFprint(r *hx.Rand) fprintDesc {
	d := fprintDesc{Nano: []int64{0, 1, -1, 1600000000123456789, math.MaxInt64 - 1, math.MinInt64 + 2}[r.Intn(6)]}
	if r.Chance(50) {
		d.Nano = int64(r.U64()>>uint(1+r.Intn(63))) - int64(r.Intn(2))*1000
	}
	n := 1 + r.Intn(4)
	seen := map[string]bool{}
	for len(d.Fields) < n {
		name := genName(r, 2)
		if seen[string(name)] {
			continue
		}
		seen[string(name)] = true
		f := fieldDesc{Name: name}
		switch k := r.Intn(10); {
		case k < 2:
			f.Kind = "i"
			if r.Chance(50) {
				f.Int = specialInts[r.Intn(len(specialInts))]
			} else {
				f.Int = int64(r.U64()) >> uint(r.Intn(64))
			}
		case k < 4:
			f.Kind = "u"
			d.Uint = true
			if r.Chance(40) {
				f.Uint = []uint64{0, 1, math.MaxUint64, math.MaxUint64 - 1, 1 << 63, 10000000000000000000}[r.Intn(6)]
			} else {
				f.Uint = r.U64() >> uint(r.Intn(64))
			}
		case k < 6:
			f.Kind = "f"
			var v float64
			if r.Chance(60) {
				v = fprintFloats[r.Intn(len(fprintFloats))]
			} else {
				// moderate exponents: the 'f' form of extreme ones runs to hundreds of digits
				v = math.Float64frombits(r.U64())
				for math.IsNaN(v) || math.IsInf(v, 0) || math.Abs(v) > 1e40 || (v != 0 && math.Abs(v) < 1e-40) {
					v = math.Float64frombits(r.U64())
				}
			}
			f.Bits = math.Float64bits(v)
		case k < 7:
			f.Kind = "b"
			f.Bool = r.Bool()
		default:
			f.Kind = "s"
			m := r.Intn(1 + r.Intn(10))
			f.Str = make([]byte, m)
			for i := range f.Str {
				if r.Chance(50) {
					f.Str[i] = "abc xyz"[r.Intn(7)]
				} else {
					f.Str[i] = strAlpha[r.Intn(len(strAlpha))]
				}
			}
		}
		d.Fields = append(d.Fields, f)
	}
	if !d.Uint {
		d.Uint = r.Chance(30)
	}
	return d
}

func designedFprint(o *hx.Out) {
	fd := func(name string, kind string) fieldDesc { return fieldDesc{Name: []byte(name), Kind: kind} }
	mk := func(uintOn bool, fs ...fieldDesc) fprintDesc { return fprintDesc{Fields: fs, Nano: 1600000000123456789, Uint: uintOn} }
	i := func(name string, v int64) fieldDesc { f := fd(name, "i"); f.Int = v; return f }
	u := func(name string, v uint64) fieldDesc { f := fd(name, "u"); f.Uint = v; return f }
	fl := func(name string, v float64) fieldDesc { f := fd(name, "f"); f.Bits = math.Float64bits(v); return f }
	b := func(name string, v bool) fieldDesc { f := fd(name, "b"); f.Bool = v; return f }
	s := func(name string, v string) fieldDesc { f := fd(name, "s"); f.Str = []byte(v); return f }
	for _, d := range []fprintDesc{
		mk(false, i("v", 0)), mk(false, i("v", math.MinInt64), i("w", math.MaxInt64), i("x", -1)),
		mk(true, u("v", math.MaxUint64), u("w", 0)), mk(true, u("a", 1), i("b", 1), fl("c", 1), b("d", true), s("e", "1")),
		mk(false, fl("v", math.Copysign(0, -1)), fl("w", 1e21), fl("x", 0.1), fl("y", 1e-30), fl("z", 123456789012345680000)),
		mk(false, b("t", true), b("f", false)),
		mk(false, s("v", ""), s("w", `"`), s("x", `\`), s("y", `a\`), s("z", `\"\\`)),
		mk(false, s("v", "a,b=c d\ne")), mk(false, s("k", `x\"`)),
		mk(false, i("a,b", 1), i("a=b", 2), i("a b", 3), i(`a"b`, 4)),
		mk(false, i(`a\,b`, 1), i(`\a`, 2), i(`a\\=b`, 3), i(`,`, 4), i(`=`, 5), i(` `, 6), i(`"`, 7)),
		mk(false, i("\xff\x80", 1), s("\xc3\xa9", "\xff")),
	} {
		runFprintCase(o, d, "designed")
	}
}
