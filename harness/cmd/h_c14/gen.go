package main

import (
	"regexp"
	"sort"
	"strings"

	"verifharness/hx"
)

// ---------------------------------------------------------------- universe

var uMeas = []string{"cpu", "mem", "disk", "cp"}
var uKeys = []string{"host", "region", "dc"}
var uVals = []string{"a", "b", "ab", "x", "y", "ba"}
var uPats = []string{"a", "^a", "b$", ".*", "^$", "a|x", "^(a|b)$", "z", "^ab?$", ".+", "c"}

func genSeries(r *hx.Rand) Series {
	s := Series{M: uMeas[r.Intn(len(uMeas))]}
	if r.Chance(70) {
		s.M = uMeas[r.Intn(2)] // concentrate on two measurements
	}
	for _, k := range uKeys {
		if r.Chance(55) {
			vals := uVals
			if r.Chance(60) {
				vals = uVals[:3]
			}
			s.Tags = append(s.Tags, [2]string{k, vals[r.Intn(len(vals))]})
		}
	}
	sort.Slice(s.Tags, func(i, j int) bool { return s.Tags[i][0] < s.Tags[j][0] })
	if s.Tags == nil {
		s.Tags = [][2]string{}
	}
	return s
}

// a tag key no series ever carries: predicates on it take the index paths for "key unknown in
// this measurement" (tsi1: no tag-value iterator at all; inmem: an empty one), where a missing
// tag must still read as the empty value
const absentKey = "zone"

func genLeaf(r *hx.Rand) *Pred {
	k := uKeys[r.Intn(len(uKeys))]
	if r.Chance(15) {
		k = absentKey
	}
	switch r.Intn(8) {
	case 0, 1:
		return &Pred{T: "eq", K: k, V: uVals[r.Intn(len(uVals))]}
	case 2:
		return &Pred{T: "neq", K: k, V: uVals[r.Intn(len(uVals))]}
	case 3:
		if r.Bool() {
			return &Pred{T: "eq", K: k, V: ""}
		}
		return &Pred{T: "neq", K: k, V: ""}
	case 4, 5:
		return &Pred{T: "re", K: k, V: uPats[r.Intn(len(uPats))]}
	default:
		return &Pred{T: "nre", K: k, V: uPats[r.Intn(len(uPats))]}
	}
}

func genPred(r *hx.Rand, depth int) *Pred {
	if depth <= 0 || r.Chance(55) {
		return genLeaf(r)
	}
	t := "and"
	if r.Bool() {
		t = "or"
	}
	return &Pred{T: t, L: genPred(r, depth-1), R: genPred(r, depth-1)}
}

func genOptPred(r *hx.Rand) *Pred {
	if r.Chance(30) {
		return nil
	}
	return genPred(r, 2)
}

func genQuery(r *hx.Rand, d *Desc) *Query {
	m := uMeas[r.Intn(2)]
	if r.Chance(20) {
		m = uMeas[r.Intn(len(uMeas))]
	}
	switch r.Intn(14) {
	case 12, 13:
		return &Query{Kind: "shseries", Sh: 1 + r.Intn(d.NShards), M: m, Cond: genOptPred(r)}
	case 0:
		return &Query{Kind: "names"}
	case 1, 2:
		return &Query{Kind: "names", Cond: genPred(r, 2)}
	case 3:
		q := &Query{Kind: "tagkeys"}
		if r.Bool() {
			q.M = m
		}
		return q
	case 4:
		return &Query{Kind: "tagkeys", M: m, Cond: genPred(r, 1)}
	case 5, 6:
		return &Query{Kind: "tagvals", M: m, K: uKeys[r.Intn(len(uKeys))]}
	case 7:
		return &Query{Kind: "tagvals", M: m, K: uKeys[r.Intn(len(uKeys))], Cond: genPred(r, 1)}
	case 8, 9:
		return &Query{Kind: "series", M: m, Cond: genOptPred(r)}
	case 10:
		return &Query{Kind: "card"}
	default:
		return &Query{Kind: "sfile"}
	}
}

func genShardSubset(r *hx.Rand, n int) []int {
	// contiguous: all, a prefix, a suffix or a single shard
	all := make([]int, n)
	for i := range all {
		all[i] = i + 1
	}
	if n == 1 || r.Chance(45) {
		return all
	}
	switch r.Intn(3) {
	case 0:
		return all[:1+r.Intn(n-1)]
	case 1:
		return all[1+r.Intn(n-1):]
	default:
		i := r.Intn(n)
		return all[i : i+1]
	}
}

// exactPred selects exactly one series of a measurement: every known tag key is pinned to the
// series' value, or to the empty string when the series does not have the key.
func exactPred(s Series) *Pred {
	var p *Pred
	for _, k := range uKeys {
		leaf := &Pred{T: "eq", K: k, V: s.Tag(k)}
		if p == nil {
			p = leaf
		} else {
			p = &Pred{T: "and", L: p, R: leaf}
		}
	}
	return p
}

func churnQueries(r *hx.Rand, d *Desc, m string) []Op {
	qs := []Query{{Kind: "names"}, {Kind: "series", M: m}, {Kind: "tagkeys", M: m}, {Kind: "card"},
		{Kind: "tagvals", M: m, K: uKeys[r.Intn(len(uKeys))]}, {Kind: "tagvals", M: m, K: "host"},
		{Kind: "names", Cond: genLeaf(r)}, {Kind: "series", M: m, Cond: genLeaf(r)}, {Kind: "sfile"},
		{Kind: "shseries", Sh: 1 + r.Intn(d.NShards), M: m}}
	n := 3 + r.Intn(3)
	var out []Op
	for i := 0; i < 4; i++ { // the four listings that show a vanished or lingering series directly
		q := qs[i]
		out = append(out, Op{Op: "query", Q: &q})
	}
	for i := 0; i < n-3; i++ {
		q := qs[4+r.Intn(len(qs)-4)]
		out = append(out, Op{Op: "query", Q: &q})
	}
	return out
}

// genChurn: per measurement, rounds of write-some / drop-one-old / write-new / drop-another-old
// without a reopen in between; every drop is a DELETE of a single series that pre-dates the
// previous drop; listings are compared after every step.
func genChurn(r *hx.Rand, d *Desc) {
	m := uMeas[r.Intn(2)]
	other := uMeas[2+r.Intn(2)]
	sh := 1 + r.Intn(d.NShards)
	all := make([]int, d.NShards)
	for i := range all {
		all[i] = i + 1
	}
	seen := map[string]bool{}
	var live []Series // oldest first
	fresh := func() Series {
		for {
			s := genSeries(r)
			s.M = m
			if !seen[s.Key()] {
				seen[s.Key()] = true
				return s
			}
		}
	}
	step := func(op Op) {
		d.Ops = append(d.Ops, op)
		d.Ops = append(d.Ops, churnQueries(r, d, m)...)
	}
	write := func(n int) {
		op := Op{Op: "write", Sh: sh}
		for j := 0; j < n; j++ {
			s := fresh()
			live = append(live, s)
			op.Series = append(op.Series, s)
		}
		if r.Chance(30) {
			op.Series = append(op.Series, mkS(other, "host", "a"))
		}
		step(op)
	}
	write(2 + r.Intn(2))
	rounds := 2 + r.Intn(3)
	for k := 0; k < rounds && len(live) > 0; k++ {
		// drop the oldest live series (it pre-dates the previous drop), or sometimes the second oldest
		i := 0
		if len(live) > 2 && r.Chance(25) {
			i = 1
		}
		victim := live[i]
		live = append(live[:i:i], live[i+1:]...)
		shs := all
		if d.NShards > 1 && r.Chance(30) {
			shs = []int{sh}
		}
		step(Op{Op: "delete", Shards: shs, From: []string{m}, Cond: exactPred(victim)})
		if r.Chance(25) {
			step(Op{Op: "compact"})
		}
		if r.Chance(10) {
			step(Op{Op: "sfcompact"})
		}
		write(1 + r.Intn(2))
		if r.Chance(20) {
			step(Op{Op: "snapshot", Sh: sh})
		}
	}
	// finally empty the measurement series by series, oldest first
	if r.Chance(40) {
		for len(live) > 0 {
			victim := live[0]
			live = live[1:]
			step(Op{Op: "delete", Shards: all, From: []string{m}, Cond: exactPred(victim)})
		}
		write(1)
	}
}

// ---------------------------------------------------------------- history shapes for mechanisms
// that only show after a particular sequence (each is followed by listings that would differ)

// distinctSeries returns n different series of measurement m, each with at least one tag.
func distinctSeries(r *hx.Rand, m string, n int, seen map[string]bool) []Series {
	var out []Series
	for len(out) < n {
		s := genSeries(r)
		s.M = m
		if len(s.Tags) == 0 {
			s.Tags = [][2]string{{"host", uVals[r.Intn(len(uVals))]}}
		}
		if seen[s.Key()] {
			if len(seen) > 150 {
				s.Tags = append(s.Tags, [2]string{"zone", "z" + itoa(len(seen))})
			} else {
				continue
			}
		}
		seen[s.Key()] = true
		out = append(out, s)
	}
	return out
}

// probeQueries: listings of measurement m that go through the per-tag-value series sets, the
// measurement series set and the shard's series id set, aimed at series a.
func probeQueries(r *hx.Rand, d *Desc, m string, a Series, sh int) []Op {
	var out []Op
	q := func(x Query) { out = append(out, Op{Op: "query", Q: &x}) }
	q(Query{Kind: "shseries", Sh: sh, M: m})
	q(Query{Kind: "card"})
	for _, kv := range a.Tags {
		q(Query{Kind: "shseries", Sh: sh, M: m, Cond: &Pred{T: "eq", K: kv[0], V: kv[1]}})
		switch r.Intn(4) {
		case 0:
			q(Query{Kind: "series", M: m, Cond: &Pred{T: "neq", K: kv[0], V: kv[1]}})
		case 1:
			q(Query{Kind: "shseries", Sh: sh, M: m, Cond: &Pred{T: "re", K: kv[0], V: "^" + kv[1] + "$"}})
		case 2:
			q(Query{Kind: "tagvals", M: m, K: kv[0]})
		default:
			q(Query{Kind: "shseries", Sh: sh, M: m, Cond: &Pred{T: "neq", K: kv[0], V: kv[1]}})
		}
	}
	q(Query{Kind: "series", M: m, Cond: exactPred(a)})
	if r.Chance(50) {
		q(Query{Kind: "tagkeys", M: m})
	}
	if r.Chance(50) {
		q(Query{Kind: "names", Cond: &Pred{T: "eq", K: a.Tags[0][0], V: a.Tags[0][1]}})
	}
	if r.Chance(35) {
		out = append(out, convQueries(r, d, m, sh)...)
	}
	return out
}

// convQueries: the shard converted offline to a TSI index (buildtsi) must list the same series.
func convQueries(r *hx.Rand, d *Desc, m string, sh int) []Op {
	var out []Op
	n := 1 + r.Intn(2)
	for i := 0; i < n; i++ {
		q := Query{Kind: "conv", Sh: sh, Bsz: []int{1, 1, 2, 3, 1000}[r.Intn(5)], Small: r.Chance(20), M: m}
		if r.Chance(40) {
			q.Cond = genLeaf(r)
		}
		if i > 0 {
			q.Sh = 1 + r.Intn(d.NShards)
		}
		out = append(out, Op{Op: "query", Q: &q})
	}
	return out
}

// genReadd: a series is dropped from one shard while another shard still holds it (its id stays
// alive in the series file), and written to the shard again while the same log file is active:
// tombstone and re-insert of one id in one .tsl; then the log is swapped / compacted.
func genReadd(r *hx.Rand, d *Desc) {
	d.NShards = 2 + r.Intn(2)
	d.LogSize = 1 << 20
	if r.Chance(70) {
		d.Cache = 0
	}
	m := uMeas[r.Intn(2)]
	sh := 1 + r.Intn(d.NShards)
	oth := sh%d.NShards + 1
	seen := map[string]bool{}
	ss := distinctSeries(r, m, 2+r.Intn(2), seen)
	a := ss[0]
	add := func(ops ...Op) { d.Ops = append(d.Ops, ops...) }
	add(Op{Op: "write", Sh: sh, Series: ss})
	add(Op{Op: "write", Sh: oth, Series: ss[:1+r.Intn(len(ss))]})
	if r.Chance(35) {
		add(Op{Op: "compact"})
	}
	rounds := 1 + r.Intn(2)
	for k := 0; k < rounds; k++ {
		switch r.Intn(3) {
		case 0:
			add(Op{Op: "delete", Shards: []int{sh}, From: []string{m}, Cond: exactPred(a)})
		case 1:
			add(Op{Op: "delete", Shards: []int{sh}, From: []string{m}, Cond: &Pred{T: "eq", K: a.Tags[0][0], V: a.Tags[0][1]}})
		default:
			add(Op{Op: "delete", Shards: []int{sh}, From: []string{m}})
		}
		if r.Chance(50) {
			add(probeQueries(r, d, m, a, sh)[:2]...)
		}
		w := Op{Op: "write", Sh: sh, Series: []Series{a}}
		if r.Chance(40) {
			w.Series = append(w.Series, distinctSeries(r, m, 1, seen)...)
		}
		add(w)
	}
	if r.Chance(40) {
		add(probeQueries(r, d, m, a, sh)...)
	}
	add(Op{Op: "compact"})
	add(probeQueries(r, d, m, a, sh)...)
	if r.Chance(60) {
		add(Op{Op: "reopen"})
		add(probeQueries(r, d, m, a, sh)...)
	}
	if r.Chance(50) {
		add(Op{Op: "write", Sh: sh, Series: distinctSeries(r, m, 1, seen)}, Op{Op: "compact"})
		add(probeQueries(r, d, m, a, sh)...)
	}
}

// genLevels: a series sits in a level >= 2 index file, newer level-1 files exist, the series is
// dropped from the shard (another shard keeps its id alive) and the tombstone, in the newest
// level-1 file, is merged upwards; then a restart rebuilds the shard's series set from the files.
func genLevels(r *hx.Rand, d *Desc) {
	d.NShards = 2
	d.LogSize = []int{1 << 20, 1 << 20, 1}[r.Intn(3)]
	m := uMeas[r.Intn(2)]
	sh := 1 + r.Intn(2)
	oth := 3 - sh
	seen := map[string]bool{}
	a := distinctSeries(r, m, 1, seen)[0]
	add := func(ops ...Op) { d.Ops = append(d.Ops, ops...) }
	step := func(ss ...Series) {
		add(Op{Op: "write", Sh: sh, Series: ss})
		if d.LogSize > 1 {
			add(Op{Op: "compact"})
		}
	}
	add(Op{Op: "write", Sh: oth, Series: []Series{a}})
	step(a)
	for i, n := 0, 1+r.Intn(3); i < n; i++ { // a moves up the levels
		step(distinctSeries(r, m, 1+r.Intn(2), seen)...)
	}
	for i, n := 0, r.Intn(3); i < n; i++ {
		step(distinctSeries(r, m, 1, seen)...)
	}
	add(Op{Op: "delete", Shards: []int{sh}, From: []string{m}, Cond: exactPred(a)})
	if d.LogSize > 1 {
		add(Op{Op: "compact"})
	}
	add(probeQueries(r, d, m, a, sh)...)
	for i, n := 0, r.Intn(3); i < n; i++ {
		step(distinctSeries(r, m, 1, seen)...)
	}
	add(Op{Op: "reopen"})
	add(probeQueries(r, d, m, a, sh)...)
	if r.Chance(40) {
		add(Op{Op: "delete", Shards: []int{oth}, From: []string{m}, Cond: exactPred(a)})
		add(Op{Op: "query", Q: &Query{Kind: "sfile"}}, Op{Op: "query", Q: &Query{Kind: "series", M: m}})
	}
}

// genSegRoll: the series file starts a new segment; tombstones (or nothing) go into it; after a
// restart the next series id has to come from an older segment; new series are then created.
func genSegRoll(r *hx.Rand, d *Desc) {
	ms := []string{uMeas[r.Intn(2)], uMeas[2+r.Intn(2)]}
	seen := map[string]bool{}
	add := func(ops ...Op) { d.Ops = append(d.Ops, ops...) }
	listings := func() {
		for _, m := range ms {
			add(Op{Op: "query", Q: &Query{Kind: "series", M: m}})
		}
		add(Op{Op: "query", Q: &Query{Kind: "sfile"}}, Op{Op: "query", Q: &Query{Kind: "card"}})
		m := ms[r.Intn(2)]
		add(Op{Op: "query", Q: &Query{Kind: "tagvals", M: m, K: "host"}})
		add(Op{Op: "query", Q: &Query{Kind: "shseries", Sh: 1 + r.Intn(d.NShards), M: m, Cond: genOptPred(r)}})
		if r.Chance(30) {
			add(convQueries(r, d, m, 1+r.Intn(d.NShards))...)
		}
	}
	old := append(distinctSeries(r, ms[0], 3+r.Intn(4), seen), distinctSeries(r, ms[1], 1+r.Intn(3), seen)...)
	for i := 0; i < len(old); {
		n := 1 + r.Intn(4)
		if i+n > len(old) {
			n = len(old) - i
		}
		add(Op{Op: "write", Sh: 1 + r.Intn(d.NShards), Series: old[i : i+n]})
		i += n
	}
	if r.Chance(30) {
		add(Op{Op: "sfcompact"})
	}
	add(Op{Op: "sfroll"})
	all := make([]int, d.NShards)
	for i := range all {
		all[i] = i + 1
	}
	switch r.Intn(4) {
	case 0:
		add(Op{Op: "delete", Shards: all, From: []string{old[0].M}, Cond: exactPred(old[0])})
	case 1:
		add(Op{Op: "dropm", M: ms[1]})
	case 2:
		add(Op{Op: "delete", Shards: all, From: []string{ms[0]}, Cond: genLeaf(r)})
	}
	if r.Chance(20) {
		add(Op{Op: "sfroll"})
	}
	if r.Chance(25) {
		add(Op{Op: "sfcompact"})
	}
	if r.Chance(30) {
		listings()
	}
	add(Op{Op: "reopen"})
	fresh := append(distinctSeries(r, ms[0], 3+r.Intn(4), seen), distinctSeries(r, ms[1], 1+r.Intn(3), seen)...)
	for i := 0; i < len(fresh); {
		n := 1 + r.Intn(4)
		if i+n > len(fresh) {
			n = len(fresh) - i
		}
		add(Op{Op: "write", Sh: 1 + r.Intn(d.NShards), Series: fresh[i : i+n]})
		i += n
	}
	listings()
	if r.Chance(50) {
		add(Op{Op: "reopen"})
		listings()
	}
}

// genShardDrop: a shard is deleted (retention): the series only it held leave the series file and
// the database-wide in-memory index without an Index.Rebuild, while the measurement lives on
// through series of other shards; then as many new series are created as were dropped (the
// measurement's lazily sorted id list must not be taken for valid by its length), and listed.
func genShardDrop(r *hx.Rand, d *Desc) {
	d.NShards = 2 + r.Intn(2)
	m := uMeas[r.Intn(2)]
	sh := 1 + r.Intn(d.NShards)
	oth := sh%d.NShards + 1
	seen := map[string]bool{}
	add := func(ops ...Op) { d.Ops = append(d.Ops, ops...) }
	listings := func(full bool) {
		add(Op{Op: "query", Q: &Query{Kind: "series", M: m}})
		if !full {
			return
		}
		add(Op{Op: "query", Q: &Query{Kind: "card"}}, Op{Op: "query", Q: &Query{Kind: "names"}})
		add(Op{Op: "query", Q: &Query{Kind: "tagvals", M: m, K: uKeys[r.Intn(len(uKeys))]}})
		add(Op{Op: "query", Q: &Query{Kind: "series", M: m, Cond: genLeaf(r)}})
		add(Op{Op: "query", Q: &Query{Kind: "shseries", Sh: 1 + r.Intn(d.NShards), M: m}})
		add(Op{Op: "query", Q: &Query{Kind: "tagkeys", M: m}})
		if r.Chance(30) {
			add(Op{Op: "query", Q: &Query{Kind: "sfile"}})
		}
	}
	rounds := 1 + r.Intn(2)
	stay := distinctSeries(r, m, 1+r.Intn(2), seen)
	add(Op{Op: "write", Sh: oth, Series: stay})
	for k := 0; k < rounds; k++ {
		own := distinctSeries(r, m, 1+r.Intn(3), seen)
		w := Op{Op: "write", Sh: sh, Series: own}
		if r.Chance(40) {
			w.Series = append(append([]Series{}, own...), stay[0])
		}
		if r.Chance(30) {
			w.Series = append(append([]Series{}, w.Series...), mkS(uMeas[2], "host", "a"))
		}
		add(w)
		if r.Chance(25) {
			add(Op{Op: "snapshot", Sh: sh})
		}
		listings(true)
		add(Op{Op: "dropshard", Sh: sh})
		if r.Chance(30) {
			listings(r.Chance(50))
		}
		nnew := len(own)
		if r.Chance(25) {
			nnew = 1 + r.Intn(3)
		}
		fresh := distinctSeries(r, m, nnew, seen)
		target := sh
		if r.Chance(40) {
			target = oth
		}
		if nnew > 1 && r.Chance(40) { // two writes, nothing listed in between
			add(Op{Op: "write", Sh: target, Series: fresh[:1]}, Op{Op: "write", Sh: sh, Series: fresh[1:]})
		} else {
			add(Op{Op: "write", Sh: target, Series: fresh})
		}
		listings(true)
		if r.Chance(30) {
			add(Op{Op: "delete", Shards: []int{oth}, From: []string{m}, Cond: exactPred(stay[0])})
			listings(true)
		}
	}
	if r.Chance(30) {
		add(Op{Op: "reopen"})
		listings(true)
	}
}

func genHistory(r *hx.Rand, tier string) *Desc {
	d := &Desc{NShards: 1 + r.Intn(2), PartN: []int{1, 1, 2, 8}[r.Intn(4)], LogSize: []int{1, 1, 200, 1 << 20}[r.Intn(4)],
		SfThresh: []int{0, 1, 2, 4}[r.Intn(4)], Cache: []int{0, 100}[r.Intn(2)]}
	if r.Chance(10) {
		d.NShards = 3
	}
	switch x := r.Intn(100); {
	case x < 30:
		genChurn(r, d)
		if r.Chance(50) {
			return d
		}
	case x < 40:
		genReadd(r, d)
		if r.Chance(60) {
			return d
		}
	case x < 48:
		genLevels(r, d)
		if r.Chance(60) {
			return d
		}
	case x < 57:
		genSegRoll(r, d)
		if r.Chance(60) {
			return d
		}
	case x < 67:
		genShardDrop(r, d)
		if r.Chance(60) {
			return d
		}
	}
	nops := 4 + r.Intn(10)
	if tier == "thorough" {
		nops += r.Intn(12)
	}
	var pool []Series // series written so far, for re-creation
	for i := 0; i < nops; i++ {
		switch x := r.Intn(100); {
		case x < 38:
			op := Op{Op: "write", Sh: 1 + r.Intn(d.NShards)}
			n := 1 + r.Intn(4)
			for j := 0; j < n; j++ {
				if len(pool) > 0 && r.Chance(35) {
					op.Series = append(op.Series, pool[r.Intn(len(pool))])
				} else {
					s := genSeries(r)
					pool = append(pool, s)
					op.Series = append(op.Series, s)
				}
			}
			d.Ops = append(d.Ops, op)
		case x < 58:
			op := Op{Op: "delete", Shards: genShardSubset(r, d.NShards), Cond: genOptPred(r)}
			if r.Chance(75) {
				op.From = []string{uMeas[r.Intn(2)]}
				if r.Chance(15) {
					op.From = append(op.From, uMeas[2+r.Intn(2)])
				}
			}
			if op.From == nil {
				op.From = []string{}
			}
			d.Ops = append(d.Ops, op)
		case x < 63:
			d.Ops = append(d.Ops, Op{Op: "dropm", M: uMeas[r.Intn(len(uMeas))]})
		case x < 66:
			d.Ops = append(d.Ops, Op{Op: "dropshard", Sh: 1 + r.Intn(d.NShards)})
		case x < 78:
			d.Ops = append(d.Ops, Op{Op: "compact"})
		case x < 82:
			d.Ops = append(d.Ops, Op{Op: "sfcompact"})
		case x < 85:
			d.Ops = append(d.Ops, Op{Op: "sfroll"})
		case x < 90:
			d.Ops = append(d.Ops, Op{Op: "snapshot", Sh: 1 + r.Intn(d.NShards)})
		default:
			d.Ops = append(d.Ops, Op{Op: "reopen"})
		}
		// observe after most steps
		nq := r.Intn(3)
		for j := 0; j < nq; j++ {
			d.Ops = append(d.Ops, Op{Op: "query", Q: genQuery(r, d)})
		}
	}
	nq := 2 + r.Intn(3)
	for j := 0; j < nq; j++ {
		d.Ops = append(d.Ops, Op{Op: "query", Q: genQuery(r, d)})
	}
	if r.Chance(30) {
		d.Ops = append(d.Ops, convQueries(r, d, uMeas[r.Intn(2)], 1+r.Intn(d.NShards))...)
	}
	return d
}

// ---------------------------------------------------------------- Go-side reference (triage aid only;
// the authoritative spec is theories/C14/Spec.v, evaluated by bin/check inside Coq)

func (s Series) Key() string {
	var sb strings.Builder
	sb.WriteString(s.M)
	for _, kv := range s.Tags {
		sb.WriteString("," + kv[0] + "=" + kv[1])
	}
	return sb.String()
}

func (s Series) Tag(k string) string {
	for _, kv := range s.Tags {
		if kv[0] == k {
			return kv[1]
		}
	}
	return ""
}

var reCache = map[string]*regexp.Regexp{}

func reMatch(p, s string) bool {
	re := reCache[p]
	if re == nil {
		re = regexp.MustCompile(p)
		reCache[p] = re
	}
	return re.MatchString(s)
}

func leafMatch(p *Pred, v string) bool {
	switch p.T {
	case "eq":
		return v == p.V
	case "neq":
		return v != p.V
	case "re":
		return reMatch(p.V, v)
	case "nre":
		return !reMatch(p.V, v)
	}
	panic("leaf")
}

func evalPred(p *Pred, s Series) bool {
	if p == nil {
		return true
	}
	switch p.T {
	case "and":
		return evalPred(p.L, s) && evalPred(p.R, s)
	case "or":
		return evalPred(p.L, s) || evalPred(p.R, s)
	}
	return leafMatch(p, s.Tag(p.K))
}

type RefState struct {
	shards []map[string]Series
}

func newRef(n int) *RefState {
	r := &RefState{}
	for i := 0; i < n; i++ {
		r.shards = append(r.shards, map[string]Series{})
	}
	return r
}

func (r *RefState) apply(op *Op) {
	switch op.Op {
	case "write":
		for _, s := range op.Series {
			r.shards[op.Sh-1][s.Key()] = s
		}
	case "delete":
		for _, sh := range op.Shards {
			for k, s := range r.shards[sh-1] {
				in := len(op.From) == 0
				for _, m := range op.From {
					if m == s.M {
						in = true
					}
				}
				if in && evalPred(op.Cond, s) {
					delete(r.shards[sh-1], k)
				}
			}
		}
	case "dropshard":
		r.shards[op.Sh-1] = map[string]Series{}
	case "dropm":
		for _, m := range r.shards {
			for k, s := range m {
				if s.M == op.M {
					delete(m, k)
				}
			}
		}
	}
}

func (r *RefState) union() []Series {
	u := map[string]Series{}
	for _, m := range r.shards {
		for k, s := range m {
			u[k] = s
		}
	}
	var keys []string
	for k := range u {
		keys = append(keys, k)
	}
	sort.Strings(keys)
	var out []Series
	for _, k := range keys {
		out = append(out, u[k])
	}
	return out
}

// namesPred: SHOW MEASUREMENTS WHERE semantics: a leaf selects the measurements that have
// the tag key and whose set of values for it contains a matching value (positive ops) /
// contains no matching value (negative ops); AND/OR are intersection/union of name sets.
func namesPred(p *Pred, u []Series) map[string]bool {
	out := map[string]bool{}
	switch p.T {
	case "and", "or":
		l, rr := namesPred(p.L, u), namesPred(p.R, u)
		for m := range l {
			if p.T == "or" || rr[m] {
				out[m] = true
			}
		}
		if p.T == "or" {
			for m := range rr {
				out[m] = true
			}
		}
		return out
	}
	hasKey := map[string]bool{}
	match := map[string]bool{}
	pos := &Pred{T: p.T, K: p.K, V: p.V}
	if p.T == "neq" {
		pos.T = "eq"
	} else if p.T == "nre" {
		pos.T = "re"
	}
	for _, s := range u {
		v := s.Tag(p.K)
		if v == "" {
			continue
		}
		hasKey[s.M] = true
		if leafMatch(pos, v) {
			match[s.M] = true
		}
	}
	for m := range hasKey {
		if match[m] == (p.T == "eq" || p.T == "re") {
			out[m] = true
		}
	}
	return out
}

func (r *RefState) observe(q *Query) Obs {
	u := r.union()
	o := Obs{Rows: [][]string{}}
	seen := map[string]bool{}
	add := func(row ...string) {
		k := strings.Join(row, "\x00")
		if !seen[k] {
			seen[k] = true
			o.Rows = append(o.Rows, row)
		}
	}
	switch q.Kind {
	case "names":
		if q.Cond == nil {
			for _, s := range u {
				add(s.M)
			}
		} else {
			for m := range namesPred(q.Cond, u) {
				add(m)
			}
		}
	case "tagkeys":
		for _, s := range u {
			if q.M != "" && s.M != q.M {
				continue
			}
			if !evalPred(q.Cond, s) {
				continue
			}
			for _, kv := range s.Tags {
				add(s.M, kv[0])
			}
		}
	case "tagvals":
		for _, s := range u {
			if s.M != q.M || !evalPred(q.Cond, s) {
				continue
			}
			if v := s.Tag(q.K); v != "" {
				add(s.M, q.K, v)
			}
		}
	case "series", "sfile":
		for _, s := range u {
			if q.Kind == "series" && (s.M != q.M || !evalPred(q.Cond, s)) {
				continue
			}
			row := []string{s.M}
			for _, kv := range s.Tags {
				row = append(row, kv[0], kv[1])
			}
			o.Rows = append(o.Rows, row)
		}
	case "shseries", "conv":
		for _, s := range r.shards[q.Sh-1] {
			if s.M != q.M || !evalPred(q.Cond, s) {
				continue
			}
			row := []string{s.M}
			for _, kv := range s.Tags {
				row = append(row, kv[0], kv[1])
			}
			o.Rows = append(o.Rows, row)
		}
	case "card":
		o.Rows = append(o.Rows, []string{itoa(len(u))})
		for _, m := range r.shards {
			o.Rows = append(o.Rows, []string{itoa(len(m))})
		}
		return o
	}
	sortRows(o.Rows)
	return o
}

func itoa(n int) string {
	if n == 0 {
		return "0"
	}
	s := ""
	for n > 0 {
		s = string(rune('0'+n%10)) + s
		n /= 10
	}
	return s
}

// ---------------------------------------------------------------- designed histories

func mkS(m string, kv ...string) Series {
	s := Series{M: m, Tags: [][2]string{}}
	for i := 0; i+1 < len(kv); i += 2 {
		s.Tags = append(s.Tags, [2]string{kv[i], kv[i+1]})
	}
	sort.Slice(s.Tags, func(i, j int) bool { return s.Tags[i][0] < s.Tags[j][0] })
	return s
}

func battery(nsh int, ms ...string) []Op {
	var out []Op
	q := func(x Query) { out = append(out, Op{Op: "query", Q: &x}) }
	q(Query{Kind: "names"})
	q(Query{Kind: "card"})
	q(Query{Kind: "sfile"})
	q(Query{Kind: "tagkeys"})
	q(Query{Kind: "names", Cond: &Pred{T: "eq", K: "host", V: "a"}})
	q(Query{Kind: "names", Cond: &Pred{T: "nre", K: "host", V: "^(a|b)$"}})
	q(Query{Kind: "names", Cond: &Pred{T: "neq", K: "dc", V: "zz"}})
	for _, m := range ms {
		q(Query{Kind: "tagkeys", M: m})
		q(Query{Kind: "tagkeys", M: m, Cond: &Pred{T: "re", K: "host", V: ".*"}})
		q(Query{Kind: "tagvals", M: m, K: "host"})
		q(Query{Kind: "tagvals", M: m, K: "region"})
		q(Query{Kind: "tagvals", M: m, K: "host", Cond: &Pred{T: "neq", K: "region", V: ""}})
		q(Query{Kind: "series", M: m})
		// a key the measurement never had: the empty string satisfies these, so every series is selected
		q(Query{Kind: "series", M: m, Cond: &Pred{T: "re", K: absentKey, V: "^$|east"}})
		q(Query{Kind: "tagvals", M: m, K: "host", Cond: &Pred{T: "re", K: absentKey, V: ".*"}})
		q(Query{Kind: "series", M: m, Cond: &Pred{T: "nre", K: absentKey, V: "."}})
		q(Query{Kind: "series", M: m, Cond: &Pred{T: "eq", K: "host", V: "a"}})
		q(Query{Kind: "series", M: m, Cond: &Pred{T: "or", L: &Pred{T: "re", K: "host", V: "^a"}, R: &Pred{T: "eq", K: "region", V: ""}}})
		for sh := 1; sh <= nsh; sh++ {
			q(Query{Kind: "shseries", Sh: sh, M: m})
			q(Query{Kind: "shseries", Sh: sh, M: m, Cond: &Pred{T: "neq", K: "host", V: "b"}})
		}
	}
	return out
}

func designed() []*Desc {
	var out []*Desc
	add := func(nsh, partn, logsize, sfth, cache int, steps ...[]Op) {
		d := &Desc{NShards: nsh, PartN: partn, LogSize: logsize, SfThresh: sfth, Cache: cache}
		for _, st := range steps {
			d.Ops = append(d.Ops, st...)
		}
		out = append(out, d)
	}
	one := func(o Op) []Op { return []Op{o} }
	w := func(sh int, ss ...Series) []Op { return one(Op{Op: "write", Sh: sh, Series: ss}) }
	del := func(shs []int, from []string, c *Pred) []Op {
		if from == nil {
			from = []string{}
		}
		return one(Op{Op: "delete", Shards: shs, From: from, Cond: c})
	}
	compact, sfc, reopen := one(Op{Op: "compact"}), one(Op{Op: "sfcompact"}), one(Op{Op: "reopen"})
	ca, cb, cc := mkS("cpu", "host", "a", "region", "x"), mkS("cpu", "host", "b", "region", "x"), mkS("cpu", "host", "c", "region", "y")
	ma := mkS("mem", "host", "a")

	for _, cfg := range [][4]int{{1, 1 << 20, 0, 0}, {8, 1, 1, 100}} {
		pn, ls, sft, ch := cfg[0], cfg[1], cfg[2], cfg[3]
		// a tag value / key whose last series is dropped (tsi1 kept listing them)
		add(1, pn, ls, sft, ch, w(1, ca, cb, ma), battery(1, "cpu"), del([]int{1}, []string{"cpu"}, &Pred{T: "eq", K: "host", V: "a"}),
			battery(1, "cpu"), compact, battery(1, "cpu"), reopen, battery(1, "cpu"))
		add(1, pn, ls, sft, ch, w(1, ca, mkS("cpu", "dc", "x")), del([]int{1}, []string{"cpu"}, &Pred{T: "eq", K: "dc", V: ""}), battery(1, "cpu"),
			reopen, battery(1, "cpu"))
		// a series dropped from one shard only (tsi1 kept returning it for that shard)
		add(2, pn, ls, sft, ch, w(1, ca, cb), w(2, ca, cc), compact, del([]int{1}, []string{"cpu"}, &Pred{T: "eq", K: "host", V: "a"}),
			battery(2, "cpu"), compact, battery(2, "cpu"), reopen, battery(2, "cpu"), del([]int{2}, nil, nil), battery(2, "cpu"))
		// drop, series-file compaction, restart (tsi1 counted the dropped series again)
		add(1, pn, ls, sft, ch, w(1, ma, mkS("mem", "host", "b")), compact, del([]int{1}, []string{"mem"}, &Pred{T: "eq", K: "host", V: "b"}),
			sfc, battery(1, "mem"), reopen, battery(1, "mem"), w(1, mkS("mem", "host", "b")), sfc, reopen, battery(1, "mem"))
		// DELETE without FROM over several measurements (deadlocked on a log roll)
		add(1, pn, ls, sft, ch, w(1, ca, ma, mkS("disk", "host", "b"), mkS("cp", "dc", "x")), del([]int{1}, nil, nil), battery(1, "cpu", "mem"))
		// drop measurement, re-create with other tags, across compactions and restart
		add(1, pn, ls, sft, ch, w(1, ca, cb), compact, one(Op{Op: "dropm", M: "cpu"}), battery(1, "cpu"), compact,
			w(1, mkS("cpu", "dc", "y")), battery(1, "cpu"), compact, battery(1, "cpu"), reopen, battery(1, "cpu"))
		// several levels: L1 files merged to L2 and further, with drops and re-creations in between
		add(2, pn, ls, sft, ch, w(1, ca), compact, w(1, cb), compact, w(1, cc), compact, del([]int{1}, []string{"cpu"}, &Pred{T: "re", K: "host", V: "^(a|b)$"}),
			compact, w(1, ca), compact, w(2, cb, ma), compact, battery(2, "cpu"), sfc, reopen, battery(2, "cpu"),
			one(Op{Op: "dropm", M: "cpu"}), compact, reopen, battery(2, "cpu", "mem"))
		// series a,b; drop a; write c; drop b; write d; drop c: every series written after a drop must survive
		// the drop of an older one (inmem Rebuild must re-point the surviving series objects)
		{
			ha, hb, hc, hd := mkS("cpu", "host", "a"), mkS("cpu", "host", "b"), mkS("cpu", "host", "c", "region", "x"), mkS("cpu", "dc", "y")
			add(1, pn, ls, sft, ch, w(1, ha, hb), battery(1, "cpu"), del([]int{1}, []string{"cpu"}, exactPred(ha)), battery(1, "cpu"),
				w(1, hc), battery(1, "cpu"), del([]int{1}, []string{"cpu"}, exactPred(hb)), battery(1, "cpu"),
				w(1, hd), battery(1, "cpu"), del([]int{1}, []string{"cpu"}, exactPred(hc)), battery(1, "cpu"))
		}
		// snapshot then delete: keys in TSM files instead of the cache
		add(2, pn, ls, sft, ch, w(1, ca, cb, ma), one(Op{Op: "snapshot", Sh: 1}), w(2, ca), del([]int{1, 2}, []string{"cpu"}, &Pred{T: "neq", K: "host", V: "b"}),
			battery(2, "cpu"), reopen, battery(2, "cpu"))
	}
	conv := func(sh, bsz int, small bool, m string, c *Pred) []Op {
		return one(Op{Op: "query", Q: &Query{Kind: "conv", Sh: sh, Bsz: bsz, Small: small, M: m, Cond: c}})
	}
	sfroll := one(Op{Op: "sfroll"})
	for _, ch := range []int{0, 100} {
		// tombstone and re-insert of one series id in one log file (another shard keeps the id alive),
		// then the log file is swapped and compacted: the re-created series under tag predicates
		add(2, 1, 1<<20, 0, ch, w(1, ca, cb), w(2, ca), del([]int{1}, []string{"cpu"}, &Pred{T: "eq", K: "host", V: "a"}), w(1, ca),
			battery(2, "cpu"), compact, battery(2, "cpu"), reopen, battery(2, "cpu"), w(1, cc), compact, battery(2, "cpu"))
		// the same with the first insert already in an index file, two rounds, 8 partitions
		add(2, 8, 1<<20, 0, ch, w(2, ca, cb), w(1, ca, cb, cc), compact, del([]int{1}, []string{"cpu"}, nil), w(1, ca),
			del([]int{1}, []string{"cpu"}, exactPred(ca)), w(1, ca, cb), compact, battery(2, "cpu"), reopen, battery(2, "cpu"))
	}
	// a tombstone merged upwards while its target sits in an older, higher-level file; restart
	for _, ls := range []int{1 << 20, 1} {
		c := compact
		if ls == 1 {
			c = nil
		}
		add(2, 1, ls, 0, 0, w(2, ca), w(1, ca), c, w(1, cb), c, w(1, cc), c, del([]int{1}, []string{"cpu"}, exactPred(ca)), c,
			battery(2, "cpu"), reopen, battery(2, "cpu"), w(1, mkS("cpu", "host", "d")), c, w(1, mkS("cpu", "host", "e")), c, reopen, battery(2, "cpu"),
			del([]int{2}, []string{"cpu"}, exactPred(ca)), battery(2, "cpu"))
		add(2, 1, ls, 0, 0, w(2, ca, cb), w(1, ca), c, w(1, cb), c, w(1, cc), c, w(1, ma), c, w(1, mkS("cpu", "host", "d")), c,
			del([]int{1}, []string{"cpu"}, &Pred{T: "re", K: "host", V: "^(a|b)$"}), c, reopen, battery(2, "cpu"), w(1, mkS("cpu", "host", "e")), c, reopen, battery(2, "cpu"))
	}
	// series-file segment roll-over: the active segment holds only tombstones / nothing at the restart,
	// then new series are created (they must get fresh ids)
	{
		var olds, news []Series
		for i, v := range []string{"a", "b", "c", "d", "e", "f", "g", "h", "i", "j", "k", "l"} {
			s := mkS("cpu", "host", v)
			if i%3 == 2 {
				s = mkS("mem", "host", v, "region", "x")
			}
			olds = append(olds, s)
			news = append(news, mkS(s.M, "host", v+"2", "dc", "y"))
		}
		add(1, 1, 1<<20, 0, 0, w(1, olds...), sfroll, del([]int{1}, []string{"cpu"}, exactPred(olds[0])), reopen, w(1, news...), battery(1, "cpu", "mem"),
			reopen, battery(1, "cpu", "mem"))
		add(2, 8, 1, 2, 100, w(1, olds[:6]...), w(2, olds[4:]...), sfc, sfroll, reopen, w(2, news[:5]...), w(1, news[5:]...), battery(2, "cpu", "mem"),
			sfroll, sfroll, one(Op{Op: "dropm", M: "mem"}), sfc, reopen, w(1, mkS("mem", "host", "zz"), mkS("cpu", "host", "zz")), battery(2, "cpu", "mem"))
	}
	// a shard is deleted: its own series leave the series file and the database-wide in-memory index (no Rebuild);
	// the measurement lives on in another shard; the same number of new series is created, then listed
	{
		ds := func(sh int) []Op { return one(Op{Op: "dropshard", Sh: sh}) }
		cd, ce, cf := mkS("cpu", "host", "d"), mkS("cpu", "host", "e", "region", "y"), mkS("cpu", "dc", "z")
		for _, cfg := range [][4]int{{1, 1 << 20, 0, 0}, {8, 1, 1, 100}} {
			pn, ls, sft, ch := cfg[0], cfg[1], cfg[2], cfg[3]
			add(2, pn, ls, sft, ch, w(1, ca, cb), w(2, cc), battery(2, "cpu"), ds(1), w(1, cd, ce), battery(2, "cpu"), reopen, battery(2, "cpu"))
			add(2, pn, ls, sft, ch, w(1, ca, cb, cc, ma), w(2, cc), battery(2, "cpu"), ds(1), w(2, cd), w(1, ce), battery(2, "cpu"),
				ds(2), battery(2, "cpu", "mem"), w(2, cf, ca), battery(2, "cpu"), ds(1), ds(2), battery(2, "cpu"), w(1, ca), battery(2, "cpu"))
		}
	}
	// offline conversion to TSI (buildtsi): log entries buffered (DisableFsync) until Close
	add(2, 1, 1<<20, 0, 0, w(1, ca, cb, ma), w(2, cc), conv(1, 1000, false, "cpu", nil), conv(1, 1, false, "cpu", nil), conv(1, 2, false, "mem", nil),
		conv(2, 1, true, "cpu", nil), one(Op{Op: "snapshot", Sh: 1}), w(1, cc), del([]int{1}, []string{"cpu"}, exactPred(ca)),
		conv(1, 1000, false, "cpu", nil), conv(1, 2, false, "cpu", &Pred{T: "re", K: "host", V: "^(a|b)$"}), conv(1, 1, true, "cpu", nil),
		reopen, conv(1, 3, false, "cpu", &Pred{T: "neq", K: "host", V: "c"}), one(Op{Op: "dropm", M: "cpu"}), conv(1, 1000, false, "cpu", nil), conv(1, 1, false, "mem", nil))
	return out
}
