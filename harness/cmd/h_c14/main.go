// h_c14: correspondence harness for C14 (series index always matches the data, for both
// index types).  One generated history is run against a real tsdb.Store twice, once with
// the "inmem" index and once with "tsi1"; at every query point the sorted listings of both
// are recorded next to the history prefix.  The Coq side (theories/C14/Run.v) evaluates the
// model and the abstract series set on the same prefix (three-way diff).
package main

import (
	"context"
	"crypto/sha1"
	"encoding/json"
	"fmt"
	"os"
	"path/filepath"
	"regexp"
	"runtime"
	"runtime/debug"
	"sort"
	"strings"
	"sync"
	"time"

	"github.com/influxdata/influxdb/cmd/influx_inspect/buildtsi"
	"github.com/influxdata/influxdb/models"
	"github.com/influxdata/influxdb/toml"
	"github.com/influxdata/influxdb/tsdb"
	_ "github.com/influxdata/influxdb/tsdb/engine"
	"github.com/influxdata/influxdb/tsdb/engine/tsm1"
	_ "github.com/influxdata/influxdb/tsdb/index"
	"github.com/influxdata/influxdb/tsdb/index/tsi1"
	"github.com/influxdata/influxql"
	"go.uber.org/zap"
	"verifharness/hx"
)

// ---------------------------------------------------------------- input description

// Pred is the predicate AST: T in eq|neq|re|nre (K = tag key, V = value or pattern),
// and|or (L, R).
type Pred struct {
	T string `json:"t"`
	K string `json:"k,omitempty"`
	V string `json:"v,omitempty"`
	L *Pred  `json:"l,omitempty"`
	R *Pred  `json:"r,omitempty"`
}

type Series struct {
	M    string      `json:"m"`
	Tags [][2]string `json:"tags"` // sorted by key, unique keys, non-empty values
}

// Op is one step of a history.
//
//	write   : Sh, Series             points creating these series in shard Sh (times inside the shard's window)
//	delete  : Shards, From, Cond     Store.DeleteSeries over FROM measurements (empty = all) with tag predicate
//	                                 Cond and a time range that covers exactly the windows of Shards
//	dropm   : M                      Store.DeleteMeasurement
//	dropshard: Sh                    Store.DeleteShard (what retention does), then the shard is created again, empty
//	compact :                        wait for / force TSI log + level compactions on every shard (tsi1 only)
//	sfcompact:                       force a series-file partition compaction (both)
//	sfroll  :                        every series-file partition closes its active segment and starts a new one
//	                                 (what writeLogEntry does when an entry does not fit; hook VerifRollSegment)
//	snapshot: Sh                     engine cache snapshot to a TSM file
//	reopen  :                        close and reopen the store
//	query   : Q                      observe
type Op struct {
	Op     string   `json:"op"`
	Sh     int      `json:"sh,omitempty"`
	Shards []int    `json:"shards,omitempty"`
	Series []Series `json:"series,omitempty"`
	From   []string `json:"from,omitempty"`
	Cond   *Pred    `json:"cond,omitempty"`
	M      string   `json:"m,omitempty"`
	Q      *Query   `json:"q,omitempty"`
}

// Query kinds:
//
//	names    : Cond (optional)                    Store.MeasurementNames(db, cond)
//	tagkeys  : M (optional), Cond (optional)      Store.TagKeys(all shards, [_name = M AND] cond)
//	tagvals  : M, K, Cond (optional)              Store.TagValues(all shards, _name = M AND _tagKey = K [AND cond])
//	series   : M, Cond (optional)                 IndexSet(all shards).MeasurementSeriesKeysByExpr(M, cond)
//	card     :                                    Store.SeriesCardinality(db) (exact bitmap path) and per-shard SeriesN
//	sfile    :                                    keys of the undeleted ids of the series file
//	conv     : Sh, Bsz, Small, M, Cond (optional) the shard's files are copied, converted offline to a TSI index the way
//	                                              influx_inspect buildtsi does (buildtsi.IndexShard: DisableFsync, batches
//	                                              of Bsz keys, log buffer of 12*Bsz bytes, MaxLogFileSize 1 when Small else
//	                                              1 MB), the result is opened as an index and asked for the series of M
type Query struct {
	Kind  string `json:"kind"`
	Sh    int    `json:"sh,omitempty"`
	Bsz   int    `json:"bsz,omitempty"`
	Small bool   `json:"small,omitempty"`
	M     string `json:"m,omitempty"`
	K     string `json:"k,omitempty"`
	Cond  *Pred  `json:"cond,omitempty"`
}

type Desc struct {
	NShards  int  `json:"nshards"`
	PartN    int  `json:"partn"`              // tsi1.DefaultPartitionN
	LogSize  int  `json:"logsize"`            // MaxIndexLogFileSize
	SfThresh int  `json:"sfthresh"`           // SeriesPartition.CompactThreshold (0 = default)
	Cache    int  `json:"cache"`              // SeriesIDSetCacheSize
	NoSettle bool `json:"nosettle,omitempty"` // do not wait for background compactions before each step
	Ops      []Op `json:"ops"`
}

// ---------------------------------------------------------------- predicate rendering

func quoteStr(s string) string { return "'" + strings.ReplaceAll(s, "'", "\\'") + "'" }

func (p *Pred) InfluxQL() string {
	switch p.T {
	case "eq":
		return fmt.Sprintf("%q = %s", p.K, quoteStr(p.V))
	case "neq":
		return fmt.Sprintf("%q != %s", p.K, quoteStr(p.V))
	case "re":
		return fmt.Sprintf("%q =~ /%s/", p.K, p.V)
	case "nre":
		return fmt.Sprintf("%q !~ /%s/", p.K, p.V)
	case "and":
		return "(" + p.L.InfluxQL() + ") AND (" + p.R.InfluxQL() + ")"
	case "or":
		return "(" + p.L.InfluxQL() + ") OR (" + p.R.InfluxQL() + ")"
	}
	panic("bad pred " + p.T)
}

func parseCond(parts ...string) influxql.Expr {
	var nz []string
	for _, p := range parts {
		if p != "" {
			nz = append(nz, "("+p+")")
		}
	}
	if len(nz) == 0 {
		return nil
	}
	e, err := influxql.ParseExpr(strings.Join(nz, " AND "))
	if err != nil {
		panic(fmt.Sprintf("parse %q: %v", strings.Join(nz, " AND "), err))
	}
	return e
}

func condStr(p *Pred) string {
	if p == nil {
		return ""
	}
	return p.InfluxQL()
}

// ---------------------------------------------------------------- world: one real store

const dbName = "db0"
const rpName = "rp0"
const shardWindow = int64(1000) // seconds

type World struct {
	index string
	path  string
	d     *Desc
	st    *tsdb.Store
	nwr   int64
}

func tmpBase() string {
	if fi, err := os.Stat("/dev/shm"); err == nil && fi.IsDir() {
		return "/dev/shm"
	}
	return ""
}

func NewWorld(index string, d *Desc) *World {
	path, err := os.MkdirTemp(tmpBase(), "h_c14_"+index+"_")
	if err != nil {
		panic(err)
	}
	w := &World{index: index, path: path, d: d}
	w.open()
	for i := 1; i <= d.NShards; i++ {
		if err := w.st.CreateShard(dbName, rpName, uint64(i), true); err != nil {
			panic(err)
		}
	}
	w.tune()
	return w
}

func (w *World) open() {
	st := tsdb.NewStore(filepath.Join(w.path, "data"))
	st.EngineOptions.IndexVersion = w.index
	st.EngineOptions.Config.WALDir = filepath.Join(w.path, "wal")
	st.EngineOptions.Config.MaxIndexLogFileSize = toml.Size(w.d.LogSize)
	st.EngineOptions.Config.SeriesIDSetCacheSize = w.d.Cache
	st.EngineOptions.Config.MaxSeriesPerDatabase = 0
	st.EngineOptions.Config.MaxValuesPerTag = 0
	if err := st.Open(); err != nil {
		panic(err)
	}
	w.st = st
}

// tune lowers the series-file compaction threshold (exported field) on every partition.
func (w *World) tune() {
	if w.d.SfThresh <= 0 {
		return
	}
	if sf := w.sfile(); sf != nil {
		for _, p := range sf.Partitions() {
			p.CompactThreshold = w.d.SfThresh
		}
	}
}

func (w *World) sfile() *tsdb.SeriesFile {
	sh := w.st.Shard(1)
	if sh == nil {
		return nil
	}
	sf, err := sh.SeriesFile()
	if err != nil {
		return nil
	}
	return sf
}

func (w *World) Close() {
	w.st.Close()
	os.RemoveAll(w.path)
}

func (w *World) shardIDs() []uint64 {
	var ids []uint64
	for i := 1; i <= w.d.NShards; i++ {
		ids = append(ids, uint64(i))
	}
	return ids
}

// settle waits until background index / series-file compactions have finished.
func (w *World) settle() {
	for _, id := range w.shardIDs() {
		sh := w.st.Shard(id)
		if sh == nil {
			continue
		}
		if idx, err := sh.Index(); err == nil {
			if t, ok := idx.(*tsi1.Index); ok {
				t.Wait()
			}
		}
	}
	if sf := w.sfile(); sf != nil {
		waitSfile(sf)
	}
}

// waitSfile waits for running series-file partition compactions (SeriesFile.Wait only waits
// for Retain()ers; a partition runs at most one compaction, flagged by Compacting()).
func waitSfile(sf *tsdb.SeriesFile) {
	for _, p := range sf.Partitions() {
		for p.Compacting() {
			time.Sleep(time.Millisecond)
		}
	}
}

// Apply runs one step.  Background compactions are allowed to finish first: a delete that
// starts while a TSI log compaction is still swapping files can wait forever on the
// compaction (reported separately as a liveness finding), which is not what C14 is about.
func (w *World) Apply(op *Op) (err error) {
	defer func() {
		if e := recover(); e != nil {
			err = fmt.Errorf("panic: %v", e)
			fmt.Fprintf(os.Stderr, "h_c14: PANIC in step: %v\n%s\n", e, debug.Stack())
		}
	}()
	if !w.d.NoSettle {
		w.settle()
	}
	switch op.Op {
	case "write":
		var pts []models.Point
		for _, s := range op.Series {
			tags := map[string]string{}
			for _, kv := range s.Tags {
				tags[kv[0]] = kv[1]
			}
			w.nwr++
			t := time.Unix(int64(op.Sh-1)*shardWindow+(w.nwr%shardWindow), 0)
			p, err := models.NewPoint(s.M, models.NewTags(tags), models.Fields{"v": float64(w.nwr)}, t)
			if err != nil {
				return err
			}
			pts = append(pts, p)
		}
		return w.st.WriteToShard(uint64(op.Sh), pts)
	case "delete":
		// time range covering exactly the windows of op.Shards: shards are contiguous here
		// (generator only produces prefixes/suffixes/all), expressed as a min/max pair.
		lo, hi := op.Shards[0], op.Shards[0]
		for _, s := range op.Shards {
			if s < lo {
				lo = s
			}
			if s > hi {
				hi = s
			}
		}
		tr := fmt.Sprintf("time >= %ds AND time < %ds", int64(lo-1)*shardWindow, int64(hi)*shardWindow)
		if len(op.Shards) == w.d.NShards && op.Sh == 0 {
			// full range: sometimes without any time bound at all
			if w.nwr%2 == 0 {
				tr = ""
			}
		}
		cond := parseCond(condStr(op.Cond), tr)
		var sources []influxql.Source
		for _, m := range op.From {
			sources = append(sources, &influxql.Measurement{Name: m})
		}
		return w.st.DeleteSeries(dbName, sources, cond)
	case "dropm":
		return w.st.DeleteMeasurement(dbName, op.M)
	case "dropshard":
		if err := w.st.DeleteShard(uint64(op.Sh)); err != nil {
			return err
		}
		return w.st.CreateShard(dbName, rpName, uint64(op.Sh), true)
	case "compact":
		for _, id := range w.shardIDs() {
			sh := w.st.Shard(id)
			idx, err := sh.Index()
			if err != nil {
				return err
			}
			if t, ok := idx.(*tsi1.Index); ok {
				for i := 0; i < int(t.PartitionN); i++ {
					p := t.PartitionAt(i)
					if err := forceLogCompaction(p); err != nil {
						return err
					}
				}
				t.Compact()
				t.Wait()
			}
		}
		return nil
	case "sfcompact":
		sf := w.sfile()
		if sf == nil {
			return nil
		}
		waitSfile(sf)
		for _, p := range sf.Partitions() {
			if err := tsdb.NewSeriesPartitionCompactor().Compact(p); err != nil {
				return err
			}
		}
		return nil
	case "sfroll":
		sf := w.sfile()
		if sf == nil {
			return nil
		}
		waitSfile(sf)
		for _, p := range sf.Partitions() {
			if err := p.VerifRollSegment(); err != nil {
				return err
			}
		}
		return nil
	case "snapshot":
		sh := w.st.Shard(uint64(op.Sh))
		eng, err := sh.Engine()
		if err != nil {
			return err
		}
		return eng.(*tsm1.Engine).WriteSnapshot()
	case "reopen":
		w.settle()
		if err := w.st.Close(); err != nil {
			return err
		}
		w.open()
		w.tune()
		return nil
	}
	return fmt.Errorf("unknown op %q", op.Op)
}

// forceLogCompaction swaps the active log file of a partition even if it is below the
// size threshold: MaxLogFileSize is an exported field, CheckLogFile an exported method.
func forceLogCompaction(p *tsi1.Partition) error {
	old := p.MaxLogFileSize
	p.MaxLogFileSize = 1
	err := p.CheckLogFile()
	p.MaxLogFileSize = old
	p.Wait()
	return err
}

// ---------------------------------------------------------------- observations

// Obs is the canonical answer to a query: a sorted list of rows, each row a list of strings.
type Obs struct {
	Err  string     `json:"err,omitempty"`
	Rows [][]string `json:"rows"`
}

func seriesRow(name []byte, tags models.Tags) []string {
	row := []string{string(name)}
	for _, t := range tags {
		row = append(row, string(t.Key), string(t.Value))
	}
	return row
}

func sortRows(rows [][]string) {
	sort.Slice(rows, func(i, j int) bool {
		a, b := rows[i], rows[j]
		for k := 0; k < len(a) && k < len(b); k++ {
			if a[k] != b[k] {
				return a[k] < b[k]
			}
		}
		return len(a) < len(b)
	})
}

func (w *World) Observe(q *Query) (obs Obs) {
	defer func() {
		if e := recover(); e != nil {
			obs = Obs{Err: fmt.Sprintf("panic: %v", e)}
			fmt.Fprintf(os.Stderr, "h_c14: PANIC in query: %v\n%s\n", e, debug.Stack())
		}
	}()
	w.settle()
	ctx := context.Background()
	obs.Rows = [][]string{}
	switch q.Kind {
	case "names":
		names, err := w.st.MeasurementNames(ctx, nil, dbName, "", parseCond(condStr(q.Cond)))
		if err != nil {
			return Obs{Err: err.Error()}
		}
		for _, n := range names {
			obs.Rows = append(obs.Rows, []string{string(n)})
		}
	case "tagkeys":
		nm := ""
		if q.M != "" {
			nm = "_name = " + quoteStr(q.M)
		}
		res, err := w.st.TagKeys(ctx, nil, w.shardIDs(), parseCond(nm, condStr(q.Cond)))
		if err != nil {
			return Obs{Err: err.Error()}
		}
		for _, tk := range res {
			for _, k := range tk.Keys {
				obs.Rows = append(obs.Rows, []string{tk.Measurement, k})
			}
		}
	case "tagvals":
		nm := "_name = " + quoteStr(q.M)
		tk := "_tagKey = " + quoteStr(q.K)
		res, err := w.st.TagValues(ctx, nil, w.shardIDs(), parseCond(nm, tk, condStr(q.Cond)))
		if err != nil {
			return Obs{Err: err.Error()}
		}
		for _, tv := range res {
			for _, kv := range tv.Values {
				obs.Rows = append(obs.Rows, []string{tv.Measurement, kv.Key, kv.Value})
			}
		}
	case "series":
		is := tsdb.IndexSet{SeriesFile: w.sfile()}
		for _, id := range w.shardIDs() {
			idx, err := w.st.Shard(id).Index()
			if err != nil {
				return Obs{Err: err.Error()}
			}
			is.Indexes = append(is.Indexes, idx)
		}
		is = is.DedupeInmemIndexes()
		keys, err := is.MeasurementSeriesKeysByExpr([]byte(q.M), parseCond(condStr(q.Cond)))
		if err != nil {
			return Obs{Err: err.Error()}
		}
		for _, k := range keys {
			name, tags := models.ParseKeyBytes(k)
			obs.Rows = append(obs.Rows, seriesRow(name, tags))
		}
	case "shseries":
		// per-shard listing: only meaningful for tsi1 (the inmem index is database-wide by design)
		idx, err := w.st.Shard(uint64(q.Sh)).Index()
		if err != nil {
			return Obs{Err: err.Error()}
		}
		is := tsdb.IndexSet{SeriesFile: w.sfile(), Indexes: []tsdb.Index{idx}}
		keys, err := is.MeasurementSeriesKeysByExpr([]byte(q.M), parseCond(condStr(q.Cond)))
		if err != nil {
			return Obs{Err: err.Error()}
		}
		for _, k := range keys {
			name, tags := models.ParseKeyBytes(k)
			obs.Rows = append(obs.Rows, seriesRow(name, tags))
		}
	case "conv":
		return w.convert(q)
	case "card":
		n, err := w.st.SeriesCardinality(ctx, dbName)
		if err != nil {
			return Obs{Err: err.Error()}
		}
		obs.Rows = append(obs.Rows, []string{fmt.Sprint(n)})
		for _, id := range w.shardIDs() {
			obs.Rows = append(obs.Rows, []string{fmt.Sprint(w.st.Shard(id).SeriesN())})
		}
		return obs // positional, not sorted
	case "sfile":
		sf := w.sfile()
		itr := sf.SeriesIDIterator()
		defer itr.Close()
		for {
			e, err := itr.Next()
			if err != nil {
				return Obs{Err: err.Error()}
			}
			if e.SeriesID == 0 {
				break
			}
			if sf.IsDeleted(e.SeriesID) {
				continue
			}
			name, tags := sf.Series(e.SeriesID)
			obs.Rows = append(obs.Rows, seriesRow(name, tags))
		}
	default:
		return Obs{Err: "unknown query " + q.Kind}
	}
	sortRows(obs.Rows)
	return obs
}

// ---------------------------------------------------------------- offline conversion

// copyFile copies a file; long runs of zero bytes at the end (the unused part of a series
// segment) become a hole again.
func copyFile(src, dst string) error {
	data, err := os.ReadFile(src)
	if err != nil {
		return err
	}
	n := len(data)
	for n > 0 && data[n-1] == 0 {
		n--
	}
	f, err := os.Create(dst)
	if err != nil {
		return err
	}
	if _, err := f.Write(data[:n]); err != nil {
		f.Close()
		return err
	}
	if err := f.Truncate(int64(len(data))); err != nil {
		f.Close()
		return err
	}
	return f.Close()
}

func copyTree(src, dst string, skip func(rel string) bool) error {
	return filepath.Walk(src, func(path string, info os.FileInfo, err error) error {
		if err != nil {
			return err
		}
		rel, _ := filepath.Rel(src, path)
		if rel != "." && skip != nil && skip(rel) {
			if info.IsDir() {
				return filepath.SkipDir
			}
			return nil
		}
		if info.IsDir() {
			return os.MkdirAll(filepath.Join(dst, rel), 0777)
		}
		return copyFile(path, filepath.Join(dst, rel))
	})
}

// convert answers a "conv" query: copy the series file and the shard's TSM / WAL files,
// run buildtsi.IndexShard on the copy, open the index it produced and list the series.
func (w *World) convert(q *Query) (obs Obs) {
	obs.Rows = [][]string{}
	tmp, err := os.MkdirTemp(tmpBase(), "h_c14_conv_")
	if err != nil {
		return Obs{Err: err.Error()}
	}
	defer os.RemoveAll(tmp)
	shs := fmt.Sprint(q.Sh)
	dataDir := filepath.Join(tmp, "data", shs)
	walDir := filepath.Join(tmp, "wal", shs)
	if err := copyTree(filepath.Join(w.path, "data", dbName, "_series"), filepath.Join(tmp, "_series"), nil); err != nil {
		return Obs{Err: "copy: " + err.Error()}
	}
	if err := copyTree(filepath.Join(w.path, "data", dbName, rpName, shs), dataDir, func(rel string) bool {
		return rel == "index" || rel == ".index"
	}); err != nil {
		return Obs{Err: "copy: " + err.Error()}
	}
	if err := copyTree(filepath.Join(w.path, "wal", dbName, rpName, shs), walDir, nil); err != nil && !os.IsNotExist(err) {
		return Obs{Err: "copy: " + err.Error()}
	}
	sfile := tsdb.NewSeriesFile(filepath.Join(tmp, "_series"))
	if err := sfile.Open(); err != nil {
		return Obs{Err: "sfile: " + err.Error()}
	}
	defer sfile.Close()
	maxLog := int64(1 << 20)
	if q.Small {
		maxLog = 1
	}
	if err := buildtsi.IndexShard(sfile, dataDir, walDir, maxLog, 1<<30, q.Bsz, zap.NewNop(), false); err != nil {
		return Obs{Err: "IndexShard: " + err.Error()}
	}
	idx := tsi1.NewIndex(sfile, dbName, tsi1.WithPath(filepath.Join(dataDir, "index")))
	if err := idx.Open(); err != nil {
		return Obs{Err: "open: " + err.Error()}
	}
	defer idx.Close()
	// the shard hands its field set to the index (tag keys of predicates are told from field names by it)
	fs, _ := tsdb.NewMeasurementFieldSet(filepath.Join(dataDir, "fields.idx"))
	if fs != nil {
		defer fs.Close()
		idx.SetFieldSet(fs)
	}
	is := tsdb.IndexSet{SeriesFile: sfile, Indexes: []tsdb.Index{idx}}
	keys, err := is.MeasurementSeriesKeysByExpr([]byte(q.M), parseCond(condStr(q.Cond)))
	if err != nil {
		return Obs{Err: err.Error()}
	}
	for _, k := range keys {
		name, tags := models.ParseKeyBytes(k)
		obs.Rows = append(obs.Rows, seriesRow(name, tags))
	}
	sortRows(obs.Rows)
	return obs
}

// ---------------------------------------------------------------- running one history

type Result struct {
	At    int `json:"at"` // index of the query op in the history
	Inmem Obs `json:"inmem"`
	Tsi   Obs `json:"tsi"`
}

var curMu sync.Mutex
var curStamp time.Time

func setCur(cur *string, s string) {
	curMu.Lock()
	*cur = s
	curStamp = time.Now()
	curMu.Unlock()
}

// watchdogLoop: exits the process when one step takes longer than 60 s.
func watchdogLoop(cur *string) func() {
	done := make(chan struct{})
	setCur(cur, *cur)
	go func() {
		for {
			select {
			case <-done:
				return
			case <-time.After(2 * time.Second):
				curMu.Lock()
				age, what := time.Since(curStamp), *cur
				curMu.Unlock()
				if age > 60*time.Second {
					fmt.Fprintf(os.Stderr, "h_c14: HANG (no return after %v) in %s\n", age, what)
					buf := make([]byte, 1<<20)
					n := runtime.Stack(buf, true)
					os.Stderr.Write(buf[:n])
					os.Exit(3)
				}
			}
		}
	}()
	return func() { close(done) }
}

func runHistory(d *Desc) (results []Result, opErrs []string) {
	cur := "setup"
	stop := watchdogLoop(&cur)
	defer stop()
	tsi1.DefaultPartitionN = uint64(d.PartN)
	wi := NewWorld("inmem", d)
	defer wi.Close()
	wt := NewWorld("tsi1", d)
	defer wt.Close()
	for i := range d.Ops {
		op := &d.Ops[i]
		oj, _ := json.Marshal(op)
		setCur(&cur, fmt.Sprintf("op %d %s", i, oj))
		if op.Op == "query" {
			results = append(results, Result{At: i, Inmem: wi.Observe(op.Q), Tsi: wt.Observe(op.Q)})
			continue
		}
		if err := wi.Apply(op); err != nil {
			opErrs = append(opErrs, fmt.Sprintf("inmem op %d %s: %v", i, op.Op, err))
		}
		if err := wt.Apply(op); err != nil {
			opErrs = append(opErrs, fmt.Sprintf("tsi1 op %d %s: %v", i, op.Op, err))
		}
	}
	return
}

// ---------------------------------------------------------------- Coq terms

func coqNat(n int) string { return fmt.Sprintf("%d%%nat", n) }

func coqSeries(s Series) string {
	var tags []string
	for _, kv := range s.Tags {
		tags = append(tags, "("+hx.CoqStr(kv[0])+","+hx.CoqStr(kv[1])+")")
	}
	return "(" + hx.CoqStr(s.M) + "," + hx.CoqList(tags) + ")"
}

func coqPred(p *Pred) string {
	switch p.T {
	case "eq":
		return "PEq " + hx.CoqStr(p.K) + " " + hx.CoqStr(p.V)
	case "neq":
		return "PNeq " + hx.CoqStr(p.K) + " " + hx.CoqStr(p.V)
	case "re":
		return "PRe " + hx.CoqStr(p.K) + " " + hx.CoqStr(p.V)
	case "nre":
		return "PNre " + hx.CoqStr(p.K) + " " + hx.CoqStr(p.V)
	case "and":
		return "PAnd (" + coqPred(p.L) + ") (" + coqPred(p.R) + ")"
	case "or":
		return "POr (" + coqPred(p.L) + ") (" + coqPred(p.R) + ")"
	}
	panic("pred")
}

func coqOptPred(p *Pred) string {
	if p == nil {
		return "None"
	}
	return "(Some (" + coqPred(p) + "))"
}

// coqOps translates one harness step into model steps.  Compactions are scheduling, not
// semantics (theorem compaction_preserves_view): where the real store is forced or likely
// to compact, the model is told to compact too so that its compaction code is exercised.
func coqOps(d *Desc, op *Op) []string {
	switch op.Op {
	case "write":
		var ss []string
		for _, s := range op.Series {
			ss = append(ss, coqSeries(s))
		}
		out := []string{fmt.Sprintf("OWrite %s %s", coqNat(op.Sh), hx.CoqList(ss))}
		if d.LogSize <= 200 {
			out = append(out, "OCompactLog "+coqNat(op.Sh))
			if d.LogSize == 1 { // every write swaps the log file; the level compactions follow
				for lvl := 1; lvl <= 4; lvl++ {
					out = append(out, fmt.Sprintf("OCompactLevel %s %s", coqNat(op.Sh), coqNat(lvl)))
				}
			}
		}
		if d.SfThresh > 0 && d.SfThresh <= 2 {
			out = append(out, "OSfCompact")
		}
		return out
	case "delete":
		var shs, from []string
		for _, s := range op.Shards {
			shs = append(shs, coqNat(s))
		}
		for _, m := range op.From {
			from = append(from, hx.CoqStr(m))
		}
		out := []string{fmt.Sprintf("ODelete %s %s %s", hx.CoqList(shs), hx.CoqList(from), coqOptPred(op.Cond))}
		if d.LogSize <= 200 {
			for _, s := range op.Shards {
				out = append(out, "OCompactLog "+coqNat(s))
				if d.LogSize == 1 {
					for lvl := 1; lvl <= 4; lvl++ {
						out = append(out, fmt.Sprintf("OCompactLevel %s %s", coqNat(s), coqNat(lvl)))
					}
				}
			}
		}
		return out
	case "dropm":
		return []string{"ODropM " + hx.CoqStr(op.M)}
	case "dropshard":
		return []string{"ODropShard " + coqNat(op.Sh)}
	case "compact":
		var out []string
		for sh := 1; sh <= d.NShards; sh++ {
			out = append(out, "OCompactLog "+coqNat(sh))
			for lvl := 1; lvl <= 4; lvl++ {
				out = append(out, fmt.Sprintf("OCompactLevel %s %s", coqNat(sh), coqNat(lvl)))
			}
		}
		return out
	case "sfcompact":
		return []string{"OSfCompact"}
	case "sfroll":
		return []string{"OSfRoll"}
	case "snapshot":
		return []string{"OSnapshot " + coqNat(op.Sh)}
	case "reopen":
		return []string{"OReopen"}
	}
	panic("op " + op.Op)
}

func coqQuery(q *Query) string {
	switch q.Kind {
	case "names":
		return "QNames " + coqOptPred(q.Cond)
	case "tagkeys":
		m := "None"
		if q.M != "" {
			m = "(Some " + hx.CoqStr(q.M) + ")"
		}
		return "QTagKeys " + m + " " + coqOptPred(q.Cond)
	case "tagvals":
		return "QTagVals " + hx.CoqStr(q.M) + " " + hx.CoqStr(q.K) + " " + coqOptPred(q.Cond)
	case "series":
		return "QSeries " + hx.CoqStr(q.M) + " " + coqOptPred(q.Cond)
	case "shseries":
		return "QShSeries " + coqNat(q.Sh) + " " + hx.CoqStr(q.M) + " " + coqOptPred(q.Cond)
	case "conv":
		return "QConv " + coqNat(q.Sh) + " " + coqNat(q.Bsz) + " " + hx.CoqBool(q.Small) + " " + hx.CoqStr(q.M) + " " + coqOptPred(q.Cond)
	case "card":
		return "QCard"
	case "sfile":
		return "QSfile"
	}
	panic("query " + q.Kind)
}

func coqAnswer(q *Query, o Obs) string {
	if o.Err != "" {
		return "AErr"
	}
	if q.Kind == "card" {
		var ns []string
		for _, r := range o.Rows {
			ns = append(ns, r[0])
		}
		return "(ANums " + hx.CoqList(ns) + ")"
	}
	var rows []string
	for _, r := range o.Rows {
		var cells []string
		for _, c := range r {
			cells = append(cells, hx.CoqStr(c))
		}
		rows = append(rows, hx.CoqList(cells))
	}
	return "(ARows " + hx.CoqList(rows) + ")"
}

func predPatterns(p *Pred, acc map[string]bool) {
	if p == nil {
		return
	}
	switch p.T {
	case "re", "nre":
		acc[p.V] = true
	case "and", "or":
		predPatterns(p.L, acc)
		predPatterns(p.R, acc)
	}
}

// rxTable evaluates Go's regexp on every (pattern, subject) pair the case can ask for:
// patterns of the history and the query x tag values written so far and the empty string.
func rxTable(ops []Op, q *Query) string {
	pats, subj := map[string]bool{}, map[string]bool{"": true}
	for i := range ops {
		predPatterns(ops[i].Cond, pats)
		for _, s := range ops[i].Series {
			for _, kv := range s.Tags {
				subj[kv[1]] = true
			}
		}
	}
	predPatterns(q.Cond, pats)
	var ps, ss []string
	for p := range pats {
		ps = append(ps, p)
	}
	for s := range subj {
		ss = append(ss, s)
	}
	sort.Strings(ps)
	sort.Strings(ss)
	var ents []string
	for _, p := range ps {
		for _, s := range ss {
			ents = append(ents, "("+hx.CoqStr(p)+","+hx.CoqStr(s)+","+hx.CoqBool(reMatch(p, s))+")")
		}
	}
	return hx.CoqList(ents)
}

// ---------------------------------------------------------------- emitting cases

func emitHistory(o *hx.Out, d *Desc, origin string) {
	o.Begin("hist", d)
	res, errs := runHistory(d)
	ref := newRef(d.NShards)
	var prefix []Op     // non-query steps so far
	var coqops []string // the same as model steps
	nwrites, ndeletes := 0, 0
	ri := 0
	o.Count(fmt.Sprintf("cfg:shards=%d", d.NShards))
	o.Count(fmt.Sprintf("cfg:tsi_partitions=%d", d.PartN))
	o.Count(fmt.Sprintf("cfg:max_log_file_size=%d", d.LogSize))
	o.Count(fmt.Sprintf("cfg:sfile_compact_threshold=%d", d.SfThresh))
	o.Count(fmt.Sprintf("cfg:tag_value_cache=%d", d.Cache))
	for i := range d.Ops {
		op := &d.Ops[i]
		if op.Op != "query" {
			ref.apply(op)
			prefix = append(prefix, *op)
			coqops = append(coqops, coqOps(d, op)...)
			o.Count("op:" + op.Op)
			switch op.Op {
			case "write":
				nwrites++
			case "delete", "dropm", "dropshard":
				ndeletes++
			}
			continue
		}
		r := res[ri]
		ri++
		q := op.Q
		cmp := q.Kind != "shseries"
		coq := fmt.Sprintf("Case %s %s %s (%s) %s %s %s", coqNat(d.NShards), rxTable(prefix, q), hx.CoqList(coqops),
			coqQuery(q), hx.CoqBool(cmp), coqAnswer(q, r.Inmem), coqAnswer(q, r.Tsi))
		cd := *d
		cd.Ops = append(append([]Op(nil), prefix...), *op)
		dj, _ := json.Marshal(cd)
		kind := q.Kind
		if q.Cond != nil {
			kind += "+pred"
		}
		o.Count("q:" + kind)
		o.Count(fmt.Sprintf("prefix_steps:%d", (len(prefix)/4)*4))
		o.Emit(hx.Case{Kind: "hist", Coq: coq, Desc: cd,
			Obs:        map[string]interface{}{"query": q, "inmem": r.Inmem, "tsi1": r.Tsi, "go_reference": ref.observe(q), "step_errors": errs},
			Nontrivial: nwrites > 0 && (len(r.Tsi.Rows) > 0 || ndeletes > 0),
			Sig:        fmt.Sprintf("%x", sha1.Sum(dj)), Origin: origin})
	}
	for _, e := range errs {
		o.Count("step_error")
		_ = e
	}
}

// validDesc: the input is a history this harness can generate (well-formed series, shards in
// range, known steps); anything else (for instance a candidate of the driver's generic JSON
// shrinker that cut a tag pair in half) is skipped, not run.
func validDesc(d *Desc) bool {
	okStr := func(s string) bool { return s != "" && !strings.ContainsAny(s, ",= \\\"'/\n") }
	okSh := func(sh int) bool { return sh >= 1 && sh <= d.NShards }
	var okPred func(p *Pred) bool
	okPred = func(p *Pred) bool {
		if p == nil {
			return true
		}
		switch p.T {
		case "eq", "neq":
			return okStr(p.K) && (p.V == "" || okStr(p.V))
		case "re", "nre":
			if !okStr(p.K) || strings.Contains(p.V, "/") {
				return false
			}
			_, err := regexp.Compile(p.V)
			return err == nil
		case "and", "or":
			return p.L != nil && p.R != nil && okPred(p.L) && okPred(p.R)
		}
		return false
	}
	if d.NShards < 1 || d.NShards > 4 || d.PartN < 1 || d.PartN > 8 || d.PartN&(d.PartN-1) != 0 || d.LogSize < 1 || d.SfThresh < 0 || d.Cache < 0 {
		return false
	}
	for i := range d.Ops {
		op := &d.Ops[i]
		switch op.Op {
		case "write":
			if !okSh(op.Sh) || len(op.Series) == 0 {
				return false
			}
			for _, s := range op.Series {
				if !okStr(s.M) {
					return false
				}
				for j, kv := range s.Tags {
					if !okStr(kv[0]) || !okStr(kv[1]) || kv[0] == "v" || strings.HasPrefix(kv[0], "_") || kv[0] == "time" || (j > 0 && s.Tags[j-1][0] >= kv[0]) {
						return false
					}
				}
			}
		case "delete":
			if len(op.Shards) == 0 || !okPred(op.Cond) {
				return false
			}
			for j, sh := range op.Shards { // contiguous, ascending
				if !okSh(sh) || (j > 0 && sh != op.Shards[j-1]+1) {
					return false
				}
			}
			for _, m := range op.From {
				if !okStr(m) {
					return false
				}
			}
		case "dropm":
			if !okStr(op.M) {
				return false
			}
		case "snapshot", "dropshard":
			if !okSh(op.Sh) {
				return false
			}
		case "compact", "sfcompact", "sfroll", "reopen":
		case "query":
			q := op.Q
			if q == nil || !okPred(q.Cond) {
				return false
			}
			switch q.Kind {
			case "names", "card", "sfile":
			case "tagkeys":
				if q.M != "" && !okStr(q.M) {
					return false
				}
			case "tagvals":
				if !okStr(q.M) || !okStr(q.K) {
					return false
				}
			case "series":
				if !okStr(q.M) {
					return false
				}
			case "shseries":
				if !okStr(q.M) || !okSh(q.Sh) {
					return false
				}
			case "conv":
				if !okStr(q.M) || !okSh(q.Sh) || q.Bsz < 1 || q.Bsz > 100000 {
					return false
				}
			default:
				return false
			}
		default:
			return false
		}
	}
	return true
}

func main() {
	if len(os.Args) > 1 && (os.Args[1] == "fuzz" || os.Args[1] == "probe") {
		devMain()
		return
	}
	f := hx.ParseFlags()
	o := hx.NewOut(f.OutDir)
	defer o.Close()
	if f.In != "" {
		for _, in := range hx.ReadInputs(f.In) {
			var d Desc
			if err := json.Unmarshal(in.Desc, &d); err != nil {
				panic(err)
			}
			if !validDesc(&d) {
				o.Count("invalid_input_skipped") // e.g. a shrinking candidate that is not a well-formed history
				continue
			}
			emitHistory(o, &d, "replay")
		}
		return
	}
	for _, d := range designed() {
		emitHistory(o, d, "designed")
	}
	r := hx.NewRand(f.Seed)
	for i := 0; i < f.N; i++ {
		emitHistory(o, genHistory(r.Split(), f.Tier), "gen")
	}
}

func devMain() {
	if len(os.Args) > 1 && os.Args[1] == "fuzz" {
		var seed, n uint64 = 1, 50
		fmt.Sscan(os.Args[2], &seed)
		fmt.Sscan(os.Args[3], &n)
		r := hx.NewRand(seed)
		ndiff := 0
		t0 := time.Now()
		for i := uint64(0); i < n; i++ {
			d := genHistory(r.Split(), "quick")
			res, errs := runHistory(d)
			ref := newRef(d.NShards)
			ri := 0
			bad := false
			for k := range d.Ops {
				op := &d.Ops[k]
				if op.Op != "query" {
					ref.apply(op)
					continue
				}
				exp, _ := json.Marshal(ref.observe(op.Q))
				a, _ := json.Marshal(res[ri].Inmem)
				b, _ := json.Marshal(res[ri].Tsi)
				ri++
				if op.Q.Kind == "shseries" {
					a = exp // the inmem index is database-wide: no per-shard listing to compare
				}
				if string(a) != string(exp) || string(b) != string(exp) {
					if !bad {
						dj, _ := json.Marshal(d)
						fmt.Printf("HISTORY %d %s\n", i, dj)
					}
					bad = true
					qj, _ := json.Marshal(op.Q)
					tag := ""
					if string(a) != string(exp) {
						tag += " INMEM"
					}
					if string(b) != string(exp) {
						tag += " TSI"
					}
					fmt.Printf("  @%d %s%s\n    spec  %s\n    inmem %s\n    tsi   %s\n", k, qj, tag, exp, a, b)
				}
			}
			if len(errs) > 0 {
				fmt.Println("  errs:", errs)
			}
			if bad {
				ndiff++
			}
		}
		fmt.Printf("histories=%d with-diff=%d wall=%v\n", n, ndiff, time.Since(t0))
		return
	}
	if len(os.Args) > 1 && os.Args[1] == "probe" {
		data, _ := os.ReadFile(os.Args[2])
		for _, line := range strings.Split(string(data), "\n") {
			if strings.TrimSpace(line) == "" {
				continue
			}
			var d Desc
			if err := json.Unmarshal([]byte(line), &d); err != nil {
				panic(err)
			}
			res, errs := runHistory(&d)
			for _, r := range res {
				q, _ := json.Marshal(d.Ops[r.At].Q)
				a, _ := json.Marshal(r.Inmem)
				b, _ := json.Marshal(r.Tsi)
				same := "same"
				if string(a) != string(b) {
					same = "DIFF"
				}
				fmt.Printf("@%d %s %s\n  inmem %s\n  tsi   %s\n", r.At, q, same, a, b)
			}
			fmt.Println("errs:", errs)
		}
		return
	}
}
